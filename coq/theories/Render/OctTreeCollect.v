From Coq Require Import List ZArith Bool Lia Arith.
From LF Require Import Gen.MarchTables_gen Gen.ManifoldTables_gen Render.DCGrid Render.OctTree Render.OctTreeGeom.
Import ListNotations.
Local Open Scope Z_scope.

(* C03 / C04 (adaptive octrees): the topological part of DCTree<3>::collectChildren (Render/OctTree.v,
   [ocollect]) preserves the invariant [oconsistent] for every sign function, every oracle of the
   numerical tests and every tree; the executable checkers of Render/OctTree.v are sound; the pruned,
   fully subdivided tree [obuild] of any sign function satisfies the invariant; what the 256-entry
   table of dc_tree3.cpp says. *)

(* ------------------------------------------------------------------------- *)
(** * The 27 lattice points of a cell of level S k, in units of osize k *)

Lemma pt3_eq (a b c a' b' c' : Z) : a = a' -> b = b' -> c = c' -> (a, b, c) = (a', b', c').
Proof. intros -> -> ->. reflexivity. Qed.

Definition olat (x y z : Z) (k : nat) (a b c : Z) : pt3 :=
  (x + a * osize k, y + b * osize k, z + c * osize k).

(* corner i of the cell of level k at a lattice point *)
Lemma olat_corner x y z k a b c :
  ocorner_pt (olat x y z k a b c) k 0 = olat x y z k a b c /\
  ocorner_pt (olat x y z k a b c) k 1 = olat x y z k (a + 1) b c /\
  ocorner_pt (olat x y z k a b c) k 2 = olat x y z k a (b + 1) c /\
  ocorner_pt (olat x y z k a b c) k 3 = olat x y z k (a + 1) (b + 1) c /\
  ocorner_pt (olat x y z k a b c) k 4 = olat x y z k a b (c + 1) /\
  ocorner_pt (olat x y z k a b c) k 5 = olat x y z k (a + 1) b (c + 1) /\
  ocorner_pt (olat x y z k a b c) k 6 = olat x y z k a (b + 1) (c + 1) /\
  ocorner_pt (olat x y z k a b c) k 7 = olat x y z k (a + 1) (b + 1) (c + 1).
Proof. unfold olat. corner_pts. repeat apply conj; apply pt3_eq; lia. Qed.

(* the origins of the eight children *)
Lemma olat_child x y z k :
  ocorner_pt (x, y, z) k 0 = olat x y z k 0 0 0 /\ ocorner_pt (x, y, z) k 1 = olat x y z k 1 0 0 /\
  ocorner_pt (x, y, z) k 2 = olat x y z k 0 1 0 /\ ocorner_pt (x, y, z) k 3 = olat x y z k 1 1 0 /\
  ocorner_pt (x, y, z) k 4 = olat x y z k 0 0 1 /\ ocorner_pt (x, y, z) k 5 = olat x y z k 1 0 1 /\
  ocorner_pt (x, y, z) k 6 = olat x y z k 0 1 1 /\ ocorner_pt (x, y, z) k 7 = olat x y z k 1 1 1.
Proof. unfold olat. corner_pts. repeat apply conj; apply pt3_eq; lia. Qed.

(* the corners of the parent: corner i of child i *)
Lemma olat_parent x y z k :
  ocorner_pt (x, y, z) (S k) 0 = olat x y z k 0 0 0 /\ ocorner_pt (x, y, z) (S k) 1 = olat x y z k 2 0 0 /\
  ocorner_pt (x, y, z) (S k) 2 = olat x y z k 0 2 0 /\ ocorner_pt (x, y, z) (S k) 3 = olat x y z k 2 2 0 /\
  ocorner_pt (x, y, z) (S k) 4 = olat x y z k 0 0 2 /\ ocorner_pt (x, y, z) (S k) 5 = olat x y z k 2 0 2 /\
  ocorner_pt (x, y, z) (S k) 6 = olat x y z k 0 2 2 /\ ocorner_pt (x, y, z) (S k) 7 = olat x y z k 2 2 2.
Proof. unfold olat. corner_pts. rewrite osize_S. repeat apply conj; apply pt3_eq; lia. Qed.

Lemma ocorner_child_parent o k i : In i corners8 ->
  ocorner_pt (ocorner_pt o k i) k i = ocorner_pt o (S k) i.
Proof.
  destruct o as [[x y] z]. intros H. apply in_corners8 in H.
  destruct H as [-> | [-> | [-> | [-> | [-> | [-> | [-> | ->]]]]]]]; corner_pts; rewrite ?osize_S;
    apply pt3_eq; lia.
Qed.

Ltac in8 := unfold corners8; cbn [In]; auto 10.

(* the eight corner states of a consistent non-branching cell, in lattice coordinates *)
Lemma ostates ins t x y z k a b c :
  oconsistent ins t (olat x y z k a b c) k -> o_is_branch t = false ->
  ocorner_state t 0 = ins (olat x y z k a b c) /\
  ocorner_state t 1 = ins (olat x y z k (a + 1) b c) /\
  ocorner_state t 2 = ins (olat x y z k a (b + 1) c) /\
  ocorner_state t 3 = ins (olat x y z k (a + 1) (b + 1) c) /\
  ocorner_state t 4 = ins (olat x y z k a b (c + 1)) /\
  ocorner_state t 5 = ins (olat x y z k (a + 1) b (c + 1)) /\
  ocorner_state t 6 = ins (olat x y z k a (b + 1) (c + 1)) /\
  ocorner_state t 7 = ins (olat x y z k (a + 1) (b + 1) (c + 1)).
Proof.
  intros C NB.
  assert (S : forall i, In i corners8 -> ocorner_state t i = ins (ocorner_pt (olat x y z k a b c) k i))
    by (intros; apply ocorner_state_consistent; assumption).
  destruct (olat_corner x y z k a b c) as [E0 [E1 [E2 [E3 [E4 [E5 [E6 E7]]]]]]].
  repeat apply conj;
    [rewrite <- E0 | rewrite <- E1 | rewrite <- E2 | rewrite <- E3 |
     rewrite <- E4 | rewrite <- E5 | rewrite <- E6 | rewrite <- E7]; apply S; in8.
Qed.

(* a consistent non-branching cell whose eight corners have the same sign is EMPTY / FILLED *)
Lemma ononbranch_all ins t o k b :
  oconsistent ins t o k -> o_is_branch t = false ->
  (forall i, In i corners8 -> ocorner_state t i = b) ->
  t = if b then OF else OE.
Proof.
  intros C NB H. destruct t as [| |l m mf|]; try discriminate.
  - specialize (H 0 ltac:(in8)). cbn [ocorner_state] in H. subst b. reflexivity.
  - specialize (H 0 ltac:(in8)). cbn [ocorner_state] in H. subst b. reflexivity.
  - exfalso. cbn [oconsistent] in C. destruct C as [_ [Em [N0 [N255 _]]]].
    assert (H' : forall i, In i corners8 -> ins (ocorner_pt o k i) = b).
    { intros i Hi. rewrite <- (H i Hi). cbn [ocorner_state]. rewrite Em. symmetry.
      apply omask_of_testbit. exact Hi. }
    rewrite omask_of_mask8 in Em. rewrite !H' in Em by in8.
    destruct b; [apply N255|apply N0]; rewrite Em; reflexivity.
Qed.

(* the children cover the parent *)
Ltac pick_disj := idtac; first [ left; solve [lia] | right; pick_disj | solve [lia] ].

Lemma oclosed_split x y z k q : in_closed3 (x, y, z) (S k) q ->
  in_closed3 (olat x y z k 0 0 0) k q \/ in_closed3 (olat x y z k 1 0 0) k q \/
  in_closed3 (olat x y z k 0 1 0) k q \/ in_closed3 (olat x y z k 1 1 0) k q \/
  in_closed3 (olat x y z k 0 0 1) k q \/ in_closed3 (olat x y z k 1 0 1) k q \/
  in_closed3 (olat x y z k 0 1 1) k q \/ in_closed3 (olat x y z k 1 1 1) k q.
Proof.
  destruct q as [[a b] c]. unfold olat. rewrite !in_closed3_xyz, osize_S. pose proof (osize_pos k) as Hp.
  intros H.
  assert (Hx : a <= x + osize k \/ x + osize k <= a) by lia.
  assert (Hy : b <= y + osize k \/ y + osize k <= b) by lia.
  assert (Hz : c <= z + osize k \/ z + osize k <= c) by lia.
  destruct Hx, Hy, Hz; pick_disj.
Qed.

(* ------------------------------------------------------------------------- *)
(** * One call of collectChildren, in explicit form *)

Definition olm (c0 c1 c2 c3 c4 c5 c6 c7 : otree) : bool :=
  oleafs_manifold (fun i : Z => nth (Z.to_nat i) [c0; c1; c2; c3; c4; c5; c6; c7] OE)
                  (fun i : Z => ocorner_state (nth (Z.to_nat i) [c0; c1; c2; c3; c4; c5; c6; c7] OE) i).

Lemma ocollect1_eq ok k c0 c1 c2 c3 c4 c5 c6 c7 :
  ocollect1 ok k c0 c1 c2 c3 c4 c5 c6 c7 =
  let l := [c0; c1; c2; c3; c4; c5; c6; c7] in
  if existsb o_is_branch l then OB c0 c1 c2 c3 c4 c5 c6 c7
  else if forallb o_is_E l then OE
  else if forallb o_is_F l then OF
  else
    let m := mask8 (ocorner_state c0 0) (ocorner_state c1 1) (ocorner_state c2 2) (ocorner_state c3 3)
                   (ocorner_state c4 4) (ocorner_state c5 5) (ocorner_state c6 6) (ocorner_state c7 7) in
    if ocorners_manifold m && forallb ocell_manifold l && olm c0 c1 c2 c3 c4 c5 c6 c7 && ok
    then OA k m true
    else OB c0 c1 c2 c3 c4 c5 c6 c7.
Proof. reflexivity. Qed.

Lemma existsb8_false {A} (f : A -> bool) a0 a1 a2 a3 a4 a5 a6 a7 :
  existsb f [a0; a1; a2; a3; a4; a5; a6; a7] = false ->
  f a0 = false /\ f a1 = false /\ f a2 = false /\ f a3 = false /\
  f a4 = false /\ f a5 = false /\ f a6 = false /\ f a7 = false.
Proof. cbn [existsb]. rewrite !orb_false_iff. tauto. Qed.

Lemma forallb8_true {A} (f : A -> bool) a0 a1 a2 a3 a4 a5 a6 a7 :
  forallb f [a0; a1; a2; a3; a4; a5; a6; a7] = true ->
  f a0 = true /\ f a1 = true /\ f a2 = true /\ f a3 = true /\
  f a4 = true /\ f a5 = true /\ f a6 = true /\ f a7 = true.
Proof. cbn [forallb]. rewrite !andb_true_iff. tauto. Qed.

Lemma o_is_E_eq t : o_is_E t = true -> t = OE.
Proof. destruct t; cbn; congruence. Qed.
Lemma o_is_F_eq t : o_is_F t = true -> t = OF.
Proof. destruct t; cbn; congruence. Qed.

(* leafsAreManifold when the eight outer corners have the same sign b: the 12 edge midpoints, the 6
   face centres and the cell centre have sign b *)
Lemma olm_inv c0 c1 c2 c3 c4 c5 c6 c7 b :
  olm c0 c1 c2 c3 c4 c5 c6 c7 = true ->
  ocorner_state c0 0 = b -> ocorner_state c1 1 = b -> ocorner_state c2 2 = b -> ocorner_state c3 3 = b ->
  ocorner_state c4 4 = b -> ocorner_state c5 5 = b -> ocorner_state c6 6 = b -> ocorner_state c7 7 = b ->
  (ocorner_state c0 4 = b /\ ocorner_state c0 1 = b /\ ocorner_state c0 2 = b /\
   ocorner_state c1 3 = b /\ ocorner_state c1 5 = b /\ ocorner_state c2 3 = b /\
   ocorner_state c2 6 = b /\ ocorner_state c3 7 = b /\ ocorner_state c4 5 = b /\
   ocorner_state c4 6 = b /\ ocorner_state c5 7 = b /\ ocorner_state c6 7 = b) /\
  (ocorner_state c0 5 = b /\ ocorner_state c0 6 = b /\ ocorner_state c0 3 = b /\
   ocorner_state c7 1 = b /\ ocorner_state c7 2 = b /\ ocorner_state c7 4 = b) /\
  ocorner_state c0 7 = b.
Proof.
  unfold olm, oleafs_manifold. cbv beta zeta.
  repeat match goal with
         | |- context [nth (Z.to_nat ?i) ?l OE] =>
           let v := eval cbv in (nth (Z.to_nat i) l OE) in change (nth (Z.to_nat i) l OE) with v
         end.
  intros H K0 K1 K2 K3 K4 K5 K6 K7.
  rewrite K0, K1, K2, K3, K4, K5, K6, K7 in H.
  rewrite !andb_true_iff in H.
  repeat match goal with H : _ /\ _ |- _ => destruct H end.
  repeat apply conj;
    match goal with
    | |- ?v = b =>
      match goal with
      | H : context [Bool.eqb v b] |- _ => revert H; clear; destruct v, b; cbn; intros H; congruence
      end
    end.
Qed.

(* ------------------------------------------------------------------------- *)
(** * 1. collectChildren preserves the invariant *)

(* rewrite a fact about a corner state into a fact about the lattice, using the equations of [ostates] *)
Ltac to_ins ins H :=
  match type of H with
  | ocorner_state ?c ?i = _ =>
    match goal with S : ocorner_state c i = ins _ |- _ => rewrite S in H end
  end.
Ltac goal_ins ins :=
  match goal with
  | |- ocorner_state ?c ?i = _ =>
    match goal with S : ocorner_state c i = ins _ |- _ => rewrite S end
  end.

Lemma ocollect1_consistent_lat ins okb x y z k c0 c1 c2 c3 c4 c5 c6 c7 :
  oconsistent ins c0 (olat x y z k 0 0 0) k -> oconsistent ins c1 (olat x y z k 1 0 0) k ->
  oconsistent ins c2 (olat x y z k 0 1 0) k -> oconsistent ins c3 (olat x y z k 1 1 0) k ->
  oconsistent ins c4 (olat x y z k 0 0 1) k -> oconsistent ins c5 (olat x y z k 1 0 1) k ->
  oconsistent ins c6 (olat x y z k 0 1 1) k -> oconsistent ins c7 (olat x y z k 1 1 1) k ->
  oconsistent ins (OB c0 c1 c2 c3 c4 c5 c6 c7) (x, y, z) (S k) ->
  oconsistent ins (ocollect1 okb (S k) c0 c1 c2 c3 c4 c5 c6 c7) (x, y, z) (S k).
Proof.
  intros C0 C1 C2 C3 C4 C5 C6 C7 CB.
  rewrite ocollect1_eq. cbv zeta.
  destruct (existsb o_is_branch _) eqn:EB; [exact CB|].
  apply existsb8_false in EB. destruct EB as [B0 [B1 [B2 [B3 [B4 [B5 [B6 B7]]]]]]].
  destruct (forallb o_is_E _) eqn:EE.
  { apply forallb8_true in EE. destruct EE as [E0 [E1 [E2 [E3 [E4 [E5 [E6 E7]]]]]]].
    apply o_is_E_eq in E0, E1, E2, E3, E4, E5, E6, E7. subst. cbn [oconsistent] in *.
    intros q Hq. destruct (oclosed_split _ _ _ _ _ Hq) as [H|[H|[H|[H|[H|[H|[H|H]]]]]]]; auto. }
  destruct (forallb o_is_F _) eqn:EF.
  { apply forallb8_true in EF. destruct EF as [E0 [E1 [E2 [E3 [E4 [E5 [E6 E7]]]]]]].
    apply o_is_F_eq in E0, E1, E2, E3, E4, E5, E6, E7. subst. cbn [oconsistent] in *.
    intros q Hq. destruct (oclosed_split _ _ _ _ _ Hq) as [H|[H|[H|[H|[H|[H|[H|H]]]]]]]; auto. }
  match goal with |- oconsistent _ (if ?c then _ else _) _ _ => destruct c eqn:ET end; [|exact CB].
  apply andb_true_iff in ET. destruct ET as [ET _]. apply andb_true_iff in ET. destruct ET as [_ LM].
  (* everything in terms of the 27 lattice values *)
  destruct (ostates ins c0 _ _ _ _ _ _ _ C0 B0) as [S00 [S01 [S02 [S03 [S04 [S05 [S06 S07]]]]]]].
  destruct (ostates ins c1 _ _ _ _ _ _ _ C1 B1) as [S10 [S11 [S12 [S13 [S14 [S15 [S16 S17]]]]]]].
  destruct (ostates ins c2 _ _ _ _ _ _ _ C2 B2) as [S20 [S21 [S22 [S23 [S24 [S25 [S26 S27]]]]]]].
  destruct (ostates ins c3 _ _ _ _ _ _ _ C3 B3) as [S30 [S31 [S32 [S33 [S34 [S35 [S36 S37]]]]]]].
  destruct (ostates ins c4 _ _ _ _ _ _ _ C4 B4) as [S40 [S41 [S42 [S43 [S44 [S45 [S46 S47]]]]]]].
  destruct (ostates ins c5 _ _ _ _ _ _ _ C5 B5) as [S50 [S51 [S52 [S53 [S54 [S55 [S56 S57]]]]]]].
  destruct (ostates ins c6 _ _ _ _ _ _ _ C6 B6) as [S60 [S61 [S62 [S63 [S64 [S65 [S66 S67]]]]]]].
  destruct (ostates ins c7 _ _ _ _ _ _ _ C7 B7) as [S70 [S71 [S72 [S73 [S74 [S75 [S76 S77]]]]]]].
  change (0 + 1) with 1 in *. change (1 + 1) with 2 in *.
  assert (Emask : mask8 (ocorner_state c0 0) (ocorner_state c1 1) (ocorner_state c2 2) (ocorner_state c3 3)
                        (ocorner_state c4 4) (ocorner_state c5 5) (ocorner_state c6 6) (ocorner_state c7 7)
                  = omask_of ins (x, y, z) (S k)).
  { rewrite omask_of_mask8.
    destruct (olat_parent x y z k) as [-> [-> [-> [-> [-> [-> [-> ->]]]]]]].
    rewrite S00, S11, S22, S33, S44, S55, S66, S77. reflexivity. }
  cbn [oconsistent]. split; [reflexivity|]. split; [exact Emask|].
  assert (ALL : forall b,
    ocorner_state c0 0 = b -> ocorner_state c1 1 = b -> ocorner_state c2 2 = b -> ocorner_state c3 3 = b ->
    ocorner_state c4 4 = b -> ocorner_state c5 5 = b -> ocorner_state c6 6 = b -> ocorner_state c7 7 = b ->
    let u := if b then OF else OE in
    c0 = u /\ c1 = u /\ c2 = u /\ c3 = u /\ c4 = u /\ c5 = u /\ c6 = u /\ c7 = u).
  { intros b K0 K1 K2 K3 K4 K5 K6 K7.
    destruct (olm_inv _ _ _ _ _ _ _ _ b LM K0 K1 K2 K3 K4 K5 K6 K7)
      as [[Ea [Eb [Ec [Ed [Ee [Ef [Eg [Eh [Ei [Ej [Ek El]]]]]]]]]]] [[Fa [Fb [Fc [Fd [Fe Ff]]]]] Ct]].
    cbv zeta.
    to_ins ins K0; to_ins ins K1; to_ins ins K2; to_ins ins K3; to_ins ins K4; to_ins ins K5; to_ins ins K6; to_ins ins K7.
    to_ins ins Ea; to_ins ins Eb; to_ins ins Ec; to_ins ins Ed; to_ins ins Ee; to_ins ins Ef; to_ins ins Eg; to_ins ins Eh;
      to_ins ins Ei; to_ins ins Ej; to_ins ins Ek; to_ins ins El.
    to_ins ins Fa; to_ins ins Fb; to_ins ins Fc; to_ins ins Fd; to_ins ins Fe; to_ins ins Ff; to_ins ins Ct.
    repeat apply conj;
      (eapply ononbranch_all; [eassumption|assumption|]);
      intros i Hi; apply in_corners8 in Hi;
      destruct Hi as [-> | [-> | [-> | [-> | [-> | [-> | [-> | ->]]]]]]]; goal_ins ins; assumption. }
  split; [|split; [|intros; discriminate]].
  - (* mask <> 0 *)
    intros Z0. apply mask8_zero in Z0. destruct Z0 as [K0 [K1 [K2 [K3 [K4 [K5 [K6 K7]]]]]]].
    destruct (ALL false K0 K1 K2 K3 K4 K5 K6 K7) as [-> [-> [-> [-> [-> [-> [-> ->]]]]]]].
    discriminate EE.
  - (* mask <> 255 *)
    intros Z0. apply mask8_full in Z0. destruct Z0 as [K0 [K1 [K2 [K3 [K4 [K5 [K6 K7]]]]]]].
    destruct (ALL true K0 K1 K2 K3 K4 K5 K6 K7) as [-> [-> [-> [-> [-> [-> [-> ->]]]]]]].
    discriminate EF.
Qed.

Lemma ocollect1_consistent ins okb o k c0 c1 c2 c3 c4 c5 c6 c7 :
  oconsistent ins c0 (ocorner_pt o k 0) k -> oconsistent ins c1 (ocorner_pt o k 1) k ->
  oconsistent ins c2 (ocorner_pt o k 2) k -> oconsistent ins c3 (ocorner_pt o k 3) k ->
  oconsistent ins c4 (ocorner_pt o k 4) k -> oconsistent ins c5 (ocorner_pt o k 5) k ->
  oconsistent ins c6 (ocorner_pt o k 6) k -> oconsistent ins c7 (ocorner_pt o k 7) k ->
  oconsistent ins (ocollect1 okb (S k) c0 c1 c2 c3 c4 c5 c6 c7) o (S k).
Proof.
  destruct o as [[x y] z]. intros C0 C1 C2 C3 C4 C5 C6 C7.
  assert (CB : oconsistent ins (OB c0 c1 c2 c3 c4 c5 c6 c7) (x, y, z) (S k)).
  { cbn [oconsistent pred]. rewrite !ochild_org_S. split; [discriminate|]. tauto. }
  destruct (olat_child x y z k) as [E0 [E1 [E2 [E3 [E4 [E5 [E6 E7]]]]]]].
  rewrite E0 in C0. rewrite E1 in C1. rewrite E2 in C2. rewrite E3 in C3.
  rewrite E4 in C4. rewrite E5 in C5. rewrite E6 in C6. rewrite E7 in C7.
  apply ocollect1_consistent_lat; assumption.
Qed.

Lemma ocollect_consistent_ind ins ok : forall t o k p,
  oconsistent ins t o k -> oconsistent ins (ocollect ok k p t) o k.
Proof.
  induction t as [| |l m mf|c0 IH0 c1 IH1 c2 IH2 c3 IH3 c4 IH4 c5 IH5 c6 IH6 c7 IH7];
    intros o k p C; try exact C.
  destruct (oconsistent_branch _ _ _ _ _ _ _ _ _ _ _ C) as [k' [-> [C0 [C1 [C2 [C3 [C4 [C5 [C6 C7]]]]]]]]].
  cbn [ocollect pred]. apply ocollect1_consistent; auto.
Qed.

(** collectChildren preserves the invariant, for every sign function, oracle, tree, position. *)
Theorem ocollect_consistent : forall ins ok t o k p,
  oconsistent ins t o k -> oconsistent ins (ocollect ok k p t) o k.
Proof. intros ins ok t o k p. apply ocollect_consistent_ind. Qed.

Lemma ocollect1_height okb k c0 c1 c2 c3 c4 c5 c6 c7 :
  (oheight (ocollect1 okb k c0 c1 c2 c3 c4 c5 c6 c7) <= oheight (OB c0 c1 c2 c3 c4 c5 c6 c7))%nat.
Proof.
  rewrite ocollect1_eq. cbv zeta.
  repeat match goal with |- context [if ?c then _ else _] => destruct c end;
    try apply Nat.le_refl; apply Nat.le_0_l.
Qed.

Theorem ocollect_height : forall ok t k p, (oheight (ocollect ok k p t) <= oheight t)%nat.
Proof.
  intros ok.
  induction t as [| |l m mf|c0 IH0 c1 IH1 c2 IH2 c3 IH3 c4 IH4 c5 IH5 c6 IH6 c7 IH7];
    intros k p; cbn [ocollect]; try lia.
  etransitivity; [apply ocollect1_height|]. cbn [oheight].
  apply le_n_S.
  repeat apply Nat.max_le_compat; [apply IH0|apply IH1|apply IH2|apply IH3|apply IH4|apply IH5|apply IH6|apply IH7].
Qed.

(* ------------------------------------------------------------------------- *)
(** * 2. Soundness of the executable checkers *)

Lemma in_ozrange i n : 0 <= i < n -> In i (ozrange n).
Proof.
  intros H. unfold ozrange. rewrite <- (Z2Nat.id i) by lia. apply in_map. apply in_seq. lia.
Qed.

Lemma in_oclosed_pts o k q : in_closed3 o k q -> In q (oclosed_pts o k).
Proof.
  destruct o as [[x y] z], q as [[a b] c]. rewrite in_closed3_xyz. intros [Hx [Hy Hz]].
  unfold oclosed_pts. apply in_flat_map. exists (a - x). split; [apply in_ozrange; lia|].
  apply in_flat_map. exists (b - y). split; [apply in_ozrange; lia|].
  apply in_map_iff. exists (c - z). split; [apply pt3_eq; lia|apply in_ozrange; lia].
Qed.

Theorem oconsistentb_sound : forall ins t o k, oconsistentb ins t o k = true -> oconsistent ins t o k.
Proof.
  intros ins.
  induction t as [| |l m mf|c0 IH0 c1 IH1 c2 IH2 c3 IH3 c4 IH4 c5 IH5 c6 IH6 c7 IH7];
    intros o k H; cbn [oconsistentb oconsistent] in *.
  - rewrite forallb_forall in H. intros q Hq. apply negb_true_iff. apply H. apply in_oclosed_pts. exact Hq.
  - rewrite forallb_forall in H. intros q Hq. apply H. apply in_oclosed_pts. exact Hq.
  - rewrite !andb_true_iff in H. destruct H as [[[[H1 H2] H3] H4] H5].
    apply Nat.eqb_eq in H1. apply Z.eqb_eq in H2. apply negb_true_iff in H3, H4.
    apply Z.eqb_neq in H3, H4.
    split; [exact H1|]. split; [exact H2|]. split; [exact H3|]. split; [exact H4|].
    intros ->. cbn [Nat.eqb] in H5. apply eqb_prop in H5. exact H5.
  - rewrite !andb_true_iff in H. destruct H as [[[[[[[[H0 H1] H2] H3] H4] H5] H6] H7] H8].
    apply negb_true_iff in H0. apply Nat.eqb_neq in H0.
    split; [exact H0|]. repeat apply conj; auto.
Qed.

Theorem oboundary_clearb_sound : forall ins k, oboundary_clearb ins k = true -> oboundary_clear ins k.
Proof.
  intros ins k. unfold oboundary_clearb, oboundary_clear. rewrite forallb_forall. intros H x y z Hq Hb.
  specialize (H (x, y, z) (in_oclosed_pts _ _ _ Hq)). cbv beta iota in H.
  assert (E : (x =? 0) || (x =? osize k) || (y =? 0) || (y =? osize k) || (z =? 0) || (z =? osize k) = true).
  { rewrite !orb_true_iff, !Z.eqb_eq. tauto. }
  rewrite E in H. apply negb_true_iff. exact H.
Qed.

Lemma ocount_pos_in e l : ocount e l <> 0%nat -> In e l.
Proof.
  unfold ocount. destruct (filter (odedge_eqb e) l) as [|x r] eqn:E; [cbn [length]; congruence|]. intros _.
  assert (I : In x (filter (odedge_eqb e) l)) by (rewrite E; left; reflexivity).
  apply filter_In in I. destruct I as [I1 I2]. apply odedge_eqb_eq in I2. subst x. exact I1.
Qed.

Theorem oclosed_meshb_sound : forall m, oclosed_meshb m = true -> oclosed_mesh m.
Proof.
  intros m. unfold oclosed_meshb, oclosed_mesh. cbv zeta. rewrite forallb_forall. intros H [a b].
  cbn [fst snd].
  destruct (Nat.eq_dec (ocount (a, b) (odedges m)) 0) as [Z1|N1].
  - destruct (Nat.eq_dec (ocount (b, a) (odedges m)) 0) as [Z2|N2]; [congruence|].
    specialize (H _ (ocount_pos_in _ _ N2)). apply Nat.eqb_eq in H. cbn [fst snd] in H. congruence.
  - specialize (H _ (ocount_pos_in _ _ N1)). apply Nat.eqb_eq in H. cbn [fst snd] in H. exact H.
Qed.

(* ------------------------------------------------------------------------- *)
(** * 3. Non-vacuity: the pruned, fully subdivided tree of EVERY sign function is consistent *)

Fixpoint obuild (ins : pt3 -> bool) (k : nat) (o : pt3) {struct k} : otree :=
  if forallb (fun q => negb (ins q)) (oclosed_pts o k) then OE
  else if forallb ins (oclosed_pts o k) then OF
  else match k with
       | O => let m := omask_of ins o 0 in OA 0 m (ocorners_manifold m)
       | S k' => OB (obuild ins k' (ochild_org o k 0)) (obuild ins k' (ochild_org o k 1))
                    (obuild ins k' (ochild_org o k 2)) (obuild ins k' (ochild_org o k 3))
                    (obuild ins k' (ochild_org o k 4)) (obuild ins k' (ochild_org o k 5))
                    (obuild ins k' (ochild_org o k 6)) (obuild ins k' (ochild_org o k 7))
       end.

Lemma oclosed_pts_0 x y z :
  oclosed_pts (x, y, z) 0 =
  [(x + 0, y + 0, z + 0); (x + 0, y + 0, z + 1); (x + 0, y + 1, z + 0); (x + 0, y + 1, z + 1);
   (x + 1, y + 0, z + 0); (x + 1, y + 0, z + 1); (x + 1, y + 1, z + 0); (x + 1, y + 1, z + 1)].
Proof. reflexivity. Qed.

Theorem obuild_consistent : forall ins k o, oconsistent ins (obuild ins k o) o k.
Proof.
  intros ins. induction k as [|k IH]; intros o; cbn [obuild].
  - destruct (forallb (fun q => negb (ins q)) (oclosed_pts o 0)) eqn:E1.
    { cbn [oconsistent]. rewrite forallb_forall in E1. intros q Hq. apply negb_true_iff. apply E1.
      apply in_oclosed_pts. exact Hq. }
    destruct (forallb ins (oclosed_pts o 0)) eqn:E2.
    { cbn [oconsistent]. rewrite forallb_forall in E2. intros q Hq. apply E2. apply in_oclosed_pts. exact Hq. }
    cbv zeta. cbn [oconsistent]. destruct o as [[x y] z].
    rewrite oclosed_pts_0 in E1, E2. cbn [forallb] in E1, E2. rewrite !Z.add_0_r in E1, E2.
    split; [reflexivity|]. split; [reflexivity|].
    rewrite omask_of_mask8. corner_pts. rewrite osize_0.
    split; [|split; [|intros _; reflexivity]].
    + intros Hm. apply mask8_zero in Hm. destruct Hm as [K0 [K1 [K2 [K3 [K4 [K5 [K6 K7]]]]]]].
      rewrite K0, K1, K2, K3, K4, K5, K6, K7 in E1. discriminate E1.
    + intros Hm. apply mask8_full in Hm. destruct Hm as [K0 [K1 [K2 [K3 [K4 [K5 [K6 K7]]]]]]].
      rewrite K0, K1, K2, K3, K4, K5, K6, K7 in E2. discriminate E2.
  - destruct (forallb (fun q => negb (ins q)) (oclosed_pts o (S k))) eqn:E1.
    { cbn [oconsistent]. rewrite forallb_forall in E1. intros q Hq. apply negb_true_iff. apply E1.
      apply in_oclosed_pts. exact Hq. }
    destruct (forallb ins (oclosed_pts o (S k))) eqn:E2.
    { cbn [oconsistent]. rewrite forallb_forall in E2. intros q Hq. apply E2. apply in_oclosed_pts. exact Hq. }
    cbn [oconsistent pred]. split; [discriminate|]. repeat apply conj; apply IH.
Qed.

(* ------------------------------------------------------------------------- *)
(** * 4. What the 256-entry table of dc_tree3.cpp says *)
(* "the corners are manifold": the filled corners are connected through cube edges, and so are the
   empty corners.  Corners i, j share a cube edge iff i xor j is 1, 2 or 4. *)

Definition oset_of (m : Z) : list Z := filter (Z.testbit m) corners8.
Definition oadj (i j : Z) : bool := let d := Z.lxor i j in (d =? 1) || (d =? 2) || (d =? 4).
(* one round of flood fill inside s: keep what is reached, add the neighbours of what is reached *)
Definition ogrow (s r : list Z) : list Z :=
  filter (fun j => existsb (Z.eqb j) r || existsb (fun i => oadj i j) r) s.
Definition oreach (s : list Z) (i0 : Z) : list Z := Nat.iter 8 (ogrow s) [i0].
(* empty, or everything is reached from the lowest set corner *)
Definition conn8 (m : Z) : bool :=
  match oset_of m with
  | [] => true
  | i0 :: r => Nat.eqb (length (oreach (i0 :: r) i0)) (length (i0 :: r))
  end.

Lemma ocorners_manifold_sweep :
  forallb (fun m => Bool.eqb (ocorners_manifold m) (conn8 m && conn8 (255 - m))) (ozrange 256) = true.
Proof. vm_compute. reflexivity. Qed.

Theorem ocorners_manifold_spec : forall m, 0 <= m < 256 ->
  ocorners_manifold m = conn8 m && conn8 (255 - m).
Proof.
  intros m Hm. pose proof ocorners_manifold_sweep as H. rewrite forallb_forall in H.
  apply eqb_prop. apply H. apply in_ozrange. exact Hm.
Qed.

(** [conn8] against the declarative notion: any two set corners are joined by a path of set corners
    along cube edges. *)
Inductive oconn (m : Z) : Z -> Z -> Prop :=
| oconn_refl i : In i (oset_of m) -> oconn m i i
| oconn_step i j l : oconn m i j -> In l (oset_of m) -> oadj j l = true -> oconn m i l.
Definition oconnected (m : Z) : Prop :=
  forall i j, In i (oset_of m) -> In j (oset_of m) -> oconn m i j.

Lemma in_oset_of m i : In i (oset_of m) <-> In i corners8 /\ Z.testbit m i = true.
Proof. unfold oset_of. apply filter_In. Qed.

Lemma oconn_in_r m i j : oconn m i j -> In j (oset_of m).
Proof. induction 1; assumption. Qed.
Lemma oconn_in_l m i j : oconn m i j -> In i (oset_of m).
Proof. induction 1; assumption. Qed.
Lemma oconn_trans m i j l : oconn m i j -> oconn m j l -> oconn m i l.
Proof. intros H1 H2. induction H2; [assumption|]. apply oconn_step with j; auto. Qed.
Lemma oadj_sym i j : oadj i j = oadj j i.
Proof. unfold oadj. rewrite Z.lxor_comm. reflexivity. Qed.
Lemma oconn_sym m i j : oconn m i j -> oconn m j i.
Proof.
  induction 1 as [i Hi|i j l H IH Hl Ha]; [apply oconn_refl; exact Hi|].
  apply oconn_trans with j; [|exact IH].
  eapply oconn_step; [apply oconn_refl; exact Hl|exact (oconn_in_r _ _ _ H)|].
  rewrite oadj_sym. exact Ha.
Qed.

Lemma filter_length_le' {A} (f : A -> bool) l : (length (filter f l) <= length l)%nat.
Proof. induction l as [|a l IH]; cbn [filter length]; [lia|]. destruct (f a); cbn [length]; lia. Qed.
Lemma filter_length_eq {A} (f : A -> bool) l : length (filter f l) = length l -> filter f l = l.
Proof.
  induction l as [|a l IH]; cbn [filter length]; [reflexivity|].
  pose proof (filter_length_le' f l). destruct (f a); cbn [length]; intros E; [f_equal; apply IH; lia|lia].
Qed.
Lemma filter_all {A} (f : A -> bool) l : (forall x, In x l -> f x = true) -> filter f l = l.
Proof.
  induction l as [|a l IH]; intros H; cbn [filter]; [reflexivity|].
  rewrite (H a (or_introl eq_refl)). f_equal. apply IH. intros x Hx. apply H. right. exact Hx.
Qed.

Lemma in_existsb_eqb j r : existsb (Z.eqb j) r = true <-> In j r.
Proof.
  rewrite existsb_exists. split.
  - intros [x [Hx E]]. apply Z.eqb_eq in E. subst x. exact Hx.
  - intros H. exists j. split; [exact H|apply Z.eqb_refl].
Qed.

Lemma in_ogrow s r j :
  In j (ogrow s r) <-> In j s /\ (In j r \/ exists i, In i r /\ oadj i j = true).
Proof. unfold ogrow. rewrite filter_In, orb_true_iff, in_existsb_eqb, existsb_exists. reflexivity. Qed.

(* everything the flood fill reaches is connected to the start *)
Lemma oiter_sound m i0 r : oset_of m = i0 :: r ->
  forall n j, In j (Nat.iter n (ogrow (i0 :: r)) [i0]) -> oconn m i0 j.
Proof.
  intros Es. induction n as [|n IH]; intros j Hj.
  - cbn [Nat.iter nat_rect In] in Hj. destruct Hj as [<-|[]]. apply oconn_refl. rewrite Es. left. reflexivity.
  - change (Nat.iter (S n) (ogrow (i0 :: r)) [i0]) with (ogrow (i0 :: r) (Nat.iter n (ogrow (i0 :: r)) [i0])) in Hj.
    apply in_ogrow in Hj. destruct Hj as [Hs [Hr|[i [Hi Ha]]]]; [apply IH; exact Hr|].
    eapply oconn_step; [apply IH; exact Hi| rewrite Es; exact Hs|exact Ha].
Qed.

Lemma oreach_unfold s i0 : oreach s i0 = ogrow s (Nat.iter 7 (ogrow s) [i0]).
Proof. unfold oreach. cbn [Nat.iter nat_rect]. reflexivity. Qed.

Lemma oreach_sound m i0 r : oset_of m = i0 :: r ->
  forall j, In j (oreach (i0 :: r) i0) -> oconn m i0 j.
Proof. intros Es. exact (oiter_sound m i0 r Es 8). Qed.

Lemma oreach_full_iff s i0 :
  length (oreach s i0) = length s <-> (forall j, In j s -> In j (oreach s i0)).
Proof.
  rewrite oreach_unfold. generalize (Nat.iter 7 (ogrow s) [i0]) as R. intros R. unfold ogrow. split.
  - intros H. apply filter_length_eq in H. rewrite H. auto.
  - intros H. rewrite filter_all; [reflexivity|]. intros x Hx. specialize (H x Hx).
    apply filter_In in H. tauto.
Qed.

(* after 8 rounds the reached set contains the start and is closed under adjacency: a finite sweep *)
Definition oclosedb (s : list Z) (i0 : Z) : bool :=
  let R := oreach s i0 in
  existsb (Z.eqb i0) R &&
  forallb (fun j => implb (existsb (fun i => oadj i j) R) (existsb (Z.eqb j) R)) s.
Definition conn8_inv (m : Z) : bool :=
  match oset_of m with
  | [] => true
  | i0 :: r => oclosedb (i0 :: r) i0
  end.
Lemma conn8_inv_all : forallb conn8_inv (ozrange 256) = true.
Proof. vm_compute. reflexivity. Qed.

Lemma oclosedb_sound s i0 : oclosedb s i0 = true ->
  In i0 (oreach s i0) /\
  forall i j, In i (oreach s i0) -> In j s -> oadj i j = true -> In j (oreach s i0).
Proof.
  unfold oclosedb. generalize (oreach s i0) as R. intros R. cbv zeta. intros H.
  apply andb_true_iff in H. destruct H as [H0 H1]. split; [apply in_existsb_eqb; exact H0|].
  intros i j Hi Hj Ha. rewrite forallb_forall in H1. specialize (H1 j Hj).
  apply in_existsb_eqb. destruct (existsb (fun i => oadj i j) R) eqn:E.
  - cbn [implb] in H1. exact H1.
  - exfalso. apply not_true_iff_false in E. apply E. apply existsb_exists. exists i. split; assumption.
Qed.

Lemma oreach_closed m i0 r : 0 <= m < 256 -> oset_of m = i0 :: r ->
  In i0 (oreach (i0 :: r) i0) /\
  forall i j, In i (oreach (i0 :: r) i0) -> In j (i0 :: r) -> oadj i j = true -> In j (oreach (i0 :: r) i0).
Proof.
  intros Hm Es. pose proof conn8_inv_all as H. rewrite forallb_forall in H.
  specialize (H m (in_ozrange _ _ Hm)). unfold conn8_inv in H. rewrite Es in H.
  apply oclosedb_sound. exact H.
Qed.

Theorem conn8_spec : forall m, 0 <= m < 256 -> (conn8 m = true <-> oconnected m).
Proof.
  intros m Hm. unfold conn8, oconnected.
  destruct (oset_of m) as [|i0 r] eqn:Es.
  { split; [intros _ i j []|reflexivity]. }
  rewrite Nat.eqb_eq, oreach_full_iff. split.
  - intros H.
    assert (A : forall j, In j (i0 :: r) -> oconn m i0 j).
    { intros j Hj. apply (oreach_sound m i0 r Es). apply H. exact Hj. }
    intros i j Hi Hj. apply oconn_trans with i0; [apply oconn_sym|]; apply A; assumption.
  - intros H. destruct (oreach_closed m i0 r Hm Es) as [R0 RC].
    assert (B : forall i j, oconn m i j -> In i (oreach (i0 :: r) i0) -> In j (oreach (i0 :: r) i0)).
    { induction 1 as [i Hi|i j l Hc IH Hl Ha]; intros Hin; [exact Hin|].
      apply (RC j l); [apply IH; exact Hin|rewrite <- Es; exact Hl|exact Ha]. }
    intros j Hj. apply (B i0 j); [|exact R0]. apply H; [left; reflexivity|exact Hj].
Qed.

(** the table, declaratively *)
Corollary ocorners_manifold_connected : forall m, 0 <= m < 256 ->
  (ocorners_manifold m = true <-> oconnected m /\ oconnected (255 - m)).
Proof.
  intros m Hm. rewrite ocorners_manifold_spec by exact Hm. rewrite andb_true_iff.
  rewrite (conn8_spec m Hm), (conn8_spec (255 - m)) by lia. reflexivity.
Qed.

(* the complement really is the set of empty corners *)
Lemma ocomplement_bits m i : 0 <= m < 256 -> In i corners8 ->
  Z.testbit (255 - m) i = negb (Z.testbit m i).
Proof.
  intros Hm Hi.
  assert (S : forallb (fun m => forallb (fun i => Bool.eqb (Z.testbit (255 - m) i) (negb (Z.testbit m i))) corners8)
                      (ozrange 256) = true) by (vm_compute; reflexivity).
  rewrite forallb_forall in S. specialize (S m (in_ozrange _ _ Hm)). rewrite forallb_forall in S.
  apply eqb_prop. apply S. exact Hi.
Qed.

Print Assumptions ocollect_consistent.
Print Assumptions ocollect_height.
Print Assumptions oconsistentb_sound.
Print Assumptions oboundary_clearb_sound.
Print Assumptions oclosed_meshb_sound.
Print Assumptions obuild_consistent.
Print Assumptions ocorners_manifold_spec.
Print Assumptions conn8_spec.
Print Assumptions ocorners_manifold_connected.
