(* C04 (adaptive octrees): completeness of the whole dual walk (walk3) -- continuation of OctTreeSepE.v. *)
From Coq Require Import List ZArith Bool Lia Arith.
From LF Require Import Gen.MarchTables_gen Gen.ManifoldTables_gen Render.DCGrid Render.DCGridSem
                       Render.OctTree Render.OctTreeGeom Render.OctTreeCollect Render.OctTreeNet Render.OctTreeFace Render.OctTreeSem
                       Render.OctTreeSepDefs Render.OctTreeSepA Render.OctTreeSepB Render.OctTreeSepC Render.OctTreeSepD
                       Render.OctTreeSepE.
Import ListNotations.
Local Open Scope Z_scope.

Section WalkC.
Variable ins : pt3 -> bool.
Variable diag : overtex -> overtex -> overtex -> overtex -> bool.

Notation L3 A a b c d := (load3 diag A (c_cell a) (c_cell b) (c_cell c) (c_cell d)).

Ltac nav tac :=
  lazymatch goal with
  | |- incl _ (_ ++ _) => first [apply incl_appl; nav tac | apply incl_appr; nav tac]
  | _ => tac
  end.

Lemma single_leaf_no_edge' A x s k : oaxis A ->
  around3 A (Qax A + Rax A) x s k -> around3 A (Rax A) x s k -> c_k x <> k.
Proof.
  intros HA H1 H2. apply (two_roles_larger A (Qax A + Rax A) (Rax A) x s k HA); auto.
  - unfold quadrant; tauto.
  - unfold quadrant; tauto.
  - destruct HA as [-> | [-> | ->]]; cbn; discriminate.
Qed.

(* x is below the child i of the branch X when its cube is in the box of that child *)
Ltac inx X C Ia Ib Ic Id Ca Cb Cc Cd :=
  lazymatch goal with
  | |- In ?x (oleaves _ (?i :: _) _ _) => change (In x (pleaves3 (pchild3 X i)))
  | _ => idtac
  end;
  match goal with
  | |- In ?x (pleaves3 (pchild3 _ ?i)) =>
    first [ apply (leaf_in_child ins X i x _ _ eq_refl C ltac:(in8) Ia Ca) | apply (leaf_in_child ins X i x _ _ eq_refl C ltac:(in8) Ib Cb)
          | apply (leaf_in_child ins X i x _ _ eq_refl C ltac:(in8) Ic Cc) | apply (leaf_in_child ins X i x _ _ eq_refl C ltac:(in8) Id Cd) ];
    unfold cube_in, pchild3, X; cbn [c_t c_o c_k o_is_branch pred]; rewrite ?ochild_org_S; corner_pts;
    unfold cube_in, box_in in *; lia
  end.

Ltac hostfit X axN :=
  unfold pffits3, pchild3, X; cbn [c_t c_o c_k o_is_branch pred osub Z.eqb Pos.eqb]; rewrite ?ochild_org_S;
  apply ffits_intro; [exact axN | assumption | first [reflexivity | cbv iota; repeat (progress corner_pts); pt3eq]].
Lemma walk3_complete_axis1 : forall f t p o k0 a b c d s k,
  oconsistent ins t o k0 -> (oheight t < f)%nat ->
  In a (oleaves t p o k0) -> In b (oleaves t p o k0) -> In c (oleaves t p o k0) -> In d (oleaves t p o k0) ->
  min_edge3 1 a b c d s k -> incl (L3 1 a b c d) (walk3 diag f t p).
Proof.
  intros f.
  induction t as [| |l m mf|c0 IH0 c1 IH1 c2 IH2 c3 IH3 c4 IH4 c5 IH5 c6 IH6 c7 IH7];
    intros p o k0 a b c d s k C Hf Ia Ib Ic Id ME;
    try (exfalso; cbn [oleaves] in Ia, Ib, Ic, Id; destruct Ia as [<-|[]]; destruct Ib as [<-|[]];
         destruct Ic as [<-|[]]; destruct Id as [<-|[]]; destruct ME as [Aa [Ab [_ [_ Hm]]]];
         pose proof (single_leaf_no_edge' 1 _ s k ax1 Aa Ab) as K; cbn [c_k] in *; tauto).
  destruct (oconsistent_branch _ _ _ _ _ _ _ _ _ _ _ C) as [k' [-> [C0 [C1 [C2 [C3 [C4 [C5 [C6 C7]]]]]]]]].
  cbn [oheight] in Hf.
  assert (G0 : (oheight c0 < f)%nat) by lia. assert (G1 : (oheight c1 < f)%nat) by lia.
  assert (G2 : (oheight c2 < f)%nat) by lia. assert (G3 : (oheight c3 < f)%nat) by lia.
  assert (G4 : (oheight c4 < f)%nat) by lia. assert (G5 : (oheight c5 < f)%nat) by lia.
  assert (G6 : (oheight c6 < f)%nat) by lia. assert (G7 : (oheight c7 < f)%nat) by lia.
  destruct o as [[ox oy] oz], s as [[sx sy] sz].
  set (X := PC3 (OB c0 c1 c2 c3 c4 c5 c6 c7) p (ox, oy, oz) (S k')).
  change (In a (pleaves3 X)) in Ia. change (In b (pleaves3 X)) in Ib.
  change (In c (pleaves3 X)) in Ic. change (In d (pleaves3 X)) in Id.
  change (oconsistent ins (c_t X) (c_o X) (c_k X)) in C.
  assert (HfX : (oheight (c_t X) < f)%nat) by (unfold X; cbn [c_t oheight]; lia).
  assert (HH : forall i, (oheight (c_t (pchild3 X i)) < f)%nat).
  { intros i. change (c_t (pchild3 X i)) with (fst (c_cell (pchild3 X i))). rewrite c_cell_pchild3.
    apply ochild_height_le. exact HfX. }
  pose proof ME as [Aa [Ab [Ac [Ad Hm]]]].
  pose proof Aa as [_ Ca]. pose proof Ab as [_ Cb]. pose proof Ac as [_ Cc]. pose proof Ad as [_ Cd].
  unfold qcube, hasq, hasr in Ca, Cb, Cc, Cd. cbn [Qax Rax Z.eqb Pos.eqb] in Ca, Cb, Cc, Cd.
  zsums_in Ca; zsums_in Cb; zsums_in Cc; zsums_in Cd. cbn [Z.eqb Pos.eqb orb] in Ca, Cb, Cc, Cd.
  osteps_in Ca; osteps_in Cb; osteps_in Cc; osteps_in Cd.
  pose proof (osize_pos k) as Hp. pose proof (osize_pos k') as Hp'. pose proof (osize_S k') as HS.
  pose proof (cube_in_host ins X a _ _ C Ia Ca) as Oa. pose proof (cube_in_host ins X b _ _ C Ib Cb) as Ob.
  pose proof (cube_in_host ins X c _ _ C Ic Cc) as Oc. pose proof (cube_in_host ins X d _ _ C Id Cd) as Od.
  unfold X in Oa, Ob, Oc, Od. cbn [c_o c_k] in Oa, Ob, Oc, Od. unfold box_in in Oa, Ob, Oc, Od.
  assert (Pos : (oco 1 (sx, sy, sz) + osize k <= oco 1 (ox, oy, oz) + osize k' \/
                 oco 1 (ox, oy, oz) + osize k' <= oco 1 (sx, sy, sz)) /\
                (oco 2 (sx, sy, sz) + osize k <= oco 2 (ox, oy, oz) + osize k' \/
                 oco 2 (sx, sy, sz) = oco 2 (ox, oy, oz) + osize k' \/
                 oco 2 (ox, oy, oz) + osize k' + osize k <= oco 2 (sx, sy, sz)) /\
                (oco 4 (sx, sy, sz) + osize k <= oco 4 (ox, oy, oz) + osize k' \/
                 oco 4 (sx, sy, sz) = oco 4 (ox, oy, oz) + osize k' \/
                 oco 4 (ox, oy, oz) + osize k' + osize k <= oco 4 (sx, sy, sz))).
  { unfold oco. cbn [Z.eqb Pos.eqb].
    pose proof (cube_halves ins X k' a _ _ eq_refl C eq_refl Ia Ca) as H1.
    pose proof (cube_halves ins X k' d _ _ eq_refl C eq_refl Id Cd) as H2.
    unfold X in H1, H2. cbn [c_o] in H1, H2. cbv beta iota in H1, H2. lia. }
  unfold oco in Pos. cbn [Z.eqb Pos.eqb] in Pos.
  cbn [walk3]. change (OB c0 c1 c2 c3 c4 c5 c6 c7, p) with (c_cell X).
  unfold work3, call_face3. cbv zeta. cbn [Qax Rax Z.eqb Pos.eqb]. zsums. rewrite <- !c_cell_pchild3.
  destruct Pos as [[Lo|Up] [[Ql|[Qm|Qh]] [Rl|[Rm|Rh]]]];
    nav ltac:(first
      [ eapply (call_edge3_complete ins diag 1 ax1 f X k' a b c d (sx, sy, sz) k eq_refl C eq_refl HfX Ia Ib Ic Id ME);
        unfold online, oco, X; cbn [c_o Qax Rax Z.eqb Pos.eqb]; zsums; repeat (progress corner_pts); cbn [Z.eqb Pos.eqb]; lia
      | first [ eapply (face3_complete ins diag 2 1 ax2 (or_intror eq_refl) f _ _ _ k' a b c d (sx, sy, sz) k)
              | eapply (face3_complete ins diag 4 1 ax4 (or_introl eq_refl) f _ _ _ k' a b c d (sx, sy, sz) k) ];
        cbn [Qax Rax Z.eqb Pos.eqb];
        [ first [hostfit X ax2 | hostfit X ax4] | first [hostfit X ax2 | hostfit X ax4]
        | idtac | idtac | idtac | idtac | idtac | idtac | idtac
        | unfold inface, third, oco; cbn [Qax Rax Z.eqb Pos.eqb]; repeat (progress corner_pts); cbn [Z.eqb Pos.eqb]; lia ];
        [ apply HH | apply HH
        | inx X C Ia Ib Ic Id Ca Cb Cc Cd | inx X C Ia Ib Ic Id Ca Cb Cc Cd
        | inx X C Ia Ib Ic Id Ca Cb Cc Cd | inx X C Ia Ib Ic Id Ca Cb Cc Cd | exact ME ]
      | first [ eapply (IH0 _ _ _ a b c d (sx, sy, sz) k C0 G0) | eapply (IH1 _ _ _ a b c d (sx, sy, sz) k C1 G1)
              | eapply (IH2 _ _ _ a b c d (sx, sy, sz) k C2 G2) | eapply (IH3 _ _ _ a b c d (sx, sy, sz) k C3 G3)
              | eapply (IH4 _ _ _ a b c d (sx, sy, sz) k C4 G4) | eapply (IH5 _ _ _ a b c d (sx, sy, sz) k C5 G5)
              | eapply (IH6 _ _ _ a b c d (sx, sy, sz) k C6 G6) | eapply (IH7 _ _ _ a b c d (sx, sy, sz) k C7 G7) ];
        [ inx X C Ia Ib Ic Id Ca Cb Cc Cd | inx X C Ia Ib Ic Id Ca Cb Cc Cd
        | inx X C Ia Ib Ic Id Ca Cb Cc Cd | inx X C Ia Ib Ic Id Ca Cb Cc Cd | exact ME ] ]).
Qed.

End WalkC.
