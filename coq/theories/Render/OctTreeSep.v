(* C04 (adaptive octrees, dual contouring): triangles sit at the sign changes of minimal lattice edges.
   Model: Render/OctTree.v; soundness (walk3_calls): Render/OctTreeSem.v.  3D analogue of Render/QuadTreeSep.v.
   Parts: OctTreeSepDefs.v (placed cells pcell3, oleaves, qcube, around3, min_edge3),
          OctTreeSepA.v   (sign-free completeness of edge3 and call_edge3: edge3_complete,
                           call_edge3_complete, central_edges_complete_partial),
          OctTreeSepB.v   (signs: load3_cases / load3_spec3 / load3_oriented / load3_nonempty /
                           load3_emits_iff, crossing parity crossing_parity3, adaptive_surface_separates3).
   No axioms.

   PROVED here (t consistent at (0,0,0)):
   - adaptive_sign_changes_give_triangles_partial: for a minimal edge ON THE CENTRAL LINE of axis A of some
     branching cell X of the tree whose end points differ in ins: the four leaves around it are ambiguous,
     load3 is the quad of load3_spec3, it is non-empty under distinct3 and all its triangles are in mesh_walk.
   - adaptive_mesh_separates_partial: crossing parity along paths of minimal edges; the emitted triangles are
     in the mesh for the steps that lie on central lines.
   NOT PROVED: completeness of the face3 recursion (minimal edges lying in the interior of a face shared by
     two children of a branch, reached through call_face3 / face3 -> edge3) and hence the full theorem
     adaptive_sign_changes_give_triangles for ALL minimal edges.  What is needed: face3_complete with the
     invariant "c0, c1 ffits the face (sf, k0), the edge (A = Qax N or Rax N, s, k) lies in the face plane,
     inside the square along A and STRICTLY inside across; two of the four leaves below c0, two below c1";
     its step is a trichotomy across (from a branching cell, as branch_dichotomy0) -> sub-face recursion or
     the edge3 call on the mid line, which is closed by edge3_complete.  Then walk3_complete by the 3 x 3
     position cases of (s_Q, s_R) against the centre of a branch (both central: call_edge3_complete; one
     central: call_face3; none: the child, by leaf_in_child).
   NOT PROVED: distinct3 from geometry (needs: leaves with interiors sharing a cube are equal, and
     paths determine leaves). *)
From Coq Require Import List ZArith Bool Lia Arith.
From LF Require Import Gen.MarchTables_gen Gen.ManifoldTables_gen Render.DCGrid Render.DCGridSem
                       Render.OctTree Render.OctTreeGeom Render.OctTreeCollect Render.OctTreeNet Render.OctTreeFace Render.OctTreeSem.
From LF Require Export Render.OctTreeSepDefs Render.OctTreeSepA Render.OctTreeSepB.
Import ListNotations.
Local Open Scope Z_scope.

Lemma pleaves3_leaf_ok ins X a : oconsistent ins (c_t X) (c_o X) (c_k X) -> In a (pleaves3 X) -> leaf_ok ins a.
Proof. intros C Ha. destruct (oleaves_inside ins _ _ _ _ _ C Ha) as [_ [_ [H1 H2]]]. split; assumption. Qed.

(* X is a branching cell of t whose central line of axis A contains the lattice edge (s, k) *)
Definition central_edge (t : otree) (k0 : nat) (A : Z) (X : pcell3) (s : pt3) (k : nat) : Prop :=
  subcell3 X (PC3 t [] (0, 0, 0) k0) /\ o_is_branch (c_t X) = true /\
  exists k', c_k X = S k' /\ online A (ocorner_pt (c_o X) k' (Qax A + Rax A)) (S k') s k.

Theorem adaptive_sign_changes_give_triangles_partial ins diag t k0 A X a b c d s k :
  oconsistent ins t (0, 0, 0) k0 -> oaxis A -> central_edge t k0 A X s k ->
  In a (pleaves3 X) -> In b (pleaves3 X) -> In c (pleaves3 X) -> In d (pleaves3 X) ->
  min_edge3 A a b c d s k -> ins s <> ins (ostep A s (osize k)) ->
  In a (oleaves t [] (0, 0, 0) k0) /\ In b (oleaves t [] (0, 0, 0) k0) /\
  In c (oleaves t [] (0, 0, 0) k0) /\ In d (oleaves t [] (0, 0, 0) k0) /\
  o_is_ambig (c_t a) = true /\ o_is_ambig (c_t b) = true /\ o_is_ambig (c_t c) = true /\ o_is_ambig (c_t d) = true /\
  load3 diag A (c_cell a) (c_cell b) (c_cell c) (c_cell d) =
    quad3 diag (ins s) (vtx3 (ins s) A a 0) (vtx3 (ins s) A b 1) (vtx3 (ins s) A c 2) (vtx3 (ins s) A d 3) /\
  (distinct3 a b c d -> load3 diag A (c_cell a) (c_cell b) (c_cell c) (c_cell d) <> []) /\
  incl (load3 diag A (c_cell a) (c_cell b) (c_cell c) (c_cell d)) (mesh_walk diag t).
Proof.
  intros C HA [Sub [B [k' [Ek OL]]]] Ia Ib Ic Id ME Hs.
  destruct (subcell3_facts ins diag O X _ Sub) as [_ [LL [CX _]]]. cbn [c_t c_p c_o c_k] in CX.
  specialize (CX C).
  pose proof (pleaves3_leaf_ok ins X a CX Ia) as Oa. pose proof (pleaves3_leaf_ok ins X b CX Ib) as Ob.
  pose proof (pleaves3_leaf_ok ins X c CX Ic) as Oc. pose proof (pleaves3_leaf_ok ins X d CX Id) as Od.
  assert (Cr : crosses3 ins A s k = true).
  { unfold crosses3. destruct (ins s), (ins (ostep A s (osize k))); try reflexivity; congruence. }
  destruct (min_edge3_ambig ins A a b c d s k HA Oa Ob Oc Od ME Cr) as [Aa [Ab [Ac Ad]]].
  split; [exact (LL _ Ia)|]. split; [exact (LL _ Ib)|]. split; [exact (LL _ Ic)|]. split; [exact (LL _ Id)|].
  split; [exact Aa|]. split; [exact Ab|]. split; [exact Ac|]. split; [exact Ad|].
  split; [rewrite (load3_cases ins diag A a b c d s k HA Oa Ob Oc Od ME), Cr; reflexivity|].
  split; [intros Hd; exact (load3_nonempty ins diag A a b c d s k HA Oa Ob Oc Od ME Cr Hd)|].
  exact (central_edges_complete_partial ins diag t k0 A X k' a b c d s k C HA Sub B Ek Ia Ib Ic Id ME OL).
Qed.

(* a step of a path whose four cells are leaves of the tree around a minimal edge on a central line *)
Definition step3_central (t : otree) (k0 : nat) (e : step3) : Prop :=
  exists X, central_edge t k0 (s3_A e) X (s3_s e) (s3_k e) /\
            In (s3_a e) (pleaves3 X) /\ In (s3_b e) (pleaves3 X) /\ In (s3_c e) (pleaves3 X) /\ In (s3_d e) (pleaves3 X).

Theorem adaptive_mesh_separates_partial ins diag t k0 l p q :
  oconsistent ins t (0, 0, 0) k0 ->
  Forall (step3_ok ins) l -> Forall s3_distinct l -> joins3 p l q ->
  Nat.odd (length (emitting3 diag l)) = xorb (ins p) (ins q) /\
  (forall e, In e l -> step3_central t k0 e -> incl (s3_load diag e) (mesh_walk diag t)).
Proof.
  intros C Hok Hd J. split; [exact (adaptive_surface_separates3 ins diag l p q Hok Hd J)|].
  intros e He [X [[Sub [B [k' [Ek OL]]]] [Ia [Ib [Ic Id]]]]].
  rewrite Forall_forall in Hok. destruct (Hok e He) as [HA [_ [_ [_ [_ ME]]]]].
  unfold s3_load.
  exact (central_edges_complete_partial ins diag t k0 _ X k' _ _ _ _ _ _ C HA Sub B Ek Ia Ib Ic Id ME OL).
Qed.


(** Non-vacuity on the bump tree of C03_dc_adaptive_example: the edge (0,4,4) -> (4,4,4) of axis X on the
    central line of the root, between the four level-2 leaves [0], [2], [4], [6]; outside -> inside. *)
Set Default Timeout 20.
Definition bump_a := PC3 (OA 2 128 true) [0] (0, 0, 0) 2.
Definition bump_b := PC3 (OA 2 32 true) [2] (0, 4, 0) 2.
Definition bump_c := PC3 (OA 2 8 true) [4] (0, 0, 4) 2.
Definition bump_d := PC3 (OA 2 2 true) [6] (0, 4, 4) 2.
Definition bump_X := PC3 bump_tree [] (0, 0, 0) 3.

Ltac in_list := timeout 30 (vm_compute; repeat (first [left; reflexivity | right])).

Example bump_central_edge :
  central_edge bump_tree 3 1 bump_X (0, 4, 4) 2 /\
  In bump_a (pleaves3 bump_X) /\ In bump_b (pleaves3 bump_X) /\ In bump_c (pleaves3 bump_X) /\ In bump_d (pleaves3 bump_X) /\
  min_edge3 1 bump_a bump_b bump_c bump_d (0, 4, 4) 2 /\ ins_bump (0, 4, 4) = false /\ ins_bump (4, 4, 4) = true /\
  load3 (fun _ _ _ _ => true) 1 (c_cell bump_a) (c_cell bump_b) (c_cell bump_c) (c_cell bump_d) =
    [(([0], 0), ([4], 0), ([2], 0)); (([2], 0), ([4], 0), ([6], 0))] /\
  incl (load3 (fun _ _ _ _ => true) 1 (c_cell bump_a) (c_cell bump_b) (c_cell bump_c) (c_cell bump_d))
       (mesh_walk (fun _ _ _ _ => true) bump_tree).
Proof.
  assert (OL : online 1 (ocorner_pt (0, 0, 0) 2 (Qax 1 + Rax 1)) 3 (0, 4, 4) 2).
  { unfold online, oco. cbn [Qax Rax Z.eqb Pos.eqb]. change (2 + 4) with 6. rewrite ocorner_pt_6.
    change (osize 2) with 4. change (osize 3) with 8. cbn [Z.eqb Pos.eqb]. lia. }
  assert (B : o_is_branch (c_t bump_X) = true) by (vm_compute; reflexivity).
  assert (CE : central_edge bump_tree 3 1 bump_X (0, 4, 4) 2).
  { split; [apply sub3_refl|]. split; [exact B|]. exists 2%nat. split; [reflexivity|exact OL]. }
  assert (Ia : In bump_a (pleaves3 bump_X)) by in_list.
  assert (Ib : In bump_b (pleaves3 bump_X)) by in_list.
  assert (Ic : In bump_c (pleaves3 bump_X)) by in_list.
  assert (Id : In bump_d (pleaves3 bump_X)) by in_list.
  assert (ME : min_edge3 1 bump_a bump_b bump_c bump_d (0, 4, 4) 2).
  { unfold min_edge3, around3, cube_in, box_in, qcube, hasq, hasr, bump_a, bump_b, bump_c, bump_d.
    cbn [c_k c_o Qax Rax Z.eqb Pos.eqb orb]. change (2 + 4) with 6. cbn [Z.eqb Pos.eqb orb]. osteps.
    change (osize 2) with 4. repeat split; first [lia | left; reflexivity]. }
  split; [exact CE|]. split; [exact Ia|]. split; [exact Ib|]. split; [exact Ic|]. split; [exact Id|].
  split; [exact ME|]. split; [reflexivity|]. split; [reflexivity|]. split; [vm_compute; reflexivity|].
  assert (Cons : oconsistent ins_bump bump_tree (0, 0, 0) 3) by (apply oconsistentb_sound; vm_compute; reflexivity).
  exact (central_edges_complete_partial ins_bump _ bump_tree 3 1 bump_X 2 bump_a bump_b bump_c bump_d (0, 4, 4) 2
           Cons (or_introl eq_refl) (sub3_refl _) B eq_refl Ia Ib Ic Id ME OL).
Qed.

Print Assumptions adaptive_sign_changes_give_triangles_partial.
Print Assumptions adaptive_mesh_separates_partial.
Print Assumptions bump_central_edge.
