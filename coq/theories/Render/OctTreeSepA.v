From Coq Require Import List ZArith Bool Lia Arith.
From LF Require Import Gen.MarchTables_gen Gen.ManifoldTables_gen Render.DCGrid Render.DCGridSem
                       Render.OctTree Render.OctTreeGeom Render.OctTreeNet Render.OctTreeFace Render.OctTreeSem
                       Render.OctTreeSepDefs.
Import ListNotations.
Local Open Scope Z_scope.

(* ------------------------------------------------------------------------- *)
(** * Sign-free completeness of the edge recursion *)

Definition oco (A : Z) (p : pt3) : Z := let '(x, y, z) := p in if A =? 1 then x else if A =? 2 then y else z.

(* the lattice edge (s, k) of axis A is a part of the lattice edge (s0, k0) of axis A *)
Definition online (A : Z) (s0 : pt3) (k0 : nat) (s : pt3) (k : nat) : Prop :=
  oco (Qax A) s = oco (Qax A) s0 /\ oco (Rax A) s = oco (Rax A) s0 /\
  oco A s0 <= oco A s /\ oco A s + osize k <= oco A s0 + osize k0.

Definition pfits3 (ins : pt3 -> bool) (A cn : Z) (c : pcell3) (s : pt3) (k : nat) : Prop :=
  fits ins A cn (c_t c) (c_o c) (c_k c) s k.

Lemma pfits3_Fits ins A cn c s k : pfits3 ins A cn c s k -> Fits ins A cn (c_cell c) s k.
Proof. intros F. exists (c_o c), (c_k c). exact F. Qed.

Lemma pfits3_split ins A cn c s k : oaxis A -> quadrant A cn -> pfits3 ins A cn c s (S k) ->
  pfits3 ins A cn (pchild3 c cn) s k /\ pfits3 ins A cn (pchild3 c (cn + A)) (ostep A s (osize k)) k /\
  (o_is_branch (c_t c) = true -> c_k (pchild3 c cn) = k /\ c_k (pchild3 c (cn + A)) = k).
Proof.
  intros HA Hcn F. destruct c as [t p o kt]. unfold pfits3, pchild3 in *. cbn [c_t c_p c_o c_k] in *.
  destruct (o_is_branch t) eqn:B; cbn [c_t c_p c_o c_k].
  - pose proof F as [C [_ [E [_ [_ Es]]]]]. specialize (E B). subst kt. specialize (Es eq_refl). subst s.
    destruct (fits_branch_children ins A cn t o k HA Hcn C B) as [F1 F2].
    rewrite !ochild_org_S. cbn [pred]. split; [exact F1|]. split; [exact F2|]. intros _. split; reflexivity.
  - destruct (fits_leaf_split ins A cn t o kt s k HA F B) as [F1 F2].
    split; [exact F1|]. split; [exact F2|]. discriminate.
Qed.

(* children of a branch have disjoint interiors: a leaf of the parent that shares a cube of positive
   size with the box of child i is a leaf of child i *)
Lemma leaf_in_child ins X i x cc kc :
  o_is_branch (c_t X) = true -> oconsistent ins (c_t X) (c_o X) (c_k X) -> In i corners8 ->
  In x (pleaves3 X) -> cube_in cc kc x -> cube_in cc kc (pchild3 X i) -> In x (pleaves3 (pchild3 X i)).
Proof.
  intros B C Hi Hx Cx Ci. destruct X as [t p o k]. cbn [c_t c_p c_o c_k] in *.
  destruct t as [| | |c0 c1 c2 c3 c4 c5 c6 c7]; try discriminate.
  destruct (oconsistent_branch _ _ _ _ _ _ _ _ _ _ _ C) as [k' [-> [C0 [C1 [C2 [C3 [C4 [C5 [C6 C7]]]]]]]]].
  unfold pchild3, pleaves3 in *. cbn [c_t c_p c_o c_k o_is_branch oleaves pred] in *.
  rewrite !ochild_org_S in *. unfold cube_in in *. cbn [c_o c_k] in Ci.
  destruct o as [[ox oy] oz], cc as [[cx cy] cz]. destruct (c_o x) as [[ax ay] az] eqn:Eo.
  pose proof (osize_pos kc) as Hp. pose proof (osize_pos k') as Hp'.
  apply in_corners8 in Hi.
  in_app8 Hx;
    [ pose proof (oleaves_inside ins _ _ _ _ _ C0 Hx) as [_ [L _]] | pose proof (oleaves_inside ins _ _ _ _ _ C1 Hx) as [_ [L _]]
    | pose proof (oleaves_inside ins _ _ _ _ _ C2 Hx) as [_ [L _]] | pose proof (oleaves_inside ins _ _ _ _ _ C3 Hx) as [_ [L _]]
    | pose proof (oleaves_inside ins _ _ _ _ _ C4 Hx) as [_ [L _]] | pose proof (oleaves_inside ins _ _ _ _ _ C5 Hx) as [_ [L _]]
    | pose proof (oleaves_inside ins _ _ _ _ _ C6 Hx) as [_ [L _]] | pose proof (oleaves_inside ins _ _ _ _ _ C7 Hx) as [_ [L _]] ];
    rewrite Eo in L; corner_pts_in L; unfold box_in in L, Cx;
    (destruct Hi as [-> | [-> | [-> | [-> | [-> | [-> | [-> | ->]]]]]]]; cbn [osub Z.eqb Pos.eqb] in Ci |- *;
     corner_pts_in Ci; unfold box_in in Ci; first [exact Hx | exfalso; lia]).
Qed.

Lemma qcube_in_child A cn o k0' s k : oaxis A -> quadrant A cn ->
  oco (Qax A) s = oco (Qax A) (ocorner_pt o (S k0') cn) -> oco (Rax A) s = oco (Rax A) (ocorner_pt o (S k0') cn) ->
  (oco A (ocorner_pt o (S k0') cn) <= oco A s -> oco A s + osize k <= oco A (ocorner_pt o (S k0') cn) + osize k0' ->
   box_in (qcube A cn s k) k (ocorner_pt o k0' cn) k0') /\
  (oco A (ocorner_pt o (S k0') cn) + osize k0' <= oco A s ->
   oco A s + osize k <= oco A (ocorner_pt o (S k0') cn) + osize (S k0') ->
   box_in (qcube A cn s k) k (ocorner_pt o k0' (cn + A)) k0').
Proof.
  intros HA Hcn. destruct o as [[ox oy] oz], s as [[sx sy] sz].
  pose proof (osize_pos k) as Hp. pose proof (osize_pos k0') as Hp'. pose proof (osize_S k0') as HS.
  unfold qcube, hasq, hasr.
  axis_quadrant HA Hcn; cbn [Z.eqb Pos.eqb orb]; corner_pts; osteps; unfold oco, box_in; cbn [Z.eqb Pos.eqb];
    intros E1 E2; split; intros H1 H2; lia.
Qed.

(* a branching cell around the edge (s0, S k0'): the target leaf below it lies in one half *)
Lemma branch_dichotomy ins A cn X s0 k0' x s k : oaxis A -> quadrant A cn ->
  pfits3 ins A cn X s0 (S k0') -> o_is_branch (c_t X) = true ->
  In x (pleaves3 X) -> around3 A cn x s k ->
  oco A s + osize k <= oco A s0 + osize k0' \/ oco A s0 + osize k0' <= oco A s.
Proof.
  intros HA Hcn F B Hx [_ Cx]. destruct X as [t p o kt]. unfold pfits3 in F. cbn [c_t c_p c_o c_k] in *.
  destruct F as [C [_ [E [_ [_ Es]]]]]. specialize (E B). subst kt. specialize (Es eq_refl). subst s0.
  destruct t as [| | |c0 c1 c2 c3 c4 c5 c6 c7]; try discriminate.
  destruct (oconsistent_branch _ _ _ _ _ _ _ _ _ _ _ C) as [k' [Ek [C0 [C1 [C2 [C3 [C4 [C5 [C6 C7]]]]]]]]].
  injection Ek as <-.
  unfold pleaves3 in Hx. cbn [c_t c_p c_o c_k oleaves pred] in Hx. rewrite !ochild_org_S in Hx.
  unfold cube_in in Cx. destruct (c_o x) as [[ax ay] az] eqn:Eo.
  destruct o as [[ox oy] oz], s as [[sx sy] sz].
  pose proof (osize_pos k) as Hp. pose proof (osize_pos k0') as Hp'. pose proof (osize_S k0') as HS.
  revert Cx. unfold qcube, hasq, hasr.
  in_app8 Hx;
    [ pose proof (oleaves_inside ins _ _ _ _ _ C0 Hx) as [_ [L _]] | pose proof (oleaves_inside ins _ _ _ _ _ C1 Hx) as [_ [L _]]
    | pose proof (oleaves_inside ins _ _ _ _ _ C2 Hx) as [_ [L _]] | pose proof (oleaves_inside ins _ _ _ _ _ C3 Hx) as [_ [L _]]
    | pose proof (oleaves_inside ins _ _ _ _ _ C4 Hx) as [_ [L _]] | pose proof (oleaves_inside ins _ _ _ _ _ C5 Hx) as [_ [L _]]
    | pose proof (oleaves_inside ins _ _ _ _ _ C6 Hx) as [_ [L _]] | pose proof (oleaves_inside ins _ _ _ _ _ C7 Hx) as [_ [L _]] ];
    rewrite Eo in L; corner_pts_in L; unfold box_in in L; clear Hx;
    (axis_quadrant HA Hcn; cbn [Z.eqb Pos.eqb orb]; corner_pts; osteps; unfold oco, box_in; cbn [Z.eqb Pos.eqb];
     intros Cx; lia).
Qed.

Lemma online_lower A s0 k0' s k :
  online A s0 (S k0') s k -> oco A s + osize k <= oco A s0 + osize k0' -> online A s0 k0' s k.
Proof. intros [H1 [H2 [H3 H4]]] H. repeat split; assumption. Qed.

Lemma oco_ostep_same A s n : oaxis A -> oco A (ostep A s n) = oco A s + n.
Proof. intros HA. destruct s as [[x y] z]. destruct HA as [-> | [-> | ->]]; reflexivity. Qed.
Lemma oco_ostep_Q A s n : oaxis A -> oco (Qax A) (ostep A s n) = oco (Qax A) s.
Proof. intros HA. destruct s as [[x y] z]. destruct HA as [-> | [-> | ->]]; reflexivity. Qed.
Lemma oco_ostep_R A s n : oaxis A -> oco (Rax A) (ostep A s n) = oco (Rax A) s.
Proof. intros HA. destruct s as [[x y] z]. destruct HA as [-> | [-> | ->]]; reflexivity. Qed.

Lemma online_upper A s0 k0' s k : oaxis A ->
  online A s0 (S k0') s k -> oco A s0 + osize k0' <= oco A s -> online A (ostep A s0 (osize k0')) k0' s k.
Proof.
  intros HA [H1 [H2 [H3 H4]]] H. pose proof (osize_S k0') as HS. unfold online.
  rewrite oco_ostep_same, oco_ostep_Q, oco_ostep_R by exact HA. repeat split; try assumption; lia.
Qed.

(* the target leaf below a cell around (s0, S k0') is below the child on its half *)
Lemma target_child ins A cn X s0 k0' x s k : oaxis A -> quadrant A cn ->
  pfits3 ins A cn X s0 (S k0') -> In x (pleaves3 X) -> around3 A cn x s k -> online A s0 (S k0') s k ->
  (oco A s + osize k <= oco A s0 + osize k0' -> In x (pleaves3 (pchild3 X cn))) /\
  (oco A s0 + osize k0' <= oco A s -> In x (pleaves3 (pchild3 X (cn + A)))).
Proof.
  intros HA Hcn F Hx Ar [O1 [O2 [O3 O4]]].
  destruct (o_is_branch (c_t X)) eqn:B.
  2:{ rewrite !pchild3_leaf by exact B. split; intros _; exact Hx. }
  pose proof F as [C [_ [E [_ [_ Es]]]]]. specialize (E B).
  destruct (quadrant_in8 A cn HA Hcn) as [I1 I2]. destruct Ar as [_ Cx].
  assert (Es' : s0 = ocorner_pt (c_o X) (S k0') cn) by (apply Es; exact E).
  subst s0.
  destruct (qcube_in_child A cn (c_o X) k0' s k HA Hcn O1 O2) as [Q1 Q2].
  assert (Ech : forall i, c_o (pchild3 X i) = ocorner_pt (c_o X) k0' i /\ c_k (pchild3 X i) = k0').
  { intros i. unfold pchild3. rewrite B. cbn [c_o c_k]. rewrite E, ochild_org_S. split; reflexivity. }
  split; intros H.
  - apply (leaf_in_child ins X cn x (qcube A cn s k) k B C I1 Hx Cx).
    unfold cube_in. destruct (Ech cn) as [-> ->]. apply Q1; assumption.
  - apply (leaf_in_child ins X (cn + A) x (qcube A cn s k) k B C I2 Hx Cx).
    unfold cube_in. destruct (Ech (cn + A)) as [-> ->]. apply Q2; assumption.
Qed.

Lemma pchild3_height c i f : (oheight (c_t c) < S f)%nat -> (1 <= f)%nat -> (oheight (c_t (pchild3 c i)) < f)%nat.
Proof.
  intros H Hf. change (c_t (pchild3 c i)) with (fst (c_cell (pchild3 c i))). rewrite c_cell_pchild3.
  apply ochild_height_lt; assumption.
Qed.

Section Complete.
Variable ins : pt3 -> bool.
Variable diag : overtex -> overtex -> overtex -> overtex -> bool.

Notation L3 A a b c d := (load3 diag A (c_cell a) (c_cell b) (c_cell c) (c_cell d)).

(** edge3 is complete: called on four placed cells around the lattice edge (s0, k0) (one of them of
    exactly that size), it reaches the load3 call of every quadruple of leaves below them that
    surrounds a minimal edge (s, k) contained in (s0, k0).  No sign information is used. *)
Lemma edge3_complete A : oaxis A -> forall f ca cb cc cd s0 k0 a b c d s k,
  pfits3 ins A (Qax A + Rax A) ca s0 k0 -> pfits3 ins A (Rax A) cb s0 k0 ->
  pfits3 ins A (Qax A) cc s0 k0 -> pfits3 ins A 0 cd s0 k0 ->
  (c_k ca = k0 \/ c_k cb = k0 \/ c_k cc = k0 \/ c_k cd = k0) ->
  (oheight (c_t ca) < f)%nat -> (oheight (c_t cb) < f)%nat -> (oheight (c_t cc) < f)%nat -> (oheight (c_t cd) < f)%nat ->
  In a (pleaves3 ca) -> In b (pleaves3 cb) -> In c (pleaves3 cc) -> In d (pleaves3 cd) ->
  min_edge3 A a b c d s k -> online A s0 k0 s k ->
  incl (L3 A a b c d) (edge3 diag f A (c_cell ca) (c_cell cb) (c_cell cc) (c_cell cd)).
Proof.
  intros HA. induction f as [|f IH]; intros ca cb cc cd s0 k0 a b c d s k Fa Fb Fc Fd Hex Ha Hb Hc Hd Ia Ib Ic Id ME OL; [lia|].
  cbn [edge3]. unfold c_cell at 5 6 7 8. cbn [fst].
  assert (Q0 : quadrant A (Qax A + Rax A)) by (unfold quadrant; tauto).
  assert (Q1 : quadrant A (Rax A)) by (unfold quadrant; tauto).
  assert (Q2 : quadrant A (Qax A)) by (unfold quadrant; tauto).
  assert (Q3 : quadrant A 0) by (unfold quadrant; tauto).
  destruct (o_is_branch (c_t ca) || o_is_branch (c_t cb) || o_is_branch (c_t cc) || o_is_branch (c_t cd)) eqn:BB.
  2:{ apply orb_false_iff in BB. destruct BB as [BB B3]. apply orb_false_iff in BB. destruct BB as [BB B2].
      apply orb_false_iff in BB. destruct BB as [B0 B1].
      rewrite pleaves3_self in Ia, Ib, Ic, Id by assumption.
      destruct Ia as [<-|[]]. destruct Ib as [<-|[]]. destruct Ic as [<-|[]]. destruct Id as [<-|[]]. apply incl_refl. }
  assert (BB' : o_is_branch (c_t ca) = true \/ o_is_branch (c_t cb) = true \/
                o_is_branch (c_t cc) = true \/ o_is_branch (c_t cd) = true).
  { apply orb_true_iff in BB. destruct BB as [BB|B]; [|tauto]. apply orb_true_iff in BB. destruct BB as [BB|B]; [|tauto].
    apply orb_true_iff in BB. destruct BB as [B|B]; tauto. }
  assert (Hk : k0 <> O /\ (1 <= f)%nat).
  { destruct BB' as [B|[B|[B|B]]];
      [ split; [exact (Fits_branch_level ins A _ (c_cell ca) s0 k0 (pfits3_Fits _ _ _ _ _ _ Fa) B)|apply obranch_height in B; lia]
      | split; [exact (Fits_branch_level ins A _ (c_cell cb) s0 k0 (pfits3_Fits _ _ _ _ _ _ Fb) B)|apply obranch_height in B; lia]
      | split; [exact (Fits_branch_level ins A _ (c_cell cc) s0 k0 (pfits3_Fits _ _ _ _ _ _ Fc) B)|apply obranch_height in B; lia]
      | split; [exact (Fits_branch_level ins A _ (c_cell cd) s0 k0 (pfits3_Fits _ _ _ _ _ _ Fd) B)|apply obranch_height in B; lia] ]. }
  destruct Hk as [Hk Hf]. destruct k0 as [|k0]; [congruence|].
  destruct ME as [Aa [Ab [Ac [Ad Hm]]]].
  assert (Dich : oco A s + osize k <= oco A s0 + osize k0 \/ oco A s0 + osize k0 <= oco A s).
  { destruct BB' as [B|[B|[B|B]]].
    - exact (branch_dichotomy ins A _ ca s0 k0 a s k HA Q0 Fa B Ia Aa).
    - exact (branch_dichotomy ins A _ cb s0 k0 b s k HA Q1 Fb B Ib Ab).
    - exact (branch_dichotomy ins A _ cc s0 k0 c s k HA Q2 Fc B Ic Ac).
    - exact (branch_dichotomy ins A _ cd s0 k0 d s k HA Q3 Fd B Id Ad). }
  destruct (pfits3_split ins A _ ca s0 k0 HA Q0 Fa) as [Fa1 [Fa2 Ea]].
  destruct (pfits3_split ins A _ cb s0 k0 HA Q1 Fb) as [Fb1 [Fb2 Eb]].
  destruct (pfits3_split ins A _ cc s0 k0 HA Q2 Fc) as [Fc1 [Fc2 Ec]].
  destruct (pfits3_split ins A _ cd s0 k0 HA Q3 Fd) as [Fd1 [Fd2 Ed]].
  destruct (target_child ins A _ ca s0 k0 a s k HA Q0 Fa Ia Aa OL) as [Ta1 Ta2].
  destruct (target_child ins A _ cb s0 k0 b s k HA Q1 Fb Ib Ab OL) as [Tb1 Tb2].
  destruct (target_child ins A _ cc s0 k0 c s k HA Q2 Fc Ic Ac OL) as [Tc1 Tc2].
  destruct (target_child ins A _ cd s0 k0 d s k HA Q3 Fd Id Ad OL) as [Td1 Td2].
  assert (Hex1 : c_k (pchild3 ca (Qax A + Rax A)) = k0 \/ c_k (pchild3 cb (Rax A)) = k0 \/
                 c_k (pchild3 cc (Qax A)) = k0 \/ c_k (pchild3 cd 0) = k0).
  { destruct BB' as [B|[B|[B|B]]];
      [ left; exact (proj1 (Ea B)) | right; left; exact (proj1 (Eb B))
      | right; right; left; exact (proj1 (Ec B)) | right; right; right; exact (proj1 (Ed B)) ]. }
  assert (Hex2 : c_k (pchild3 ca (Qax A + Rax A + A)) = k0 \/ c_k (pchild3 cb (Rax A + A)) = k0 \/
                 c_k (pchild3 cc (Qax A + A)) = k0 \/ c_k (pchild3 cd (0 + A)) = k0).
  { destruct BB' as [B|[B|[B|B]]];
      [ left; exact (proj2 (Ea B)) | right; left; exact (proj2 (Eb B))
      | right; right; left; exact (proj2 (Ec B)) | right; right; right; exact (proj2 (Ed B)) ]. }
  assert (ME : min_edge3 A a b c d s k) by (split; [exact Aa|split; [exact Ab|split; [exact Ac|split; [exact Ad|exact Hm]]]]).
  assert (HH : forall x i, (oheight (c_t x) < S f)%nat -> (oheight (c_t (pchild3 x i)) < f)%nat)
    by (intros x i Hx; apply pchild3_height; assumption).
  change (ochild (c_cell cd) A) with (ochild (c_cell cd) (0 + A)).
  rewrite <- !c_cell_pchild3.
  destruct Dich as [Lo|Up].
  - apply incl_appl.
    apply (IH _ _ _ _ s0 k0 a b c d s k Fa1 Fb1 Fc1 Fd1 Hex1); auto.
    apply online_lower; assumption.
  - apply incl_appr.
    apply (IH _ _ _ _ (ostep A s0 (osize k0)) k0 a b c d s k Fa2 Fb2 Fc2 Fd2 Hex2); auto.
    apply online_upper; assumption.
Qed.

End Complete.

(* ------------------------------------------------------------------------- *)
(** * Sign-free completeness of call_edge3: minimal edges on the three central axes of a branch *)

(* the cell in quadrant cn of the central edge of axis A of a branch is its child ci (low half) /
   ci + A (high half) *)
Definition rolechild (A cn ci : Z) : Prop :=
  (cn = Qax A + Rax A /\ ci = 0) \/ (cn = Rax A /\ ci = Qax A) \/ (cn = Qax A /\ ci = Rax A) \/
  (cn = 0 /\ ci = Qax A + Rax A).

Ltac axis_role HA HR :=
  destruct HA as [-> | [-> | ->]]; cbn [Qax Rax Z.eqb Pos.eqb] in HR;
  destruct HR as [[-> ->] | [[-> ->] | [[-> ->] | [-> ->]]]]; cbn [Qax Rax Z.eqb Pos.eqb]; zsums.

Lemma rolechild_facts A cn ci : oaxis A -> rolechild A cn ci ->
  quadrant A cn /\ In ci corners8 /\ In (ci + A) corners8.
Proof.
  intros HA HR. unfold quadrant.
  axis_role HA HR; (split; [cbn [Qax Rax Z.eqb Pos.eqb]; zsums; tauto|split; in8]).
Qed.

Lemma rolechild_pts A cn ci o k' : oaxis A -> rolechild A cn ci ->
  ocorner_pt (ocorner_pt o k' ci) k' cn = ocorner_pt o k' (Qax A + Rax A) /\
  ocorner_pt (ocorner_pt o k' (ci + A)) k' cn = ostep A (ocorner_pt o k' (Qax A + Rax A)) (osize k').
Proof. intros HA HR. axis_role HA HR; split; geo. Qed.

Lemma qcube_in_octant A cn ci o k' s k : oaxis A -> rolechild A cn ci ->
  oco (Qax A) s = oco (Qax A) o + osize k' -> oco (Rax A) s = oco (Rax A) o + osize k' ->
  (oco A o <= oco A s -> oco A s + osize k <= oco A o + osize k' ->
   box_in (qcube A cn s k) k (ocorner_pt o k' ci) k') /\
  (oco A o + osize k' <= oco A s -> oco A s + osize k <= oco A o + osize (S k') ->
   box_in (qcube A cn s k) k (ocorner_pt o k' (ci + A)) k').
Proof.
  intros HA HR. destruct o as [[ox oy] oz], s as [[sx sy] sz].
  pose proof (osize_pos k) as Hp. pose proof (osize_pos k') as Hp'. pose proof (osize_S k') as HS.
  unfold qcube, hasq, hasr.
  axis_role HA HR; cbn [Z.eqb Pos.eqb orb]; corner_pts; osteps; unfold oco, box_in; cbn [Z.eqb Pos.eqb];
    intros E1 E2; split; intros H1 H2; lia.
Qed.

Lemma branch_dichotomy0 ins A cn X k' x s k : oaxis A -> quadrant A cn ->
  o_is_branch (c_t X) = true -> oconsistent ins (c_t X) (c_o X) (c_k X) -> c_k X = S k' ->
  In x (pleaves3 X) -> around3 A cn x s k ->
  oco A s + osize k <= oco A (c_o X) + osize k' \/ oco A (c_o X) + osize k' <= oco A s.
Proof.
  intros HA Hcn B C Ek Hx [_ Cx]. destruct X as [t p o kt]. cbn [c_t c_p c_o c_k] in *. subst kt.
  destruct t as [| | |c0 c1 c2 c3 c4 c5 c6 c7]; try discriminate.
  destruct (oconsistent_branch _ _ _ _ _ _ _ _ _ _ _ C) as [k0 [Ek [C0 [C1 [C2 [C3 [C4 [C5 [C6 C7]]]]]]]]].
  injection Ek as <-.
  unfold pleaves3 in Hx. cbn [c_t c_p c_o c_k oleaves pred] in Hx. rewrite !ochild_org_S in Hx.
  unfold cube_in in Cx. destruct (c_o x) as [[ax ay] az] eqn:Eo.
  destruct o as [[ox oy] oz], s as [[sx sy] sz].
  pose proof (osize_pos k) as Hp. pose proof (osize_pos k') as Hp'. pose proof (osize_S k') as HS.
  revert Cx. unfold qcube, hasq, hasr.
  in_app8 Hx;
    [ pose proof (oleaves_inside ins _ _ _ _ _ C0 Hx) as [_ [L _]] | pose proof (oleaves_inside ins _ _ _ _ _ C1 Hx) as [_ [L _]]
    | pose proof (oleaves_inside ins _ _ _ _ _ C2 Hx) as [_ [L _]] | pose proof (oleaves_inside ins _ _ _ _ _ C3 Hx) as [_ [L _]]
    | pose proof (oleaves_inside ins _ _ _ _ _ C4 Hx) as [_ [L _]] | pose proof (oleaves_inside ins _ _ _ _ _ C5 Hx) as [_ [L _]]
    | pose proof (oleaves_inside ins _ _ _ _ _ C6 Hx) as [_ [L _]] | pose proof (oleaves_inside ins _ _ _ _ _ C7 Hx) as [_ [L _]] ];
    rewrite Eo in L; corner_pts_in L; unfold box_in in L; clear Hx;
    (axis_quadrant HA Hcn; cbn [Z.eqb Pos.eqb orb]; osteps; unfold oco, box_in; cbn [Z.eqb Pos.eqb];
     intros Cx; lia).
Qed.

Lemma central_child ins A cn ci X k' x s k : oaxis A -> rolechild A cn ci ->
  o_is_branch (c_t X) = true -> oconsistent ins (c_t X) (c_o X) (c_k X) -> c_k X = S k' ->
  In x (pleaves3 X) -> around3 A cn x s k ->
  online A (ocorner_pt (c_o X) k' (Qax A + Rax A)) (S k') s k ->
  let s0 := ocorner_pt (c_o X) k' (Qax A + Rax A) in
  pfits3 ins A cn (pchild3 X ci) s0 k' /\ pfits3 ins A cn (pchild3 X (ci + A)) (ostep A s0 (osize k')) k' /\
  c_k (pchild3 X ci) = k' /\ c_k (pchild3 X (ci + A)) = k' /\
  (oco A s + osize k <= oco A s0 + osize k' -> In x (pleaves3 (pchild3 X ci))) /\
  (oco A s0 + osize k' <= oco A s -> In x (pleaves3 (pchild3 X (ci + A)))) /\
  (oco A s + osize k <= oco A s0 + osize k' \/ oco A s0 + osize k' <= oco A s).
Proof.
  intros HA HR B C Ek Hx Ar OL s0.
  destruct (rolechild_facts A cn ci HA HR) as [Hcn [I1 I2]].
  destruct (rolechild_pts A cn ci (c_o X) k' HA HR) as [P1 P2].
  assert (Ech : forall i, c_t (pchild3 X i) = osub (c_t X) i /\ c_o (pchild3 X i) = ocorner_pt (c_o X) k' i /\
                          c_k (pchild3 X i) = k').
  { intros i. unfold pchild3. rewrite B. cbn [c_t c_o c_k]. rewrite Ek, ochild_org_S. repeat split; reflexivity. }
  assert (Cs : forall i, In i corners8 -> oconsistent ins (osub (c_t X) i) (ocorner_pt (c_o X) k' i) k').
  { intros i Hi. apply osub_consistent; [rewrite <- Ek; exact C|exact B|exact Hi]. }
  assert (E0 : oco A s0 = oco A (c_o X) /\ oco (Qax A) s0 = oco (Qax A) (c_o X) + osize k' /\
               oco (Rax A) s0 = oco (Rax A) (c_o X) + osize k').
  { subst s0. destruct (c_o X) as [[ox oy] oz]. clear -HA.
    destruct HA as [-> | [-> | ->]]; cbn [Qax Rax Z.eqb Pos.eqb]; zsums; corner_pts; unfold oco; cbn [Z.eqb Pos.eqb]; lia. }
  destruct E0 as [E0 [E1 E2]]. destruct OL as [O1 [O2 [O3 O4]]]. fold s0 in O1, O2, O3, O4.
  destruct (qcube_in_octant A cn ci (c_o X) k' s k HA HR ltac:(lia) ltac:(lia)) as [Q1 Q2].
  pose proof (branch_dichotomy0 ins A cn X k' x s k HA Hcn B C Ek Hx Ar) as Dich.
  destruct Ar as [_ Cx].
  split; [|split; [|split; [|split; [|split; [|split]]]]].
  - unfold pfits3. destruct (Ech ci) as [-> [-> ->]]. subst s0. rewrite <- P1. apply fits_exact; auto.
  - unfold pfits3. destruct (Ech (ci + A)) as [-> [-> ->]]. subst s0. rewrite <- P2. apply fits_exact; auto.
  - apply Ech.
  - apply Ech.
  - intros H. apply (leaf_in_child ins X ci x (qcube A cn s k) k B C I1 Hx Cx).
    unfold cube_in. destruct (Ech ci) as [_ [-> ->]]. apply Q1; lia.
  - intros H. apply (leaf_in_child ins X (ci + A) x (qcube A cn s k) k B C I2 Hx Cx).
    unfold cube_in. destruct (Ech (ci + A)) as [_ [-> ->]]. apply Q2; lia.
  - lia.
Qed.

Section Central.
Variable ins : pt3 -> bool.
Variable diag : overtex -> overtex -> overtex -> overtex -> bool.

Notation L3 A a b c d := (load3 diag A (c_cell a) (c_cell b) (c_cell c) (c_cell d)).

Lemma rc0 A : rolechild A (Qax A + Rax A) 0. Proof. left; split; reflexivity. Qed.
Lemma rc1 A : rolechild A (Rax A) (Qax A). Proof. right; left; split; reflexivity. Qed.
Lemma rc2 A : rolechild A (Qax A) (Rax A). Proof. right; right; left; split; reflexivity. Qed.
Lemma rc3 A : rolechild A 0 (Qax A + Rax A). Proof. right; right; right; split; reflexivity. Qed.

(** call_edge3 is complete: every quadruple of leaves of a branch X around a minimal edge of axis A lying on
    the central line of axis A of X has its load3 call inside call_edge3 A X. *)
Lemma call_edge3_complete A : oaxis A -> forall f X k' a b c d s k,
  o_is_branch (c_t X) = true -> oconsistent ins (c_t X) (c_o X) (c_k X) -> c_k X = S k' ->
  (oheight (c_t X) < f)%nat ->
  In a (pleaves3 X) -> In b (pleaves3 X) -> In c (pleaves3 X) -> In d (pleaves3 X) ->
  min_edge3 A a b c d s k ->
  online A (ocorner_pt (c_o X) k' (Qax A + Rax A)) (S k') s k ->
  incl (L3 A a b c d) (call_edge3 diag f A (c_cell X)).
Proof.
  intros HA f X k' a b c d s k B C Ek Hf Ia Ib Ic Id ME OL.
  pose proof ME as [Aa [Ab [Ac [Ad Hm]]]].
  destruct (central_child ins A _ _ X k' a s k HA (rc0 A) B C Ek Ia Aa OL) as [Fa1 [Fa2 [Ka1 [Ka2 [Ta1 [Ta2 Dich]]]]]].
  destruct (central_child ins A _ _ X k' b s k HA (rc1 A) B C Ek Ib Ab OL) as [Fb1 [Fb2 [Kb1 [Kb2 [Tb1 [Tb2 _]]]]]].
  destruct (central_child ins A _ _ X k' c s k HA (rc2 A) B C Ek Ic Ac OL) as [Fc1 [Fc2 [Kc1 [Kc2 [Tc1 [Tc2 _]]]]]].
  destruct (central_child ins A _ _ X k' d s k HA (rc3 A) B C Ek Id Ad OL) as [Fd1 [Fd2 [Kd1 [Kd2 [Td1 [Td2 _]]]]]].
  cbv zeta in *.
  assert (HH : forall i, (oheight (c_t (pchild3 X i)) < f)%nat).
  { intros i. change (c_t (pchild3 X i)) with (fst (c_cell (pchild3 X i))). rewrite c_cell_pchild3.
    apply ochild_height_le. exact Hf. }
  unfold call_edge3. cbn [flat_map]. rewrite app_nil_r.
  change (Qax A + 0) with (Qax A + 0). rewrite !Z.add_0_r.
  change (0 + A) with A in *.
  replace (Rax A + A) with (Rax A + A) by reflexivity.
  rewrite <- !c_cell_pchild3.
  destruct Dich as [Lo|Up].
  - apply incl_appl.
    apply (edge3_complete ins diag A HA f _ _ _ _ _ k' a b c d s k Fa1 Fb1 Fc1 Fd1); auto.
    apply online_lower; assumption.
  - apply incl_appr.
    apply (edge3_complete ins diag A HA f _ _ _ _ _ k' a b c d s k Fa2 Fb2 Fc2 Fd2); auto.
    apply online_upper; assumption.
Qed.

End Central.

(* ------------------------------------------------------------------------- *)
(** * From a branching subcell to the whole mesh *)

Inductive subcell3 : pcell3 -> pcell3 -> Prop :=
| sub3_refl X : subcell3 X X
| sub3_step X Y i : In i corners8 -> o_is_branch (c_t Y) = true -> subcell3 X (pchild3 Y i) -> subcell3 X Y.

Lemma walk3_child_incl diag f Y i : In i corners8 -> o_is_branch (c_t Y) = true ->
  incl (walk3 diag f (c_t (pchild3 Y i)) (c_p (pchild3 Y i))) (walk3 diag f (c_t Y) (c_p Y)).
Proof.
  intros Hi B. destruct Y as [t p o k]. unfold pchild3. cbn [c_t c_p c_o c_k] in *. rewrite B. cbn [c_t c_p].
  destruct t as [| | |c0 c1 c2 c3 c4 c5 c6 c7]; try discriminate.
  cbn [walk3]. apply in_corners8 in Hi. intros z Hz. rewrite !in_app_iff.
  destruct Hi as [-> | [-> | [-> | [-> | [-> | [-> | [-> | ->]]]]]]]; cbn [osub Z.eqb Pos.eqb] in Hz; tauto.
Qed.

Lemma subcell3_facts ins diag f X Y : subcell3 X Y ->
  incl (walk3 diag f (c_t X) (c_p X)) (walk3 diag f (c_t Y) (c_p Y)) /\
  incl (pleaves3 X) (pleaves3 Y) /\
  (oconsistent ins (c_t Y) (c_o Y) (c_k Y) -> oconsistent ins (c_t X) (c_o X) (c_k X)) /\
  (oheight (c_t X) <= oheight (c_t Y))%nat.
Proof.
  induction 1 as [X|X Y i Hi B S [IH1 [IH2 [IH3 IH4]]]].
  - split; [apply incl_refl|]. split; [apply incl_refl|]. split; [tauto|lia].
  - split; [eapply incl_tran; [exact IH1|apply walk3_child_incl; assumption]|].
    split; [eapply incl_tran; [exact IH2|apply pleaves3_pchild3; assumption]|].
    split.
    + intros C. apply IH3. unfold pchild3. rewrite B. cbn [c_t c_o c_k].
      destruct (c_k Y) as [|k'] eqn:Ek; [exfalso; eapply obranch_level; eauto|].
      rewrite ochild_org_S. cbn [pred]. apply osub_consistent; assumption.
    + assert (H : (oheight (c_t (pchild3 Y i)) < oheight (c_t Y))%nat).
      { unfold pchild3. rewrite B. cbn [c_t]. apply oheight_sub. exact B. }
      lia.
Qed.

Lemma work3_in_walk3 diag f X : o_is_branch (c_t X) = true ->
  incl (work3 diag f (c_cell X)) (walk3 diag f (c_t X) (c_p X)).
Proof.
  intros B. destruct X as [t p o k]. cbn [c_t c_p] in *. unfold c_cell. cbn [c_t c_p].
  destruct t as [| | |c0 c1 c2 c3 c4 c5 c6 c7]; try discriminate.
  cbn [walk3]. intros z Hz. rewrite !in_app_iff. tauto.
Qed.

Lemma call_edge3_in_work3 diag f A c : oaxis A -> incl (call_edge3 diag f A c) (work3 diag f c).
Proof.
  intros HA z Hz. unfold work3. rewrite !in_app_iff. destruct HA as [-> | [-> | ->]]; tauto.
Qed.

(** PARTIAL completeness (what the EDGE recursion gives): in a consistent tree, for every branching cell X
    of the tree and every quadruple of leaves below X around a minimal edge of axis A that lies on the
    central line of axis A of X, the triangles of load3 are in the mesh.  MISSING for the full theorem:
    minimal edges lying inside a face shared by two children of a branch (the face3 recursion). *)
Theorem central_edges_complete_partial ins diag t k0 A X k' a b c d s k :
  oconsistent ins t (0, 0, 0) k0 -> oaxis A ->
  subcell3 X (PC3 t [] (0, 0, 0) k0) -> o_is_branch (c_t X) = true -> c_k X = S k' ->
  In a (pleaves3 X) -> In b (pleaves3 X) -> In c (pleaves3 X) -> In d (pleaves3 X) ->
  min_edge3 A a b c d s k ->
  online A (ocorner_pt (c_o X) k' (Qax A + Rax A)) (S k') s k ->
  incl (load3 diag A (c_cell a) (c_cell b) (c_cell c) (c_cell d)) (mesh_walk diag t).
Proof.
  intros C HA Sub B Ek Ia Ib Ic Id ME OL.
  destruct (subcell3_facts ins diag (S (oheight t)) X _ Sub) as [W [_ [CX Hh]]]. cbn [c_t c_p c_o c_k] in *.
  unfold mesh_walk. eapply incl_tran; [|exact W].
  eapply incl_tran; [|apply work3_in_walk3; exact B].
  eapply incl_tran; [|apply call_edge3_in_work3; exact HA].
  apply (call_edge3_complete ins diag A HA _ X k' a b c d s k B (CX C) Ek); auto. lia.
Qed.

Print Assumptions edge3_complete.
Print Assumptions call_edge3_complete.
Print Assumptions central_edges_complete_partial.
