(* QEF<N> (render/brep/simplex/qef.hpp): accumulation of samples into
   A^T A, A^T B', B'^T B', the error formula, and the descending-dimension search
   of solveBounded over the 3^N - 1 proper subspaces of the cell (base-3
   NeighborIndex digits: 2 = free axis, 0 / 1 = pinned to the lower / upper
   bound).  The constrained least-squares solve itself (Eigen's eigen-solver) is
   an oracle: the search is modelled over the candidates it returns. *)
From Coq Require Import List Arith Bool.
Import ListNotations.

Section Qef.
  Context {num : Type}.
  Record qops := {
    q_zero : num; q_one : num; q_mone : num; q_two : num; q_inf : num;
    q_add : num -> num -> num; q_sub : num -> num -> num; q_mul : num -> num -> num;
    q_ltb : num -> num -> bool; q_leb : num -> num -> bool; q_eqb : num -> num -> bool;
  }.
  Variable Q : qops.

  Definition vec := list num.
  Definition mat := list vec.

  Definition vsum (v : vec) : num := fold_left (q_add Q) v (q_zero Q).
  Definition dot (a b : vec) : num := vsum (map (fun p => q_mul Q (fst p) (snd p)) (combine a b)).
  Definition vadd (a b : vec) : vec := map (fun p => q_add Q (fst p) (snd p)) (combine a b).
  Definition madd (a b : mat) : mat := map (fun p => vadd (fst p) (snd p)) (combine a b).
  Definition outer (a b : vec) : mat := map (fun x => map (fun y => q_mul Q x y) b) a.
  Definition mzero (n : nat) : mat := repeat (repeat (q_zero Q) n) n.

  Record qef := { AtA : mat; AtBp : mat; BptBp : mat }.
  Definition qef0 (n : nat) : qef := {| AtA := mzero (S n); AtBp := mzero (S n); BptBp := mzero (S n) |}.

  (* QEF::insert (normals are already finite here) *)
  Definition insert (q : qef) (position normal : vec) (value : num) : qef :=
    let ni := normal ++ [q_mone Q] in
    let pi := position ++ [value] in
    let bp := map (fun p => q_mul Q (fst p) (snd p)) (combine ni pi) in
    {| AtA := madd (AtA q) (outer ni ni);
       AtBp := madd (AtBp q) (outer ni bp);
       BptBp := madd (BptBp q) (outer bp bp) |}.

  Definition mvec (m : mat) (v : vec) : vec := map (fun row => dot row v) m.
  Definition ones (n : nat) : vec := repeat (q_one Q) n.

  (* QEF::error(pos, value) = v^T AtA v - 2 v^T AtB + BtB *)
  Definition qerror (q : qef) (pos : vec) (value : num) : num :=
    let v := pos ++ [value] in
    let n := length v in
    let atb := mvec (AtBp q) (ones n) in
    let btb := dot (ones n) (mvec (BptBp q) (ones n)) in
    q_add Q (q_sub Q (dot v (mvec (AtA q) v)) (q_mul Q (q_two Q) (dot v atb))) btb.

  (* ---- subspaces ---- *)
  Fixpoint digits (n : nat) (i : nat) : list nat :=      (* axis 0 first *)
    match n with
    | 0 => []
    | S k => (i mod 3) :: digits k (i / 3)
    end.
  Definition dimension (n i : nat) : nat := length (filter (Nat.eqb 2) (digits n i)).

  Definition contains (lo hi p : vec) : bool :=
    forallb (fun t => q_leb Q (fst (fst t)) (snd t) && q_leb Q (snd t) (snd (fst t)))
            (combine (combine lo hi) p).

  (* a candidate: what solveConstrained<i> returned *)
  Record cand := { c_pos : vec; c_err : num; c_tag : nat }.

  (* UnrollSubspace<d, 3^N> ... <d, 1>: subspace indices 3^N - 1 down to 0 *)
  Definition improves (lo hi : vec) (sol out : cand) : bool :=
    q_ltb Q (c_err sol) (c_err out)
    || (q_eqb Q (c_err sol) (c_err out) && negb (contains lo hi (c_pos sol)) && contains lo hi (c_pos out)).

  Fixpoint sub_pass (n d : nat) (lo hi : vec) (cands : nat -> cand) (k : nat) (out : cand) : cand :=
    match k with
    | 0 => out
    | S j =>     (* TargetSubspace = S j, neighbour index j *)
        let out' := if Nat.eqb (dimension n j) d
                    then (if improves lo hi (cands j) out then cands j else out)
                    else out in
        sub_pass n d lo hi cands j out'
    end.

  (* UnrollDimension<N-1> ... <0> *)
  Fixpoint dim_pass (n : nat) (lo hi : vec) (cands : nat -> cand) (d : nat) (out : cand) : cand :=
    let out1 := sub_pass n d lo hi cands (3 ^ n) out in
    if contains lo hi (c_pos out1) then out1
    else
      match d with
      | 0 => {| c_pos := c_pos out1; c_err := q_inf Q; c_tag := c_tag out1 |}
      | S d' => dim_pass n lo hi cands d' {| c_pos := c_pos out1; c_err := q_inf Q; c_tag := c_tag out1 |}
      end.

  (* solveBounded after the unconstrained solution was rejected *)
  Definition bounded_search (n : nat) (lo hi : vec) (cands : nat -> cand) : cand :=
    match n with
    | 0 => {| c_pos := []; c_err := q_inf Q; c_tag := 0 |}
    | S m => dim_pass n lo hi cands m
               {| c_pos := repeat (q_zero Q) n; c_err := q_inf Q; c_tag := 3 ^ n |}
    end.

  (* position produced by solveConstrained for subspace i: pinned axes on the bounds *)
  Definition pinned_ok (n : nat) (lo hi : vec) (i : nat) (p : vec) : Prop :=
    length p = n /\
    forall a, a < n ->
      (nth a (digits n i) 2 = 0 -> nth a p (q_zero Q) = nth a lo (q_zero Q)) /\
      (nth a (digits n i) 2 = 1 -> nth a p (q_zero Q) = nth a hi (q_zero Q)).

End Qef.
