(* C03 / C04 (adaptive octrees): signed counts of directed edges, the per-quad lemma for load3, lattice
   edges and the cells around them (fits / Fits / FitsE), the potential [flag] and edge3_net, and the
   finite sweeps of the local face lemma over the real tables.  See the header of Render/OctTreeSem.v. *)
From Coq Require Import List ZArith Bool Lia Arith.
From LF Require Import Gen.MarchTables_gen Gen.ManifoldTables_gen Render.DCGrid Render.DCGridSem
                       Render.OctTree Render.OctTreeGeom.
Import ListNotations.
Local Open Scope Z_scope.

(* ------------------------------------------------------------------------- *)
(** * Signed counts of directed edges *)

Definition orev (x : odedge) : odedge := (snd x, fst x).
Definition owt (e x : odedge) : Z :=
  (if odedge_eqb e x then 1 else 0) - (if odedge_eqb (orev e) x then 1 else 0).
Definition onet (e : odedge) (l : list odedge) : Z :=
  Z.of_nat (ocount e l) - Z.of_nat (ocount (orev e) l).

Lemma onet_nil e : onet e [] = 0.
Proof. reflexivity. Qed.
Lemma onet_cons e x l : onet e (x :: l) = owt e x + onet e l.
Proof.
  unfold onet, owt, ocount. cbn [filter].
  destruct (odedge_eqb e x), (odedge_eqb (orev e) x); cbn [length]; lia.
Qed.
Lemma onet_app e l1 l2 : onet e (l1 ++ l2) = onet e l1 + onet e l2.
Proof. induction l1 as [|x l1 IH]; [reflexivity|]. cbn [app]. rewrite !onet_cons, IH. lia. Qed.

Lemma odedge_eqb_rev e x : odedge_eqb e (orev x) = odedge_eqb (orev e) x.
Proof. unfold odedge_eqb, orev. cbn [fst snd]. apply andb_comm. Qed.
Lemma orev_invol x : orev (orev x) = x.
Proof. destruct x. reflexivity. Qed.
Lemma owt_rev e x : owt e (orev x) = - owt e x.
Proof.
  unfold owt. rewrite (odedge_eqb_rev e x), (odedge_eqb_rev (orev e) x), orev_invol. lia.
Qed.
Lemma owt_swap e a b : owt e (b, a) = - owt e (a, b).
Proof. apply (owt_rev e (a, b)). Qed.
Lemma owt_self e x : owt e (x, x) = 0.
Proof. pose proof (owt_swap e x x). lia. Qed.

Lemma oclosed_mesh_net m : oclosed_mesh m <-> forall e, onet e (odedges m) = 0.
Proof. unfold oclosed_mesh, onet. split; intros H e; specialize (H e); unfold orev in *; lia. Qed.

Definition N (e : odedge) (m : list otri) : Z := onet e (odedges m).
Lemma N_nil e : N e [] = 0.
Proof. reflexivity. Qed.
Lemma N_app e a b : N e (a ++ b) = N e a + N e b.
Proof. unfold N, odedges. rewrite flat_map_app. apply onet_app. Qed.

Lemma push_tri_net e a b c : N e (push_tri a b c) = owt e (a, b) + owt e (b, c) + owt e (c, a).
Proof.
  unfold push_tri.
  destruct (overtex_eqb a b) eqn:E1.
  { apply overtex_eqb_eq in E1. subst b. cbn [orb]. rewrite N_nil, owt_self, (owt_swap e a c). lia. }
  destruct (overtex_eqb b c) eqn:E2.
  { apply overtex_eqb_eq in E2. subst c. cbn [orb]. rewrite N_nil, owt_self, (owt_swap e a b). lia. }
  destruct (overtex_eqb a c) eqn:E3.
  { apply overtex_eqb_eq in E3. subst c. cbn [orb]. rewrite N_nil, owt_self, (owt_swap e a b). lia. }
  cbn [orb]. unfold N, odedges. cbn [flat_map otri_edges app]. rewrite !onet_cons, onet_nil. lia.
Qed.

(** (a) the per-quad lemma: whatever the diagonal, and whichever triangles push_tri drops, the signed
    counts are those of the 4-cycle v0 -> w1 -> v3 -> w2 -> v0 (self-loops count 0) *)
Lemma quad_net_o e (d : bool) v0 w1 w2 v3 :
  N e (if d then push_tri v0 w1 w2 ++ push_tri w2 w1 v3 else push_tri v0 w1 v3 ++ push_tri v0 v3 w2) =
  owt e (v0, w1) + owt e (w1, v3) + owt e (v3, w2) + owt e (w2, v0).
Proof.
  destruct d; rewrite N_app, !push_tri_net.
  - rewrite (owt_swap e w1 w2). lia.
  - rewrite (owt_swap e v3 v0). lia.
Qed.

(* ------------------------------------------------------------------------- *)
(** * What one pair of cyclically adjacent cells sees of one lattice edge *)

(* patch index of the vertex that the leaf [t] contributes to a quad around an edge of axis [A] that
   runs along its corners cn -> cn + A, the start of the edge being FILLED iff [D] *)
Definition pidx (t : otree) (A cn : Z) (D : bool) : Z :=
  if Nat.ltb 0 (leaf_level t) then 0 else p3 (leaf_mask t) (dirE D cn (cn + A)).
Definition overt (c : ocell) (A cn : Z) (D : bool) : overtex := (snd c, pidx (fst c) A cn D).

Definition sg (sa sb : bool) : Z := if Bool.eqb sa sb then 0 else if sa then 1 else -1.

(* the side of the quad between the cells ca, cb (in the cyclic order 0 -> 1 -> 3 -> 2 -> 0 of ts) *)
Definition flagw (e : odedge) (A : Z) (sa sb : bool) (ca : ocell) (cna : Z) (cb : ocell) (cnb : Z) : Z :=
  if o_is_ambig (fst ca) && o_is_ambig (fst cb)
  then sg sa sb * owt e (overt ca A cna sa, overt cb A cnb sa)
  else 0.

Lemma sg_same s : sg s s = 0.
Proof. unfold sg. rewrite eqb_reflx. reflexivity. Qed.
Lemma flagw_same e A s ca cna cb cnb : flagw e A s s ca cna cb cnb = 0.
Proof. unfold flagw. rewrite sg_same. destruct (_ && _); reflexivity. Qed.
Lemma flagw_nonambig_l e A sa sb ca cna cb cnb : o_is_ambig (fst ca) = false -> flagw e A sa sb ca cna cb cnb = 0.
Proof. unfold flagw. intros ->. reflexivity. Qed.
Lemma flagw_nonambig_r e A sa sb ca cna cb cnb : o_is_ambig (fst cb) = false -> flagw e A sa sb ca cna cb cnb = 0.
Proof. unfold flagw. intros ->. rewrite andb_false_r. reflexivity. Qed.

Lemma min_index4_spec a b c d :
  let i := min_index4 a b c d in
  (i = 0 /\ a <= b /\ a <= c /\ a <= d)%nat \/ (i = 1 /\ b <= a /\ b <= c /\ b <= d)%nat \/
  (i = 2 /\ c <= a /\ c <= b /\ c <= d)%nat \/ (i = 3 /\ d <= a /\ d <= b /\ d <= c)%nat.
Proof.
  unfold min_index4.
  destruct (Nat.ltb_spec b a), (Nat.ltb_spec c (Nat.min a b)), (Nat.ltb_spec d (Nat.min (Nat.min a b) c)); lia.
Qed.

Lemma load3_net e diag A (t0 t1 t2 t3 : ocell) sa sb :
  let q := Qax A in let r := Rax A in
  let idx := min_index4 (leaf_level (fst t0)) (leaf_level (fst t1)) (leaf_level (fst t2)) (leaf_level (fst t3)) in
  (forallb (fun c : ocell => o_is_ambig (fst c)) [t0; t1; t2; t3] = true ->
     ocorner_state (fst (nth idx [t0; t1; t2; t3] t0)) (nth idx [q + r; r; q; 0] 0) = sa /\
     ocorner_state (fst (nth idx [t0; t1; t2; t3] t0)) (nth idx [q + r; r; q; 0] 0 + A) = sb) ->
  (forallb (fun c : ocell => o_is_ambig (fst c)) [t0; t1; t2; t3] = false -> sa = sb) ->
  N e (load3 diag A t0 t1 t2 t3) =
  flagw e A sa sb t0 (q + r) t1 r + flagw e A sa sb t1 r t3 0 +
  flagw e A sa sb t3 0 t2 q + flagw e A sa sb t2 q t0 (q + r).
Proof.
  intros q r idx Hamb Hnon. unfold load3. cbv zeta. fold q r. fold idx.
  match goal with |- context [negb (forallb ?f ?l)] => set (fa := forallb f l) end.
  change (fa = true ->
     ocorner_state (fst (nth idx [t0; t1; t2; t3] t0)) (nth idx [q + r; r; q; 0] 0) = sa /\
     ocorner_state (fst (nth idx [t0; t1; t2; t3] t0)) (nth idx [q + r; r; q; 0] 0 + A) = sb) in Hamb.
  change (fa = false -> sa = sb) in Hnon.
  assert (EA : fa = forallb (fun c : ocell => o_is_ambig (fst c)) [t0; t1; t2; t3]) by reflexivity.
  destruct fa.
  2:{ cbn [negb]. rewrite N_nil, (Hnon eq_refl), !flagw_same. reflexivity. }
  cbn [negb]. destruct (Hamb eq_refl) as [Ea Eb]. rewrite Ea, Eb. symmetry in EA.
  cbn [forallb] in EA. rewrite !andb_true_iff in EA. destruct EA as [A0 [A1 [A2 [A3 _]]]].
  destruct (Bool.eqb sa sb) eqn:Eab.
  { apply eqb_prop in Eab. rewrite <- Eab. rewrite N_nil, !flagw_same. reflexivity. }
  unfold flagw. rewrite A0, A1, A2, A3. cbn [andb].
  unfold sg. rewrite Eab.
  cbn [map nth fst snd].
  change (if sa then e3 (q + r) (q + r + A) else e3 (q + r + A) (q + r)) with (dirE sa (q + r) (q + r + A)).
  change (if sa then e3 r (r + A) else e3 (r + A) r) with (dirE sa r (r + A)).
  change (if sa then e3 q (q + A) else e3 (q + A) q) with (dirE sa q (q + A)).
  change (if sa then e3 0 A else e3 A 0) with (dirE sa 0 (0 + A)).
  fold (pidx (fst t0) A (q + r) sa). fold (pidx (fst t1) A r sa). fold (pidx (fst t2) A q sa).
  fold (pidx (fst t3) A 0 sa).
  fold (overt t0 A (q + r) sa). fold (overt t1 A r sa). fold (overt t2 A q sa). fold (overt t3 A 0 sa).
  destruct sa.
  - rewrite (quad_net_o e (diag _ _ _ _)). lia.
  - rewrite (quad_net_o e (diag _ _ _ _)).
    rewrite (owt_swap e (overt t0 A (q + r) false) (overt t2 A q false)),
            (owt_swap e (overt t2 A q false) (overt t3 A 0 false)),
            (owt_swap e (overt t3 A 0 false) (overt t1 A r false)),
            (owt_swap e (overt t1 A r false) (overt t0 A (q + r) false)). lia.
Qed.

(* ------------------------------------------------------------------------- *)
(** * Geometry: lattice edges and the cells around them *)

Definition ostep (A : Z) (s : pt3) (n : Z) : pt3 :=
  match s with (x, y, z) => if A =? 1 then (x + n, y, z) else if A =? 2 then (x, y + n, z) else (x, y, z + n) end.

Lemma ostep_1 x y z n : ostep 1 (x, y, z) n = (x + n, y, z).
Proof. reflexivity. Qed.
Lemma ostep_2 x y z n : ostep 2 (x, y, z) n = (x, y + n, z).
Proof. reflexivity. Qed.
Lemma ostep_4 x y z n : ostep 4 (x, y, z) n = (x, y, z + n).
Proof. reflexivity. Qed.

Ltac osteps := repeat (progress (rewrite ?ostep_1, ?ostep_2, ?ostep_4)).
Ltac osteps_in H := repeat (progress (rewrite ?ostep_1, ?ostep_2, ?ostep_4 in H)).

Definition quadrant (A cn : Z) : Prop := cn = 0 \/ cn = Qax A \/ cn = Rax A \/ cn = Qax A + Rax A.

(* fold sums of numerals *)
Ltac zsums :=
  repeat match goal with
         | |- context [Zpos ?a + Zpos ?b] =>
           let v := eval vm_compute in (Zpos a + Zpos b) in change (Zpos a + Zpos b) with v
         | |- context [0 + Zpos ?b] => change (0 + Zpos b) with (Zpos b)
         | |- context [Zpos ?a + 0] => change (Zpos a + 0) with (Zpos a)
         | |- context [0 + 0] => change (0 + 0) with 0
         end.
Ltac zsums_in H :=
  repeat match type of H with
         | context [Zpos ?a + Zpos ?b] =>
           let v := eval vm_compute in (Zpos a + Zpos b) in change (Zpos a + Zpos b) with v in H
         | context [0 + Zpos ?b] => change (0 + Zpos b) with (Zpos b) in H
         | context [Zpos ?a + 0] => change (Zpos a + 0) with (Zpos a) in H
         | context [0 + 0] => change (0 + 0) with 0 in H
         end.

(* the twelve (axis, quadrant) cases, with literal corner numbers *)
Ltac axis_quadrant HA Hcn :=
  destruct HA as [-> | [-> | ->]]; cbn [Qax Rax Z.eqb Pos.eqb] in Hcn;
  destruct Hcn as [-> | [-> | [-> | ->]]]; cbn [Qax Rax Z.eqb Pos.eqb]; zsums.

Ltac in8 := apply in_corners8; tauto.

(* coordinates *)
Ltac pose_sizes :=
  repeat match goal with
         | |- context [osize ?k] =>
           lazymatch goal with H : 0 < osize k |- _ => fail | _ => pose proof (osize_pos k) end
         end.
Ltac geo :=
  repeat match goal with p : pt3 |- _ => destruct p as [[? ?] ?] end;
  repeat (progress corner_pts); osteps; rewrite ?osize_S;
  first [ apply in_closed3_xyz; rewrite ?osize_S; pose_sizes; lia | pose_sizes; pt3eq ].

Lemma ostep_ostep A s a b : ostep A (ostep A s a) b = ostep A s (a + b).
Proof. destruct s as [[x y] z]. unfold ostep. destruct (A =? 1); [|destruct (A =? 2)]; pt3eq. Qed.

Lemma ocorner_step A cn org k : oaxis A -> quadrant A cn ->
  ocorner_pt org k (cn + A) = ostep A (ocorner_pt org k cn) (osize k).
Proof. intros HA Hcn. axis_quadrant HA Hcn; geo. Qed.

Lemma quadrant_in8 A cn : oaxis A -> quadrant A cn -> In cn corners8 /\ In (cn + A) corners8.
Proof. intros HA Hcn. axis_quadrant HA Hcn; split; in8. Qed.

Section Geo.
Variable ins : pt3 -> bool.

(* [fits A cn t org kt s k]: the consistent cell (t, org, kt) contains the lattice edge of axis A from s
   to s + 2^k; a branch has exactly the size of the edge; a cell of exactly that size has the edge
   along its corners cn -> cn + A.  (A leaf may be larger, and then the edge may lie anywhere on it.) *)
Definition fits (A cn : Z) (t : otree) (org : pt3) (kt : nat) (s : pt3) (k : nat) : Prop :=
  oconsistent ins t org kt /\ (k <= kt)%nat /\ (o_is_branch t = true -> kt = k) /\
  in_closed3 org kt s /\ in_closed3 org kt (ostep A s (osize k)) /\
  (kt = k -> s = ocorner_pt org k cn).

Lemma fits_branch_children A cn t org k : oaxis A -> quadrant A cn ->
  oconsistent ins t org (S k) -> o_is_branch t = true ->
  fits A cn (osub t cn) (ocorner_pt org k cn) k (ocorner_pt org (S k) cn) k /\
  fits A cn (osub t (cn + A)) (ocorner_pt org k (cn + A)) k (ostep A (ocorner_pt org (S k) cn) (osize k)) k.
Proof.
  intros HA Hcn C B.
  assert (K : forall i, In i corners8 -> oconsistent ins (osub t i) (ocorner_pt org k i) k)
    by (intros i Hi; apply osub_consistent; assumption).
  destruct (quadrant_in8 A cn HA Hcn) as [I1 I2].
  pose proof (K _ I1) as K1. pose proof (K _ I2) as K2. clear K I1 I2 C B.
  revert K1 K2. generalize (osub t cn) (osub t (cn + A)). intros u1 u2 K1 K2.
  unfold fits.
  axis_quadrant HA Hcn; zsums_in K2;
    (split; (split; [assumption|]; split; [lia|]; split; [reflexivity|]; split; [geo|]; split; [geo|]; intros _; geo)).
Qed.

Lemma in_closed3_mid A org kt s a b : oaxis A -> 0 <= a <= b ->
  in_closed3 org kt s -> in_closed3 org kt (ostep A s b) -> in_closed3 org kt (ostep A s a).
Proof.
  intros HA Hab. destruct org as [[x y] z], s as [[sx sy] sz].
  destruct HA as [-> | [-> | ->]]; osteps; rewrite !in_closed3_xyz; lia.
Qed.

Lemma fits_leaf_split A cn t org kt s k : oaxis A ->
  fits A cn t org kt s (S k) -> o_is_branch t = false ->
  fits A cn t org kt s k /\ fits A cn t org kt (ostep A s (osize k)) k.
Proof.
  intros HA [C [Hk [_ [I1 [I2 _]]]]] NB. pose proof (osize_pos k) as Hp. pose proof (osize_S k) as HS.
  assert (I3 : in_closed3 org kt (ostep A s (osize k))).
  { apply (in_closed3_mid A org kt s (osize k) (osize (S k))); auto. lia. }
  split.
  - split; [exact C|]. split; [lia|]. split; [congruence|]. split; [exact I1|]. split; [exact I3|]. lia.
  - split; [exact C|]. split; [lia|]. split; [congruence|]. split; [exact I3|]. split; [|lia].
    rewrite ostep_ostep. replace (osize k + osize k) with (osize (S k)) by lia. exact I2.
Qed.

Definition Fits (A cn : Z) (c : ocell) (s : pt3) (k : nat) : Prop :=
  exists org kt, fits A cn (fst c) org kt s k.
Definition FitsE (A cn : Z) (c : ocell) (s : pt3) (k : nat) : Prop :=
  exists org, fits A cn (fst c) org k s k.

Lemma FitsE_Fits A cn c s k : FitsE A cn c s k -> Fits A cn c s k.
Proof. intros [org F]. exists org, k. exact F. Qed.

Lemma Fits_branch_E A cn c s k : Fits A cn c s k -> o_is_branch (fst c) = true -> FitsE A cn c s k.
Proof. intros [org [kt F]] B. pose proof F as [_ [_ [E _]]]. rewrite (E B) in F. exists org. exact F. Qed.

Lemma Fits_branch_level A cn c s k : Fits A cn c s k -> o_is_branch (fst c) = true -> k <> O.
Proof.
  intros F B. destruct (Fits_branch_E _ _ _ _ _ F B) as [org [C _]]. eapply obranch_level; eauto.
Qed.

Lemma FitsE_split A cn c s k : oaxis A -> quadrant A cn ->
  Fits A cn c s (S k) -> o_is_branch (fst c) = true ->
  FitsE A cn (ochild c cn) s k /\ FitsE A cn (ochild c (cn + A)) (ostep A s (osize k)) k.
Proof.
  intros HA Hcn F B. destruct (Fits_branch_E _ _ _ _ _ F B) as [org [C [_ [_ [_ [_ Es]]]]]].
  specialize (Es eq_refl). subst s. destruct c as [t p]. cbn [fst] in *.
  rewrite !ochild_branch by exact B. cbn [fst].
  destruct (fits_branch_children A cn t org k HA Hcn C B) as [F1 F2].
  split; eexists; cbn [fst]; eassumption.
Qed.

Lemma Fits_split A cn c s k : oaxis A -> quadrant A cn ->
  Fits A cn c s (S k) ->
  Fits A cn (ochild c cn) s k /\ Fits A cn (ochild c (cn + A)) (ostep A s (osize k)) k.
Proof.
  intros HA Hcn F. destruct (o_is_branch (fst c)) eqn:B.
  - destruct (FitsE_split A cn c s k HA Hcn F B). split; apply FitsE_Fits; assumption.
  - destruct c as [t p]. cbn [fst] in *. rewrite !ochild_leaf by exact B.
    destruct F as [org [kt F]]. cbn [fst] in F.
    destruct (fits_leaf_split A cn t org kt s k HA F B) as [F1 F2].
    split; exists org, kt; assumption.
Qed.

(* facts about leaves *)
Lemma Fits_nonambig_same A cn c s k :
  Fits A cn c s k -> o_is_branch (fst c) = false -> o_is_ambig (fst c) = false ->
  ins s = ins (ostep A s (osize k)).
Proof.
  intros [org [kt [C [_ [_ [I1 [I2 _]]]]]]] NB NA. eapply ouniform; eauto.
Qed.

Lemma Fits_ambig_level A cn c s k :
  Fits A cn c s k -> o_is_ambig (fst c) = true -> (k <= leaf_level (fst c))%nat.
Proof.
  intros [org [kt [C [Hk _]]]] HA. destruct (fst c) as [| |l m mf|]; try discriminate.
  apply oambig_level in C. subst l. exact Hk.
Qed.

Lemma FitsE_ambig_level A cn c s k :
  FitsE A cn c s k -> o_is_ambig (fst c) = true -> leaf_level (fst c) = k.
Proof.
  intros [org [C _]] HA. destruct (fst c) as [| |l m mf|]; try discriminate.
  apply oambig_level in C. exact C.
Qed.

Lemma Fits_level_E A cn c s k :
  Fits A cn c s k -> o_is_ambig (fst c) = true -> leaf_level (fst c) = k -> FitsE A cn c s k.
Proof.
  intros [org [kt F]] HA HL. exists org. replace k with kt at 1; [exact F|].
  destruct F as [C _]. destruct (fst c) as [| |l m mf|]; try discriminate.
  apply oambig_level in C. cbn [leaf_level] in HL. congruence.
Qed.

Lemma FitsE_corners A cn c s k : oaxis A -> quadrant A cn ->
  FitsE A cn c s k -> o_is_branch (fst c) = false ->
  ocorner_state (fst c) cn = ins s /\ ocorner_state (fst c) (cn + A) = ins (ostep A s (osize k)).
Proof.
  intros HA Hcn [org [C [_ [_ [_ [_ Es]]]]]] NB. specialize (Es eq_refl). subst s.
  destruct (quadrant_in8 A cn HA Hcn) as [I1 I2].
  rewrite <- (ocorner_step A cn org k HA Hcn).
  split; apply ocorner_state_consistent; assumption.
Qed.

(* ------------------------------------------------------------------------- *)
(** * The potential: what a pair of cyclically adjacent cells owes for a lattice edge *)
Variable e : odedge.

(* the recursion of edge3 seen from two of its four arguments *)
Fixpoint flag (A : Z) (k : nat) (s : pt3) (ca : ocell) (cna : Z) (cb : ocell) (cnb : Z) {struct k} : Z :=
  match k with
  | S k' =>
      if o_is_branch (fst ca) || o_is_branch (fst cb) then
        flag A k' s (ochild ca cna) cna (ochild cb cnb) cnb +
        flag A k' (ostep A s (osize k')) (ochild ca (cna + A)) cna (ochild cb (cnb + A)) cnb
      else flagw e A (ins s) (ins (ostep A s (osize k))) ca cna cb cnb
  | O => flagw e A (ins s) (ins (ostep A s (osize k))) ca cna cb cnb
  end.

Lemma flag_leaf A k s ca cna cb cnb :
  o_is_branch (fst ca) = false -> o_is_branch (fst cb) = false ->
  flag A k s ca cna cb cnb = flagw e A (ins s) (ins (ostep A s (osize k))) ca cna cb cnb.
Proof. intros Ba Bb. destruct k; cbn [flag]; rewrite ?Ba, ?Bb; reflexivity. Qed.

Lemma sg_tele x y z : sg x z = sg x y + sg y z.
Proof. destruct x, y, z; reflexivity. Qed.

Lemma pidx_collapsed t A cn D D' : (0 < leaf_level t)%nat -> pidx t A cn D = pidx t A cn D'.
Proof. unfold pidx. intros H. apply Nat.ltb_lt in H. rewrite H. reflexivity. Qed.

Lemma flagw_tele A x y z ca cna cb cnb :
  (o_is_ambig (fst ca) = true -> (0 < leaf_level (fst ca))%nat) ->
  (o_is_ambig (fst cb) = true -> (0 < leaf_level (fst cb))%nat) ->
  flagw e A x z ca cna cb cnb = flagw e A x y ca cna cb cnb + flagw e A y z ca cna cb cnb.
Proof.
  intros La Lb. unfold flagw. destruct (o_is_ambig (fst ca)); [|reflexivity].
  destruct (o_is_ambig (fst cb)); [|reflexivity]. cbn [andb].
  specialize (La eq_refl). specialize (Lb eq_refl). unfold overt.
  rewrite (pidx_collapsed (fst ca) A cna y x La), (pidx_collapsed (fst cb) A cnb y x Lb).
  rewrite (sg_tele x y z). lia.
Qed.

Lemma flag_split A k s ca cna cb cnb : oaxis A ->
  Fits A cna ca s (S k) -> Fits A cnb cb s (S k) ->
  flag A (S k) s ca cna cb cnb =
  flag A k s (ochild ca cna) cna (ochild cb cnb) cnb +
  flag A k (ostep A s (osize k)) (ochild ca (cna + A)) cna (ochild cb (cnb + A)) cnb.
Proof.
  intros HA Fa Fb. cbn [flag].
  destruct (o_is_branch (fst ca) || o_is_branch (fst cb)) eqn:BB; [reflexivity|].
  apply orb_false_iff in BB. destruct BB as [Ba Bb].
  destruct ca as [ta pa], cb as [tb pb]. cbn [fst] in Ba, Bb.
  rewrite !ochild_leaf by assumption. rewrite !flag_leaf by assumption.
  rewrite ostep_ostep. replace (osize k + osize k) with (osize (S k)) by (rewrite osize_S; lia).
  apply flagw_tele; intros Am.
  - pose proof (Fits_ambig_level _ _ _ _ _ Fa Am). lia.
  - pose proof (Fits_ambig_level _ _ _ _ _ Fb Am). lia.
Qed.

Lemma ochild_height c i : (oheight (fst (ochild c i)) <= oheight (fst c))%nat /\
  (o_is_branch (fst c) = true -> oheight (fst (ochild c i)) < oheight (fst c))%nat.
Proof.
  destruct c as [t p]. cbn [fst]. destruct (o_is_branch t) eqn:B.
  - rewrite ochild_branch by exact B. cbn [fst]. pose proof (oheight_sub t i B). split; [lia|auto].
  - rewrite ochild_leaf by exact B. cbn [fst]. split; [lia|discriminate].
Qed.

Lemma obranch_height t : o_is_branch t = true -> (1 <= oheight t)%nat.
Proof. destruct t; try discriminate. intros _. cbn [oheight]. lia. Qed.

Variable diag : overtex -> overtex -> overtex -> overtex -> bool.

(** Base case of edge3: four non-branching cells around a lattice edge. *)
Lemma load3_fits A s k (t0 t1 t2 t3 : ocell) : oaxis A ->
  let q := Qax A in let r := Rax A in
  Fits A (q + r) t0 s k -> Fits A r t1 s k -> Fits A q t2 s k -> Fits A 0 t3 s k ->
  (FitsE A (q + r) t0 s k \/ FitsE A r t1 s k \/ FitsE A q t2 s k \/ FitsE A 0 t3 s k) ->
  o_is_branch (fst t0) = false -> o_is_branch (fst t1) = false ->
  o_is_branch (fst t2) = false -> o_is_branch (fst t3) = false ->
  N e (load3 diag A t0 t1 t2 t3) =
  flag A k s t0 (q + r) t1 r + flag A k s t1 r t3 0 + flag A k s t3 0 t2 q + flag A k s t2 q t0 (q + r).
Proof.
  intros HA q r F0 F1 F2 F3 Hex B0 B1 B2 B3.
  rewrite !flag_leaf by assumption.
  assert (Q0 : quadrant A (q + r)) by (unfold quadrant; tauto).
  assert (Q1 : quadrant A r) by (unfold quadrant; tauto).
  assert (Q2 : quadrant A q) by (unfold quadrant; tauto).
  assert (Q3 : quadrant A 0) by (unfold quadrant; tauto).
  apply load3_net.
  - (* all four ambiguous: the first cell of minimal level has exactly the size of the edge *)
    intros EA. cbn [forallb] in EA. rewrite !andb_true_iff in EA. destruct EA as [A0 [A1 [A2 [A3 _]]]].
    pose proof (Fits_ambig_level _ _ _ _ _ F0 A0) as L0. pose proof (Fits_ambig_level _ _ _ _ _ F1 A1) as L1.
    pose proof (Fits_ambig_level _ _ _ _ _ F2 A2) as L2. pose proof (Fits_ambig_level _ _ _ _ _ F3 A3) as L3.
    assert (Lmin : (leaf_level (fst t0) = k \/ leaf_level (fst t1) = k \/ leaf_level (fst t2) = k \/ leaf_level (fst t3) = k)%nat).
    { destruct Hex as [H|[H|[H|H]]]; [left|right; left|right; right; left|right; right; right];
        eapply FitsE_ambig_level; eauto. }
    fold q r.
    destruct (min_index4_spec (leaf_level (fst t0)) (leaf_level (fst t1)) (leaf_level (fst t2)) (leaf_level (fst t3)))
      as [[-> M]|[[-> M]|[[-> M]|[-> M]]]]; cbn [nth].
    + apply FitsE_corners; auto. apply Fits_level_E; auto. lia.
    + apply FitsE_corners; auto. apply Fits_level_E; auto. lia.
    + apply FitsE_corners; auto. apply Fits_level_E; auto. lia.
    + apply FitsE_corners; auto. apply Fits_level_E; auto. lia.
  - (* a pruned cell among the four: it contains the edge and is uniform *)
    intros EA. cbn [forallb] in EA. rewrite andb_true_r in EA.
    apply andb_false_iff in EA. destruct EA as [EA|EA]; [exact (Fits_nonambig_same _ _ _ _ _ F0 B0 EA)|].
    apply andb_false_iff in EA. destruct EA as [EA|EA]; [exact (Fits_nonambig_same _ _ _ _ _ F1 B1 EA)|].
    apply andb_false_iff in EA. destruct EA as [EA|EA];
      [exact (Fits_nonambig_same _ _ _ _ _ F2 B2 EA)|exact (Fits_nonambig_same _ _ _ _ _ F3 B3 EA)].
Qed.

(** (b1) edge3 on four cells around a lattice edge: the signed count of e is the sum of what the four
    pairs of cyclically adjacent cells owe. *)
Lemma edge3_net A : oaxis A -> forall f k s (t0 t1 t2 t3 : ocell),
  let q := Qax A in let r := Rax A in
  Fits A (q + r) t0 s k -> Fits A r t1 s k -> Fits A q t2 s k -> Fits A 0 t3 s k ->
  (FitsE A (q + r) t0 s k \/ FitsE A r t1 s k \/ FitsE A q t2 s k \/ FitsE A 0 t3 s k) ->
  (oheight (fst t0) < f)%nat -> (oheight (fst t1) < f)%nat ->
  (oheight (fst t2) < f)%nat -> (oheight (fst t3) < f)%nat ->
  N e (edge3 diag f A t0 t1 t2 t3) =
  flag A k s t0 (q + r) t1 r + flag A k s t1 r t3 0 + flag A k s t3 0 t2 q + flag A k s t2 q t0 (q + r).
Proof.
  intros HA. induction f as [|f IH]; intros k s t0 t1 t2 t3 q r F0 F1 F2 F3 Hex H0 H1 H2 H3; [lia|].
  cbn [edge3]. fold q r.
  assert (Q0 : quadrant A (q + r)) by (unfold quadrant; tauto).
  assert (Q1 : quadrant A r) by (unfold quadrant; tauto).
  assert (Q2 : quadrant A q) by (unfold quadrant; tauto).
  assert (Q3 : quadrant A 0) by (unfold quadrant; tauto).
  destruct (o_is_branch (fst t0) || o_is_branch (fst t1) || o_is_branch (fst t2) || o_is_branch (fst t3)) eqn:BB.
  2:{ apply orb_false_iff in BB. destruct BB as [BB B3]. apply orb_false_iff in BB. destruct BB as [BB B2].
      apply orb_false_iff in BB. destruct BB as [B0 B1]. apply load3_fits; assumption. }
  assert (Hk : k <> O /\ (1 <= f)%nat).
  { apply orb_true_iff in BB. destruct BB as [BB|B].
    2:{ split; [exact (Fits_branch_level _ _ _ _ _ F3 B)|apply obranch_height in B; lia]. }
    apply orb_true_iff in BB. destruct BB as [BB|B].
    2:{ split; [exact (Fits_branch_level _ _ _ _ _ F2 B)|apply obranch_height in B; lia]. }
    apply orb_true_iff in BB. destruct BB as [B|B].
    - split; [exact (Fits_branch_level _ _ _ _ _ F0 B)|apply obranch_height in B; lia].
    - split; [exact (Fits_branch_level _ _ _ _ _ F1 B)|apply obranch_height in B; lia]. }
  destruct Hk as [Hk Hf]. destruct k as [|k]; [congruence|].
  rewrite N_app.
  destruct (Fits_split A _ _ _ _ HA Q0 F0) as [F0a F0b]. destruct (Fits_split A _ _ _ _ HA Q1 F1) as [F1a F1b].
  destruct (Fits_split A _ _ _ _ HA Q2 F2) as [F2a F2b]. destruct (Fits_split A _ _ _ _ HA Q3 F3) as [F3a F3b].
  assert (Hex' : (FitsE A (q + r) (ochild t0 (q + r)) s k \/ FitsE A r (ochild t1 r) s k \/
                  FitsE A q (ochild t2 q) s k \/ FitsE A 0 (ochild t3 0) s k) /\
                 (FitsE A (q + r) (ochild t0 (q + r + A)) (ostep A s (osize k)) k \/
                  FitsE A r (ochild t1 (r + A)) (ostep A s (osize k)) k \/
                  FitsE A q (ochild t2 (q + A)) (ostep A s (osize k)) k \/
                  FitsE A 0 (ochild t3 (0 + A)) (ostep A s (osize k)) k)).
  { apply orb_true_iff in BB. destruct BB as [BB|B].
    2:{ destruct (FitsE_split A _ _ _ _ HA Q3 F3 B). tauto. }
    apply orb_true_iff in BB. destruct BB as [BB|B].
    2:{ destruct (FitsE_split A _ _ _ _ HA Q2 F2 B). tauto. }
    apply orb_true_iff in BB. destruct BB as [B|B].
    - destruct (FitsE_split A _ _ _ _ HA Q0 F0 B). tauto.
    - destruct (FitsE_split A _ _ _ _ HA Q1 F1 B). tauto. }
  destruct Hex' as [Hexa Hexb].
  pose proof (ochild_height t0 (q + r)) as [G0 _]. pose proof (ochild_height t0 (q + r + A)) as [G0' _].
  pose proof (ochild_height t1 r) as [G1 _]. pose proof (ochild_height t1 (r + A)) as [G1' _].
  pose proof (ochild_height t2 q) as [G2 _]. pose proof (ochild_height t2 (q + A)) as [G2' _].
  pose proof (ochild_height t3 0) as [G3 _]. pose proof (ochild_height t3 A) as [G3' _].
  pose proof (ochild_height t0 (q + r)) as [_ J0]. pose proof (ochild_height t0 (q + r + A)) as [_ J0'].
  pose proof (ochild_height t1 r) as [_ J1]. pose proof (ochild_height t1 (r + A)) as [_ J1'].
  pose proof (ochild_height t2 q) as [_ J2]. pose proof (ochild_height t2 (q + A)) as [_ J2'].
  pose proof (ochild_height t3 0) as [_ J3]. pose proof (ochild_height t3 A) as [_ J3'].
  assert (HH : forall c i, (oheight (fst c) < S f)%nat -> (oheight (fst (ochild c i)) < f)%nat).
  { intros c i Hc. destruct (ochild_height c i) as [Le Lt]. destruct (o_is_branch (fst c)) eqn:B.
    - specialize (Lt eq_refl). lia.
    - destruct c as [t p]. cbn [fst] in *. rewrite ochild_leaf by exact B. cbn [fst].
      rewrite (oheight_leaf t B). lia. }
  change (0 + A) with A in *.
  rewrite (IH k s (ochild t0 (q + r)) (ochild t1 r) (ochild t2 q) (ochild t3 0)); auto.
  rewrite (IH k (ostep A s (osize k)) (ochild t0 (q + r + A)) (ochild t1 (r + A)) (ochild t2 (q + A)) (ochild t3 A)); auto.
  rewrite (flag_split A k s t0 (q + r) t1 r), (flag_split A k s t1 r t3 0),
          (flag_split A k s t3 0 t2 q), (flag_split A k s t2 q t0 (q + r)); auto.
  change (0 + A) with A. subst q r. lia.
Qed.

End Geo.

(* ------------------------------------------------------------------------- *)
(** * The local face lemma: two leaves in contact across a minimal face *)

Definition dl (i a : Z) : Z := if i =? a then 1 else 0.
Definition bz (b : bool) : Z := if b then 1 else 0.

Lemma owt_split pu iu pv iv p0 a p1 b :
  owt ((pu, iu), (pv, iv)) ((p0, a), (p1, b)) =
  bz (opath_eqb pu p0 && opath_eqb pv p1) * (dl iu a * dl iv b) -
  bz (opath_eqb pv p0 && opath_eqb pu p1) * (dl iv a * dl iu b).
Proof.
  unfold owt, odedge_eqb, orev, overtex_eqb, dl, bz. cbn [fst snd].
  destruct (opath_eqb pu p0), (opath_eqb pv p1), (opath_eqb pv p0), (opath_eqb pu p1),
           (iu =? a), (iv =? b), (iv =? a), (iu =? b); reflexivity.
Qed.

(* the four boundary edges of the face of normal axis A between a low cell (patch indices g0) and a high
   cell (patch indices g1); f.. are the signs at the four corners of the face; the signed number of quad
   sides joining patch i of the low cell to patch j of the high cell *)
Definition fterm (sa sb : bool) (pa pb : bool -> Z) (i j : Z) : Z :=
  sg sa sb * (dl i (pa sa) * dl j (pb sa)).
Definition FS (A : Z) (g0 g1 : Z -> Z -> bool -> Z) (f00 f10 f01 f11 : bool) (i j : Z) : Z :=
  let q := Qax A in let r := Rax A in
  fterm f00 f10 (g0 q A) (g1 q 0) i j - fterm f01 f11 (g0 q (r + A)) (g1 q r) i j
  - fterm f00 f01 (g0 r A) (g1 r 0) i j + fterm f10 f11 (g0 r (A + q)) (g1 r q) i j.

Definition FSocc (A : Z) (g0 g1 : Z -> Z -> bool -> Z) (f00 f10 f01 f11 : bool) : list (Z * Z) :=
  let q := Qax A in let r := Rax A in
  [(g0 q A f00, g1 q 0 f00); (g0 q (r + A) f01, g1 q r f01); (g0 r A f00, g1 r 0 f00); (g0 r (A + q) f10, g1 r q f10)].
Definition FSok (A : Z) (g0 g1 : Z -> Z -> bool -> Z) (f00 f10 f01 f11 : bool) : bool :=
  forallb (fun ij => FS A g0 g1 f00 f10 f01 f11 (fst ij) (snd ij) =? 0) (FSocc A g0 g1 f00 f10 f01 f11).

Lemma dl_prod_zero i j a b : (i =? a) && (j =? b) = false -> dl i a * dl j b = 0.
Proof. unfold dl. destruct (i =? a), (j =? b); cbn; intros; try discriminate; reflexivity. Qed.

Lemma FSok_all A g0 g1 f00 f10 f01 f11 :
  FSok A g0 g1 f00 f10 f01 f11 = true -> forall i j, FS A g0 g1 f00 f10 f01 f11 i j = 0.
Proof.
  unfold FSok, FSocc. cbv zeta. cbn [forallb fst snd]. rewrite !andb_true_iff, !Z.eqb_eq.
  intros [H1 [H2 [H3 [H4 _]]]] i j.
  destruct ((i =? g0 (Qax A) A f00) && (j =? g1 (Qax A) 0 f00)) eqn:E1.
  { apply andb_true_iff in E1. destruct E1 as [Ei Ej]. apply Z.eqb_eq in Ei, Ej. subst i j. exact H1. }
  destruct ((i =? g0 (Qax A) (Rax A + A) f01) && (j =? g1 (Qax A) (Rax A) f01)) eqn:E2.
  { apply andb_true_iff in E2. destruct E2 as [Ei Ej]. apply Z.eqb_eq in Ei, Ej. subst i j. exact H2. }
  destruct ((i =? g0 (Rax A) A f00) && (j =? g1 (Rax A) 0 f00)) eqn:E3.
  { apply andb_true_iff in E3. destruct E3 as [Ei Ej]. apply Z.eqb_eq in Ei, Ej. subst i j. exact H3. }
  destruct ((i =? g0 (Rax A) (A + Qax A) f10) && (j =? g1 (Rax A) (Qax A) f10)) eqn:E4.
  { apply andb_true_iff in E4. destruct E4 as [Ei Ej]. apply Z.eqb_eq in Ei, Ej. subst i j. exact H4. }
  unfold FS, fterm. cbv zeta.
  rewrite (dl_prod_zero _ _ _ _ E1), (dl_prod_zero _ _ _ _ E2), (dl_prod_zero _ _ _ _ E3), (dl_prod_zero _ _ _ _ E4).
  lia.
Qed.

(* patch indices of a leaf of level l and mask m *)
Definition gfun (l : nat) (m : Z) : Z -> Z -> bool -> Z := fun ax cn D => pidx (OA l m true) ax cn D.

(* THE FINITE SWEEPS over the real tables: both leaves of level 0 (3 x 4096 compatible pairs of masks,
   different edges of the face may use different patches on either side); one of level 0, the other collapsed *)
Definition sweep00_at (A : Z) : bool :=
  forallb (fun m0 => forallb (fun m1 =>
    if compat A m0 m1
    then FSok A (gfun 0 m0) (gfun 0 m1) (Z.testbit m1 0) (Z.testbit m1 (Qax A)) (Z.testbit m1 (Rax A))
              (Z.testbit m1 (Qax A + Rax A))
    else true) (zrange 256)) (zrange 256).
Definition sweep0c_at (A : Z) : bool :=
  forallb (fun m0 =>
    FSok A (gfun 0 m0) (gfun 1 0) (Z.testbit m0 A) (Z.testbit m0 (A + Qax A)) (Z.testbit m0 (A + Rax A))
         (Z.testbit m0 (A + Qax A + Rax A))) (zrange 256).
Definition sweepc0_at (A : Z) : bool :=
  forallb (fun m1 =>
    FSok A (gfun 1 0) (gfun 0 m1) (Z.testbit m1 0) (Z.testbit m1 (Qax A)) (Z.testbit m1 (Rax A))
         (Z.testbit m1 (Qax A + Rax A))) (zrange 256).

Lemma face_sweep00_ok : forallb sweep00_at [1; 2; 4] = true.
Proof. vm_compute. reflexivity. Qed.
Lemma face_sweep0c_ok : forallb sweep0c_at [1; 2; 4] = true.
Proof. vm_compute. reflexivity. Qed.
Lemma face_sweepc0_ok : forallb sweepc0_at [1; 2; 4] = true.
Proof. vm_compute. reflexivity. Qed.
