(* Voxels::View::split (voxels.hpp) and Heightmap::recurse / pixels / fill
   (heightmap.cpp) on integer voxel indices.

   A view is an axis-aligned box of voxels (corner index + size per axis).  Voxel
   centres are strictly increasing in the index on each axis, so a depth is
   represented by a z-index (None = -infinity).  The expression is abstracted to
   [inside : voxel -> bool] (its sign at the voxel centre) and the interval
   evaluator to an oracle [classify : view -> cls]. *)
From Coq Require Import List ZArith Arith Bool Lia.
Import ListNotations.

Record view := { cx : nat; cy : nat; cz : nat; sx : nat; sy : nat; sz : nat }.

Definition voxels (v : view) : nat := sx v * sy v * sz v.

(* split<A>: largest axis among the mask (first maximum, like Eigen's maxCoeff),
   upper half gets size/2 (rounded down), lower half the rest *)
Definition pick_axis (mx my mz : bool) (v : view) : nat :=
  let ax := if mx then sx v else 0 in
  let ay := if my then sy v else 0 in
  let az := if mz then sz v else 0 in
  if (ay <=? ax) && (az <=? ax) then 0
  else if (az <=? ay) then 1 else 2.

Definition split (mx my mz : bool) (v : view) : view * view :=
  match pick_axis mx my mz v with
  | 0 => let up := sx v / 2 in let lo := sx v - up in
         ({| cx := cx v; cy := cy v; cz := cz v; sx := lo; sy := sy v; sz := sz v |},
          {| cx := cx v + lo; cy := cy v; cz := cz v; sx := up; sy := sy v; sz := sz v |})
  | 1 => let up := sy v / 2 in let lo := sy v - up in
         ({| cx := cx v; cy := cy v; cz := cz v; sx := sx v; sy := lo; sz := sz v |},
          {| cx := cx v; cy := cy v + lo; cz := cz v; sx := sx v; sy := up; sz := sz v |})
  | _ => let up := sz v / 2 in let lo := sz v - up in
         ({| cx := cx v; cy := cy v; cz := cz v; sx := sx v; sy := sy v; sz := lo |},
          {| cx := cx v; cy := cy v; cz := cz v + lo; sx := sx v; sy := sy v; sz := up |})
  end.

Definition in_view (v : view) (i j k : nat) : Prop :=
  cx v <= i < cx v + sx v /\ cy v <= j < cy v + sy v /\ cz v <= k < cz v + sz v.

Section Heightmap.
  Variable inside : nat -> nat -> nat -> bool.       (* sign of f at the centre of voxel (i,j,k) *)

  (* interval classification of a view *)
  Inductive cls := Filled | Empty | Ambiguous.
  Variable classify : view -> cls.

  (* the depth image: pixel (i,j) -> topmost filled z index seen so far *)
  Definition image := nat -> nat -> option nat.
  Definition lt_top (d : option nat) (top : nat) : bool :=
    match d with None => true | Some z => z <? top end.
  Definition set_px (im : image) (i j : nat) (z : nat) : image :=
    fun i' j' => if (i' =? i) && (j' =? j) then Some z else im i' j'.

  Definition top (v : view) : nat := cz v + sz v - 1.

  (* topmost filled voxel of column (i,j) within the z-range of v, scanning downwards *)
  Fixpoint scan_down (i j base : nat) (n : nat) : option nat :=
    match n with
    | 0 => None
    | S m => if inside i j (base + m) then Some (base + m) else scan_down i j base m
    end.

  (* Heightmap::pixels *)
  Definition pixels_px (v : view) (im : image) (i j : nat) : image :=
    if lt_top (im i j) (top v) then
      match scan_down i j (cz v) (sz v) with
      | Some z => if lt_top (im i j) z then set_px im i j z else im
      | None => im
      end
    else im.
  (* Heightmap::fill *)
  Definition fill_px (v : view) (im : image) (i j : nat) : image :=
    if lt_top (im i j) (top v) then set_px im i j (top v) else im.

  Definition over_xy (v : view) (f : image -> nat -> nat -> image) (im : image) : image :=
    fold_left (fun im1 i => fold_left (fun im2 j => f im2 i j) (seq (cy v) (sy v)) im1) (seq (cx v) (sx v)) im.

  Definition all_at_top (v : view) (im : image) : bool :=
    forallb (fun i => forallb (fun j => negb (lt_top (im i j) (top v))) (seq (cy v) (sy v))) (seq (cx v) (sx v)).

  (* Heightmap::recurse (after the fix: a block is filled only if the interval is safe) *)
  Fixpoint recurse (fuel : nat) (limit : nat) (v : view) (im : image) : image :=
    match fuel with
    | 0 => im
    | S f =>
        if all_at_top v im then im
        else if voxels v <=? limit then over_xy v (pixels_px v) im
        else match classify v with
             | Filled => over_xy v (fill_px v) im
             | Empty => im
             | Ambiguous =>
                 let (lo, hi) := split true true true v in
                 recurse f limit lo (recurse f limit hi im)
             end
    end.

  (* the brute-force scan: topmost filled voxel of the column over the whole view *)
  Definition brute (v : view) (i j : nat) : option nat := scan_down i j (cz v) (sz v).

  Definition omax (a b : option nat) : option nat :=
    match a, b with
    | None, x | x, None => x
    | Some x, Some y => Some (Nat.max x y)
    end.

  (* soundness of the classification oracle (C02 + C05, for all voxel centres) *)
  Definition classify_sound : Prop :=
    forall v, (classify v = Filled -> forall i j k, in_view v i j k -> inside i j k = true) /\
              (classify v = Empty -> forall i j k, in_view v i j k -> inside i j k = false).

  (* Heightmap::render's pre-partition among workers: split on X|Y until there are
     enough regions or the front one cannot be split *)
  Fixpoint partition (fuel : nat) (workers : nat) (rs : list view) : list view :=
    match fuel with
    | 0 => rs
    | S f =>
        match rs with
        | [] => []
        | front :: rest =>
            if (length rs <? workers) && (1 <? Nat.min (sx front) (sy front))
            then let (a, b) := split true true false front in partition f workers (rest ++ [a; b])
            else rs
        end
    end.
End Heightmap.
