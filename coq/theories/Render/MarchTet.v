(* C03 (simplex / hybrid meshers): marching tetrahedra over the table that
   translate/gen_tables.py reads from simplex_mesher.cpp (Gen/TetTable_gen.v).

   A tet is an ordered 4-tuple of global vertex ids (subspace vertex indices, made globally
   unique by assignIndices); [ins] says which vertices are inside.  A surface vertex is found
   on every tet edge whose ends differ in sign, and is keyed by the UNORDERED pair of the
   end ids (SimplexMesher's Key(min, max)), so it is shared by every tet around that edge.
   A triangle is an ordered triple of such keys. *)
From Coq Require Import List Arith Bool Lia.
From LF Require Import Gen.TetTable_gen.
Import ListNotations.

Definition vid := nat.
Definition key := (vid * vid)%type.                        (* (min, max) *)
Definition mk_key (a b : vid) : key := (Nat.min a b, Nat.max a b).
Definition tet := (vid * vid * vid * vid)%type.
Definition tri := (key * key * key)%type.

Definition tet_nth (t : tet) (j : nat) : vid :=
  let '(a, b, c, d) := t in
  match j with 0 => a | 1 => b | 2 => c | _ => d end.

(* "mask |= inside << j" *)
Definition mask_of (ins : vid -> bool) (t : tet) : nat :=
  (if ins (tet_nth t 0) then 1 else 0) + (if ins (tet_nth t 1) then 2 else 0) +
  (if ins (tet_nth t 2) then 4 else 0) + (if ins (tet_nth t 3) then 8 else 0).

Definition edge_key (t : tet) (e : nat * nat) : key := mk_key (tet_nth t (fst e)) (tet_nth t (snd e)).

Definition tri_of (t : tet) (edges : list (nat * nat)) : option tri :=
  match edges with
  | [e0; e1; e2] => Some (edge_key t e0, edge_key t e1, edge_key t e2)
  | _ => None
  end.

(* the triangles one tet contributes *)
Definition march (ins : vid -> bool) (t : tet) : list tri :=
  flat_map (fun es => match tri_of t es with Some x => [x] | None => [] end)
           (nth (mask_of ins t) gen_tet_table []).

Definition mesh (ins : vid -> bool) (ts : list tet) : list tri := flat_map (march ins) ts.

(* directed edges of a triangle mesh *)
Definition tri_edges (x : tri) : list (key * key) :=
  let '(a, b, c) := x in [(a, b); (b, c); (c, a)].
Definition dedges (m : list tri) : list (key * key) := flat_map tri_edges m.

Definition key_eqb (a b : key) : bool := Nat.eqb (fst a) (fst b) && Nat.eqb (snd a) (snd b).
Definition dedge_eqb (e f : key * key) : bool := key_eqb (fst e) (fst f) && key_eqb (snd e) (snd f).
Definition count_dedge (e : key * key) (l : list (key * key)) : nat := length (filter (dedge_eqb e) l).
Definition rev_dedge (e : key * key) : key * key := (snd e, fst e).

(* watertight and consistently oriented: every directed edge is used as often as its reverse *)
Definition closed_mesh (m : list tri) : Prop :=
  forall e, count_dedge e (dedges m) = count_dedge (rev_dedge e) (dedges m).
(* edge-manifold: each directed edge at most once *)
Definition manifold_mesh (m : list tri) : Prop := forall e, count_dedge e (dedges m) <= 1.

(* ---- the tet complex ---- *)
(* oriented faces of a tet (a, b, c, d), with the orientation induced by the tet:
   opposite a: (b, c, d); opposite b: (a, d, c); opposite c: (a, b, d); opposite d: (a, c, b) *)
Definition face := (vid * vid * vid)%type.
Definition tet_faces (t : tet) : list face :=
  let '(a, b, c, d) := t in [(b, c, d); (a, d, c); (a, b, d); (a, c, b)].
(* the same oriented face up to rotation; the opposite orientation *)
Definition face_rot (f : face) : face := let '(a, b, c) := f in (b, c, a).
Definition face_flip (f : face) : face := let '(a, b, c) := f in (a, c, b).
Definition face_eqb (f g : face) : bool :=
  let '(a, b, c) := f in let '(x, y, z) := g in Nat.eqb a x && Nat.eqb b y && Nat.eqb c z.
Definition same_oriented (f g : face) : bool :=
  face_eqb f g || face_eqb (face_rot f) g || face_eqb (face_rot (face_rot f)) g.
Definition opposite_oriented (f g : face) : bool := same_oriented (face_flip f) g.
(* a face carries surface when its three vertices are not all on one side *)
Definition face_mixed (ins : vid -> bool) (f : face) : bool :=
  let '(a, b, c) := f in negb (Bool.eqb (ins a) (ins b) && Bool.eqb (ins b) (ins c)).

Definition all_faces (ts : list tet) : list face := flat_map tet_faces ts.
Definition count_same (f : face) (l : list face) : nat := length (filter (same_oriented f) l).
Definition count_opp (f : face) (l : list face) : nat := length (filter (opposite_oriented f) l).

Definition tet_distinct (t : tet) : Prop :=
  let '(a, b, c, d) := t in NoDup [a; b; c; d].

(* a closed, consistently oriented complex as far as the surface is concerned: every face that
   carries surface occurs exactly once with its orientation and exactly once with the opposite
   orientation (the neighbouring tet) *)
Definition complex_closed (ins : vid -> bool) (ts : list tet) : Prop :=
  (forall t, In t ts -> tet_distinct t) /\
  (forall f, In f (all_faces ts) -> face_mixed ins f = true ->
             count_same f (all_faces ts) = 1 /\ count_opp f (all_faces ts) = 1).
