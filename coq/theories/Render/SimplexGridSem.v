(* C03 (simplex mesher, uniform grid): the complex of tetrahedra SimplexMesher::load<A> builds
   over a uniform grid is closed and consistently oriented, which discharges the hypothesis
   [complex_closed] of Render/MarchTetSem.v for uniform grids.

   Everything below is about [subvs] / [simplex_gtets] / [simplex_tets] / [simplex_complex] /
   [all_edges] of Render/SimplexGrid.v, which are built through gen_cell_vertices and
   gen_tet_vertices (Gen/TetTable_gen.v, re-read from simplex_mesher.cpp on every run).  The
   table-dependent part is a finite sweep at the origin ([sweep_faces_ok], [sweep_tets_ok],
   [origin_checks]) evaluated by vm_compute on those tables, so a changed table or vertex order
   breaks the proofs.

   THEOREMS (one-line readings)

   enc_inj               the vertex encoding is injective on the doubled points of the box.
   subvs_shift, simplex_gtets_shift
                         translation invariance: moving the lattice edge by t moves its 11
                         subspace vertices and 16 tets by 2 t (doubled lattice).
   gverts_near           every vertex of a tet of the lattice edge (A, p) is within Chebyshev
                         distance 1 of the edge's own vertex 2 p + bits A.
   share_vertex_cand     hence two lattice edges whose tets share a vertex differ by an offset in
                         {-1, 0, 1}^3 (81 candidates [cand]).
   sweep_faces_ok        THE FINITE SWEEP (vm_compute): for the 3 axes and each of the 64 oriented
                         faces of the 16 tets of (A, origin), among the 81 x 64 faces of the
                         candidate edges exactly one has the same orientation (the face itself) and
                         exactly one has the opposite orientation (the neighbouring tet).
   sweep_tets_ok         the same for tets with equal vertex sets: only the tet itself.
   gface_same_unique, gface_opp_le1, gface_opp_exists
                         lifted to any position and any duplicate-free list E of lattice edges.
   simplex_tets_flags    every tet of load<A> is (edge, corner | face, face | corner, cell) with
                         corner < edge < face < cell in the doubled lattice (a flag of the cubical
                         grid), its four vertices distinct.
   simplex_complex_closed_gen
                         for ANY duplicate-free list E of lattice edges of the box that contains,
                         with every face carrying surface, the lattice edge of the tet on the other
                         side: complex_closed ins (simplex_complex n E).
   simplex_complex_closed
                         MAIN THEOREM: clear_boundary n ins -> complex_closed ins
                         (simplex_complex n (all_edges n)), where clear_boundary says that the
                         subspace vertices of the outermost layer of cells are outside.
   simplex_complex_simplicial
                         no two tets of the complex have the same four vertices.
   simplex_grid_closed, simplex_grid_manifold
                         hence the mesh is watertight, consistently oriented and edge-manifold.
   skipped_tets_emit_nothing, skipped_load_emits_nothing
                         the model emits for every cell; a tet whose four vertices have one sign
                         (all tets of an EMPTY / FILLED cell) emits nothing, and a lattice edge
                         whose 11 subspace vertices have one sign emits nothing (early return).
   ins_of_clear          clear_boundary holds for every finite inside set that avoids the
                         outermost layer of cells.
   boundary_needed       the hypothesis cannot simply be dropped: with the single corner (0, 2, 2)
                         of the 2^3 box inside, the mesh is not closed (all_edges has no lattice
                         edge in the boundary of the box).
   ex_corner_*, ex_cell_*, ex_chain_*
                         NON-VACUITY: one inside corner in the 2^3 box (48 triangles), one inside
                         cell vertex in the 3^3 box (48 triangles), a cell / face / edge vertex chain
                         (76 triangles): clear_boundary holds, the meshes are closed and manifold. *)
From Coq Require Import List ZArith Bool Lia Arith FinFun.
From LF Require Import Gen.TetTable_gen Render.DCGrid Render.MarchTet Render.MarchTetSem Render.SimplexGrid.
From LF Require Render.DCGridSem.
Import ListNotations.
Local Open Scope Z_scope.
Local Arguments Z.mul : simpl never.
Local Arguments Z.add : simpl nomatch.
Local Arguments Z.sub : simpl nomatch.

(* ------------------------------------------------------------------ *)
(* 1. points, the encoding                                             *)
(* ------------------------------------------------------------------ *)

Definition pt_eqb (p q : pt3) : bool :=
  let '(a, b, c) := p in let '(x, y, z) := q in (a =? x) && (b =? y) && (c =? z).

Lemma pt_eqb_eq p q : pt_eqb p q = true <-> p = q.
Proof.
  destruct p as [[a b] c], q as [[x y] z]. unfold pt_eqb.
  rewrite !andb_true_iff, !Z.eqb_eq. split.
  - intros [[-> ->] ->]. reflexivity.
  - intros H. inversion H. auto.
Qed.

Lemma pt_eqb_refl p : pt_eqb p p = true.
Proof. apply pt_eqb_eq. reflexivity. Qed.

Definition shift (t v : pt3) : pt3 := padd v t.

Lemma pt_eqb_shift t p q : pt_eqb (shift t p) (shift t q) = pt_eqb p q.
Proof.
  destruct p as [[a b] c], q as [[x y] z], t as [[t1 t2] t3]. unfold pt_eqb, shift, padd.
  rewrite !DCGridSem.Zeqb_add_r. reflexivity.
Qed.

Lemma is_axis_cases A : is_axis A = true -> A = 1 \/ A = 2 \/ A = 4.
Proof. apply DCGridSem.is_axis_cases. Qed.

Lemma is_axis_In A : is_axis A = true <-> In A [1; 2; 4].
Proof.
  split.
  - intros H. destruct (is_axis_cases A H) as [-> | [-> | ->]]; cbn; tauto.
  - cbn. intros [<- | [<- | [<- | []]]]; reflexivity.
Qed.

Lemma padd_O3 p : padd O3 p = p.
Proof. destruct p as [[x y] z]. reflexivity. Qed.

(* the doubled points of the box of n^3 cells *)
Definition in_box (n : nat) (v : pt3) : Prop :=
  let '(x, y, z) := v in
  0 <= x <= 2 * Z.of_nat n /\ 0 <= y <= 2 * Z.of_nat n /\ 0 <= z <= 2 * Z.of_nat n.

Lemma base_inj M a b a' b' : 0 <= a < M -> 0 <= a' < M -> a + M * b = a' + M * b' -> a = a' /\ b = b'.
Proof. intros H1 H2 H3. assert (b = b') by nia. subst. lia. Qed.

Theorem enc_inj n u v : in_box n u -> in_box n v -> enc n u = enc n v -> u = v.
Proof.
  destruct u as [[x y] z], v as [[x' y'] z']. unfold in_box, enc.
  set (M := 2 * Z.of_nat n + 1). intros (H1 & H2 & H3) (H4 & H5 & H6) H.
  apply Z2Nat.inj in H; try nia.
  apply base_inj in H; try lia. destruct H as [-> H].
  apply base_inj in H; try lia. destruct H as [-> ->]. reflexivity.
Qed.

Lemma enc_eqb n u v : in_box n u -> in_box n v -> Nat.eqb (enc n u) (enc n v) = pt_eqb u v.
Proof.
  intros Hu Hv. apply eq_true_iff_eq. rewrite Nat.eqb_eq, pt_eqb_eq. split.
  - apply enc_inj; assumption.
  - intros ->. reflexivity.
Qed.

(* ------------------------------------------------------------------ *)
(* 2. translation invariance of the model                              *)
(* ------------------------------------------------------------------ *)

Definition map_tet (h : pt3 -> pt3) (t : gtet) : gtet :=
  let '(a, b, c, d) := t in (h a, h b, h c, h d).

Lemma tets_of_map h sv : length sv = 11%nat -> tets_of (map h sv) = map (map_tet h) (tets_of sv).
Proof.
  intros H.
  do 11 (destruct sv as [|? sv]; [discriminate H|]).
  destruct sv; [reflexivity|discriminate H].
Qed.

Lemma subvs_length A p : length (subvs A p) = 11%nat.
Proof. reflexivity. Qed.

Lemma subvs_shift A p t : is_axis A = true -> subvs A (padd p t) = map (shift (dbl t)) (subvs A p).
Proof.
  intros HA. destruct p as [[x y] z], t as [[a b] c].
  destruct (is_axis_cases A HA) as [-> | [-> | ->]];
    cbv -[Z.add Z.sub Z.mul]; repeat (f_equal; try lia).
Qed.

Theorem simplex_gtets_shift A p t :
  is_axis A = true -> simplex_gtets A (padd p t) = map (map_tet (shift (dbl t))) (simplex_gtets A p).
Proof.
  intros HA. unfold simplex_gtets. rewrite subvs_shift by exact HA.
  apply tets_of_map, subvs_length.
Qed.

(* ------------------------------------------------------------------ *)
(* 3. oriented faces over doubled points                               *)
(* ------------------------------------------------------------------ *)

Definition gface := (pt3 * pt3 * pt3)%type.
Definition gtet_faces (t : gtet) : list gface :=
  let '(a, b, c, d) := t in [(b, c, d); (a, d, c); (a, b, d); (a, c, b)].
Definition grot (f : gface) : gface := let '(a, b, c) := f in (b, c, a).
Definition gflip (f : gface) : gface := let '(a, b, c) := f in (a, c, b).
Definition gface_eqb (f g : gface) : bool :=
  let '(a, b, c) := f in let '(x, y, z) := g in pt_eqb a x && pt_eqb b y && pt_eqb c z.
Definition gsame (f g : gface) : bool :=
  gface_eqb f g || gface_eqb (grot f) g || gface_eqb (grot (grot f)) g.
Definition gopp (f g : gface) : bool := gsame (gflip f) g.
Definition gmixed (gi : pt3 -> bool) (f : gface) : bool :=
  let '(a, b, c) := f in negb (Bool.eqb (gi a) (gi b) && Bool.eqb (gi b) (gi c)).
Definition map_face (h : pt3 -> pt3) (f : gface) : gface := let '(a, b, c) := f in (h a, h b, h c).
Definition fverts (f : gface) : list pt3 := let '(a, b, c) := f in [a; b; c].
Definition gtverts (t : gtet) : list pt3 := let '(a, b, c, d) := t in [a; b; c; d].

Definition ltets (e : ledge) : list gtet := simplex_gtets (fst e) (snd e).
Definition gfaces (e : ledge) : list gface := flat_map gtet_faces (ltets e).
Definition gverts (e : ledge) : list pt3 := flat_map gtverts (ltets e).

Lemma gface_eqb_eq f g : gface_eqb f g = true <-> f = g.
Proof.
  destruct f as [[a b] c], g as [[x y] z]. unfold gface_eqb.
  rewrite !andb_true_iff, !pt_eqb_eq. split.
  - intros [[-> ->] ->]. reflexivity.
  - intros H. inversion H. auto.
Qed.

Lemma gsame_spec f g : gsame f g = true <-> g = f \/ g = grot f \/ g = grot (grot f).
Proof.
  unfold gsame. rewrite !orb_true_iff, !gface_eqb_eq.
  split; [intros [[H|H]|H]|intros [H|[H|H]]]; auto.
Qed.

Lemma grot3 f : grot (grot (grot f)) = f.
Proof. destruct f as [[a b] c]. reflexivity. Qed.

Lemma gsame_refl f : gsame f f = true.
Proof. apply gsame_spec. auto. Qed.
Lemma gsame_sym f g : gsame f g = true -> gsame g f = true.
Proof. rewrite !gsame_spec. intros [H|[H|H]]; subst g; rewrite ?grot3; auto. Qed.
Lemma gsame_trans f g h : gsame f g = true -> gsame g h = true -> gsame f h = true.
Proof.
  rewrite !gsame_spec. intros [H|[H|H]] [H'|[H'|H']]; subst g h; rewrite ?grot3; auto.
Qed.

(* two faces opposite to the same face have the same orientation *)
Lemma gopp_gopp_same f g h : gopp f g = true -> gopp f h = true -> gsame g h = true.
Proof. unfold gopp. intros H1 H2. apply (gsame_trans g (gflip f) h); [apply gsame_sym; exact H1|exact H2]. Qed.

Lemma gface_eqb_shift t f g : gface_eqb (map_face (shift t) f) (map_face (shift t) g) = gface_eqb f g.
Proof.
  destruct f as [[a b] c], g as [[x y] z]. unfold gface_eqb, map_face.
  rewrite !pt_eqb_shift. reflexivity.
Qed.

Lemma gsame_shift t f g : gsame (map_face (shift t) f) (map_face (shift t) g) = gsame f g.
Proof.
  unfold gsame.
  replace (grot (grot (map_face (shift t) f))) with (map_face (shift t) (grot (grot f)))
    by (destruct f as [[a b] c]; reflexivity).
  replace (grot (map_face (shift t) f)) with (map_face (shift t) (grot f))
    by (destruct f as [[a b] c]; reflexivity).
  rewrite !gface_eqb_shift. reflexivity.
Qed.

Lemma gopp_shift t f g : gopp (map_face (shift t) f) (map_face (shift t) g) = gopp f g.
Proof.
  unfold gopp.
  replace (gflip (map_face (shift t) f)) with (map_face (shift t) (gflip f))
    by (destruct f as [[a b] c]; reflexivity).
  apply gsame_shift.
Qed.

Lemma gtet_faces_map h t : gtet_faces (map_tet h t) = map (map_face h) (gtet_faces t).
Proof. destruct t as [[[a b] c] d]. reflexivity. Qed.
Lemma gtverts_map h t : gtverts (map_tet h t) = map h (gtverts t).
Proof. destruct t as [[[a b] c] d]. reflexivity. Qed.

Lemma flat_map_map_out {A A' B C} (f : A -> list B) (g : A' -> list C) (h : B -> C) (k : A -> A') l :
  (forall x, g (k x) = map h (f x)) -> flat_map g (map k l) = map h (flat_map f l).
Proof.
  intros H. induction l as [|x l IH]; [reflexivity|].
  cbn [map flat_map]. rewrite map_app, IH, H. reflexivity.
Qed.

Lemma ltets_shift A d p :
  is_axis A = true -> ltets (A, padd d p) = map (map_tet (shift (dbl p))) (ltets (A, d)).
Proof. intros HA. unfold ltets. cbn [fst snd]. apply simplex_gtets_shift, HA. Qed.

Lemma gfaces_shift A d p :
  is_axis A = true -> gfaces (A, padd d p) = map (map_face (shift (dbl p))) (gfaces (A, d)).
Proof.
  intros HA. unfold gfaces. rewrite ltets_shift by exact HA.
  apply flat_map_map_out. intros t. apply gtet_faces_map.
Qed.

Lemma gverts_shift A d p :
  is_axis A = true -> gverts (A, padd d p) = map (shift (dbl p)) (gverts (A, d)).
Proof.
  intros HA. unfold gverts. rewrite ltets_shift by exact HA.
  apply flat_map_map_out. intros t. apply gtverts_map.
Qed.

Lemma gtet_faces_verts t f v : In f (gtet_faces t) -> In v (fverts f) -> In v (gtverts t).
Proof.
  destruct t as [[[a b] c] d]. cbn.
  intros [<-|[<-|[<-|[<-|[]]]]]; cbn; tauto.
Qed.

Lemma gfaces_verts e f v : In f (gfaces e) -> In v (fverts f) -> In v (gverts e).
Proof.
  unfold gfaces, gverts. rewrite !in_flat_map. intros [t [Ht Hf]] Hv.
  exists t. split; [exact Ht|]. exact (gtet_faces_verts t f v Hf Hv).
Qed.

Lemma gsame_share f g : gsame f g = true -> forall v, In v (fverts f) -> In v (fverts g).
Proof.
  rewrite gsame_spec. destruct f as [[a b] c].
  intros [-> | [-> | ->]] v; cbn; tauto.
Qed.
Lemma gopp_share f g : gopp f g = true -> forall v, In v (fverts f) -> In v (fverts g).
Proof.
  unfold gopp. intros H v Hv. apply (gsame_share _ _ H).
  destruct f as [[a b] c]. cbn in *. tauto.
Qed.

(* ------------------------------------------------------------------ *)
(* 4. locality: the 81 candidate lattice edges around a lattice edge   *)
(* ------------------------------------------------------------------ *)

Definition m101 : list Z := [-1; 0; 1].
Definition cube3 : list pt3 :=
  flat_map (fun x => flat_map (fun y => map (fun z => (x, y, z)) m101) m101) m101.
Definition offs : list ledge := flat_map (fun A => map (fun d => (A, d)) cube3) [1; 2; 4].
Definition cand (p : pt3) : list ledge := map (fun o => (fst o, padd (snd o) p)) offs.

Lemma in_cube3 x y z : In (x, y, z) cube3 <-> In x m101 /\ In y m101 /\ In z m101.
Proof.
  unfold cube3. rewrite in_flat_map. split.
  - intros [x' [Hx H]]. apply in_flat_map in H. destruct H as [y' [Hy H]].
    apply in_map_iff in H. destruct H as [z' [E Hz]]. inversion E; subst. auto.
  - intros (Hx & Hy & Hz). exists x. split; [exact Hx|]. apply in_flat_map.
    exists y. split; [exact Hy|]. apply in_map_iff. exists z. auto.
Qed.

Lemma in_offs A d : In (A, d) offs <-> In A [1; 2; 4] /\ In d cube3.
Proof.
  unfold offs. rewrite in_flat_map. split.
  - intros [A' [HA H]]. apply in_map_iff in H. destruct H as [d' [E Hd]]. inversion E; subst. auto.
  - intros [HA Hd]. exists A. split; [exact HA|]. apply in_map_iff. exists d. auto.
Qed.

Lemma in_cand p A q : In (A, q) (cand p) <-> In A [1; 2; 4] /\ In (psub q p) cube3.
Proof.
  unfold cand. rewrite in_map_iff. split.
  - intros [[A' d] [E H]]. cbn [fst snd] in E. inversion E; subst.
    apply in_offs in H. destruct H as [HA Hd]. split; [exact HA|].
    replace (psub (padd d p) p) with d; [exact Hd|]. clear. DCGridSem.pt_eq.
  - intros [HA Hd]. exists (A, psub q p). cbn [fst snd]. split.
    + f_equal. clear. DCGridSem.pt_eq.
    + apply in_offs. auto.
Qed.

Definition ledge_eqb (e f : ledge) : bool := (fst e =? fst f) && pt_eqb (snd e) (snd f).
Lemma ledge_eqb_eq e f : ledge_eqb e f = true <-> e = f.
Proof.
  destruct e as [A p], f as [B q]. unfold ledge_eqb. cbn [fst snd].
  rewrite andb_true_iff, Z.eqb_eq, pt_eqb_eq. split.
  - intros [-> ->]. reflexivity.
  - intros H. inversion H. auto.
Qed.

Fixpoint nodupb {X} (eqb : X -> X -> bool) (l : list X) : bool :=
  match l with [] => true | x :: r => negb (existsb (eqb x) r) && nodupb eqb r end.
Lemma nodupb_ok {X} (eqb : X -> X -> bool) l :
  (forall x y, eqb x y = true <-> x = y) -> nodupb eqb l = true -> NoDup l.
Proof.
  intros He. induction l as [|x l IH]; [constructor|].
  cbn [nodupb]. rewrite andb_true_iff, negb_true_iff. intros [H1 H2].
  constructor; [|apply IH, H2].
  intros Hin. assert (E : existsb (eqb x) l = true).
  { apply existsb_exists. exists x. split; [exact Hin|]. apply He. reflexivity. }
  congruence.
Qed.

Lemma offs_NoDup : NoDup offs.
Proof. apply (nodupb_ok ledge_eqb); [exact ledge_eqb_eq|]. vm_compute. reflexivity. Qed.

Lemma cand_NoDup p : NoDup (cand p).
Proof.
  unfold cand. apply Injective_map_NoDup; [|exact offs_NoDup].
  intros [A d] [B d'] E. cbn [fst snd] in E. inversion E as [[E1 E2]]. f_equal.
  clear - E2. destruct d as [[a b] c], d' as [[a' b'] c'], p as [[x y] z]. cbn in E2.
  inversion E2. repeat f_equal; lia.
Qed.

Lemma cand_axis p e : In e (cand p) -> is_axis (fst e) = true.
Proof. destruct e as [A q]. intros H. apply in_cand in H. apply is_axis_In, H. Qed.

(* the edge's own subspace vertex *)
Definition mid (e : ledge) : pt3 := padd (dbl (snd e)) (bits (fst e)).
Definition near (v m : pt3) : Prop :=
  let '(a, b, c) := v in let '(x, y, z) := m in
  -1 <= a - x <= 1 /\ -1 <= b - y <= 1 /\ -1 <= c - z <= 1.
Definition nearb (v m : pt3) : bool :=
  let '(a, b, c) := v in let '(x, y, z) := m in
  (-1 <=? a - x) && (a - x <=? 1) && (-1 <=? b - y) && (b - y <=? 1) && (-1 <=? c - z) && (c - z <=? 1).
Lemma nearb_near v m : nearb v m = true -> near v m.
Proof.
  destruct v as [[a b] c], m as [[x y] z]. unfold nearb, near.
  rewrite !andb_true_iff, !Z.leb_le. tauto.
Qed.

Lemma origin_near : forallb (fun A => forallb (fun v => nearb v (mid (A, O3))) (gverts (A, O3))) [1; 2; 4] = true.
Proof. vm_compute. reflexivity. Qed.

Theorem gverts_near e v : is_axis (fst e) = true -> In v (gverts e) -> near v (mid e).
Proof.
  destruct e as [A p]. cbn [fst]. intros HA Hv.
  rewrite <- (padd_O3 p), gverts_shift in Hv by exact HA.
  apply in_map_iff in Hv. destruct Hv as [v0 [<- Hv0]].
  pose proof origin_near as H. rewrite forallb_forall in H.
  specialize (H A (proj1 (is_axis_In A) HA)). rewrite forallb_forall in H.
  specialize (H v0 Hv0). apply nearb_near in H. revert H. clear.
  unfold mid, shift. cbn [fst snd].
  destruct (bits A) as [[b1 b2] b3]. destruct v0 as [[a b] c], p as [[x y] z]. cbn. lia.
Qed.

Theorem share_vertex_cand e e' v :
  is_axis (fst e) = true -> is_axis (fst e') = true ->
  In v (gverts e) -> In v (gverts e') -> In e' (cand (snd e)).
Proof.
  intros HA HA' Hv Hv'.
  pose proof (gverts_near e v HA Hv) as N1. pose proof (gverts_near e' v HA' Hv') as N2.
  destruct e as [A p], e' as [A' p']. cbn [fst snd] in *.
  apply in_cand. split; [apply is_axis_In, HA'|].
  unfold mid in N1, N2. cbn [fst snd] in N1, N2.
  destruct v as [[a b] c], p as [[x y] z], p' as [[x' y'] z'].
  cbn [psub]. apply in_cube3. unfold m101. cbn [In].
  destruct (is_axis_cases A HA) as [-> | [-> | ->]];
    destruct (is_axis_cases A' HA') as [-> | [-> | ->]]; cbn in N1, N2; lia.
Qed.

(* ------------------------------------------------------------------ *)
(* 5. counting over lists of lattice edges: local to global            *)
(* ------------------------------------------------------------------ *)

Definition cntb {X} (P : X -> bool) (l : list X) : nat := length (filter P l).

Lemma cntb_sumf {X} (P : X -> bool) l : cntb P l = sumf (fun x => b2n (P x)) l.
Proof. apply length_filter_sumf. Qed.
Lemma cntb_app {X} (P : X -> bool) l1 l2 : cntb P (l1 ++ l2) = (cntb P l1 + cntb P l2)%nat.
Proof. unfold cntb. rewrite filter_app, app_length. reflexivity. Qed.
Lemma cntb_flat_map {X Y} (P : Y -> bool) (f : X -> list Y) l :
  cntb P (flat_map f l) = sumf (fun x => cntb P (f x)) l.
Proof. induction l as [|x l IH]; [reflexivity|]. cbn [flat_map sumf]. rewrite cntb_app, IH. reflexivity. Qed.
Lemma cntb_map {X Y} (P : Y -> bool) (h : X -> Y) l : cntb P (map h l) = cntb (fun x => P (h x)) l.
Proof.
  unfold cntb. induction l as [|x l IH]; [reflexivity|].
  cbn [map filter]. destruct (P (h x)); cbn [length]; rewrite IH; reflexivity.
Qed.
Lemma cntb_ext_in {X} (P Q : X -> bool) l : (forall x, In x l -> P x = Q x) -> cntb P l = cntb Q l.
Proof.
  unfold cntb. induction l as [|x l IH]; [reflexivity|]. intros H.
  cbn [filter]. rewrite (H x (or_introl eq_refl)). destruct (Q x); cbn [length]; rewrite IH; auto.
  all: intros y Hy; apply H; right; exact Hy.
Qed.
Lemma cntb_pos_In {X} (P : X -> bool) l : cntb P l <> 0%nat -> exists x, In x l /\ P x = true.
Proof.
  unfold cntb. induction l as [|x l IH]; [intros H; elim H; reflexivity|].
  cbn [filter]. destruct (P x) eqn:E.
  - intros _. exists x. split; [left; reflexivity|exact E].
  - intros H. destruct (IH H) as [y [Hy Py]]. exists y. split; [right; exact Hy|exact Py].
Qed.
Lemma cntb_In_pos {X} (P : X -> bool) l x : In x l -> P x = true -> (1 <= cntb P l)%nat.
Proof.
  unfold cntb. induction l as [|y l IH]; [intros []|].
  intros [->|H] Px; cbn [filter].
  - rewrite Px. cbn [length]. lia.
  - specialize (IH H Px). destruct (P y); cbn [length]; lia.
Qed.

Lemma sumf_map {X Y} (g : Y -> nat) (h : X -> Y) l : sumf g (map h l) = sumf (fun x => g (h x)) l.
Proof. induction l as [|x l IH]; [reflexivity|]. cbn [map sumf]. rewrite IH. reflexivity. Qed.
Lemma sumf_ge_in {X} (g : X -> nat) l x : In x l -> (g x <= sumf g l)%nat.
Proof.
  induction l as [|y l IH]; [intros []|]. intros [->|H]; cbn [sumf]; [lia|].
  specialize (IH H). lia.
Qed.

(* a sum over a duplicate-free list is bounded by the sum over any duplicate-free list that
   contains its support *)
Lemma sumf_support_le {X} (g : X -> nat) (E F : list X) :
  NoDup E -> NoDup F -> (forall x, In x E -> g x <> 0%nat -> In x F) -> (sumf g E <= sumf g F)%nat.
Proof.
  intros NE. revert F. induction NE as [|x E Hx NE IH]; intros F NF H; [cbn; lia|].
  cbn [sumf]. destruct (Nat.eq_dec (g x) 0) as [Z|NZ].
  - rewrite Z. cbn. apply IH; [exact NF|]. intros y Hy. apply H. right. exact Hy.
  - assert (HxF : In x F) by (apply H; [left; reflexivity|exact NZ]).
    destruct (in_split _ _ HxF) as [l1 [l2 ->]].
    rewrite sumf_app. cbn [sumf].
    specialize (IH (l1 ++ l2) (NoDup_remove_1 _ _ _ NF)).
    rewrite sumf_app in IH.
    assert (IH' : (sumf g E <= sumf g l1 + sumf g l2)%nat).
    { apply IH. intros y Hy Gy. specialize (H y (or_intror Hy) Gy).
      apply in_app_or in H. apply in_or_app. destruct H as [H|[H|H]]; auto.
      subst y. contradiction. }
    lia.
Qed.

Section Local.
  Variable X : Type.
  Variable objs : ledge -> list X.
  Variable R : X -> X -> bool.
  Variable sh : pt3 -> X -> X.
  Hypothesis objs_shift : forall A d p,
    is_axis A = true -> objs (A, padd d p) = map (sh (dbl p)) (objs (A, d)).
  Hypothesis R_shift : forall t x y, R (sh t x) (sh t y) = R x y.
  Hypothesis R_far : forall e e' x y,
    is_axis (fst e) = true -> is_axis (fst e') = true ->
    In x (objs e) -> In y (objs e') -> R x y = true -> In e' (cand (snd e)).
  Hypothesis sweep : forall A x, In A [1; 2; 4] -> In x (objs (A, O3)) ->
    sumf (fun o => cntb (R x) (objs o)) offs = 1%nat.

  Lemma local_sum A p x :
    is_axis A = true -> In x (objs (A, p)) ->
    sumf (fun e' => cntb (R x) (objs e')) (cand p) = 1%nat.
  Proof.
    intros HA Hx. rewrite <- (padd_O3 p), objs_shift in Hx by exact HA.
    apply in_map_iff in Hx. destruct Hx as [x0 [<- Hx0]].
    rewrite <- (sweep A x0 (proj1 (is_axis_In A) HA) Hx0).
    unfold cand. rewrite sumf_map. apply sumf_ext_in. intros [A' d] Ho. cbn [fst snd].
    rewrite objs_shift by (apply is_axis_In; apply in_offs in Ho; apply Ho).
    rewrite cntb_map. apply cntb_ext_in. intros y _. apply R_shift.
  Qed.

  Lemma global_le1 E e x :
    NoDup E -> (forall e', In e' E -> is_axis (fst e') = true) -> In e E -> In x (objs e) ->
    (cntb (R x) (flat_map objs E) <= 1)%nat.
  Proof.
    intros ND HAx He Hx. rewrite cntb_flat_map.
    destruct e as [A p]. rewrite <- (local_sum A p x (HAx _ He) Hx).
    apply sumf_support_le; [exact ND|apply cand_NoDup|].
    intros e' He' Hn. apply cntb_pos_In in Hn. destruct Hn as [y [Hy Ry]].
    exact (R_far (A, p) e' x y (HAx _ He) (HAx _ He') Hx Hy Ry).
  Qed.

  Lemma local_witness A p x :
    is_axis A = true -> In x (objs (A, p)) ->
    exists e', In e' (cand p) /\ cntb (R x) (objs e') <> 0%nat.
  Proof.
    intros HA Hx. pose proof (local_sum A p x HA Hx) as H.
    destruct (sumf_zero_or_witness (fun e' => cntb (R x) (objs e')) (cand p)) as [Z|W]; [lia|exact W].
  Qed.

  Lemma global_ge1 E e' x : In e' E -> cntb (R x) (objs e') <> 0%nat -> (1 <= cntb (R x) (flat_map objs E))%nat.
  Proof.
    intros He' Hn. rewrite cntb_flat_map.
    pose proof (sumf_ge_in (fun e => cntb (R x) (objs e)) E e' He'). cbn beta in H. lia.
  Qed.
End Local.

(* ------------------------------------------------------------------ *)
(* 6. THE FINITE SWEEPS at the origin, on the generated tables         *)
(* ------------------------------------------------------------------ *)

Definition sweep_faces (A : Z) : bool :=
  forallb (fun f => (sumf (fun o => cntb (gsame f) (gfaces o)) offs =? 1)%nat &&
                    (sumf (fun o => cntb (gopp f) (gfaces o)) offs =? 1)%nat) (gfaces (A, O3)).

(* 3 axes x 64 oriented faces against the 81 x 64 faces of the candidate edges *)
Lemma sweep_faces_ok : forallb sweep_faces [1; 2; 4] = true.
Proof. vm_compute. reflexivity. Qed.

(* two tets with the same vertex set *)
Definition gvsame (t t' : gtet) : bool :=
  forallb (fun v => existsb (pt_eqb v) (gtverts t')) (gtverts t) &&
  forallb (fun v => existsb (pt_eqb v) (gtverts t)) (gtverts t').

Definition sweep_tets (A : Z) : bool :=
  forallb (fun t => (sumf (fun o => cntb (gvsame t) (ltets o)) offs =? 1)%nat) (ltets (A, O3)).

Lemma sweep_tets_ok : forallb sweep_tets [1; 2; 4] = true.
Proof. vm_compute. reflexivity. Qed.

(* flags of the cubical grid in doubled coordinates *)
Definition oddc (x : Z) : nat := if Z.odd x then 1 else 0.
Definition dimv (v : pt3) : nat := let '(x, y, z) := v in (oddc x + oddc y + oddc z)%nat.
(* per axis: the smaller subspace has the same coordinate, or the bigger one spans this axis
   (odd coordinate) and the smaller one sits at one of its two ends *)
Definition sub1 (u v : Z) : bool := (u =? v) || (Z.odd v && (Z.abs (u - v) =? 1)).
Definition subb (u v : pt3) : bool :=
  let '(a, b, c) := u in let '(x, y, z) := v in sub1 a x && sub1 b y && sub1 c z.
Definition flagb (c e f k : pt3) : bool :=
  (dimv c =? 0)%nat && (dimv e =? 1)%nat && (dimv f =? 2)%nat && (dimv k =? 3)%nat &&
  subb c e && subb e f && subb f k.
(* a tet of load<A>: vertex 0 is the edge, vertex 3 the cell, vertices 1 and 2 are corner and face
   in either order *)
Definition tet_flagb (t : gtet) : bool :=
  let '(v0, v1, v2, v3) := t in flagb v1 v0 v2 v3 || flagb v2 v0 v1 v3.
Definition gdistinctb (t : gtet) : bool :=
  let '(a, b, c, d) := t in
  negb (pt_eqb a b) && negb (pt_eqb a c) && negb (pt_eqb a d) &&
  negb (pt_eqb b c) && negb (pt_eqb b d) && negb (pt_eqb c d).

Lemma origin_checks :
  forallb (fun A => forallb (fun t => tet_flagb t && gdistinctb t) (ltets (A, O3))) [1; 2; 4] = true.
Proof. vm_compute. reflexivity. Qed.

(* ------------------------------------------------------------------ *)
(* 7. lifting the sweeps to any position and any list of lattice edges *)
(* ------------------------------------------------------------------ *)

Lemma sweep_same A f : In A [1; 2; 4] -> In f (gfaces (A, O3)) ->
  sumf (fun o => cntb (gsame f) (gfaces o)) offs = 1%nat.
Proof.
  intros HA Hf. pose proof sweep_faces_ok as H. rewrite forallb_forall in H.
  specialize (H A HA). unfold sweep_faces in H. rewrite forallb_forall in H.
  specialize (H f Hf). rewrite andb_true_iff, !Nat.eqb_eq in H. apply H.
Qed.
Lemma sweep_opp A f : In A [1; 2; 4] -> In f (gfaces (A, O3)) ->
  sumf (fun o => cntb (gopp f) (gfaces o)) offs = 1%nat.
Proof.
  intros HA Hf. pose proof sweep_faces_ok as H. rewrite forallb_forall in H.
  specialize (H A HA). unfold sweep_faces in H. rewrite forallb_forall in H.
  specialize (H f Hf). rewrite andb_true_iff, !Nat.eqb_eq in H. apply H.
Qed.
Lemma sweep_vsame A t : In A [1; 2; 4] -> In t (ltets (A, O3)) ->
  sumf (fun o => cntb (gvsame t) (ltets o)) offs = 1%nat.
Proof.
  intros HA Ht. pose proof sweep_tets_ok as H. rewrite forallb_forall in H.
  specialize (H A HA). unfold sweep_tets in H. rewrite forallb_forall in H.
  specialize (H t Ht). rewrite Nat.eqb_eq in H. exact H.
Qed.

Lemma faces_far (R : gface -> gface -> bool) :
  (forall f g, R f g = true -> forall v, In v (fverts f) -> In v (fverts g)) ->
  forall e e' x y, is_axis (fst e) = true -> is_axis (fst e') = true ->
    In x (gfaces e) -> In y (gfaces e') -> R x y = true -> In e' (cand (snd e)).
Proof.
  intros HR e e' x y HA HA' Hx Hy HRxy.
  destruct x as [[a b] c] eqn:Ex.
  assert (Ha : In a (fverts x)) by (subst x; left; reflexivity).
  rewrite <- Ex in Hx, HRxy.
  apply (share_vertex_cand e e' a HA HA').
  - exact (gfaces_verts e x a Hx Ha).
  - exact (gfaces_verts e' y a Hy (HR x y HRxy a Ha)).
Qed.

Lemma gvsame_share t t' : gvsame t t' = true -> forall v, In v (gtverts t) -> In v (gtverts t').
Proof.
  unfold gvsame. rewrite andb_true_iff, !forallb_forall. intros [H _] v Hv.
  specialize (H v Hv). apply existsb_exists in H. destruct H as [w [Hw E]].
  apply pt_eqb_eq in E. subst. exact Hw.
Qed.

Lemma ltets_verts e t v : In t (ltets e) -> In v (gtverts t) -> In v (gverts e).
Proof. intros Ht Hv. unfold gverts. apply in_flat_map. exists t. auto. Qed.

Lemma tets_far : forall e e' x y, is_axis (fst e) = true -> is_axis (fst e') = true ->
    In x (ltets e) -> In y (ltets e') -> gvsame x y = true -> In e' (cand (snd e)).
Proof.
  intros e e' x y HA HA' Hx Hy HR.
  destruct x as [[[a b] c] d] eqn:Ex.
  assert (Ha : In a (gtverts x)) by (subst x; left; reflexivity).
  rewrite <- Ex in Hx, HR.
  apply (share_vertex_cand e e' a HA HA').
  - exact (ltets_verts e x a Hx Ha).
  - exact (ltets_verts e' y a Hy (gvsame_share x y HR a Ha)).
Qed.

Lemma gvsame_shift t x y : gvsame (map_tet (shift t) x) (map_tet (shift t) y) = gvsame x y.
Proof.
  destruct x as [[[a b] c] d], y as [[[a' b'] c'] d'].
  unfold gvsame, map_tet, gtverts. cbn [forallb existsb]. rewrite !pt_eqb_shift. reflexivity.
Qed.

Lemma gvsame_refl t : gvsame t t = true.
Proof.
  destruct t as [[[a b] c] d]. unfold gvsame, gtverts. cbn [forallb existsb].
  rewrite !pt_eqb_refl, !orb_true_r. reflexivity.
Qed.

Definition axes_ok (E : list ledge) : Prop := forall e, In e E -> is_axis (fst e) = true.
Definition gall (E : list ledge) : list gface := flat_map gfaces E.

(* an oriented face occurs exactly once in the whole complex *)
Theorem gface_same_unique E e f :
  NoDup E -> axes_ok E -> In e E -> In f (gfaces e) -> cntb (gsame f) (gall E) = 1%nat.
Proof.
  intros ND HAx He Hf.
  pose proof (global_le1 gface gfaces gsame (fun t => map_face (shift t)) gfaces_shift gsame_shift
                (faces_far gsame gsame_share) sweep_same E e f ND HAx He Hf) as H1.
  pose proof (global_ge1 gface gfaces gsame E e f He) as H2.
  unfold gall. assert (cntb (gsame f) (gfaces e) <> 0%nat).
  { pose proof (cntb_In_pos (gsame f) (gfaces e) f Hf (gsame_refl f)). lia. }
  specialize (H2 H). lia.
Qed.

(* ... and at most once with the opposite orientation *)
Theorem gface_opp_le1 E e f :
  NoDup E -> axes_ok E -> In e E -> In f (gfaces e) -> (cntb (gopp f) (gall E) <= 1)%nat.
Proof.
  intros ND HAx He Hf.
  exact (global_le1 gface gfaces gopp (fun t => map_face (shift t)) gfaces_shift gopp_shift
           (faces_far gopp gopp_share) sweep_opp E e f ND HAx He Hf).
Qed.

(* ... and the tet on the other side belongs to one of the 81 candidate edges *)
Theorem gface_opp_exists A p f :
  is_axis A = true -> In f (gfaces (A, p)) ->
  exists e', In e' (cand p) /\ cntb (gopp f) (gfaces e') <> 0%nat.
Proof.
  intros HA Hf.
  exact (local_witness gface gfaces gopp (fun t => map_face (shift t)) gfaces_shift gopp_shift
           sweep_opp A p f HA Hf).
Qed.

Theorem gtet_vsame_unique E e t :
  NoDup E -> axes_ok E -> In e E -> In t (ltets e) -> cntb (gvsame t) (flat_map ltets E) = 1%nat.
Proof.
  intros ND HAx He Ht.
  pose proof (global_le1 gtet ltets gvsame (fun t => map_tet (shift t)) ltets_shift gvsame_shift
                tets_far sweep_vsame E e t ND HAx He Ht) as H1.
  pose proof (global_ge1 gtet ltets gvsame E e t He) as H2.
  assert (cntb (gvsame t) (ltets e) <> 0%nat).
  { pose proof (cntb_In_pos (gvsame t) (ltets e) t Ht (gvsame_refl t)). lia. }
  specialize (H2 H). lia.
Qed.

(* flags, distinct vertices *)
Lemma sub1_shift u v t : sub1 (u + 2 * t) (v + 2 * t) = sub1 u v.
Proof.
  unfold sub1. rewrite DCGridSem.Zeqb_add_r, Z.odd_add_mul_2.
  replace (u + 2 * t - (v + 2 * t)) with (u - v) by lia. reflexivity.
Qed.
Lemma oddc_shift u t : oddc (u + 2 * t) = oddc u.
Proof. unfold oddc. rewrite Z.odd_add_mul_2. reflexivity. Qed.
Lemma dimv_shift p v : dimv (shift (dbl p) v) = dimv v.
Proof.
  destruct v as [[a b] c], p as [[x y] z]. unfold dimv, shift, dbl, padd.
  rewrite !oddc_shift. reflexivity.
Qed.
Lemma subb_shift p u v : subb (shift (dbl p) u) (shift (dbl p) v) = subb u v.
Proof.
  destruct u as [[a b] c], v as [[a' b'] c'], p as [[x y] z]. unfold subb, shift, dbl, padd.
  rewrite !sub1_shift. reflexivity.
Qed.
Lemma flagb_shift p c e f k :
  flagb (shift (dbl p) c) (shift (dbl p) e) (shift (dbl p) f) (shift (dbl p) k) = flagb c e f k.
Proof. unfold flagb. rewrite !dimv_shift, !subb_shift. reflexivity. Qed.
Lemma tet_flagb_shift p t : tet_flagb (map_tet (shift (dbl p)) t) = tet_flagb t.
Proof. destruct t as [[[a b] c] d]. unfold tet_flagb, map_tet. rewrite !flagb_shift. reflexivity. Qed.
Lemma gdistinctb_shift s t : gdistinctb (map_tet (shift s) t) = gdistinctb t.
Proof. destruct t as [[[a b] c] d]. unfold gdistinctb, map_tet. rewrite !pt_eqb_shift. reflexivity. Qed.

(* every tet of load<A> is a flag corner < edge < face < cell of the cubical grid, in the vertex
   order (edge, corner | face, face | corner, cell); its four vertices are distinct *)
Theorem simplex_gtets_flags A p t :
  is_axis A = true -> In t (simplex_gtets A p) -> tet_flagb t = true /\ gdistinctb t = true.
Proof.
  intros HA Ht. change (In t (ltets (A, p))) in Ht.
  rewrite <- (padd_O3 p), ltets_shift in Ht by exact HA.
  apply in_map_iff in Ht. destruct Ht as [t0 [<- Ht0]].
  rewrite tet_flagb_shift, gdistinctb_shift.
  pose proof origin_checks as H. rewrite forallb_forall in H.
  specialize (H A (proj1 (is_axis_In A) HA)). rewrite forallb_forall in H.
  specialize (H t0 Ht0). apply andb_true_iff in H. exact H.
Qed.

(* ------------------------------------------------------------------ *)
(* 8. from doubled points to vertex ids                                *)
(* ------------------------------------------------------------------ *)

Definition enc_face (n : nat) (f : gface) : face := let '(a, b, c) := f in (enc n a, enc n b, enc n c).
Definition face_in (n : nat) (f : gface) : Prop := forall v, In v (fverts f) -> in_box n v.
Definition tet_in (n : nat) (t : gtet) : Prop := forall v, In v (gtverts t) -> in_box n v.
Definition edges_in_box (n : nat) (E : list ledge) : Prop :=
  forall e v, In e E -> In v (gverts e) -> in_box n v.
(* the inside / outside assignment, read on doubled points *)
Definition gi (n : nat) (ins : vid -> bool) : pt3 -> bool := fun v => ins (enc n v).

Lemma flat_map_map_in {A B C} (f : A -> list B) (h : B -> C) l :
  flat_map (fun x => map h (f x)) l = map h (flat_map f l).
Proof. induction l as [|x l IH]; [reflexivity|]. cbn [flat_map]. rewrite map_app, IH. reflexivity. Qed.
Lemma flat_map_flat_map {A B C} (f : A -> list B) (g : B -> list C) l :
  flat_map g (flat_map f l) = flat_map (fun x => flat_map g (f x)) l.
Proof. induction l as [|x l IH]; [reflexivity|]. cbn [flat_map]. rewrite flat_map_app, IH. reflexivity. Qed.

Lemma simplex_complex_map n E : simplex_complex n E = map (enc_tet n) (flat_map ltets E).
Proof. unfold simplex_complex, simplex_tets. apply flat_map_map_in. Qed.

Lemma tet_faces_enc n t : tet_faces (enc_tet n t) = map (enc_face n) (gtet_faces t).
Proof. destruct t as [[[a b] c] d]. reflexivity. Qed.

Lemma all_faces_complex n E : all_faces (simplex_complex n E) = map (enc_face n) (gall E).
Proof.
  rewrite simplex_complex_map. unfold all_faces, gall, gfaces.
  rewrite <- flat_map_flat_map. apply flat_map_map_out. intros t. apply tet_faces_enc.
Qed.

Lemma face_in_rot n f : face_in n f -> face_in n (grot f).
Proof. destruct f as [[a b] c]. unfold face_in. cbn. intros H v Hv. apply H. tauto. Qed.
Lemma face_in_flip n f : face_in n f -> face_in n (gflip f).
Proof. destruct f as [[a b] c]. unfold face_in. cbn. intros H v Hv. apply H. tauto. Qed.

Lemma face_eqb_enc n f g : face_in n f -> face_in n g ->
  face_eqb (enc_face n f) (enc_face n g) = gface_eqb f g.
Proof.
  destruct f as [[a b] c], g as [[x y] z]. unfold face_in. cbn [fverts In]. intros Hf Hg.
  unfold face_eqb, gface_eqb, enc_face.
  rewrite !enc_eqb by (solve [apply Hf; tauto | apply Hg; tauto]). reflexivity.
Qed.

Lemma same_oriented_enc n f g : face_in n f -> face_in n g ->
  same_oriented (enc_face n f) (enc_face n g) = gsame f g.
Proof.
  intros Hf Hg. unfold same_oriented, gsame.
  replace (face_rot (face_rot (enc_face n f))) with (enc_face n (grot (grot f)))
    by (destruct f as [[a b] c]; reflexivity).
  replace (face_rot (enc_face n f)) with (enc_face n (grot f))
    by (destruct f as [[a b] c]; reflexivity).
  rewrite !face_eqb_enc; auto using face_in_rot.
Qed.

Lemma opposite_oriented_enc n f g : face_in n f -> face_in n g ->
  opposite_oriented (enc_face n f) (enc_face n g) = gopp f g.
Proof.
  intros Hf Hg. unfold opposite_oriented, gopp.
  replace (face_flip (enc_face n f)) with (enc_face n (gflip f))
    by (destruct f as [[a b] c]; reflexivity).
  apply same_oriented_enc; auto using face_in_flip.
Qed.

Lemma face_mixed_enc n ins f : face_mixed ins (enc_face n f) = gmixed (gi n ins) f.
Proof. destruct f as [[a b] c]. reflexivity. Qed.

Lemma gall_in n E f : edges_in_box n E -> In f (gall E) -> face_in n f.
Proof.
  intros HB Hf v Hv. unfold gall in Hf. apply in_flat_map in Hf. destruct Hf as [e [He Hf]].
  exact (HB e v He (gfaces_verts e f v Hf Hv)).
Qed.

Lemma count_same_enc n E f : edges_in_box n E -> In f (gall E) ->
  count_same (enc_face n f) (all_faces (simplex_complex n E)) = cntb (gsame f) (gall E).
Proof.
  intros HB Hf. rewrite all_faces_complex. unfold count_same. fold (cntb (same_oriented (enc_face n f)) (map (enc_face n) (gall E))).
  rewrite cntb_map. apply cntb_ext_in. intros g Hg.
  apply same_oriented_enc; eapply gall_in; eauto.
Qed.

Lemma count_opp_enc n E f : edges_in_box n E -> In f (gall E) ->
  count_opp (enc_face n f) (all_faces (simplex_complex n E)) = cntb (gopp f) (gall E).
Proof.
  intros HB Hf. rewrite all_faces_complex. unfold count_opp. fold (cntb (opposite_oriented (enc_face n f)) (map (enc_face n) (gall E))).
  rewrite cntb_map. apply cntb_ext_in. intros g Hg.
  apply opposite_oriented_enc; eapply gall_in; eauto.
Qed.

Lemma tet_distinctb_enc n t : tet_in n t -> tet_distinctb (enc_tet n t) = gdistinctb t.
Proof.
  destruct t as [[[a b] c] d]. unfold tet_in. cbn [gtverts In]. intros H.
  unfold tet_distinctb, gdistinctb, enc_tet.
  rewrite !enc_eqb by (apply H; tauto). reflexivity.
Qed.

Lemma vsame_enc n t t' : tet_in n t -> tet_in n t' -> vsame (enc_tet n t) (enc_tet n t') = gvsame t t'.
Proof.
  destruct t as [[[a b] c] d], t' as [[[a' b'] c'] d']. unfold tet_in. cbn [gtverts In]. intros H H'.
  unfold vsame, gvsame, enc_tet, tverts, gtverts. cbn [forallb existsb].
  rewrite !enc_eqb by (solve [apply H; tauto | apply H'; tauto]). reflexivity.
Qed.

Lemma in_complex n E t :
  In t (simplex_complex n E) -> exists e g, In e E /\ In g (ltets e) /\ t = enc_tet n g.
Proof.
  rewrite simplex_complex_map, in_map_iff. intros [g [<- Hg]].
  apply in_flat_map in Hg. destruct Hg as [e [He Hg]]. exists e, g. auto.
Qed.

Lemma ltets_in n E e g : edges_in_box n E -> In e E -> In g (ltets e) -> tet_in n g.
Proof. intros HB He Hg v Hv. exact (HB e v He (ltets_verts e g v Hg Hv)). Qed.

(* ------------------------------------------------------------------ *)
(* 9. complex_closed, for any list of lattice edges closed under       *)
(*    "the tet on the other side of a face that carries surface"       *)
(* ------------------------------------------------------------------ *)

Definition partner_closed (n : nat) (ins : vid -> bool) (E : list ledge) : Prop :=
  forall e f e', In e E -> In f (gfaces e) -> gmixed (gi n ins) f = true ->
    is_axis (fst e') = true -> cntb (gopp f) (gfaces e') <> 0%nat -> In e' E.

Theorem simplex_complex_closed_gen n ins E :
  NoDup E -> axes_ok E -> edges_in_box n E -> partner_closed n ins E ->
  complex_closed ins (simplex_complex n E).
Proof.
  intros ND HAx HB HP. split.
  - intros t Ht. destruct (in_complex n E t Ht) as [e [g [He [Hg ->]]]].
    apply tet_distinctb_ok. rewrite tet_distinctb_enc by (eapply ltets_in; eauto).
    destruct e as [A p]. exact (proj2 (simplex_gtets_flags A p g (HAx _ He) Hg)).
  - intros f Hf Hm. rewrite all_faces_complex in Hf. apply in_map_iff in Hf.
    destruct Hf as [g [<- Hg]]. rewrite face_mixed_enc in Hm.
    rewrite count_same_enc, count_opp_enc by assumption.
    pose proof Hg as Hg'. unfold gall in Hg'. apply in_flat_map in Hg'. destruct Hg' as [e [He Hge]].
    split; [exact (gface_same_unique E e g ND HAx He Hge)|].
    pose proof (gface_opp_le1 E e g ND HAx He Hge) as H1.
    destruct e as [A p].
    destruct (gface_opp_exists A p g (HAx _ He) Hge) as [e' [He' Hn]].
    assert (He'E : In e' E) by (exact (HP (A, p) g e' He Hge Hm (cand_axis p e' He') Hn)).
    pose proof (global_ge1 gface gfaces (gopp) E e' g He'E Hn) as H2.
    unfold gall in *. lia.
Qed.

Theorem simplex_complex_simplicial_gen n E :
  NoDup E -> axes_ok E -> edges_in_box n E -> simplicial (simplex_complex n E).
Proof.
  intros ND HAx HB t Ht. destruct (in_complex n E t Ht) as [e [g [He [Hg ->]]]].
  rewrite <- (gtet_vsame_unique E e g ND HAx He Hg).
  rewrite simplex_complex_map. unfold count_vsame.
  fold (cntb (vsame (enc_tet n g)) (map (enc_tet n) (flat_map ltets E))).
  rewrite cntb_map. apply cntb_ext_in. intros g' Hg'.
  apply in_flat_map in Hg'. destruct Hg' as [e' [He' Hg']].
  apply vsame_enc; [exact (ltets_in n E e g HB He Hg)|exact (ltets_in n E e' g' HB He' Hg')].
Qed.

(* ------------------------------------------------------------------ *)
(* 10. the box: all_edges n                                            *)
(* ------------------------------------------------------------------ *)

Lemma in_zrange n x : In x (zrange n) <-> 0 <= x < Z.of_nat n.
Proof.
  unfold zrange. rewrite in_map_iff. split.
  - intros [k [<- Hk]]. apply in_seq in Hk. lia.
  - intros H. exists (Z.to_nat x). split; [lia|]. apply in_seq. lia.
Qed.

Lemma in_grid3 n x y z : In (x, y, z) (grid3 n) <-> In x (zrange n) /\ In y (zrange n) /\ In z (zrange n).
Proof.
  unfold grid3. rewrite in_flat_map. split.
  - intros [x' [Hx H]]. apply in_flat_map in H. destruct H as [y' [Hy H]].
    apply in_map_iff in H. destruct H as [z' [E Hz]]. inversion E; subst. auto.
  - intros (Hx & Hy & Hz). exists x. split; [exact Hx|]. apply in_flat_map.
    exists y. split; [exact Hy|]. apply in_map_iff. exists z. auto.
Qed.

Lemma NoDup_app_intro {X} (l1 l2 : list X) :
  NoDup l1 -> NoDup l2 -> (forall x, In x l1 -> ~ In x l2) -> NoDup (l1 ++ l2).
Proof.
  intros N1 N2 H. induction N1 as [|x l1 Hx N1 IH]; [exact N2|].
  cbn [app]. constructor.
  - intros Hin. apply in_app_or in Hin. destruct Hin as [Hin|Hin]; [contradiction|].
    exact (H x (or_introl eq_refl) Hin).
  - apply IH. intros y Hy. apply H. right. exact Hy.
Qed.

Lemma NoDup_flat_map {X Y} (f : X -> list Y) l :
  NoDup l -> (forall x, In x l -> NoDup (f x)) ->
  (forall x x' y, In x l -> In x' l -> In y (f x) -> In y (f x') -> x = x') ->
  NoDup (flat_map f l).
Proof.
  intros ND. induction ND as [|x l Hx ND IH]; intros Hf Hd; [constructor|].
  cbn [flat_map]. apply NoDup_app_intro.
  - apply Hf. left. reflexivity.
  - apply IH.
    + intros y Hy. apply Hf. right. exact Hy.
    + intros a b y Ha Hb. apply Hd; right; assumption.
  - intros y Hy Hin. apply in_flat_map in Hin. destruct Hin as [x' [Hx' Hy']].
    assert (x = x') by (apply (Hd x x' y); auto; [left; reflexivity|right; exact Hx']).
    subst. contradiction.
Qed.

Lemma zrange_NoDup n : NoDup (zrange n).
Proof.
  unfold zrange. apply Injective_map_NoDup; [|apply seq_NoDup].
  intros a b. apply Nat2Z.inj.
Qed.

Lemma NoDup_map_inj {X Y} (f : X -> Y) l : (forall a b, f a = f b -> a = b) -> NoDup l -> NoDup (map f l).
Proof. intros H. apply Injective_map_NoDup. exact H. Qed.

Lemma grid3_NoDup n : NoDup (grid3 n).
Proof.
  unfold grid3. apply NoDup_flat_map; [apply zrange_NoDup| |].
  - intros x _. apply NoDup_flat_map; [apply zrange_NoDup| |].
    + intros y _. apply NoDup_map_inj; [|apply zrange_NoDup]. intros a b E. inversion E. reflexivity.
    + intros y y' p _ _ H1 H2. apply in_map_iff in H1, H2.
      destruct H1 as [z [<- _]], H2 as [z' [E _]]. inversion E. reflexivity.
  - intros x x' p _ _ H1 H2. apply in_flat_map in H1, H2.
    destruct H1 as [y [_ H1]], H2 as [y' [_ H2]]. apply in_map_iff in H1, H2.
    destruct H1 as [z [<- _]], H2 as [z' [E _]]. inversion E. reflexivity.
Qed.

Theorem all_edges_NoDup n : NoDup (all_edges n).
Proof.
  unfold all_edges. apply NoDup_filter. apply NoDup_flat_map.
  - repeat constructor; cbn; intuition discriminate.
  - intros A _. apply NoDup_map_inj; [|apply grid3_NoDup]. intros a b E. inversion E. reflexivity.
  - intros A A' e _ _ H1 H2. apply in_map_iff in H1, H2.
    destruct H1 as [p [<- _]], H2 as [p' [E _]]. inversion E. reflexivity.
Qed.

(* the four cells of (A, (x, y, z)) lie in the box iff 1 <= coordinate < n across the edge and
   0 <= coordinate < n along it *)
Lemma edge_in_iff n A x y z :
  is_axis A = true ->
  (edge_in n (A, (x, y, z)) = true <->
   let '(b1, b2, b3) := bits A in
   1 - b1 <= x < Z.of_nat n /\ 1 - b2 <= y < Z.of_nat n /\ 1 - b3 <= z < Z.of_nat n).
Proof.
  intros HA. unfold edge_in, cells4. cbn [fst snd forallb].
  destruct (is_axis_cases A HA) as [-> | [-> | ->]];
    cbn -[Z.of_nat]; rewrite !andb_true_iff, !Z.leb_le, !Z.ltb_lt; lia.
Qed.

Theorem in_all_edges n e : In e (all_edges n) <-> is_axis (fst e) = true /\ edge_in n e = true.
Proof.
  unfold all_edges. rewrite filter_In, in_flat_map. split.
  - intros [[A [HA H]] Hin]. apply in_map_iff in H. destruct H as [p [<- _]].
    split; [apply is_axis_In, HA|exact Hin].
  - intros [HA Hin]. split; [|exact Hin]. destruct e as [A [[x y] z]]. cbn [fst] in HA.
    exists A. split; [apply is_axis_In, HA|]. apply in_map_iff. exists (x, y, z).
    split; [reflexivity|]. apply in_grid3. rewrite !in_zrange.
    apply (edge_in_iff n A x y z HA) in Hin.
    destruct (is_axis_cases A HA) as [-> | [-> | ->]]; cbn in Hin; lia.
Qed.

Lemma all_edges_axes n : axes_ok (all_edges n).
Proof. intros e He. apply in_all_edges in He. apply He. Qed.

Lemma all_edges_in_box n : edges_in_box n (all_edges n).
Proof.
  intros e v He Hv. apply in_all_edges in He. destruct He as [HA Hin].
  pose proof (gverts_near e v HA Hv) as Hn.
  destruct e as [A [[x y] z]], v as [[a b] c]. cbn [fst] in HA.
  apply (edge_in_iff n A x y z HA) in Hin. unfold mid in Hn. cbn [fst snd] in Hn.
  destruct (is_axis_cases A HA) as [-> | [-> | ->]]; cbn in Hin, Hn; unfold in_box; lia.
Qed.

(* some coordinate within one (doubled) step of the box boundary: the subspace vertices of the
   outermost layer of cells *)
Definition near_bd (n : nat) (v : pt3) : Prop :=
  let '(x, y, z) := v in let M := 2 * Z.of_nat n in
  x <= 1 \/ M - 1 <= x \/ y <= 1 \/ M - 1 <= y \/ z <= 1 \/ M - 1 <= z.
Definition clear_boundary (n : nat) (ins : vid -> bool) : Prop :=
  forall v, in_box n v -> near_bd n v -> ins (enc n v) = false.

Lemma outside_edge_near_bd n e v :
  is_axis (fst e) = true -> edge_in n e = false -> In v (gverts e) -> in_box n v -> near_bd n v.
Proof.
  intros HA Hout Hv Hb. pose proof (gverts_near e v HA Hv) as Hn.
  destruct e as [A [[x y] z]], v as [[a b] c]. cbn [fst] in HA.
  assert (Hno : ~ (let '(b1, b2, b3) := bits A in
                   1 - b1 <= x < Z.of_nat n /\ 1 - b2 <= y < Z.of_nat n /\ 1 - b3 <= z < Z.of_nat n)).
  { intros H. apply (edge_in_iff n A x y z HA) in H. exact (eq_true_false_abs _ H Hout). }
  unfold mid in Hn. cbn [fst snd] in Hn. unfold in_box in Hb. unfold near_bd.
  destruct (is_axis_cases A HA) as [-> | [-> | ->]]; cbn in Hno, Hn; lia.
Qed.

Theorem all_edges_partner_closed n ins : clear_boundary n ins -> partner_closed n ins (all_edges n).
Proof.
  intros HC e f e' He Hf Hm HA' Hn. apply in_all_edges. split; [exact HA'|].
  destruct (edge_in n e') eqn:Hin; [reflexivity|exfalso].
  apply cntb_pos_In in Hn. destruct Hn as [g [Hg Hop]].
  assert (Hout : forall v, In v (fverts f) -> gi n ins v = false).
  { intros v Hv. unfold gi. apply HC.
    - exact (all_edges_in_box n e v He (gfaces_verts e f v Hf Hv)).
    - apply (outside_edge_near_bd n e' v HA' Hin).
      + exact (gfaces_verts e' g v Hg (gopp_share f g Hop v Hv)).
      + exact (all_edges_in_box n e v He (gfaces_verts e f v Hf Hv)). }
  destruct f as [[a b] c]. unfold gmixed in Hm. cbn [fverts In] in Hout.
  rewrite (Hout a), (Hout b), (Hout c) in Hm by tauto. discriminate Hm.
Qed.

(* MAIN THEOREM: the complex of the simplex mesher on the uniform n^3 grid is closed and
   consistently oriented, for every inside / outside assignment that is outside on the outermost
   layer of cells *)
Theorem simplex_complex_closed n ins :
  clear_boundary n ins -> complex_closed ins (simplex_complex n (all_edges n)).
Proof.
  intros HC. apply simplex_complex_closed_gen.
  - apply all_edges_NoDup.
  - apply all_edges_axes.
  - apply all_edges_in_box.
  - apply all_edges_partner_closed, HC.
Qed.

Theorem simplex_complex_simplicial n : simplicial (simplex_complex n (all_edges n)).
Proof.
  apply simplex_complex_simplicial_gen;
    [apply all_edges_NoDup|apply all_edges_axes|apply all_edges_in_box].
Qed.

Theorem simplex_grid_closed n ins : clear_boundary n ins -> closed_mesh (simplex_mesh n ins).
Proof. intros HC. apply march_closed, simplex_complex_closed, HC. Qed.

Theorem simplex_grid_manifold n ins : clear_boundary n ins -> manifold_mesh (simplex_mesh n ins).
Proof.
  intros HC. apply march_manifold; [apply simplex_complex_closed, HC|apply simplex_complex_simplicial].
Qed.

(* flags, stated on the encoded tets of a lattice edge of the box *)
Theorem simplex_tets_flags n A p t :
  is_axis A = true -> edge_in n (A, p) = true -> In t (simplex_tets n A p) ->
  tet_distinct t /\ exists g, t = enc_tet n g /\ In g (simplex_gtets A p) /\ tet_flagb g = true.
Proof.
  intros HA Hin Ht. unfold simplex_tets in Ht. apply in_map_iff in Ht. destruct Ht as [g [<- Hg]].
  destruct (simplex_gtets_flags A p g HA Hg) as [H1 H2]. split.
  - apply tet_distinctb_ok. rewrite tet_distinctb_enc; [exact H2|].
    intros v Hv. apply (all_edges_in_box n (A, p) v).
    + apply in_all_edges. auto.
    + exact (ltets_verts (A, p) g v Hg Hv).
  - exists g. auto.
Qed.

(* ------------------------------------------------------------------ *)
(* 10b. what load<A> skips emits nothing (the model emits always)      *)
(* ------------------------------------------------------------------ *)

(* load<A> skips the cells that are EMPTY / FILLED, and returns early when no cell is AMBIGUOUS.
   A leaf cell is EMPTY / FILLED exactly when its 27 subspace vertices all have that sign
   (SimplexTree::evalLeaf, findLeafVertices), so every tet inside it has four vertices of one
   sign: such a tet has mask 0 or 15 and contributes no triangle *)
Theorem skipped_tets_emit_nothing ins t :
  ins (tet_nth t 1) = ins (tet_nth t 0) -> ins (tet_nth t 2) = ins (tet_nth t 0) ->
  ins (tet_nth t 3) = ins (tet_nth t 0) -> march ins t = [].
Proof.
  destruct t as [[[a b] c] d]. cbn [tet_nth]. intros H1 H2 H3.
  unfold march, mask_of. cbn [tet_nth]. rewrite H1, H2, H3.
  destruct (ins a); reflexivity.
Qed.

Lemma origin_subvs :
  forallb (fun A => forallb (fun v => existsb (pt_eqb v) (subvs A O3)) (gverts (A, O3))) [1; 2; 4] = true.
Proof. vm_compute. reflexivity. Qed.

(* the tets of a lattice edge only use its 11 subspace vertices *)
Lemma gverts_subvs A p v : is_axis A = true -> In v (gverts (A, p)) -> In v (subvs A p).
Proof.
  intros HA Hv. rewrite <- (padd_O3 p) in Hv |- *. rewrite gverts_shift in Hv by exact HA.
  rewrite subvs_shift by exact HA.
  apply in_map_iff in Hv. destruct Hv as [v0 [<- Hv0]]. apply in_map.
  pose proof origin_subvs as H. rewrite forallb_forall in H.
  specialize (H A (proj1 (is_axis_In A) HA)). rewrite forallb_forall in H.
  specialize (H v0 Hv0). apply existsb_exists in H. destruct H as [w [Hw E]].
  apply pt_eqb_eq in E. subst. exact Hw.
Qed.

(* the early return of load<A>: if the 11 subspace vertices have one sign, nothing is emitted *)
Theorem skipped_load_emits_nothing n ins A p b :
  is_axis A = true -> (forall v, In v (subvs A p) -> ins (enc n v) = b) ->
  mesh ins (simplex_tets n A p) = [].
Proof.
  intros HA Hb. unfold mesh, simplex_tets.
  assert (H : forall t, In t (map (enc_tet n) (simplex_gtets A p)) -> march ins t = []).
  { intros t Ht. apply in_map_iff in Ht. destruct Ht as [g [<- Hg]].
    assert (Hv : forall v, In v (gtverts g) -> ins (enc n v) = b).
    { intros v Hv. apply Hb, gverts_subvs; [exact HA|]. exact (ltets_verts (A, p) g v Hg Hv). }
    destruct g as [[[a b'] c] d]. cbn [gtverts In] in Hv.
    apply skipped_tets_emit_nothing; cbn [enc_tet tet_nth]; rewrite !Hv by tauto; reflexivity. }
  induction (map (enc_tet n) (simplex_gtets A p)) as [|t l IH]; [reflexivity|].
  cbn [flat_map]. rewrite (H t (or_introl eq_refl)), IH; [reflexivity|].
  intros t' Ht'. apply H. right. exact Ht'.
Qed.

(* ------------------------------------------------------------------ *)
(* 11. non-vacuity, and the boundary hypothesis is needed              *)
(* ------------------------------------------------------------------ *)

(* the inside set is a finite list of doubled points *)
Definition ins_of (n : nat) (S : list pt3) : vid -> bool :=
  fun u => existsb (fun v => Nat.eqb u (enc n v)) S.

Theorem ins_of_clear n S :
  (forall v, In v S -> in_box n v /\ ~ near_bd n v) -> clear_boundary n (ins_of n S).
Proof.
  intros HS u Hu Hnu. unfold ins_of.
  destruct (existsb _ S) eqn:E; [exfalso|reflexivity].
  apply existsb_exists in E. destruct E as [v [Hv E]]. apply Nat.eqb_eq in E.
  destruct (HS v Hv) as [Hb Hn]. apply enc_inj in E; [|exact Hu|exact Hb]. subst. contradiction.
Qed.

(* one inside corner in the middle of the 2^3 box *)
Definition ex_corner : vid -> bool := ins_of 2 [(2, 2, 2)].
Lemma ex_corner_clear : clear_boundary 2 ex_corner.
Proof.
  apply ins_of_clear. intros v [<-|[]]. unfold in_box, near_bd. cbn. lia.
Qed.
Lemma ex_corner_size : length (simplex_mesh 2 ex_corner) = 48%nat.
Proof. vm_compute. reflexivity. Qed.
Theorem ex_corner_closed : closed_mesh (simplex_mesh 2 ex_corner).
Proof. apply simplex_grid_closed, ex_corner_clear. Qed.
Theorem ex_corner_manifold : manifold_mesh (simplex_mesh 2 ex_corner).
Proof. apply simplex_grid_manifold, ex_corner_clear. Qed.

(* one inside cell vertex in the middle of the 3^3 box *)
Definition ex_cell : vid -> bool := ins_of 3 [(3, 3, 3)].
Lemma ex_cell_clear : clear_boundary 3 ex_cell.
Proof.
  apply ins_of_clear. intros v [<-|[]]. unfold in_box, near_bd. cbn. lia.
Qed.
Lemma ex_cell_size : length (simplex_mesh 3 ex_cell) = 48%nat.
Proof. vm_compute. reflexivity. Qed.
Theorem ex_cell_closed : closed_mesh (simplex_mesh 3 ex_cell).
Proof. apply simplex_grid_closed, ex_cell_clear. Qed.
Theorem ex_cell_manifold : manifold_mesh (simplex_mesh 3 ex_cell).
Proof. apply simplex_grid_manifold, ex_cell_clear. Qed.

(* a cell vertex, one of its face vertices and one of that face's edge vertices (two-triangle
   patches occur) *)
Definition ex_chain : vid -> bool := ins_of 3 [(3, 3, 3); (2, 3, 3); (2, 2, 3)].
Lemma ex_chain_clear : clear_boundary 3 ex_chain.
Proof.
  apply ins_of_clear. intros v [<-|[<-|[<-|[]]]]; unfold in_box, near_bd; cbn; lia.
Qed.
Lemma ex_chain_size : length (simplex_mesh 3 ex_chain) = 76%nat.
Proof. vm_compute. reflexivity. Qed.
Theorem ex_chain_closed : closed_mesh (simplex_mesh 3 ex_chain).
Proof. apply simplex_grid_closed, ex_chain_clear. Qed.

(* the boundary hypothesis cannot simply be dropped: the lattice edges lying in the boundary of
   the box are not in [all_edges], so a corner on the boundary has an open fan of tets *)
Theorem boundary_needed : ~ closed_mesh (simplex_mesh 2 (ins_of 2 [(0, 2, 2)])).
Proof.
  intros H. specialize (H ((56, 60), (31, 60))%nat). vm_compute in H. discriminate H.
Qed.
Corollary boundary_needed_complex :
  ~ complex_closed (ins_of 2 [(0, 2, 2)]) (simplex_complex 2 (all_edges 2)).
Proof. intros H. exact (boundary_needed (march_closed _ _ H)). Qed.
