From Coq Require Import List ZArith Bool Lia Arith.
From LF Require Import Gen.MarchTables_gen Gen.ManifoldTables_gen Render.DCGrid Render.DCGridSem
                       Render.OctTree Render.OctTreeGeom Render.OctTreeNet Render.OctTreeFace Render.OctTreeSem
                       Render.OctTreeSepDefs.
Import ListNotations.
Local Open Scope Z_scope.

(* ------------------------------------------------------------------------- *)
(** * B1. Bridge: a placed leaf around a lattice edge fits it *)

Lemma around3_fits ins A cn a s k : oaxis A -> quadrant A cn ->
  oconsistent ins (c_t a) (c_o a) (c_k a) -> o_is_branch (c_t a) = false ->
  around3 A cn a s k -> fits ins A cn (c_t a) (c_o a) (c_k a) s k.
Proof.
  destruct a as [t p o ka]. cbn [c_t c_o c_k c_p]. intros HA Hcn C NB [Hk Hin].
  unfold cube_in in Hin. cbn [c_o c_k] in Hin, Hk.
  pose proof (osize_le k ka Hk) as Hle. pose proof (osize_pos k) as Hp.
  destruct o as [[ox oy] oz], s as [[sx sy] sz]. unfold fits.
  split; [exact C|]. split; [exact Hk|]. split; [congruence|].
  revert Hin. unfold qcube, hasq, hasr.
  axis_quadrant HA Hcn; cbn [Z.eqb Pos.eqb orb]; osteps; unfold box_in; intros Hin;
    (split; [apply in_closed3_xyz; lia|]); (split; [apply in_closed3_xyz; lia|]);
    intros E; subst ka; corner_pts; pt3eq.
Qed.

Lemma around3_Fits ins A cn a s k : oaxis A -> quadrant A cn ->
  oconsistent ins (c_t a) (c_o a) (c_k a) -> o_is_branch (c_t a) = false ->
  around3 A cn a s k ->
  Fits ins A cn (c_cell a) s k /\ (c_k a = k -> FitsE ins A cn (c_cell a) s k).
Proof.
  intros HA Hcn C NB Ar. pose proof (around3_fits ins A cn a s k HA Hcn C NB Ar) as F.
  split.
  - exists (c_o a), (c_k a). exact F.
  - intros E. exists (c_o a). unfold c_cell. cbn [fst]. rewrite E in F. exact F.
Qed.

(* a consistent non-branching placed cell, as delivered by [oleaves_inside] *)
Definition leaf_ok (ins : pt3 -> bool) (x : pcell3) : Prop :=
  oconsistent ins (c_t x) (c_o x) (c_k x) /\ o_is_branch (c_t x) = false.

Lemma quadrant_QR A : quadrant A (Qax A + Rax A).
Proof. unfold quadrant. right; right; right. reflexivity. Qed.
Lemma quadrant_R A : quadrant A (Rax A).
Proof. unfold quadrant. right; right; left. reflexivity. Qed.
Lemma quadrant_Q A : quadrant A (Qax A).
Proof. unfold quadrant. right; left. reflexivity. Qed.
Lemma quadrant_0 A : quadrant A 0.
Proof. unfold quadrant. left. reflexivity. Qed.

Lemma min_edge3_Fits ins A a b c d s k : oaxis A ->
  leaf_ok ins a -> leaf_ok ins b -> leaf_ok ins c -> leaf_ok ins d ->
  min_edge3 A a b c d s k ->
  Fits ins A (Qax A + Rax A) (c_cell a) s k /\ Fits ins A (Rax A) (c_cell b) s k /\
  Fits ins A (Qax A) (c_cell c) s k /\ Fits ins A 0 (c_cell d) s k /\
  (FitsE ins A (Qax A + Rax A) (c_cell a) s k \/ FitsE ins A (Rax A) (c_cell b) s k \/
   FitsE ins A (Qax A) (c_cell c) s k \/ FitsE ins A 0 (c_cell d) s k).
Proof.
  intros HA [Ca Ba] [Cb Bb] [Cc Bc] [Cd Bd] [Aa [Ab [Ac [Ad Hm]]]].
  destruct (around3_Fits ins A _ a s k HA (quadrant_QR A) Ca Ba Aa) as [Fa Ea].
  destruct (around3_Fits ins A _ b s k HA (quadrant_R A) Cb Bb Ab) as [Fb Eb].
  destruct (around3_Fits ins A _ c s k HA (quadrant_Q A) Cc Bc Ac) as [Fc Ec].
  destruct (around3_Fits ins A _ d s k HA (quadrant_0 A) Cd Bd Ad) as [Fd Ed].
  split; [exact Fa|]. split; [exact Fb|]. split; [exact Fc|]. split; [exact Fd|].
  destruct Hm as [H|[H|[H|H]]].
  - left. exact (Ea H).
  - right; left. exact (Eb H).
  - right; right; left. exact (Ec H).
  - right; right; right. exact (Ed H).
Qed.

(* ------------------------------------------------------------------------- *)
(** * B2. Sign changes of the lattice edge decide whether load3 emits *)

Definition crosses3 (ins : pt3 -> bool) (A : Z) (s : pt3) (k : nat) : bool :=
  negb (Bool.eqb (ins s) (ins (ostep A s (osize k)))).

(* no hypotheses: load<A> returns at once unless all four cells are ambiguous leaves *)
Lemma load3_nil_nonambig diag A (t0 t1 t2 t3 : ocell) :
  o_is_ambig (fst t0) = false \/ o_is_ambig (fst t1) = false \/
  o_is_ambig (fst t2) = false \/ o_is_ambig (fst t3) = false ->
  load3 diag A t0 t1 t2 t3 = [].
Proof.
  intros H. unfold load3. cbv zeta. cbn [forallb].
  destruct H as [H|[H|[H|H]]]; rewrite H; rewrite ?andb_false_r; reflexivity.
Qed.

Lemma min_edge3_ambig ins A a b c d s k : oaxis A ->
  leaf_ok ins a -> leaf_ok ins b -> leaf_ok ins c -> leaf_ok ins d ->
  min_edge3 A a b c d s k -> crosses3 ins A s k = true ->
  o_is_ambig (c_t a) = true /\ o_is_ambig (c_t b) = true /\
  o_is_ambig (c_t c) = true /\ o_is_ambig (c_t d) = true.
Proof.
  intros HA La Lb Lc Ld ME X.
  destruct (min_edge3_Fits ins A a b c d s k HA La Lb Lc Ld ME) as [Fa [Fb [Fc [Fd _]]]].
  destruct La as [_ Ba], Lb as [_ Bb], Lc as [_ Bc], Ld as [_ Bd].
  unfold crosses3 in X. apply negb_true_iff in X. apply eqb_false_iff in X.
  assert (K : forall cn x, Fits ins A cn (c_cell x) s k -> o_is_branch (c_t x) = false ->
                           o_is_ambig (c_t x) = true).
  { intros cn x F NB. destruct (o_is_ambig (c_t x)) eqn:E; [reflexivity|]. exfalso. apply X.
    apply (Fits_nonambig_same ins A cn (c_cell x) s k F); unfold c_cell; cbn [fst]; assumption. }
  split; [exact (K _ a Fa Ba)|]. split; [exact (K _ b Fb Bb)|].
  split; [exact (K _ c Fc Bc)|exact (K _ d Fd Bd)].
Qed.

(* ------------------------------------------------------------------------- *)
(** * B3. What load3 emits around a sign-changing minimal edge; orientation *)

(* the vertex that the cell x (n-th argument of load3) contributes: [v] of load3 *)
Definition vtx3 (D : bool) (A : Z) (x : pcell3) (n : nat) : overtex :=
  let q := Qax A in let r := Rax A in
  let ev := [(q + r, q + r + A); (r, r + A); (q, q + A); (0, A)] in
  let es := map (fun fs : Z * Z => if D then e3 (fst fs) (snd fs) else e3 (snd fs) (fst fs)) ev in
  (c_p x, if Nat.ltb 0 (leaf_level (c_t x)) then 0 else p3 (leaf_mask (c_t x)) (nth n es (-1))).

(* the two triangles of the quad; D (the sign at the low end of the edge) decides the winding *)
Definition quad3 (diag : overtex -> overtex -> overtex -> overtex -> bool) (D : bool)
                 (va vb vc vd : overtex) : list otri :=
  let '(w1, w2) := if D then (vb, vc) else (vc, vb) in
  if diag va w1 w2 vd then push_tri va w1 w2 ++ push_tri w2 w1 vd
  else push_tri va w1 vd ++ push_tri va vd w2.

Lemma load3_cases ins diag A a b c d s k : oaxis A ->
  leaf_ok ins a -> leaf_ok ins b -> leaf_ok ins c -> leaf_ok ins d ->
  min_edge3 A a b c d s k ->
  load3 diag A (c_cell a) (c_cell b) (c_cell c) (c_cell d) =
  if crosses3 ins A s k
  then quad3 diag (ins s) (vtx3 (ins s) A a 0) (vtx3 (ins s) A b 1) (vtx3 (ins s) A c 2) (vtx3 (ins s) A d 3)
  else [].
Proof.
  intros HA La Lb Lc Ld ME.
  destruct (min_edge3_Fits ins A a b c d s k HA La Lb Lc Ld ME) as [Fa [Fb [Fc [Fd Hex]]]].
  pose proof (min_edge3_ambig ins A a b c d s k HA La Lb Lc Ld ME) as Amb.
  destruct La as [_ Ba], Lb as [_ Bb], Lc as [_ Bc], Ld as [_ Bd].
  unfold load3. cbv zeta.
  match goal with |- context [negb (forallb ?f ?l)] => set (fa := forallb f l) end.
  assert (EA : fa = forallb (fun x : ocell => o_is_ambig (fst x)) [c_cell a; c_cell b; c_cell c; c_cell d])
    by reflexivity.
  destruct fa.
  - cbn [negb]. symmetry in EA. cbn [forallb] in EA. rewrite !andb_true_iff in EA.
    destruct EA as [A0 [A1 [A2 [A3 _]]]].
    destruct (load3_signs ins A s k (c_cell a) (c_cell b) (c_cell c) (c_cell d) HA Fa Fb Fc Fd Hex
                Ba Bb Bc Bd A0 A1 A2 A3) as [Ea Eb].
    cbv zeta in Ea, Eb. rewrite Ea, Eb. unfold crosses3.
    destruct (Bool.eqb (ins s) (ins (ostep A s (osize k)))); cbn [negb]; reflexivity.
  - cbn [negb]. destruct (crosses3 ins A s k) eqn:X; [|reflexivity]. exfalso.
    destruct (Amb eq_refl) as [A0 [A1 [A2 A3]]]. symmetry in EA. cbn [forallb] in EA.
    unfold c_cell in EA. cbn [fst] in EA. rewrite A0, A1, A2, A3 in EA. discriminate.
Qed.

Theorem load3_nil_iff ins diag A a b c d s k : oaxis A ->
  leaf_ok ins a -> leaf_ok ins b -> leaf_ok ins c -> leaf_ok ins d ->
  min_edge3 A a b c d s k ->
  crosses3 ins A s k = false \/ o_is_ambig (c_t a) = false \/ o_is_ambig (c_t b) = false \/
  o_is_ambig (c_t c) = false \/ o_is_ambig (c_t d) = false ->
  load3 diag A (c_cell a) (c_cell b) (c_cell c) (c_cell d) = [].
Proof.
  intros HA La Lb Lc Ld ME [X|NA].
  - rewrite (load3_cases ins diag A a b c d s k HA La Lb Lc Ld ME), X. reflexivity.
  - apply load3_nil_nonambig. unfold c_cell. cbn [fst]. exact NA.
Qed.

Theorem load3_spec3 ins diag A a b c d s k : oaxis A ->
  leaf_ok ins a -> leaf_ok ins b -> leaf_ok ins c -> leaf_ok ins d ->
  min_edge3 A a b c d s k -> crosses3 ins A s k = true ->
  let D := ins s in
  let va := vtx3 D A a 0 in let vb := vtx3 D A b 1 in let vc := vtx3 D A c 2 in let vd := vtx3 D A d 3 in
  load3 diag A (c_cell a) (c_cell b) (c_cell c) (c_cell d) =
  let '(w1, w2) := if D then (vb, vc) else (vc, vb) in
  if diag va w1 w2 vd then push_tri va w1 w2 ++ push_tri w2 w1 vd
  else push_tri va w1 vd ++ push_tri va vd w2.
Proof.
  intros HA La Lb Lc Ld ME X. cbv zeta.
  rewrite (load3_cases ins diag A a b c d s k HA La Lb Lc Ld ME), X. reflexivity.
Qed.

(* vertices of cells with different paths are different *)
Lemma push_tri_paths p q r i j l : p <> q -> q <> r -> p <> r ->
  push_tri (p, i) (q, j) (r, l) = [((p, i), (q, j), (r, l))].
Proof.
  intros H1 H2 H3. unfold push_tri.
  assert (K : forall u v (x y : Z), u <> v -> overtex_eqb (u, x) (v, y) = false).
  { intros u v x y H. destruct (overtex_eqb (u, x) (v, y)) eqn:E; [|reflexivity].
    apply overtex_eqb_eq in E. inversion E. contradiction. }
  rewrite (K _ _ _ _ H1), (K _ _ _ _ H2), (K _ _ _ _ H3). reflexivity.
Qed.

(* four different leaves: exactly two triangles, wound according to D = ins s *)
Theorem load3_oriented ins diag A a b c d s k : oaxis A ->
  leaf_ok ins a -> leaf_ok ins b -> leaf_ok ins c -> leaf_ok ins d ->
  min_edge3 A a b c d s k -> crosses3 ins A s k = true ->
  c_p a <> c_p b -> c_p a <> c_p c -> c_p a <> c_p d ->
  c_p b <> c_p c -> c_p b <> c_p d -> c_p c <> c_p d ->
  let D := ins s in
  let va := vtx3 D A a 0 in let vb := vtx3 D A b 1 in let vc := vtx3 D A c 2 in let vd := vtx3 D A d 3 in
  load3 diag A (c_cell a) (c_cell b) (c_cell c) (c_cell d) =
  let '(w1, w2) := if D then (vb, vc) else (vc, vb) in
  if diag va w1 w2 vd then [(va, w1, w2); (w2, w1, vd)] else [(va, w1, vd); (va, vd, w2)].
Proof.
  intros HA La Lb Lc Ld ME X Nab Nac Nad Nbc Nbd Ncd. cbv zeta.
  rewrite (load3_spec3 ins diag A a b c d s k HA La Lb Lc Ld ME X). cbv zeta.
  unfold vtx3. cbv zeta.
  destruct (ins s); destruct (diag _ _ _ _); rewrite !push_tri_paths; try reflexivity;
    first [assumption | apply not_eq_sym; assumption].
Qed.

Lemma push_tri_paths_ne p q r i j l : p <> q -> q <> r -> p <> r -> push_tri (p, i) (q, j) (r, l) <> [].
Proof. intros H1 H2 H3. rewrite push_tri_paths by assumption. discriminate. Qed.

Lemma app_ne_l {T} (x y : list T) : x <> [] -> x ++ y <> [].
Proof. intros H E. apply app_eq_nil in E. destruct E as [E _]. contradiction. Qed.
Lemma app_ne_r {T} (x y : list T) : y <> [] -> x ++ y <> [].
Proof. intros H E. apply app_eq_nil in E. destruct E as [_ E]. contradiction. Qed.

Lemma opath_dec (p q : opath) : p = q \/ p <> q.
Proof.
  destruct (opath_eqb p q) eqn:E.
  - left. apply opath_eqb_eq. exact E.
  - right. intros H. apply opath_eqb_eq in H. congruence.
Qed.

(* the paths of the four cells around the edge: both diagonals join different leaves and at most
   one pair of neighbours is the same (larger) leaf, i.e. three of the four are pairwise different *)
Definition distinct3 (a b c d : pcell3) : Prop :=
  c_p a <> c_p d /\ c_p b <> c_p c /\
  ((c_p a <> c_p b /\ c_p a <> c_p c) \/ (c_p d <> c_p b /\ c_p d <> c_p c) \/
   (c_p b <> c_p a /\ c_p b <> c_p d) \/ (c_p c <> c_p a /\ c_p c <> c_p d)).

Lemma quad3_nonempty diag D A a b c d : distinct3 a b c d ->
  quad3 diag D (vtx3 D A a 0) (vtx3 D A b 1) (vtx3 D A c 2) (vtx3 D A d 3) <> [].
Proof.
  intros [Nad [Nbc H3]]. unfold quad3, vtx3. cbv zeta.
  destruct (opath_dec (c_p a) (c_p b)) as [Eab|Nab]; destruct (opath_dec (c_p a) (c_p c)) as [Eac|Nac];
  destruct (opath_dec (c_p d) (c_p b)) as [Edb|Ndb]; destruct (opath_dec (c_p d) (c_p c)) as [Edc|Ndc];
    try (exfalso; congruence);
    try (exfalso; destruct H3 as [[? ?]|[[? ?]|[[? ?]|[? ?]]]]; congruence);
    destruct D; destruct (diag _ _ _ _);
    first [ apply app_ne_l; apply push_tri_paths_ne; congruence
          | apply app_ne_r; apply push_tri_paths_ne; congruence ].
Qed.

(* a sign-changing minimal edge whose surrounding leaves satisfy [distinct3] gets at least one triangle *)
Theorem load3_nonempty ins diag A a b c d s k : oaxis A ->
  leaf_ok ins a -> leaf_ok ins b -> leaf_ok ins c -> leaf_ok ins d ->
  min_edge3 A a b c d s k -> crosses3 ins A s k = true -> distinct3 a b c d ->
  load3 diag A (c_cell a) (c_cell b) (c_cell c) (c_cell d) <> [].
Proof.
  intros HA La Lb Lc Ld ME X Dis.
  rewrite (load3_cases ins diag A a b c d s k HA La Lb Lc Ld ME), X. apply quad3_nonempty. exact Dis.
Qed.

(* under [distinct3]: triangles are emitted exactly for the sign-changing minimal edges *)
Theorem load3_emits_iff ins diag A a b c d s k : oaxis A ->
  leaf_ok ins a -> leaf_ok ins b -> leaf_ok ins c -> leaf_ok ins d ->
  min_edge3 A a b c d s k -> distinct3 a b c d ->
  (load3 diag A (c_cell a) (c_cell b) (c_cell c) (c_cell d) <> [] <-> crosses3 ins A s k = true).
Proof.
  intros HA La Lb Lc Ld ME Dis. split.
  - intros NE. destruct (crosses3 ins A s k) eqn:X; [reflexivity|]. exfalso. apply NE.
    apply (load3_nil_iff ins diag A a b c d s k HA La Lb Lc Ld ME). left. exact X.
  - intros X. exact (load3_nonempty ins diag A a b c d s k HA La Lb Lc Ld ME X Dis).
Qed.

(* ------------------------------------------------------------------------- *)
(** * B4. Crossing parity along paths of minimal edges *)

(* one step along a minimal edge between four leaves, in either direction *)
Record step3 := ST3 { s3_A : Z; s3_a : pcell3; s3_b : pcell3; s3_c : pcell3; s3_d : pcell3;
                      s3_s : pt3; s3_k : nat; s3_fwd : bool }.
Definition s3_hi (e : step3) : pt3 := ostep (s3_A e) (s3_s e) (osize (s3_k e)).
Definition s3_from (e : step3) : pt3 := if s3_fwd e then s3_s e else s3_hi e.
Definition s3_to (e : step3) : pt3 := if s3_fwd e then s3_hi e else s3_s e.
Fixpoint joins3 (p : pt3) (l : list step3) (q : pt3) : Prop :=
  match l with
  | [] => p = q
  | e :: r => s3_from e = p /\ joins3 (s3_to e) r q
  end.
Definition s3_crosses (ins : pt3 -> bool) (e : step3) : bool := crosses3 ins (s3_A e) (s3_s e) (s3_k e).
(* the sign-changing edges of the path *)
Definition crossing3 (ins : pt3 -> bool) (l : list step3) : list step3 := filter (s3_crosses ins) l.

(* pure boolean induction: no hypothesis on the steps *)
Theorem crossing_parity3 ins : forall l p q, joins3 p l q ->
  Nat.odd (length (crossing3 ins l)) = xorb (ins p) (ins q).
Proof.
  induction l as [|e r IH]; intros p q Hj.
  - cbn [joins3] in Hj. subst q. cbn. rewrite xorb_nilpotent. reflexivity.
  - cbn [joins3] in Hj. destruct Hj as [Hp Hj]. specialize (IH _ _ Hj).
    unfold crossing3 in *. cbn [filter]. subst p.
    set (n := length (filter (s3_crosses ins) r)) in *.
    assert (L : length (if s3_crosses ins e then e :: filter (s3_crosses ins) r else filter (s3_crosses ins) r)
                = if s3_crosses ins e then S n else n) by (destruct (s3_crosses ins e); reflexivity).
    rewrite L. clear L. unfold s3_crosses, crosses3, s3_from, s3_to, s3_hi in *.
    destruct (s3_fwd e), (ins (s3_s e)), (ins (ostep (s3_A e) (s3_s e) (osize (s3_k e)))), (ins q);
      cbn [Bool.eqb negb xorb] in *; rewrite ?Nat.odd_succ, <- ?Nat.negb_odd, ?IH; reflexivity.
Qed.

(* a step along a minimal edge between consistent leaves *)
Definition step3_ok (ins : pt3 -> bool) (e : step3) : Prop :=
  oaxis (s3_A e) /\ leaf_ok ins (s3_a e) /\ leaf_ok ins (s3_b e) /\ leaf_ok ins (s3_c e) /\ leaf_ok ins (s3_d e) /\
  min_edge3 (s3_A e) (s3_a e) (s3_b e) (s3_c e) (s3_d e) (s3_s e) (s3_k e).
Definition s3_distinct (e : step3) : Prop := distinct3 (s3_a e) (s3_b e) (s3_c e) (s3_d e).
Definition s3_load diag (e : step3) : list otri :=
  load3 diag (s3_A e) (c_cell (s3_a e)) (c_cell (s3_b e)) (c_cell (s3_c e)) (c_cell (s3_d e)).

(* an edge of the path is counted iff its load3 call emits *)
Theorem step3_counted_iff ins diag e : step3_ok ins e -> s3_distinct e ->
  (s3_load diag e <> [] <-> s3_crosses ins e = true).
Proof.
  intros [HA [La [Lb [Lc [Ld ME]]]]] Dis.
  exact (load3_emits_iff ins diag _ _ _ _ _ _ _ HA La Lb Lc Ld ME Dis).
Qed.

(* the steps whose load3 call emits triangles (boolean test on the output) *)
Definition emitting3 diag (l : list step3) : list step3 :=
  filter (fun e => match s3_load diag e with [] => false | _ => true end) l.

Lemma emitting3_crossing3 ins diag : forall l,
  Forall (step3_ok ins) l -> Forall s3_distinct l -> emitting3 diag l = crossing3 ins l.
Proof.
  induction l as [|e r IH]; intros Hok Hd; [reflexivity|].
  inversion Hok as [|e' r' He Hr]; subst e' r'. inversion Hd as [|e' r' De Dr]; subst e' r'.
  unfold emitting3, crossing3 in *. cbn [filter]. rewrite (IH Hr Dr).
  pose proof (step3_counted_iff ins diag e He De) as [K1 K2].
  destruct (s3_crosses ins e) eqn:X.
  - destruct (s3_load diag e) eqn:L; [|reflexivity]. exfalso. exact (K2 eq_refl eq_refl).
  - destruct (s3_load diag e) eqn:L; [reflexivity|]. exfalso.
    assert (H : @nil otri = [] -> False) by (intros _; discriminate (K1 ltac:(discriminate))).
    exact (H eq_refl).
Qed.

(** the number of edges of the path for which load3 emits triangles is odd iff the ends of the path
    have different signs *)
Theorem adaptive_surface_separates3 ins diag : forall l p q,
  Forall (step3_ok ins) l -> Forall s3_distinct l -> joins3 p l q ->
  Nat.odd (length (emitting3 diag l)) = xorb (ins p) (ins q).
Proof.
  intros l p q Hok Hd Hj. rewrite (emitting3_crossing3 ins diag l Hok Hd). apply crossing_parity3. exact Hj.
Qed.

Corollary inside_outside_crosses3 ins diag : forall l p q,
  Forall (step3_ok ins) l -> Forall s3_distinct l -> joins3 p l q -> ins p <> ins q ->
  exists e tr, In e l /\ s3_crosses ins e = true /\ In tr (s3_load diag e).
Proof.
  intros l p q Hok Hd Hj Hne. pose proof (adaptive_surface_separates3 ins diag l p q Hok Hd Hj) as H.
  destruct (emitting3 diag l) as [|e r] eqn:E.
  - cbn in H. destruct (ins p), (ins q); try discriminate; congruence.
  - assert (I : In e (emitting3 diag l)) by (rewrite E; left; reflexivity).
    unfold emitting3 in I. apply filter_In in I. destruct I as [I1 I2].
    rewrite Forall_forall in Hok, Hd.
    destruct (s3_load diag e) as [|tr rest] eqn:L; [discriminate|].
    exists e, tr. split; [exact I1|]. split; [|rewrite L; left; reflexivity].
    apply (step3_counted_iff ins diag e (Hok e I1) (Hd e I1)). rewrite L. discriminate.
Qed.

(* ------------------------------------------------------------------------- *)
Print Assumptions around3_Fits.
Print Assumptions min_edge3_ambig.
Print Assumptions load3_nil_iff.
Print Assumptions load3_spec3.
Print Assumptions load3_oriented.
Print Assumptions load3_nonempty.
Print Assumptions load3_emits_iff.
Print Assumptions crossing_parity3.
Print Assumptions adaptive_surface_separates3.
Print Assumptions inside_outside_crosses3.
