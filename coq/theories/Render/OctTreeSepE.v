(* C04 (adaptive octrees): face3_complete for every normal axis N and edge axis A = Qax N or Rax N
   (the six literal cases are OctTreeSepD1.v, D2.v, D3.v; statement face3_stmt in OctTreeSepD.v).
   NOT PROVED: call_face3_complete / walk3_complete (the 3 x 3 position cases of a minimal edge against the centre
   of a branch: both central -> call_edge3_complete (OctTreeSepA.v); one central -> call_face3 -> face3_complete
   (the quarter of the central plane containing the edge; hosts are two children, exact, pffits3 by ffits_intro);
   none -> the child, by leaf_in_child') and hence the full adaptive_sign_changes_give_triangles /
   adaptive_mesh_separates. *)
From Coq Require Import List ZArith Bool Lia Arith.
From LF Require Import Render.DCGrid Render.OctTree Render.OctTreeGeom Render.OctTreeNet Render.OctTreeFace Render.OctTreeSem
                       Render.OctTreeSepDefs Render.OctTreeSepA Render.OctTreeSepB Render.OctTreeSepC Render.OctTreeSepD
                       Render.OctTreeSepD1 Render.OctTreeSepD2 Render.OctTreeSepD3.
Import ListNotations.
Local Open Scope Z_scope.

(** face3 is complete: called on the two placed cells c0 (below) and c1 (above) of the square face (sf, k0) of
    normal N, it reaches the load3 call of every quadruple of leaves (a and one of b, c below c0; d and the
    other below c1) around a minimal edge (s, k) of axis A = Qax N or Rax N lying in the face, inside along A
    and strictly inside across.  No sign information is used. *)
Theorem face3_complete ins diag N A : oaxis N -> (A = Qax N \/ A = Rax N) ->
  forall f c0 c1 sf k0 a b c d s k,
  pffits3 ins N false c0 sf k0 -> pffits3 ins N true c1 sf k0 ->
  (oheight (c_t c0) < f)%nat -> (oheight (c_t c1) < f)%nat ->
  In a (pleaves3 c0) -> In d (pleaves3 c1) ->
  In b (pleaves3 (if A =? Qax N then c0 else c1)) -> In c (pleaves3 (if A =? Qax N then c1 else c0)) ->
  min_edge3 A a b c d s k -> inface N sf k0 A s k ->
  incl (load3 diag A (c_cell a) (c_cell b) (c_cell c) (c_cell d)) (face3 diag f N (c_cell c0) (c_cell c1)).
Proof.
  intros HN HA. change (face3_stmt ins diag N A).
  destruct HN as [-> | [-> | ->]]; destruct HA as [-> | ->]; cbn [Qax Rax Z.eqb Pos.eqb].
  - exact (face3_complete_12 ins diag).
  - exact (face3_complete_14 ins diag).
  - exact (face3_complete_24 ins diag).
  - exact (face3_complete_21 ins diag).
  - exact (face3_complete_41 ins diag).
  - exact (face3_complete_42 ins diag).
Qed.

Print Assumptions face3_complete.
