(* Semantics of the progress / tick-accounting model (Render/Progress.v).
   Every statement asked for holds as written against the model; the only "refuted" items are
   the three that were requested as refutations (old code / dropped hypothesis).

   BUILD PHASE
     announced_total            the loop of build()/run() computes T(L) = |full 2^N-ary tree of depth L|
     cell_ind'                  induction on [cell] with a Forall hypothesis on the children
     build_ticks_total          every well-formed pruned/collapsed/ambiguous shape is credited exactly T(L)
     build_events               one list entry per tick call;  build_events_sum: they add up to build_ticks
     build_schedule_total       under ANY permutation of the tick calls the counter ends exactly at T(L)
     build_schedule_no_overshoot  ... and no prefix of any schedule exceeds T(L)
     arrivals_one_last          k arrivals on a counter initialised to k-1: exactly one reports "last"
     arrivals_last_true / arrivals_earlier_false   it is the final one; all earlier flags are false
     arrivals_none              k <= p: k arrivals on a counter at p never report "last"
   WALK PHASE
     walk_ticks_live            the walk ticks exactly [live root] times on a well-formed final tree
     walk_all_singletons_refuted (N = 1), walk_all_singletons_refuted3 (N = 3)
                                without [count_sing kids < 2^N] a branch of 2^N singletons has
                                live = 1 but is never ticked (walk_ticks = 0)
   RESET PHASE   (all need 0 < w: with w = 0 the stride loop does not advance)
     worker_blocks_sound        In j (worker_blocks i w n) -> j < n /\ j mod w = i mod w
     worker_blocks_sound_lt     for i < w:  j < n /\ j mod w = i
     worker_blocks_complete     j < n -> In j (worker_blocks (j mod w) w n)
     worker_blocks_unique       a block is in the list of at most one worker i < w
     worker_blocks_NoDup        no worker frees a block twice
     worker_blocks_perm         the workers' lists concatenated are a permutation of 0 .. n-1
     worker_blocks_partition    the lengths add up to n
     pool_ticks_blocks          one pool, w > 0 requested workers: na + nf ticks
     pool_ticks_no_workers      pool_ticks 0 na nf = 0 (nothing is freed)
     reset_ticks_blocks         the repaired nested reset ticks num_blocks times
     reset_ticks_old_refuted    old code, pools [(0,0);(0,1)], w = 8: 0 ticks for 1 block
     reset_ticks_old_nonempty   (extra) the old code was right when no pool is empty
   REPORTED VALUE
     reported_range             counters <= totals  ->  0 <= reported <= 1
     reported_mono_counter      advancing counters (Forall2 advances) never lowers the value
     reported_mono_phase        reported ps cur <= reported ps (S cur), unconditionally
     reported_complete          all phases complete, totals <> 0, weight <> 0: the last value == 1
   FINISH PROTOCOL
     finish_idempotent, finish_twice_safe (and finish_twice_safe' without the future hypothesis),
     finish_never_started, finish_stops_thread, finish_twice_new_ok,
     finish_twice_old_refuted   the old finish() (wait(), future stays valid) unlocks twice *)
From Coq Require Import List Arith Lia Bool QArith Permutation.
From LF Require Import Render.Progress.
Import ListNotations.
Local Open Scope nat_scope.

(* ====================================================================== *)
(* generic helpers                                                         *)
(* ====================================================================== *)

Lemma sum_app : forall a b, sum (a ++ b) = sum a + sum b.
Proof. induction a; simpl; intros; [reflexivity | rewrite IHa; lia]. Qed.

Lemma sum_map_const : forall (A : Type) (f : A -> nat) (k : nat) (l : list A),
  (forall x, In x l -> f x = k) -> sum (map f l) = length l * k.
Proof.
  induction l as [|a l IH]; simpl; intros H; [reflexivity|].
  rewrite (H a) by auto. rewrite IH by auto. reflexivity.
Qed.

Lemma sum_perm : forall a b, Permutation a b -> sum a = sum b.
Proof. induction 1; simpl; lia. Qed.

Lemma sum_firstn_le : forall k l, sum (firstn k l) <= sum l.
Proof.
  induction k; destruct l; simpl; try lia. specialize (IHk l). lia.
Qed.

Lemma sum_map_add : forall (A : Type) (f g : A -> nat) (l : list A),
  sum (map (fun x => f x + g x) l) = sum (map f l) + sum (map g l).
Proof. induction l; simpl; lia. Qed.

Lemma length_flat_map : forall (A B : Type) (f : A -> list B) (l : list A),
  length (flat_map f l) = sum (map (fun x => length (f x)) l).
Proof. induction l; simpl; [reflexivity|]. rewrite app_length, IHl. reflexivity. Qed.

(* ====================================================================== *)
(* BUILD PHASE                                                             *)
(* ====================================================================== *)

Theorem announced_total : forall N L, announced N L = total_ticks N L.
Proof.
  unfold announced. induction L; simpl; [reflexivity|].
  rewrite <- IHL. lia.
Qed.

(* the [fix all] of wf_cell, as a Forall *)
Definition all_wf (N L : nat) : list cell -> Prop :=
  fix all (l : list cell) : Prop :=
    match l with [] => True | k :: r => wf_cell N L k /\ all r end.

Lemma all_wf_Forall : forall N L l, all_wf N L l <-> Forall (wf_cell N L) l.
Proof.
  induction l; simpl; split; intros; auto.
  - destruct H; constructor; tauto.
  - inversion H; subst; tauto.
Qed.

Lemma wf_cell_amb : forall N L kids,
  wf_cell N L (CAmb kids) <->
  0 < L /\ length kids = 2 ^ N /\ Forall (wf_cell N (pred L)) kids.
Proof.
  intros. rewrite <- all_wf_Forall. simpl. tauto.
Qed.

(* induction principle with a Forall hypothesis on the children *)
Lemma cell_ind' : forall P : cell -> Prop,
  P CLeaf -> P CTerm ->
  (forall kids, Forall P kids -> P (CAmb kids)) ->
  forall c, P c.
Proof.
  intros P Hl Ht Ha. fix IH 1. destruct c as [| |kids].
  - exact Hl.
  - exact Ht.
  - apply Ha. induction kids as [|k r IHr]; constructor; [apply IH | exact IHr].
Qed.

Theorem build_ticks_total : forall N L c, wf_cell N L c -> build_ticks N L c = total_ticks N L.
Proof.
  intros N L c; revert L. induction c as [| |kids IH] using cell_ind'; intros L Hwf.
  - simpl in *. subst. reflexivity.
  - simpl. apply announced_total.
  - apply wf_cell_amb in Hwf. destruct Hwf as (HL & Hlen & Hall).
    destruct L as [|l]; [lia|]. simpl pred in *.
    change (build_ticks N (S l) (CAmb kids)) with (1 + sum (map (build_ticks N l) kids)).
    rewrite (sum_map_const _ _ (total_ticks N l)).
    + rewrite Hlen. reflexivity.
    + intros x Hx. rewrite Forall_forall in IH, Hall. apply IH; auto.
Qed.

(* one entry per tick call *)
Fixpoint build_events (N L : nat) (c : cell) : list nat :=
  match c with
  | CLeaf => [1]
  | CTerm => [announced N L]
  | CAmb kids => 1 :: flat_map (build_events N (pred L)) kids
  end.

Lemma sum_flat_map : forall (A : Type) (f : A -> list nat) (l : list A),
  sum (flat_map f l) = sum (map (fun x => sum (f x)) l).
Proof. induction l; simpl; [reflexivity|]. rewrite sum_app, IHl. reflexivity. Qed.

Theorem build_events_sum : forall N L c, sum (build_events N L c) = build_ticks N L c.
Proof.
  intros N L c; revert L. induction c as [| |kids IH] using cell_ind'; intros L.
  - reflexivity.
  - simpl. lia.
  - simpl. f_equal. rewrite sum_flat_map.
    induction IH as [|k r Hk Hr IHr]; simpl; [reflexivity|].
    rewrite Hk, IHr. reflexivity.
Qed.

Theorem build_schedule_total : forall N L c evs,
  wf_cell N L c -> Permutation (build_events N L c) evs ->
  sum evs = total_ticks N L.
Proof.
  intros N L c evs Hwf Hp.
  rewrite <- (sum_perm _ _ Hp), build_events_sum. apply build_ticks_total; assumption.
Qed.

Theorem build_schedule_no_overshoot : forall N L c evs k,
  wf_cell N L c -> Permutation (build_events N L c) evs ->
  sum (firstn k evs) <= total_ticks N L.
Proof.
  intros N L c evs k Hwf Hp.
  rewrite <- (build_schedule_total N L c evs Hwf Hp). apply sum_firstn_le.
Qed.

(* ---- arrivals ---- *)

Lemma arrivals_S : forall k p, arrivals (S k) p = Nat.eqb p 0 :: arrivals k (pred p).
Proof. reflexivity. Qed.

Theorem arrivals_none : forall k p, k <= p -> forall b, In b (arrivals k p) -> b = false.
Proof.
  induction k; intros p Hle b Hin; [inversion Hin|].
  rewrite arrivals_S in Hin. destruct Hin as [Hb|Hin].
  - subst b. apply Nat.eqb_neq. lia.
  - apply (IHk (pred p)); [lia | exact Hin].
Qed.

Lemma arrivals_shape : forall k, arrivals (S k) k = repeat false k ++ [true].
Proof.
  induction k; [reflexivity|].
  rewrite arrivals_S. simpl pred. rewrite IHk. reflexivity.
Qed.

Lemma filter_id_repeat_false : forall n l,
  filter (fun b : bool => b) (repeat false n ++ l) = filter (fun b : bool => b) l.
Proof. induction n; simpl; auto. Qed.

Theorem arrivals_one_last : forall k, 0 < k ->
  length (filter (fun b => b) (arrivals k (k - 1))) = 1.
Proof.
  intros [|k] H; [lia|]. replace (S k - 1) with k by lia.
  rewrite arrivals_shape, filter_id_repeat_false. reflexivity.
Qed.

Theorem arrivals_last_true : forall k, 0 < k -> nth (k - 1) (arrivals k (k - 1)) false = true.
Proof.
  intros [|k] H; [lia|]. replace (S k - 1) with k by lia.
  rewrite arrivals_shape, app_nth2; rewrite repeat_length; [|lia].
  rewrite Nat.sub_diag. reflexivity.
Qed.

Theorem arrivals_earlier_false : forall k i, i < k - 1 -> nth i (arrivals k (k - 1)) false = false.
Proof.
  intros [|k] i H; [simpl in H; lia|]. replace (S k - 1) with k in * by lia.
  rewrite arrivals_shape, app_nth1 by (rewrite repeat_length; lia).
  apply nth_repeat.
Qed.

Theorem arrivals_length : forall k p, length (arrivals k p) = k.
Proof. induction k; intros; [reflexivity|]. rewrite arrivals_S. simpl. rewrite IHk. reflexivity. Qed.

(* ====================================================================== *)
(* WALK PHASE                                                              *)
(* ====================================================================== *)

Lemma fcell_ind' : forall P : fcell -> Prop,
  P FLeaf -> P FSing ->
  (forall kids, Forall P kids -> P (FBranch kids)) ->
  forall c, P c.
Proof.
  intros P Hl Hs Hb. fix IH 1. destruct c as [| |kids].
  - exact Hl.
  - exact Hs.
  - apply Hb. induction kids as [|k r IHr]; constructor; [apply IH | exact IHr].
Qed.

Definition all_wff (N : nat) : list fcell -> Prop :=
  fix all (l : list fcell) : Prop :=
    match l with [] => True | k :: r => wf_fcell N k /\ all r end.

Lemma all_wff_Forall : forall N l, all_wff N l <-> Forall (wf_fcell N) l.
Proof.
  induction l; simpl; split; intros; auto.
  - destruct H; constructor; tauto.
  - inversion H; subst; tauto.
Qed.

Lemma wf_fcell_branch : forall N kids,
  wf_fcell N (FBranch kids) <->
  length kids = 2 ^ N /\ count_sing kids < 2 ^ N /\ Forall (wf_fcell N) kids.
Proof. intros. rewrite <- all_wff_Forall. simpl. tauto. Qed.

Theorem walk_ticks_live : forall N c, wf_fcell N c -> walk_ticks N c = live c.
Proof.
  intros N c. induction c as [| |kids IH] using fcell_ind'; intros Hwf; try reflexivity.
  apply wf_fcell_branch in Hwf. destruct Hwf as (Hlen & Hcs & Hall).
  change (walk_ticks N (FBranch kids)) with
    (sum (map (walk_ticks N) kids)
     + length (filter (fun b => b)
                 (arrivals (length kids - count_sing kids) (pending_init N kids)))).
  change (live (FBranch kids)) with (1 + sum (map live kids)).
  unfold pending_init. rewrite Hlen.
  replace (2 ^ N - 1 - count_sing kids) with (2 ^ N - count_sing kids - 1) by lia.
  rewrite arrivals_one_last by lia.
  replace (map (walk_ticks N) kids) with (map live kids); [lia|].
  apply map_ext_in. intros x Hx. rewrite Forall_forall in IH, Hall. symmetry; apply IH; auto.
Qed.

(* without [count_sing kids < 2^N]: a branch all of whose children are singletons is never ticked *)
Theorem walk_all_singletons_refuted :
  let c := FBranch [FSing; FSing] in
  length [FSing; FSing] = 2 ^ 1 /\ walk_ticks 1 c = 0 /\ live c = 1.
Proof. repeat split. Qed.

Theorem walk_all_singletons_refuted3 :
  let c := FBranch (repeat FSing 8) in
  length (repeat FSing 8) = 2 ^ 3 /\ walk_ticks 3 c = 0 /\ live c = 1.
Proof. repeat split. Qed.

(* ====================================================================== *)
(* RESET PHASE                                                             *)
(* ====================================================================== *)

Lemma stride_In : forall w n f i j, 0 < w ->
  In j (stride_from f i w n) -> j < n /\ exists k, j = i + k * w.
Proof.
  induction f; intros i j Hw Hin; simpl in Hin; [contradiction|].
  destruct (i <? n) eqn:E; [|contradiction].
  apply Nat.ltb_lt in E. destruct Hin as [->|Hin].
  - split; [assumption|]. exists 0. lia.
  - apply IHf in Hin; [|assumption]. destruct Hin as (Hlt & k & ->).
    split; [assumption|]. exists (S k). lia.
Qed.

Lemma stride_In_conv : forall w n f i k,
  i + k * w < n -> k < f -> In (i + k * w) (stride_from f i w n).
Proof.
  induction f; intros i k Hlt Hk; [lia|]. simpl.
  assert (E : (i <? n) = true) by (apply Nat.ltb_lt; lia). rewrite E.
  destruct k as [|k]; [left; lia|]. right.
  replace (i + S k * w) with ((i + w) + k * w) in * by lia.
  apply IHf; lia.
Qed.

Lemma stride_NoDup : forall w n f i, 0 < w -> NoDup (stride_from f i w n).
Proof.
  induction f; intros i Hw; simpl; [constructor|].
  destruct (i <? n); [|constructor]. constructor; [|apply IHf; assumption].
  intros Hin. apply stride_In in Hin; [|assumption]. destruct Hin as (_ & k & Hk). lia.
Qed.

Theorem worker_blocks_sound : forall i w n j, 0 < w ->
  In j (worker_blocks i w n) -> j < n /\ j mod w = i mod w.
Proof.
  intros i w n j Hw Hin. apply stride_In in Hin; [|assumption].
  destruct Hin as (Hlt & k & ->). split; [assumption|].
  apply Nat.mod_add. lia.
Qed.

Theorem worker_blocks_sound_lt : forall i w n j, i < w ->
  In j (worker_blocks i w n) -> j < n /\ j mod w = i.
Proof.
  intros i w n j Hi Hin. apply worker_blocks_sound in Hin; [|lia].
  rewrite (Nat.mod_small i w) in Hin by assumption. exact Hin.
Qed.

Theorem worker_blocks_complete : forall w n j, 0 < w -> j < n ->
  In j (worker_blocks (j mod w) w n).
Proof.
  intros w n j Hw Hj. unfold worker_blocks.
  assert (E : j = j mod w + (j / w) * w).
  { pose proof (Nat.div_mod j w). lia. }
  rewrite E at 1. apply stride_In_conv.
  - rewrite <- E. assumption.
  - assert (j / w <= j) by (apply Nat.div_le_upper_bound; nia). lia.
Qed.

Theorem worker_blocks_unique : forall w n i i' j, i < w -> i' < w ->
  In j (worker_blocks i w n) -> In j (worker_blocks i' w n) -> i = i'.
Proof.
  intros w n i i' j Hi Hi' H H'.
  apply worker_blocks_sound_lt in H; [|assumption].
  apply worker_blocks_sound_lt in H'; [|assumption]. lia.
Qed.

Theorem worker_blocks_NoDup : forall i w n, 0 < w -> NoDup (worker_blocks i w n).
Proof. intros. apply stride_NoDup; assumption. Qed.

Lemma NoDup_app' : forall (A : Type) (a b : list A),
  NoDup a -> NoDup b -> (forall x, In x a -> ~ In x b) -> NoDup (a ++ b).
Proof.
  induction a as [|x a IH]; simpl; intros b Ha Hb Hd; [assumption|].
  inversion Ha; subst. constructor.
  - rewrite in_app_iff. intros [H|H]; [contradiction|]. apply (Hd x); auto.
  - apply IH; auto.
Qed.

Lemma NoDup_flat_map : forall (A B : Type) (f : A -> list B) (l : list A),
  NoDup l -> (forall i, In i l -> NoDup (f i)) ->
  (forall i i' x, In i l -> In i' l -> In x (f i) -> In x (f i') -> i = i') ->
  NoDup (flat_map f l).
Proof.
  induction l as [|a l IH]; simpl; intros Hnd Hf Hdis; [constructor|].
  inversion Hnd; subst. apply NoDup_app'.
  - apply Hf; auto.
  - apply IH; auto. intros i i' x Hi Hi'. apply Hdis; auto.
  - intros x Hx Hin. apply in_flat_map in Hin. destruct Hin as (i' & Hi' & Hxi').
    assert (a = i') by (apply (Hdis a i' x); auto). subst. contradiction.
Qed.

(* the workers' lists, concatenated, are a rearrangement of 0 .. n-1 *)
Theorem worker_blocks_perm : forall w n, 0 < w ->
  Permutation (flat_map (fun i => worker_blocks i w n) (seq 0 w)) (seq 0 n).
Proof.
  intros w n Hw. apply NoDup_Permutation.
  - apply NoDup_flat_map.
    + apply seq_NoDup.
    + intros. apply worker_blocks_NoDup; assumption.
    + intros i i' x Hi Hi'. rewrite in_seq in Hi, Hi'.
      apply worker_blocks_unique; lia.
  - apply seq_NoDup.
  - intros j. rewrite in_flat_map, in_seq. split.
    + intros (i & Hi & Hj). apply worker_blocks_sound in Hj; lia.
    + intros Hj. exists (j mod w). split.
      * rewrite in_seq. pose proof (Nat.mod_upper_bound j w). lia.
      * apply worker_blocks_complete; lia.
Qed.

Theorem worker_blocks_partition : forall w n, 0 < w ->
  sum (map (fun i => length (worker_blocks i w n)) (seq 0 w)) = n.
Proof.
  intros w n Hw.
  rewrite <- (length_flat_map _ _ (fun i => worker_blocks i w n)).
  rewrite (Permutation_length (worker_blocks_perm w n Hw)). apply seq_length.
Qed.

Lemma clamp_zero : forall w na nf, 0 < w -> clamp_workers w na nf = 0 -> na = 0 /\ nf = 0.
Proof.
  unfold clamp_workers. intros w na nf Hw H.
  destruct (Nat.max na nf <? w) eqn:E; lia.
Qed.

Theorem pool_ticks_blocks : forall w na nf, 0 < w -> pool_ticks w na nf = na + nf.
Proof.
  intros w na nf Hw. unfold pool_ticks.
  destruct (clamp_workers w na nf) as [|w'] eqn:E.
  - apply clamp_zero in E; [|assumption]. destruct E; subst. reflexivity.
  - rewrite (sum_map_add _ (fun i => length (worker_blocks i (S w') na))
                           (fun i => length (worker_blocks i (S w') nf))).
    rewrite !worker_blocks_partition by lia. reflexivity.
Qed.

Theorem pool_ticks_no_workers : forall na nf, pool_ticks 0 na nf = 0.
Proof. reflexivity. Qed.

Theorem reset_ticks_blocks : forall w pools, 0 < w -> reset_ticks w pools = num_blocks pools.
Proof.
  intros w pools Hw. induction pools as [|[na nf] r IH]; [reflexivity|].
  simpl. rewrite IH, pool_ticks_blocks by assumption. reflexivity.
Qed.

Theorem reset_ticks_old_refuted :
  reset_ticks_old 8 [(0, 0); (0, 1)] = 0 /\ num_blocks [(0, 0); (0, 1)] = 1.
Proof. split; reflexivity. Qed.

(* the old code is right as long as no pool above the last one is empty *)
Theorem reset_ticks_old_nonempty : forall pools w, 0 < w ->
  (forall p, In p pools -> 0 < fst p + snd p) ->
  reset_ticks_old w pools = num_blocks pools.
Proof.
  induction pools as [|[na nf] r IH]; intros w Hw Hne; [reflexivity|].
  simpl. rewrite pool_ticks_blocks by assumption.
  rewrite IH; [reflexivity| |intros; apply Hne; right; assumption].
  specialize (Hne (na, nf) (or_introl eq_refl)). simpl in Hne.
  unfold clamp_workers. destruct (Nat.max na nf <? w); lia.
Qed.

(* ====================================================================== *)
(* REPORTED VALUE                                                          *)
(* ====================================================================== *)
Local Open Scope Q_scope.

Definition qn (n : nat) : Q := inject_Z (Z.of_nat n).

Lemma qn_nonneg : forall n, 0 <= qn n.
Proof. intros. unfold qn. change 0 with (inject_Z 0). rewrite <- Zle_Qle. lia. Qed.

Lemma qn_pos : forall n, n <> 0%nat -> 0 < qn n.
Proof. intros. unfold qn. change 0 with (inject_Z 0). rewrite <- Zlt_Qlt. lia. Qed.

Lemma qn_le : forall a b, (a <= b)%nat -> qn a <= qn b.
Proof. intros. unfold qn. rewrite <- Zle_Qle. lia. Qed.

Lemma qn_mult : forall a b, qn a * qn b == qn (a * b).
Proof. intros. unfold qn. rewrite Nat2Z.inj_mul, inject_Z_mult. reflexivity. Qed.

Lemma qn_plus : forall a b, qn a + qn b == qn (a + b).
Proof. intros. unfold qn. rewrite Nat2Z.inj_add, inject_Z_plus. reflexivity. Qed.

Lemma phase_term_eq : forall p, ph_total p <> 0%nat ->
  phase_term p = qn (ph_weight p) * qn (ph_counter p) / qn (ph_total p).
Proof.
  intros p H. unfold phase_term. apply Nat.eqb_neq in H. rewrite H. reflexivity.
Qed.

Lemma phase_term_nonneg : forall p, 0 <= phase_term p.
Proof.
  intros p. destruct (Nat.eq_dec (ph_total p) 0) as [E|E].
  - unfold phase_term. rewrite E. simpl. apply Qle_refl.
  - rewrite phase_term_eq by assumption.
    apply Qle_shift_div_l; [apply qn_pos; assumption|].
    rewrite Qmult_0_l, qn_mult. apply qn_nonneg.
Qed.

(* a phase term moves with the counter *)
Lemma phase_term_mono : forall p p',
  ph_weight p = ph_weight p' -> ph_total p = ph_total p' ->
  (ph_counter p <= ph_counter p')%nat -> phase_term p <= phase_term p'.
Proof.
  intros p p' Hw Ht Hc. destruct (Nat.eq_dec (ph_total p) 0) as [E|E].
  - unfold phase_term. rewrite <- Ht, E. simpl. apply Qle_refl.
  - rewrite !phase_term_eq by congruence. rewrite <- Hw, <- Ht.
    unfold Qdiv. apply Qmult_le_compat_r.
    + rewrite !qn_mult. apply qn_le. nia.
    + apply Qinv_le_0_compat, qn_nonneg.
Qed.

Lemma phase_term_le_weight : forall p, (ph_counter p <= ph_total p)%nat ->
  phase_term p <= qn (ph_weight p).
Proof.
  intros p Hc. destruct (Nat.eq_dec (ph_total p) 0) as [E|E].
  - unfold phase_term. rewrite E. simpl. apply qn_nonneg.
  - rewrite phase_term_eq by assumption.
    apply Qle_shift_div_r; [apply qn_pos; assumption|].
    rewrite !qn_mult. apply qn_le. nia.
Qed.

Lemma phase_term_complete : forall p, ph_total p <> 0%nat -> ph_counter p = ph_total p ->
  phase_term p == qn (ph_weight p).
Proof.
  intros p Ht Hc. rewrite phase_term_eq by assumption. rewrite Hc.
  apply Qdiv_mult_l. intros H. pose proof (qn_pos _ Ht) as Hp. rewrite H in Hp.
  exact (Qlt_irrefl _ Hp).
Qed.

Lemma qsum_nonneg : forall l, (forall x, In x l -> 0 <= x) -> 0 <= qsum l.
Proof.
  induction l as [|a l IH]; simpl; intros H; [apply Qle_refl|].
  rewrite <- (Qplus_0_l 0). apply Qplus_le_compat; [apply H; auto | apply IH; auto].
Qed.

Lemma qsum_firstn_le : forall k l, (forall x, In x l -> 0 <= x) -> qsum (firstn k l) <= qsum l.
Proof.
  induction k; intros l H.
  - simpl. apply qsum_nonneg; assumption.
  - destruct l as [|a l]; simpl; [apply Qle_refl|].
    apply Qplus_le_compat; [apply Qle_refl | apply IHk; intros; apply H; right; assumption].
Qed.

Lemma qsum_firstn_step : forall k l, (forall x, In x l -> 0 <= x) ->
  qsum (firstn k l) <= qsum (firstn (S k) l).
Proof.
  induction k; intros l H.
  - destruct l as [|a l]; simpl; [apply Qle_refl|].
    rewrite Qplus_0_r. apply H. left; reflexivity.
  - destruct l as [|a l]; [apply Qle_refl|].
    change (a + qsum (firstn k l) <= a + qsum (firstn (S k) l)).
    apply Qplus_le_compat; [apply Qle_refl | apply IHk; intros; apply H; right; assumption].
Qed.

Lemma In_firstn : forall (A : Type) k (l : list A) x, In x (firstn k l) -> In x l.
Proof.
  induction k; intros l x H; [inversion H|]. destruct l; simpl in *; [assumption|].
  destruct H; [left; assumption | right; apply IHk; assumption].
Qed.

Lemma terms_nonneg : forall ps x, In x (map phase_term ps) -> 0 <= x.
Proof. intros ps x H. apply in_map_iff in H. destruct H as (p & <- & _). apply phase_term_nonneg. Qed.

Lemma qsum_terms_le_weight : forall ps,
  (forall p, In p ps -> (ph_counter p <= ph_total p)%nat) ->
  qsum (map phase_term ps) <= qn (total_weight ps).
Proof.
  induction ps as [|p ps IH]; intros H.
  - simpl. apply Qle_refl.
  - unfold total_weight. simpl. fold (total_weight ps). rewrite <- qn_plus.
    apply Qplus_le_compat; [apply phase_term_le_weight; apply H; left; reflexivity|].
    apply IH. intros; apply H; right; assumption.
Qed.

Lemma reported_eq : forall ps cur, total_weight ps <> 0%nat ->
  reported ps cur = qsum (map phase_term (firstn (S cur) ps)) / qn (total_weight ps).
Proof.
  intros ps cur H. unfold reported. apply Nat.eqb_neq in H. rewrite H. reflexivity.
Qed.

Lemma reported_zero : forall ps cur, total_weight ps = 0%nat -> reported ps cur = 0.
Proof. intros ps cur H. unfold reported. rewrite H. reflexivity. Qed.

Theorem reported_range : forall ps cur,
  (forall p, In p ps -> (ph_counter p <= ph_total p)%nat) ->
  0 <= reported ps cur <= 1.
Proof.
  intros ps cur H. destruct (Nat.eq_dec (total_weight ps) 0) as [E|E].
  - rewrite reported_zero by assumption. split; [apply Qle_refl | discriminate].
  - rewrite reported_eq by assumption. rewrite <- firstn_map. split.
    + apply Qle_shift_div_l; [apply qn_pos; assumption|]. rewrite Qmult_0_l.
      apply qsum_nonneg. intros x Hx. apply terms_nonneg with (ps := ps).
      apply In_firstn in Hx. assumption.
    + apply Qle_shift_div_r; [apply qn_pos; assumption|]. rewrite Qmult_1_l.
      eapply Qle_trans; [apply qsum_firstn_le, terms_nonneg|].
      apply qsum_terms_le_weight; assumption.
Qed.

(* ps' is ps with some counters advanced *)
Definition advances (p p' : phase) : Prop :=
  ph_weight p = ph_weight p' /\ ph_total p = ph_total p' /\ (ph_counter p <= ph_counter p')%nat.

Lemma advances_weight : forall ps ps', Forall2 advances ps ps' -> total_weight ps = total_weight ps'.
Proof.
  induction 1 as [|p p' l l' (Hw & _) _ IH]; [reflexivity|].
  unfold total_weight in *. simpl. rewrite Hw, IH. reflexivity.
Qed.

Lemma advances_qsum : forall ps ps', Forall2 advances ps ps' ->
  forall k, qsum (map phase_term (firstn k ps)) <= qsum (map phase_term (firstn k ps')).
Proof.
  induction 1 as [|p p' l l' (Hw & Ht & Hc) _ IH]; intros k.
  - apply Qle_refl.
  - destruct k; [apply Qle_refl|]. simpl.
    apply Qplus_le_compat; [apply phase_term_mono; assumption | apply IH].
Qed.

Theorem reported_mono_counter : forall ps ps' cur,
  Forall2 advances ps ps' -> reported ps cur <= reported ps' cur.
Proof.
  intros ps ps' cur H. pose proof (advances_weight _ _ H) as Hw.
  destruct (Nat.eq_dec (total_weight ps) 0) as [E|E].
  - rewrite !reported_zero by congruence. apply Qle_refl.
  - rewrite !reported_eq by congruence. rewrite <- Hw. unfold Qdiv.
    apply Qmult_le_compat_r; [apply advances_qsum; assumption|].
    apply Qinv_le_0_compat, qn_nonneg.
Qed.

(* moving to the next phase never lowers the value (no hypothesis needed: the terms are >= 0) *)
Theorem reported_mono_phase : forall ps cur, reported ps cur <= reported ps (S cur).
Proof.
  intros ps cur. destruct (Nat.eq_dec (total_weight ps) 0) as [E|E].
  - rewrite !reported_zero by assumption. apply Qle_refl.
  - rewrite !reported_eq by assumption. unfold Qdiv.
    apply Qmult_le_compat_r; [|apply Qinv_le_0_compat, qn_nonneg].
    rewrite <- !firstn_map. apply qsum_firstn_step, terms_nonneg.
Qed.

Lemma qsum_terms_complete : forall ps,
  (forall p, In p ps -> ph_counter p = ph_total p /\ ph_total p <> 0%nat) ->
  qsum (map phase_term ps) == qn (total_weight ps).
Proof.
  induction ps as [|p ps IH]; intros H.
  - reflexivity.
  - unfold total_weight. simpl. fold (total_weight ps). rewrite <- qn_plus.
    destruct (H p (or_introl eq_refl)) as (Hc & Ht).
    rewrite (phase_term_complete p Ht Hc), IH; [reflexivity|].
    intros; apply H; right; assumption.
Qed.

Theorem reported_complete : forall ps,
  (forall p, In p ps -> ph_counter p = ph_total p /\ ph_total p <> 0%nat) ->
  total_weight ps <> 0%nat ->
  reported ps (length ps - 1) == 1.
Proof.
  intros ps H Hw. rewrite reported_eq by assumption.
  assert (Hlen : S (length ps - 1) = length ps).
  { destruct ps; [exfalso; apply Hw; reflexivity | simpl; lia]. }
  rewrite Hlen, firstn_all, qsum_terms_complete by assumption.
  unfold Qdiv. apply Qmult_inv_r. intros E. pose proof (qn_pos _ Hw) as Hp.
  rewrite E in Hp. exact (Qlt_irrefl _ Hp).
Qed.

Local Close Scope Q_scope.

(* ====================================================================== *)
(* FINISH PROTOCOL                                                         *)
(* ====================================================================== *)

Theorem finish_idempotent : forall s, h_finish true (h_finish true s) = h_finish true s.
Proof.
  intros s. unfold h_finish at 2 3. destruct (h_future_valid s) eqn:E.
  - reflexivity.
  - unfold h_finish. rewrite E. reflexivity.
Qed.

Theorem finish_twice_safe : forall s,
  h_ub s = false -> h_future_valid s = true -> h_mutex_locked s = true ->
  h_ub (h_finish true (h_finish true s)) = false.
Proof.
  intros s Hub Hv Hl. rewrite finish_idempotent. unfold h_finish. rewrite Hv. simpl.
  rewrite Hub, Hl. reflexivity.
Qed.

(* no precondition on the future is needed either *)
Theorem finish_twice_safe' : forall s,
  h_ub s = false -> h_mutex_locked s = true ->
  h_ub (h_finish true (h_finish true s)) = false.
Proof.
  intros s Hub Hl. rewrite finish_idempotent. unfold h_finish.
  destruct (h_future_valid s); simpl; [rewrite Hub, Hl; reflexivity | assumption].
Qed.

Theorem finish_never_started : forall b, h_finish b h_init = h_init.
Proof. reflexivity. Qed.

Theorem finish_stops_thread : forall b, h_thread_running (h_finish b (h_launch h_init)) = false.
Proof. reflexivity. Qed.

Theorem finish_twice_old_refuted :
  h_ub (h_finish false (h_finish false (h_launch h_init))) = true.
Proof. reflexivity. Qed.

(* the same run with the repaired code *)
Theorem finish_twice_new_ok :
  h_ub (h_finish true (h_finish true (h_launch h_init))) = false.
Proof. reflexivity. Qed.
