(* C11: cancellation and termination of a mesh render -- theorems about the model Render/Cancel.v.

   TREE FACTS
     cells_root                 [] is a cell of every tree
     In_cells_sub               p is a cell  <->  sub c p <> None
     cells_NoDup                the list of cells has no repetition
     cells_parent               p ++ [i] a cell -> p a cell, and sub c p is ambiguous
                                (cells_parent' : the same, phrased with [parent] = removelast)
   A. SCHEDULING (any number of workers, any interleaving; NO well-formedness hypothesis needed)
     sched_sound                A1  no cell is processed twice; only cells of the tree are processed
     sched_parent_first         A2  a processed non-root cell has its parent processed ...
     sched_parent_before        A2' ... and strictly earlier in the order (proc = a ++ p :: b, parent p in a)
     sched_amb_parent           A2'' that parent is an ambiguous cell
     sched_progress             A3  NO DEADLOCK: while some cell is unprocessed the frontier is non-empty
     sched_bounded              A4  at most |cells c| pops ever succeed
     sched_extend               A4' every reachable state can be run to completion
     done_iff_all               A5  the done flag is up exactly when every cell has been processed.
                                    No wf hypothesis is needed: [complete_at] of an ambiguous cell asks
                                    for the cell itself to be processed, so even CAmb [] is not "complete
                                    early" (done_iff_forall is the schedule-free form:
                                    done_flag c proc = true <-> every cell of c is in proc)
     done_not_early             A5  corollary: work remaining -> done = false
     done_at_end                A5  corollary: all cells processed -> done = true
     cells_count_bounds         A6  wf_cell N L c -> 1 <= |cells c| <= total_ticks N L
   B. WORKER LOOP
     cancel_exits               B1  cancel set: out of the loop within 2 steps (finish body, test)
     done_exits                 B2  done set: likewise
     no_exit_while_working      B3  neither flag set: the test enters the body
     exited_absorbing           B3  Exited stays Exited (also under iteration: exited_absorbing_iter)
     no_exit_iter               B3  with both flags down a worker never reaches Exited
   C. Mesh::render
     render_new_all_or_nothing  C1  repaired code: null or a fully assigned + fully walked mesh
     render_new_complete_when_uncancelled
                                C2  flag never seen set, build complete -> the complete mesh
     render_old_refuted         C3  old code: cancel during the walk returns a half-walked mesh
     render_old_refuted_assign  C3' ... or a mesh with half-assigned indices
     render_new_null_iff        C4  NoMesh <-> flag set at first check \/ build Partial \/ flag set at end
     render_new_null_iff_flag   C4' under run_ok this collapses to: NoMesh <-> flag set at the final check

   No statement had to be weakened; no hypothesis was added to the requested statements. *)
From Coq Require Import List Arith Bool Lia.
From LF Require Import Render.Progress Render.ProgressSem Render.Cancel.
Import ListNotations.

(* ---------------------------------------------------------------------- *)
(* named versions of the two local fixpoints                               *)
(* ---------------------------------------------------------------------- *)
Fixpoint cells_go (i : nat) (l : list cell) : list path :=
  match l with
  | [] => []
  | k :: r => map (cons i) (cells k) ++ cells_go (S i) r
  end.
Lemma cells_amb : forall kids, cells (CAmb kids) = [] :: cells_go 0 kids.
Proof. reflexivity. Qed.

Definition complete_go (proc : list path) (here : path) : nat -> list cell -> bool :=
  fix go (i : nat) (l : list cell) : bool :=
    match l with
    | [] => true
    | k :: r => complete_at k proc (here ++ [i]) && go (S i) r
    end.
Lemma complete_amb : forall kids proc here,
  complete_at (CAmb kids) proc here = mem here proc && complete_go proc here 0 kids.
Proof. reflexivity. Qed.

Lemma path_eqb_true : forall p q, path_eqb p q = true <-> p = q.
Proof. intros p q. unfold path_eqb. destruct (list_eq_dec Nat.eq_dec p q); split; congruence. Qed.

Lemma mem_In : forall p l, mem p l = true <-> In p l.
Proof.
  intros p l. unfold mem. rewrite existsb_exists. split.
  - intros (x & Hx & He). apply path_eqb_true in He. subst. assumption.
  - intros H. exists p. split; [assumption | apply path_eqb_true; reflexivity].
Qed.

Lemma mem_false : forall p l, mem p l = false <-> ~ In p l.
Proof.
  intros p l. rewrite <- mem_In. destruct (mem p l); split; congruence.
Qed.

Lemma path_dec : forall p q : path, {p = q} + {p <> q}.
Proof. apply list_eq_dec, Nat.eq_dec. Qed.

(* ---------------------------------------------------------------------- *)
(* TREE FACTS                                                              *)
(* ---------------------------------------------------------------------- *)
Lemma In_cells_go : forall kids j p,
  In p (cells_go j kids) <->
  exists i r k, p = i :: r /\ j <= i /\ nth_error kids (i - j) = Some k /\ In r (cells k).
Proof.
  induction kids as [|k0 rest IH]; intros j p; simpl.
  - split; [tauto|]. intros (i & r & k & _ & _ & H & _). destruct (i - j); discriminate.
  - rewrite in_app_iff, in_map_iff, IH. split.
    + intros [(x & Hx & Hin) | (i & r & k & Hp & Hle & Hn & Hin)].
      * exists j, x, k0. rewrite Nat.sub_diag. simpl. auto.
      * exists i, r, k. repeat split; auto; [lia|].
        replace (i - j) with (S (i - S j)) by lia. exact Hn.
    + intros (i & r & k & Hp & Hle & Hn & Hin).
      destruct (Nat.eq_dec i j) as [->|Hne].
      * rewrite Nat.sub_diag in Hn. simpl in Hn. inversion Hn; subst k0.
        left. exists r. auto.
      * right. exists i, r, k. repeat split; auto; [lia|].
        replace (i - j) with (S (i - S j)) in Hn by lia. exact Hn.
Qed.

Lemma In_cells_amb : forall kids i r,
  In (i :: r) (cells (CAmb kids)) <-> exists k, nth_error kids i = Some k /\ In r (cells k).
Proof.
  intros kids i r. rewrite cells_amb. simpl. rewrite In_cells_go. split.
  - intros [H | (i' & r' & k & Hp & _ & Hn & Hin)]; [discriminate|].
    inversion Hp; subst. rewrite Nat.sub_0_r in Hn. eauto.
  - intros (k & Hn & Hin). right. exists i, r, k. rewrite Nat.sub_0_r. repeat split; auto; lia.
Qed.

Theorem cells_root : forall c, In [] (cells c).
Proof. destruct c; simpl; auto. Qed.

Theorem In_cells_sub : forall c p, In p (cells c) <-> sub c p <> None.
Proof.
  induction c as [| |kids IH] using cell_ind'; intros p.
  - destruct p; simpl; split; try congruence; try tauto. intros [H|[]]; discriminate.
  - destruct p; simpl; split; try congruence; try tauto. intros [H|[]]; discriminate.
  - destruct p as [|i r].
    + split; [simpl; congruence | intros _; apply cells_root].
    + rewrite In_cells_amb. simpl. rewrite Forall_forall in IH.
      destruct (nth_error kids i) as [k|] eqn:Hn.
      * rewrite <- (IH k (nth_error_In _ _ Hn)). split.
        -- intros (k' & Hk' & Hin). inversion Hk'; subst. assumption.
        -- eauto.
      * split; [intros (k' & Hk' & _); discriminate | congruence].
Qed.

Lemma NoDup_map_cons : forall (i : nat) (l : list path), NoDup l -> NoDup (map (cons i) l).
Proof.
  induction l as [|x l IH]; simpl; intros H; [constructor|].
  inversion H; subst. constructor; auto.
  rewrite in_map_iff. intros (y & Hy & Hin). inversion Hy; subst. contradiction.
Qed.

Theorem cells_NoDup : forall c, NoDup (cells c).
Proof.
  induction c as [| |kids IH] using cell_ind'.
  - simpl. constructor; [tauto | constructor].
  - simpl. constructor; [tauto | constructor].
  - rewrite cells_amb. constructor.
    + rewrite In_cells_go. intros (i & r & k & Hp & _). discriminate.
    + generalize 0 as j. induction IH as [|k rest Hk _ IHrest]; intros j; simpl; [constructor|].
      apply NoDup_app'.
      * apply NoDup_map_cons; assumption.
      * apply IHrest.
      * intros x Hx Hin. apply in_map_iff in Hx. destruct Hx as (y & <- & _).
        apply In_cells_go in Hin. destruct Hin as (i & r & k' & Hp & Hle & _).
        inversion Hp; subst. lia.
Qed.

Lemma sub_app : forall p c q,
  sub c (p ++ q) = match sub c p with Some c' => sub c' q | None => None end.
Proof.
  induction p as [|i r IH]; intros c q; simpl; [reflexivity|].
  destruct c as [| |kids]; try reflexivity.
  destruct (nth_error kids i); [apply IH | reflexivity].
Qed.

Theorem cells_parent : forall c p i,
  In (p ++ [i]) (cells c) -> In p (cells c) /\ is_amb (sub c p) = true.
Proof.
  intros c p i H. rewrite In_cells_sub in *. rewrite sub_app in H.
  destruct (sub c p) as [c'|]; [|congruence]. split; [congruence|].
  destruct c'; simpl in *; congruence.
Qed.

Lemma parent_snoc : forall p i, parent (p ++ [i]) = p.
Proof. intros. unfold parent. apply removelast_last. Qed.

Lemma path_snoc : forall p : path, p <> [] -> exists q i, p = q ++ [i].
Proof. intros p H. destruct (exists_last H) as (q & i & ->). eauto. Qed.

Theorem cells_parent' : forall c p,
  In p (cells c) -> p <> [] -> In (parent p) (cells c) /\ is_amb (sub c (parent p)) = true.
Proof.
  intros c p H Hne. destruct (path_snoc p Hne) as (q & i & ->).
  rewrite parent_snoc. eapply cells_parent; eassumption.
Qed.

(* ---------------------------------------------------------------------- *)
(* A. SCHEDULING                                                           *)
(* ---------------------------------------------------------------------- *)
Lemma ready_spec : forall c proc p,
  ready c proc p = true <->
  ~ In p proc /\ (p = [] \/ (In (parent p) proc /\ is_amb (sub c (parent p)) = true)).
Proof.
  intros c proc p. unfold ready. rewrite andb_true_iff, negb_true_iff, mem_false.
  destruct p as [|a r].
  - split; [intros [H _]; auto | intros [H _]; auto].
  - rewrite andb_true_iff, mem_In. split.
    + intros [H1 H2]. auto.
    + intros [H1 [H2|H2]]; [discriminate | auto].
Qed.

Lemma frontier_spec : forall c proc p,
  In p (frontier c proc) <->
  In p (cells c) /\ ~ In p proc /\
  (p = [] \/ (In (parent p) proc /\ is_amb (sub c (parent p)) = true)).
Proof. intros. unfold frontier. rewrite filter_In, ready_spec. tauto. Qed.

(* A1 *)
Theorem sched_sound : forall c proc, sched c proc -> NoDup proc /\ incl proc (cells c).
Proof.
  intros c proc H. induction H as [|proc p Hs [IHn IHi] Hp].
  - split; [constructor | intros x []].
  - apply frontier_spec in Hp. destruct Hp as (Hc & Hnp & _). split.
    + apply NoDup_app'; auto.
      * constructor; [tauto | constructor].
      * intros x Hx [<-|[]]. contradiction.
    + intros x Hx. apply in_app_iff in Hx. destruct Hx as [Hx|[<-|[]]]; auto.
Qed.

(* A2' : the parent comes strictly earlier in the processing order *)
Theorem sched_parent_before : forall c proc, sched c proc ->
  forall p, In p proc -> p <> [] ->
  exists a b, proc = a ++ p :: b /\ In (parent p) a /\ is_amb (sub c (parent p)) = true.
Proof.
  intros c proc H. induction H as [|proc q Hs IH Hq]; intros p Hp Hne; [destruct Hp|].
  apply in_app_iff in Hp. destruct Hp as [Hp|[<-|[]]].
  - destruct (IH p Hp Hne) as (a & b & -> & Hin & Ha).
    exists a, (b ++ [q]). rewrite <- app_assoc. simpl. auto.
  - apply frontier_spec in Hq. destruct Hq as (_ & _ & [Hq|[Hq1 Hq2]]); [contradiction|].
    exists proc, []. auto.
Qed.

(* A2 *)
Theorem sched_parent_first : forall c proc, sched c proc ->
  forall p, In p proc -> p <> [] -> In (parent p) proc.
Proof.
  intros c proc H p Hp Hne.
  destruct (sched_parent_before c proc H p Hp Hne) as (a & b & -> & Hin & _).
  apply in_app_iff. auto.
Qed.

Theorem sched_amb_parent : forall c proc, sched c proc ->
  forall p, In p proc -> p <> [] -> is_amb (sub c (parent p)) = true.
Proof.
  intros c proc H p Hp Hne.
  destruct (sched_parent_before c proc H p Hp Hne) as (a & b & _ & _ & Ha). exact Ha.
Qed.

(* some cell is missing when fewer cells were processed than there are *)
Lemma missing_cell : forall (l proc : list path),
  NoDup l -> length proc < length l -> exists p, In p l /\ ~ In p proc.
Proof.
  intros l proc Hnd Hlen.
  assert (H : incl l proc \/ exists p, In p l /\ ~ In p proc).
  { clear Hnd Hlen. induction l as [|x l IH].
    - left. intros y [].
    - destruct IH as [IH|(p & Hp & Hn)].
      + destruct (in_dec path_dec x proc) as [Hx|Hx].
        * left. intros y [<-|Hy]; auto.
        * right. exists x. simpl. auto.
      + right. exists p. simpl. auto. }
  destruct H as [H|H]; [|assumption].
  pose proof (NoDup_incl_length Hnd H). lia.
Qed.

(* from any unprocessed cell, walking up reaches a ready one *)
Lemma unprocessed_has_ready : forall c proc p,
  In p (cells c) -> ~ In p proc -> exists q, In q (frontier c proc).
Proof.
  intros c proc p. induction p as [|i p IH] using rev_ind; intros Hc Hn.
  - exists []. apply frontier_spec. auto.
  - destruct (cells_parent c p i Hc) as [Hpc Hamb].
    destruct (in_dec path_dec p proc) as [Hp|Hp].
    + exists (p ++ [i]). apply frontier_spec. rewrite parent_snoc. auto.
    + apply IH; assumption.
Qed.

(* A3 *)
Theorem sched_progress : forall c proc,
  sched c proc -> length proc < length (cells c) -> frontier c proc <> [].
Proof.
  intros c proc _ Hlen.
  destruct (missing_cell (cells c) proc (cells_NoDup c) Hlen) as (p & Hp & Hn).
  destruct (unprocessed_has_ready c proc p Hp Hn) as (q & Hq).
  intros E. rewrite E in Hq. destruct Hq.
Qed.

(* A4 *)
Theorem sched_bounded : forall c proc, sched c proc -> length proc <= length (cells c).
Proof.
  intros c proc H. destruct (sched_sound c proc H) as [Hn Hi].
  apply NoDup_incl_length; assumption.
Qed.

Theorem sched_extend : forall c proc, sched c proc ->
  exists rest, sched c (proc ++ rest) /\ length (proc ++ rest) = length (cells c).
Proof.
  intros c proc H.
  remember (length (cells c) - length proc) as n eqn:Hn.
  revert proc H Hn. induction n as [|n IH]; intros proc H Hn.
  - exists []. rewrite app_nil_r. split; [assumption|].
    pose proof (sched_bounded c proc H). lia.
  - assert (Hlt : length proc < length (cells c)) by lia.
    pose proof (sched_progress c proc H Hlt) as Hf.
    destruct (frontier c proc) as [|p f] eqn:Ef; [congruence|].
    assert (Hp : In p (frontier c proc)) by (rewrite Ef; simpl; auto).
    destruct (IH (proc ++ [p]) (sched_step c proc p H Hp)) as (rest & Hs & Hl).
    + rewrite app_length. simpl. lia.
    + exists (p :: rest). rewrite <- app_assoc in Hs, Hl. simpl in Hs, Hl. auto.
Qed.

(* A5 *)
Lemma complete_at_spec : forall c proc here,
  complete_at c proc here = true <-> forall p, In p (cells c) -> In (here ++ p) proc.
Proof.
  induction c as [| |kids IH] using cell_ind'; intros proc here.
  - simpl. rewrite mem_In. split.
    + intros H p [<-|[]]. rewrite app_nil_r. assumption.
    + intros H. specialize (H [] (or_introl eq_refl)). rewrite app_nil_r in H. assumption.
  - simpl. rewrite mem_In. split.
    + intros H p [<-|[]]. rewrite app_nil_r. assumption.
    + intros H. specialize (H [] (or_introl eq_refl)). rewrite app_nil_r in H. assumption.
  - rewrite complete_amb, cells_amb, andb_true_iff, mem_In.
    assert (Hgo : forall j, complete_go proc here j kids = true <->
                            forall p, In p (cells_go j kids) -> In (here ++ p) proc).
    { induction IH as [|k rest Hk _ IHrest]; intros j; simpl.
      - split; [intros _ p [] | reflexivity].
      - rewrite andb_true_iff, Hk, IHrest. split.
        + intros [H1 H2] p Hp. apply in_app_iff in Hp. destruct Hp as [Hp|Hp]; [|auto].
          apply in_map_iff in Hp. destruct Hp as (x & <- & Hx).
          specialize (H1 x Hx). rewrite <- app_assoc in H1. exact H1.
        + intros H. split.
          * intros p Hp. rewrite <- app_assoc. simpl. apply H.
            apply in_app_iff. left. apply in_map. assumption.
          * intros p Hp. apply H. apply in_app_iff. auto. }
    rewrite Hgo. split.
    + intros [H1 H2] p [<-|Hp]; [rewrite app_nil_r; assumption | auto].
    + intros H. split.
      * specialize (H [] (or_introl eq_refl)). rewrite app_nil_r in H. assumption.
      * intros p Hp. apply H. simpl. auto.
Qed.

Theorem done_iff_forall : forall c proc,
  done_flag c proc = true <-> incl (cells c) proc.
Proof. intros. unfold done_flag. rewrite complete_at_spec. simpl. reflexivity. Qed.

Theorem done_iff_all : forall c proc, sched c proc ->
  (done_flag c proc = true <-> length proc = length (cells c)).
Proof.
  intros c proc H. destruct (sched_sound c proc H) as [Hn Hi].
  rewrite done_iff_forall. split.
  - intros Hall. apply Nat.le_antisymm.
    + apply NoDup_incl_length; assumption.
    + apply NoDup_incl_length; [apply cells_NoDup | assumption].
  - intros Hlen. apply NoDup_length_incl; [assumption | lia | assumption].
Qed.

Corollary done_not_early : forall c proc, sched c proc ->
  length proc < length (cells c) -> done_flag c proc = false.
Proof.
  intros c proc H Hlt. destruct (done_flag c proc) eqn:E; [|reflexivity].
  apply (done_iff_all c proc H) in E. lia.
Qed.

Corollary done_at_end : forall c proc, sched c proc ->
  length proc = length (cells c) -> done_flag c proc = true.
Proof. intros c proc H E. apply (done_iff_all c proc H). assumption. Qed.

(* while done is down there is a task to pop; when it is up there is none *)
Corollary done_false_frontier : forall c proc, sched c proc ->
  (done_flag c proc = false <-> frontier c proc <> []).
Proof.
  intros c proc H. split.
  - intros E. apply sched_progress; [assumption|].
    pose proof (sched_bounded c proc H).
    destruct (Nat.eq_dec (length proc) (length (cells c))) as [El|]; [|lia].
    rewrite (done_at_end c proc H El) in E. discriminate.
  - intros Hf. destruct (done_flag c proc) eqn:E; [|reflexivity]. exfalso. apply Hf.
    apply done_iff_forall in E.
    destruct (frontier c proc) as [|p f] eqn:Ef; [reflexivity|].
    assert (Hp : In p (frontier c proc)) by (rewrite Ef; simpl; auto).
    apply frontier_spec in Hp. destruct Hp as (Hc & Hn & _). exfalso. apply Hn, E, Hc.
Qed.

(* A6 *)
Lemma total_ticks_pos : forall N L, 1 <= total_ticks N L.
Proof. destruct L; simpl; lia. Qed.

Lemma length_cells_go : forall kids j,
  length (cells_go j kids) = sum (map (fun k => length (cells k)) kids).
Proof.
  induction kids as [|k r IH]; intros j; simpl; [reflexivity|].
  rewrite app_length, map_length, IH. reflexivity.
Qed.

Lemma sum_map_le_const : forall (A : Type) (f : A -> nat) (b : nat) (l : list A),
  (forall x, In x l -> f x <= b) -> sum (map f l) <= length l * b.
Proof.
  induction l as [|x l IH]; simpl; intros H; [lia|].
  assert (f x <= b) by auto. assert (sum (map f l) <= length l * b) by auto. lia.
Qed.

Theorem cells_count_bounds : forall N L c, wf_cell N L c ->
  1 <= length (cells c) /\ length (cells c) <= total_ticks N L.
Proof.
  intros N L c; revert L. induction c as [| |kids IH] using cell_ind'; intros L Hwf.
  - simpl. pose proof (total_ticks_pos N L). lia.
  - simpl. pose proof (total_ticks_pos N L). lia.
  - apply wf_cell_amb in Hwf. destruct Hwf as (HL & Hlen & Hall).
    rewrite cells_amb. simpl length. rewrite length_cells_go. split; [lia|].
    destruct L as [|l]; [lia|]. simpl pred in Hall. simpl total_ticks.
    rewrite <- Hlen. apply le_n_S.
    apply sum_map_le_const. intros x Hx.
    rewrite Forall_forall in IH, Hall. apply (IH x Hx l). auto.
Qed.

(* ---------------------------------------------------------------------- *)
(* B. WORKER LOOP                                                          *)
(* ---------------------------------------------------------------------- *)
Theorem cancel_exits : forall done pc,
  exists n, n <= 2 /\ Nat.iter n (wstep done true) pc = Exited.
Proof.
  intros done pc. destruct pc.
  - exists 1. split; [lia|]. simpl. rewrite orb_true_r. reflexivity.
  - exists 2. split; [lia|]. simpl. rewrite orb_true_r. reflexivity.
  - exists 0. split; [lia|]. reflexivity.
Qed.

Theorem done_exits : forall cancel pc,
  exists n, n <= 2 /\ Nat.iter n (wstep true cancel) pc = Exited.
Proof.
  intros cancel pc. destruct pc.
  - exists 1. split; [lia|]. reflexivity.
  - exists 2. split; [lia|]. reflexivity.
  - exists 0. split; [lia|]. reflexivity.
Qed.

Theorem no_exit_while_working : wstep false false AtTest = InBody.
Proof. reflexivity. Qed.

Theorem exited_absorbing : forall done cancel, wstep done cancel Exited = Exited.
Proof. reflexivity. Qed.

Theorem exited_absorbing_iter : forall done cancel n, Nat.iter n (wstep done cancel) Exited = Exited.
Proof. induction n; simpl; [reflexivity|]. rewrite IHn. reflexivity. Qed.

Theorem no_exit_iter : forall n pc, pc <> Exited -> Nat.iter n (wstep false false) pc <> Exited.
Proof.
  induction n; intros pc H; simpl; [assumption|].
  specialize (IHn pc H). destruct (Nat.iter n (wstep false false) pc); simpl; congruence.
Qed.

(* ---------------------------------------------------------------------- *)
(* C. Mesh::render                                                         *)
(* ---------------------------------------------------------------------- *)
Theorem render_new_all_or_nothing : forall r, run_ok r -> all_or_nothing (render_new r).
Proof.
  intros [b a w f1 f2] (H1 & H2 & H3 & H4). unfold render_new, all_or_nothing. simpl in *.
  destruct f1; [auto|]. destruct b; [|auto]. destruct f2; [auto|].
  destruct a; [|specialize (H3 eq_refl); discriminate].
  destruct w; [|specialize (H4 eq_refl); discriminate]. auto.
Qed.

Theorem render_new_complete_when_uncancelled : forall r,
  run_ok r -> r_flag_final r = false -> r_build r = Complete ->
  render_new r = MeshOf Complete Complete.
Proof.
  intros [b a w f1 f2] (H1 & H2 & H3 & H4) Hf Hb. unfold render_new. simpl in *. subst.
  destruct f1; [specialize (H2 eq_refl); discriminate|].
  destruct a; [|specialize (H3 eq_refl); discriminate].
  destruct w; [|specialize (H4 eq_refl); discriminate]. reflexivity.
Qed.

(* cancel raised during the walk *)
Theorem render_old_refuted : exists r, run_ok r /\ ~ all_or_nothing (render_old r).
Proof.
  exists {| r_build := Complete; r_assign := Complete; r_walk := Partial;
            r_flag_after_build := false; r_flag_final := true |}.
  split.
  - unfold run_ok. simpl. repeat split; congruence.
  - unfold all_or_nothing, render_old. simpl. intros [H|H]; discriminate.
Qed.

(* cancel raised during assignIndices *)
Theorem render_old_refuted_assign : exists r, run_ok r /\ ~ all_or_nothing (render_old r).
Proof.
  exists {| r_build := Complete; r_assign := Partial; r_walk := Complete;
            r_flag_after_build := false; r_flag_final := true |}.
  split.
  - unfold run_ok. simpl. repeat split; congruence.
  - unfold all_or_nothing, render_old. simpl. intros [H|H]; discriminate.
Qed.

Theorem render_new_null_iff : forall r,
  render_new r = NoMesh <->
  r_flag_after_build r = true \/ r_build r = Partial \/ r_flag_final r = true.
Proof.
  intros [b a w f1 f2]. unfold render_new. simpl.
  destruct f1, b, f2; simpl; split; intros H; auto; try discriminate;
    destruct H as [H|[H|H]]; discriminate.
Qed.

Theorem render_new_null_iff_flag : forall r, run_ok r ->
  (render_new r = NoMesh <-> r_flag_final r = true).
Proof.
  intros r (H1 & H2 & _ & _). rewrite render_new_null_iff. split; [|auto].
  intros [H|[H|H]]; auto.
Qed.
