(* C11: cancellation and termination of a mesh render.

   1. The worker pools (worker_pool.inl run, dual.hpp run, simplex_tree.inl assignIndicesWorker)
      share one structure: a stack of tasks seeded with the root; a worker pops a cell,
      an ambiguous / branch cell pushes its children, any other cell is finished and its
      completion propagates upwards through the pending counters; the worker that completes
      the root sets [done].  Every worker loops "while (!done && !cancel)".
      [sched] is the set of all processing orders any number of workers can produce: the next
      cell is any cell of the frontier (unprocessed, parent processed).
   2. Mesh::render runs build -> (assignIndices) -> walk -> reset and decides what to return. *)
From Coq Require Import List Arith Bool Lia.
From LF Require Import Render.Progress.
Import ListNotations.

Definition path := list nat.            (* child indices from the root, root = [] ; last = deepest *)

Fixpoint sub (c : cell) (p : path) : option cell :=
  match p with
  | [] => Some c
  | i :: r => match c with CAmb kids => match nth_error kids i with Some k => sub k r | None => None end
                         | _ => None end
  end.

(* all cells of the tree, as paths *)
Fixpoint cells (c : cell) : list path :=
  match c with
  | CAmb kids =>
      [] :: (fix go (i : nat) (l : list cell) : list path :=
               match l with
               | [] => []
               | k :: r => map (cons i) (cells k) ++ go (S i) r
               end) 0 kids
  | _ => [[]]
  end.

Definition path_eqb (p q : path) : bool := if list_eq_dec Nat.eq_dec p q then true else false.
Definition mem (p : path) (l : list path) : bool := existsb (path_eqb p) l.
Definition parent (p : path) : path := removelast p.

Definition is_amb (o : option cell) : bool := match o with Some (CAmb _) => true | _ => false end.

(* a cell can be popped next: not processed yet, and it is the root or its parent was processed *)
Definition ready (c : cell) (proc : list path) (p : path) : bool :=
  negb (mem p proc) &&
  match p with [] => true | _ => mem (parent p) proc && is_amb (sub c (parent p)) end.
Definition frontier (c : cell) (proc : list path) : list path := filter (ready c proc) (cells c).

(* every processing order that any schedule of any number of workers can produce *)
Inductive sched (c : cell) : list path -> Prop :=
| sched_nil : sched c []
| sched_step proc p : sched c proc -> In p (frontier c proc) -> sched c (proc ++ [p]).

(* completion propagates upwards: a non-ambiguous cell is complete once processed, an ambiguous
   one once all its children are (collectChildren / pending reaching zero) *)
Fixpoint complete_at (c : cell) (proc : list path) (here : path) : bool :=
  match c with
  | CAmb kids =>
      mem here proc &&
      (fix go (i : nat) (l : list cell) : bool :=
         match l with
         | [] => true
         | k :: r => complete_at k proc (here ++ [i]) && go (S i) r
         end) 0 kids
  | _ => mem here proc
  end.
(* the [done] flag *)
Definition done_flag (c : cell) (proc : list path) : bool := complete_at c proc [].

(* one worker: pc = at the loop test / inside the body / exited *)
Inductive wpc := AtTest | InBody | Exited.
Definition wstep (done cancel : bool) (pc : wpc) : wpc :=
  match pc with
  | AtTest => if done || cancel then Exited else InBody
  | InBody => AtTest
  | Exited => Exited
  end.

(* ---- Mesh::render ---- *)
Inductive outcome := Complete | Partial.
(* what one render looked like: outcome of each phase and the cancel flag at the two checks *)
Record run := { r_build : outcome; r_assign : outcome; r_walk : outcome;
                r_flag_after_build : bool; r_flag_final : bool }.
(* what the code and a monotone (never cleared) flag guarantee about a run: a phase that ended
   early did so because a worker saw the flag, which is then still set at every later check *)
Definition run_ok (r : run) : Prop :=
  (r_build r = Partial -> r_flag_after_build r = true) /\
  (r_flag_after_build r = true -> r_flag_final r = true) /\
  (r_assign r = Partial -> r_flag_final r = true) /\
  (r_walk r = Partial -> r_flag_final r = true).
Inductive result := NoMesh | MeshOf (assign walk : outcome).
(* repaired Mesh::render: null after a cancelled build, null when the flag is set at the end *)
Definition render_new (r : run) : result :=
  if r_flag_after_build r then NoMesh
  else match r_build r with
       | Partial => NoMesh          (* build() itself returns an empty Root when cancelled *)
       | Complete => if r_flag_final r then NoMesh else MeshOf (r_assign r) (r_walk r)
       end.
(* before the repair: only the check after the build *)
Definition render_old (r : run) : result :=
  if r_flag_after_build r then NoMesh
  else match r_build r with
       | Partial => NoMesh
       | Complete => MeshOf (r_assign r) (r_walk r)
       end.
Definition all_or_nothing (x : result) : Prop := x = NoMesh \/ x = MeshOf Complete Complete.
