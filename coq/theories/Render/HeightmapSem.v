(* Semantics of the heightmap renderer model (Heightmap.v):
   1. View::split partitions a view                      (split_partitions)
   2. recurse never touches a pixel outside the view     (recurse_frame)
   3. recurse = brute-force column scan                  (recurse_eq_brute)
   4. the XY pre-partition among workers is a partition  (partition_ok)
   5. the result is independent of worker count / order  (render_order_independent,
                                                           render_partition_eq_brute) *)
From Coq Require Import List ZArith Arith Bool Lia Permutation.
From LF Require Import Render.Heightmap.
Import ListNotations.

(* ------------------------------------------------------------------ *)
(* arithmetic helpers                                                  *)

Lemma half_facts n : n / 2 <= n /\ (2 <= n -> 1 <= n / 2 /\ n / 2 < n).
Proof.
  pose proof (Nat.div_mod n 2 ltac:(lia)).
  pose proof (Nat.mod_upper_bound n 2 ltac:(lia)). lia.
Qed.

Lemma prod3_pos a b c : 1 <= a * b * c <-> 1 <= a /\ 1 <= b /\ 1 <= c.
Proof.
  split.
  - intros H. destruct a; [cbn in H; lia|]. destruct b; [rewrite Nat.mul_0_r in H; cbn in H; lia|].
    destruct c; [rewrite Nat.mul_0_r in H; lia|]. lia.
  - intros (Ha & Hb & Hc).
    assert (1 * 1 <= a * b) by (apply Nat.mul_le_mono; lia).
    assert (1 * 1 * 1 <= a * b * c) by (apply Nat.mul_le_mono; lia). lia.
Qed.

Lemma sum_le_prod2 a b : 1 <= a -> 1 <= b -> a + b <= a * b + 1.
Proof. intros. nia. Qed.

Lemma sum_le_prod3 a b c : 1 <= a -> 1 <= b -> 1 <= c -> a + b + c <= a * b * c + 2.
Proof.
  intros Ha Hb Hc. pose proof (sum_le_prod2 a b Ha Hb).
  assert (H3 : 1 <= a * b) by nia.
  pose proof (sum_le_prod2 (a * b) c H3 Hc). lia.
Qed.

Lemma split_mul a h b c : h <= a -> (a - h) * b * c + h * b * c = a * b * c.
Proof.
  intros. rewrite <- !Nat.mul_add_distr_r. replace (a - h + h) with a by lia. reflexivity.
Qed.

Lemma split_mul2 a b h c : h <= b -> a * (b - h) * c + a * h * c = a * b * c.
Proof.
  intros. rewrite <- Nat.mul_add_distr_r, <- Nat.mul_add_distr_l.
  replace (b - h + h) with b by lia. reflexivity.
Qed.

Lemma split_mul3 a b c h : h <= c -> a * b * (c - h) + a * b * h = a * b * c.
Proof.
  intros. rewrite <- Nat.mul_add_distr_l. replace (c - h + h) with c by lia. reflexivity.
Qed.

(* ------------------------------------------------------------------ *)
(* 1. View::split                                                      *)

Definition in_xy (v : view) (i j : nat) : Prop :=
  cx v <= i < cx v + sx v /\ cy v <= j < cy v + sy v.

Definition axis_size (a : nat) (v : view) : nat :=
  match a with 0 => sx v | 1 => sy v | _ => sz v end.

Lemma in_xy_dec v i j : in_xy v i j \/ ~ in_xy v i j.
Proof. unfold in_xy. lia. Qed.

Lemma in_view_in_xy v i j k : in_view v i j k <-> in_xy v i j /\ cz v <= k < cz v + sz v.
Proof. unfold in_view, in_xy. tauto. Qed.

Lemma pick_axis_range mx my mz v : pick_axis mx my mz v <= 2.
Proof.
  unfold pick_axis.
  destruct (_ && _); [lia|]. destruct (_ <=? _); lia.
Qed.

(* the chosen axis is at least as large as every masked axis *)
Lemma pick_axis_max mx my mz v :
  (mx = true -> sx v <= axis_size (pick_axis mx my mz v) v) /\
  (my = true -> sy v <= axis_size (pick_axis mx my mz v) v) /\
  (mz = true -> sz v <= axis_size (pick_axis mx my mz v) v).
Proof.
  unfold pick_axis.
  destruct mx, my, mz; cbn [axis_size];
    repeat match goal with
           | |- context [?a <=? ?b] => destruct (Nat.leb_spec a b)
           end; cbn [andb axis_size]; repeat split; intros; try discriminate; try lia.
Qed.

(* the chosen axis is itself masked, unless every masked axis has size 0
   (then X is returned, like Eigen's maxCoeff on an all-zero vector) *)
Lemma pick_axis_masked mx my mz v :
  match pick_axis mx my mz v with
  | 0 => mx = true \/ ((my = true -> sy v = 0) /\ (mz = true -> sz v = 0))
  | 1 => my = true /\ 1 <= sy v
  | _ => mz = true /\ 1 <= sz v
  end.
Proof.
  unfold pick_axis.
  destruct mx, my, mz;
    repeat match goal with
           | |- context [?a <=? ?b] => destruct (Nat.leb_spec a b)
           end; cbn [andb]; try (left; reflexivity); try (right; split; intros; try discriminate; lia);
      try (split; [reflexivity|lia]); try lia.
Qed.

Ltac split_cases mx my mz v :=
  unfold split; destruct (pick_axis mx my mz v) as [|[|?]]; cbn [fst snd].

Ltac halves v :=
  pose proof (half_facts (sx v)); pose proof (half_facts (sy v)); pose proof (half_facts (sz v)).

(* same, but with the three quotients abstracted into variables *)
Ltac halves_abs v :=
  halves v;
  let hx := fresh "hx" in let hy := fresh "hy" in let hz := fresh "hz" in
  let e := fresh in
  remember (sx v / 2) as hx eqn:e; clear e;
  remember (sy v / 2) as hy eqn:e; clear e;
  remember (sz v / 2) as hz eqn:e; clear e.

Lemma split_in_view mx my mz v i j k :
  in_view v i j k <->
  in_view (fst (split mx my mz v)) i j k \/ in_view (snd (split mx my mz v)) i j k.
Proof.
  halves v. split_cases mx my mz v; unfold in_view; cbn [cx cy cz sx sy sz]; lia.
Qed.

Lemma split_disjoint mx my mz v i j k :
  ~ (in_view (fst (split mx my mz v)) i j k /\ in_view (snd (split mx my mz v)) i j k).
Proof.
  halves v. split_cases mx my mz v; unfold in_view; cbn [cx cy cz sx sy sz]; lia.
Qed.

Lemma split_voxels mx my mz v :
  voxels (fst (split mx my mz v)) + voxels (snd (split mx my mz v)) = voxels v.
Proof.
  halves v. split_cases mx my mz v; unfold voxels; cbn [cx cy cz sx sy sz].
  - apply split_mul; lia.
  - apply split_mul2; lia.
  - apply split_mul3; lia.
Qed.

Lemma split_axis_sizes mx my mz v :
  let a := pick_axis mx my mz v in
  2 <= axis_size a v ->
  1 <= axis_size a (fst (split mx my mz v)) < axis_size a v /\
  1 <= axis_size a (snd (split mx my mz v)) < axis_size a v.
Proof.
  halves v. cbv zeta. split_cases mx my mz v; cbn [axis_size cx cy cz sx sy sz]; lia.
Qed.

(* the non-split axes are untouched *)
Lemma split_other_axes mx my mz v :
  let a := pick_axis mx my mz v in
  forall b, b <= 2 -> b <> a ->
    axis_size b (fst (split mx my mz v)) = axis_size b v /\
    axis_size b (snd (split mx my mz v)) = axis_size b v.
Proof.
  cbv zeta. pose proof (pick_axis_range mx my mz v) as R. revert R.
  split_cases mx my mz v; intros R b Hb Hne;
    destruct b as [|[|[|b]]]; cbn [axis_size cx cy cz sx sy sz]; try lia; auto.
Qed.

Lemma split_voxels_decrease mx my mz v :
  2 <= axis_size (pick_axis mx my mz v) v -> 1 <= voxels v ->
  1 <= voxels (fst (split mx my mz v)) < voxels v /\
  1 <= voxels (snd (split mx my mz v)) < voxels v.
Proof.
  intros H2 Hv.
  pose proof (split_voxels mx my mz v) as Hsum.
  pose proof (split_axis_sizes mx my mz v H2) as Hax.
  apply prod3_pos in Hv.
  assert (1 <= voxels (fst (split mx my mz v)) /\ 1 <= voxels (snd (split mx my mz v))) as [? ?].
  { unfold voxels. rewrite !prod3_pos. revert Hax.
    split_cases mx my mz v; cbn [axis_size cx cy cz sx sy sz]; lia. }
  lia.
Qed.

Theorem split_partitions mx my mz v :
  let lo := fst (split mx my mz v) in
  let hi := snd (split mx my mz v) in
  let a := pick_axis mx my mz v in
  (* exact cover *)
  (forall i j k, in_view v i j k <-> in_view lo i j k \/ in_view hi i j k) /\
  (* disjoint *)
  (forall i j k, ~ (in_view lo i j k /\ in_view hi i j k)) /\
  voxels lo + voxels hi = voxels v /\
  (* a splittable axis gives two non-empty, strictly smaller halves *)
  (2 <= axis_size a v ->
     1 <= axis_size a lo < axis_size a v /\ 1 <= axis_size a hi < axis_size a v /\
     (1 <= voxels v -> 1 <= voxels lo < voxels v /\ 1 <= voxels hi < voxels v)) /\
  (* the chosen axis dominates every masked axis: an axis of size <= 1 is chosen
     only if every masked axis has size <= 1 *)
  ((mx = true -> sx v <= axis_size a v) /\
   (my = true -> sy v <= axis_size a v) /\
   (mz = true -> sz v <= axis_size a v)).
Proof.
  cbv zeta. split; [|split; [|split; [|split]]].
  - intros. apply split_in_view.
  - intros. apply split_disjoint.
  - apply split_voxels.
  - intros H2. pose proof (split_axis_sizes mx my mz v H2) as [? ?].
    split; [assumption|split; [assumption|]].
    intros Hv. apply split_voxels_decrease; assumption.
  - apply pick_axis_max.
Qed.

(* ------------------------------------------------------------------ *)
(* XY-level facts about split                                          *)

Lemma split_xy_sub mx my mz v i j :
  (in_xy (fst (split mx my mz v)) i j -> in_xy v i j) /\
  (in_xy (snd (split mx my mz v)) i j -> in_xy v i j).
Proof.
  halves v. split_cases mx my mz v; unfold in_xy; cbn [cx cy cz sx sy sz]; lia.
Qed.

Lemma big_axis a b c m : 2 <= a * b * c -> a <= m -> b <= m -> c <= m -> 2 <= m.
Proof.
  intros H Ha Hb Hc. destruct (le_lt_dec m 1) as [Hm|Hm]; [|lia].
  assert (a * b <= 1 * 1) by (apply Nat.mul_le_mono; lia).
  assert (a * b * c <= 1 * 1 * 1) by (apply Nat.mul_le_mono; lia). lia.
Qed.

(* shape of the full (XYZ) split of a view with at least two voxels *)
Lemma split3_shape v lo hi :
  2 <= voxels v -> split true true true v = (lo, hi) ->
  sx lo + sy lo + sz lo < sx v + sy v + sz v /\
  sx hi + sy hi + sz hi < sx v + sy v + sz v /\
  (forall i j, in_xy v i j <-> in_xy lo i j \/ in_xy hi i j) /\
  ((* X or Y split *)
   ((forall i j, ~ (in_xy lo i j /\ in_xy hi i j)) /\
    cz lo = cz v /\ sz lo = sz v /\ cz hi = cz v /\ sz hi = sz v) \/
   (* Z split *)
   ((forall i j, in_xy lo i j <-> in_xy v i j) /\
    (forall i j, in_xy hi i j <-> in_xy v i j) /\
    cz lo = cz v /\ cz hi = cz v + sz lo /\ sz lo + sz hi = sz v /\ 1 <= sz lo /\ 1 <= sz hi)).
Proof.
  intros Hv Hs.
  pose proof (pick_axis_max true true true v) as (M1 & M2 & M3).
  specialize (M1 eq_refl). specialize (M2 eq_refl). specialize (M3 eq_refl).
  assert (B : 2 <= axis_size (pick_axis true true true v) v)
    by (eapply big_axis; [exact Hv|..]; assumption).
  unfold split in Hs. cbv zeta in Hs. halves_abs v.
  destruct (pick_axis true true true v) as [|[|?]]; cbn [axis_size] in *;
    inversion Hs; subst lo hi; clear Hs; unfold in_xy; cbn [cx cy cz sx sy sz].
  - split; [lia|split; [lia|split; [intros; lia|left]]].
    split; [intros; lia|lia].
  - split; [lia|split; [lia|split; [intros; lia|left]]].
    split; [intros; lia|lia].
  - split; [lia|split; [lia|split; [intros; lia|right]]].
    split; [intros; lia|split; [intros; lia|lia]].
Qed.

(* shape of the XY split used by the worker pre-partition *)
Lemma split_xy_shape v a b :
  2 <= sx v -> 2 <= sy v -> split true true false v = (a, b) ->
  1 <= sx a /\ 1 <= sy a /\ 1 <= sx b /\ 1 <= sy b /\
  cz a = cz v /\ sz a = sz v /\ cz b = cz v /\ sz b = sz v /\
  (forall i j, in_xy v i j <-> in_xy a i j \/ in_xy b i j) /\
  (forall i j, ~ (in_xy a i j /\ in_xy b i j)).
Proof.
  intros Hx Hy Hs.
  pose proof (pick_axis_masked true true false v) as M.
  unfold split in Hs. cbv zeta in Hs. halves_abs v.
  destruct (pick_axis true true false v) as [|[|?]];
    [| |destruct M; discriminate];
    inversion Hs; subst a b; clear Hs; unfold in_xy; cbn [cx cy cz sx sy sz];
      repeat match goal with |- _ /\ _ => split end; intros; lia.
Qed.

(* ------------------------------------------------------------------ *)
(* option-max                                                          *)

Lemma omax_None_r a : omax a None = a.
Proof. destruct a; reflexivity. Qed.

Lemma omax_None_l a : omax None a = a.
Proof. destruct a; reflexivity. Qed.

Lemma omax_assoc a b c : omax (omax a b) c = omax a (omax b c).
Proof. destruct a, b, c; cbn; try reflexivity. f_equal. lia. Qed.

Lemma omax_comm a b : omax a b = omax b a.
Proof. destruct a, b; cbn; try reflexivity. f_equal. lia. Qed.

(* a generic fold lemma: a sequence of updates, update k rewriting exactly the
   cells in [P k] (pairwise disjoint) by a function of the cell's own old value *)
Lemma fold_cells (K : Type) (F : image -> K -> image) (P : K -> nat -> nat -> Prop)
      (g : nat -> nat -> option nat -> option nat) :
  (forall im k i j, P k i j -> F im k i j = g i j (im i j)) ->
  (forall im k i j, ~ P k i j -> F im k i j = im i j) ->
  (forall k k' i j, P k i j -> P k' i j -> k = k') ->
  forall ks, NoDup ks ->
  forall im i j,
    ((exists k, In k ks /\ P k i j) -> fold_left F ks im i j = g i j (im i j)) /\
    ((forall k, In k ks -> ~ P k i j) -> fold_left F ks im i j = im i j).
Proof.
  intros Hin Hout Hinj ks. induction ks as [|a ks IH]; intros ND im i j.
  - split; [intros (k & [] & _)|reflexivity].
  - inversion ND as [|? ? Hna ND']; subst. cbn [fold_left].
    destruct (IH ND' (F im a) i j) as [I1 I2]. split.
    + intros (k & [<-|Hk] & HP).
      * rewrite I2; [apply Hin; assumption|].
        intros k' Hk' HP'. assert (a = k') by eauto. subst. contradiction.
      * rewrite I1 by eauto. f_equal. apply Hout.
        intros HPa. assert (a = k) by eauto. subst. contradiction.
    + intros Hn. rewrite I2 by (intros; apply Hn; right; assumption).
      apply Hout. apply Hn. left. reflexivity.
Qed.

(* over_xy applies a single-pixel update exactly once to every pixel of the view *)
Lemma over_xy_spec (f : image -> nat -> nat -> image)
      (g : nat -> nat -> option nat -> option nat) :
  (forall im i j i' j',
      f im i j i' j' = if (i' =? i) && (j' =? j) then g i j (im i j) else im i' j') ->
  forall v im i j,
    (in_xy v i j -> over_xy v f im i j = g i j (im i j)) /\
    (~ in_xy v i j -> over_xy v f im i j = im i j).
Proof.
  intros Hf v im i j. unfold over_xy.
  set (js := seq (cy v) (sy v)).
  (* one row *)
  assert (Row : forall i0 im1 i' j',
             ((i' = i0 /\ In j' js) ->
              fold_left (fun im2 j0 => f im2 i0 j0) js im1 i' j' = g i' j' (im1 i' j')) /\
             (~ (i' = i0 /\ In j' js) ->
              fold_left (fun im2 j0 => f im2 i0 j0) js im1 i' j' = im1 i' j')).
  { intros i0 im1 i' j'.
    destruct (fold_cells nat (fun im2 j0 => f im2 i0 j0)
                (fun j0 i1 j1 => i1 = i0 /\ j1 = j0) g) with (ks := js) (im := im1) (i := i') (j := j')
      as [R1 R2].
    - intros im2 k i1 j1 [-> ->]. rewrite Hf, !Nat.eqb_refl. reflexivity.
    - intros im2 k i1 j1 Hn. rewrite Hf.
      destruct (Nat.eqb_spec i1 i0), (Nat.eqb_spec j1 k); cbn [andb]; try reflexivity.
      exfalso; apply Hn; split; assumption.
    - intros k k' i1 j1 [_ ->] [_ ->]. reflexivity.
    - apply seq_NoDup.
    - split.
      + intros [-> Hj]. apply R1. exists j'. auto.
      + intros Hn. apply R2. intros k Hk [-> ->]. apply Hn. auto. }
  destruct (fold_cells nat (fun im1 i0 => fold_left (fun im2 j0 => f im2 i0 j0) js im1)
              (fun i0 i1 j1 => i1 = i0 /\ In j1 js) g) with
      (ks := seq (cx v) (sx v)) (im := im) (i := i) (j := j) as [R1 R2].
  - intros im1 k i1 j1 H. apply Row. assumption.
  - intros im1 k i1 j1 H. apply Row. assumption.
  - intros k k' i1 j1 [-> _] [-> _]. reflexivity.
  - apply seq_NoDup.
  - unfold in_xy. split.
    + intros [Hi Hj]. apply R1. exists i. split; [apply in_seq; lia|].
      split; [reflexivity|apply in_seq; lia].
    + intros Hn. apply R2. intros k Hk [-> Hj]. apply Hn.
      apply in_seq in Hk. apply in_seq in Hj. lia.
Qed.

Lemma all_at_top_spec v im :
  all_at_top v im = true <-> forall i j, in_xy v i j -> lt_top (im i j) (top v) = false.
Proof.
  unfold all_at_top, in_xy. rewrite forallb_forall. split.
  - intros H i j [Hi Hj]. specialize (H i ltac:(apply in_seq; lia)).
    rewrite forallb_forall in H. specialize (H j ltac:(apply in_seq; lia)).
    apply negb_true_iff in H. exact H.
  - intros H i Hi. apply forallb_forall. intros j Hj.
    apply in_seq in Hi. apply in_seq in Hj. apply negb_true_iff. apply H. lia.
Qed.

Lemma all_at_top_ext v im im' :
  (forall i j, in_xy v i j -> im i j = im' i j) -> all_at_top v im = all_at_top v im'.
Proof.
  intros H. destruct (all_at_top v im') eqn:E'.
  - apply all_at_top_spec. intros i j Hij. rewrite H by assumption.
    revert i j Hij. apply all_at_top_spec. assumption.
  - destruct (all_at_top v im) eqn:E; [|reflexivity].
    rewrite <- E'. symmetry. apply all_at_top_spec. intros i j Hij. rewrite <- H by assumption.
    revert i j Hij. apply all_at_top_spec. assumption.
Qed.

(* the per-pixel effect of Heightmap::fill *)
Definition g_fill (v : view) (_ _ : nat) (d : option nat) : option nat :=
  if lt_top d (top v) then Some (top v) else d.

Lemma fill_px_form v im i j i' j' :
  fill_px v im i j i' j' =
  if (i' =? i) && (j' =? j) then g_fill v i j (im i j) else im i' j'.
Proof.
  unfold fill_px, g_fill, set_px.
  destruct (Nat.eqb_spec i' i), (Nat.eqb_spec j' j); subst; cbn [andb];
    destruct (lt_top (im i j) (top v)); cbn [andb];
      rewrite ?Nat.eqb_refl; cbn [andb]; try reflexivity;
        repeat match goal with
               | |- context [?a =? ?b] => destruct (Nat.eqb_spec a b); try congruence
               end; cbn [andb]; try reflexivity.
Qed.

Section Sem.
  Variable inside : nat -> nat -> nat -> bool.
  Variable classify : view -> cls.

  Notation scan := (scan_down inside).
  Notation brute := (brute inside).
  Notation recurse := (recurse inside classify).
  Notation pixels_px := (pixels_px inside).
  Notation classify_sound := (classify_sound inside classify).

  (* ---------------------------------------------------------------- *)
  (* the column scan                                                   *)

  Lemma scan_down_spec i j b n :
    match scan i j b n with
    | Some z => b <= z < b + n /\ inside i j z = true /\
                forall k, z < k < b + n -> inside i j k = false
    | None => forall k, b <= k < b + n -> inside i j k = false
    end.
  Proof.
    induction n as [|n IH]; cbn [scan_down].
    - intros; lia.
    - destruct (inside i j (b + n)) eqn:E.
      + split; [lia|split; [assumption|intros; lia]].
      + destruct (scan i j b n) as [z|].
        * destruct IH as (Hz & Hi & Hk). split; [lia|split; [assumption|]].
          intros k Hk'. destruct (Nat.eq_dec k (b + n)) as [->|]; [assumption|apply Hk; lia].
        * intros k Hk'. destruct (Nat.eq_dec k (b + n)) as [->|]; [assumption|apply IH; lia].
  Qed.

  (* scanning a column that is cut in two: the upper part dominates *)
  Lemma scan_down_app i j b n m :
    scan i j b (n + m) =
    match scan i j (b + n) m with Some z => Some z | None => scan i j b n end.
  Proof.
    induction m as [|m IH].
    - rewrite Nat.add_0_r. reflexivity.
    - rewrite Nat.add_succ_r. cbn [scan_down]. rewrite Nat.add_assoc.
      destruct (inside i j (b + n + m)); [reflexivity|apply IH].
  Qed.

  Lemma brute_le_top v i j z : brute v i j = Some z -> cz v <= z <= top v.
  Proof.
    unfold Heightmap.brute, top. intros H.
    pose proof (scan_down_spec i j (cz v) (sz v)) as S. rewrite H in S. lia.
  Qed.

  (* brute of a Z-split: omax of the halves (the upper half dominating) *)
  Lemma brute_zsplit v lo hi i j :
    cz lo = cz v -> cz hi = cz v + sz lo -> sz lo + sz hi = sz v ->
    brute v i j = omax (brute hi i j) (brute lo i j) /\
    (forall z, brute hi i j = Some z -> brute v i j = Some z).
  Proof.
    unfold Heightmap.brute. intros E1 E2 E3. rewrite <- E3, scan_down_app, E1, E2.
    pose proof (scan_down_spec i j (cz v + sz lo) (sz hi)) as Sh.
    pose proof (scan_down_spec i j (cz v) (sz lo)) as Sl.
    destruct (scan i j (cz v + sz lo) (sz hi)) as [zh|].
    - split; [|intros z Hz; exact Hz].
      destruct (scan i j (cz v) (sz lo)) as [zl|]; cbn [omax]; [|reflexivity].
      f_equal. lia.
    - split; [|discriminate]. rewrite omax_None_l. reflexivity.
  Qed.

  Lemma brute_same_z v w i j : cz w = cz v -> sz w = sz v -> brute w i j = brute v i j.
  Proof. unfold Heightmap.brute. intros -> ->. reflexivity. Qed.

  Lemma brute_empty v i j : sz v = 0 -> brute v i j = None.
  Proof. unfold Heightmap.brute. intros ->. reflexivity. Qed.

  (* ---------------------------------------------------------------- *)
  (* the per-pixel effect of Heightmap::pixels                         *)

  Definition g_pixels (v : view) (i j : nat) (d : option nat) : option nat :=
    if lt_top d (top v) then
      match scan i j (cz v) (sz v) with
      | Some z => if lt_top d z then Some z else d
      | None => d
      end
    else d.

  Lemma pixels_px_form v im i j i' j' :
    pixels_px v im i j i' j' =
    if (i' =? i) && (j' =? j) then g_pixels v i j (im i j) else im i' j'.
  Proof.
    unfold Heightmap.pixels_px, g_pixels.
    destruct ((i' =? i) && (j' =? j)) eqn:E.
    - apply andb_true_iff in E. destruct E as [E1 E2].
      apply Nat.eqb_eq in E1, E2. subst.
      destruct (lt_top (im i j) (top v)); [|reflexivity].
      destruct (scan i j (cz v) (sz v)); [|reflexivity].
      destruct (lt_top (im i j) n); [|reflexivity].
      unfold set_px. rewrite !Nat.eqb_refl. reflexivity.
    - destruct (lt_top (im i j) (top v)); [|reflexivity].
      destruct (scan i j (cz v) (sz v)); [|reflexivity].
      destruct (lt_top (im i j) n); [|reflexivity].
      unfold set_px. rewrite E. reflexivity.
  Qed.

  (* both single-pixel updates compute omax(old, column result) when the column
     result is at most top v *)
  Lemma g_pixels_omax v i j d : g_pixels v i j d = omax d (brute v i j).
  Proof.
    unfold g_pixels. pose proof (brute_le_top v i j) as B. unfold Heightmap.brute in *.
    destruct (scan i j (cz v) (sz v)) as [z|].
    - specialize (B z eq_refl). destruct d as [x|]; cbn [lt_top omax].
      + destruct (Nat.ltb_spec x (top v)).
        * destruct (Nat.ltb_spec x z); f_equal; lia.
        * f_equal; lia.
      + reflexivity.
    - rewrite omax_None_r. destruct (lt_top d (top v)); reflexivity.
  Qed.

  Lemma g_fill_omax v i j d : g_fill v i j d = omax d (Some (top v)).
  Proof.
    unfold g_fill. destruct d as [x|]; cbn [lt_top omax]; [|reflexivity].
    destruct (Nat.ltb_spec x (top v)); f_equal; lia.
  Qed.

  (* ---------------------------------------------------------------- *)
  (* 2. frame: recurse never changes a pixel outside the view          *)

  Theorem recurse_frame fuel limit : forall v im i j,
    ~ in_xy v i j -> recurse fuel limit v im i j = im i j.
  Proof.
    induction fuel as [|f IH]; intros v im i j Hout; cbn [Heightmap.recurse]; [reflexivity|].
    destruct (all_at_top v im); [reflexivity|].
    destruct (voxels v <=? limit).
    { apply (over_xy_spec _ _ (pixels_px_form v)). assumption. }
    destruct (classify v).
    - apply (over_xy_spec _ _ (fill_px_form v)). assumption.
    - reflexivity.
    - pose proof (split_xy_sub true true true v i j) as [S1 S2].
      destruct (split true true true v) as [lo hi]. cbn [fst snd] in *.
      rewrite IH by tauto. apply IH. tauto.
  Qed.

  (* the statement of the task, spelled out *)
  Corollary recurse_frame' fuel limit v im i j :
    ~ (cx v <= i < cx v + sx v /\ cy v <= j < cy v + sy v) ->
    recurse fuel limit v im i j = im i j.
  Proof. apply recurse_frame. Qed.

  (* locality: the pixels of the view after recurse depend only on the pixels of
     the view before *)
  Theorem recurse_local fuel limit : forall v im im',
    (forall i j, in_xy v i j -> im i j = im' i j) ->
    forall i j, in_xy v i j -> recurse fuel limit v im i j = recurse fuel limit v im' i j.
  Proof.
    induction fuel as [|f IH]; intros v im im' Hag i j Hin; cbn [Heightmap.recurse]; [auto|].
    rewrite (all_at_top_ext v im im' Hag).
    destruct (all_at_top v im'); [auto|].
    destruct (voxels v <=? limit).
    { rewrite (proj1 (over_xy_spec _ _ (pixels_px_form v) v im i j) Hin).
      rewrite (proj1 (over_xy_spec _ _ (pixels_px_form v) v im' i j) Hin).
      rewrite Hag by assumption. reflexivity. }
    destruct (classify v).
    - rewrite (proj1 (over_xy_spec _ _ (fill_px_form v) v im i j) Hin).
      rewrite (proj1 (over_xy_spec _ _ (fill_px_form v) v im' i j) Hin).
      rewrite Hag by assumption. reflexivity.
    - auto.
    - pose proof (fun i j => split_xy_sub true true true v i j) as S.
      destruct (split true true true v) as [lo hi]. cbn [fst snd] in *.
      (* after the upper half, the images still agree on all of v *)
      assert (Hag1 : forall i j, in_xy v i j ->
                 recurse f limit hi im i j = recurse f limit hi im' i j).
      { intros i1 j1 H1.
        destruct (in_xy_dec hi i1 j1) as [Hh|Hh].
        - apply IH; [|assumption]. intros i2 j2 H2. apply Hag. apply (proj2 (S _ _)). assumption.
        - rewrite !recurse_frame by assumption. apply Hag. assumption. }
      destruct (in_xy_dec lo i j) as [Hl|Hl].
      + apply IH; [|assumption]. intros i2 j2 H2. apply Hag1. apply (proj1 (S _ _)). assumption.
      + rewrite (recurse_frame f limit lo (recurse f limit hi im)),
                (recurse_frame f limit lo (recurse f limit hi im')) by assumption.
        apply Hag1. assumption.
  Qed.

  (* ---------------------------------------------------------------- *)
  (* 3. recurse = brute force                                          *)

  Lemma filled_brute v i j :
    classify_sound -> classify v = Filled -> 1 <= sz v -> in_xy v i j ->
    brute v i j = Some (top v).
  Proof.
    intros CS HF Hsz Hin. destruct (CS v) as [C1 _]. specialize (C1 HF).
    unfold Heightmap.brute, top.
    pose proof (scan_down_spec i j (cz v) (sz v)) as S.
    destruct (scan i j (cz v) (sz v)) as [z|].
    - destruct S as (Hz & _ & Hk). f_equal.
      destruct (Nat.eq_dec z (cz v + sz v - 1)) as [|Hne]; [assumption|exfalso].
      specialize (Hk (cz v + sz v - 1) ltac:(lia)).
      rewrite C1 in Hk; [discriminate|]. apply in_view_in_xy. split; [assumption|lia].
    - exfalso. specialize (S (cz v) ltac:(lia)).
      rewrite C1 in S; [discriminate|]. apply in_view_in_xy. split; [assumption|lia].
  Qed.

  Lemma empty_brute v i j :
    classify_sound -> classify v = Empty -> in_xy v i j -> brute v i j = None.
  Proof.
    intros CS HE Hin. destruct (CS v) as [_ C2]. specialize (C2 HE).
    unfold Heightmap.brute.
    pose proof (scan_down_spec i j (cz v) (sz v)) as S.
    destruct (scan i j (cz v) (sz v)) as [z|]; [exfalso|reflexivity].
    destruct S as (Hz & Hi & _).
    rewrite C2 in Hi; [discriminate|]. apply in_view_in_xy. split; [assumption|lia].
  Qed.

  (* a view without z extent is never drawn into *)
  Lemma recurse_degenerate fuel limit v im i j :
    sz v = 0 -> recurse fuel limit v im i j = im i j.
  Proof.
    intros Hz. destruct fuel as [|f]; cbn [Heightmap.recurse]; [reflexivity|].
    destruct (all_at_top v im); [reflexivity|].
    assert (E : voxels v <=? limit = true).
    { apply Nat.leb_le. unfold voxels. rewrite Hz, Nat.mul_0_r. lia. }
    rewrite E. destruct (in_xy_dec v i j) as [Hin|Hout].
    - rewrite (proj1 (over_xy_spec _ _ (pixels_px_form v) v im i j) Hin).
      rewrite g_pixels_omax, brute_empty, omax_None_r by assumption. reflexivity.
    - apply (over_xy_spec _ _ (pixels_px_form v)). assumption.
  Qed.

  Theorem recurse_eq_brute limit :
    classify_sound -> 1 <= limit ->
    forall fuel v im,
      sx v + sy v + sz v <= fuel + 2 ->
      forall i j, in_xy v i j ->
        recurse fuel limit v im i j = omax (im i j) (brute v i j).
  Proof.
    intros CS HL. induction fuel as [|f IH]; intros v im Hfuel i j Hin;
      cbn [Heightmap.recurse].
    - (* no fuel: only possible when the view has no z extent *)
      assert (sz v = 0) by (unfold in_xy in Hin; lia).
      rewrite brute_empty, omax_None_r by assumption. reflexivity.
    - destruct (all_at_top v im) eqn:Eat.
      + (* the whole block is at or above the top of the view *)
        pose proof (proj1 (all_at_top_spec v im) Eat i j Hin) as Hlt.
        destruct (brute v i j) as [z|] eqn:Eb; [|rewrite omax_None_r; reflexivity].
        apply brute_le_top in Eb.
        destruct (im i j) as [x|]; cbn [lt_top] in Hlt; [|discriminate].
        apply Nat.ltb_ge in Hlt. cbn [omax]. f_equal. lia.
      + destruct (Nat.leb_spec (voxels v) limit) as [Hvl|Hvl].
        * (* brute pixel pass *)
          rewrite (proj1 (over_xy_spec _ _ (pixels_px_form v) v im i j) Hin).
          apply g_pixels_omax.
        * assert (Hv2 : 2 <= voxels v) by lia.
          assert (Hpos : 1 <= sz v).
          { apply (prod3_pos (sx v) (sy v) (sz v)). unfold voxels in Hv2. lia. }
          destruct (classify v) eqn:Ec.
          -- (* Filled *)
            rewrite (proj1 (over_xy_spec _ _ (fill_px_form v) v im i j) Hin).
            rewrite g_fill_omax, filled_brute by assumption. reflexivity.
          -- (* Empty *)
            rewrite empty_brute, omax_None_r by assumption. reflexivity.
          -- (* Ambiguous: split, upper half first *)
            destruct (split true true true v) as [lo hi] eqn:Es.
            destruct (split3_shape v lo hi Hv2 Es)
              as (Slo & Shi & Scov &
                  [(Sdis & Z1 & Z2 & Z3 & Z4) | (Xlo & Xhi & Z1 & Z2 & Z3 & _)]).
            ++ (* X or Y split: the pixel lies in exactly one half *)
              destruct (in_xy_dec lo i j) as [Hl|Hl].
              ** assert (Hh : ~ in_xy hi i j) by (intro; apply (Sdis i j); auto).
                 rewrite IH by (assumption || lia).
                 rewrite recurse_frame by assumption.
                 rewrite (brute_same_z v lo) by assumption. reflexivity.
              ** assert (Hh : in_xy hi i j) by (apply Scov in Hin; tauto).
                 rewrite recurse_frame by assumption.
                 rewrite IH by (assumption || lia).
                 rewrite (brute_same_z v hi) by assumption. reflexivity.
            ++ (* Z split: the pixel lies in both halves *)
              rewrite IH; [|lia|apply Xlo; assumption].
              rewrite IH; [|lia|apply Xhi; assumption].
              rewrite omax_assoc. f_equal. symmetry. apply brute_zsplit; assumption.
  Qed.

  (* the same with fuel measured in voxels *)
  Corollary recurse_eq_brute_voxels limit fuel v im i j :
    classify_sound -> 1 <= limit -> voxels v < fuel -> in_xy v i j ->
    recurse fuel limit v im i j = omax (im i j) (brute v i j).
  Proof.
    intros CS HL Hf Hin. destruct (sz v) as [|n] eqn:Ez.
    - rewrite recurse_degenerate, brute_empty, omax_None_r by assumption. reflexivity.
    - apply recurse_eq_brute; try assumption.
      unfold in_xy in Hin. unfold voxels in Hf.
      pose proof (sum_le_prod3 (sx v) (sy v) (sz v)). lia.
  Qed.

  (* rendering into an empty image gives exactly the brute-force heightmap *)
  Corollary recurse_from_empty limit fuel v i j :
    classify_sound -> 1 <= limit -> sx v + sy v + sz v <= fuel + 2 -> in_xy v i j ->
    recurse fuel limit v (fun _ _ => None) i j = brute v i j.
  Proof.
    intros. rewrite recurse_eq_brute by assumption. apply omax_None_l.
  Qed.
End Sem.

(* ------------------------------------------------------------------ *)
(* [1 <= limit] is necessary in recurse_eq_brute: with limit = 0 a 1x1x1 view
   classified Ambiguous is split into itself and an empty view, so the model
   runs out of fuel (the C++ would recurse forever) and the filled voxel is
   never drawn.  (ArrayEvaluator::N = 256 in libfive, so this cannot happen.) *)

Definition unit_view : view := {| cx := 0; cy := 0; cz := 0; sx := 1; sy := 1; sz := 1 |}.

Lemma limit0_counterexample :
  let inside := fun _ _ _ : nat => true in
  let classify := fun _ : view => Ambiguous in
  classify_sound inside classify /\
  in_xy unit_view 0 0 /\
  brute inside unit_view 0 0 = Some 0 /\
  forall fuel, recurse inside classify fuel 0 unit_view (fun _ _ => None) 0 0 = None.
Proof.
  cbv zeta. split; [|split; [|split]].
  - intros v. split; discriminate.
  - unfold in_xy, unit_view. cbn. lia.
  - reflexivity.
  - assert (G : forall fuel im, im 0 0 = None ->
               recurse (fun _ _ _ => true) (fun _ => Ambiguous) fuel 0 unit_view im 0 0 = None).
    { induction fuel as [|f IH]; intros im Him; cbn [recurse]; [assumption|].
      assert (A : all_at_top unit_view im = false).
      { unfold all_at_top, unit_view. cbn. rewrite Him. reflexivity. }
      rewrite A.
      change (voxels unit_view <=? 0) with false. cbv iota.
      change (split true true true unit_view) with
          (unit_view, {| cx := 1; cy := 0; cz := 0; sx := 0; sy := 1; sz := 1 |}).
      apply IH. rewrite recurse_frame; [assumption|]. unfold in_xy. cbn. lia. }
    intros fuel. apply G. reflexivity.
Qed.

(* ------------------------------------------------------------------ *)
(* 4. the XY pre-partition among workers                               *)

Definition xy_disjoint (a b : view) : Prop := forall i j, ~ (in_xy a i j /\ in_xy b i j).

Lemma xy_disjoint_sym a b : xy_disjoint a b -> xy_disjoint b a.
Proof. unfold xy_disjoint. intros H i j [? ?]. apply (H i j). auto. Qed.

Lemma FOP_perm (A : Type) (R : A -> A -> Prop) :
  (forall x y, R x y -> R y x) ->
  forall l l', Permutation l l' -> ForallOrdPairs R l -> ForallOrdPairs R l'.
Proof.
  intros Sym l l' HP. induction HP as [|x l l' HP IH|x y l|l l' l'' HP1 IH1 HP2 IH2]; intros H.
  - constructor.
  - inversion H as [|? ? HF HO]; subst. constructor; [|auto].
    eapply Permutation_Forall; eassumption.
  - inversion H as [|? ? HF HO]; subst. inversion HO as [|? ? HF' HO']; subst.
    inversion HF as [|? ? Hyx HFy]; subst.
    constructor; [constructor; [apply Sym; assumption|assumption]|].
    constructor; assumption.
  - auto.
Qed.

(* the invariant of the partition loop *)
Definition part_inv (root : view) (rs : list view) : Prop :=
  ForallOrdPairs xy_disjoint rs /\
  (forall i j, in_xy root i j <-> exists v, In v rs /\ in_xy v i j) /\
  Forall (fun v => cz v = cz root /\ sz v = sz root /\
                   (1 <= sx root -> 1 <= sy root -> 1 <= sx v /\ 1 <= sy v)) rs.

Lemma part_inv_init root : part_inv root [root].
Proof.
  split; [|split].
  - constructor; constructor.
  - intros i j. split.
    + intros H. exists root. split; [left; reflexivity|assumption].
    + intros (v & [<-|[]] & H). assumption.
  - constructor; [|constructor]. auto.
Qed.

Lemma part_inv_perm root rs rs' : Permutation rs rs' -> part_inv root rs -> part_inv root rs'.
Proof.
  intros HP (D & C & F). split; [|split].
  - eapply FOP_perm; [exact xy_disjoint_sym|eassumption|assumption].
  - intros i j. rewrite C. split; intros (v & Hv & H); exists v; split; try assumption.
    + eapply Permutation_in; eassumption.
    + eapply Permutation_in; [apply Permutation_sym|]; eassumption.
  - eapply Permutation_Forall; eassumption.
Qed.

Lemma part_inv_step root front rest a b :
  part_inv root (front :: rest) -> 2 <= sx front -> 2 <= sy front ->
  split true true false front = (a, b) ->
  part_inv root (rest ++ [a; b]).
Proof.
  intros (D & C & F) Hx Hy Hs.
  destruct (split_xy_shape front a b Hx Hy Hs)
    as (A1 & A2 & B1 & B2 & Za1 & Za2 & Zb1 & Zb2 & Cov & Dis).
  apply (part_inv_perm root ([a; b] ++ rest)); [apply Permutation_app_comm|].
  cbn [app].
  inversion D as [|? ? DF DO]; subst. inversion F as [|? ? (Zf1 & Zf2 & _) FF]; subst.
  rewrite Forall_forall in DF.
  split; [|split].
  - constructor; [constructor|constructor].
    + exact Dis.
    + apply Forall_forall. intros r Hr i j [Ha Hrr].
      apply (DF r Hr i j). split; [apply Cov; left|]; assumption.
    + apply Forall_forall. intros r Hr i j [Hb Hrr].
      apply (DF r Hr i j). split; [apply Cov; right|]; assumption.
    + assumption.
  - intros i j. rewrite C. split.
    + intros (v & [<-|Hv] & H).
      * apply Cov in H. destruct H as [H|H]; [exists a|exists b]; cbn [In]; auto.
      * exists v. cbn [In]. auto.
    + intros (v & [<-|[<-|Hv]] & H).
      * exists front. split; [left; reflexivity|apply Cov; left; assumption].
      * exists front. split; [left; reflexivity|apply Cov; right; assumption].
      * exists v. split; [right|]; assumption.
  - constructor; [|constructor]; [| |assumption]; (split; [congruence|split; [congruence|auto]]).
Qed.

Lemma partition_inv root workers : forall fuel rs,
  part_inv root rs -> part_inv root (partition fuel workers rs).
Proof.
  induction fuel as [|f IH]; intros rs H; cbn [partition]; [assumption|].
  destruct rs as [|front rest]; [assumption|].
  destruct ((length (front :: rest) <? workers) && (1 <? Nat.min (sx front) (sy front))) eqn:E;
    [|assumption].
  apply andb_true_iff in E. destruct E as [_ E]. apply Nat.ltb_lt in E.
  destruct (split true true false front) as [a b] eqn:Es.
  apply IH. eapply part_inv_step; try eassumption; lia.
Qed.

Lemma partition_length workers : forall fuel rs,
  length rs <= length (partition fuel workers rs) <= Nat.max workers (length rs).
Proof.
  induction fuel as [|f IH]; intros rs; cbn [partition]; [lia|].
  destruct rs as [|front rest]; [cbn; lia|].
  destruct ((length (front :: rest) <? workers) && (1 <? Nat.min (sx front) (sy front))) eqn:E;
    [|lia].
  apply andb_true_iff in E. destruct E as [E _]. apply Nat.ltb_lt in E.
  destruct (split true true false front) as [a b].
  specialize (IH (rest ++ [a; b])). rewrite app_length in IH. cbn [length] in *. lia.
Qed.

(* the exit condition of the C++ while loop *)
Definition part_done (workers : nat) (rs : list view) : Prop :=
  match rs with
  | [] => True
  | front :: _ => workers <= length rs \/ Nat.min (sx front) (sy front) <= 1
  end.

Lemma partition_done workers : forall fuel rs,
  workers <= fuel + length rs -> part_done workers (partition fuel workers rs).
Proof.
  induction fuel as [|f IH]; intros rs H; cbn [partition].
  - destruct rs; cbn [part_done]; [exact I|left; lia].
  - destruct rs as [|front rest]; [exact I|].
    destruct ((length (front :: rest) <? workers) && (1 <? Nat.min (sx front) (sy front))) eqn:E.
    + destruct (split true true false front) as [a b].
      apply IH. rewrite app_length. cbn [length] in *. lia.
    + apply andb_false_iff in E. cbn [part_done].
      destruct E as [E|E]; apply Nat.ltb_ge in E; [left|right]; assumption.
Qed.

Theorem partition_ok root workers fuel :
  let ps := partition fuel workers [root] in
  (* pairwise disjoint in XY *)
  ForallOrdPairs xy_disjoint ps /\
  (* cover exactly the root's XY range *)
  (forall i j, in_xy root i j <-> exists v, In v ps /\ in_xy v i j) /\
  (* full z range; non-empty if the root is *)
  Forall (fun v => cz v = cz root /\ sz v = sz root /\
                   (1 <= sx root -> 1 <= sy root -> 1 <= sx v /\ 1 <= sy v)) ps /\
  (* between 1 and max workers 1 regions *)
  1 <= length ps <= Nat.max workers 1 /\
  (* with enough fuel the list is the one the C++ loop stops at *)
  (workers <= fuel + 1 -> part_done workers ps).
Proof.
  cbv zeta. pose proof (partition_inv root workers fuel [root] (part_inv_init root)) as (D & C & F).
  split; [assumption|split; [assumption|split; [assumption|split]]].
  - apply (partition_length workers fuel [root]).
  - intros H. apply partition_done. cbn [length]. assumption.
Qed.

(* every region of the partition lies inside the root *)
Lemma part_inv_sub root rs v :
  part_inv root rs -> In v rs -> 1 <= sx v -> 1 <= sy v ->
  sx v <= sx root /\ sy v <= sy root.
Proof.
  intros (_ & C & _) Hv Hx Hy.
  assert (L : in_xy root (cx v) (cy v)).
  { apply C. exists v. split; [assumption|]. unfold in_xy. lia. }
  assert (U : in_xy root (cx v + sx v - 1) (cy v + sy v - 1)).
  { apply C. exists v. split; [assumption|]. unfold in_xy. lia. }
  unfold in_xy in *. lia.
Qed.

(* ------------------------------------------------------------------ *)
(* 5. the result does not depend on the order (or number) of workers   *)

Lemma covered_dec (vs : list view) i j :
  (exists v, In v vs /\ in_xy v i j) \/ (forall v, In v vs -> ~ in_xy v i j).
Proof.
  induction vs as [|a r IH].
  - right. intros v [].
  - destruct (in_xy_dec a i j) as [Ha|Ha].
    + left. exists a. split; [left; reflexivity|assumption].
    + destruct IH as [(v & Hv & H)|IH].
      * left. exists v. split; [right|]; assumption.
      * right. intros v [<-|Hv]; auto.
Qed.

Section Order.
  Variable inside : nat -> nat -> nat -> bool.
  Variable classify : view -> cls.

  Notation brute := (brute inside).
  Notation recurse := (recurse inside classify).
  Notation classify_sound := (classify_sound inside classify).

  (* the regions rendered one after the other, in list order, into one image *)
  Definition render_list (fuel limit : nat) (vs : list view) (im : image) : image :=
    fold_left (fun im v => recurse fuel limit v im) vs im.

  (* with pairwise XY-disjoint regions every pixel is decided by the one region
     containing it, applied to the INITIAL image *)
  Lemma render_list_spec fuel limit : forall vs,
    ForallOrdPairs xy_disjoint vs ->
    forall im i j,
      (forall v, In v vs -> in_xy v i j ->
                 render_list fuel limit vs im i j = recurse fuel limit v im i j) /\
      ((forall v, In v vs -> ~ in_xy v i j) -> render_list fuel limit vs im i j = im i j).
  Proof.
    induction vs as [|a r IH]; intros D im i j.
    - split; [intros v []|reflexivity].
    - inversion D as [|? ? DF DO]; subst. rewrite Forall_forall in DF.
      unfold render_list. cbn [fold_left]. fold (render_list fuel limit r (recurse fuel limit a im)).
      destruct (IH DO (recurse fuel limit a im) i j) as [I1 I2]. split.
      + intros v [<-|Hv] Hin.
        * apply I2. intros w Hw Hwin. apply (DF w Hw i j). auto.
        * rewrite (I1 v Hv Hin). apply recurse_local; [|assumption].
          intros i' j' Hin'. apply recurse_frame.
          intros Ha. apply (DF v Hv i' j'). auto.
      + intros Hn. rewrite I2 by (intros; apply Hn; right; assumption).
        apply recurse_frame. apply Hn. left. reflexivity.
  Qed.

  Theorem render_order_independent fuel limit vs vs' :
    ForallOrdPairs xy_disjoint vs -> Permutation vs vs' ->
    forall im i j, render_list fuel limit vs im i j = render_list fuel limit vs' im i j.
  Proof.
    intros D HP im i j.
    assert (D' : ForallOrdPairs xy_disjoint vs')
      by (eapply FOP_perm; [exact xy_disjoint_sym|eassumption|assumption]).
    destruct (render_list_spec fuel limit vs D im i j) as [A1 A2].
    destruct (render_list_spec fuel limit vs' D' im i j) as [B1 B2].
    destruct (covered_dec vs i j) as [(v & Hv & Hin)|Hn].
    - rewrite (A1 v Hv Hin). symmetry. apply B1; [|assumption].
      eapply Permutation_in; eassumption.
    - rewrite A2 by assumption. symmetry. apply B2.
      intros v Hv. apply Hn. eapply Permutation_in; [apply Permutation_sym|]; eassumption.
  Qed.

  (* rendering the worker regions of [root], in any order, from the all-None image
     gives the brute-force heightmap of [root] *)
  Theorem render_partition_eq_brute limit fuel pfuel workers root vs :
    classify_sound -> 1 <= limit ->
    sx root + sy root + sz root <= fuel + 2 ->
    Permutation (partition pfuel workers [root]) vs ->
    forall i j,
      (in_xy root i j -> render_list fuel limit vs (fun _ _ => None) i j = brute root i j) /\
      (~ in_xy root i j -> render_list fuel limit vs (fun _ _ => None) i j = None).
  Proof.
    intros CS HL Hf HP i j.
    pose proof (part_inv_perm root _ _ HP
                  (partition_inv root workers pfuel [root] (part_inv_init root))) as Inv.
    destruct Inv as (D & C & F).
    destruct (render_list_spec fuel limit vs D (fun _ _ => None) i j) as [A1 A2].
    split.
    - intros Hin. destruct (proj1 (C i j) Hin) as (v & Hv & Hvin).
      rewrite (A1 v Hv Hvin).
      rewrite Forall_forall in F. destruct (F v Hv) as (Z1 & Z2 & NE).
      assert (Hne : 1 <= sx v /\ 1 <= sy v) by (unfold in_xy in Hvin; lia).
      destruct (part_inv_sub root vs v (conj D (conj C (proj2 (Forall_forall _ _) F))) Hv)
        as [Sx Sy]; try tauto.
      rewrite recurse_from_empty; try assumption; [|lia].
      apply brute_same_z; assumption.
    - intros Hout. apply A2. intros v Hv Hvin. apply Hout. apply C. exists v. auto.
  Qed.

  (* hence neither the number of workers nor their order matters *)
  Corollary render_workers_independent limit fuel pf1 pf2 w1 w2 root vs1 vs2 :
    classify_sound -> 1 <= limit ->
    sx root + sy root + sz root <= fuel + 2 ->
    Permutation (partition pf1 w1 [root]) vs1 ->
    Permutation (partition pf2 w2 [root]) vs2 ->
    forall i j,
      render_list fuel limit vs1 (fun _ _ => None) i j =
      render_list fuel limit vs2 (fun _ _ => None) i j.
  Proof.
    intros CS HL Hf P1 P2 i j.
    destruct (render_partition_eq_brute limit fuel pf1 w1 root vs1 CS HL Hf P1 i j) as [A1 A2].
    destruct (render_partition_eq_brute limit fuel pf2 w2 root vs2 CS HL Hf P2 i j) as [B1 B2].
    destruct (in_xy_dec root i j) as [H|H].
    - rewrite A1, B1 by assumption. reflexivity.
    - rewrite A2, B2 by assumption. reflexivity.
  Qed.
End Order.
