(* C10 (adaptive quadtrees): the contour of a consistent adaptive quadtree BOUNDS the slice.
   Model: Render/QuadTree.v; closedness: Render/QuadTreeSem.v.  This file proves that the segments of
   contour_walk sit exactly at the sign changes between adjacent leaves, how they are directed, and
   that lattice paths along the leaf subdivision cross an odd number of them iff their ends differ.

   No axioms.  THEOREMS (t any tree with [consistent ins t (0,0) k]; [leaves t [] (0,0) k] its placed
   non-branching cells; [min_edge A a b s k']: a, b face each other across [s, s + 2^k'] of axis A, a on
   the low side, and the interval is a whole side of the smaller):
   1.  adaptive_segments_at_sign_changes   every segment = load A a b for two ambiguous leaves across a
                                           minimal edge whose ends differ; x = seg_of ins A a b s k'
       adaptive_sign_changes_give_segments every such edge: both leaves ambiguous, load = [seg_of ..],
                                           the segment is in the soup; NoDup soup under boundary_clear
       adaptive_edge_of_segment_unique     edge |-> segment is injective (so 1. is a bijection)
   2.  adaptive_segments_oriented          a -> b iff the inside end is s (A = 1) / s + 2^k' (A = 2);
                                           cross2 travel (inside - outside) = 2^k' > 0: inside on the LEFT
   3.  adaptive_contours_separate          along any path of minimal edges the emitted segments are in
                                           the soup and their number is odd iff ins p <> ins q
   PROOF: psplit (one step of edge2 on one argument, with positions and the leaves below),
   edge2_sound / walk_sound, edge2_complete / walk_complete (the 16 pairs of children of a branch: same
   child -> induction, neighbours across axis A -> edge2, the others are geometrically impossible),
   load_spec (min-level rule: the smaller leaf's corners are the ends of the edge). *)
From Coq Require Import List ZArith Bool Lia Arith.
From LF Require Import Gen.MarchTables_gen Render.DCGrid2 Render.Contours Render.ContoursSem Render.DCGrid2Sem
                       Render.QuadTree Render.QuadTreeSem.
Import ListNotations.
Local Open Scope Z_scope.

(* ------------------------------------------------------------------------- *)
(** * Placed cells and the leaves of a tree *)

(* a cell together with where it lies: tree, path, lower corner, level *)
Record pcell := PC { pc_t : qtree; pc_p : path; pc_o : pt2; pc_k : nat }.
Definition pc_cell (a : pcell) : cell := (pc_t a, pc_p a).

(* the non-branching cells below (t, p, o, k) *)
Fixpoint leaves (t : qtree) (p : path) (o : pt2) (k : nat) : list pcell :=
  match t with
  | QB c0 c1 c2 c3 =>
      leaves c0 (0 :: p) (child_org o k 0) (pred k) ++ leaves c1 (1 :: p) (child_org o k 1) (pred k) ++
      leaves c2 (2 :: p) (child_org o k 2) (pred k) ++ leaves c3 (3 :: p) (child_org o k 3) (pred k)
  | _ => [PC t p o k]
  end.
Definition pleaves (c : pcell) : list pcell := leaves (pc_t c) (pc_p c) (pc_o c) (pc_k c).

(* XTree::child with positions *)
Definition pchild (c : pcell) (i : Z) : pcell :=
  if is_branch (pc_t c) then PC (sub (pc_t c) i) (i :: pc_p c) (child_org (pc_o c) (pc_k c) i) (pred (pc_k c)) else c.

Lemma pc_cell_pchild c i : pc_cell (pchild c i) = child (pc_cell c) i.
Proof. unfold pchild, child, pc_cell. cbn [fst snd]. destruct (is_branch (pc_t c)); reflexivity. Qed.

(* [on_side A hi a s k]: the lattice interval [s, s + 2^k] of axis A (1 = X, 2 = Y) lies on the side of
   the placed cell a that is parallel to axis A: the high one (top for A = 1, right for A = 2) when
   [hi], the low one otherwise; it may be a proper part of that side *)
Definition on_side (A : Z) (hi : bool) (a : pcell) (s : pt2) (k : nat) : Prop :=
  (k <= pc_k a)%nat /\
  exists j, 0 <= j /\ j + csize k <= csize (pc_k a) /\ s = adv A (side_start A hi (pc_o a) (pc_k a)) j.

(* [min_edge A a b s k]: a and b face each other across the interval [s, s + 2^k] of axis A
   (a on the low side of it: the interval is on a's high side and on b's low side), and the interval
   is a whole side of the smaller of the two: a minimal edge of the subdivision *)
Definition min_edge (A : Z) (a b : pcell) (s : pt2) (k : nat) : Prop :=
  on_side A true a s k /\ on_side A false b s k /\ (pc_k a = k \/ pc_k b = k).

Definition pfits (ins : pt2 -> bool) (A : Z) (hi : bool) (c : pcell) (s : pt2) (k : nat) : Prop :=
  fits ins A hi (pc_t c) (pc_o c) (pc_k c) s k.

Lemma pfits_on_side ins A hi c s k : pfits ins A hi c s k -> on_side A hi c s k.
Proof. intros [_ [H1 [_ H2]]]. split; assumption. Qed.

Lemma leaves_nonbranch t p o k : is_branch t = false -> leaves t p o k = [PC t p o k].
Proof. destruct t; try discriminate; reflexivity. Qed.

Lemma leaves_inside ins : forall t p x y k a,
  consistent ins t (x, y) k -> In a (leaves t p (x, y) k) ->
  (pc_k a <= k)%nat /\ x <= fst (pc_o a) /\ fst (pc_o a) + csize (pc_k a) <= x + csize k /\
  y <= snd (pc_o a) /\ snd (pc_o a) + csize (pc_k a) <= y + csize k.
Proof.
  induction t as [| |l m mf|c0 IH0 c1 IH1 c2 IH2 c3 IH3]; intros p x y k a C Ha;
    try (cbn [leaves] in Ha; destruct Ha as [<-|[]]; cbn [pc_k pc_o fst snd]; lia).
  cbn [consistent] in C. destruct C as [Hk [C0 [C1 [C2 C3]]]].
  destruct k as [|k]; [congruence|]. cbn [pred] in *.
  destruct (child_org_xy x y k) as [E0 [E1 [E2 E3]]]. cbn [leaves pred] in Ha.
  rewrite E0, E1, E2, E3 in *. pose proof (csize_S k) as HS. pose proof (csize_pos k) as Hp.
  apply in_app_or in Ha. destruct Ha as [Ha|Ha]; [specialize (IH0 _ _ _ _ _ C0 Ha); lia|].
  apply in_app_or in Ha. destruct Ha as [Ha|Ha]; [specialize (IH1 _ _ _ _ _ C1 Ha); lia|].
  apply in_app_or in Ha. destruct Ha as [Ha|Ha]; [specialize (IH2 _ _ _ _ _ C2 Ha); lia|].
  specialize (IH3 _ _ _ _ _ C3 Ha); lia.
Qed.

Lemma leaves_consistent ins : forall t p o k a,
  consistent ins t o k -> In a (leaves t p o k) ->
  consistent ins (pc_t a) (pc_o a) (pc_k a) /\ is_branch (pc_t a) = false.
Proof.
  induction t as [| |l m mf|c0 IH0 c1 IH1 c2 IH2 c3 IH3]; intros p o k a C Ha;
    try (cbn [leaves] in Ha; destruct Ha as [<-|[]]; cbn [pc_k pc_o pc_t]; split; [exact C|reflexivity]).
  cbn [consistent] in C. destruct C as [Hk [C0 [C1 [C2 C3]]]]. cbn [leaves] in Ha.
  apply in_app_or in Ha. destruct Ha as [Ha|Ha]; [exact (IH0 _ _ _ _ C0 Ha)|].
  apply in_app_or in Ha. destruct Ha as [Ha|Ha]; [exact (IH1 _ _ _ _ C1 Ha)|].
  apply in_app_or in Ha. destruct Ha as [Ha|Ha]; [exact (IH2 _ _ _ _ C2 Ha)|].
  exact (IH3 _ _ _ _ C3 Ha).
Qed.

Lemma leaves_path : forall t p o k a, In a (leaves t p o k) -> exists xs, pc_p a = xs ++ p.
Proof.
  induction t as [| |l m mf|c0 IH0 c1 IH1 c2 IH2 c3 IH3]; intros p o k a Ha;
    try (cbn [leaves] in Ha; destruct Ha as [<-|[]]; exists []; reflexivity).
  cbn [leaves] in Ha.
  assert (K : forall i, (exists xs, pc_p a = xs ++ i :: p) -> exists xs, pc_p a = xs ++ p).
  { intros i [xs E]. exists (xs ++ [i]). rewrite <- app_assoc. exact E. }
  apply in_app_or in Ha. destruct Ha as [Ha|Ha]; [exact (K _ (IH0 _ _ _ _ Ha))|].
  apply in_app_or in Ha. destruct Ha as [Ha|Ha]; [exact (K _ (IH1 _ _ _ _ Ha))|].
  apply in_app_or in Ha. destruct Ha as [Ha|Ha]; [exact (K _ (IH2 _ _ _ _ Ha))|].
  exact (K _ (IH3 _ _ _ _ Ha)).
Qed.

(* the leaves of a child are leaves of the parent *)
Lemma pleaves_pchild c i : (i = 0 \/ i = 1 \/ i = 2 \/ i = 3) -> incl (pleaves (pchild c i)) (pleaves c).
Proof.
  intros Hi a Ha. unfold pchild in Ha. destruct c as [t p o k]. cbn [pc_t pc_p pc_o pc_k] in Ha.
  destruct t as [| | |c0 c1 c2 c3]; cbn [is_branch] in Ha; try exact Ha.
  unfold pleaves in *. cbn [pc_t pc_p pc_o pc_k] in *. cbn [leaves].
  destruct Hi as [-> | [-> | [-> | ->]]]; cbn [sub Z.eqb Pos.eqb] in Ha; rewrite !in_app_iff; auto.
Qed.

(* ------------------------------------------------------------------------- *)
(** * What load emits for two leaves facing each other across a minimal edge *)

Definition vidx (t : qtree) (es : Z) : Z :=
  match t with QA l m _ => if Nat.ltb 0 l then 0 else p2 m es | _ => 0 end.

(* a -> b when [dir], b -> a otherwise; the patch indices are those of load *)
Definition seg_dir (ins : pt2 -> bool) (A : Z) (s : pt2) (k : nat) : bool :=
  negb ((ins s && (A =? 2)) || (ins (adv A s (csize k)) && (A =? 1))).
Definition seg_of (ins : pt2 -> bool) (A : Z) (a b : pcell) (s : pt2) (k : nat) : qseg :=
  let D := seg_dir ins A s k in
  let '(es0, es1) := if xorb D (A =? 1) then (e2 3 (3 - A), e2 A 0) else (e2 (3 - A) 3, e2 0 A) in
  let v0 := (pc_p a, vidx (pc_t a) es0) in
  let v1 := (pc_p b, vidx (pc_t b) es1) in
  if D then (v0, v1) else (v1, v0).

Definition crosses (ins : pt2 -> bool) (A : Z) (s : pt2) (k : nat) : bool :=
  negb (Bool.eqb (ins s) (ins (adv A s (csize k)))).

Lemma on_side_in_closed A hi a s k : A = 1 \/ A = 2 -> on_side A hi a s k ->
  in_closed (pc_o a) (pc_k a) s /\ in_closed (pc_o a) (pc_k a) (adv A s (csize k)).
Proof.
  intros HA [_ [j [Hj [Hj' ->]]]]. rewrite adv_adv. destruct (pc_o a) as [x y].
  pose proof (csize_pos k). pose proof (csize_pos (pc_k a)).
  destruct HA as [-> | ->]; destruct hi;
    rewrite ?side_start_lo, ?side_start_hi1, ?side_start_hi2, ?adv_1, ?adv_2, !in_closed_xy; lia.
Qed.

Lemma on_side_exact A hi a s : on_side A hi a s (pc_k a) -> s = side_start A hi (pc_o a) (pc_k a).
Proof. intros [_ [j [Hj [Hj' ->]]]]. assert (j = 0) as -> by lia. apply adv_0. Qed.

(* a pruned leaf next to a minimal edge: both ends have its sign *)
Lemma min_edge_uniform ins A a s k hi : A = 1 \/ A = 2 ->
  consistent ins (pc_t a) (pc_o a) (pc_k a) -> is_branch (pc_t a) = false -> is_ambig_leaf (pc_t a) = false ->
  on_side A hi a s k -> crosses ins A s k = false.
Proof.
  intros HA C NB NA OS. destruct (on_side_in_closed A hi a s k HA OS) as [I1 I2].
  unfold crosses. rewrite (uniform_ends ins _ _ _ _ _ NA NB C I1 I2), eqb_reflx. reflexivity.
Qed.

(** load on two consistent leaves across a minimal edge: one segment iff both leaves are ambiguous
    and the ends of the edge differ, and then it is [seg_of]. *)
Lemma load_spec ins A a b s k : A = 1 \/ A = 2 ->
  consistent ins (pc_t a) (pc_o a) (pc_k a) -> is_branch (pc_t a) = false ->
  consistent ins (pc_t b) (pc_o b) (pc_k b) -> is_branch (pc_t b) = false ->
  min_edge A a b s k ->
  load A (pc_cell a) (pc_cell b) =
  if is_ambig_leaf (pc_t a) && is_ambig_leaf (pc_t b) && crosses ins A s k then [seg_of ins A a b s k] else [].
Proof.
  intros HA Ca Ba Cb Bb [Sa [Sb Hex]].
  destruct (is_ambig_leaf (pc_t a)) eqn:Aa; [|rewrite load_nonambig_l by exact Aa; reflexivity].
  destruct (is_ambig_leaf (pc_t b)) eqn:Ab; [|rewrite load_nonambig_r by exact Ab; reflexivity].
  cbn [andb].
  destruct a as [ta pa oa ka], b as [tb pb ob kb]. cbn [pc_t pc_p pc_o pc_k] in *.
  destruct ta as [| |la ma fa|]; try discriminate. destruct tb as [| |lb mb fb|]; try discriminate.
  assert (La : la = ka) by (cbn [consistent] in Ca; tauto).
  assert (Lb : lb = kb) by (cbn [consistent] in Cb; tauto).
  subst la lb.
  assert (Hx : corner_state (if Nat.ltb kb ka then QA kb mb fb else QA ka ma fa) (if Nat.ltb kb ka then 0 else 3 - A)
               = ins s /\
               corner_state (if Nat.ltb kb ka then QA kb mb fb else QA ka ma fa)
                            (Z.lor (if Nat.ltb kb ka then 0 else 3 - A) A) = ins (adv A s (csize k))).
  { destruct Sa as [Ka Sa']. destruct Sb as [Kb Sb']. cbn [pc_k] in *.
    destruct (Nat.ltb kb ka) eqn:Lt.
    + apply Nat.ltb_lt in Lt. assert (k = kb) by lia. subst k.
      rewrite (on_side_exact A false (PC (QA kb mb fb) pb ob kb) s (conj Kb Sb')), side_start_lo.
      cbn [corner_state pc_o pc_k]. apply (exact_lo ins A kb mb fb ob kb HA Cb).
    + apply Nat.ltb_ge in Lt. assert (k = ka) by lia. subst k.
      rewrite (on_side_exact A true (PC (QA ka ma fa) pa oa ka) s (conj Ka Sa')).
      cbn [corner_state pc_o pc_k]. apply (exact_hi ins A ka ma fa oa ka HA Ca). }
  destruct Hx as [Hx Hy].
  unfold load, pc_cell, seg_of, seg_dir, crosses, vidx. cbn [fst snd pc_t pc_p]. cbv zeta.
  rewrite Hx, Hy.
  destruct (Bool.eqb (ins s) (ins (adv A s (csize k)))); cbn [negb]; [reflexivity|].
  destruct (negb (ins s && (A =? 2) || ins (adv A s (csize k)) && (A =? 1)));
    destruct (xorb _ (A =? 1)); reflexivity.
Qed.

(* ------------------------------------------------------------------------- *)
(** * Coordinates along / across the axis *)

Definition co (A : Z) (q : pt2) : Z := if A =? 1 then fst q else snd q.   (* along axis A *)
Definition cp (A : Z) (q : pt2) : Z := if A =? 1 then snd q else fst q.   (* across *)

Lemma on_side_geo A hi a s k : A = 1 \/ A = 2 -> on_side A hi a s k ->
  cp A s = cp A (pc_o a) + (if hi then csize (pc_k a) else 0) /\
  co A (pc_o a) <= co A s /\ co A s + csize k <= co A (pc_o a) + csize (pc_k a).
Proof.
  intros HA [_ [j [Hj [Hj' ->]]]]. destruct (pc_o a) as [x y]. unfold co, cp.
  destruct HA as [-> | ->]; destruct hi;
    rewrite ?side_start_lo, ?side_start_hi1, ?side_start_hi2, ?adv_1, ?adv_2; cbn [fst snd Z.eqb Pos.eqb]; lia.
Qed.

Lemma min_edge_geo A a b s k : A = 1 \/ A = 2 -> min_edge A a b s k ->
  cp A s = cp A (pc_o a) + csize (pc_k a) /\ cp A s = cp A (pc_o b) /\
  co A (pc_o a) <= co A s /\ co A s + csize k <= co A (pc_o a) + csize (pc_k a) /\
  co A (pc_o b) <= co A s /\ co A s + csize k <= co A (pc_o b) + csize (pc_k b).
Proof.
  intros HA [Sa [Sb _]]. pose proof (on_side_geo A true a s k HA Sa) as H1. pose proof (on_side_geo A false b s k HA Sb) as H2.
  cbv beta iota in H1, H2. lia.
Qed.

Lemma pleaves_inside ins A c a : A = 1 \/ A = 2 ->
  consistent ins (pc_t c) (pc_o c) (pc_k c) -> In a (pleaves c) ->
  cp A (pc_o c) <= cp A (pc_o a) /\ cp A (pc_o a) + csize (pc_k a) <= cp A (pc_o c) + csize (pc_k c) /\
  co A (pc_o c) <= co A (pc_o a) /\ co A (pc_o a) + csize (pc_k a) <= co A (pc_o c) + csize (pc_k c).
Proof.
  intros HA C Ha. unfold pleaves in Ha. destruct (pc_o c) as [x y] eqn:Eo.
  pose proof (leaves_inside ins _ _ _ _ _ _ C Ha) as H. unfold co, cp.
  destruct HA as [-> | ->]; cbn [fst snd Z.eqb Pos.eqb]; lia.
Qed.

Lemma pchild_leaf c i : is_branch (pc_t c) = false -> pchild c i = c.
Proof. unfold pchild. intros ->. reflexivity. Qed.

Lemma idx_ok A (hi : bool) : A = 1 \/ A = 2 ->
  let i := if hi then 3 - A else 0 in
  (i = 0 \/ i = 1 \/ i = 2 \/ i = 3) /\ (Z.lor A i = 0 \/ Z.lor A i = 1 \/ Z.lor A i = 2 \/ Z.lor A i = 3).
Proof. intros [-> | ->]; destruct hi; cbn; lia. Qed.

(** One step of the recursion of edge2 on one of its arguments, with positions: the two children
    fit the two halves, their leaves are leaves of the parent, and every leaf of the parent lying
    on that side along the same line is below one of them. *)
Lemma psplit ins A hi c s k : A = 1 \/ A = 2 ->
  pfits ins A hi c s (S k) ->
  let i := if hi then 3 - A else 0 in
  let c1 := pchild c i in
  let c2 := pchild c (Z.lor A i) in
  pfits ins A hi c1 s k /\ pfits ins A hi c2 (adv A s (csize k)) k /\
  (is_branch (pc_t c) = true -> pc_k c1 = k /\ pc_k c2 = k) /\
  (height (pc_t c1) <= pred (height (pc_t c)))%nat /\ (height (pc_t c2) <= pred (height (pc_t c)))%nat /\
  (forall a s' k', In a (pleaves c) -> on_side A hi a s' k' -> cp A s' = cp A s ->
     (In a (pleaves c1) /\ (is_branch (pc_t c) = true -> co A s' + csize k' <= co A s + csize k)) \/
     (In a (pleaves c2) /\ (is_branch (pc_t c) = true -> co A s + csize k <= co A s'))).
Proof.
  intros HA F i c1 c2. pose proof (csize_S k) as HS. pose proof (csize_pos k) as Hp.
  destruct c as [t p org kt]. unfold pfits in *. cbn [pc_t pc_p pc_o pc_k] in *.
  destruct (is_branch t) eqn:BT.
  - destruct t as [| | |c0 c1' c2' c3]; try discriminate.
    assert (kt = S k) as -> by (apply F; reflexivity).
    pose proof (fits_exact_j _ _ _ _ _ _ _ F) as Es.
    destruct F as [C _]. cbn [consistent pred] in C. destruct C as [_ [C0 [C1 [C2 C3]]]].
    destruct org as [x y]. destruct (child_org_xy x y k) as [E0 [E1 [E2 E3]]].
    subst c1 c2 i. unfold pchild, pleaves. cbn [pc_t pc_p pc_o pc_k is_branch leaves pred].
    rewrite E0, E1, E2, E3 in *.
    assert (G : forall tt oo ss, consistent ins tt oo k -> ss = side_start A hi oo k -> fits ins A hi tt oo k ss k).
    { intros tt oo ss Ct Ess. apply fits_exact; auto. }
    assert (LI : forall tt pp xx yy a s' k', consistent ins tt (xx, yy) k -> In a (leaves tt pp (xx, yy) k) ->
              on_side A hi a s' k' ->
              (xx <= fst (pc_o a) /\ fst (pc_o a) + csize (pc_k a) <= xx + csize k /\
               yy <= snd (pc_o a) /\ snd (pc_o a) + csize (pc_k a) <= yy + csize k) /\
              cp A s' = cp A (pc_o a) + (if hi then csize (pc_k a) else 0) /\
              co A (pc_o a) <= co A s' /\ co A s' + csize k' <= co A (pc_o a) + csize (pc_k a)).
    { intros tt pp xx yy a s' k' Ct Ha OS. split; [|apply on_side_geo; auto].
      pose proof (leaves_inside ins _ _ _ _ _ _ Ct Ha). tauto. }
    destruct HA as [-> | ->]; destruct hi;
      change (3 - 1) with 2; change (3 - 2) with 1; change (Z.lor 1 2) with 3; change (Z.lor 2 1) with 3;
      change (Z.lor 1 0) with 1; change (Z.lor 2 0) with 2; cbn [sub Z.eqb Pos.eqb];
      rewrite ?E0, ?E1, ?E2, ?E3;
      rewrite ?side_start_lo, ?side_start_hi1, ?side_start_hi2 in Es; subst s.
    + split; [apply G; auto; rewrite side_start_hi1; f_equal; lia|].
      split; [apply G; auto; rewrite side_start_hi1, adv_1; f_equal; lia|].
      split; [auto|]. split; [cbn [height]; lia|]. split; [cbn [height]; lia|].
      intros a s' k' Ha OS Ecp. rewrite !in_app_iff in Ha.
      unfold co, cp in *. cbn [fst snd Z.eqb Pos.eqb] in *.
      destruct Ha as [Ha|[Ha|[Ha|Ha]]];
        [ pose proof (LI _ _ _ _ _ _ _ C0 Ha OS) | pose proof (LI _ _ _ _ _ _ _ C1 Ha OS)
        | pose proof (LI _ _ _ _ _ _ _ C2 Ha OS) | pose proof (LI _ _ _ _ _ _ _ C3 Ha OS) ];
        cbn [fst snd Z.eqb Pos.eqb] in *;
        first [ exfalso; lia | left; split; [exact Ha|intros _; lia] | right; split; [exact Ha|intros _; lia] ].
    + split; [apply G; auto|]. split; [apply G; auto|].
      split; [auto|]. split; [cbn [height]; lia|]. split; [cbn [height]; lia|].
      intros a s' k' Ha OS Ecp. rewrite !in_app_iff in Ha.
      unfold co, cp in *. cbn [fst snd Z.eqb Pos.eqb] in *.
      destruct Ha as [Ha|[Ha|[Ha|Ha]]];
        [ pose proof (LI _ _ _ _ _ _ _ C0 Ha OS) | pose proof (LI _ _ _ _ _ _ _ C1 Ha OS)
        | pose proof (LI _ _ _ _ _ _ _ C2 Ha OS) | pose proof (LI _ _ _ _ _ _ _ C3 Ha OS) ];
        cbn [fst snd Z.eqb Pos.eqb] in *;
        first [ exfalso; lia | left; split; [exact Ha|intros _; lia] | right; split; [exact Ha|intros _; lia] ].
    + split; [apply G; auto; rewrite side_start_hi2; f_equal; lia|].
      split; [apply G; auto; rewrite side_start_hi2, adv_2; f_equal; lia|].
      split; [auto|]. split; [cbn [height]; lia|]. split; [cbn [height]; lia|].
      intros a s' k' Ha OS Ecp. rewrite !in_app_iff in Ha.
      unfold co, cp in *. cbn [fst snd Z.eqb Pos.eqb] in *.
      destruct Ha as [Ha|[Ha|[Ha|Ha]]];
        [ pose proof (LI _ _ _ _ _ _ _ C0 Ha OS) | pose proof (LI _ _ _ _ _ _ _ C1 Ha OS)
        | pose proof (LI _ _ _ _ _ _ _ C2 Ha OS) | pose proof (LI _ _ _ _ _ _ _ C3 Ha OS) ];
        cbn [fst snd Z.eqb Pos.eqb] in *;
        first [ exfalso; lia | left; split; [exact Ha|intros _; lia] | right; split; [exact Ha|intros _; lia] ].
    + split; [apply G; auto|]. split; [apply G; auto|].
      split; [auto|]. split; [cbn [height]; lia|]. split; [cbn [height]; lia|].
      intros a s' k' Ha OS Ecp. rewrite !in_app_iff in Ha.
      unfold co, cp in *. cbn [fst snd Z.eqb Pos.eqb] in *.
      destruct Ha as [Ha|[Ha|[Ha|Ha]]];
        [ pose proof (LI _ _ _ _ _ _ _ C0 Ha OS) | pose proof (LI _ _ _ _ _ _ _ C1 Ha OS)
        | pose proof (LI _ _ _ _ _ _ _ C2 Ha OS) | pose proof (LI _ _ _ _ _ _ _ C3 Ha OS) ];
        cbn [fst snd Z.eqb Pos.eqb] in *;
        first [ exfalso; lia | left; split; [exact Ha|intros _; lia] | right; split; [exact Ha|intros _; lia] ].
  - subst c1 c2. rewrite !pchild_leaf by exact BT. cbn [pc_t pc_p pc_o pc_k].
    destruct F as [C [Kk [_ [j [Hj [Hj' Es]]]]]].
    assert (Hh : (height t <= pred (height t))%nat) by (destruct t; try discriminate; cbn [height]; lia).
    split; [|split; [|split; [discriminate|split; [exact Hh|split; [exact Hh|]]]]].
    + split; [exact C|]. split; [lia|]. split; [congruence|]. exists j. repeat split; auto; lia.
    + split; [exact C|]. split; [lia|]. split; [congruence|]. exists (j + csize k).
      split; [lia|]. split; [lia|]. rewrite Es, adv_adv. reflexivity.
    + intros a s' k' Ha _ _. left. split; [exact Ha|discriminate].
Qed.

(* ------------------------------------------------------------------------- *)
(** * Soundness: every segment comes from two leaves facing each other across a minimal edge *)

Lemma pleaves_self c : is_branch (pc_t c) = false -> pleaves c = [c].
Proof. intros NB. unfold pleaves. rewrite leaves_nonbranch by exact NB. destruct c; reflexivity. Qed.

Lemma edge2_sound ins A x : A = 1 \/ A = 2 -> forall f ca cb s k,
  pfits ins A true ca s k -> pfits ins A false cb s k -> (pc_k ca = k \/ pc_k cb = k) ->
  (height (pc_t ca) < f)%nat -> (height (pc_t cb) < f)%nat ->
  In x (edge2 f A (pc_cell ca) (pc_cell cb)) ->
  exists a b s' k', In a (pleaves ca) /\ In b (pleaves cb) /\ min_edge A a b s' k' /\
                    In x (load A (pc_cell a) (pc_cell b)).
Proof.
  intros HA. induction f as [|f IH]; intros ca cb s k Fa Fb Hex Ha Hb Hx; [lia|].
  cbn [edge2] in Hx. unfold pc_cell at 1 2 in Hx. cbn [fst] in Hx.
  destruct (is_branch (pc_t ca) || is_branch (pc_t cb)) eqn:BB.
  2:{ apply orb_false_iff in BB. destruct BB as [Ba Bb]. exists ca, cb, s, k.
      rewrite !pleaves_self by assumption. split; [left; reflexivity|]. split; [left; reflexivity|].
      split; [|exact Hx]. split; [eapply pfits_on_side; exact Fa|]. split; [eapply pfits_on_side; exact Fb|exact Hex]. }
  assert (Hk : k <> O).
  { apply orb_true_iff in BB. destruct BB as [B|B];
      [eapply fits_branch_level; [exact Fa|exact B] | eapply fits_branch_level; [exact Fb|exact B]]. }
  destruct k as [|k]; [congruence|].
  assert (Hf : (1 <= f)%nat).
  { apply orb_true_iff in BB. destruct BB as [B|B]; apply branch_height in B; lia. }
  destruct (psplit ins A true ca s k HA Fa) as [Fa1 [Fa2 [Ea [Ha1 [Ha2 _]]]]].
  destruct (psplit ins A false cb s k HA Fb) as [Fb1 [Fb2 [Eb [Hb1 [Hb2 _]]]]].
  destruct (idx_ok A true HA) as [Ia1 Ia2]. destruct (idx_ok A false HA) as [Ib1 Ib2].
  cbv zeta in *. rewrite Z.lor_0_r in *.
  rewrite <- !pc_cell_pchild in Hx.
  assert (Hex' : (pc_k (pchild ca (3 - A)) = k /\ pc_k (pchild ca (Z.lor A (3 - A))) = k) \/
                 (pc_k (pchild cb 0) = k /\ pc_k (pchild cb A) = k)).
  { apply orb_true_iff in BB. destruct BB as [B|B]; auto. }
  assert (Hex1 : pc_k (pchild ca (3 - A)) = k \/ pc_k (pchild cb 0) = k) by (destruct Hex' as [[? ?]|[? ?]]; auto).
  assert (Hex2 : pc_k (pchild ca (Z.lor A (3 - A))) = k \/ pc_k (pchild cb A) = k) by (destruct Hex' as [[? ?]|[? ?]]; auto).
  apply in_app_or in Hx. destruct Hx as [Hx|Hx].
  - destruct (IH _ _ s k Fa1 Fb1 Hex1 ltac:(lia) ltac:(lia) Hx) as [a [b [s' [k' [Ia [Ib [ME L]]]]]]].
    exists a, b, s', k'. split; [eapply pleaves_pchild; [|exact Ia]; exact Ia1|].
    split; [eapply pleaves_pchild; [|exact Ib]; exact Ib1|]. auto.
  - destruct (IH _ _ _ k Fa2 Fb2 Hex2 ltac:(lia) ltac:(lia) Hx) as [a [b [s' [k' [Ia [Ib [ME L]]]]]]].
    exists a, b, s', k'. split; [eapply pleaves_pchild; [|exact Ia]; exact Ia2|].
    split; [eapply pleaves_pchild; [|exact Ib]; exact Ib2|]. auto.
Qed.

Lemma pfits_exact ins A hi c s :
  consistent ins (pc_t c) (pc_o c) (pc_k c) -> s = side_start A hi (pc_o c) (pc_k c) -> pfits ins A hi c s (pc_k c).
Proof. intros C E. unfold pfits. apply fits_exact; assumption. Qed.

Lemma walk_sound ins x f : forall t p o k,
  consistent ins t o k -> (height t < f)%nat -> In x (walk f t p) ->
  exists A a b s k', (A = 1 \/ A = 2) /\ In a (leaves t p o k) /\ In b (leaves t p o k) /\
                     min_edge A a b s k' /\ In x (load A (pc_cell a) (pc_cell b)).
Proof.
  induction t as [| |l m mf|c0 IH0 c1 IH1 c2 IH2 c3 IH3]; intros p [x0 y0] k C Hf Hx; try contradiction.
  cbn [consistent] in C. destruct C as [Hk [C0 [C1 [C2 C3]]]].
  destruct k as [|k]; [congruence|]. cbn [pred] in *. cbn [height] in Hf.
  cbn [walk] in Hx. cbn [leaves pred].
  destruct (child_org_xy x0 y0 k) as [E0 [E1 [E2 E3]]]. rewrite E0, E1, E2, E3 in *.
  assert (K : forall A ca cb, (A = 1 \/ A = 2) ->
            consistent ins (pc_t ca) (pc_o ca) k -> consistent ins (pc_t cb) (pc_o cb) k ->
            pc_k ca = k -> pc_k cb = k -> pc_o cb = side_start A true (pc_o ca) k ->
            (height (pc_t ca) < f)%nat -> (height (pc_t cb) < f)%nat ->
            In x (edge2 f A (pc_cell ca) (pc_cell cb)) ->
            exists a b s k', In a (pleaves ca) /\ In b (pleaves cb) /\ min_edge A a b s k' /\
                             In x (load A (pc_cell a) (pc_cell b))).
  { intros A ca cb HA Ca Cb Ka Kb Eo Ha Hb Hx'.
    apply (edge2_sound ins A x HA f ca cb (pc_o cb) k); auto.
    - rewrite <- Ka. apply pfits_exact; rewrite Ka; auto.
    - rewrite <- Kb. apply pfits_exact; rewrite Kb; auto. }
  repeat (apply in_app_or in Hx; destruct Hx as [Hx|Hx]).
  - destruct (IH0 _ _ _ C0 ltac:(lia) Hx) as [A [a [b [s [k' [HA [Ia [Ib R]]]]]]]].
    exists A, a, b, s, k'. rewrite !in_app_iff. tauto.
  - destruct (IH1 _ _ _ C1 ltac:(lia) Hx) as [A [a [b [s [k' [HA [Ia [Ib R]]]]]]]].
    exists A, a, b, s, k'. rewrite !in_app_iff. tauto.
  - destruct (IH2 _ _ _ C2 ltac:(lia) Hx) as [A [a [b [s [k' [HA [Ia [Ib R]]]]]]]].
    exists A, a, b, s, k'. rewrite !in_app_iff. tauto.
  - destruct (IH3 _ _ _ C3 ltac:(lia) Hx) as [A [a [b [s [k' [HA [Ia [Ib R]]]]]]]].
    exists A, a, b, s, k'. rewrite !in_app_iff. tauto.
  - rewrite !child_branch in Hx. cbn [sub Z.eqb Pos.eqb] in Hx.
    destruct (K 2 (PC c0 (0 :: p) (x0, y0) k) (PC c1 (1 :: p) (x0 + csize k, y0) k) (or_intror eq_refl)
                C0 C1 eq_refl eq_refl ltac:(cbn [pc_o]; rewrite side_start_hi2; reflexivity)
                ltac:(cbn [pc_t]; lia) ltac:(cbn [pc_t]; lia) Hx) as [a [b [s [k' [Ia [Ib R]]]]]].
    exists 2, a, b, s, k'. unfold pleaves in Ia, Ib. cbn [pc_t pc_p pc_o pc_k] in Ia, Ib. rewrite !in_app_iff. tauto.
  - rewrite !child_branch in Hx. cbn [sub Z.eqb Pos.eqb] in Hx.
    destruct (K 2 (PC c2 (2 :: p) (x0, y0 + csize k) k) (PC c3 (3 :: p) (x0 + csize k, y0 + csize k) k) (or_intror eq_refl)
                C2 C3 eq_refl eq_refl ltac:(cbn [pc_o]; rewrite side_start_hi2; reflexivity)
                ltac:(cbn [pc_t]; lia) ltac:(cbn [pc_t]; lia) Hx) as [a [b [s [k' [Ia [Ib R]]]]]].
    exists 2, a, b, s, k'. unfold pleaves in Ia, Ib. cbn [pc_t pc_p pc_o pc_k] in Ia, Ib. rewrite !in_app_iff. tauto.
  - rewrite !child_branch in Hx. cbn [sub Z.eqb Pos.eqb] in Hx.
    destruct (K 1 (PC c0 (0 :: p) (x0, y0) k) (PC c2 (2 :: p) (x0, y0 + csize k) k) (or_introl eq_refl)
                C0 C2 eq_refl eq_refl ltac:(cbn [pc_o]; rewrite side_start_hi1; reflexivity)
                ltac:(cbn [pc_t]; lia) ltac:(cbn [pc_t]; lia) Hx) as [a [b [s [k' [Ia [Ib R]]]]]].
    exists 1, a, b, s, k'. unfold pleaves in Ia, Ib. cbn [pc_t pc_p pc_o pc_k] in Ia, Ib. rewrite !in_app_iff. tauto.
  - rewrite !child_branch in Hx. cbn [sub Z.eqb Pos.eqb] in Hx.
    destruct (K 1 (PC c1 (1 :: p) (x0 + csize k, y0) k) (PC c3 (3 :: p) (x0 + csize k, y0 + csize k) k) (or_introl eq_refl)
                C1 C3 eq_refl eq_refl ltac:(cbn [pc_o]; rewrite side_start_hi1; reflexivity)
                ltac:(cbn [pc_t]; lia) ltac:(cbn [pc_t]; lia) Hx) as [a [b [s [k' [Ia [Ib R]]]]]].
    exists 1, a, b, s, k'. unfold pleaves in Ia, Ib. cbn [pc_t pc_p pc_o pc_k] in Ia, Ib. rewrite !in_app_iff. tauto.
Qed.

(* ------------------------------------------------------------------------- *)
(** * Completeness: the walk visits every pair of leaves facing each other across a minimal edge *)

Lemma edge2_complete ins A : A = 1 \/ A = 2 -> forall f ca cb s0 k0 a b s k,
  pfits ins A true ca s0 k0 -> pfits ins A false cb s0 k0 -> (pc_k ca = k0 \/ pc_k cb = k0) ->
  (height (pc_t ca) < f)%nat -> (height (pc_t cb) < f)%nat ->
  In a (pleaves ca) -> In b (pleaves cb) -> min_edge A a b s k ->
  incl (load A (pc_cell a) (pc_cell b)) (edge2 f A (pc_cell ca) (pc_cell cb)).
Proof.
  intros HA. induction f as [|f IH]; intros ca cb s0 k0 a b s k Fa Fb Hex Ha Hb Ia Ib ME; [lia|].
  cbn [edge2]. unfold pc_cell at 3 4. cbn [fst].
  destruct (is_branch (pc_t ca) || is_branch (pc_t cb)) eqn:BB.
  2:{ apply orb_false_iff in BB. destruct BB as [Ba Bb].
      rewrite pleaves_self in Ia, Ib by assumption. destruct Ia as [<-|[]]. destruct Ib as [<-|[]].
      apply incl_refl. }
  assert (Hk : k0 <> O).
  { apply orb_true_iff in BB. destruct BB as [B|B];
      [eapply fits_branch_level; [exact Fa|exact B] | eapply fits_branch_level; [exact Fb|exact B]]. }
  destruct k0 as [|k0]; [congruence|].
  assert (Hf : (1 <= f)%nat).
  { apply orb_true_iff in BB. destruct BB as [B|B]; apply branch_height in B; lia. }
  (* the edge lies on the line between ca and cb *)
  assert (Ecp : cp A s = cp A s0).
  { pose proof (min_edge_geo A a b s k HA ME) as G.
    pose proof (on_side_geo A true ca s0 (S k0) HA (pfits_on_side _ _ _ _ _ _ Fa)) as Ga.
    pose proof (on_side_geo A false cb s0 (S k0) HA (pfits_on_side _ _ _ _ _ _ Fb)) as Gb.
    cbv beta iota in Ga, Gb.
    pose proof (pleaves_inside ins A ca a HA (proj1 Fa) Ia) as La.
    pose proof (pleaves_inside ins A cb b HA (proj1 Fb) Ib) as Lb. lia. }
  destruct ME as [Sa [Sb Hm]].
  destruct (psplit ins A true ca s0 k0 HA Fa) as [Fa1 [Fa2 [Ea [Ha1 [Ha2 Da]]]]].
  destruct (psplit ins A false cb s0 k0 HA Fb) as [Fb1 [Fb2 [Eb [Hb1 [Hb2 Db]]]]].
  specialize (Da a s k Ia Sa Ecp). specialize (Db b s k Ib Sb Ecp).
  cbv zeta in *. rewrite Z.lor_0_r in *.
  rewrite <- !pc_cell_pchild.
  assert (Hex' : (pc_k (pchild ca (3 - A)) = k0 /\ pc_k (pchild ca (Z.lor A (3 - A))) = k0) \/
                 (pc_k (pchild cb 0) = k0 /\ pc_k (pchild cb A) = k0)).
  { apply orb_true_iff in BB. destruct BB as [B|B]; auto. }
  assert (Hex1 : pc_k (pchild ca (3 - A)) = k0 \/ pc_k (pchild cb 0) = k0) by (destruct Hex' as [[? ?]|[? ?]]; auto).
  assert (Hex2 : pc_k (pchild ca (Z.lor A (3 - A))) = k0 \/ pc_k (pchild cb A) = k0) by (destruct Hex' as [[? ?]|[? ?]]; auto).
  assert (Hfa1 : (height (pc_t (pchild ca (3 - A))) < f)%nat) by lia.
  assert (Hfa2 : (height (pc_t (pchild ca (Z.lor A (3 - A)))) < f)%nat) by lia.
  assert (Hfb1 : (height (pc_t (pchild cb 0)) < f)%nat) by lia.
  assert (Hfb2 : (height (pc_t (pchild cb A)) < f)%nat) by lia.
  assert (ME : min_edge A a b s k) by (split; [exact Sa|split; [exact Sb|exact Hm]]).
  assert (L : In a (pleaves (pchild ca (3 - A))) -> In b (pleaves (pchild cb 0)) ->
              incl (load A (pc_cell a) (pc_cell b))
                   (edge2 f A (pc_cell (pchild ca (3 - A))) (pc_cell (pchild cb 0)) ++
                    edge2 f A (pc_cell (pchild ca (Z.lor A (3 - A)))) (pc_cell (pchild cb A)))).
  { intros I1 I2. apply incl_appl. exact (IH _ _ _ _ a b s k Fa1 Fb1 Hex1 Hfa1 Hfb1 I1 I2 ME). }
  assert (R : In a (pleaves (pchild ca (Z.lor A (3 - A)))) -> In b (pleaves (pchild cb A)) ->
              incl (load A (pc_cell a) (pc_cell b))
                   (edge2 f A (pc_cell (pchild ca (3 - A))) (pc_cell (pchild cb 0)) ++
                    edge2 f A (pc_cell (pchild ca (Z.lor A (3 - A)))) (pc_cell (pchild cb A)))).
  { intros I1 I2. apply incl_appr. exact (IH _ _ _ _ a b s k Fa2 Fb2 Hex2 Hfa2 Hfb2 I1 I2 ME). }
  assert (Ia' : forall i, is_branch (pc_t ca) = false -> In a (pleaves (pchild ca i)))
    by (intros i NB; rewrite pchild_leaf by exact NB; exact Ia).
  assert (Ib' : forall i, is_branch (pc_t cb) = false -> In b (pleaves (pchild cb i)))
    by (intros i NB; rewrite pchild_leaf by exact NB; exact Ib).
  pose proof (csize_pos k) as Hp.
  destruct Da as [[Ja Ga]|[Ja Ga]]; destruct Db as [[Jb Gb]|[Jb Gb]].
  - apply L; assumption.
  - destruct (is_branch (pc_t ca)) eqn:Ba.
    + destruct (is_branch (pc_t cb)) eqn:Bb.
      * specialize (Ga eq_refl). specialize (Gb eq_refl). exfalso. lia.
      * apply L; [exact Ja|apply Ib'; reflexivity].
    + apply R; [apply Ia'; reflexivity|exact Jb].
  - destruct (is_branch (pc_t ca)) eqn:Ba.
    + destruct (is_branch (pc_t cb)) eqn:Bb.
      * specialize (Ga eq_refl). specialize (Gb eq_refl). exfalso. lia.
      * apply R; [exact Ja|apply Ib'; reflexivity].
    + apply L; [apply Ia'; reflexivity|exact Jb].
  - apply R; assumption.
Qed.

Lemma incl_app8 {X} (l a0 a1 a2 a3 a4 a5 a6 a7 : list X) :
  incl l a0 \/ incl l a1 \/ incl l a2 \/ incl l a3 \/ incl l a4 \/ incl l a5 \/ incl l a6 \/ incl l a7 ->
  incl l (a0 ++ a1 ++ a2 ++ a3 ++ a4 ++ a5 ++ a6 ++ a7).
Proof.
  intros H z Hz. rewrite !in_app_iff.
  destruct H as [H|[H|[H|[H|[H|[H|[H|H]]]]]]]; apply H in Hz; tauto.
Qed.

Lemma walk_complete ins A : A = 1 \/ A = 2 -> forall f t p o k a b s k',
  consistent ins t o k -> (height t < f)%nat ->
  In a (leaves t p o k) -> In b (leaves t p o k) -> min_edge A a b s k' ->
  incl (load A (pc_cell a) (pc_cell b)) (walk f t p).
Proof.
  intros HA f.
  induction t as [| |l m mf|c0 IH0 c1 IH1 c2 IH2 c3 IH3]; intros p [x0 y0] k a b s k' C Hf Ia Ib ME;
    try (exfalso; cbn [leaves] in Ia, Ib; destruct Ia as [<-|[]]; destruct Ib as [<-|[]];
         pose proof (min_edge_geo A _ _ s k' HA ME) as G; pose proof (csize_pos k); cbn [pc_o pc_k] in G; lia).
  cbn [consistent] in C. destruct C as [Hk [C0 [C1 [C2 C3]]]].
  destruct k as [|k]; [congruence|]. cbn [pred] in *. cbn [height] in Hf.
  cbn [walk]. cbn [leaves pred] in Ia, Ib.
  destruct (child_org_xy x0 y0 k) as [E0 [E1 [E2 E3]]]. rewrite E0, E1, E2, E3 in *.
  unfold work. rewrite !child_branch. cbn [sub Z.eqb Pos.eqb].
  assert (K : forall A' ca cb, A' = A ->
            consistent ins (pc_t ca) (pc_o ca) k -> consistent ins (pc_t cb) (pc_o cb) k ->
            pc_k ca = k -> pc_k cb = k -> pc_o cb = side_start A true (pc_o ca) k ->
            (height (pc_t ca) < f)%nat -> (height (pc_t cb) < f)%nat ->
            In a (pleaves ca) -> In b (pleaves cb) ->
            incl (load A (pc_cell a) (pc_cell b)) (edge2 f A' (pc_cell ca) (pc_cell cb))).
  { intros A' ca cb -> Ca Cb Ka Kb Eo Ha Hb Ja Jb.
    apply (edge2_complete ins A HA f ca cb (pc_o cb) k a b s k'); auto.
    - rewrite <- Ka. apply pfits_exact; rewrite Ka; auto.
    - rewrite <- Kb. apply pfits_exact; rewrite Kb; auto. }
  pose proof (K 2 (PC c0 (0 :: p) (x0, y0) k) (PC c1 (1 :: p) (x0 + csize k, y0) k)) as K01.
  pose proof (K 2 (PC c2 (2 :: p) (x0, y0 + csize k) k) (PC c3 (3 :: p) (x0 + csize k, y0 + csize k) k)) as K23.
  pose proof (K 1 (PC c0 (0 :: p) (x0, y0) k) (PC c2 (2 :: p) (x0, y0 + csize k) k)) as K02.
  pose proof (K 1 (PC c1 (1 :: p) (x0 + csize k, y0) k) (PC c3 (3 :: p) (x0 + csize k, y0 + csize k) k)) as K13.
  clear K. unfold pleaves, pc_cell in K01, K23, K02, K13. cbn [pc_t pc_p pc_o pc_k] in K01, K23, K02, K13.
  pose proof (min_edge_geo A a b s k' HA ME) as G.
  pose proof (csize_pos k') as Hp. pose proof (csize_pos k) as Hp'.
  set (W0 := walk f c0 (0 :: p)) in *. set (W1 := walk f c1 (1 :: p)) in *.
  set (W2 := walk f c2 (2 :: p)) in *. set (W3 := walk f c3 (3 :: p)) in *.
  assert (Hh0 : (height c0 < f)%nat) by lia. assert (Hh1 : (height c1 < f)%nat) by lia.
  assert (Hh2 : (height c2 < f)%nat) by lia. assert (Hh3 : (height c3 < f)%nat) by lia.
  rewrite !in_app_iff in Ia, Ib.
  unfold co, cp in G.
  destruct HA as [HA | HA]; subst A; cbn [Z.eqb Pos.eqb] in G;
  (destruct Ia as [Ia|[Ia|[Ia|Ia]]];
    [ pose proof (leaves_inside ins _ _ _ _ _ _ C0 Ia) as La | pose proof (leaves_inside ins _ _ _ _ _ _ C1 Ia) as La
    | pose proof (leaves_inside ins _ _ _ _ _ _ C2 Ia) as La | pose proof (leaves_inside ins _ _ _ _ _ _ C3 Ia) as La ]);
  (destruct Ib as [Ib|[Ib|[Ib|Ib]]];
    [ pose proof (leaves_inside ins _ _ _ _ _ _ C0 Ib) as Lb | pose proof (leaves_inside ins _ _ _ _ _ _ C1 Ib) as Lb
    | pose proof (leaves_inside ins _ _ _ _ _ _ C2 Ib) as Lb | pose proof (leaves_inside ins _ _ _ _ _ _ C3 Ib) as Lb ]);
  first
    [ apply incl_app8; left; exact (IH0 _ _ _ _ _ _ _ C0 Hh0 Ia Ib ME)
    | apply incl_app8; right; left; exact (IH1 _ _ _ _ _ _ _ C1 Hh1 Ia Ib ME)
    | apply incl_app8; right; right; left; exact (IH2 _ _ _ _ _ _ _ C2 Hh2 Ia Ib ME)
    | apply incl_app8; right; right; right; left; exact (IH3 _ _ _ _ _ _ _ C3 Hh3 Ia Ib ME)
    | exfalso; lia
    | apply incl_app8; right; right; right; right; left; apply K01; auto; rewrite side_start_hi2; reflexivity
    | apply incl_app8; right; right; right; right; right; left; apply K23; auto; rewrite side_start_hi2; reflexivity
    | apply incl_app8; right; right; right; right; right; right; left; apply K02; auto; rewrite side_start_hi1; reflexivity
    | apply incl_app8; right; right; right; right; right; right; right; apply K13; auto; rewrite side_start_hi1; reflexivity ].
Qed.

(* ------------------------------------------------------------------------- *)
(** * 1. Segments sit exactly at the sign changes between adjacent leaves *)

Lemma crosses_true ins A s k : crosses ins A s k = true <-> ins s <> ins (adv A s (csize k)).
Proof. unfold crosses. destruct (ins s), (ins (adv A s (csize k))); cbn; split; congruence. Qed.

(** Soundness (no spurious contour): every segment of the contour of a consistent tree is the one
    segment emitted by load for two AMBIGUOUS LEAVES a, b of the tree facing each other across a
    minimal edge [s, s + 2^k'] of axis A (a whole side of the smaller of the two, a on its low
    side) whose two end points have different signs.  boundary_clear is not needed. *)
Theorem adaptive_segments_at_sign_changes ins t k :
  consistent ins t (0, 0) k ->
  forall x, In x (contour_walk t) ->
  exists A a b s k', (A = 1 \/ A = 2) /\
    In a (leaves t [] (0, 0) k) /\ In b (leaves t [] (0, 0) k) /\ min_edge A a b s k' /\
    is_ambig_leaf (pc_t a) = true /\ is_ambig_leaf (pc_t b) = true /\
    ins s <> ins (adv A s (csize k')) /\
    load A (pc_cell a) (pc_cell b) = [x] /\ x = seg_of ins A a b s k'.
Proof.
  intros C x Hx. unfold contour_walk in Hx.
  destruct (walk_sound ins x (S (height t)) t [] (0, 0) k C ltac:(lia) Hx) as [A [a [b [s [k' [HA [Ia [Ib [ME L]]]]]]]]].
  exists A, a, b, s, k'.
  destruct (leaves_consistent ins _ _ _ _ _ C Ia) as [Ca Ba].
  destruct (leaves_consistent ins _ _ _ _ _ C Ib) as [Cb Bb].
  rewrite (load_spec ins A a b s k' HA Ca Ba Cb Bb ME) in *.
  destruct (is_ambig_leaf (pc_t a)); [|contradiction].
  destruct (is_ambig_leaf (pc_t b)); [|contradiction].
  destruct (crosses ins A s k') eqn:Cr; [|contradiction]. cbn [andb] in *.
  destruct L as [<-|[]]. apply crosses_true in Cr.
  do 7 (split; [first [assumption|reflexivity]|]). split; reflexivity.
Qed.

(* degrees at most one: no segment occurs twice *)
Lemma qout_le1_NoDup (s : list qseg) : (forall v, (qout_deg v s <= 1)%nat) -> NoDup s.
Proof.
  induction s as [|x s IH]; intros H; constructor.
  - intros Hin. specialize (H (fst x)). unfold qout_deg in H. cbn [filter] in H. rewrite qveqb_refl in H.
    cbn [length] in H.
    assert (Hf : In x (filter (fun y => qvertex_eqb (fst y) (fst x)) s))
      by (apply filter_In; split; [exact Hin|apply qveqb_refl]).
    destruct (filter (fun y => qvertex_eqb (fst y) (fst x)) s); [contradiction|cbn [length] in H; lia].
  - apply IH. intros v. specialize (H v). unfold qout_deg in *. cbn [filter] in H.
    destruct (qvertex_eqb (fst x) v); cbn [length] in H; lia.
Qed.

Theorem adaptive_contour_nodup ins t k :
  consistent ins t (0, 0) k -> boundary_clear ins k -> NoDup (contour_walk t).
Proof. intros C BC. apply qout_le1_NoDup. intros v. apply (walk_balanced ins t k C BC v). Qed.

(** Completeness (no hole): every pair of leaves facing each other across a minimal edge whose end
    points differ in sign -- both are then ambiguous -- yields exactly one segment, and it is a
    segment of the contour (once: the soup has no duplicates). *)
Theorem adaptive_sign_changes_give_segments ins t k :
  consistent ins t (0, 0) k ->
  forall A a b s k', (A = 1 \/ A = 2) ->
    In a (leaves t [] (0, 0) k) -> In b (leaves t [] (0, 0) k) -> min_edge A a b s k' ->
    ins s <> ins (adv A s (csize k')) ->
    is_ambig_leaf (pc_t a) = true /\ is_ambig_leaf (pc_t b) = true /\
    load A (pc_cell a) (pc_cell b) = [seg_of ins A a b s k'] /\
    In (seg_of ins A a b s k') (contour_walk t) /\
    (boundary_clear ins k -> NoDup (contour_walk t)).
Proof.
  intros C A a b s k' HA Ia Ib ME Hs.
  destruct (leaves_consistent ins _ _ _ _ _ C Ia) as [Ca Ba].
  destruct (leaves_consistent ins _ _ _ _ _ C Ib) as [Cb Bb].
  apply crosses_true in Hs.
  assert (Aa : is_ambig_leaf (pc_t a) = true).
  { destruct (is_ambig_leaf (pc_t a)) eqn:E; auto.
    rewrite (min_edge_uniform ins A a s k' true HA Ca Ba E (proj1 ME)) in Hs. discriminate. }
  assert (Ab : is_ambig_leaf (pc_t b) = true).
  { destruct (is_ambig_leaf (pc_t b)) eqn:E; auto.
    rewrite (min_edge_uniform ins A b s k' false HA Cb Bb E (proj1 (proj2 ME))) in Hs. discriminate. }
  pose proof (load_spec ins A a b s k' HA Ca Ba Cb Bb ME) as L. rewrite Aa, Ab, Hs in L. cbn [andb] in L.
  split; [exact Aa|]. split; [exact Ab|]. split; [exact L|]. split.
  - unfold contour_walk. apply (walk_complete ins A HA (S (height t)) t [] (0, 0) k a b s k' C ltac:(lia) Ia Ib ME).
    rewrite L. left. reflexivity.
  - intros BC. apply (adaptive_contour_nodup ins t k C BC).
Qed.

(* the number of segments load emits across a minimal edge between two leaves of the tree *)
Lemma load_count ins A a b s k : A = 1 \/ A = 2 ->
  consistent ins (pc_t a) (pc_o a) (pc_k a) -> is_branch (pc_t a) = false ->
  consistent ins (pc_t b) (pc_o b) (pc_k b) -> is_branch (pc_t b) = false ->
  min_edge A a b s k ->
  length (load A (pc_cell a) (pc_cell b)) = if crosses ins A s k then 1%nat else 0%nat.
Proof.
  intros HA Ca Ba Cb Bb ME. rewrite (load_spec ins A a b s k HA Ca Ba Cb Bb ME).
  destruct (is_ambig_leaf (pc_t a)) eqn:Aa.
  2:{ rewrite (min_edge_uniform ins A a s k true HA Ca Ba Aa (proj1 ME)). reflexivity. }
  destruct (is_ambig_leaf (pc_t b)) eqn:Ab.
  2:{ rewrite (min_edge_uniform ins A b s k false HA Cb Bb Ab (proj1 (proj2 ME))). reflexivity. }
  destruct (crosses ins A s k); reflexivity.
Qed.

(* ------------------------------------------------------------------------- *)
(** * 2. Orientation: the inside end of the minimal edge is on the LEFT of the segment *)

Definition cross2 (d e : pt2) : Z := fst d * snd e - snd d * fst e.
Definition vsub (p q : pt2) : pt2 := (fst p - fst q, snd p - snd q).
(* the direction from a to b: a is on the low side of the edge, so it is the positive direction
   of the other axis (x to the right, y upwards) *)
Definition a_to_b (A : Z) : pt2 := if A =? 1 then (0, 1) else (1, 0).
Definition vneg (d : pt2) : pt2 := (- fst d, - snd d).

(** For a sign-changing minimal edge of axis A between a (low side) and b: the segment runs from
    the vertex of a to the vertex of b iff the inside end is s when A = 1 (X) and s + 2^k when A = 2 (Y);
    equivalently, with d the direction of travel (a -> b or b -> a) and e the vector from the outside
    end to the inside end of the minimal edge, cross2 d e = 2^k > 0: the inside end is on the left. *)
Theorem adaptive_segments_oriented ins A a b s k :
  A = 1 \/ A = 2 -> ins s <> ins (adv A s (csize k)) ->
  let x := seg_of ins A a b s k in
  let fwd := if A =? 1 then ins s else ins (adv A s (csize k)) in
  let pin := if ins s then s else adv A s (csize k) in
  let pout := if ins s then adv A s (csize k) else s in
  (fwd = true -> fst (fst x) = pc_p a /\ fst (snd x) = pc_p b) /\
  (fwd = false -> fst (fst x) = pc_p b /\ fst (snd x) = pc_p a) /\
  ins pin = true /\ ins pout = false /\
  cross2 (if fwd then a_to_b A else vneg (a_to_b A)) (vsub pin pout) = csize k /\ 0 < csize k.
Proof.
  intros HA Hs. pose proof (csize_pos k) as Hp. destruct s as [sx sy].
  unfold seg_of, seg_dir, cross2, vsub, a_to_b, vneg.
  destruct HA as [-> | ->]; rewrite ?adv_1, ?adv_2 in *; cbn [Z.eqb Pos.eqb andb orb xorb negb];
    rewrite ?andb_false_r, ?andb_true_r, ?orb_false_r, ?orb_false_l; cbv zeta.
  - destruct (ins (sx, sy)) eqn:E1, (ins (sx + csize k, sy)) eqn:E2; try congruence;
      cbn [negb xorb fst snd]; rewrite ?E1, ?E2; repeat split; try congruence; try lia.
  - destruct (ins (sx, sy)) eqn:E1, (ins (sx, sy + csize k)) eqn:E2; try congruence;
      cbn [negb xorb fst snd]; rewrite ?E1, ?E2; repeat split; try congruence; try lia.
Qed.

(* ------------------------------------------------------------------------- *)
(** * 3. Crossing parity along paths of minimal edges *)

(* one step along a minimal edge between two leaves, in either direction *)
Record step := ST { st_A : Z; st_a : pcell; st_b : pcell; st_s : pt2; st_k : nat; st_fwd : bool }.
Definition st_hi (e : step) : pt2 := adv (st_A e) (st_s e) (csize (st_k e)).
Definition st_from (e : step) : pt2 := if st_fwd e then st_s e else st_hi e.
Definition st_to (e : step) : pt2 := if st_fwd e then st_hi e else st_s e.
Definition step_ok (t : qtree) (k : nat) (e : step) : Prop :=
  (st_A e = 1 \/ st_A e = 2) /\ In (st_a e) (leaves t [] (0, 0) k) /\ In (st_b e) (leaves t [] (0, 0) k) /\
  min_edge (st_A e) (st_a e) (st_b e) (st_s e) (st_k e).
Fixpoint joins (p : pt2) (l : list step) (q : pt2) : Prop :=
  match l with
  | [] => p = q
  | e :: r => st_from e = p /\ joins (st_to e) r q
  end.
(* the segments emitted for the minimal edges of the path (items 1: at most one each) *)
Definition crossed (l : list step) : list qseg :=
  flat_map (fun e => load (st_A e) (pc_cell (st_a e)) (pc_cell (st_b e))) l.

Theorem adaptive_contours_separate ins t k :
  consistent ins t (0, 0) k ->
  forall l p q, Forall (step_ok t k) l -> joins p l q ->
    incl (crossed l) (contour_walk t) /\
    Nat.odd (length (crossed l)) = xorb (ins p) (ins q).
Proof.
  intros C. induction l as [|e r IH]; intros p q Hok Hj.
  - cbn [joins] in Hj. subst q. split; [intros z []|]. cbn. rewrite xorb_nilpotent. reflexivity.
  - inversion Hok as [|e' r' He Hr]; subst e' r'. cbn [joins] in Hj. destruct Hj as [Hp Hj].
    destruct (IH _ _ Hr Hj) as [IH1 IH2]. destruct He as [HA [Ia [Ib ME]]].
    destruct (leaves_consistent ins _ _ _ _ _ C Ia) as [Ca Ba].
    destruct (leaves_consistent ins _ _ _ _ _ C Ib) as [Cb Bb].
    unfold crossed in *. cbn [flat_map]. split.
    + apply incl_app; [|exact IH1]. unfold contour_walk.
      apply (walk_complete ins _ HA (S (height t)) t [] (0, 0) k _ _ _ _ C ltac:(lia) Ia Ib ME).
    + rewrite app_length, Nat.odd_add, IH2, (load_count ins _ _ _ _ _ HA Ca Ba Cb Bb ME).
      subst p. unfold st_from, st_to, st_hi, crosses.
      destruct (st_fwd e), (ins (st_s e)), (ins (adv (st_A e) (st_s e) (csize (st_k e)))), (ins q); reflexivity.
Qed.

(* in particular: a path from an inside to an outside lattice point crosses the contour *)
Corollary adaptive_inside_outside_crosses ins t k :
  consistent ins t (0, 0) k ->
  forall l p q, Forall (step_ok t k) l -> joins p l q -> ins p <> ins q ->
    exists x, In x (crossed l) /\ In x (contour_walk t).
Proof.
  intros C l p q Hok Hj Hne. destruct (adaptive_contours_separate ins t k C l p q Hok Hj) as [H1 H2].
  destruct (crossed l) as [|x r] eqn:E.
  - cbn in H2. destruct (ins p), (ins q); try discriminate; congruence.
  - exists x. split; [left; reflexivity|apply H1; left; reflexivity].
Qed.

(* ------------------------------------------------------------------------- *)
(** * Non-vacuity: the notch of QuadTreeSem (16 x 16 lattice, leaves of levels 3, 2, 1, 0) *)

(* the level-0 leaf [5,6] x [8,9] (QA 0 2, path [1;0;1;2]) and the collapsed level-1 leaf
   [6,8] x [8,10] (QA 1 3, path [1;1;2]) face each other across the minimal edge (6,8) - (6,9) of
   axis Y, a whole side of the smaller one and half a side of the larger; (6,8) is inside, (6,9) outside *)
Definition notch_a : pcell := PC (QA 0 2 true) [1; 0; 1; 2] (5, 8) 0.
Definition notch_b : pcell := PC (QA 1 3 true) [1; 1; 2] (6, 8) 1.

Lemma notch_min_edge : min_edge 2 notch_a notch_b (6, 8) 0.
Proof.
  split; [|split].
  - split; [cbn; lia|]. exists 0. vm_compute. repeat split; congruence.
  - split; [cbn; lia|]. exists 0. vm_compute. repeat split; congruence.
  - left. reflexivity.
Qed.

Example notch_sign_change_segment :
  In notch_a (leaves post_notch [] (0, 0) 4) /\ In notch_b (leaves post_notch [] (0, 0) 4) /\
  length (leaves post_notch [] (0, 0) 4) = 22%nat /\
  ins_notch (6, 8) = true /\ ins_notch (6, 9) = false /\
  load 2 (pc_cell notch_a) (pc_cell notch_b) = [(([1; 1; 2], 0), ([1; 0; 1; 2], 0))] /\
  seg_of ins_notch 2 notch_a notch_b (6, 8) 0 = (([1; 1; 2], 0), ([1; 0; 1; 2], 0)) /\
  In (([1; 1; 2], 0), ([1; 0; 1; 2], 0)) (contour_walk post_notch).
Proof.
  split; [vm_compute; repeat first [left; reflexivity | right]|].
  split; [vm_compute; repeat first [left; reflexivity | right]|].
  split; [vm_compute; reflexivity|]. split; [reflexivity|]. split; [reflexivity|].
  split; [vm_compute; reflexivity|]. split; [vm_compute; reflexivity|].
  vm_compute. repeat first [left; reflexivity | right].
Qed.

(* the same facts, obtained from the theorems (hypotheses discharged by the checkers) *)
Example notch_theorems_apply :
  let x := seg_of ins_notch 2 notch_a notch_b (6, 8) 0 in
  load 2 (pc_cell notch_a) (pc_cell notch_b) = [x] /\ In x (contour_walk post_notch) /\
  NoDup (contour_walk post_notch) /\
  (* b -> a, i.e. westwards, with the inside end (6,8) to the south: on the left *)
  fst (fst x) = pc_p notch_b /\ fst (snd x) = pc_p notch_a /\
  (* the one-step lattice path (6,8) -> (6,9) from inside to outside crosses exactly this segment *)
  crossed [ST 2 notch_a notch_b (6, 8) 0 true] = [x].
Proof.
  assert (C : consistent ins_notch post_notch (0, 0) 4) by (apply consistentb_sound; vm_compute; reflexivity).
  assert (BC : boundary_clear ins_notch 4) by (apply boundary_clearb_sound; vm_compute; reflexivity).
  destruct notch_sign_change_segment as [Ia [Ib _]].
  destruct (adaptive_sign_changes_give_segments ins_notch post_notch 4 C 2 notch_a notch_b (6, 8) 0
              (or_intror eq_refl) Ia Ib notch_min_edge ltac:(vm_compute; discriminate)) as [_ [_ [L [I N]]]].
  cbv zeta. split; [exact L|]. split; [exact I|]. split; [exact (N BC)|].
  destruct (adaptive_segments_oriented ins_notch 2 notch_a notch_b (6, 8) 0 (or_intror eq_refl)
              ltac:(vm_compute; discriminate)) as [_ [O _]].
  split; [apply O; reflexivity|]. split; [apply O; reflexivity|].
  unfold crossed. cbn [flat_map st_A st_a st_b]. rewrite L. reflexivity.
Qed.

(* ------------------------------------------------------------------------- *)
Print Assumptions adaptive_segments_at_sign_changes.
Print Assumptions adaptive_sign_changes_give_segments.
Print Assumptions adaptive_contour_nodup.
Print Assumptions adaptive_segments_oriented.
Print Assumptions adaptive_contours_separate.
Print Assumptions adaptive_inside_outside_crosses.
Print Assumptions notch_theorems_apply.

(* ------------------------------------------------------------------------- *)
(** * The correspondence minimal edge <-> segment is one to one *)

Lemma leaves_path_unique : forall t p o k a a',
  In a (leaves t p o k) -> In a' (leaves t p o k) -> pc_p a = pc_p a' -> a = a'.
Proof.
  induction t as [| |l m mf|c0 IH0 c1 IH1 c2 IH2 c3 IH3]; intros p o k a a' Ha Ha' E;
    try (cbn [leaves] in Ha, Ha'; destruct Ha as [<-|[]]; destruct Ha' as [<-|[]]; reflexivity).
  cbn [leaves] in Ha, Ha'. rewrite !in_app_iff in Ha, Ha'.
  assert (X : forall i j t1 t2 o1 o2 k1 k2, i <> j ->
            In a (leaves t1 (i :: p) o1 k1) -> In a' (leaves t2 (j :: p) o2 k2) -> False).
  { intros i j t1 t2 o1 o2 k1 k2 Hij H1 H2.
    destruct (leaves_path _ _ _ _ _ H1) as [xs E1]. destruct (leaves_path _ _ _ _ _ H2) as [ys E2].
    rewrite E1, E2 in E. apply suffix_unique in E. contradiction. }
  destruct Ha as [Ha|[Ha|[Ha|Ha]]]; destruct Ha' as [Ha'|[Ha'|[Ha'|Ha']]];
    first [ exact (IH0 _ _ _ _ _ Ha Ha' E) | exact (IH1 _ _ _ _ _ Ha Ha' E)
          | exact (IH2 _ _ _ _ _ Ha Ha' E) | exact (IH3 _ _ _ _ _ Ha Ha' E)
          | exfalso; eapply X; [|exact Ha|exact Ha']; lia ].
Qed.

Lemma seg_of_paths ins A a b s k :
  let x := seg_of ins A a b s k in
  (fst (fst x) = pc_p a /\ fst (snd x) = pc_p b) \/ (fst (fst x) = pc_p b /\ fst (snd x) = pc_p a).
Proof.
  unfold seg_of. destruct (seg_dir ins A s k); destruct (xorb _ (A =? 1)); cbn [fst snd]; auto.
Qed.

(** Two minimal edges between leaves of the tree with the same segment are the same edge: together
    with items 1 the map (A, a, b, s, k') |-> seg_of is a bijection between the sign-changing
    minimal edges of the leaf subdivision and the segments of the contour. *)
Theorem adaptive_edge_of_segment_unique t k :
  forall ins A a b s k1 A' a' b' s' k2, (A = 1 \/ A = 2) -> (A' = 1 \/ A' = 2) ->
    In a (leaves t [] (0, 0) k) -> In b (leaves t [] (0, 0) k) ->
    In a' (leaves t [] (0, 0) k) -> In b' (leaves t [] (0, 0) k) ->
    min_edge A a b s k1 -> min_edge A' a' b' s' k2 ->
    seg_of ins A a b s k1 = seg_of ins A' a' b' s' k2 ->
    A = A' /\ a = a' /\ b = b' /\ s = s' /\ k1 = k2.
Proof.
  intros ins A a b s k1 A' a' b' s' k2 HA HA' Ia Ib Ia' Ib' ME ME' E.
  pose proof (seg_of_paths ins A a b s k1) as P. pose proof (seg_of_paths ins A' a' b' s' k2) as P'.
  cbv zeta in P, P'. rewrite <- E in P'.
  pose proof (min_edge_geo A a b s k1 HA ME) as G. pose proof (min_edge_geo A' a' b' s' k2 HA' ME') as G'.
  pose proof (csize_pos k1) as Hp1. pose proof (csize_pos k2) as Hp2.
  pose proof (csize_pos (pc_k a)) as Hpa. pose proof (csize_pos (pc_k b)) as Hpb.
  assert (Hab : (a = a' /\ b = b') \/ (a = b' /\ b = a')).
  { destruct P as [[P1 P2]|[P1 P2]]; destruct P' as [[Q1 Q2]|[Q1 Q2]]; rewrite P1 in Q1; rewrite P2 in Q2;
      [left|right|right|left]; split;
      first [ apply (leaves_path_unique t [] (0, 0) k); assumption
            | apply (leaves_path_unique t [] (0, 0) k); auto; fail ]. }
  assert (K : A = A' /\ a = a' /\ b = b').
  { unfold co, cp in G, G'.
    destruct Hab as [[<- <-]|[-> ->]]; destruct HA as [-> | ->]; destruct HA' as [-> | ->];
      cbn [Z.eqb Pos.eqb] in G, G'; first [ split; [reflexivity|split; reflexivity] | exfalso; lia ]. }
  destruct K as [<- [<- <-]]. split; [reflexivity|]. split; [reflexivity|]. split; [reflexivity|].
  destruct ME as [Sa [Sb Hm]]. destruct ME' as [Sa' [Sb' Hm']].
  assert (Ek : k1 = k2) by (destruct Sa, Sb, Sa', Sb'; lia). subst k2. split; [|reflexivity].
  destruct Hm as [Hm|Hm]; subst k1.
  - rewrite (on_side_exact A true a s Sa), (on_side_exact A true a s' Sa'). reflexivity.
  - rewrite (on_side_exact A false b s Sb), (on_side_exact A false b s' Sb'). reflexivity.
Qed.

Print Assumptions adaptive_edge_of_segment_unique.
