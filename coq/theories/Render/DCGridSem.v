(* C03 (dual contouring, uniform grid): manifold dual contouring with the patch tables libfive
   builds at start-up (Gen/MarchTables_gen.v: gen_e3, gen_p3, dumped from the implementation)
   produces a watertight, consistently oriented mesh for EVERY filled/empty assignment of the
   lattice points and every choice of quad diagonals.

   Everything below is about [quad] / [dc_mesh] / [closed_mesh] / [covers] of Render/DCGrid.v.
   The table-dependent part is a finite sweep ([face_check_all], [served_check_ok]) evaluated
   by vm_compute on gen_e3 / gen_p3 themselves, so a changed table breaks the proofs.

   THEOREMS (one-line readings)

   closed_mesh_net       closed_mesh m <-> every directed edge has net count (uses minus uses
                         of the reverse, in Z) zero in [dedges m].
   two_tris_net_diag1/0  two triangles over a, b, c, d split along either diagonal have the net
                         counts of the 4-cycle a -> b -> d -> c -> a (the diagonal cancels).
   mask_testbit, mask_range, mixed_ambiguous
                         bit i of the corner mask is [ins] at corner i; masks are < 256; a cell
                         with a filled and an empty corner passes the "ambiguous" test of load<A>.
   quad_net              DIAG-INDEPENDENCE: for an axis A, the net counts of [quad ins d A p] are
                         those of its boundary cycle [cyc ins (A, p)], whatever d is (the
                         ambiguity test in [quad] is shown to be implied by the sign change).
   quad_net_diag_indep   the same stated as quad ... true ... = quad ... false ....
   cyc_tr, net_she       translation invariance of [cyc] and of net counts.
   cyc_xedge0            at the origin, for each of the 4 lattice edges in the face between the
                         cells O and bits B, only one boundary edge of its quad joins the two
                         cells, and it is [xedgeM], a function of the two corner masks only.
   face_check_all        THE FINITE SWEEP (vm_compute, about 2.5 s): for the 3 axes and all 4096
                         pairs of corner masks that agree on the 4 shared lattice points, the
                         (up to 4) across-face edges are balanced, computed from gen_e3/gen_p3.
   face_lemma            LOCAL FACE LEMMA, any position, any [ins]: summed over the four lattice
                         edges in the face between c and c + bits B, the boundary cycles use
                         every directed edge between vertices of these two cells as often as
                         its reverse.
   cyc_face              every boundary edge of the quad of (A, p) joins two face-adjacent
                         cells and (A, p) is one of the 4 lattice edges of their common face.
   cyc_support           LOCAL SUPPORT: a lattice edge whose cycle has non-zero net count on an
                         edge between c and c + bits B lies in that face.
   across_face_zero      under [covers], the net count over the whole mesh of any directed edge
                         between face-adjacent cells is zero.
   dc_grid_closed        MAIN THEOREM:
                           forall ins diag E, covers ins E -> closed_mesh (dc_mesh ins diag E).
   edges_of_covers       [covers] is satisfiable for every finite set S of filled points
                         ([ins_of S], [edges_of S] computed from S).
   dc_grid_closed_finite MAIN THEOREM without hypothesis, for every finite solid:
                           forall S diag, closed_mesh (dc_mesh (ins_of S) diag (edges_of S)).
   served_check_ok, patch_served, hv_patch_valid, quad_vertices_valid
                         (finite sweep over 256 masks x 64 corner pairs) a directed cell edge
                         from a filled to an empty corner is served by a patch; hence every
                         vertex of every emitted triangle has a patch index >= 0.
   one_covers, one_mesh_size, one_mesh_closed
                         NON-VACUITY: one filled lattice point, its 6 sign-changing edges listed
                         by hand, [covers] proved directly; 12 triangles; closed.
   diag_mesh_size, diag_mesh_two_patches, diag_mesh_closed
                         two filled points diagonally opposite on a cell face (ambiguous faces,
                         cells with two patches): 24 triangles, some vertex has patch index 1;
                         closed.
   block_mesh_size, block_mesh_closed
                         a 2 x 1 x 1 filled block: 20 triangles; closed. *)
From Coq Require Import List ZArith Bool Lia Permutation.
From LF Require Import Gen.MarchTables_gen Render.DCGrid.
Import ListNotations.
Local Open Scope Z_scope.

(* ------------------------------------------------------------------ *)
(* 1. directed-edge equality, net counts                               *)
(* ------------------------------------------------------------------ *)

Lemma vertex_eqb_eq (u v : vertex) : vertex_eqb u v = true <-> u = v.
Proof.
  destruct u as [[[a b] c] k], v as [[[x y] z] l]. unfold vertex_eqb.
  rewrite !andb_true_iff, !Z.eqb_eq. split.
  - intros [[[-> ->] ->] ->]. reflexivity.
  - intros H. inversion H. auto.
Qed.

Lemma vertex_eqb_sym (u v : vertex) : vertex_eqb u v = vertex_eqb v u.
Proof.
  destruct u as [[[a b] c] k], v as [[[x y] z] l]. unfold vertex_eqb.
  rewrite (Z.eqb_sym a), (Z.eqb_sym b), (Z.eqb_sym c), (Z.eqb_sym k). reflexivity.
Qed.

Lemma dedge_eqb_eq (e f : dedge) : dedge_eqb e f = true <-> e = f.
Proof.
  destruct e as [a b], f as [c d]. unfold dedge_eqb. cbn [fst snd].
  rewrite andb_true_iff, !vertex_eqb_eq. split.
  - intros [-> ->]. reflexivity.
  - intros H. inversion H. auto.
Qed.

Lemma dedge_eqb_rev (e x : dedge) : dedge_eqb (rev_dedge e) x = dedge_eqb e (rev_dedge x).
Proof. unfold dedge_eqb, rev_dedge. cbn [fst snd]. apply andb_comm. Qed.

Lemma rev_dedge_invol (e : dedge) : rev_dedge (rev_dedge e) = e.
Proof. destruct e. reflexivity. Qed.

(* weight of one list element for the query edge e: +1 if it is e, -1 if it is e reversed *)
Definition wt (e x : dedge) : Z :=
  (if dedge_eqb e x then 1 else 0) - (if dedge_eqb (rev_dedge e) x then 1 else 0).

Definition net (e : dedge) (l : list dedge) : Z :=
  Z.of_nat (count_dedge e l) - Z.of_nat (count_dedge (rev_dedge e) l).

Lemma net_nil e : net e [] = 0.
Proof. reflexivity. Qed.

Lemma net_cons e x l : net e (x :: l) = wt e x + net e l.
Proof.
  unfold net, wt, count_dedge. cbn [filter].
  destruct (dedge_eqb e x), (dedge_eqb (rev_dedge e) x); cbn [length]; lia.
Qed.

Lemma net_app e l1 l2 : net e (l1 ++ l2) = net e l1 + net e l2.
Proof.
  induction l1 as [|x l1 IH]; [reflexivity|].
  cbn [app]. rewrite !net_cons, IH. lia.
Qed.

Lemma wt_rev e x : wt e (rev_dedge x) = - wt e x.
Proof.
  unfold wt.
  assert (H1 : dedge_eqb e (rev_dedge x) = dedge_eqb (rev_dedge e) x)
    by (symmetry; apply dedge_eqb_rev).
  assert (H2 : dedge_eqb (rev_dedge e) (rev_dedge x) = dedge_eqb e x)
    by (rewrite dedge_eqb_rev, rev_dedge_invol; reflexivity).
  rewrite H1, H2. lia.
Qed.

Lemma net_rev e l : net (rev_dedge e) l = - net e l.
Proof. unfold net. rewrite rev_dedge_invol. lia. Qed.

Lemma closed_mesh_net m : closed_mesh m <-> forall e, net e (dedges m) = 0.
Proof.
  unfold closed_mesh, net. split; intros H e; specialize (H e); lia.
Qed.

Definition zsum {A : Type} (f : A -> Z) (l : list A) : Z := fold_right (fun a s => f a + s) 0 l.

Lemma net_flat_map {A : Type} e (g : A -> list dedge) (l : list A) :
  net e (flat_map g l) = zsum (fun a => net e (g a)) l.
Proof.
  induction l as [|a l IH]; [reflexivity|].
  cbn [flat_map zsum fold_right]. rewrite net_app, IH. reflexivity.
Qed.

Lemma dedges_flat_map {A : Type} (g : A -> list tri) (l : list A) :
  dedges (flat_map g l) = flat_map (fun a => dedges (g a)) l.
Proof.
  unfold dedges. induction l as [|a l IH]; [reflexivity|].
  cbn [flat_map]. rewrite flat_map_app, IH. reflexivity.
Qed.

Lemma zsum_ext {A : Type} (f g : A -> Z) l :
  (forall a, In a l -> f a = g a) -> zsum f l = zsum g l.
Proof.
  induction l as [|a l IH]; intros H; [reflexivity|].
  cbn [zsum fold_right]. rewrite (H a (or_introl eq_refl)). fold (zsum f l) (zsum g l).
  rewrite IH; [reflexivity|]. intros b Hb. apply H. right. exact Hb.
Qed.

Lemma zsum_map {A B : Type} (h : A -> B) (f : B -> Z) l : zsum f (map h l) = zsum (fun a => f (h a)) l.
Proof. induction l as [|a l IH]; [reflexivity|]. cbn [map zsum fold_right]. fold (zsum f (map h l)). rewrite IH. reflexivity. Qed.

Lemma zsum_zero {A : Type} (f : A -> Z) l : (forall a, In a l -> f a = 0) -> zsum f l = 0.
Proof.
  induction l as [|a l IH]; intros H; [reflexivity|].
  cbn [zsum fold_right]. fold (zsum f l). rewrite IH, (H a (or_introl eq_refl)); [reflexivity|].
  intros b Hb. apply H. right. exact Hb.
Qed.

Lemma zsum_perm {A : Type} (f : A -> Z) l1 l2 : Permutation l1 l2 -> zsum f l1 = zsum f l2.
Proof.
  induction 1; cbn [zsum fold_right] in *; try fold (zsum f l) in *; try fold (zsum f l') in *; lia.
Qed.

Lemma zsum_filter_nz {A : Type} (f : A -> Z) l :
  zsum f (filter (fun a => negb (f a =? 0)) l) = zsum f l.
Proof.
  induction l as [|a l IH]; [reflexivity|].
  cbn [filter]. destruct (Z.eqb_spec (f a) 0) as [E|E]; cbn [negb zsum fold_right];
    fold (zsum f l); fold (zsum f (filter (fun a => negb (f a =? 0)) l)); rewrite IH; lia.
Qed.

(* a sum only sees its support *)
Lemma zsum_support {A : Type} (f : A -> Z) (E F : list A) :
  NoDup E -> NoDup F ->
  (forall x, In x E -> f x <> 0 -> In x F) ->
  (forall x, In x F -> f x <> 0 -> In x E) ->
  zsum f E = zsum f F.
Proof.
  intros NE NF HEF HFE.
  rewrite <- (zsum_filter_nz f E), <- (zsum_filter_nz f F).
  apply zsum_perm. apply NoDup_Permutation.
  - apply NoDup_filter. exact NE.
  - apply NoDup_filter. exact NF.
  - intros x. rewrite !filter_In, !negb_true_iff, !Z.eqb_neq. split; intros [H1 H2]; split; auto.
Qed.

(* if the net count of a list is non-zero, the query edge or its reverse occurs in it *)
Lemma net_nonzero_in e l : net e l <> 0 -> exists x, In x l /\ (x = e \/ x = rev_dedge e).
Proof.
  induction l as [|x l IH]; [intros H; elim H; reflexivity|].
  rewrite net_cons. intros H.
  destruct (Z.eq_dec (wt e x) 0) as [W|W].
  - destruct IH as [y [Hy Hy']]; [lia|]. exists y. split; [right; exact Hy|exact Hy'].
  - exists x. split; [left; reflexivity|].
    unfold wt in W.
    destruct (dedge_eqb e x) eqn:E1.
    + left. symmetry. apply dedge_eqb_eq. exact E1.
    + destruct (dedge_eqb (rev_dedge e) x) eqn:E2.
      * right. symmetry. apply dedge_eqb_eq. exact E2.
      * elim W. reflexivity.
Qed.

(* ------------------------------------------------------------------ *)
(* 2. a quad's net contribution is that of its boundary 4-cycle        *)
(* ------------------------------------------------------------------ *)

Lemma two_tris_net_diag1 e (a b c d : vertex) :
  net e (dedges [(a, b, c); (c, b, d)]) = net e [(a, b); (b, d); (d, c); (c, a)].
Proof.
  cbn [dedges flat_map tri_edges app]. rewrite !net_cons, net_nil.
  change (c, b) with (rev_dedge (b, c)). rewrite wt_rev, ?net_nil. lia.
Qed.

Lemma two_tris_net_diag0 e (a b c d : vertex) :
  net e (dedges [(a, b, d); (a, d, c)]) = net e [(a, b); (b, d); (d, c); (c, a)].
Proof.
  cbn [dedges flat_map tri_edges app]. rewrite !net_cons, net_nil.
  change (a, d) with (rev_dedge (d, a)). rewrite wt_rev, ?net_nil. lia.
Qed.

(* ------------------------------------------------------------------ *)
(* 3. corner masks                                                     *)
(* ------------------------------------------------------------------ *)

Definition corners8 : list Z := [0; 1; 2; 3; 4; 5; 6; 7].

Lemma mask_testbit ins c i : In i corners8 -> Z.testbit (mask ins c) i = ins (corner c i).
Proof.
  intros H. unfold mask. cbn [fold_left].
  unfold corners8 in H. cbn [In] in H.
  destruct H as [<-|[<-|[<-|[<-|[<-|[<-|[<-|[<-|[]]]]]]]]];
    generalize (ins (corner c 0)) (ins (corner c 1)) (ins (corner c 2)) (ins (corner c 3))
               (ins (corner c 4)) (ins (corner c 5)) (ins (corner c 6)) (ins (corner c 7));
    intros b0 b1 b2 b3 b4 b5 b6 b7;
    destruct b0, b1, b2, b3, b4, b5, b6, b7; reflexivity.
Qed.

Lemma mask_range ins c : In (mask ins c) (map Z.of_nat (seq 0 256)).
Proof.
  unfold mask. cbn [fold_left].
  generalize (ins (corner c 0)) (ins (corner c 1)) (ins (corner c 2)) (ins (corner c 3))
             (ins (corner c 4)) (ins (corner c 5)) (ins (corner c 6)) (ins (corner c 7)).
  intros b0 b1 b2 b3 b4 b5 b6 b7.
  assert (H : forall n, (n < 256)%nat -> In (Z.of_nat n) (map Z.of_nat (seq 0 256))).
  { intros n Hn. apply in_map. apply in_seq. lia. }
  destruct b0, b1, b2, b3, b4, b5, b6, b7;
    match goal with |- In ?z _ => let n := eval vm_compute in (Z.to_nat z) in
      change z with (Z.of_nat n); apply H; vm_compute; lia end.
Qed.

(* a cell with a filled and an empty corner is "ambiguous" (neither all-empty nor all-full) *)
Lemma mixed_ambiguous ins c i j :
  In i corners8 -> In j corners8 -> ins (corner c i) = true -> ins (corner c j) = false ->
  ambiguous ins c = true.
Proof.
  intros Hi Hj Ti Fj. unfold ambiguous.
  rewrite <- (mask_testbit ins c i Hi) in Ti. rewrite <- (mask_testbit ins c j Hj) in Fj.
  destruct (Z.eqb_spec (mask ins c) 0) as [E|E].
  - rewrite E in Ti. rewrite Z.testbit_0_l in Ti. discriminate.
  - destruct (Z.eqb_spec (mask ins c) 255) as [E'|E']; [|reflexivity].
    rewrite E' in Fj. exfalso. revert Fj. clear -Hj.
    unfold corners8 in Hj. cbn [In] in Hj.
    destruct Hj as [<-|[<-|[<-|[<-|[<-|[<-|[<-|[<-|[]]]]]]]]]; discriminate.
Qed.

(* ------------------------------------------------------------------ *)
(* 4. point arithmetic                                                 *)
(* ------------------------------------------------------------------ *)

Ltac pt_eq :=
  repeat match goal with p : pt3 |- _ => destruct p as [[? ?] ?] end;
  cbn; repeat (f_equal; try lia).

Lemma padd_swap p t u : padd (padd p t) u = padd (padd p u) t.
Proof. pt_eq. Qed.
Lemma padd_assoc p t u : padd (padd p t) u = padd p (padd t u).
Proof. pt_eq. Qed.
Lemma padd_comm p t : padd p t = padd t p.
Proof. pt_eq. Qed.
Lemma psub_padd_swap p t u : psub (padd p t) u = padd (psub p u) t.
Proof. pt_eq. Qed.
Lemma padd_O p : padd (0, 0, 0) p = p.
Proof. pt_eq. Qed.
Lemma corner_psub p o : corner (psub p (bits o)) o = p.
Proof. unfold corner. generalize (bits o). intros. pt_eq. Qed.
Lemma psub_bits0 p : psub p (bits 0) = p.
Proof. pt_eq. Qed.

Lemma is_axis_cases A : is_axis A = true -> A = 1 \/ A = 2 \/ A = 4.
Proof.
  unfold is_axis. rewrite !orb_true_iff, !Z.eqb_eq. tauto.
Qed.

(* ------------------------------------------------------------------ *)
(* 5. the boundary cycle of a quad                                     *)
(* ------------------------------------------------------------------ *)

Definition dirE (D : bool) (a b : Z) : Z := if D then e3 a b else e3 b a.

(* the vertex of the cell in which p is corner o, serving the lattice edge (A, p), i.e. that
   cell's edge o -> o + A, directed from the filled to the empty end *)
Definition hv (ins : pt3 -> bool) (A : Z) (p : pt3) (o : Z) : vertex :=
  (psub p (bits o), p3 (mask ins (psub p (bits o))) (dirE (ins p) o (o + A))).

Definition cyc (ins : pt3 -> bool) (L : ledge) : list dedge :=
  let A := fst L in let p := snd L in
  if sign_change ins L then
    let q := Qax A in let r := Rax A in
    let h := hv ins A p in
    if ins p then [(h (q + r), h r); (h r, h 0); (h 0, h q); (h q, h (q + r))]
    else [(h (q + r), h q); (h q, h 0); (h 0, h r); (h r, h (q + r))]
  else [].

Lemma sign_change_ambiguous ins A p o :
  is_axis A = true -> In o [0; Qax A; Rax A; Qax A + Rax A] ->
  sign_change ins (A, p) = true -> ambiguous ins (psub p (bits o)) = true.
Proof.
  intros HA Ho HS. unfold sign_change in HS. cbn [fst snd] in HS.
  assert (P1 : corner (psub p (bits o)) o = p) by apply corner_psub.
  assert (P2 : corner (psub p (bits o)) (o + A) = padd p (bits A)).
  { destruct (is_axis_cases A HA) as [-> | [-> | ->]]; cbn [In Qax Rax Z.eqb Pos.eqb] in Ho;
      destruct Ho as [<-|[<-|[<-|[<-|[]]]]]; pt_eq. }
  assert (I1 : In o corners8 /\ In (o + A) corners8).
  { destruct (is_axis_cases A HA) as [-> | [-> | ->]]; cbn [In Qax Rax Z.eqb Pos.eqb] in Ho;
      destruct Ho as [<-|[<-|[<-|[<-|[]]]]]; cbn; tauto. }
  destruct I1 as [I1 I2].
  destruct (ins p) eqn:Ep, (ins (padd p (bits A))) eqn:Eq; try discriminate.
  - apply (mixed_ambiguous ins _ o (o + A)); auto; congruence.
  - apply (mixed_ambiguous ins _ (o + A) o); auto; congruence.
Qed.

Theorem quad_net ins d A p e :
  is_axis A = true -> net e (dedges (quad ins d A p)) = net e (cyc ins (A, p)).
Proof.
  intros HA. unfold quad, cyc. cbn [fst snd].
  destruct (sign_change ins (A, p)) eqn:HS.
  - assert (Amb : forall o, In o [0; Qax A; Rax A; Qax A + Rax A] ->
                            ambiguous ins (psub p (bits o)) = true)
      by (intros o Ho; apply (sign_change_ambiguous ins A p o HA Ho HS)).
    assert (C0 : psub (psub p (bits (Qax A))) (bits (Rax A)) = psub p (bits (Qax A + Rax A)))
      by (destruct (is_axis_cases A HA) as [-> | [-> | ->]]; pt_eq).
    rewrite C0.
    rewrite <- (psub_bits0 p) at 4 9.
    rewrite !Amb by (cbn [In]; tauto).
    cbn [andb negb].
    unfold sign_change in HS. cbn [fst snd] in HS.
    destruct (Bool.eqb (ins p) (ins (padd p (bits A)))); [discriminate|].
    unfold hv, dirE. rewrite !psub_bits0.
    cbn [map nth fst snd].
    destruct (is_axis_cases A HA) as [-> | [-> | ->]]; cbn [Qax Rax Z.eqb Pos.eqb Z.add Pos.add];
      destruct (ins p); destruct d;
        first [apply two_tris_net_diag1 | apply two_tris_net_diag0].
  - unfold sign_change in HS. cbn [fst snd] in HS.
    destruct (Bool.eqb (ins p) (ins (padd p (bits A)))); [|discriminate].
    match goal with |- context [if ?b then _ else _] => destruct b end; reflexivity.
Qed.

(* ------------------------------------------------------------------ *)
(* 6. translation invariance                                           *)
(* ------------------------------------------------------------------ *)

Definition shv (t : pt3) (v : vertex) : vertex := (padd (fst v) t, snd v).
Definition she (t : pt3) (e : dedge) : dedge := (shv t (fst e), shv t (snd e)).
Definition tr (ins : pt3 -> bool) (t : pt3) : pt3 -> bool := fun p => ins (padd p t).

Lemma mask_tr ins t c : mask (tr ins t) c = mask ins (padd c t).
Proof.
  unfold mask, tr, corner. cbn [fold_left]. rewrite !(padd_swap c t). reflexivity.
Qed.

Lemma cyc_tr ins t A p : cyc ins (A, padd p t) = map (she t) (cyc (tr ins t) (A, p)).
Proof.
  unfold cyc, sign_change. cbn [fst snd].
  assert (H : forall o, hv ins A (padd p t) o = shv t (hv (tr ins t) A p o)).
  { intros o. unfold hv, shv. cbn [fst snd]. rewrite mask_tr, psub_padd_swap. reflexivity. }
  unfold tr at 1 2 3. rewrite (padd_swap p (bits A) t).
  destruct (negb _); [|reflexivity].
  destruct (ins (padd p t)); cbn [map]; unfold she; cbn [fst snd]; rewrite !H; reflexivity.
Qed.

Lemma Zeqb_add_r a b t : (a + t =? b + t) = (a =? b).
Proof. destruct (Z.eqb_spec a b), (Z.eqb_spec (a + t) (b + t)); try reflexivity; lia. Qed.

Lemma dedge_eqb_she t e x : dedge_eqb (she t e) (she t x) = dedge_eqb e x.
Proof.
  destruct e as [[[[a b] c] k] [[[a' b'] c'] k']], x as [[[[x y] z] l] [[[x' y'] z'] l']].
  destruct t as [[t1 t2] t3].
  unfold dedge_eqb, she, shv, vertex_eqb, padd. cbn [fst snd].
  rewrite !Zeqb_add_r. reflexivity.
Qed.

Lemma net_she t e l : net (she t e) (map (she t) l) = net e l.
Proof.
  induction l as [|x l IH]; [reflexivity|].
  cbn [map]. rewrite !net_cons, IH. unfold wt.
  change (rev_dedge (she t e)) with (she t (rev_dedge e)).
  rewrite !dedge_eqb_she. reflexivity.
Qed.

(* ------------------------------------------------------------------ *)
(* 7. the face between the cells c and c + bits B                      *)
(* ------------------------------------------------------------------ *)

(* The four lattice edges lying in that face, as (axis A, corner a of cell c where the lattice
   edge starts, direction flag): the quad of that lattice edge has exactly one boundary edge
   joining the vertices of the two cells; it runs c -> c + bits B iff (ins start = flag). *)
Definition fdata (B : Z) : list (Z * Z * bool) :=
  [(Qax B, B, true); (Qax B, B + Rax B, false); (Rax B, B + Qax B, true); (Rax B, B, false)].

Definition fedge (c : pt3) (d : Z * Z * bool) : ledge := (fst (fst d), padd (bits (snd (fst d))) c).
Definition fedges (B : Z) (c : pt3) : list ledge := map (fedge c) (fdata B).

Definition O3 : pt3 := (0, 0, 0).

(* the across-face boundary edge of the quad of an in-face lattice edge, for the cells at the
   origin and at bits B, as a function of the two corner masks only *)
Definition xedgeM (B m m' : Z) (d : Z * Z * bool) : list dedge :=
  let '(A, a, fwd) := d in
  let D := Z.testbit m a in
  if Bool.eqb D (Z.testbit m (a + A)) then []
  else
    let vc : vertex := (O3, p3 m (dirE D a (a + A))) in
    let vc' : vertex := (bits B, p3 m' (dirE D (a - B) (a - B + A))) in
    if Bool.eqb D fwd then [(vc, vc')] else [(vc', vc)].

Local Arguments mask : simpl never.
Local Arguments p3 : simpl never.
Local Arguments e3 : simpl never.

Ltac destruct_ins ins :=
  repeat match goal with
         | |- context [ins (?a, ?b, ?c)] => destruct (ins (a, b, c))
         end.

(* at the origin: of the four boundary edges of the quad of an in-face lattice edge, only the
   across-face one can be an edge between the two cells *)
Lemma cyc_xedge0 ins B d k k' :
  is_axis B = true -> In d (fdata B) ->
  net ((O3, k), (bits B, k')) (cyc ins (fedge O3 d)) =
  net ((O3, k), (bits B, k')) (xedgeM B (mask ins O3) (mask ins (bits B)) d).
Proof.
  intros HB Hd.
  destruct (is_axis_cases B HB) as [-> | [-> | ->]];
    cbn [fdata In Qax Rax Z.eqb Pos.eqb] in Hd;
    destruct Hd as [<- | [<- | [<- | [<- | []]]]];
    unfold xedgeM; rewrite !mask_testbit by (cbn; tauto);
    unfold cyc, fedge, sign_change, hv, O3;
    change (bits 1) with ((1, 0, 0) : pt3); change (bits 2) with ((0, 1, 0) : pt3);
    change (bits 4) with ((0, 0, 1) : pt3); cbn;
    destruct_ins ins; cbn; rewrite ?net_cons, ?net_nil;
    unfold wt, dedge_eqb, rev_dedge, vertex_eqb; cbn;
    rewrite ?andb_false_r; try reflexivity.
    all: match goal with |- context [if ?b then _ else _] => destruct b end; reflexivity.
Qed.

(* ------------------------------------------------------------------ *)
(* 8. the local face lemma, by evaluation of gen_e3 / gen_p3           *)
(* ------------------------------------------------------------------ *)

Definition balanced (l : list dedge) : bool :=
  forallb (fun x => Nat.eqb (count_dedge x l) (count_dedge (rev_dedge x) l)) l.

Lemma count_pos_in e l : (0 < count_dedge e l)%nat -> In e l.
Proof.
  unfold count_dedge. induction l as [|x l IH]; cbn [filter length]; [lia|].
  destruct (dedge_eqb e x) eqn:E.
  - intros _. left. symmetry. apply dedge_eqb_eq. exact E.
  - intros H. right. apply IH. exact H.
Qed.

Lemma balanced_net l : balanced l = true -> forall e, net e l = 0.
Proof.
  unfold balanced. rewrite forallb_forall. intros H e. unfold net.
  destruct (Nat.eq_dec (count_dedge e l) 0) as [Z1|N1].
  - destruct (Nat.eq_dec (count_dedge (rev_dedge e) l) 0) as [Z2|N2]; [lia|].
    assert (I : In (rev_dedge e) l) by (apply count_pos_in; lia).
    specialize (H _ I). apply Nat.eqb_eq in H. rewrite rev_dedge_invol in H. lia.
  - assert (I : In e l) by (apply count_pos_in; lia).
    specialize (H _ I). apply Nat.eqb_eq in H. lia.
Qed.

(* the two masks agree on the four shared lattice points *)
Definition compat (B m m' : Z) : bool :=
  forallb (fun i => if Z.testbit i (Z.log2 B) then true
                    else Bool.eqb (Z.testbit m' i) (Z.testbit m (i + B))) corners8.

Definition zrange (n : nat) : list Z := map Z.of_nat (seq 0 n).

Definition face_check (B : Z) : bool :=
  forallb (fun m => forallb (fun m' =>
    if compat B m m' then balanced (flat_map (xedgeM B m m') (fdata B)) else true)
    (zrange 256)) (zrange 256).

(* THE FINITE SWEEP: 3 axes x 4096 compatible mask pairs, against gen_e3 / gen_p3 *)
Lemma face_check_all : forallb face_check [1; 2; 4] = true.
Proof. vm_compute. reflexivity. Qed.

Lemma face_masks B m m' :
  is_axis B = true -> In m (zrange 256) -> In m' (zrange 256) -> compat B m m' = true ->
  forall e, net e (flat_map (xedgeM B m m') (fdata B)) = 0.
Proof.
  intros HB Hm Hm' Hc. apply balanced_net.
  pose proof face_check_all as H. rewrite forallb_forall in H.
  assert (HB' : In B [1; 2; 4]) by (destruct (is_axis_cases B HB) as [-> | [-> | ->]]; cbn; tauto).
  specialize (H B HB'). unfold face_check in H. rewrite forallb_forall in H.
  specialize (H m Hm). rewrite forallb_forall in H. specialize (H m' Hm').
  rewrite Hc in H. exact H.
Qed.

Lemma compat_masks ins B : is_axis B = true -> compat B (mask ins O3) (mask ins (bits B)) = true.
Proof.
  intros HB. unfold compat, corners8.
  destruct (is_axis_cases B HB) as [-> | [-> | ->]]; cbn [forallb];
    repeat match goal with
           | |- context [Z.testbit ?i (Z.log2 ?b)] =>
             let v := eval vm_compute in (Z.testbit i (Z.log2 b)) in
             change (Z.testbit i (Z.log2 b)) with v
           end; cbn iota;
    rewrite !mask_testbit by (cbn; tauto);
    repeat match goal with
           | |- context [ins (corner ?c ?i)] =>
             let v := eval vm_compute in (corner c i) in change (corner c i) with v
           end;
    rewrite !Bool.eqb_reflx; reflexivity.
Qed.

(* LOCAL FACE LEMMA at the origin *)
Lemma face_origin ins B k k' :
  is_axis B = true ->
  zsum (fun d => net ((O3, k), (bits B, k')) (cyc ins (fedge O3 d))) (fdata B) = 0.
Proof.
  intros HB.
  rewrite (zsum_ext _ (fun d => net ((O3, k), (bits B, k'))
                                    (xedgeM B (mask ins O3) (mask ins (bits B)) d))).
  - rewrite <- net_flat_map. apply face_masks; auto using mask_range, compat_masks.
  - intros d Hd. apply cyc_xedge0; assumption.
Qed.

(* LOCAL FACE LEMMA, any position: the boundary cycles of the quads of the four lattice edges
   in the face between c and c + bits B use every directed edge between vertices of these two
   cells as often as its reverse *)
Theorem face_lemma ins B c k k' :
  is_axis B = true ->
  zsum (fun L => net ((c, k), (padd c (bits B), k')) (cyc ins L)) (fedges B c) = 0.
Proof.
  intros HB. unfold fedges. rewrite zsum_map.
  rewrite <- (face_origin (tr ins c) B k k' HB).
  apply zsum_ext. intros d _.
  unfold fedge. rewrite cyc_tr.
  replace ((c, k), (padd c (bits B), k')) with (she c ((O3, k), (bits B, k'))).
  - rewrite net_she. unfold O3. rewrite (padd_comm (bits (snd (fst d))) (0, 0, 0)), padd_O.
    reflexivity.
  - unfold she, shv, O3. cbn [fst snd]. rewrite padd_O, (padd_comm (bits B) c). reflexivity.
Qed.

(* ------------------------------------------------------------------ *)
(* 9. local support: which lattice edges can contribute across a face  *)
(* ------------------------------------------------------------------ *)

Definition adj (c : pt3) (B : Z) (u v : pt3) : Prop :=
  (u = c /\ v = padd c (bits B)) \/ (u = padd c (bits B) /\ v = c).

Ltac norm_pts :=
  unfold fedges, fedge, adj; cbn [map fdata fst snd Qax Rax Z.eqb Pos.eqb];
  repeat match goal with
         | |- context [bits ?k] => let v := eval vm_compute in (bits k) in change (bits k) with v
         end;
  cbn [padd psub In].
Ltac pt3eq := apply (f_equal2 (@pair (Z * Z) Z)); [apply (f_equal2 (@pair Z Z))|]; lia.
Ltac ledge_eq := apply (f_equal2 (@pair Z pt3)); [reflexivity|pt3eq].
Ltac cyc_face_fin :=
  split; [reflexivity|]; split;
  [ norm_pts;
    first [ left; ledge_eq
          | right; left; ledge_eq
          | right; right; left; ledge_eq
          | right; right; right; left; ledge_eq ]
  | norm_pts;
    first [ left; split; pt3eq | right; split; pt3eq ] ].
Ltac cyc_face_try B :=
  match goal with
  | |- exists _ _, _ /\ _ /\ adj _ _ ?u ?v =>
    first [ solve [exists B, u; cyc_face_fin] | solve [exists B, v; cyc_face_fin] ]
  end.

(* every boundary edge of the quad of (A, p) joins two face-adjacent cells, and (A, p) lies in
   their common face *)
Lemma cyc_face ins A p x :
  is_axis A = true -> In x (cyc ins (A, p)) ->
  exists B c, is_axis B = true /\ In (A, p) (fedges B c) /\ adj c B (fst (fst x)) (fst (snd x)).
Proof.
  intros HA. unfold cyc. cbn [fst snd].
  destruct (sign_change ins (A, p)); [|intros []].
  destruct p as [[px py] pz].
  destruct (is_axis_cases A HA) as [-> | [-> | ->]]; cbn [Qax Rax Z.eqb Pos.eqb];
    destruct (ins (px, py, pz)); cbn [In];
    intros [<- | [<- | [<- | [<- | []]]]]; unfold hv; cbn [fst snd];
    first [ solve [cyc_face_try constr:(1)] | solve [cyc_face_try constr:(2)] | solve [cyc_face_try constr:(4)] ].
Qed.

Lemma adj_unique c B c2 B2 u v :
  is_axis B = true -> is_axis B2 = true -> adj c B u v -> adj c2 B2 u v -> c2 = c /\ B2 = B.
Proof.
  intros HB HB2 H1 H2.
  destruct c as [[x y] z], c2 as [[x2 y2] z2].
  destruct (is_axis_cases B HB) as [-> | [-> | ->]];
    destruct (is_axis_cases B2 HB2) as [-> | [-> | ->]];
    destruct H1 as [[-> ->] | [-> ->]]; destruct H2 as [[E1 E2] | [E1 E2]];
    cbn in E1, E2; inversion E1; inversion E2;
    first [ lia | split; [repeat f_equal; lia | lia] ].
Qed.

Lemma cyc_support ins A p B c k k' :
  is_axis A = true -> is_axis B = true ->
  net ((c, k), (padd c (bits B), k')) (cyc ins (A, p)) <> 0 -> In (A, p) (fedges B c).
Proof.
  intros HA HB H.
  destruct (net_nonzero_in _ _ H) as [x [Hx Hx']].
  destruct (cyc_face ins A p x HA Hx) as [B2 [c2 [HB2 [HI Hadj]]]].
  assert (Hadj' : adj c B (fst (fst x)) (fst (snd x))).
  { destruct Hx' as [-> | ->]; unfold adj, rev_dedge; cbn [fst snd]; tauto. }
  destruct (adj_unique c B c2 B2 _ _ HB HB2 Hadj' Hadj) as [-> ->]. exact HI.
Qed.

Lemma fedges_axis B c L : is_axis B = true -> In L (fedges B c) -> is_axis (fst L) = true.
Proof.
  intros HB H. unfold fedges, fedge in H.
  destruct (is_axis_cases B HB) as [-> | [-> | ->]]; cbn [map fdata Qax Rax Z.eqb Pos.eqb In] in H;
    destruct H as [<- | [<- | [<- | [<- | []]]]]; reflexivity.
Qed.

Lemma ledge_eq_inv (A A' a b c a' b' c' : Z) :
  (A, (a, b, c)) = (A', (a', b', c')) -> A = A' /\ a = a' /\ b = b' /\ c = c'.
Proof. intros H. inversion H. auto. Qed.

Lemma fedges_NoDup B c : is_axis B = true -> NoDup (fedges B c).
Proof.
  intros HB. destruct c as [[x y] z].
  destruct (is_axis_cases B HB) as [-> | [-> | ->]]; norm_pts;
    repeat (constructor; [cbn [In]; intros H;
      repeat (destruct H as [H | H];
              [apply ledge_eq_inv in H; lia|]); exact H|]);
    constructor.
Qed.

Lemma cyc_nil ins L : sign_change ins L = false -> cyc ins L = [].
Proof. intros H. unfold cyc. rewrite H. reflexivity. Qed.

(* ------------------------------------------------------------------ *)
(* 10. global regrouping and the main theorem                          *)
(* ------------------------------------------------------------------ *)

Lemma mesh_net ins diag E e :
  (forall L, In L E -> is_axis (fst L) = true) ->
  net e (dedges (dc_mesh ins diag E)) = zsum (fun L => net e (cyc ins L)) E.
Proof.
  intros HE. unfold dc_mesh. rewrite dedges_flat_map, net_flat_map.
  apply zsum_ext. intros [A p] HL. cbn [fst snd]. apply quad_net. exact (HE _ HL).
Qed.

(* edges between face-adjacent cells *)
Lemma across_face_zero ins E B c k k' :
  covers ins E -> is_axis B = true ->
  zsum (fun L => net ((c, k), (padd c (bits B), k')) (cyc ins L)) E = 0.
Proof.
  intros [ND [HAx HC]] HB.
  rewrite (zsum_support _ E (fedges B c)).
  - apply face_lemma. exact HB.
  - exact ND.
  - apply fedges_NoDup. exact HB.
  - intros [A p] HL Hn. apply (cyc_support ins A p B c k k'); auto. exact (HAx _ HL).
  - intros [A p] HL Hn. apply HC.
    + exact (fedges_axis B c _ HB HL).
    + destruct (sign_change ins (A, p)) eqn:S; [reflexivity|].
      rewrite (cyc_nil _ _ S) in Hn. elim Hn. reflexivity.
Qed.

Theorem dc_grid_closed ins diag E : covers ins E -> closed_mesh (dc_mesh ins diag E).
Proof.
  intros HC. apply closed_mesh_net. intros e.
  pose proof HC as [ND [HAx HCov]].
  rewrite (mesh_net ins diag E e HAx).
  (* either no quad touches e, or some quad does and then e joins face-adjacent cells *)
  assert (Dec : (forall L, In L E -> net e (cyc ins L) = 0) \/
                (exists L, In L E /\ net e (cyc ins L) <> 0)).
  { clear. induction E as [|L E IH]; [left; intros L []|].
    destruct (Z.eq_dec (net e (cyc ins L)) 0) as [Z0|NZ].
    - destruct IH as [IH|[L' [H1 H2]]].
      + left. intros L' [<-|H]; auto.
      + right. exists L'. split; [right|]; assumption.
    - right. exists L. split; [left; reflexivity|exact NZ]. }
  destruct Dec as [Zall|[[A p] [HL Hn]]]; [apply zsum_zero; exact Zall|].
  destruct (net_nonzero_in _ _ Hn) as [x [Hx Hx']].
  destruct (cyc_face ins A p x (HAx _ HL) Hx) as [B [c [HB [_ Hadj]]]].
  destruct e as [[c1 k1] [c2 k2]].
  assert (Hadj' : adj c B c1 c2).
  { destruct Hx' as [-> | ->]; unfold adj, rev_dedge in *; cbn [fst snd] in *; tauto. }
  destruct Hadj' as [[-> ->] | [-> ->]].
  - apply across_face_zero; assumption.
  - rewrite (zsum_ext _ (fun L => - net ((c, k2), (padd c (bits B), k1)) (cyc ins L))).
    + assert (Neg : forall (f : ledge -> Z) l, zsum (fun L => - f L) l = - zsum f l).
      { intros f l. induction l as [|a l IH]; [reflexivity|].
        cbn [zsum fold_right]. fold (zsum f l). fold (zsum (fun L => - f L) l). rewrite IH. lia. }
      rewrite Neg, across_face_zero by assumption. reflexivity.
    + intros L _. rewrite <- net_rev. reflexivity.
Qed.

(* ------------------------------------------------------------------ *)
(* 11. diag-independence, stated on its own                            *)
(* ------------------------------------------------------------------ *)

Theorem quad_net_diag_indep ins A p e :
  is_axis A = true ->
  net e (dedges (quad ins true A p)) = net e (dedges (quad ins false A p)).
Proof. intros HA. rewrite !quad_net by exact HA. reflexivity. Qed.

(* ------------------------------------------------------------------ *)
(* 12. non-vacuity: a single filled lattice point                      *)
(* ------------------------------------------------------------------ *)

Definition one_ins : pt3 -> bool := fun p => let '(x, y, z) := p in (x =? 0) && (y =? 0) && (z =? 0).
Definition one_E : list ledge :=
  [(1, (0, 0, 0)); (1, (-1, 0, 0)); (2, (0, 0, 0)); (2, (0, -1, 0)); (4, (0, 0, 0)); (4, (0, 0, -1))].

Lemma one_covers : covers one_ins one_E.
Proof.
  unfold covers. split; [|split].
  - unfold one_E. repeat (constructor; [cbn [In]; intros H;
      repeat (destruct H as [H | H]; [inversion H|]); exact H|]). constructor.
  - intros e H. unfold one_E in H. cbn [In] in H.
    destruct H as [<- | [<- | [<- | [<- | [<- | [<- | []]]]]]]; reflexivity.
  - intros A [[x y] z] HA. unfold sign_change, one_ins, one_E. cbn [fst snd].
    destruct (is_axis_cases A HA) as [-> | [-> | ->]]; cbn [padd bits Z.land Z.shiftr Z.shiftl Z.div2 Pos.div2 Z.opp Pos.land Z.of_N];
      cbn;
      destruct (Z.eqb_spec x 0), (Z.eqb_spec y 0), (Z.eqb_spec z 0); cbn;
      try discriminate;
      repeat match goal with
             | |- context [?a + 1 =? 0] => destruct (Z.eqb_spec (a + 1) 0)
             | |- context [?a + 0 =? 0] => destruct (Z.eqb_spec (a + 0) 0)
             end; cbn; try discriminate; try lia; intros _; subst;
      repeat match goal with
             | H : ?a + 1 = 0 |- _ => assert (a = -1) by lia; clear H; subst a
             end; tauto.
Qed.

Lemma one_mesh_size : forall diag, length (dc_mesh one_ins diag one_E) = 12%nat.
Proof.
  intros diag. unfold dc_mesh, one_E. cbn [flat_map fst snd].
  rewrite !app_length.
  repeat match goal with
         | |- context [quad one_ins (diag ?L) ?A ?p] => destruct (diag L)
         end; vm_compute; reflexivity.
Qed.

Theorem one_mesh_closed : forall diag, closed_mesh (dc_mesh one_ins diag one_E).
Proof. intros diag. apply dc_grid_closed. exact one_covers. Qed.

(* ------------------------------------------------------------------ *)
(* 13. the hypothesis [covers] is satisfiable for every finite solid   *)
(* ------------------------------------------------------------------ *)

Definition pt_eqb (p q : pt3) : bool :=
  let '(a, b, c) := p in let '(x, y, z) := q in (a =? x) && (b =? y) && (c =? z).

Lemma pt_eqb_eq p q : pt_eqb p q = true <-> p = q.
Proof.
  destruct p as [[a b] c], q as [[x y] z]. unfold pt_eqb.
  rewrite !andb_true_iff, !Z.eqb_eq. split.
  - intros [[-> ->] ->]. reflexivity.
  - intros H. inversion H. auto.
Qed.

(* the solid whose filled lattice points are exactly those of the list S *)
Definition ins_of (S : list pt3) : pt3 -> bool := fun p => existsb (pt_eqb p) S.

Lemma ins_of_In S p : ins_of S p = true <-> In p S.
Proof.
  unfold ins_of. rewrite existsb_exists. split.
  - intros [q [Hq E]]. apply pt_eqb_eq in E. subst. exact Hq.
  - intros H. exists p. split; [exact H|]. apply pt_eqb_eq. reflexivity.
Qed.

Definition ledge_eq_dec : forall a b : ledge, {a = b} + {a <> b}.
Proof. repeat decide equality. Defined.

Definition cands (S : list pt3) : list ledge :=
  flat_map (fun s => flat_map (fun A => [(A, s); (A, psub s (bits A))]) [1; 2; 4]) S.

Definition edges_of (S : list pt3) : list ledge :=
  nodup ledge_eq_dec (filter (sign_change (ins_of S)) (cands S)).

Lemma psub_padd p t : psub (padd p t) t = p.
Proof. pt_eq. Qed.

Theorem edges_of_covers S : covers (ins_of S) (edges_of S).
Proof.
  unfold covers, edges_of. split; [apply NoDup_nodup|]. split.
  - intros e H. apply nodup_In in H. apply filter_In in H. destruct H as [H _].
    unfold cands in H. apply in_flat_map in H. destruct H as [s [_ H]].
    cbn [flat_map app In] in H.
    destruct H as [<- | [<- | [<- | [<- | [<- | [<- | []]]]]]]; reflexivity.
  - intros A p HA HS. apply nodup_In. apply filter_In. split; [|exact HS].
    unfold sign_change in HS. cbn [fst snd] in HS.
    unfold cands. apply in_flat_map.
    destruct (ins_of S p) eqn:E1.
    + exists p. split; [apply ins_of_In; exact E1|].
      destruct (is_axis_cases A HA) as [-> | [-> | ->]]; cbn [flat_map app In]; tauto.
    + destruct (ins_of S (padd p (bits A))) eqn:E2; [|discriminate].
      exists (padd p (bits A)). split; [apply ins_of_In; exact E2|].
      rewrite <- (psub_padd p (bits A)) at 1.
      destruct (is_axis_cases A HA) as [-> | [-> | ->]]; cbn [flat_map app In]; tauto.
Qed.

(* MAIN THEOREM without hypothesis, for any finite set of filled lattice points *)
Theorem dc_grid_closed_finite S diag : closed_mesh (dc_mesh (ins_of S) diag (edges_of S)).
Proof. apply dc_grid_closed. apply edges_of_covers. Qed.

(* ------------------------------------------------------------------ *)
(* 14. the emitted vertices are real patches                           *)
(* ------------------------------------------------------------------ *)

(* by evaluation of the tables: a directed cell edge from a filled to an empty corner is
   served by a patch *)
Definition served_check : bool :=
  forallb (fun m => forallb (fun a => forallb (fun b =>
    if (0 <=? e3 a b) && Z.testbit m a && negb (Z.testbit m b) then 0 <=? p3 m (e3 a b) else true)
    corners8) corners8) (zrange 256).

Lemma served_check_ok : served_check = true.
Proof. vm_compute. reflexivity. Qed.

Lemma patch_served m a b :
  In m (zrange 256) -> In a corners8 -> In b corners8 -> 0 <= e3 a b ->
  Z.testbit m a = true -> Z.testbit m b = false -> 0 <= p3 m (e3 a b).
Proof.
  intros Hm Ha Hb He Ta Tb.
  pose proof served_check_ok as H. unfold served_check in H.
  rewrite forallb_forall in H. specialize (H m Hm).
  rewrite forallb_forall in H. specialize (H a Ha).
  rewrite forallb_forall in H. specialize (H b Hb).
  rewrite Ta, Tb in H. apply Z.leb_le in He. rewrite He in H. cbn in H.
  apply Z.leb_le. exact H.
Qed.

Lemma hv_patch_valid ins A p o :
  is_axis A = true -> In o [0; Qax A; Rax A; Qax A + Rax A] ->
  sign_change ins (A, p) = true -> 0 <= snd (hv ins A p o).
Proof.
  intros HA Ho HS. unfold sign_change in HS. cbn [fst snd] in HS.
  assert (P1 : corner (psub p (bits o)) o = p) by apply corner_psub.
  assert (P2 : corner (psub p (bits o)) (o + A) = padd p (bits A)).
  { destruct (is_axis_cases A HA) as [-> | [-> | ->]]; cbn [In Qax Rax Z.eqb Pos.eqb] in Ho;
      destruct Ho as [<- | [<- | [<- | [<- | []]]]]; pt_eq. }
  assert (I1 : In o corners8 /\ In (o + A) corners8 /\ 0 <= e3 o (o + A) /\ 0 <= e3 (o + A) o).
  { destruct (is_axis_cases A HA) as [-> | [-> | ->]]; cbn [In Qax Rax Z.eqb Pos.eqb] in Ho;
      destruct Ho as [<- | [<- | [<- | [<- | []]]]]; vm_compute; intuition congruence. }
  destruct I1 as [I1 [I2 [I3 I4]]].
  unfold hv, dirE. cbn [snd].
  pose proof (mask_testbit ins (psub p (bits o)) o I1) as T1.
  pose proof (mask_testbit ins (psub p (bits o)) (o + A) I2) as T2.
  rewrite P1 in T1. rewrite P2 in T2.
  destruct (ins p) eqn:Ep, (ins (padd p (bits A))) eqn:Eq; try discriminate.
  - apply patch_served; auto. apply mask_range.
  - apply patch_served; auto. apply mask_range.
Qed.

(* every vertex of every emitted triangle has a non-negative patch index *)
Theorem quad_vertices_valid ins d A p t :
  is_axis A = true -> In t (quad ins d A p) ->
  let '(a, b, c) := t in 0 <= snd a /\ 0 <= snd b /\ 0 <= snd c.
Proof.
  intros HA. unfold quad.
  destruct (negb _); [intros []|].
  destruct (Bool.eqb (ins p) (ins (padd p (bits A)))) eqn:HE; [intros []|].
  assert (HS : sign_change ins (A, p) = true).
  { unfold sign_change. cbn [fst snd]. rewrite HE. reflexivity. }
  assert (V : forall o, In o [0; Qax A; Rax A; Qax A + Rax A] -> 0 <= snd (hv ins A p o))
    by (intros o Ho; apply hv_patch_valid; assumption).
  assert (C0 : psub (psub p (bits (Qax A))) (bits (Rax A)) = psub p (bits (Qax A + Rax A)))
    by (destruct (is_axis_cases A HA) as [-> | [-> | ->]]; pt_eq).
  rewrite C0.
  pose proof (V 0) as V0. pose proof (V (Qax A)) as V1. pose proof (V (Rax A)) as V2.
  pose proof (V (Qax A + Rax A)) as V3.
  unfold hv, dirE in V0, V1, V2, V3. cbn [snd] in V0, V1, V2, V3.
  rewrite psub_bits0 in V0.
  cbn [map nth fst snd].
  destruct (is_axis_cases A HA) as [-> | [-> | ->]];
    cbn [Qax Rax Z.eqb Pos.eqb Z.add Pos.add In] in *;
    destruct (ins p); destruct d; cbn [In];
    intros [<- | [<- | []]]; cbn [snd]; intuition.
Qed.

(* ------------------------------------------------------------------ *)
(* 15. further examples                                                *)
(* ------------------------------------------------------------------ *)

(* two filled points diagonally opposite on a cell face: ambiguous faces, two patches per cell *)
Definition diag_S : list pt3 := [(0, 0, 0); (1, 1, 0)].

Lemma diag_mesh_size : forall d, length (dc_mesh (ins_of diag_S) (fun _ => d) (edges_of diag_S)) = 24%nat.
Proof. intros []; vm_compute; reflexivity. Qed.

Lemma diag_mesh_two_patches :
  existsb (fun t => let '(a, _, _) := t in snd a =? 1) (dc_mesh (ins_of diag_S) (fun _ => true) (edges_of diag_S)) = true.
Proof. vm_compute. reflexivity. Qed.

Theorem diag_mesh_closed : forall diag, closed_mesh (dc_mesh (ins_of diag_S) diag (edges_of diag_S)).
Proof. intros diag. apply dc_grid_closed_finite. Qed.

(* a 2 x 1 x 1 block *)
Definition block_S : list pt3 := [(0, 0, 0); (1, 0, 0)].

Lemma block_mesh_size : forall d, length (dc_mesh (ins_of block_S) (fun _ => d) (edges_of block_S)) = 20%nat.
Proof. intros []; vm_compute; reflexivity. Qed.

Theorem block_mesh_closed : forall diag, closed_mesh (dc_mesh (ins_of block_S) diag (edges_of block_S)).
Proof. intros diag. apply dc_grid_closed_finite. Qed.
