(* C03 / C04 (adaptive octrees): the local face lemma for two leaves in contact (PhiL_zero), faces and the
   cells on their two sides (ffits / FFits / FFitsE), the potentials Phi / Psi0 / Psi1 and their recursion
   steps.  See the header of Render/OctTreeSem.v. *)
From Coq Require Import List ZArith Bool Lia Arith.
From LF Require Import Gen.MarchTables_gen Gen.ManifoldTables_gen Render.DCGrid Render.DCGridSem
                       Render.OctTree Render.OctTreeGeom Render.OctTreeNet.
Import ListNotations.
Local Open Scope Z_scope.

Lemma in_zrange256 m : 0 <= m < 256 -> In m (zrange 256).
Proof. intros H. unfold zrange. rewrite <- (Z2Nat.id m) by lia. apply in_map. apply in_seq. lia. Qed.

Lemma oaxis_in A : oaxis A -> In A [1; 2; 4].
Proof. intros [-> | [-> | ->]]; cbn; tauto. Qed.

Lemma compat_bits A m0 m1 : oaxis A ->
  Z.testbit m0 A = Z.testbit m1 0 -> Z.testbit m0 (A + Qax A) = Z.testbit m1 (Qax A) ->
  Z.testbit m0 (A + Rax A) = Z.testbit m1 (Rax A) -> Z.testbit m0 (A + Qax A + Rax A) = Z.testbit m1 (Qax A + Rax A) ->
  compat A m0 m1 = true.
Proof.
  intros HA H1 H2 H3 H4. unfold compat, DCGridSem.corners8.
  destruct HA as [-> | [-> | ->]]; cbn [Qax Rax Z.eqb Pos.eqb] in *; zsums_in H2; zsums_in H3; zsums_in H4;
    cbn [forallb];
    repeat match goal with
           | |- context [Z.testbit ?i (Z.log2 ?b)] =>
             let v := eval vm_compute in (Z.testbit i (Z.log2 b)) in
             change (Z.testbit i (Z.log2 b)) with v
           end; cbn iota; zsums; rewrite H1, H2, H3, H4, !eqb_reflx; reflexivity.
Qed.

Lemma FS_collapsed A f00 f10 f01 f11 i j : FS A (gfun 1 0) (gfun 1 0) f00 f10 f01 f11 i j = 0.
Proof.
  unfold FS, fterm, gfun, pidx. cbn [leaf_level Nat.ltb Nat.leb].
  destruct f00, f10, f01, f11; cbn [sg Bool.eqb]; ring.
Qed.

Lemma FS_ext A g0 g0' g1 g1' f00 f10 f01 f11 i j :
  (forall ax cn D, g0 ax cn D = g0' ax cn D) -> (forall ax cn D, g1 ax cn D = g1' ax cn D) ->
  FS A g0 g1 f00 f10 f01 f11 i j = FS A g0' g1' f00 f10 f01 f11 i j.
Proof. intros H0 H1. unfold FS, fterm. rewrite !H0, !H1. reflexivity. Qed.

Lemma pidx_gfun0 m mf ax cn D : pidx (OA 0 m mf) ax cn D = gfun 0 m ax cn D.
Proof. reflexivity. Qed.
Lemma pidx_S l m mf ax cn D : pidx (OA (S l) m mf) ax cn D = 0.
Proof. unfold pidx. cbn [leaf_level Nat.ltb Nat.leb]. reflexivity. Qed.
Lemma gfun_10 ax cn D : gfun 1 0 ax cn D = 0.
Proof. unfold gfun, pidx. cbn [leaf_level Nat.ltb Nat.leb]. reflexivity. Qed.
Lemma pidx_gfunS l m mf ax cn D : pidx (OA (S l) m mf) ax cn D = gfun 1 0 ax cn D.
Proof. rewrite pidx_S, gfun_10. reflexivity. Qed.

Lemma flagw_FS pu iu pv iv A l0 m0 mf0 p0 l1 m1 mf1 p1 f00 f10 f01 f11 :
  flagw (pu, iu, (pv, iv)) (Qax A) f00 f10 (OA l0 m0 mf0, p0) A (OA l1 m1 mf1, p1) 0 +
  flagw (pu, iu, (pv, iv)) (Qax A) f01 f11 (OA l1 m1 mf1, p1) (Rax A) (OA l0 m0 mf0, p0) (Rax A + A) +
  flagw (pu, iu, (pv, iv)) (Rax A) f00 f01 (OA l1 m1 mf1, p1) 0 (OA l0 m0 mf0, p0) A +
  flagw (pu, iu, (pv, iv)) (Rax A) f10 f11 (OA l0 m0 mf0, p0) (A + Qax A) (OA l1 m1 mf1, p1) (Qax A) =
  bz (opath_eqb pu p0 && opath_eqb pv p1) *
    FS A (pidx (OA l0 m0 mf0)) (pidx (OA l1 m1 mf1)) f00 f10 f01 f11 iu iv -
  bz (opath_eqb pv p0 && opath_eqb pu p1) *
    FS A (pidx (OA l0 m0 mf0)) (pidx (OA l1 m1 mf1)) f00 f10 f01 f11 iv iu.
Proof.
  unfold flagw, overt. cbn [fst snd o_is_ambig andb].
  rewrite (owt_swap _ (p0, pidx (OA l0 m0 mf0) (Qax A) (Rax A + A) f01) (p1, pidx (OA l1 m1 mf1) (Qax A) (Rax A) f01)).
  rewrite (owt_swap _ (p0, pidx (OA l0 m0 mf0) (Rax A) A f00) (p1, pidx (OA l1 m1 mf1) (Rax A) 0 f00)).
  rewrite !owt_split. unfold FS, fterm. cbv zeta.
  generalize (bz (opath_eqb pu p0 && opath_eqb pv p1)) (bz (opath_eqb pv p0 && opath_eqb pu p1)).
  generalize (pidx (OA l0 m0 mf0) (Qax A) A f00) (pidx (OA l1 m1 mf1) (Qax A) 0 f00)
             (pidx (OA l0 m0 mf0) (Qax A) (Rax A + A) f01) (pidx (OA l1 m1 mf1) (Qax A) (Rax A) f01)
             (pidx (OA l0 m0 mf0) (Rax A) A f00) (pidx (OA l1 m1 mf1) (Rax A) 0 f00)
             (pidx (OA l0 m0 mf0) (Rax A) (A + Qax A) f10) (pidx (OA l1 m1 mf1) (Rax A) (Qax A) f10).
  intros a1 b1 a2 b2 a3 b3 a4 b4 al be. ring.
Qed.

Lemma FS_leaf_zero A l0 m0 mf0 l1 m1 mf1 f00 f10 f01 f11 : oaxis A ->
  (l0 = O ->
     0 <= m0 < 256 /\ Z.testbit m0 A = f00 /\ Z.testbit m0 (A + Qax A) = f10 /\
     Z.testbit m0 (A + Rax A) = f01 /\ Z.testbit m0 (A + Qax A + Rax A) = f11) ->
  (l1 = O ->
     0 <= m1 < 256 /\ Z.testbit m1 0 = f00 /\ Z.testbit m1 (Qax A) = f10 /\
     Z.testbit m1 (Rax A) = f01 /\ Z.testbit m1 (Qax A + Rax A) = f11) ->
  forall i j, FS A (pidx (OA l0 m0 mf0)) (pidx (OA l1 m1 mf1)) f00 f10 f01 f11 i j = 0.
Proof.
  intros HA H0 H1.
  destruct l0 as [|l0], l1 as [|l1].
  - destruct (H0 eq_refl) as [R0 [E1 [E2 [E3 E4]]]].
    destruct (H1 eq_refl) as [R1 [G1 [G2 [G3 G4]]]].
    intros i j. rewrite (FS_ext A _ (gfun 0 m0) _ (gfun 0 m1)) by (intros; apply pidx_gfun0). revert i j.
    apply FSok_all. rewrite <- G1, <- G2, <- G3, <- G4.
    pose proof face_sweep00_ok as S. rewrite forallb_forall in S.
    specialize (S A (oaxis_in A HA)). unfold sweep00_at in S. rewrite forallb_forall in S. specialize (S m0 (in_zrange256 m0 R0)).
    rewrite forallb_forall in S. specialize (S m1 (in_zrange256 m1 R1)).
    rewrite (compat_bits A m0 m1 HA (eq_trans E1 (eq_sym G1)) (eq_trans E2 (eq_sym G2))
               (eq_trans E3 (eq_sym G3)) (eq_trans E4 (eq_sym G4))) in S. exact S.
  - destruct (H0 eq_refl) as [R0 [E1 [E2 [E3 E4]]]].
    intros i j. rewrite (FS_ext A _ (gfun 0 m0) _ (gfun 1 0))
      by (intros; first [apply pidx_gfun0|apply pidx_gfunS]). revert i j.
    apply FSok_all. rewrite <- E1, <- E2, <- E3, <- E4.
    pose proof face_sweep0c_ok as S. rewrite forallb_forall in S.
    specialize (S A (oaxis_in A HA)). unfold sweep0c_at in S. rewrite forallb_forall in S. exact (S m0 (in_zrange256 m0 R0)).
  - destruct (H1 eq_refl) as [R1 [G1 [G2 [G3 G4]]]].
    intros i j. rewrite (FS_ext A _ (gfun 1 0) _ (gfun 0 m1))
      by (intros; first [apply pidx_gfun0|apply pidx_gfunS]). revert i j.
    apply FSok_all. rewrite <- G1, <- G2, <- G3, <- G4.
    pose proof face_sweepc0_ok as S. rewrite forallb_forall in S.
    specialize (S A (oaxis_in A HA)). unfold sweepc0_at in S. rewrite forallb_forall in S. exact (S m1 (in_zrange256 m1 R1)).
  - intros i j. rewrite (FS_ext A _ (gfun 1 0) _ (gfun 1 0)) by (intros; apply pidx_gfunS).
    apply FS_collapsed.
Qed.

Lemma PhiL_zero e A (c0 c1 : ocell) f00 f10 f01 f11 : oaxis A ->
  (forall m mf, fst c0 = OA 0 m mf ->
     0 <= m < 256 /\ Z.testbit m A = f00 /\ Z.testbit m (A + Qax A) = f10 /\
     Z.testbit m (A + Rax A) = f01 /\ Z.testbit m (A + Qax A + Rax A) = f11) ->
  (forall m mf, fst c1 = OA 0 m mf ->
     0 <= m < 256 /\ Z.testbit m 0 = f00 /\ Z.testbit m (Qax A) = f10 /\
     Z.testbit m (Rax A) = f01 /\ Z.testbit m (Qax A + Rax A) = f11) ->
  flagw e (Qax A) f00 f10 c0 A c1 0 + flagw e (Qax A) f01 f11 c1 (Rax A) c0 (Rax A + A) +
  flagw e (Rax A) f00 f01 c1 0 c0 A + flagw e (Rax A) f10 f11 c0 (A + Qax A) c1 (Qax A) = 0.
Proof.
  intros HA H0 H1. destruct c0 as [t0 p0], c1 as [t1 p1]. cbn [fst] in H0, H1.
  destruct t0 as [| |l0 m0 mf0|]; try (unfold flagw; cbn [fst o_is_ambig andb]; rewrite ?andb_false_r; reflexivity).
  destruct t1 as [| |l1 m1 mf1|]; try (unfold flagw; cbn [fst o_is_ambig andb]; rewrite ?andb_false_r; reflexivity).
  destruct e as [[pu iu] [pv iv]].
  refine (eq_trans (flagw_FS pu iu pv iv A l0 m0 mf0 p0 l1 m1 mf1 p1 f00 f10 f01 f11) _).
  rewrite !(FS_leaf_zero A l0 m0 mf0 l1 m1 mf1 f00 f10 f01 f11 HA).
  - ring.
  - intros ->. apply (H0 m0 mf0 eq_refl).
  - intros ->. apply (H1 m1 mf1 eq_refl).
  - intros ->. apply (H0 m0 mf0 eq_refl).
  - intros ->. apply (H1 m1 mf1 eq_refl).
Qed.

(* ------------------------------------------------------------------------- *)
(** * Faces: a low cell and a high cell in contact across (part of) a face of normal axis A *)

Ltac zsums_all :=
  zsums;
  repeat match goal with
         | H : context [Zpos ?a + Zpos ?b] |- _ =>
           let v := eval vm_compute in (Zpos a + Zpos b) in change (Zpos a + Zpos b) with v in H
         | H : context [0 + Zpos ?b] |- _ => change (0 + Zpos b) with (Zpos b) in H
         | H : context [Zpos ?a + 0] |- _ => change (Zpos a + 0) with (Zpos a) in H
         | H : context [0 + 0] |- _ => change (0 + 0) with 0 in H
         end.

Section Face.
Variable ins : pt3 -> bool.

(* [ffits A hi t org kt s k]: the consistent cell (t, org, kt) contains the square face of normal axis A
   with lowest corner s and side 2^k, and lies on its high ([hi]) / low side; a branch has exactly the
   size of the face; a cell of exactly that size has the face as its low-A / high-A face *)
Definition ffits (A : Z) (hi : bool) (t : otree) (org : pt3) (kt : nat) (s : pt3) (k : nat) : Prop :=
  oconsistent ins t org kt /\ (k <= kt)%nat /\ (o_is_branch t = true -> kt = k) /\
  in_closed3 org kt s /\ in_closed3 org kt (ostep (Rax A) (ostep (Qax A) s (osize k)) (osize k)) /\
  (kt = k -> s = ocorner_pt org k (if hi then 0 else A)).
Definition FFits (A : Z) (hi : bool) (c : ocell) (s : pt3) (k : nat) : Prop :=
  exists org kt, ffits A hi (fst c) org kt s k.
Definition FFitsE (A : Z) (hi : bool) (c : ocell) (s : pt3) (k : nat) : Prop :=
  exists org, ffits A hi (fst c) org k s k.

Lemma FFitsE_FFits A hi c s k : FFitsE A hi c s k -> FFits A hi c s k.
Proof. intros [org F]. exists org, k. exact F. Qed.
Lemma FFits_branch_E A hi c s k : FFits A hi c s k -> o_is_branch (fst c) = true -> FFitsE A hi c s k.
Proof. intros [org [kt F]] B. pose proof F as [_ [_ [E _]]]. rewrite (E B) in F. exists org. exact F. Qed.
Lemma FFits_branch_level A hi c s k : FFits A hi c s k -> o_is_branch (fst c) = true -> k <> O.
Proof. intros F B. destruct (FFits_branch_E _ _ _ _ _ F B) as [org [C _]]. eapply obranch_level; eauto. Qed.
Lemma FFits_ambig_level A hi c s k : FFits A hi c s k -> o_is_ambig (fst c) = true -> (k <= leaf_level (fst c))%nat.
Proof.
  intros [org [kt [C [Hk _]]]] HA. destruct (fst c) as [| |l m mf|]; try discriminate.
  apply oambig_level in C. subst l. exact Hk.
Qed.

(* the four boundary edges of the face *)
Lemma ffits_edges A hi t org kt s k : oaxis A -> ffits A hi t org kt s k ->
  let q := Qax A in let r := Rax A in let a := if hi then 0 else A in
  fits ins q a t org kt s k /\ fits ins q (r + a) t org kt (ostep r s (osize k)) k /\
  fits ins r a t org kt s k /\ fits ins r (a + q) t org kt (ostep q s (osize k)) k.
Proof.
  intros HA [C [Hk [HB [I1 [I2 Hex]]]]]. pose proof (osize_pos k) as Hp.
  destruct org as [[ox oy] oz], s as [[sx sy] sz].
  destruct HA as [-> | [-> | ->]]; destruct hi; cbn [Qax Rax Z.eqb Pos.eqb] in *; cbv zeta; zsums;
    osteps_in I2; rewrite in_closed3_xyz in I1, I2;
    unfold fits; repeat split; try assumption; osteps; rewrite ?in_closed3_xyz; try lia;
    (intros E; specialize (Hex E); corner_pts_in Hex; injection Hex as -> -> ->; corner_pts; pt3eq).
Qed.

Lemma FFits_edges A hi c s k : oaxis A -> FFits A hi c s k ->
  let q := Qax A in let r := Rax A in let a := if hi then 0 else A in
  Fits ins q a c s k /\ Fits ins q (r + a) c (ostep r s (osize k)) k /\
  Fits ins r a c s k /\ Fits ins r (a + q) c (ostep q s (osize k)) k.
Proof.
  intros HA [org [kt F]]. destruct (ffits_edges A hi _ _ _ _ _ HA F) as [F1 [F2 [F3 F4]]].
  cbv zeta. split; [|split; [|split]]; exists org, kt; assumption.
Qed.
Lemma FFitsE_edges A hi c s k : oaxis A -> FFitsE A hi c s k ->
  let q := Qax A in let r := Rax A in let a := if hi then 0 else A in
  FitsE ins q a c s k /\ FitsE ins q (r + a) c (ostep r s (osize k)) k /\
  FitsE ins r a c s k /\ FitsE ins r (a + q) c (ostep q s (osize k)) k.
Proof.
  intros HA [org F]. destruct (ffits_edges A hi _ _ _ _ _ HA F) as [F1 [F2 [F3 F4]]].
  cbv zeta. split; [|split; [|split]]; exists org; assumption.
Qed.

(* the four quarters of the face *)
Lemma ffits_intro A (hi : bool) t org k s : oaxis A ->
  oconsistent ins t org k -> s = ocorner_pt org k (if hi then 0 else A) -> ffits A hi t org k s k.
Proof.
  intros HA C ->. unfold ffits. split; [exact C|]. split; [lia|]. split; [reflexivity|].
  pose proof (osize_pos k) as Hp. destruct org as [[ox oy] oz].
  destruct HA as [-> | [-> | ->]]; destruct hi; cbn [Qax Rax Z.eqb Pos.eqb]; corner_pts; osteps;
    (split; [apply in_closed3_xyz; lia|]; split; [apply in_closed3_xyz; lia|reflexivity]).
Qed.

Lemma ffits_branch_children A (hi : bool) t org k : oaxis A ->
  oconsistent ins t org (S k) -> o_is_branch t = true ->
  let q := Qax A in let r := Rax A in let a := if hi then 0 else A in let h := osize k in
  let s := ocorner_pt org (S k) a in
  ffits A hi (osub t (0 + a)) (ocorner_pt org k (0 + a)) k s k /\
  ffits A hi (osub t (q + a)) (ocorner_pt org k (q + a)) k (ostep q s h) k /\
  ffits A hi (osub t (r + a)) (ocorner_pt org k (r + a)) k (ostep r s h) k /\
  ffits A hi (osub t (q + r + a)) (ocorner_pt org k (q + r + a)) k (ostep r (ostep q s h) h) k.
Proof.
  intros HA C B.
  assert (K : forall i, In i corners8 -> oconsistent ins (osub t i) (ocorner_pt org k i) k)
    by (intros i Hi; apply osub_consistent; assumption).
  assert (HA' := HA).
  destruct HA' as [-> | [-> | ->]]; destruct hi; cbn [Qax Rax Z.eqb Pos.eqb]; cbv zeta; zsums;
    (split; [|split; [|split]]); (apply ffits_intro; [exact HA|apply K; in8|geo]).
Qed.

Lemma ffits_leaf_split A hi t org kt s k : oaxis A ->
  ffits A hi t org kt s (S k) -> o_is_branch t = false ->
  let q := Qax A in let r := Rax A in let h := osize k in
  ffits A hi t org kt s k /\ ffits A hi t org kt (ostep q s h) k /\
  ffits A hi t org kt (ostep r s h) k /\ ffits A hi t org kt (ostep r (ostep q s h) h) k.
Proof.
  intros HA [C [Hk [_ [I1 [I2 _]]]]] NB. pose proof (osize_pos k) as Hp. pose proof (osize_S k) as HS.
  destruct org as [[ox oy] oz], s as [[sx sy] sz]. unfold ffits.
  destruct HA as [-> | [-> | ->]]; cbn [Qax Rax Z.eqb Pos.eqb] in *; cbv zeta;
    osteps_in I2; rewrite in_closed3_xyz in I1, I2;
    (repeat split; try assumption; try lia; try congruence; osteps; rewrite ?in_closed3_xyz; lia).
Qed.

Lemma FFits_split A (hi : bool) c s k : oaxis A -> FFits A hi c s (S k) ->
  let q := Qax A in let r := Rax A in let a := if hi then 0 else A in let h := osize k in
  (FFits A hi (ochild c (0 + a)) s k /\ FFits A hi (ochild c (q + a)) (ostep q s h) k /\
   FFits A hi (ochild c (r + a)) (ostep r s h) k /\ FFits A hi (ochild c (q + r + a)) (ostep r (ostep q s h) h) k) /\
  (o_is_branch (fst c) = true ->
   FFitsE A hi (ochild c (0 + a)) s k /\ FFitsE A hi (ochild c (q + a)) (ostep q s h) k /\
   FFitsE A hi (ochild c (r + a)) (ostep r s h) k /\ FFitsE A hi (ochild c (q + r + a)) (ostep r (ostep q s h) h) k).
Proof.
  intros HA F q r a h. destruct c as [t p]. destruct (o_is_branch t) eqn:B.
  - assert (E : FFitsE A hi (ochild (t, p) (0 + a)) s k /\ FFitsE A hi (ochild (t, p) (q + a)) (ostep q s h) k /\
                FFitsE A hi (ochild (t, p) (r + a)) (ostep r s h) k /\
                FFitsE A hi (ochild (t, p) (q + r + a)) (ostep r (ostep q s h) h) k).
    { destruct (FFits_branch_E _ _ _ _ _ F B) as [org [C [_ [_ [_ [_ Es]]]]]]. specialize (Es eq_refl).
      cbn [fst] in C. rewrite !ochild_branch by exact B. unfold FFitsE. cbn [fst]. subst s.
      destruct (ffits_branch_children A hi t org k HA C B) as [F1 [F2 [F3 F4]]].
      split; [|split; [|split]]; eexists; eassumption. }
    split; [|intros _; exact E]. destruct E as [E1 [E2 [E3 E4]]]. split; [|split; [|split]]; apply FFitsE_FFits; assumption.
  - split; [|cbn [fst]; congruence]. rewrite !ochild_leaf by exact B.
    destruct F as [org [kt F]]. cbn [fst] in F.
    destruct (ffits_leaf_split A hi t org kt s k HA F B) as [F1 [F2 [F3 F4]]].
    split; [|split; [|split]]; exists org, kt; assumption.
Qed.

End Face.

Lemma ostep_comm A s a b : oaxis A ->
  ostep (Qax A) (ostep (Rax A) s a) b = ostep (Rax A) (ostep (Qax A) s b) a.
Proof. intros HA. destruct s as [[x y] z]. destruct HA as [-> | [-> | ->]]; reflexivity. Qed.

Lemma face_corner_pts A (hi : bool) org k : oaxis A ->
  let a := if hi then 0 else A in let s := ocorner_pt org k a in
  (In a corners8 /\ In (a + Qax A) corners8 /\ In (a + Rax A) corners8 /\ In (a + Qax A + Rax A) corners8) /\
  ocorner_pt org k (a + Qax A) = ostep (Qax A) s (osize k) /\
  ocorner_pt org k (a + Rax A) = ostep (Rax A) s (osize k) /\
  ocorner_pt org k (a + Qax A + Rax A) = ostep (Rax A) (ostep (Qax A) s (osize k)) (osize k).
Proof.
  intros HA. destruct org as [[ox oy] oz].
  destruct HA as [-> | [-> | ->]]; destruct hi; cbn [Qax Rax Z.eqb Pos.eqb]; cbv zeta; zsums;
    (split; [repeat split; in8|]); corner_pts; osteps; repeat split; pt3eq.
Qed.

Section Pot.
Variable ins : pt3 -> bool.
Variable e : odedge.
Variable diag : overtex -> overtex -> overtex -> overtex -> bool.

Notation flag := (flag ins e).

(* what the four boundary edges of the face owe to the pair (low cell c0, high cell c1) *)
Definition Phi (A : Z) (k : nat) (s : pt3) (c0 c1 : ocell) : Z :=
  let q := Qax A in let r := Rax A in
  flag q k s c0 A c1 0 + flag q k (ostep r s (osize k)) c1 r c0 (r + A) +
  flag r k s c1 0 c0 A + flag r k (ostep q s (osize k)) c0 (A + q) c1 q.

(* what the edges lying inside the face owe to pairs of cells on its low side / on its high side *)
Fixpoint Psi0 (A : Z) (k : nat) (s : pt3) (c0 : ocell) {struct k} : Z :=
  match k with
  | O => 0
  | S k' =>
      if o_is_branch (fst c0) then
        let q := Qax A in let r := Rax A in let h := osize k' in
        Psi0 A k' s (ochild c0 (0 + A)) + Psi0 A k' (ostep q s h) (ochild c0 (q + A)) +
        Psi0 A k' (ostep r s h) (ochild c0 (r + A)) + Psi0 A k' (ostep r (ostep q s h) h) (ochild c0 (q + r + A)) +
        flag q k' (ostep r s h) (ochild c0 A) (r + A) (ochild c0 (r + A)) A +
        flag q k' (ostep q (ostep r s h) h) (ochild c0 (q + A)) (r + A) (ochild c0 (q + r + A)) A +
        flag r k' (ostep q s h) (ochild c0 (A + q)) A (ochild c0 A) (A + q) +
        flag r k' (ostep r (ostep q s h) h) (ochild c0 (r + A + q)) A (ochild c0 (r + A)) (A + q)
      else 0
  end.
Fixpoint Psi1 (A : Z) (k : nat) (s : pt3) (c1 : ocell) {struct k} : Z :=
  match k with
  | O => 0
  | S k' =>
      if o_is_branch (fst c1) then
        let q := Qax A in let r := Rax A in let h := osize k' in
        Psi1 A k' s (ochild c1 0) + Psi1 A k' (ostep q s h) (ochild c1 q) +
        Psi1 A k' (ostep r s h) (ochild c1 r) + Psi1 A k' (ostep r (ostep q s h) h) (ochild c1 (q + r)) +
        flag q k' (ostep r s h) (ochild c1 r) 0 (ochild c1 0) r +
        flag q k' (ostep q (ostep r s h) h) (ochild c1 (q + r)) 0 (ochild c1 q) r +
        flag r k' (ostep q s h) (ochild c1 0) q (ochild c1 q) 0 +
        flag r k' (ostep r (ostep q s h) h) (ochild c1 r) q (ochild c1 (r + q)) 0
      else 0
  end.

Lemma Psi0_leaf A k s c : o_is_branch (fst c) = false -> Psi0 A k s c = 0.
Proof. intros B. destruct k; cbn [Psi0]; rewrite ?B; reflexivity. Qed.
Lemma Psi1_leaf A k s c : o_is_branch (fst c) = false -> Psi1 A k s c = 0.
Proof. intros B. destruct k; cbn [Psi1]; rewrite ?B; reflexivity. Qed.

(* the two sides of an edge in the interior of a face of a collapsed (or pruned) leaf are the same vertex *)
Lemma flag_self A k s c cn cn' :
  o_is_branch (fst c) = false -> (o_is_ambig (fst c) = true -> (0 < leaf_level (fst c))%nat) ->
  flag A k s c cn c cn' = 0.
Proof.
  intros B L. rewrite flag_leaf by assumption. unfold flagw.
  destruct (o_is_ambig (fst c)); [|reflexivity]. cbn [andb]. specialize (L eq_refl).
  unfold overt, pidx. apply Nat.ltb_lt in L. rewrite L. rewrite owt_self. lia.
Qed.

Lemma Psi0_step A k s c0 : oaxis A -> FFits ins A false c0 s (S k) ->
  let q := Qax A in let r := Rax A in let h := osize k in
  Psi0 A (S k) s c0 =
  Psi0 A k s (ochild c0 (0 + A)) + Psi0 A k (ostep q s h) (ochild c0 (q + A)) +
  Psi0 A k (ostep r s h) (ochild c0 (r + A)) + Psi0 A k (ostep r (ostep q s h) h) (ochild c0 (q + r + A)) +
  flag q k (ostep r s h) (ochild c0 A) (r + A) (ochild c0 (r + A)) A +
  flag q k (ostep q (ostep r s h) h) (ochild c0 (q + A)) (r + A) (ochild c0 (q + r + A)) A +
  flag r k (ostep q s h) (ochild c0 (A + q)) A (ochild c0 A) (A + q) +
  flag r k (ostep r (ostep q s h) h) (ochild c0 (r + A + q)) A (ochild c0 (r + A)) (A + q).
Proof.
  intros HA F q r h. cbn [Psi0]. fold q r h. destruct (o_is_branch (fst c0)) eqn:B; [reflexivity|].
  destruct c0 as [t p]. cbn [fst] in B. rewrite !ochild_leaf by exact B.
  rewrite !Psi0_leaf by exact B.
  rewrite !flag_self; try exact B; try lia;
    intros Am; pose proof (FFits_ambig_level _ _ _ _ _ _ F Am); lia.
Qed.

Lemma Psi1_step A k s c1 : oaxis A -> FFits ins A true c1 s (S k) ->
  let q := Qax A in let r := Rax A in let h := osize k in
  Psi1 A (S k) s c1 =
  Psi1 A k s (ochild c1 0) + Psi1 A k (ostep q s h) (ochild c1 q) +
  Psi1 A k (ostep r s h) (ochild c1 r) + Psi1 A k (ostep r (ostep q s h) h) (ochild c1 (q + r)) +
  flag q k (ostep r s h) (ochild c1 r) 0 (ochild c1 0) r +
  flag q k (ostep q (ostep r s h) h) (ochild c1 (q + r)) 0 (ochild c1 q) r +
  flag r k (ostep q s h) (ochild c1 0) q (ochild c1 q) 0 +
  flag r k (ostep r (ostep q s h) h) (ochild c1 r) q (ochild c1 (r + q)) 0.
Proof.
  intros HA F q r h. cbn [Psi1]. fold q r h. destruct (o_is_branch (fst c1)) eqn:B; [reflexivity|].
  destruct c1 as [t p]. cbn [fst] in B. rewrite !ochild_leaf by exact B.
  rewrite !Psi1_leaf by exact B.
  rewrite !flag_self; try exact B; try lia;
    intros Am; pose proof (FFits_ambig_level _ _ _ _ _ _ F Am); lia.
Qed.

Lemma oaxis_Q A : oaxis A -> oaxis (Qax A).
Proof. intros [-> | [-> | ->]]; cbv; tauto. Qed.
Lemma oaxis_R A : oaxis A -> oaxis (Rax A).
Proof. intros [-> | [-> | ->]]; cbv; tauto. Qed.

Lemma Phi_split A k s c0 c1 : oaxis A -> FFits ins A false c0 s (S k) -> FFits ins A true c1 s (S k) ->
  let q := Qax A in let r := Rax A in let h := osize k in let hh := osize (S k) in
  Phi A (S k) s c0 c1 =
  flag q k s (ochild c0 A) A (ochild c1 0) 0 + flag q k (ostep q s h) (ochild c0 (A + q)) A (ochild c1 (0 + q)) 0 +
  (flag q k (ostep r s hh) (ochild c1 r) r (ochild c0 (r + A)) (r + A) +
   flag q k (ostep q (ostep r s hh) h) (ochild c1 (r + q)) r (ochild c0 (r + A + q)) (r + A)) +
  (flag r k s (ochild c1 0) 0 (ochild c0 A) A + flag r k (ostep r s h) (ochild c1 (0 + r)) 0 (ochild c0 (A + r)) A) +
  (flag r k (ostep q s hh) (ochild c0 (A + q)) (A + q) (ochild c1 q) q +
   flag r k (ostep r (ostep q s hh) h) (ochild c0 (A + q + r)) (A + q) (ochild c1 (q + r)) q).
Proof.
  intros HA F0 F1 q r h hh.
  destruct (FFits_edges ins A false c0 s (S k) HA F0) as [E1 [E2 [E3 E4]]].
  destruct (FFits_edges ins A true c1 s (S k) HA F1) as [G1 [G2 [G3 G4]]].
  cbv zeta in *. change (Rax A + 0) with (Rax A + 0) in G2.
  replace (Rax A + 0) with (Rax A) in G2 by lia. change (0 + Qax A) with (Qax A) in G4.
  unfold Phi. fold q r hh.
  rewrite (flag_split ins e q k s c0 A c1 0 (oaxis_Q A HA) E1 G1).
  rewrite (flag_split ins e q k (ostep r s hh) c1 r c0 (r + A) (oaxis_Q A HA) G2 E2).
  rewrite (flag_split ins e r k s c1 0 c0 A (oaxis_R A HA) G3 E3).
  rewrite (flag_split ins e r k (ostep q s hh) c0 (A + q) c1 q (oaxis_R A HA) E4 G4).
  reflexivity.
Qed.

(* a level-0 leaf in contact with a face is a unit cell on that face: its mask bits are the face signs *)
Lemma leaf0_bits A (hi : bool) c s k m mf : oaxis A -> FFits ins A hi c s k -> fst c = OA 0 m mf ->
  let a := if hi then 0 else A in
  0 <= m < 256 /\ Z.testbit m a = ins s /\ Z.testbit m (a + Qax A) = ins (ostep (Qax A) s (osize k)) /\
  Z.testbit m (a + Rax A) = ins (ostep (Rax A) s (osize k)) /\
  Z.testbit m (a + Qax A + Rax A) = ins (ostep (Rax A) (ostep (Qax A) s (osize k)) (osize k)).
Proof.
  intros HA [org [kt [C [Hk [_ [_ [_ Hex]]]]]]] Hc a. rewrite Hc in C. cbn [oconsistent] in C.
  destruct C as [E0 [Em _]]. subst kt. assert (k = O) by lia. subst k. specialize (Hex eq_refl). subst s m.
  destruct (face_corner_pts A hi org 0 HA) as [[I1 [I2 [I3 I4]]] [P1 [P2 P3]]]. cbv zeta in *. fold a in I1, I2, I3, I4, P1, P2, P3.
  split; [apply omask_of_range|]. rewrite !omask_of_testbit by assumption.
  rewrite P1, P2, P3. auto.
Qed.

(** The local face lemma: across a minimal face (two leaves) the four boundary edges owe nothing. *)
Lemma Phi_leaf_zero A k s c0 c1 : oaxis A ->
  FFits ins A false c0 s k -> FFits ins A true c1 s k ->
  o_is_branch (fst c0) = false -> o_is_branch (fst c1) = false ->
  Phi A k s c0 c1 = 0.
Proof.
  intros HA F0 F1 B0 B1. unfold Phi. rewrite !flag_leaf by assumption.
  rewrite (ostep_comm A s (osize k) (osize k) HA).
  apply PhiL_zero; [exact HA| |].
  - intros m mf Hc. destruct (leaf0_bits A false c0 s k m mf HA F0 Hc) as [R [T1 [T2 [T3 T4]]]]. auto.
  - intros m mf Hc. destruct (leaf0_bits A true c1 s k m mf HA F1 Hc) as [R [T1 [T2 [T3 T4]]]]. auto.
Qed.

End Pot.
