(* C03 / C04 (adaptive octrees, dual contouring): the octree itself, the topological part of
   DCTree<3>::collectChildren (dc_tree.inl: merging of uniform children; cornersAreManifold -- the
   256-entry table of dc_tree3.cpp, read from the source into Gen/ManifoldTables_gen.v --, every child
   manifold, leafsAreManifold (dc_tree3.cpp: 12 edge midpoints, 6 face centres, the cell centre); the
   collapse into a leaf of level region.level), the recursive dual walk Dual<3>::work / call_face3 /
   face3 / call_edge3 / edge3 (dual.hpp) and DCMesher::load<A> / load<A, D> (dc_mesher.cpp) with its
   minimum-level rule and its "push_triangle" that drops triangles with a repeated vertex, on trees
   whose leaves have DIFFERENT sizes.

   A tree cell is EMPTY, FILLED, an AMBIGUOUS leaf (leaf->level, leaf->corner_mask, leaf->manifold) or
   a branch with eight children indexed by corner number (bit 0 = X, bit 1 = Y, bit 2 = Z).  A cell is
   named by its path from the root (child indices, innermost first); a mesh vertex is (path of the
   leaf, patch index).  [child] of a leaf is the leaf itself, as XTree::child.

   The numerical part of collectChildren (QEF error, vertex in the region, field value) is an arbitrary
   oracle [ok : path -> bool]; which diagonal DCMesher::load uses to split a quad depends on vertex
   positions (normals) and is an arbitrary oracle [diag] of the four vertices. *)
From Coq Require Import List ZArith Bool Lia.
From LF Require Import Gen.MarchTables_gen Gen.ManifoldTables_gen Render.DCGrid.
Import ListNotations.
Local Open Scope Z_scope.

Inductive otree :=
| OE                                              (* type == Interval::EMPTY,  leaf == nullptr *)
| OF                                              (* type == Interval::FILLED, leaf == nullptr *)
| OA (lvl : nat) (mask : Z) (manifold : bool)     (* AMBIGUOUS, not a branch *)
| OB (c0 c1 c2 c3 c4 c5 c6 c7 : otree).           (* isBranch() *)

Definition opath := list Z.
Definition ocell := (otree * opath)%type.

Definition o_is_branch (t : otree) : bool := match t with OB _ _ _ _ _ _ _ _ => true | _ => false end.

(* XTree::child: "returning *this if this isn't a branch" *)
Definition osub (t : otree) (i : Z) : otree :=
  match t with
  | OB c0 c1 c2 c3 c4 c5 c6 c7 =>
      if i =? 0 then c0 else if i =? 1 then c1 else if i =? 2 then c2 else if i =? 3 then c3
      else if i =? 4 then c4 else if i =? 5 then c5 else if i =? 6 then c6 else c7
  | _ => t
  end.
Definition ochild (c : ocell) (i : Z) : ocell :=
  if o_is_branch (fst c) then (osub (fst c) i, i :: snd c) else c.

(* DCTree<3>::cornerState: true = FILLED *)
Definition ocorner_state (t : otree) (i : Z) : bool :=
  match t with
  | OA _ m _ => Z.testbit m i
  | OF => true
  | _ => false
  end.
Definition ocell_manifold (t : otree) : bool := match t with OA _ _ mf => mf | _ => true end.

(* ------------------------------------------------------------------ *)
(* collectChildren, topological part                                    *)
(* ------------------------------------------------------------------ *)
(* DCTree<3>::cornersAreManifold: the table of dc_tree3.cpp *)
Definition ocorners_manifold (m : Z) : bool := nth (Z.to_nat m) gen_corner3 false.

Definition obuild_mask (s : list bool) : Z :=
  fold_left (fun (m : Z) (ib : Z * bool) => if snd ib then m + 2 ^ fst ib else m) (combine [0; 1; 2; 3; 4; 5; 6; 7] s) 0.

(* DCTree<3>::leafsAreManifold(cs, corners); X = 1, Y = 2, Z = 4; [cs i] child i, [k i] corners[i] *)
Definition oleafs_manifold (cs : Z -> otree) (k : Z -> bool) : bool :=
  let st := fun c i => ocorner_state (cs c) i in
  let one_of2 := fun (v : bool) (a b : Z) => Bool.eqb v (k a) || Bool.eqb v (k b) in
  let one_of4 := fun (v : bool) (a b c d : Z) =>
                   Bool.eqb v (k a) || Bool.eqb v (k b) || Bool.eqb v (k c) || Bool.eqb v (k d) in
  let edges_safe :=
    one_of2 (st 0 4) 0 4 && one_of2 (st 0 1) 0 1 && one_of2 (st 0 2) 0 2 &&
    one_of2 (st 1 3) 1 3 && one_of2 (st 1 5) 1 5 &&
    one_of2 (st 2 3) 2 3 && one_of2 (st 2 6) 2 6 &&
    one_of2 (st 3 7) 3 7 &&
    one_of2 (st 4 5) 4 5 && one_of2 (st 4 6) 4 6 &&
    one_of2 (st 5 7) 5 7 &&
    one_of2 (st 6 7) 6 7 in
  let faces_safe :=
    one_of4 (st 0 5) 0 1 4 5 && one_of4 (st 0 6) 0 2 4 6 && one_of4 (st 0 3) 0 2 1 3 &&
    one_of4 (st 7 1) 1 5 3 7 && one_of4 (st 7 2) 2 6 3 7 && one_of4 (st 7 4) 4 6 5 7 in
  let v := st 0 7 in
  let center_safe :=
    Bool.eqb v (k 0) || Bool.eqb v (k 1) || Bool.eqb v (k 2) || Bool.eqb v (k 3) ||
    Bool.eqb v (k 4) || Bool.eqb v (k 5) || Bool.eqb v (k 6) || Bool.eqb v (k 7) in
  edges_safe && faces_safe && center_safe.

Definition o_is_E (t : otree) : bool := match t with OE => true | _ => false end.
Definition o_is_F (t : otree) : bool := match t with OF => true | _ => false end.

Definition corners8 : list Z := [0; 1; 2; 3; 4; 5; 6; 7].

(* one call of collectChildren on a cell of level [k] whose eight children are finished *)
Definition ocollect1 (ok : bool) (k : nat) (c0 c1 c2 c3 c4 c5 c6 c7 : otree) : otree :=
  let l := [c0; c1; c2; c3; c4; c5; c6; c7] in
  let cs := fun i : Z => nth (Z.to_nat i) l OE in
  if existsb o_is_branch l then OB c0 c1 c2 c3 c4 c5 c6 c7
  else if forallb o_is_E l then OE
  else if forallb o_is_F l then OF
  else
    let kf := fun i : Z => ocorner_state (cs i) i in
    let m := obuild_mask (map kf corners8) in
    if ocorners_manifold m && forallb ocell_manifold l && oleafs_manifold cs kf && ok
    then OA k m true
    else OB c0 c1 c2 c3 c4 c5 c6 c7.

Fixpoint ocollect (ok : opath -> bool) (k : nat) (p : opath) (t : otree) : otree :=
  match t with
  | OB c0 c1 c2 c3 c4 c5 c6 c7 =>
      let r := fun (i : Z) (c : otree) => ocollect ok (pred k) (i :: p) c in
      ocollect1 (ok p) k (r 0 c0) (r 1 c1) (r 2 c2) (r 3 c3) (r 4 c4) (r 5 c5) (r 6 c6) (r 7 c7)
  | _ => t
  end.

(* ------------------------------------------------------------------ *)
(* the dual walk                                                        *)
(* ------------------------------------------------------------------ *)
Definition overtex := (opath * Z)%type.
Definition otri := (overtex * overtex * overtex)%type.

Fixpoint opath_eqb (p q : opath) : bool :=
  match p, q with
  | [], [] => true
  | x :: p', y :: q' => (x =? y) && opath_eqb p' q'
  | _, _ => false
  end.
Definition overtex_eqb (u v : overtex) : bool := opath_eqb (fst u) (fst v) && (snd u =? snd v).

(* "push_triangle": only triangles that aren't simply lines *)
Definition push_tri (a b c : overtex) : list otri :=
  if overtex_eqb a b || overtex_eqb b c || overtex_eqb a c then [] else [(a, b, c)].

Definition leaf_level (t : otree) : nat := match t with OA l _ _ => l | _ => O end.
Definition leaf_mask (t : otree) : Z := match t with OA _ m _ => m | _ => 0 end.
Definition o_is_ambig (t : otree) : bool := match t with OA _ _ _ => true | _ => false end.

(* position of the first minimum (std::min_element) *)
Definition min_index4 (a b c d : nat) : nat :=
  let i := if Nat.ltb b a then 1%nat else 0%nat in
  let m := Nat.min a b in
  let i := if Nat.ltb c m then 2%nat else i in
  let m := Nat.min m c in
  if Nat.ltb d m then 3%nat else i.

(* DCMesher::load<A>(ts) followed by load<A, D>(ts); A is 1 (X), 2 (Y) or 4 (Z) *)
Definition load3 (diag : overtex -> overtex -> overtex -> overtex -> bool)
                 (A : Z) (t0 t1 t2 t3 : ocell) : list otri :=
  let ts := [t0; t1; t2; t3] in
  if negb (forallb (fun c => o_is_ambig (fst c)) ts) then []
  else
    let q := Qax A in let r := Rax A in
    let idx := min_index4 (leaf_level (fst t0)) (leaf_level (fst t1)) (leaf_level (fst t2)) (leaf_level (fst t3)) in
    let t := fst (nth idx ts t0) in
    let c := nth idx [q + r; r; q; 0] 0 in                  (* corners = {Q|R, R, Q, 0} *)
    let sa := ocorner_state t c in
    let sb := ocorner_state t (c + A) in
    if Bool.eqb sa sb then []
    else
      let D := sa in                                         (* a == FILLED -> load<A, 1> *)
      let ev := [(q + r, q + r + A); (r, r + A); (q, q + A); (0, A)] in
      let es := map (fun fs => if D then e3 (fst fs) (snd fs) else e3 (snd fs) (fst fs)) ev in
      let v := fun (cl : ocell) (n : nat) =>
                 (snd cl, if Nat.ltb 0 (leaf_level (fst cl)) then 0 else p3 (leaf_mask (fst cl)) (nth n es (-1))) in
      let v0 := v t0 0%nat in let v1 := v t1 1%nat in let v2 := v t2 2%nat in let v3 := v t3 3%nat in
      (* "if (!D) std::swap(vs[1], vs[2])" *)
      let '(w1, w2) := if D then (v1, v2) else (v2, v1) in
      if diag v0 w1 w2 v3 then push_tri v0 w1 w2 ++ push_tri w2 w1 v3
      else push_tri v0 w1 v3 ++ push_tri v0 v3 w2.

Section Walk.
  Variable diag : overtex -> overtex -> overtex -> overtex -> bool.

  (* edge3<T, V, A> *)
  Fixpoint edge3 (fuel : nat) (A : Z) (t0 t1 t2 t3 : ocell) : list otri :=
    match fuel with
    | O => []
    | S f =>
        let q := Qax A in let r := Rax A in
        if o_is_branch (fst t0) || o_is_branch (fst t1) || o_is_branch (fst t2) || o_is_branch (fst t3) then
          edge3 f A (ochild t0 (q + r)) (ochild t1 r) (ochild t2 q) (ochild t3 0) ++
          edge3 f A (ochild t0 (q + r + A)) (ochild t1 (r + A)) (ochild t2 (q + A)) (ochild t3 A)
        else load3 diag A t0 t1 t2 t3
    end.

  (* face3<T, V, A> *)
  Fixpoint face3 (fuel : nat) (A : Z) (t0 t1 : ocell) : list otri :=
    match fuel with
    | O => []
    | S f =>
        let q := Qax A in let r := Rax A in
        if o_is_branch (fst t0) || o_is_branch (fst t1) then
          flat_map (fun k => face3 f A (ochild t0 (k + A)) (ochild t1 k)) [0; q; r; q + r] ++
          edge3 fuel q (ochild t0 A) (ochild t0 (r + A)) (ochild t1 0) (ochild t1 r) ++
          edge3 fuel q (ochild t0 (q + A)) (ochild t0 (q + r + A)) (ochild t1 q) (ochild t1 (q + r)) ++
          edge3 fuel r (ochild t0 A) (ochild t1 0) (ochild t0 (A + q)) (ochild t1 q) ++
          edge3 fuel r (ochild t0 (r + A)) (ochild t1 r) (ochild t0 (r + A + q)) (ochild t1 (r + q))
        else []
    end.

  Definition call_edge3 (fuel : nat) (A : Z) (t : ocell) : list otri :=
    let q := Qax A in let r := Rax A in
    flat_map (fun a => edge3 fuel A (ochild t a) (ochild t (q + a)) (ochild t (r + a)) (ochild t (q + r + a))) [0; A].

  Definition call_face3 (fuel : nat) (A : Z) (t : ocell) : list otri :=
    let q := Qax A in let r := Rax A in
    face3 fuel A (ochild t 0) (ochild t A) ++ face3 fuel A (ochild t q) (ochild t (q + A)) ++
    face3 fuel A (ochild t r) (ochild t (r + A)) ++ face3 fuel A (ochild t (q + r)) (ochild t (q + r + A)).

  (* Dual<3>::work *)
  Definition work3 (fuel : nat) (t : ocell) : list otri :=
    call_face3 fuel 1 t ++ call_face3 fuel 2 t ++ call_face3 fuel 4 t ++
    call_edge3 fuel 1 t ++ call_edge3 fuel 2 t ++ call_edge3 fuel 4 t.

  (* Dual<3>::run calls work once on every branch *)
  Fixpoint walk3 (fuel : nat) (t : otree) (p : opath) : list otri :=
    match t with
    | OB c0 c1 c2 c3 c4 c5 c6 c7 =>
        walk3 fuel c0 (0 :: p) ++ walk3 fuel c1 (1 :: p) ++ walk3 fuel c2 (2 :: p) ++ walk3 fuel c3 (3 :: p) ++
        walk3 fuel c4 (4 :: p) ++ walk3 fuel c5 (5 :: p) ++ walk3 fuel c6 (6 :: p) ++ walk3 fuel c7 (7 :: p) ++
        work3 fuel (t, p)
    | _ => []
    end.
End Walk.

Fixpoint oheight (t : otree) : nat :=
  match t with
  | OB c0 c1 c2 c3 c4 c5 c6 c7 =>
      S (Nat.max (Nat.max (Nat.max (oheight c0) (oheight c1)) (Nat.max (oheight c2) (oheight c3)))
                 (Nat.max (Nat.max (oheight c4) (oheight c5)) (Nat.max (oheight c6) (oheight c7))))
  | _ => O
  end.

Definition mesh_walk (diag : overtex -> overtex -> overtex -> overtex -> bool) (t : otree) : list otri :=
  walk3 diag (S (oheight t)) t [].

(* ------------------------------------------------------------------ *)
(* geometry: the lattice and what the signs stored in the tree mean     *)
(* ------------------------------------------------------------------ *)
Definition osize (k : nat) : Z := 2 ^ Z.of_nat k.
Definition ocorner_pt (o : pt3) (k : nat) (i : Z) : pt3 :=
  let '(x, y, z) := o in
  (x + osize k * Z.land i 1, y + osize k * Z.land (Z.shiftr i 1) 1, z + osize k * Z.land (Z.shiftr i 2) 1).
Definition ochild_org (o : pt3) (k : nat) (i : Z) : pt3 := ocorner_pt o (pred k) i.
Definition in_closed3 (o : pt3) (k : nat) (q : pt3) : Prop :=
  let '(x, y, z) := o in let '(a, b, c) := q in
  x <= a <= x + osize k /\ y <= b <= y + osize k /\ z <= c <= z + osize k.

Definition omask_of (ins : pt3 -> bool) (o : pt3) (k : nat) : Z :=
  obuild_mask (map (fun i => ins (ocorner_pt o k i)) corners8).

(* [oconsistent ins t o k]: the tree describes the lattice signs [ins] on the cell (o, k):
   pruned (or merged) cells are uniform on every lattice point they contain; an ambiguous leaf sits at
   the level its size says and stores the signs of its own corners (a mixed mask), with its manifold
   flag = cornersAreManifold of the mask at level 0; a branch has level k > 0 and consistent children *)
Fixpoint oconsistent (ins : pt3 -> bool) (t : otree) (o : pt3) (k : nat) : Prop :=
  match t with
  | OE => forall q, in_closed3 o k q -> ins q = false
  | OF => forall q, in_closed3 o k q -> ins q = true
  | OA lvl m mf =>
      lvl = k /\ m = omask_of ins o k /\ m <> 0 /\ m <> 255 /\ (k = O -> mf = ocorners_manifold m)
  | OB c0 c1 c2 c3 c4 c5 c6 c7 =>
      k <> O /\
      oconsistent ins c0 (ochild_org o k 0) (pred k) /\ oconsistent ins c1 (ochild_org o k 1) (pred k) /\
      oconsistent ins c2 (ochild_org o k 2) (pred k) /\ oconsistent ins c3 (ochild_org o k 3) (pred k) /\
      oconsistent ins c4 (ochild_org o k 4) (pred k) /\ oconsistent ins c5 (ochild_org o k 5) (pred k) /\
      oconsistent ins c6 (ochild_org o k 6) (pred k) /\ oconsistent ins c7 (ochild_org o k 7) (pred k)
  end.

(* the solid lies strictly inside the region: no filled lattice point on the boundary of the root *)
Definition oboundary_clear (ins : pt3 -> bool) (k : nat) : Prop :=
  forall x y z, in_closed3 (0, 0, 0) k (x, y, z) ->
    (x = 0 \/ x = osize k \/ y = 0 \/ y = osize k \/ z = 0 \/ z = osize k) -> ins (x, y, z) = false.

(* directed edges of a triangle list; watertight + consistently oriented = every directed edge is used
   as often as its reverse *)
Definition odedge := (overtex * overtex)%type.
Definition odedge_eqb (e f : odedge) : bool := overtex_eqb (fst e) (fst f) && overtex_eqb (snd e) (snd f).
Definition otri_edges (t : otri) : list odedge := let '(a, b, c) := t in [(a, b); (b, c); (c, a)].
Definition odedges (m : list otri) : list odedge := flat_map otri_edges m.
Definition ocount (e : odedge) (l : list odedge) : nat := length (filter (odedge_eqb e) l).
Definition oclosed_mesh (m : list otri) : Prop :=
  forall e, ocount e (odedges m) = ocount (snd e, fst e) (odedges m).

(* ------------------------------------------------------------------ *)
(* executable checkers for the hypotheses                               *)
(* ------------------------------------------------------------------ *)
Definition ozrange (n : Z) : list Z := map Z.of_nat (seq 0 (Z.to_nat n)).
Definition oclosed_pts (o : pt3) (k : nat) : list pt3 :=
  let '(x, y, z) := o in
  let r := ozrange (osize k + 1) in
  flat_map (fun i => flat_map (fun j => map (fun l => (x + i, y + j, z + l)) r) r) r.

Fixpoint oconsistentb (ins : pt3 -> bool) (t : otree) (o : pt3) (k : nat) : bool :=
  match t with
  | OE => forallb (fun q => negb (ins q)) (oclosed_pts o k)
  | OF => forallb ins (oclosed_pts o k)
  | OA lvl m mf =>
      Nat.eqb lvl k && (m =? omask_of ins o k) && negb (m =? 0) && negb (m =? 255) &&
      (if Nat.eqb k 0 then Bool.eqb mf (ocorners_manifold m) else true)
  | OB c0 c1 c2 c3 c4 c5 c6 c7 =>
      negb (Nat.eqb k 0) &&
      oconsistentb ins c0 (ochild_org o k 0) (pred k) && oconsistentb ins c1 (ochild_org o k 1) (pred k) &&
      oconsistentb ins c2 (ochild_org o k 2) (pred k) && oconsistentb ins c3 (ochild_org o k 3) (pred k) &&
      oconsistentb ins c4 (ochild_org o k 4) (pred k) && oconsistentb ins c5 (ochild_org o k 5) (pred k) &&
      oconsistentb ins c6 (ochild_org o k 6) (pred k) && oconsistentb ins c7 (ochild_org o k 7) (pred k)
  end.

Definition oboundary_clearb (ins : pt3 -> bool) (k : nat) : bool :=
  forallb (fun q => let '(x, y, z) := q in
                    if (x =? 0) || (x =? osize k) || (y =? 0) || (y =? osize k) || (z =? 0) || (z =? osize k)
                    then negb (ins q) else true)
          (oclosed_pts (0, 0, 0) k).

Fixpoint otree_eqb (s t : otree) : bool :=
  match s, t with
  | OE, OE => true
  | OF, OF => true
  | OA l m f, OA l' m' f' => Nat.eqb l l' && (m =? m') && Bool.eqb f f'
  | OB a0 a1 a2 a3 a4 a5 a6 a7, OB b0 b1 b2 b3 b4 b5 b6 b7 =>
      otree_eqb a0 b0 && otree_eqb a1 b1 && otree_eqb a2 b2 && otree_eqb a3 b3 &&
      otree_eqb a4 b4 && otree_eqb a5 b5 && otree_eqb a6 b6 && otree_eqb a7 b7
  | _, _ => false
  end.

Definition oclosed_meshb (m : list otri) : bool :=
  let d := odedges m in forallb (fun e => Nat.eqb (ocount e d) (ocount (snd e, fst e) d)) d.
