(* C03 / C04 (adaptive octrees, dual contouring): semantics of collectChildren + the recursive dual walk
   Dual<3>::work / face3 / edge3 + DCMesher::load on octrees whose leaves have DIFFERENT sizes
   (model: Render/OctTree.v; tables: Gen/MarchTables_gen.v through Render/DCGrid.v, Gen/ManifoldTables_gen.v).

   Files (dependency order):
     Render/OctTreeGeom.v     sizes, corner points, mask bits, consistent cells, decidable equalities
     Render/OctTreeCollect.v  1. ocollect_consistent, ocollect_height; 4. oconsistentb_sound,
                              oboundary_clearb_sound, oclosed_meshb_sound; 5a. obuild, obuild_consistent;
                              6. ocorners_manifold_spec / conn8_spec / ocorners_manifold_connected
     Render/OctTreeNet.v      signed edge counts, the per-quad lemma, lattice edges, edge3_net, the table sweeps
     Render/OctTreeFace.v     the local face lemma (PhiL_zero, Phi_leaf_zero), faces, the potentials Phi / Psi0 / Psi1
     Render/OctTreeSem.v      (this file) face3_net, walk3_net, the MAIN THEOREM, 3., 5.

   No axioms (Print Assumptions at the end: closed under the global context).  The table-dependent steps
   are three vm_compute sweeps over gen_e3 / gen_p3 (OctTreeNet.face_sweep00_ok: 3 x 4096 compatible pairs
   of masks of two level-0 leaves; face_sweep0c_ok / face_sweepc0_ok: 3 x 256 masks of a level-0 leaf
   next to a collapsed one) and DCGridSem.served_check_ok (patch validity).  Every theorem is unbounded in
   the size and depth of the tree and holds for every numerical oracle [ok] and every diagonal oracle [diag].

   MAIN THEOREMS
   1. ocollect_consistent : oconsistent ins t o k -> oconsistent ins (ocollect ok k p t) o k
      ocollect_height     : oheight (ocollect ok k p t) <= oheight t                      (OctTreeCollect.v)
   2. walk3_closed : oconsistent ins t (0,0,0) k -> oboundary_clear ins k -> oclosed_mesh (mesh_walk diag t)
        -- on ANY consistent adaptive octree and for EVERY choice of quad diagonals the triangle soup uses
           every directed edge as often as its reverse.  No monotonicity hypothesis on collapsed leaves.
      walk3_calls  : every triangle comes from a load3 call on four non-branching cells around one
           lattice edge, one of them exactly of the size of the edge ([load_call]).
   3. mesh_no_degenerate (no hypothesis), mesh_vertices_valid (every corner is a patch index >= 0).
   4. oconsistentb_sound, oboundary_clearb_sound, oclosed_meshb_sound                      (OctTreeCollect.v)
   5. obuild_consistent, adaptive_dc_pipeline_closed, adaptive_dc_pipeline_valid;
      bump_* : 8 x 8 x 8 lattice, a box with a one-point bump: leaves of levels 2, 1, 0 side by side,
      32 triangles, 14 of them joining leaves of different sizes; oboundary_clear_needed.
   6. ocorners_manifold_spec : the 256-entry table of dc_tree3.cpp = "filled corners connected through
      cube edges and empty corners connected" (conn8 by flood fill; conn8_spec ties it to paths)  (OctTreeCollect.v)

   PROOF ARCHITECTURE (a potential argument mirroring the recursion cell -> face -> edge of the walk)
     N e m          signed count (uses minus uses of the reverse, in Z) of the directed edge e in the mesh m;
                    oclosed_mesh m <-> forall e, N e m = 0 (oclosed_mesh_net).
     (a) quad_net_o / load3_net: whatever the diagonal and whichever degenerate triangles push_tri drops,
         one load3 call contributes the signed count of the 4-cycle v0 -> w1 -> v3 -> w2 -> v0, i.e. the sum
         of four "sides" [flagw], one per pair of cyclically adjacent cells (a side between a cell and
         itself counts 0).
     flag A k s ca cna cb cnb: what the pair (ca, cb) owes for the lattice edge (axis A, start s, length 2^k);
         its recursion is that of edge3 on two of its four arguments.  fits / Fits: the consistent cell contains
         the edge, a branch exactly.  flag_split: one recursion step; for two leaves larger than the edge it is
         the telescoping identity sg x z = sg x y + sg y z of SIGNED sign changes (collapsed leaves have the
         single vertex 0) -- this is why no monotonicity is needed.
     (b1) edge3_net: N e (edge3 ...) = the four flags around the edge (base case load3_fits: the first cell of
         minimal level has exactly the size of the edge and reads its end signs; a pruned cell among the four
         is uniform on the edge).
     Phi A k s c0 c1: the four boundary edges of the square face between a low cell c0 and a high cell c1;
         Psi0 / Psi1: the edges in the interior of that face, seen from the low / high side (zero for a leaf:
         flag_self).  Phi_leaf_zero (THE LOCAL FACE LEMMA): for two leaves Phi = 0: two collapsed leaves by
         telescoping around the boundary loop, a level-0 leaf against a level-0 or a collapsed leaf by the
         sweeps over the real tables (different edges may use different patches: FS / FSok_all).
     (b2) face3_net: N e (face3 c0 c1) = Psi0 c0 + Psi1 c1 - Phi c0 c1.
     (b3) walk3_net: N e (walk3 t) = - Bd t, the sum of Psi0 / Psi1 over the six faces of the cell: the 48
         flags of the 12 inner faces are the 24 flags of the 6 inner edges plus the 24 flags the boundary faces owe.
     (c) Bd_root: on the region boundary every lattice edge has equal end signs (oboundary_clear), so
         flag_const / Psi0_const / Psi1_const give Bd root = 0. *)
From Coq Require Import List ZArith Bool Lia Arith.
From LF Require Import Gen.MarchTables_gen Gen.ManifoldTables_gen Render.DCGrid Render.DCGridSem
                       Render.OctTree Render.OctTreeGeom Render.OctTreeCollect Render.OctTreeNet Render.OctTreeFace.
Import ListNotations.
Local Open Scope Z_scope.

Ltac osteps_all :=
  osteps;
  repeat match goal with
         | H : context [ostep _ (_, _, _) _] |- _ => progress (osteps_in H)
         end.

Lemma two_times h : 2 * h = h + h.
Proof. lia. Qed.

Section Walk.
Variable ins : pt3 -> bool.
Variable e : odedge.
Variable diag : overtex -> overtex -> overtex -> overtex -> bool.

Lemma ochild_height_lt (c : ocell) i f : (oheight (fst c) < S f)%nat -> (1 <= f)%nat -> (oheight (fst (ochild c i)) < f)%nat.
Proof.
  intros Hc Hf. destruct (ochild_height c i) as [Le Lt]. destruct (o_is_branch (fst c)) eqn:B.
  - specialize (Lt eq_refl). lia.
  - destruct c as [t p]. cbn [fst] in *. rewrite ochild_leaf by exact B. cbn [fst].
    rewrite (oheight_leaf t B). lia.
Qed.
Lemma ochild_height_le (c : ocell) i f : (oheight (fst c) < f)%nat -> (oheight (fst (ochild c i)) < f)%nat.
Proof. intros Hc. destruct (ochild_height c i) as [Le _]. lia. Qed.

(* edge3_net with the exactness hypothesis in a form that is easy to discharge *)
Lemma edge3_net' A : oaxis A -> forall f k s (t0 t1 t2 t3 : ocell) (b0 b1 b2 b3 : bool),
  let q := Qax A in let r := Rax A in
  Fits ins A (q + r) t0 s k -> Fits ins A r t1 s k -> Fits ins A q t2 s k -> Fits ins A 0 t3 s k ->
  (b0 = true -> FitsE ins A (q + r) t0 s k) -> (b1 = true -> FitsE ins A r t1 s k) ->
  (b2 = true -> FitsE ins A q t2 s k) -> (b3 = true -> FitsE ins A 0 t3 s k) ->
  b0 || b1 || b2 || b3 = true ->
  (oheight (fst t0) < f)%nat -> (oheight (fst t1) < f)%nat ->
  (oheight (fst t2) < f)%nat -> (oheight (fst t3) < f)%nat ->
  N e (edge3 diag f A t0 t1 t2 t3) =
  flag ins e A k s t0 (q + r) t1 r + flag ins e A k s t1 r t3 0 +
  flag ins e A k s t3 0 t2 q + flag ins e A k s t2 q t0 (q + r).
Proof.
  intros HA f k s t0 t1 t2 t3 b0 b1 b2 b3 q r F0 F1 F2 F3 E0 E1 E2 E3 Hb H0 H1 H2 H3.
  apply edge3_net; auto.
  destruct b0; [left; auto|]. destruct b1; [right; left; auto|]. destruct b2; [right; right; left; auto|].
  destruct b3; [right; right; right; auto|discriminate].
Qed.

Lemma FFitsB_edges A (hi : bool) c s k (P : Prop) : oaxis A ->
  FFits ins A hi c s k -> (P -> FFitsE ins A hi c s k) ->
  let q := Qax A in let r := Rax A in let a := if hi then 0 else A in
  (Fits ins q a c s k /\ Fits ins q (r + a) c (ostep r s (osize k)) k /\
   Fits ins r a c s k /\ Fits ins r (a + q) c (ostep q s (osize k)) k) /\
  ((P -> FitsE ins q a c s k) /\ (P -> FitsE ins q (r + a) c (ostep r s (osize k)) k) /\
   (P -> FitsE ins r a c s k) /\ (P -> FitsE ins r (a + q) c (ostep q s (osize k)) k)).
Proof.
  intros HA F E q r a. split; [apply FFits_edges; assumption|].
  split; [|split; [|split]]; intros HP; destruct (FFitsE_edges ins A hi c s k HA (E HP)) as [G1 [G2 [G3 G4]]]; assumption.
Qed.

(** (b2) face3 on two cells in contact across a face. *)
Lemma face3_net A : oaxis A -> forall f k s c0 c1,
  FFits ins A false c0 s k -> FFits ins A true c1 s k ->
  (oheight (fst c0) < f)%nat -> (oheight (fst c1) < f)%nat ->
  N e (face3 diag f A c0 c1) = Psi0 ins e A k s c0 + Psi1 ins e A k s c1 - Phi ins e A k s c0 c1.
Proof.
  intros HA. induction f as [|f IH]; intros k s c0 c1 F0 F1 H0 H1; [lia|].
  cbn [face3].
  destruct (o_is_branch (fst c0) || o_is_branch (fst c1)) eqn:BB.
  2:{ apply orb_false_iff in BB. destruct BB as [B0 B1].
      rewrite N_nil, Psi0_leaf, Psi1_leaf, Phi_leaf_zero by assumption. reflexivity. }
  assert (Hk : k <> O /\ (1 <= f)%nat).
  { apply orb_true_iff in BB. destruct BB as [B|B].
    - split; [exact (FFits_branch_level _ _ _ _ _ _ F0 B)|apply obranch_height in B; lia].
    - split; [exact (FFits_branch_level _ _ _ _ _ _ F1 B)|apply obranch_height in B; lia]. }
  destruct Hk as [Hk Hf]. destruct k as [|k]; [congruence|].
  rewrite (Psi0_step ins e A k s c0 HA F0), (Psi1_step ins e A k s c1 HA F1), (Phi_split ins e A k s c0 c1 HA F0 F1).
  destruct (FFits_split ins A false c0 s k HA F0) as [[F00 [F0q [F0r F0qr]]] E0].
  destruct (FFits_split ins A true c1 s k HA F1) as [[F10 [F1q [F1r F1qr]]] E1].
  cbv zeta in E0, E1.
  set (P0 := o_is_branch (fst c0) = true) in *. set (P1 := o_is_branch (fst c1) = true) in *.
  pose proof (FFitsB_edges A false _ _ _ P0 HA F00 (fun B => proj1 (E0 B))) as [[X01 [X02 [X03 X04]]] [Y01 [Y02 [Y03 Y04]]]].
  pose proof (FFitsB_edges A false _ _ _ P0 HA F0q (fun B => proj1 (proj2 (E0 B)))) as [[X11 [X12 [X13 X14]]] [Y11 [Y12 [Y13 Y14]]]].
  pose proof (FFitsB_edges A false _ _ _ P0 HA F0r (fun B => proj1 (proj2 (proj2 (E0 B))))) as [[X21 [X22 [X23 X24]]] [Y21 [Y22 [Y23 Y24]]]].
  pose proof (FFitsB_edges A false _ _ _ P0 HA F0qr (fun B => proj2 (proj2 (proj2 (E0 B))))) as [[X31 [X32 [X33 X34]]] [Y31 [Y32 [Y33 Y34]]]].
  pose proof (FFitsB_edges A true _ _ _ P1 HA F10 (fun B => proj1 (E1 B))) as [[U01 [U02 [U03 U04]]] [V01 [V02 [V03 V04]]]].
  pose proof (FFitsB_edges A true _ _ _ P1 HA F1q (fun B => proj1 (proj2 (E1 B)))) as [[U11 [U12 [U13 U14]]] [V11 [V12 [V13 V14]]]].
  pose proof (FFitsB_edges A true _ _ _ P1 HA F1r (fun B => proj1 (proj2 (proj2 (E1 B))))) as [[U21 [U22 [U23 U24]]] [V21 [V22 [V23 V24]]]].
  pose proof (FFitsB_edges A true _ _ _ P1 HA F1qr (fun B => proj2 (proj2 (proj2 (E1 B))))) as [[U31 [U32 [U33 U34]]] [V31 [V32 [V33 V34]]]].
  clear E0 E1 F0 F1.
  subst P0 P1.
  pose proof (oaxis_Q A HA) as HQ. pose proof (oaxis_R A HA) as HR.
  assert (HT : forall c i, (oheight (fst c) < S f)%nat -> (oheight (fst (ochild c i)) < f)%nat)
    by (intros; apply ochild_height_lt; assumption).
  assert (HT' : forall c i, (oheight (fst c) < S f)%nat -> (oheight (fst (ochild c i)) < S f)%nat)
    by (intros; apply ochild_height_le; assumption).
  destruct s as [[x y] z].
  destruct HA as [-> | [-> | ->]]; cbn [Qax Rax Z.eqb Pos.eqb flat_map] in *; zsums_all; osteps_all;
    rewrite ?osize_S, ?two_times, ?Z.add_assoc; rewrite ?app_nil_r, !N_app.
  all: repeat (erewrite IH; [| eassumption | eassumption | apply HT; assumption | apply HT; assumption]).
  all: repeat (erewrite (edge3_net' _ HQ);
               [| eassumption | eassumption | eassumption | eassumption
                | eassumption | eassumption | eassumption | eassumption
                | clear -BB; destruct (o_is_branch (fst c0)), (o_is_branch (fst c1)); (reflexivity || discriminate BB)
                | apply HT'; assumption | apply HT'; assumption | apply HT'; assumption | apply HT'; assumption ]).
  all: repeat (erewrite (edge3_net' _ HR);
               [| eassumption | eassumption | eassumption | eassumption
                | eassumption | eassumption | eassumption | eassumption
                | clear -BB; destruct (o_is_branch (fst c0)), (o_is_branch (fst c1)); (reflexivity || discriminate BB)
                | apply HT'; assumption | apply HT'; assumption | apply HT'; assumption | apply HT'; assumption ]).
  all: unfold Phi; cbn [Qax Rax Z.eqb Pos.eqb]; zsums; osteps; rewrite ?Z.add_assoc.
  all: lia.
Qed.

(* exactly fitting cells *)
Lemma fits_exact A cn t org k : oaxis A -> quadrant A cn ->
  oconsistent ins t org k -> fits ins A cn t org k (ocorner_pt org k cn) k.
Proof.
  intros HA Hcn C. destruct (quadrant_in8 A cn HA Hcn) as [I1 I2].
  split; [exact C|]. split; [lia|]. split; [reflexivity|]. split; [apply corner_in_closed; exact I1|].
  split; [|reflexivity]. rewrite <- (ocorner_step A cn org k HA Hcn). apply corner_in_closed; exact I2.
Qed.
Lemma Fits_exact A cn t p org k s : oaxis A -> quadrant A cn ->
  oconsistent ins t org k -> s = ocorner_pt org k cn -> Fits ins A cn (t, p) s k.
Proof. intros HA Hcn C ->. exists org, k. apply fits_exact; assumption. Qed.
Lemma FitsE_exact A cn t p org k s : oaxis A -> quadrant A cn ->
  oconsistent ins t org k -> s = ocorner_pt org k cn -> FitsE ins A cn (t, p) s k.
Proof. intros HA Hcn C ->. exists org. apply fits_exact; assumption. Qed.

Lemma FFits_exact A (hi : bool) t p org k s : oaxis A ->
  oconsistent ins t org k -> s = ocorner_pt org k (if hi then 0 else A) -> FFits ins A hi (t, p) s k.
Proof. intros HA C E. exists org, k. cbn [fst]. apply ffits_intro; assumption. Qed.

(* what the edges lying on the six faces of a cell owe to pairs of cells inside it *)
Definition Bd (k : nat) (o : pt3) (c : ocell) : Z :=
  Psi0 ins e 1 k (ocorner_pt o k 1) c + Psi1 ins e 1 k o c +
  Psi0 ins e 2 k (ocorner_pt o k 2) c + Psi1 ins e 2 k o c +
  Psi0 ins e 4 k (ocorner_pt o k 4) c + Psi1 ins e 4 k o c.

Lemma ax1 : oaxis 1. Proof. left; reflexivity. Qed.
Lemma ax2 : oaxis 2. Proof. right; left; reflexivity. Qed.
Lemma ax4 : oaxis 4. Proof. right; right; reflexivity. Qed.

Ltac pt_solve :=
  cbv iota; cbn [Qax Rax Z.eqb Pos.eqb]; zsums;
  first [ match goal with |- ?a = _ => is_evar a; reflexivity end
        | repeat (progress corner_pts); first [reflexivity | pt3eq] ].
Ltac quad_solve := unfold quadrant; cbn [Qax Rax Z.eqb Pos.eqb]; tauto.
Ltac ax_solve := first [left; reflexivity | right; left; reflexivity | right; right; reflexivity].
Ltac wside :=
  lazymatch goal with
  | |- FFits _ _ _ _ _ _ => eapply FFits_exact; [ax_solve | eassumption | pt_solve]
  | |- Fits _ _ _ _ _ _ => eapply Fits_exact; [ax_solve | quad_solve | eassumption | pt_solve]
  | |- _ -> FitsE _ _ _ _ _ _ => intros _; eapply FitsE_exact; [ax_solve | quad_solve | eassumption | pt_solve]
  | |- (_ < _)%nat => cbn [fst]; assumption
  end.

(** (b3) the walk below a cell: everything cancels except what the cell's own six faces owe. *)
Lemma walk3_net f : forall t p o k, oconsistent ins t o k -> (oheight t < f)%nat ->
  N e (walk3 diag f t p) = - Bd k o (t, p).
Proof.
  induction t as [| |l m mf|c0 IH0 c1 IH1 c2 IH2 c3 IH3 c4 IH4 c5 IH5 c6 IH6 c7 IH7]; intros p o k C Hf;
    try (cbn [walk3]; unfold Bd; rewrite N_nil, !Psi0_leaf, !Psi1_leaf by reflexivity; reflexivity).
  destruct (oconsistent_branch _ _ _ _ _ _ _ _ _ _ _ C) as [k' [-> [C0 [C1 [C2 [C3 [C4 [C5 [C6 C7]]]]]]]]].
  cbn [oheight] in Hf.
  assert (G0 : (oheight c0 < f)%nat) by lia. assert (G1 : (oheight c1 < f)%nat) by lia.
  assert (G2 : (oheight c2 < f)%nat) by lia. assert (G3 : (oheight c3 < f)%nat) by lia.
  assert (G4 : (oheight c4 < f)%nat) by lia. assert (G5 : (oheight c5 < f)%nat) by lia.
  assert (G6 : (oheight c6 < f)%nat) by lia. assert (G7 : (oheight c7 < f)%nat) by lia.
  cbn [walk3]. rewrite !N_app.
  rewrite (IH0 _ _ _ C0 G0), (IH1 _ _ _ C1 G1), (IH2 _ _ _ C2 G2), (IH3 _ _ _ C3 G3),
          (IH4 _ _ _ C4 G4), (IH5 _ _ _ C5 G5), (IH6 _ _ _ C6 G6), (IH7 _ _ _ C7 G7).
  clear IH0 IH1 IH2 IH3 IH4 IH5 IH6 IH7.
  destruct o as [[x y] z].
  set (t := OB c0 c1 c2 c3 c4 c5 c6 c7) in *.
  unfold Bd at 9.
  rewrite (Psi0_step ins e 1 k' _ (t, p) ax1 (FFits_exact 1 false t p _ (S k') _ ax1 C eq_refl)).
  rewrite (Psi0_step ins e 2 k' _ (t, p) ax2 (FFits_exact 2 false t p _ (S k') _ ax2 C eq_refl)).
  rewrite (Psi0_step ins e 4 k' _ (t, p) ax4 (FFits_exact 4 false t p _ (S k') _ ax4 C eq_refl)).
  rewrite (Psi1_step ins e 1 k' _ (t, p) ax1 (FFits_exact 1 true t p _ (S k') _ ax1 C (eq_sym (ocorner_pt_0 x y z (S k'))))).
  rewrite (Psi1_step ins e 2 k' _ (t, p) ax2 (FFits_exact 2 true t p _ (S k') _ ax2 C (eq_sym (ocorner_pt_0 x y z (S k'))))).
  rewrite (Psi1_step ins e 4 k' _ (t, p) ax4 (FFits_exact 4 true t p _ (S k') _ ax4 C (eq_sym (ocorner_pt_0 x y z (S k'))))).
  unfold work3, call_face3, call_edge3. subst t.
  cbn [flat_map Qax Rax Z.eqb Pos.eqb ochild o_is_branch fst snd osub]. zsums.
  cbn [Z.eqb Pos.eqb]. rewrite ?app_nil_r, !N_app.
  repeat (erewrite (face3_net 1 ax1 f k'); [| wside | wside | wside | wside]).
  repeat (erewrite (face3_net 2 ax2 f k'); [| wside | wside | wside | wside]).
  repeat (erewrite (face3_net 4 ax4 f k'); [| wside | wside | wside | wside]).
  repeat (erewrite (edge3_net' 1 ax1 f k' _ _ _ _ _ true true true true);
          [| wside | wside | wside | wside | wside | wside | wside | wside | reflexivity | wside | wside | wside | wside]).
  repeat (erewrite (edge3_net' 2 ax2 f k' _ _ _ _ _ true true true true);
          [| wside | wside | wside | wside | wside | wside | wside | wside | reflexivity | wside | wside | wside | wside]).
  repeat (erewrite (edge3_net' 4 ax4 f k' _ _ _ _ _ true true true true);
          [| wside | wside | wside | wside | wside | wside | wside | wside | reflexivity | wside | wside | wside | wside]).
  unfold Bd, Phi. cbv iota. cbn [Qax Rax Z.eqb Pos.eqb]. zsums.
  repeat (progress corner_pts). osteps. rewrite ?osize_S, ?two_times, ?Z.add_assoc.
  unfold opath.
  lia.
Qed.

(* ------------------------------------------------------------------------- *)
(** * (c) The region boundary owes nothing *)
Lemma ostep_0 A s : ostep A s 0 = s.
Proof. destruct s as [[x y] z]. unfold ostep. destruct (A =? 1); [|destruct (A =? 2)]; pt3eq. Qed.

Lemma flag_const A c : forall k s ca cna cb cnb,
  (forall i, 0 <= i <= osize k -> ins (ostep A s i) = c) -> flag ins e A k s ca cna cb cnb = 0.
Proof.
  induction k as [|k IH]; intros s ca cna cb cnb U.
  - cbn [flag]. pose proof (osize_pos 0). rewrite <- (ostep_0 A s) at 1. rewrite !U by lia. apply flagw_same.
  - pose proof (osize_pos k) as Hp. pose proof (osize_S k) as HS. cbn [flag].
    destruct (o_is_branch (fst ca) || o_is_branch (fst cb)).
    + rewrite !IH; [reflexivity| |].
      * intros i Hi. rewrite ostep_ostep. apply U. lia.
      * intros i Hi. apply U. lia.
    + rewrite <- (ostep_0 A s) at 1. rewrite !U by lia. apply flagw_same.
Qed.

Lemma Psi0_const A c : oaxis A -> forall k s c0,
  (forall i j, 0 <= i <= osize k -> 0 <= j <= osize k -> ins (ostep (Rax A) (ostep (Qax A) s i) j) = c) ->
  Psi0 ins e A k s c0 = 0.
Proof.
  intros HA. induction k as [|k IH]; intros s c0 U; [reflexivity|].
  pose proof (osize_pos k) as Hp. pose proof (osize_S k) as HS. cbn [Psi0].
  destruct (o_is_branch (fst c0)); [|reflexivity]. destruct s as [[x y] z].
  destruct HA as [-> | [-> | ->]]; cbn [Qax Rax Z.eqb Pos.eqb] in *; cbv zeta;
    rewrite !IH, !(flag_const _ c); try reflexivity;
    intros; osteps; rewrite <- ?Z.add_assoc;
    first [ exact (U _ _ ltac:(lia) ltac:(lia)) | apply U; lia ].
Qed.

Lemma Psi1_const A c : oaxis A -> forall k s c1,
  (forall i j, 0 <= i <= osize k -> 0 <= j <= osize k -> ins (ostep (Rax A) (ostep (Qax A) s i) j) = c) ->
  Psi1 ins e A k s c1 = 0.
Proof.
  intros HA. induction k as [|k IH]; intros s c1 U; [reflexivity|].
  pose proof (osize_pos k) as Hp. pose proof (osize_S k) as HS. cbn [Psi1].
  destruct (o_is_branch (fst c1)); [|reflexivity]. destruct s as [[x y] z].
  destruct HA as [-> | [-> | ->]]; cbn [Qax Rax Z.eqb Pos.eqb] in *; cbv zeta;
    rewrite !IH, !(flag_const _ c); try reflexivity;
    intros; osteps; rewrite <- ?Z.add_assoc;
    first [ exact (U _ _ ltac:(lia) ltac:(lia)) | apply U; lia ].
Qed.

Lemma Bd_root k c : oboundary_clear ins k -> Bd k (0, 0, 0) c = 0.
Proof.
  intros BC. unfold Bd. corner_pts. pose proof (osize_pos k) as Hp.
  rewrite (Psi0_const 1 false ax1), (Psi1_const 1 false ax1), (Psi0_const 2 false ax2), (Psi1_const 2 false ax2),
          (Psi0_const 4 false ax4), (Psi1_const 4 false ax4); try reflexivity;
    intros i j Hi Hj; cbn [Qax Rax Z.eqb Pos.eqb]; osteps; apply BC; try (apply in_closed3_xyz; lia); lia.
Qed.

End Walk.

(* ------------------------------------------------------------------------- *)
(** * MAIN THEOREM *)
Theorem walk3_closed : forall ins t k diag,
  oconsistent ins t (0, 0, 0) k -> oboundary_clear ins k -> oclosed_mesh (mesh_walk diag t).
Proof.
  intros ins t k diag C BC. apply oclosed_mesh_net. intros e. unfold mesh_walk.
  change (N e (walk3 diag (S (oheight t)) t []) = 0).
  rewrite (walk3_net ins e diag (S (oheight t)) t [] (0, 0, 0) k C) by lia.
  rewrite Bd_root by exact BC. reflexivity.
Qed.

(* ------------------------------------------------------------------------- *)
(** * What the walk emits: every call of load3 is on four non-branching cells around a lattice edge *)

Lemma Forall_flat_map {X Y : Type} (P : Y -> Prop) (g : X -> list Y) l :
  (forall x, In x l -> Forall P (g x)) -> Forall P (flat_map g l).
Proof.
  induction l as [|x l IH]; intros H; cbn [flat_map]; [constructor|].
  apply Forall_app. split; [apply H; left; reflexivity|apply IH; intros y Hy; apply H; right; exact Hy].
Qed.

Section Inv.
Variable ins : pt3 -> bool.
Variable diag : overtex -> overtex -> overtex -> overtex -> bool.
Variable P : otri -> Prop.
Hypothesis Pload : forall A s k (t0 t1 t2 t3 : ocell), oaxis A ->
  Fits ins A (Qax A + Rax A) t0 s k -> Fits ins A (Rax A) t1 s k -> Fits ins A (Qax A) t2 s k -> Fits ins A 0 t3 s k ->
  (FitsE ins A (Qax A + Rax A) t0 s k \/ FitsE ins A (Rax A) t1 s k \/ FitsE ins A (Qax A) t2 s k \/ FitsE ins A 0 t3 s k) ->
  o_is_branch (fst t0) = false -> o_is_branch (fst t1) = false ->
  o_is_branch (fst t2) = false -> o_is_branch (fst t3) = false ->
  Forall P (load3 diag A t0 t1 t2 t3).

Lemma edge3_P A : oaxis A -> forall f k s (t0 t1 t2 t3 : ocell),
  let q := Qax A in let r := Rax A in
  Fits ins A (q + r) t0 s k -> Fits ins A r t1 s k -> Fits ins A q t2 s k -> Fits ins A 0 t3 s k ->
  (FitsE ins A (q + r) t0 s k \/ FitsE ins A r t1 s k \/ FitsE ins A q t2 s k \/ FitsE ins A 0 t3 s k) ->
  (oheight (fst t0) < f)%nat -> (oheight (fst t1) < f)%nat ->
  (oheight (fst t2) < f)%nat -> (oheight (fst t3) < f)%nat ->
  Forall P (edge3 diag f A t0 t1 t2 t3).
Proof.
  intros HA. induction f as [|f IH]; intros k s t0 t1 t2 t3 q r F0 F1 F2 F3 Hex H0 H1 H2 H3; [lia|].
  cbn [edge3]. fold q r.
  assert (Q0 : quadrant A (q + r)) by (unfold quadrant; tauto).
  assert (Q1 : quadrant A r) by (unfold quadrant; tauto).
  assert (Q2 : quadrant A q) by (unfold quadrant; tauto).
  assert (Q3 : quadrant A 0) by (unfold quadrant; tauto).
  destruct (o_is_branch (fst t0) || o_is_branch (fst t1) || o_is_branch (fst t2) || o_is_branch (fst t3)) eqn:BB.
  2:{ apply orb_false_iff in BB. destruct BB as [BB B3]. apply orb_false_iff in BB. destruct BB as [BB B2].
      apply orb_false_iff in BB. destruct BB as [B0 B1]. apply (Pload A s k); assumption. }
  assert (Hk : k <> O /\ (1 <= f)%nat).
  { apply orb_true_iff in BB. destruct BB as [BB|B].
    2:{ split; [exact (Fits_branch_level _ _ _ _ _ _ F3 B)|apply obranch_height in B; lia]. }
    apply orb_true_iff in BB. destruct BB as [BB|B].
    2:{ split; [exact (Fits_branch_level _ _ _ _ _ _ F2 B)|apply obranch_height in B; lia]. }
    apply orb_true_iff in BB. destruct BB as [B|B].
    - split; [exact (Fits_branch_level _ _ _ _ _ _ F0 B)|apply obranch_height in B; lia].
    - split; [exact (Fits_branch_level _ _ _ _ _ _ F1 B)|apply obranch_height in B; lia]. }
  destruct Hk as [Hk Hf]. destruct k as [|k]; [congruence|].
  destruct (Fits_split ins A _ _ _ _ HA Q0 F0) as [F0a F0b]. destruct (Fits_split ins A _ _ _ _ HA Q1 F1) as [F1a F1b].
  destruct (Fits_split ins A _ _ _ _ HA Q2 F2) as [F2a F2b]. destruct (Fits_split ins A _ _ _ _ HA Q3 F3) as [F3a F3b].
  assert (Hex' : (FitsE ins A (q + r) (ochild t0 (q + r)) s k \/ FitsE ins A r (ochild t1 r) s k \/
                  FitsE ins A q (ochild t2 q) s k \/ FitsE ins A 0 (ochild t3 0) s k) /\
                 (FitsE ins A (q + r) (ochild t0 (q + r + A)) (ostep A s (osize k)) k \/
                  FitsE ins A r (ochild t1 (r + A)) (ostep A s (osize k)) k \/
                  FitsE ins A q (ochild t2 (q + A)) (ostep A s (osize k)) k \/
                  FitsE ins A 0 (ochild t3 (0 + A)) (ostep A s (osize k)) k)).
  { apply orb_true_iff in BB. destruct BB as [BB|B].
    2:{ destruct (FitsE_split ins A _ _ _ _ HA Q3 F3 B). tauto. }
    apply orb_true_iff in BB. destruct BB as [BB|B].
    2:{ destruct (FitsE_split ins A _ _ _ _ HA Q2 F2 B). tauto. }
    apply orb_true_iff in BB. destruct BB as [B|B].
    - destruct (FitsE_split ins A _ _ _ _ HA Q0 F0 B). tauto.
    - destruct (FitsE_split ins A _ _ _ _ HA Q1 F1 B). tauto. }
  destruct Hex' as [Hexa Hexb].
  assert (HH : forall c i, (oheight (fst c) < S f)%nat -> (oheight (fst (ochild c i)) < f)%nat)
    by (intros; apply ochild_height_lt; assumption).
  change (0 + A) with A in *.
  apply Forall_app. split.
  - apply (IH k s); auto.
  - apply (IH k (ostep A s (osize k))); auto.
Qed.

Lemma edge3_P' A : oaxis A -> forall f k s (t0 t1 t2 t3 : ocell) (b0 b1 b2 b3 : bool),
  let q := Qax A in let r := Rax A in
  Fits ins A (q + r) t0 s k -> Fits ins A r t1 s k -> Fits ins A q t2 s k -> Fits ins A 0 t3 s k ->
  (b0 = true -> FitsE ins A (q + r) t0 s k) -> (b1 = true -> FitsE ins A r t1 s k) ->
  (b2 = true -> FitsE ins A q t2 s k) -> (b3 = true -> FitsE ins A 0 t3 s k) ->
  b0 || b1 || b2 || b3 = true ->
  (oheight (fst t0) < f)%nat -> (oheight (fst t1) < f)%nat ->
  (oheight (fst t2) < f)%nat -> (oheight (fst t3) < f)%nat ->
  Forall P (edge3 diag f A t0 t1 t2 t3).
Proof.
  intros HA f k s t0 t1 t2 t3 b0 b1 b2 b3 q r F0 F1 F2 F3 E0 E1 E2 E3 Hb H0 H1 H2 H3.
  apply (edge3_P A HA f k s); auto.
  destruct b0; [left; auto|]. destruct b1; [right; left; auto|]. destruct b2; [right; right; left; auto|].
  destruct b3; [right; right; right; auto|discriminate].
Qed.

Lemma face3_P A : oaxis A -> forall f k s c0 c1,
  FFits ins A false c0 s k -> FFits ins A true c1 s k ->
  (oheight (fst c0) < f)%nat -> (oheight (fst c1) < f)%nat ->
  Forall P (face3 diag f A c0 c1).
Proof.
  intros HA. induction f as [|f IH]; intros k s c0 c1 F0 F1 H0 H1; [lia|].
  cbn [face3].
  destruct (o_is_branch (fst c0) || o_is_branch (fst c1)) eqn:BB; [|constructor].
  assert (Hk : k <> O /\ (1 <= f)%nat).
  { apply orb_true_iff in BB. destruct BB as [B|B].
    - split; [exact (FFits_branch_level _ _ _ _ _ _ F0 B)|apply obranch_height in B; lia].
    - split; [exact (FFits_branch_level _ _ _ _ _ _ F1 B)|apply obranch_height in B; lia]. }
  destruct Hk as [Hk Hf]. destruct k as [|k]; [congruence|].
  destruct (FFits_split ins A false c0 s k HA F0) as [[F00 [F0q [F0r F0qr]]] E0].
  destruct (FFits_split ins A true c1 s k HA F1) as [[F10 [F1q [F1r F1qr]]] E1].
  cbv zeta in E0, E1.
  set (P0 := o_is_branch (fst c0) = true) in *. set (P1 := o_is_branch (fst c1) = true) in *.
  pose proof (FFitsB_edges ins A false _ _ _ P0 HA F00 (fun B => proj1 (E0 B))) as [[X01 [X02 [X03 X04]]] [Y01 [Y02 [Y03 Y04]]]].
  pose proof (FFitsB_edges ins A false _ _ _ P0 HA F0q (fun B => proj1 (proj2 (E0 B)))) as [[X11 [X12 [X13 X14]]] [Y11 [Y12 [Y13 Y14]]]].
  pose proof (FFitsB_edges ins A false _ _ _ P0 HA F0r (fun B => proj1 (proj2 (proj2 (E0 B))))) as [[X21 [X22 [X23 X24]]] [Y21 [Y22 [Y23 Y24]]]].
  pose proof (FFitsB_edges ins A false _ _ _ P0 HA F0qr (fun B => proj2 (proj2 (proj2 (E0 B))))) as [[X31 [X32 [X33 X34]]] [Y31 [Y32 [Y33 Y34]]]].
  pose proof (FFitsB_edges ins A true _ _ _ P1 HA F10 (fun B => proj1 (E1 B))) as [[U01 [U02 [U03 U04]]] [V01 [V02 [V03 V04]]]].
  pose proof (FFitsB_edges ins A true _ _ _ P1 HA F1q (fun B => proj1 (proj2 (E1 B)))) as [[U11 [U12 [U13 U14]]] [V11 [V12 [V13 V14]]]].
  pose proof (FFitsB_edges ins A true _ _ _ P1 HA F1r (fun B => proj1 (proj2 (proj2 (E1 B))))) as [[U21 [U22 [U23 U24]]] [V21 [V22 [V23 V24]]]].
  pose proof (FFitsB_edges ins A true _ _ _ P1 HA F1qr (fun B => proj2 (proj2 (proj2 (E1 B))))) as [[U31 [U32 [U33 U34]]] [V31 [V32 [V33 V34]]]].
  clear E0 E1 F0 F1. subst P0 P1.
  pose proof (oaxis_Q A HA) as HQ. pose proof (oaxis_R A HA) as HR.
  assert (HT : forall c i, (oheight (fst c) < S f)%nat -> (oheight (fst (ochild c i)) < f)%nat)
    by (intros; apply ochild_height_lt; assumption).
  assert (HT' : forall c i, (oheight (fst c) < S f)%nat -> (oheight (fst (ochild c i)) < S f)%nat)
    by (intros; apply ochild_height_le; assumption).
  destruct s as [[x y] z].
  destruct HA as [-> | [-> | ->]]; cbn [Qax Rax Z.eqb Pos.eqb flat_map] in *; zsums_all; osteps_all;
    rewrite ?app_nil_r; repeat (apply Forall_app; split);
    first [ eapply IH; [eassumption | eassumption | apply HT; assumption | apply HT; assumption]
          | eapply (edge3_P' _ HQ);
            [ eassumption | eassumption | eassumption | eassumption
            | eassumption | eassumption | eassumption | eassumption
            | clear -BB; destruct (o_is_branch (fst c0)), (o_is_branch (fst c1)); (reflexivity || discriminate BB)
            | apply HT'; assumption | apply HT'; assumption | apply HT'; assumption | apply HT'; assumption ]
          | eapply (edge3_P' _ HR);
            [ eassumption | eassumption | eassumption | eassumption
            | eassumption | eassumption | eassumption | eassumption
            | clear -BB; destruct (o_is_branch (fst c0)), (o_is_branch (fst c1)); (reflexivity || discriminate BB)
            | apply HT'; assumption | apply HT'; assumption | apply HT'; assumption | apply HT'; assumption ] ].
Qed.

Ltac pt_solve :=
  cbv iota; cbn [Qax Rax Z.eqb Pos.eqb]; zsums;
  first [ match goal with |- ?a = _ => is_evar a; reflexivity end
        | repeat (progress corner_pts); first [reflexivity | pt3eq] ].
Ltac quad_solve := unfold quadrant; cbn [Qax Rax Z.eqb Pos.eqb]; tauto.
Ltac ax_solve := first [left; reflexivity | right; left; reflexivity | right; right; reflexivity].
Ltac wside :=
  lazymatch goal with
  | |- FFits _ _ _ _ _ _ => eapply FFits_exact; [ax_solve | eassumption | pt_solve]
  | |- Fits _ _ _ _ _ _ => eapply Fits_exact; [ax_solve | quad_solve | eassumption | pt_solve]
  | |- _ -> FitsE _ _ _ _ _ _ => intros _; eapply FitsE_exact; [ax_solve | quad_solve | eassumption | pt_solve]
  | |- (_ < _)%nat => cbn [fst]; assumption
  end.

Lemma walk3_P f : forall t p o k, oconsistent ins t o k -> (oheight t < f)%nat ->
  Forall P (walk3 diag f t p).
Proof.
  induction t as [| |l m mf|c0 IH0 c1 IH1 c2 IH2 c3 IH3 c4 IH4 c5 IH5 c6 IH6 c7 IH7]; intros p o k C Hf;
    try (cbn [walk3]; constructor).
  destruct (oconsistent_branch _ _ _ _ _ _ _ _ _ _ _ C) as [k' [-> [C0 [C1 [C2 [C3 [C4 [C5 [C6 C7]]]]]]]]].
  cbn [oheight] in Hf.
  assert (G0 : (oheight c0 < f)%nat) by lia. assert (G1 : (oheight c1 < f)%nat) by lia.
  assert (G2 : (oheight c2 < f)%nat) by lia. assert (G3 : (oheight c3 < f)%nat) by lia.
  assert (G4 : (oheight c4 < f)%nat) by lia. assert (G5 : (oheight c5 < f)%nat) by lia.
  assert (G6 : (oheight c6 < f)%nat) by lia. assert (G7 : (oheight c7 < f)%nat) by lia.
  cbn [walk3].
  apply Forall_app; split; [exact (IH0 _ _ _ C0 G0)|]. apply Forall_app; split; [exact (IH1 _ _ _ C1 G1)|].
  apply Forall_app; split; [exact (IH2 _ _ _ C2 G2)|]. apply Forall_app; split; [exact (IH3 _ _ _ C3 G3)|].
  apply Forall_app; split; [exact (IH4 _ _ _ C4 G4)|]. apply Forall_app; split; [exact (IH5 _ _ _ C5 G5)|].
  apply Forall_app; split; [exact (IH6 _ _ _ C6 G6)|]. apply Forall_app; split; [exact (IH7 _ _ _ C7 G7)|].
  clear IH0 IH1 IH2 IH3 IH4 IH5 IH6 IH7.
  destruct o as [[x y] z].
  unfold work3, call_face3, call_edge3.
  cbn [flat_map Qax Rax Z.eqb Pos.eqb ochild o_is_branch fst snd osub]. zsums.
  cbn [Z.eqb Pos.eqb]. rewrite ?app_nil_r.
  repeat (apply Forall_app; split);
    first [ eapply (face3_P 1 ax1 f k'); [wside | wside | wside | wside]
          | eapply (face3_P 2 ax2 f k'); [wside | wside | wside | wside]
          | eapply (face3_P 4 ax4 f k'); [wside | wside | wside | wside]
          | eapply (edge3_P' 1 ax1 f k' _ _ _ _ _ true true true true);
            [ wside | wside | wside | wside | wside | wside | wside | wside | reflexivity | wside | wside | wside | wside]
          | eapply (edge3_P' 2 ax2 f k' _ _ _ _ _ true true true true);
            [ wside | wside | wside | wside | wside | wside | wside | wside | reflexivity | wside | wside | wside | wside]
          | eapply (edge3_P' 4 ax4 f k' _ _ _ _ _ true true true true);
            [ wside | wside | wside | wside | wside | wside | wside | wside | reflexivity | wside | wside | wside | wside] ].
Qed.

End Inv.

(** (iii) every triangle of the mesh comes from a call of load3 on four non-branching cells of a
    consistent tree that lie around one lattice edge, one of them exactly of the size of the edge. *)
Definition load_call (ins : pt3 -> bool) (diag : overtex -> overtex -> overtex -> overtex -> bool) (tr : otri) : Prop :=
  exists A s k (t0 t1 t2 t3 : ocell), oaxis A /\
    Fits ins A (Qax A + Rax A) t0 s k /\ Fits ins A (Rax A) t1 s k /\ Fits ins A (Qax A) t2 s k /\ Fits ins A 0 t3 s k /\
    (FitsE ins A (Qax A + Rax A) t0 s k \/ FitsE ins A (Rax A) t1 s k \/ FitsE ins A (Qax A) t2 s k \/ FitsE ins A 0 t3 s k) /\
    o_is_branch (fst t0) = false /\ o_is_branch (fst t1) = false /\
    o_is_branch (fst t2) = false /\ o_is_branch (fst t3) = false /\
    In tr (load3 diag A t0 t1 t2 t3).

Theorem walk3_calls : forall ins t k diag, oconsistent ins t (0, 0, 0) k ->
  forall tr, In tr (mesh_walk diag t) -> load_call ins diag tr.
Proof.
  intros ins t k diag C. apply Forall_forall. unfold mesh_walk.
  apply (walk3_P ins diag (load_call ins diag)) with (o := (0, 0, 0)) (k := k); [|exact C|lia].
  intros A s k0 t0 t1 t2 t3 HA F0 F1 F2 F3 Hex B0 B1 B2 B3. apply Forall_forall. intros tr Htr.
  exists A, s, k0, t0, t1, t2, t3. tauto.
Qed.

(* ------------------------------------------------------------------------- *)
(** * 3. No degenerate triangles; every corner is a real patch vertex *)
Section All.
Variable diag : overtex -> overtex -> overtex -> overtex -> bool.
Variable P : otri -> Prop.
Hypothesis Pl : forall A t0 t1 t2 t3, Forall P (load3 diag A t0 t1 t2 t3).

Lemma edge3_all : forall f A t0 t1 t2 t3, Forall P (edge3 diag f A t0 t1 t2 t3).
Proof.
  induction f as [|f IH]; intros A t0 t1 t2 t3; cbn [edge3]; [constructor|].
  destruct (_ || _); [apply Forall_app; split; apply IH|apply Pl].
Qed.
Lemma face3_all : forall f A t0 t1, Forall P (face3 diag f A t0 t1).
Proof.
  induction f as [|f IH]; intros A t0 t1; cbn [face3]; [constructor|].
  destruct (_ || _); [|constructor].
  repeat (apply Forall_app; split);
    first [apply edge3_all | apply IH | constructor | (apply Forall_flat_map; intros x _; apply IH)].
Qed.
Lemma walk3_all f : forall t p, Forall P (walk3 diag f t p).
Proof.
  induction t as [| |l m mf|c0 IH0 c1 IH1 c2 IH2 c3 IH3 c4 IH4 c5 IH5 c6 IH6 c7 IH7]; intros p; cbn [walk3];
    try constructor.
  apply Forall_app; split; [apply IH0|]. apply Forall_app; split; [apply IH1|].
  apply Forall_app; split; [apply IH2|]. apply Forall_app; split; [apply IH3|].
  apply Forall_app; split; [apply IH4|]. apply Forall_app; split; [apply IH5|].
  apply Forall_app; split; [apply IH6|]. apply Forall_app; split; [apply IH7|].
  unfold work3, call_face3, call_edge3. cbn [flat_map].
  repeat (apply Forall_app; split); first [apply face3_all | apply edge3_all | constructor].
Qed.
End All.

Definition nondeg (tr : otri) : Prop := let '(a, b, c) := tr in a <> b /\ b <> c /\ a <> c.

Lemma push_tri_Forall (P : otri -> Prop) a b c :
  (overtex_eqb a b || overtex_eqb b c || overtex_eqb a c = false -> P (a, b, c)) -> Forall P (push_tri a b c).
Proof.
  intros H. unfold push_tri. destruct (overtex_eqb a b || overtex_eqb b c || overtex_eqb a c); constructor; auto.
Qed.

Lemma push_tri_nondeg a b c : Forall nondeg (push_tri a b c).
Proof.
  apply push_tri_Forall. intros H. apply orb_false_iff in H. destruct H as [H H3].
  apply orb_false_iff in H. destruct H as [H1 H2]. cbn [nondeg].
  repeat split; intros E; apply overtex_eqb_eq in E; congruence.
Qed.

Lemma load3_nondeg diag A t0 t1 t2 t3 : Forall nondeg (load3 diag A t0 t1 t2 t3).
Proof.
  unfold load3. cbv zeta. destruct (negb _); [constructor|]. destruct (Bool.eqb _ _); [constructor|].
  destruct (ocorner_state _ _); destruct (diag _ _ _ _); apply Forall_app; split; apply push_tri_nondeg.
Qed.

Theorem mesh_no_degenerate : forall diag t tr, In tr (mesh_walk diag t) ->
  let '(a, b, c) := tr in a <> b /\ b <> c /\ a <> c.
Proof.
  intros diag t tr H.
  pose proof (walk3_all diag nondeg (load3_nondeg diag) (S (oheight t)) t []) as F.
  rewrite Forall_forall in F. exact (F tr H).
Qed.

Definition vvalid (tr : otri) : Prop :=
  forall v, (v = fst (fst tr) \/ v = snd (fst tr) \/ v = snd tr) -> 0 <= snd v.

Lemma e3_adjacent A cn : oaxis A -> quadrant A cn -> 0 <= e3 cn (cn + A) /\ 0 <= e3 (cn + A) cn.
Proof. intros HA Hcn. axis_quadrant HA Hcn; split; apply Z.leb_le; vm_compute; reflexivity. Qed.

(* the vertex a cell contributes to a quad around a sign-changing edge is a real patch *)
Lemma pidx_valid ins A cn (c : ocell) s k sa : oaxis A -> quadrant A cn ->
  Fits ins A cn c s k -> o_is_branch (fst c) = false -> o_is_ambig (fst c) = true ->
  ins s = sa -> ins (ostep A s (osize k)) = negb sa ->
  0 <= pidx (fst c) A cn sa.
Proof.
  intros HA Hcn F NB Am Ea Eb. unfold pidx.
  destruct (Nat.ltb 0 (leaf_level (fst c))) eqn:L; [lia|]. apply Nat.ltb_ge in L.
  pose proof (Fits_ambig_level _ _ _ _ _ _ F Am) as Lk.
  assert (k = O) by lia. subst k.
  assert (FE : FitsE ins A cn c s 0) by (apply Fits_level_E; auto; lia).
  destruct (FitsE_corners ins A cn c s 0 HA Hcn FE NB) as [K1 K2].
  destruct (quadrant_in8 A cn HA Hcn) as [I1 I2]. destruct (e3_adjacent A cn HA Hcn) as [J1 J2].
  destruct F as [org [kt [C _]]].
  destruct (fst c) as [| |l m mf|] eqn:Hc; try discriminate. cbn [leaf_mask ocorner_state] in *.
  assert (R : In m (zrange 256)).
  { apply in_zrange256. cbn [oconsistent] in C. destruct C as [_ [-> _]]. apply omask_of_range. }
  rewrite Ea in K1. rewrite Eb in K2. unfold dirE. destruct sa; cbn [negb] in K2.
  - apply patch_served; assumption.
  - apply patch_served; assumption.
Qed.

Lemma load3_signs ins A s k (t0 t1 t2 t3 : ocell) : oaxis A ->
  let q := Qax A in let r := Rax A in
  let idx := min_index4 (leaf_level (fst t0)) (leaf_level (fst t1)) (leaf_level (fst t2)) (leaf_level (fst t3)) in
  Fits ins A (q + r) t0 s k -> Fits ins A r t1 s k -> Fits ins A q t2 s k -> Fits ins A 0 t3 s k ->
  (FitsE ins A (q + r) t0 s k \/ FitsE ins A r t1 s k \/ FitsE ins A q t2 s k \/ FitsE ins A 0 t3 s k) ->
  o_is_branch (fst t0) = false -> o_is_branch (fst t1) = false ->
  o_is_branch (fst t2) = false -> o_is_branch (fst t3) = false ->
  o_is_ambig (fst t0) = true -> o_is_ambig (fst t1) = true -> o_is_ambig (fst t2) = true -> o_is_ambig (fst t3) = true ->
  ocorner_state (fst (nth idx [t0; t1; t2; t3] t0)) (nth idx [q + r; r; q; 0] 0) = ins s /\
  ocorner_state (fst (nth idx [t0; t1; t2; t3] t0)) (nth idx [q + r; r; q; 0] 0 + A) = ins (ostep A s (osize k)).
Proof.
  intros HA q r idx F0 F1 F2 F3 Hex B0 B1 B2 B3 A0 A1 A2 A3.
  assert (Q0 : quadrant A (q + r)) by (unfold quadrant; tauto).
  assert (Q1 : quadrant A r) by (unfold quadrant; tauto).
  assert (Q2 : quadrant A q) by (unfold quadrant; tauto).
  assert (Q3 : quadrant A 0) by (unfold quadrant; tauto).
  pose proof (Fits_ambig_level _ _ _ _ _ _ F0 A0) as L0. pose proof (Fits_ambig_level _ _ _ _ _ _ F1 A1) as L1.
  pose proof (Fits_ambig_level _ _ _ _ _ _ F2 A2) as L2. pose proof (Fits_ambig_level _ _ _ _ _ _ F3 A3) as L3.
  assert (Lmin : (leaf_level (fst t0) = k \/ leaf_level (fst t1) = k \/ leaf_level (fst t2) = k \/ leaf_level (fst t3) = k)%nat).
  { destruct Hex as [H|[H|[H|H]]]; [left|right; left|right; right; left|right; right; right];
      eapply FitsE_ambig_level; eauto. }
  subst idx.
  destruct (min_index4_spec (leaf_level (fst t0)) (leaf_level (fst t1)) (leaf_level (fst t2)) (leaf_level (fst t3)))
    as [[-> M]|[[-> M]|[[-> M]|[-> M]]]]; cbn [nth];
    (apply FitsE_corners; auto; apply Fits_level_E; auto; lia).
Qed.

Lemma load3_vvalid ins diag A s k (t0 t1 t2 t3 : ocell) : oaxis A ->
  Fits ins A (Qax A + Rax A) t0 s k -> Fits ins A (Rax A) t1 s k -> Fits ins A (Qax A) t2 s k -> Fits ins A 0 t3 s k ->
  (FitsE ins A (Qax A + Rax A) t0 s k \/ FitsE ins A (Rax A) t1 s k \/ FitsE ins A (Qax A) t2 s k \/ FitsE ins A 0 t3 s k) ->
  o_is_branch (fst t0) = false -> o_is_branch (fst t1) = false ->
  o_is_branch (fst t2) = false -> o_is_branch (fst t3) = false ->
  Forall vvalid (load3 diag A t0 t1 t2 t3).
Proof.
  intros HA F0 F1 F2 F3 Hex B0 B1 B2 B3. unfold load3. cbv zeta.
  match goal with |- context [negb (forallb ?f ?l)] => set (fa := forallb f l) end.
  assert (EA : fa = forallb (fun c : ocell => o_is_ambig (fst c)) [t0; t1; t2; t3]) by reflexivity.
  destruct fa; [|constructor]. cbn [negb]. symmetry in EA.
  cbn [forallb] in EA. rewrite !andb_true_iff in EA. destruct EA as [A0 [A1 [A2 [A3 _]]]].
  destruct (load3_signs ins A s k t0 t1 t2 t3 HA F0 F1 F2 F3 Hex B0 B1 B2 B3 A0 A1 A2 A3) as [Ea Eb].
  cbv zeta in Ea, Eb. rewrite Ea, Eb.
  destruct (Bool.eqb (ins s) (ins (ostep A s (osize k)))) eqn:Eab; [constructor|].
  assert (Eb' : ins (ostep A s (osize k)) = negb (ins s)).
  { destruct (ins s), (ins (ostep A s (osize k))); try reflexivity; discriminate Eab. }
  assert (Q0 : quadrant A (Qax A + Rax A)) by (unfold quadrant; tauto).
  assert (Q1 : quadrant A (Rax A)) by (unfold quadrant; tauto).
  assert (Q2 : quadrant A (Qax A)) by (unfold quadrant; tauto).
  assert (Q3 : quadrant A 0) by (unfold quadrant; tauto).
  pose proof (pidx_valid ins A _ t0 s k (ins s) HA Q0 F0 B0 A0 eq_refl Eb') as V0.
  pose proof (pidx_valid ins A _ t1 s k (ins s) HA Q1 F1 B1 A1 eq_refl Eb') as V1.
  pose proof (pidx_valid ins A _ t2 s k (ins s) HA Q2 F2 B2 A2 eq_refl Eb') as V2.
  pose proof (pidx_valid ins A _ t3 s k (ins s) HA Q3 F3 B3 A3 eq_refl Eb') as V3.
  unfold pidx, dirE in V0, V1, V2, V3. change (0 + A) with A in V3.
  cbn [map nth fst snd].
  assert (K : forall a b c : overtex, 0 <= snd a -> 0 <= snd b -> 0 <= snd c -> Forall vvalid (push_tri a b c)).
  { intros a b c Ha Hb Hc. apply push_tri_Forall. intros _ v [-> | [-> | ->]]; assumption. }
  destruct (ins s); destruct (diag _ _ _ _); apply Forall_app; split; apply K; cbn [snd]; assumption.
Qed.

Theorem mesh_vertices_valid : forall ins t k diag, oconsistent ins t (0, 0, 0) k ->
  forall tr v, In tr (mesh_walk diag t) -> (v = fst (fst tr) \/ v = snd (fst tr) \/ v = snd tr) -> 0 <= snd v.
Proof.
  intros ins t k diag C tr v H.
  assert (F : Forall vvalid (mesh_walk diag t)).
  { unfold mesh_walk. apply (walk3_P ins diag vvalid) with (o := (0, 0, 0)) (k := k); [|exact C|lia].
    intros A s k0 t0 t1 t2 t3. apply load3_vvalid. }
  rewrite Forall_forall in F. exact (F tr H v).
Qed.

(* ------------------------------------------------------------------------- *)
(** * 5. Non-vacuity and necessity *)

(** The whole pipeline for EVERY sign function with a clear boundary, every depth, every numerical
    oracle and every choice of diagonals: prune, collapse (collectChildren), walk -- the triangle soup
    is watertight and consistently oriented. *)
Corollary adaptive_dc_pipeline_closed : forall ins ok k diag,
  oboundary_clear ins k -> oclosed_mesh (mesh_walk diag (ocollect ok k [] (obuild ins k (0, 0, 0)))).
Proof.
  intros ins ok k diag BC. apply (walk3_closed ins _ k); [|exact BC].
  apply ocollect_consistent. apply obuild_consistent.
Qed.

Corollary adaptive_dc_pipeline_valid : forall ins ok k diag tr,
  In tr (mesh_walk diag (ocollect ok k [] (obuild ins k (0, 0, 0)))) ->
  (let '(a, b, c) := tr in a <> b /\ b <> c /\ a <> c) /\
  (forall v, (v = fst (fst tr) \/ v = snd (fst tr) \/ v = snd tr) -> 0 <= snd v).
Proof.
  intros ins ok k diag tr H. split; [exact (mesh_no_degenerate _ _ _ H)|].
  intros v Hv. apply (mesh_vertices_valid ins _ k diag (ocollect_consistent _ _ _ _ _ _ (obuild_consistent ins k (0, 0, 0))) tr v H Hv).
Qed.

(** (b) 8 x 8 x 8 lattice: the box [2,5]^3 with a one-point bump at (6,3,3).  After collectChildren seven
    of the eight octants are collapsed leaves of level 2; the octant with the bump keeps three collapsed
    leaves of level 1 and eight leaves of level 0 (some with FILLED siblings): leaves of levels 2, 1 and 0
    are neighbours. *)
Definition inr (a b x : Z) : bool := (a <=? x) && (x <=? b).
Definition ins_bump (q : pt3) : bool :=
  let '(x, y, z) := q in (inr 2 5 x && inr 2 5 y && inr 2 5 z) || ((x =? 6) && (y =? 3) && (z =? 3)).
Definition bump_tree : otree := ocollect (fun _ => true) 3 [] (obuild ins_bump 3 (0, 0, 0)).

Example bump_tree_eq :
  bump_tree =
  OB (OA 2 128 true)
     (OB (OA 1 64 true) OE (OA 1 80 true) OE (OA 1 68 true) OE
         (OB OF (OA 0 213 true) OF (OA 0 117 true) OF (OA 0 93 true) OF (OA 0 87 true))
         (OB (OA 0 64 true) OE (OA 0 16 true) OE (OA 0 4 true) OE (OA 0 1 true) OE))
     (OA 2 32 true) (OA 2 16 true) (OA 2 8 true) (OA 2 4 true) (OA 2 2 true) (OA 2 1 true).
Proof. vm_compute. reflexivity. Qed.

Example bump_checks :
  oconsistentb ins_bump bump_tree (0, 0, 0) 3 = true /\ oboundary_clearb ins_bump 3 = true /\
  length (mesh_walk (fun _ _ _ _ => true) bump_tree) = 32%nat /\
  oclosed_meshb (mesh_walk (fun _ _ _ _ => true) bump_tree) = true /\
  oclosed_meshb (mesh_walk (fun _ _ _ _ => false) bump_tree) = true /\
  (* a triangle joining the level-2 leaf [3] to the level-0 leaves [3;6;1] and [7;6;1], one joining the
     level-2 leaf [0] to the level-1 leaves [0;1] and [4;1], one joining levels 1, 0, 0 *)
  In (([3; 6; 1], 0), ([3], 0), ([7; 6; 1], 0)) (mesh_walk (fun _ _ _ _ => true) bump_tree) /\
  In (([0], 0), ([0; 1], 0), ([4; 1], 0)) (mesh_walk (fun _ _ _ _ => true) bump_tree) /\
  In (([4; 1], 0), ([1; 6; 1], 0), ([5; 6; 1], 0)) (mesh_walk (fun _ _ _ _ => true) bump_tree).
Proof.
  vm_compute. repeat split; try reflexivity; repeat (first [left; reflexivity | right]).
Qed.

Example bump_closed : forall diag, oclosed_mesh (mesh_walk diag bump_tree).
Proof.
  intros diag. apply adaptive_dc_pipeline_closed. apply oboundary_clearb_sound. vm_compute. reflexivity.
Qed.

(* the same through the executable checkers on the tree itself (as the correspondence stage does on
   the implementation's own trees) *)
Example bump_closed_checked : forall diag, oclosed_mesh (mesh_walk diag bump_tree).
Proof.
  intros diag. apply (walk3_closed ins_bump bump_tree 3).
  - apply oconsistentb_sound. vm_compute. reflexivity.
  - apply oboundary_clearb_sound. vm_compute. reflexivity.
Qed.

(** (c) the clear boundary is needed: a solid touching the region boundary leaves unpaired edges *)
Definition ins_touch (q : pt3) : bool := let '(x, y, z) := q in (x =? 0) && (y =? 1) && (z =? 1).

Example oboundary_clear_needed :
  let t := obuild ins_touch 1 (0, 0, 0) in
  let m := mesh_walk (fun _ _ _ _ => true) t in
  t = OB (OA 0 64 true) OE (OA 0 16 true) OE (OA 0 4 true) OE (OA 0 1 true) OE /\
  oconsistentb ins_touch t (0, 0, 0) 1 = true /\ oboundary_clearb ins_touch 1 = false /\
  m = [(([0], 0), ([2], 0), ([4], 0)); (([4], 0), ([2], 0), ([6], 0))] /\
  oclosed_meshb m = false /\
  ocount (([0], 0), ([2], 0)) (odedges m) = 1%nat /\ ocount (([2], 0), ([0], 0)) (odedges m) = 0%nat /\
  ~ oclosed_mesh m.
Proof.
  cbv zeta. repeat split; try (vm_compute; reflexivity).
  intros H. specialize (H (([0], 0), ([2], 0))). vm_compute in H. discriminate H.
Qed.

(* ------------------------------------------------------------------------- *)
Print Assumptions ocollect_consistent.
Print Assumptions ocollect_height.
Print Assumptions walk3_closed.
Print Assumptions walk3_calls.
Print Assumptions mesh_no_degenerate.
Print Assumptions mesh_vertices_valid.
Print Assumptions oconsistentb_sound.
Print Assumptions oboundary_clearb_sound.
Print Assumptions oclosed_meshb_sound.
Print Assumptions obuild_consistent.
Print Assumptions adaptive_dc_pipeline_closed.
Print Assumptions adaptive_dc_pipeline_valid.
Print Assumptions bump_closed.
Print Assumptions oboundary_clear_needed.
Print Assumptions ocorners_manifold_spec.
Print Assumptions ocorners_manifold_connected.
