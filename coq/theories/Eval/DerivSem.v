(* Real-number meaning of the forward-mode derivative kernels (Eval/Deriv.v) and of the
   derivative pass over a tape (Eval/EvalState.v).

   0. [dkern1]: the kernel on one component; [dkern_pr1/2/3], [dkern_componentwise]:
      [dkern] is [dkern1] on each of the three components; [dpass1_proj]: so is the pass.
   1. [RD : ops R], [vk], [dk := dkern1 RD false], [smooth_at], [const_b], [kernel_correct]:
      the one-dimensional chain rule for EVERY opcode (all 33 constructors; opcodes without
      a kernel have value 0 and derivative 0).
      Choices: pow x y = powerRZ x (Int_part y) when y is integer-valued, Rpower x y otherwise
      ([Rpow]); nth_root x n = Rpower x (/n) for 0 < x, - Rpower (-x) (/n) for x < 0 ([Rnth_root]);
      atan2 y x by cases on the signs ([Ratan2]); mod a b = a - b * floor (a / b) ([Rmod]).
      Side conditions: see [smooth_at]; pow / nth_root / mod need a locally constant second
      argument ([const_b]), because their kernels ignore [bd] ([mod_moving_divisor] shows the
      condition is necessary for mod; [mod_kernel_bd0]: bd = 0 is enough for mod).
      Not covered: atan2 on the line x = 0 and on the negative x axis; nth_root at 0 and for
      negative base with exponent not odd; pow with non-integer exponent at base <= 0.
   2. [deriv_correct] (whole well-formed tapes, any differentiable leaf functions),
      [tape_smooth] / [tape_smooth_pt] / [tape_smooth_of_pt], [partial_correct],
      [gradient_correct_gen], [gradient_correct_pt], [gradient_correct] (x y z),
      [jacobian_correct], [jacobian3_correct] (free variables, clear_vars = true, tapes
      without CONST_VAR).
   3. [const_var_zero], [const_var_pass] (+ scalar versions).
   4. [minmax_branch], [min_branch], [max_branch].
   5. [inside_nonzero]. *)
From Coq Require Import Reals Lra Lia List Bool ZArith.
From Coquelicot Require Import Coquelicot.
From LF Require Import Base.Opcode Base.Num Eval.Deck Eval.EvalState Eval.Deriv.
Import ListNotations.
Local Open Scope R_scope.

(* ------------------------------------------------------------------ *)
(* 0. the scalar kernel; [dkern] acts componentwise                    *)
(* ------------------------------------------------------------------ *)

Section Deriv1.
  Context {num : Type} (O : ops num).

  (* [dkern] of Deriv.v with the triple replaced by one number *)
  Definition dkern1 (clear_vars : bool) (op : opcode) (av bv ov ad bd : num) : num :=
    match op with
    | OP_ADD => o_add O ad bd
    | OP_MUL => o_add O (o_mul O bd av) (o_mul O ad bv)
    | OP_MIN => if o_ltb O av bv then ad else bd
    | OP_MAX => if o_ltb O av bv then bd else ad
    | OP_SUB => o_sub O ad bd
    | OP_DIV => o_div O (o_sub O (o_mul O ad bv) (o_mul O bd av)) (sq O bv)
    | OP_ATAN2 => o_div O (o_sub O (o_mul O ad bv) (o_mul O bd av)) (o_add O (sq O av) (sq O bv))
    | OP_POW => o_mul O ad (o_mul O bv (o_bin O OP_POW av (o_sub O bv (o_one O))))
    | OP_NTH_ROOT =>
        let odd := o_eqb O (o_bin O OP_MOD bv (two O)) (o_one O) in
        let base := if o_ltb O av (o_zero O) && odd then o_neg O av else av in
        if o_eqb O ad (o_zero O) then o_zero O
        else o_mul O ad (o_div O (o_bin O OP_POW base (o_sub O (o_div O (o_one O) bv) (o_one O))) bv)
    | OP_MOD => ad
    | OP_NANFILL => if o_isnan O av then bd else ad
    | OP_COMPARE => o_zero O
    | OP_SQUARE => o_mul O (o_mul O ad av) (two O)
    | OP_SQRT =>
        if o_ltb O av (o_zero O) || o_eqb O ad (o_zero O) then o_zero O
        else o_div O ad (o_mul O (two O) ov)
    | OP_NEG => o_neg O ad
    | OP_SIN => o_mul O ad (o_un O OP_COS av)
    | OP_COS => o_mul O ad (o_neg O (o_un O OP_SIN av))
    | OP_TAN => o_mul O ad (sq O (o_div O (o_one O) (o_un O OP_COS av)))
    | OP_ASIN => o_div O ad (o_un O OP_SQRT (o_sub O (o_one O) (sq O av)))
    | OP_ACOS => o_div O ad (o_neg O (o_un O OP_SQRT (o_sub O (o_one O) (sq O av))))
    | OP_ATAN => o_div O ad (o_add O (sq O av) (o_one O))
    | OP_LOG => o_div O ad av
    | OP_EXP => o_mul O ad (o_un O OP_EXP av)
    | OP_ABS => if o_ltb O (o_zero O) av then ad else o_neg O ad
    | OP_RECIP => o_div O ad (o_neg O (sq O av))
    | CONST_VAR => if clear_vars then o_zero O else ad
    | _ => o_zero O
    end.

  Definition pr1 (v : @dvec num) : num := let '(x, _, _) := v in x.
  Definition pr2 (v : @dvec num) : num := let '(_, y, _) := v in y.
  Definition pr3 (v : @dvec num) : num := let '(_, _, z) := v in z.

  Lemma dvec_eta (v : @dvec num) : v = (pr1 v, pr2 v, pr3 v).
  Proof. destruct v as [[x y] z]. reflexivity. Qed.

  Ltac componentwise :=
    intros cv op av bv ov [[ax ay] az] [[bx by_] bz];
    destruct op; simpl; try reflexivity;
    repeat match goal with |- context [if ?c then _ else _] => destruct c end; reflexivity.

  (* the three components of the derivative are computed identically *)
  Lemma dkern_pr1 : forall cv op av bv ov ad bd,
    pr1 (dkern O cv op av bv ov ad bd) = dkern1 cv op av bv ov (pr1 ad) (pr1 bd).
  Proof. componentwise. Qed.
  Lemma dkern_pr2 : forall cv op av bv ov ad bd,
    pr2 (dkern O cv op av bv ov ad bd) = dkern1 cv op av bv ov (pr2 ad) (pr2 bd).
  Proof. componentwise. Qed.
  Lemma dkern_pr3 : forall cv op av bv ov ad bd,
    pr3 (dkern O cv op av bv ov ad bd) = dkern1 cv op av bv ov (pr3 ad) (pr3 bd).
  Proof. componentwise. Qed.

  Theorem dkern_componentwise cv op av bv ov ad bd :
    dkern O cv op av bv ov ad bd =
      (dkern1 cv op av bv ov (pr1 ad) (pr1 bd),
       dkern1 cv op av bv ov (pr2 ad) (pr2 bd),
       dkern1 cv op av bv ov (pr3 ad) (pr3 bd)).
  Proof.
    rewrite (dvec_eta (dkern O cv op av bv ov ad bd)).
    rewrite dkern_pr1, dkern_pr2, dkern_pr3. reflexivity.
  Qed.

  (* hence the derivative pass over a tape commutes with each projection *)
  Lemma dpass1_proj (pr : @dvec num -> num) cv
        (Hpr : forall op av bv ov ad bd,
            pr (dkern O cv op av bv ov ad bd) = dkern1 cv op av bv ov (pr ad) (pr bd))
        (p : nat -> num) :
    forall (l : list clause) (q : nat -> @dvec num) s,
      pr (fold_left (dclause1 (dkern O cv) p) l q s)
      = fold_left (dclause1 (dkern1 cv) p) l (fun s => pr (q s)) s.
  Proof.
    induction l as [|c l IH]; intros q s; simpl; [reflexivity|].
    rewrite IH. apply dfold1_ext; [reflexivity|].
    intros s'. unfold dclause1, pset. destruct (Nat.eqb s' (c_id c)); [apply Hpr|reflexivity].
  Qed.

  (* 3. CONST_VAR *)
  Theorem const_var_zero av bv ov ad bd : dkern O true CONST_VAR av bv ov ad bd = dzero O.
  Proof. reflexivity. Qed.
  Theorem const_var_pass av bv ov ad bd : dkern O false CONST_VAR av bv ov ad bd = ad.
  Proof. reflexivity. Qed.
  Theorem const_var_zero1 av bv ov ad bd : dkern1 true CONST_VAR av bv ov ad bd = o_zero O.
  Proof. reflexivity. Qed.
  Theorem const_var_pass1 av bv ov ad bd : dkern1 false CONST_VAR av bv ov ad bd = ad.
  Proof. reflexivity. Qed.
  (* away from CONST_VAR the flag is not read *)
  Lemma dkern1_flag cv cv' op av bv ov ad bd :
    op <> CONST_VAR -> dkern1 cv op av bv ov ad bd = dkern1 cv' op av bv ov ad bd.
  Proof. intros H. destruct op; try reflexivity. congruence. Qed.

  (* 4. min / max: the result is exactly the gradient of one of the two branches,
     tie or not; which one is decided by [av < bv] alone *)
  Theorem minmax_branch cv op av bv ov ad bd :
    op = OP_MIN \/ op = OP_MAX ->
    dkern O cv op av bv ov ad bd = ad \/ dkern O cv op av bv ov ad bd = bd.
  Proof. intros [-> | ->]; simpl; destruct (o_ltb O av bv); auto. Qed.
  Theorem min_branch cv av bv ov ad bd :
    dkern O cv OP_MIN av bv ov ad bd = if o_ltb O av bv then ad else bd.
  Proof. reflexivity. Qed.
  Theorem max_branch cv av bv ov ad bd :
    dkern O cv OP_MAX av bv ov ad bd = if o_ltb O av bv then bd else ad.
  Proof. reflexivity. Qed.
End Deriv1.

(* ------------------------------------------------------------------ *)
(* 1. the real instance                                                *)
(* ------------------------------------------------------------------ *)

(* pow: integer-valued exponents use [powerRZ] (so negative bases are fine, as in C's
   pow), every other exponent uses [Rpower x y = exp (y * ln x)] (meaningful for 0 < x). *)
Definition is_intR (y : R) : Prop := y = IZR (Int_part y).
Definition Rpow (x y : R) : R :=
  if Req_EM_T y (IZR (Int_part y)) then powerRZ x (Int_part y) else Rpower x y.
(* nth_root: [Rpower x (/n)] for 0 < x, 0 at 0, the odd real root below 0 (for even n the
   C++ value is NaN; nothing is claimed there) *)
Definition Rnth_root (x n : R) : R :=
  if Rlt_dec 0 x then Rpower x (/ n)
  else if Req_EM_T x 0 then 0 else - Rpower (- x) (/ n).
(* atan2 y x *)
Definition Ratan2 (y x : R) : R :=
  if Rlt_dec 0 x then atan (y / x)
  else if Rlt_dec x 0 then (if Rle_dec 0 y then atan (y / x) + PI else atan (y / x) - PI)
  else if Rlt_dec 0 y then PI / 2 else if Rlt_dec y 0 then - PI / 2 else 0.
(* mod a b = a - b * floor (a / b) *)
Definition Rmod (a b : R) : R := a - b * IZR (Int_part (a / b)).
Definition Rcompare (a b : R) : R :=
  if Rlt_dec a b then -1 else if Rlt_dec b a then 1 else 0.

Definition RD_un (op : opcode) (a : R) : R :=
  match op with
  | OP_SQUARE => a * a
  | OP_SQRT => sqrt a
  | OP_NEG => - a
  | OP_SIN => sin a
  | OP_COS => cos a
  | OP_TAN => tan a
  | OP_ASIN => asin a
  | OP_ACOS => acos a
  | OP_ATAN => atan a
  | OP_EXP => exp a
  | OP_LOG => ln a
  | OP_ABS => Rabs a
  | OP_RECIP => / a
  | CONST_VAR => a
  | _ => 0
  end.

Definition RD_bin (op : opcode) (a b : R) : R :=
  match op with
  | OP_ADD => a + b
  | OP_MUL => a * b
  | OP_MIN => Rmin a b
  | OP_MAX => Rmax a b
  | OP_SUB => a - b
  | OP_DIV => a / b
  | OP_ATAN2 => Ratan2 a b
  | OP_POW => Rpow a b
  | OP_NTH_ROOT => Rnth_root a b
  | OP_MOD => Rmod a b
  | OP_NANFILL => a
  | OP_COMPARE => Rcompare a b
  | _ => 0
  end.

Definition RD : ops R :=
  {| o_un := RD_un; o_bin := RD_bin; o_zero := 0; o_one := 1;
     o_eqb := fun a b => if Req_EM_T a b then true else false;
     o_ltb := fun a b => if Rlt_dec a b then true else false;
     o_isnan := fun _ => false |}.

(* the value kernel of one clause and the scalar derivative kernel *)
Definition vk (op : opcode) (a b : R) : R :=
  match args op with Some 1%nat => o_un RD op a | _ => o_bin RD op a b end.
Definition dk : opcode -> R -> R -> R -> R -> R -> R := dkern1 RD false.

(* --- facts on the auxiliary functions --- *)

Lemma Int_part_IZR n : Int_part (IZR n) = n.
Proof.
  unfold Int_part. rewrite <- (tech_up (IZR n) (n + 1)).
  - lia.
  - rewrite plus_IZR. lra.
  - rewrite plus_IZR. lra.
Qed.

Lemma Rpow_IZR x n : Rpow x (IZR n) = powerRZ x n.
Proof.
  unfold Rpow. rewrite Int_part_IZR. destruct (Req_EM_T (IZR n) (IZR n)); [reflexivity|congruence].
Qed.

Lemma Rpow_pos x y : 0 < x -> Rpow x y = Rpower x y.
Proof.
  intros Hx. unfold Rpow. destruct (Req_EM_T y (IZR (Int_part y))) as [E|_]; [|reflexivity].
  rewrite (powerRZ_Rpower x _ Hx), <- E. reflexivity.
Qed.

Lemma Rpow_two x : Rpow x (1 + 1) = x * x.
Proof. replace (1 + 1) with (IZR 2) by (simpl; lra). rewrite Rpow_IZR. simpl. ring. Qed.

Lemma sq_RD x : sq RD x = x * x.
Proof. unfold sq, two, o_add. simpl. apply Rpow_two. Qed.

Lemma two_RD : two RD = 2.
Proof. unfold two, o_add. simpl. lra. Qed.

Lemma is_derive_eq (f : R -> R) (x l l' : R) : is_derive f x l -> l = l' -> is_derive f x l'.
Proof. intros H <-. exact H. Qed.

(* d/dx x^n for integer n *)
Lemma is_derive_powerRZ n x :
  ((0 <= n)%Z \/ x <> 0) -> is_derive (fun x => powerRZ x n) x (IZR n * powerRZ x (n - 1)).
Proof.
  intros H. destruct n as [|p|p].
  - simpl. apply (is_derive_eq _ _ 0); [apply @is_derive_const | ring].
  - simpl powerRZ at 1.
    eapply is_derive_eq; [apply (is_derive_pow (fun x => x) (Pos.to_nat p) x 1), @is_derive_id|].
    replace (IZR (Z.pos p)) with (INR (Pos.to_nat p)) by (rewrite INR_IZR_INZ, positive_nat_Z; reflexivity).
    replace (Z.pos p - 1)%Z with (Z.of_nat (Nat.pred (Pos.to_nat p))) by lia.
    rewrite <- pow_powerRZ. ring.
  - assert (Hx : x <> 0) by (destruct H as [H|H]; [lia|exact H]).
    simpl powerRZ at 1.
    eapply is_derive_eq.
    { apply (is_derive_inv (fun x => x ^ Pos.to_nat p) x).
      - apply (is_derive_pow (fun x => x) (Pos.to_nat p) x 1), @is_derive_id.
      - apply pow_nonzero, Hx. }
    replace (Z.neg p - 1)%Z with (Z.neg (p + 1)) by lia.
    simpl powerRZ. rewrite Pos2Nat.inj_add. change (Pos.to_nat 1) with 1%nat.
    replace (IZR (Z.neg p)) with (- INR (Pos.to_nat p)).
    2:{ rewrite INR_IZR_INZ, positive_nat_Z. reflexivity. }
    destruct (Pos2Nat.is_succ p) as [k Ek]. rewrite Ek. simpl Nat.pred.
    replace (S k + 1)%nat with (S (S k)) by lia.
    simpl pow. field. split; [apply pow_nonzero|]; exact Hx.
Qed.

(* --- local reasoning --- *)

Lemma cont_of_derive (f : R -> R) (t l : R) : is_derive f t l -> continuous f t.
Proof. intros H. apply (ex_derive_continuous f t). exists l. exact H. Qed.

Lemma loc_lt_const (f : R -> R) (t c : R) :
  continuous f t -> f t < c -> locally t (fun s => f s < c).
Proof. intros Hc H. apply (Hc (fun y => y < c)). apply (open_lt c). exact H. Qed.

Lemma loc_gt_const (f : R -> R) (t c : R) :
  continuous f t -> c < f t -> locally t (fun s => c < f s).
Proof. intros Hc H. apply (Hc (fun y => c < y)). apply (open_gt c). exact H. Qed.

Lemma loc_lt (f g : R -> R) (t : R) :
  continuous f t -> continuous g t -> f t < g t -> locally t (fun s => f s < g s).
Proof.
  intros Hf Hg H.
  pose (m := (f t + g t) / 2).
  assert (L1 : locally t (fun s => f s < m)) by (apply loc_lt_const; [exact Hf | unfold m; lra]).
  assert (L2 : locally t (fun s => m < g s)) by (apply loc_gt_const; [exact Hg | unfold m; lra]).
  generalize (filter_and _ _ L1 L2). apply filter_imp. intros s [A B]. lra.
Qed.

Lemma ext_loc_R (f g : R -> R) (x l : R) :
  locally x (fun t : R => f t = g t) -> is_derive f x l -> is_derive g x l.
Proof. exact (is_derive_ext_loc f g x l). Qed.

Lemma chain1 (F a : R -> R) (t ad F' l : R) :
  is_derive a t ad -> is_derive F (a t) F' -> ad * F' = l -> is_derive (fun s => F (a s)) t l.
Proof. intros Ha HF <-. exact (is_derive_comp F a t F' ad HF Ha). Qed.

(* --- the non-elementary kernels, one lemma each --- *)

Lemma derive_min (a b : R -> R) (t ad bd : R) :
  is_derive a t ad -> is_derive b t bd -> a t <> b t ->
  is_derive (fun s => Rmin (a s) (b s)) t (if Rlt_dec (a t) (b t) then ad else bd).
Proof.
  intros Ha Hb Hne.
  pose proof (cont_of_derive _ _ _ Ha) as Ca. pose proof (cont_of_derive _ _ _ Hb) as Cb.
  destruct (Rlt_dec (a t) (b t)) as [L|L].
  - apply (ext_loc_R a); [|exact Ha].
    generalize (loc_lt a b t Ca Cb L). apply filter_imp. intros s Hs.
    symmetry. apply Rmin_left. lra.
  - apply (ext_loc_R b); [|exact Hb].
    assert (L' : b t < a t) by lra.
    generalize (loc_lt b a t Cb Ca L'). apply filter_imp. intros s Hs.
    symmetry. apply Rmin_right. lra.
Qed.

Lemma derive_max (a b : R -> R) (t ad bd : R) :
  is_derive a t ad -> is_derive b t bd -> a t <> b t ->
  is_derive (fun s => Rmax (a s) (b s)) t (if Rlt_dec (a t) (b t) then bd else ad).
Proof.
  intros Ha Hb Hne.
  pose proof (cont_of_derive _ _ _ Ha) as Ca. pose proof (cont_of_derive _ _ _ Hb) as Cb.
  destruct (Rlt_dec (a t) (b t)) as [L|L].
  - apply (ext_loc_R b); [|exact Hb].
    generalize (loc_lt a b t Ca Cb L). apply filter_imp. intros s Hs.
    symmetry. apply Rmax_right. lra.
  - apply (ext_loc_R a); [|exact Ha].
    assert (L' : b t < a t) by lra.
    generalize (loc_lt b a t Cb Ca L'). apply filter_imp. intros s Hs.
    symmetry. apply Rmax_left. lra.
Qed.

Lemma derive_compare (a b : R -> R) (t ad bd : R) :
  is_derive a t ad -> is_derive b t bd -> a t <> b t ->
  is_derive (fun s => Rcompare (a s) (b s)) t 0.
Proof.
  intros Ha Hb Hne.
  pose proof (cont_of_derive _ _ _ Ha) as Ca. pose proof (cont_of_derive _ _ _ Hb) as Cb.
  apply (ext_loc_R (fun _ => Rcompare (a t) (b t))); [|apply @is_derive_const].
  destruct (Rlt_dec (a t) (b t)) as [L|L].
  - generalize (loc_lt a b t Ca Cb L). apply filter_imp. intros s Hs.
    unfold Rcompare. destruct (Rlt_dec (a t) (b t)); [|lra]. destruct (Rlt_dec (a s) (b s)); [reflexivity|lra].
  - assert (L' : b t < a t) by lra.
    generalize (loc_lt b a t Cb Ca L'). apply filter_imp. intros s Hs.
    unfold Rcompare. destruct (Rlt_dec (a t) (b t)); [lra|]. destruct (Rlt_dec (a s) (b s)); [lra|].
    destruct (Rlt_dec (b t) (a t)); [|lra]. destruct (Rlt_dec (b s) (a s)); [reflexivity|lra].
Qed.

Lemma derive_abs (a : R -> R) (t ad : R) :
  is_derive a t ad -> a t <> 0 ->
  is_derive (fun s => Rabs (a s)) t (if Rlt_dec 0 (a t) then ad else - ad).
Proof.
  intros Ha Hne. eapply is_derive_eq; [apply (is_derive_Rabs a t ad Ha Hne)|].
  destruct (Rlt_dec 0 (a t)) as [L|L].
  - rewrite sign_eq_1 by exact L. ring.
  - rewrite sign_eq_m1 by lra. ring.
Qed.

Lemma is_derive_asin x : -1 < x < 1 -> is_derive asin x (/ sqrt (1 - x * x)).
Proof.
  intros H. apply is_derive_Reals.
  apply (derive_pt_eq_1 asin x _ (derivable_pt_asin x H)).
  rewrite derive_pt_asin. unfold Rsqr, Rdiv. ring.
Qed.

Lemma is_derive_acos x : -1 < x < 1 -> is_derive acos x (/ - sqrt (1 - x * x)).
Proof.
  intros H. apply is_derive_Reals.
  apply (derive_pt_eq_1 acos x _ (derivable_pt_acos x H)).
  rewrite derive_pt_acos. unfold Rsqr, Rdiv.
  assert (0 < sqrt (1 - x * x)) by (apply sqrt_lt_R0; nra).
  field. lra.
Qed.

Lemma is_derive_Rpower_l (x y : R) : 0 < x -> is_derive (fun x => Rpower x y) x (y * Rpower x (y - 1)).
Proof. intros H. apply is_derive_Reals, derivable_pt_lim_power, H. Qed.

Lemma derive_pow (a b : R -> R) (t ad : R) :
  is_derive a t ad -> locally t (fun s => b s = b t) ->
  (is_intR (b t) /\ (b t < 1 -> a t <> 0)) \/ 0 < a t ->
  is_derive (fun s => Rpow (a s) (b s)) t (ad * (b t * Rpow (a t) (b t - 1))).
Proof.
  intros Ha Hb Hs.
  apply (ext_loc_R (fun s => Rpow (a s) (b t))).
  { generalize Hb. apply filter_imp. intros s ->. reflexivity. }
  destruct Hs as [[Hi Hz]|Hp].
  - unfold is_intR in Hi. set (n := Int_part (b t)) in *. rewrite Hi.
    replace (IZR n - 1) with (IZR (n - 1)) by (rewrite minus_IZR; reflexivity).
    rewrite Rpow_IZR.
    apply (is_derive_ext (fun s => powerRZ (a s) n)).
    { intros s. rewrite Rpow_IZR. reflexivity. }
    apply (chain1 (fun x => powerRZ x n) a t ad (IZR n * powerRZ (a t) (n - 1))); [exact Ha| |reflexivity].
    apply is_derive_powerRZ.
    destruct (Rlt_dec (b t) 1) as [L|L]; [right; apply Hz, L|left].
    assert (1 <= IZR n) by lra. apply le_IZR in H. lia.
  - rewrite (Rpow_pos _ _ Hp).
    apply (ext_loc_R (fun s => Rpower (a s) (b t))).
    { generalize (loc_gt_const a t 0 (cont_of_derive _ _ _ Ha) Hp). apply filter_imp.
      intros s Hs. symmetry. apply Rpow_pos, Hs. }
    apply (chain1 (fun x => Rpower x (b t)) a t ad (b t * Rpower (a t) (b t - 1))); [exact Ha| |reflexivity].
    apply is_derive_Rpower_l, Hp.
Qed.

Lemma Rpower_m1 x y : 0 < x -> Rpower x (y - 1) = Rpower x y / x.
Proof.
  intros H. unfold Rminus. rewrite Rpower_plus, Rpower_Ropp, Rpower_1 by exact H. reflexivity.
Qed.

(* the kernel expression of nth_root, as dkern1 RD computes it *)
Definition nth_root_kern (av bv ad : R) : R :=
  let odd := if Req_EM_T (Rmod bv 2) 1 then true else false in
  let base := if (if Rlt_dec av 0 then true else false) && odd then - av else av in
  if (if Req_EM_T ad 0 then true else false) then 0 else ad * (Rpow base (1 / bv - 1) / bv).

Lemma derive_nth_root (a b : R -> R) (t ad : R) :
  is_derive a t ad -> locally t (fun s => b s = b t) ->
  b t <> 0 -> (0 < a t \/ (a t < 0 /\ Rmod (b t) 2 = 1)) ->
  is_derive (fun s => Rnth_root (a s) (b s)) t (nth_root_kern (a t) (b t) ad).
Proof.
  intros Ha Hb Hn Hs.
  pose proof (cont_of_derive _ _ _ Ha) as Ca.
  apply (ext_loc_R (fun s => Rnth_root (a s) (b t))).
  { generalize Hb. apply filter_imp. intros s ->. reflexivity. }
  set (n := b t) in *. unfold nth_root_kern.
  destruct Hs as [Hp|[Hneg Hodd]].
  - destruct (Rlt_dec (a t) 0) as [L|_]; [lra|]. cbv [andb].
    apply (ext_loc_R (fun s => Rpower (a s) (/ n))).
    { generalize (loc_gt_const a t 0 Ca Hp). apply filter_imp. intros s Hs.
      unfold Rnth_root. destruct (Rlt_dec 0 (a s)); [reflexivity|lra]. }
    apply (chain1 (fun x => Rpower x (/ n)) a t ad (/ n * Rpower (a t) (/ n - 1)));
      [exact Ha|apply is_derive_Rpower_l, Hp|].
    rewrite (Rpow_pos _ _ Hp). replace (1 / n - 1) with (/ n - 1) by (unfold Rdiv; ring).
    destruct (Req_EM_T ad 0) as [->|_]; [ring|]. field. exact Hn.
  - destruct (Rlt_dec (a t) 0) as [_|L]; [|lra].
    destruct (Req_EM_T (Rmod n 2) 1) as [_|N]; [|contradiction]. cbv [andb].
    apply (ext_loc_R (fun s => - Rpower (- a s) (/ n))).
    { generalize (loc_lt_const a t 0 Ca Hneg). apply filter_imp. intros s Hs.
      unfold Rnth_root. destruct (Rlt_dec 0 (a s)); [lra|].
      destruct (Req_EM_T (a s) 0); [lra|reflexivity]. }
    assert (Hp : 0 < - a t) by lra.
    assert (Hna : is_derive (fun s => - a s) t (- ad)) by (apply @is_derive_opp, Ha).
    eapply is_derive_eq.
    { apply @is_derive_opp.
      apply (chain1 (fun x => Rpower x (/ n)) (fun s => - a s) t (- ad) (/ n * Rpower (- a t) (/ n - 1)));
        [exact Hna|apply is_derive_Rpower_l, Hp|reflexivity]. }
    rewrite (Rpow_pos _ _ Hp). replace (1 / n - 1) with (/ n - 1) by (unfold Rdiv; ring).
    unfold opp; simpl.
    destruct (Req_EM_T ad 0) as [->|_]; [ring|]. field. exact Hn.
Qed.

(* floor is locally constant away from the integers *)
Lemma Int_part_unique (y : R) (k : Z) : IZR k <= y < IZR k + 1 -> Int_part y = k.
Proof.
  intros [H1 H2]. unfold Int_part. rewrite <- (tech_up y (k + 1)).
  - lia.
  - rewrite plus_IZR. lra.
  - rewrite plus_IZR. lra.
Qed.

Lemma Int_part_loc (f : R -> R) (t : R) :
  continuous f t -> ~ is_intR (f t) -> locally t (fun s => Int_part (f s) = Int_part (f t)).
Proof.
  intros Cf Hni. unfold is_intR in Hni. set (k := Int_part (f t)) in *.
  destruct (base_Int_part (f t)) as [B1 B2]. fold k in B1, B2.
  assert (L1 : IZR k < f t) by lra. assert (L2 : f t < IZR k + 1) by lra.
  generalize (filter_and _ _ (loc_gt_const f t _ Cf L1) (loc_lt_const f t _ Cf L2)).
  apply filter_imp. intros s [A B]. apply Int_part_unique. lra.
Qed.

Lemma derive_mod (a b : R -> R) (t ad bd : R) :
  is_derive a t ad -> is_derive b t bd -> b t <> 0 -> ~ is_intR (a t / b t) ->
  is_derive (fun s => Rmod (a s) (b s)) t (ad - bd * IZR (Int_part (a t / b t))).
Proof.
  intros Ha Hb Hn Hni.
  pose proof (is_derive_div a b t ad bd Ha Hb Hn) as Hq.
  pose proof (cont_of_derive _ _ _ Hq) as Cq.
  set (k := Int_part (a t / b t)).
  apply (ext_loc_R (fun s => a s - IZR k * b s)).
  { generalize (Int_part_loc (fun s => a s / b s) t Cq Hni). apply filter_imp.
    intros s Hs. unfold Rmod. rewrite Hs. unfold k. ring. }
  eapply is_derive_eq.
  { apply @is_derive_minus; [exact Ha|].
    apply (is_derive_scal b t (IZR k) bd). exact Hb. }
  unfold minus, plus, opp, scal; simpl. unfold mult; simpl. ring.
Qed.

Lemma derive_atan_div (a b : R -> R) (t ad bd : R) :
  is_derive a t ad -> is_derive b t bd -> b t <> 0 ->
  is_derive (fun s => atan (a s / b s)) t ((ad * b t - bd * a t) / (a t * a t + b t * b t)).
Proof.
  intros Ha Hb Hn.
  pose proof (is_derive_div a b t ad bd Ha Hb Hn) as Hq.
  apply (chain1 atan (fun s => a s / b s) t _ _ _ Hq (is_derive_atan _)).
  unfold Rsqr. field. split; [nra|exact Hn].
Qed.

Lemma derive_atan2 (a b : R -> R) (t ad bd : R) :
  is_derive a t ad -> is_derive b t bd ->
  (0 < b t \/ (b t < 0 /\ a t <> 0)) ->
  is_derive (fun s => Ratan2 (a s) (b s)) t ((ad * b t - bd * a t) / (a t * a t + b t * b t)).
Proof.
  intros Ha Hb Hs.
  pose proof (cont_of_derive _ _ _ Ha) as Ca. pose proof (cont_of_derive _ _ _ Hb) as Cb.
  destruct Hs as [Hp|[Hneg Hne]].
  - apply (ext_loc_R (fun s => atan (a s / b s))).
    { generalize (loc_gt_const b t 0 Cb Hp). apply filter_imp. intros s Hs.
      unfold Ratan2. destruct (Rlt_dec 0 (b s)); [reflexivity|lra]. }
    apply derive_atan_div; [exact Ha|exact Hb|lra].
  - assert (Hq : is_derive (fun s => atan (a s / b s)) t ((ad * b t - bd * a t) / (a t * a t + b t * b t)))
      by (apply derive_atan_div; [exact Ha|exact Hb|lra]).
    pose proof (loc_lt_const b t 0 Cb Hneg) as Lb.
    destruct (Rlt_dec 0 (a t)) as [Pa|Na].
    + apply (ext_loc_R (fun s => atan (a s / b s) + PI)).
      { generalize (filter_and _ _ Lb (loc_gt_const a t 0 Ca Pa)). apply filter_imp. intros s [Hb' Ha'].
        unfold Ratan2. destruct (Rlt_dec 0 (b s)); [lra|]. destruct (Rlt_dec (b s) 0); [|lra].
        destruct (Rle_dec 0 (a s)); [reflexivity|lra]. }
      eapply is_derive_eq; [apply @is_derive_plus; [exact Hq|apply @is_derive_const]|].
      unfold plus, zero; simpl. ring.
    + assert (Na' : a t < 0) by lra.
      apply (ext_loc_R (fun s => atan (a s / b s) - PI)).
      { generalize (filter_and _ _ Lb (loc_lt_const a t 0 Ca Na')). apply filter_imp. intros s [Hb' Ha'].
        unfold Ratan2. destruct (Rlt_dec 0 (b s)); [lra|]. destruct (Rlt_dec (b s) 0); [|lra].
        destruct (Rle_dec 0 (a s)); [lra|reflexivity]. }
      eapply is_derive_eq; [apply @is_derive_minus; [exact Hq|apply @is_derive_const]|].
      unfold minus, plus, opp, zero; simpl. ring.
Qed.

(* ------------------------------------------------------------------ *)
(* 1. kernel_correct                                                   *)
(* ------------------------------------------------------------------ *)

(* smoothness side condition of one clause at the argument values (a, b) *)
Definition smooth_at (op : opcode) (a b : R) : Prop :=
  match op with
  | OP_SQRT | OP_LOG => 0 < a
  | OP_TAN => cos a <> 0
  | OP_ASIN | OP_ACOS => -1 < a < 1
  | OP_ABS | OP_RECIP => a <> 0
  | OP_MIN | OP_MAX | OP_COMPARE => a <> b
  | OP_DIV => b <> 0
  | OP_ATAN2 => 0 < b \/ (b < 0 /\ a <> 0)
  | OP_POW => (is_intR b /\ (b < 1 -> a <> 0)) \/ 0 < a
  | OP_NTH_ROOT => b <> 0 /\ (0 < a \/ (a < 0 /\ Rmod b 2 = 1))
  | OP_MOD => b <> 0 /\ ~ is_intR (a / b)
  | _ => True
  end.

(* the kernels of these opcodes ignore [bd]: the second argument has to be (locally)
   constant, as libfive's tree constructors guarantee for pow and nth_root *)
Definition const_b (op : opcode) : Prop :=
  match op with OP_POW | OP_NTH_ROOT | OP_MOD => True | _ => False end.

Lemma locally_const_derive0 (b : R -> R) (t bd : R) :
  locally t (fun s => b s = b t) -> is_derive b t bd -> bd = 0.
Proof.
  intros Hl Hb.
  assert (H0 : is_derive b t 0).
  { apply (ext_loc_R (fun _ => b t)); [|apply @is_derive_const].
    generalize Hl. apply filter_imp. intros s ->. reflexivity. }
  rewrite <- (is_derive_unique b t bd Hb). apply (is_derive_unique b t 0 H0).
Qed.

Theorem kernel_correct (op : opcode) (a b : R -> R) (t ad bd : R) :
  is_derive a t ad -> is_derive b t bd ->
  smooth_at op (a t) (b t) ->
  (const_b op -> locally t (fun s => b s = b t)) ->
  is_derive (fun s => vk op (a s) (b s)) t
            (dk op (a t) (b t) (vk op (a t) (b t)) ad bd).
Proof.
  intros Ha Hb Hs Hc.
  destruct op; unfold vk, dk, dkern1; cbn [args o_un o_bin RD RD_un RD_bin smooth_at] in *;
    rewrite ?sq_RD, ?two_RD;
    unfold o_add, o_sub, o_mul, o_div, o_neg; cbn [o_un o_bin o_zero o_one o_ltb o_eqb o_isnan RD RD_un RD_bin].
  1-6: apply @is_derive_const.   (* INVALID CONSTANT VAR_X VAR_Y VAR_Z VAR_FREE: no clause *)
  27: apply @is_derive_const.    (* ORACLE: not modelled *)
  - (* CONST_VAR *) exact Ha.
  - (* SQUARE *)
    eapply is_derive_eq; [apply (is_derive_mult a a t ad ad Ha Ha Rmult_comm)|].
    unfold plus, mult; simpl. ring.
  - (* SQRT *)
    eapply is_derive_eq; [apply (is_derive_sqrt a t ad Ha Hs)|].
    destruct (Rlt_dec (a t) 0); [lra|]. destruct (Req_EM_T ad 0) as [->|]; simpl; [|reflexivity].
    unfold Rdiv; ring.
  - (* NEG *) apply @is_derive_opp, Ha.
  - (* SIN *) apply (chain1 sin a t ad _ _ Ha (is_derive_sin _)). reflexivity.
  - (* COS *) apply (chain1 cos a t ad _ _ Ha (is_derive_cos _)). reflexivity.
  - (* TAN *)
    apply (chain1 tan a t ad _ _ Ha (is_derive_tan _ Hs)).
    f_equal. unfold tan. generalize (sin2_cos2 (a t)). unfold Rsqr. intros E.
    replace (sin (a t) / cos (a t)) with (sin (a t) * (1 / cos (a t))) by (field; exact Hs).
    replace (1 / cos (a t) * (1 / cos (a t)))
      with ((sin (a t) * sin (a t) + cos (a t) * cos (a t)) * (1 / cos (a t) * (1 / cos (a t))))
      by (rewrite E; ring).
    field. exact Hs.
  - (* ASIN *) apply (chain1 asin a t ad _ _ Ha (is_derive_asin _ Hs)). reflexivity.
  - (* ACOS *) apply (chain1 acos a t ad _ _ Ha (is_derive_acos _ Hs)). reflexivity.
  - (* ATAN *)
    apply (chain1 atan a t ad _ _ Ha (is_derive_atan _)). unfold Rsqr, Rdiv. f_equal. f_equal. ring.
  - (* EXP *) apply (chain1 exp a t ad _ _ Ha (is_derive_exp _)). reflexivity.
  - (* ABS *)
    eapply is_derive_eq; [apply (derive_abs a t ad Ha Hs)|]. destruct (Rlt_dec 0 (a t)); reflexivity.
  - (* LOG *) apply (chain1 ln a t ad _ _ Ha (is_derive_ln _ Hs)). reflexivity.
  - (* RECIP *)
    eapply is_derive_eq; [apply (is_derive_inv a t ad Ha Hs)|]. field. exact Hs.
  - (* ADD *) apply @is_derive_plus; assumption.
  - (* MUL *)
    eapply is_derive_eq; [apply (is_derive_mult a b t ad bd Ha Hb Rmult_comm)|].
    unfold plus, mult; simpl. ring.
  - (* MIN *)
    eapply is_derive_eq; [apply (derive_min a b t ad bd Ha Hb Hs)|]. destruct (Rlt_dec (a t) (b t)); reflexivity.
  - (* MAX *)
    eapply is_derive_eq; [apply (derive_max a b t ad bd Ha Hb Hs)|]. destruct (Rlt_dec (a t) (b t)); reflexivity.
  - (* SUB *) apply @is_derive_minus; assumption.
  - (* DIV *)
    eapply is_derive_eq; [apply (is_derive_div a b t ad bd Ha Hb Hs)|]. field. exact Hs.
  - (* ATAN2 *) apply derive_atan2; assumption.
  - (* POW *) apply derive_pow; [exact Ha|apply Hc; exact I|exact Hs].
  - (* NTH_ROOT *)
    destruct Hs as [Hn Hs]. apply (derive_nth_root a b t ad Ha (Hc I) Hn Hs).
  - (* MOD *)
    destruct Hs as [Hn Hs].
    eapply is_derive_eq; [apply (derive_mod a b t ad bd Ha Hb Hn Hs)|].
    rewrite (locally_const_derive0 b t bd (Hc I) Hb). ring.
  - (* NANFILL *) exact Ha.
  - (* COMPARE *) apply (derive_compare a b t ad bd); assumption.
Qed.

(* ------------------------------------------------------------------ *)
(* 2. whole tapes                                                      *)
(* ------------------------------------------------------------------ *)

Lemma NoDup_app_disj {A : Type} (l1 l2 : list A) (x : A) :
  NoDup (l1 ++ l2) -> In x l1 -> In x l2 -> False.
Proof.
  induction l1 as [|y l1 IH]; simpl; intros ND H1 H2; [exact H1|].
  inversion ND as [|? ? Hn ND']; subst. destruct H1 as [->|H1].
  - apply Hn, in_or_app. right. exact H2.
  - exact (IH ND' H1 H2).
Qed.

(* clauses evaluated later never write the slot *)
Lemma vpass1_skip (pre suf : list clause) (p : nat -> R) (s : nat) :
  ~ In s (map c_id pre) -> vpass1 vk (pre ++ suf) p s = vpass1 vk suf p s.
Proof.
  induction pre as [|c pre IH]; simpl; intros H; [reflexivity|].
  rewrite vpass1_cons. unfold vclause1, pset.
  destruct (Nat.eqb_spec s (c_id c)) as [E|NE]; [exfalso; apply H; left; congruence|].
  apply IH. tauto.
Qed.

Lemma argok_not_pre (pre suf : list clause) (s : nat) :
  NoDup (map c_id (pre ++ suf)) -> argok (pre ++ suf) suf s -> ~ In s (map c_id pre).
Proof.
  intros ND [Hl|Hi] Hin.
  - apply Hl. rewrite map_app. apply in_or_app. left. exact Hin.
  - rewrite map_app in ND. exact (NoDup_app_disj _ _ s ND Hin Hi).
Qed.

Lemma V_suffix (tape pre suf : list clause) (p : nat -> R) (s : nat) :
  NoDup (map c_id tape) -> tape = pre ++ suf -> argok tape suf s ->
  vpass1 vk tape p s = vpass1 vk suf p s.
Proof.
  intros ND E Hs. subst tape. apply vpass1_skip. exact (argok_not_pre pre suf s ND Hs).
Qed.

Lemma vpass1_leaf (tape : list clause) (p : nat -> R) (s : nat) :
  leaf tape s -> vpass1 vk tape p s = p s.
Proof.
  intros Hl. rewrite <- (app_nil_r tape). rewrite vpass1_skip; [reflexivity|].
  exact Hl.
Qed.

(* after the value pass every clause slot holds its kernel applied to its argument slots *)
Lemma V_clause (tape pre suf : list clause) (c : clause) (p : nat -> R) :
  NoDup (map c_id tape) -> tape = pre ++ c :: suf -> args_ok tape (c :: suf) ->
  vpass1 vk tape p (c_id c)
  = vk (c_op c) (vpass1 vk tape p (c_a c)) (vpass1 vk tape p (c_b c)).
Proof.
  intros ND E (Ha & Hb & _).
  assert (E' : tape = (pre ++ [c]) ++ suf) by (rewrite <- app_assoc; exact E).
  rewrite (V_suffix tape pre (c :: suf) p (c_id c) ND E) by (right; left; reflexivity).
  rewrite vpass1_cons. unfold vclause1, pset. rewrite Nat.eqb_refl.
  rewrite (V_suffix tape _ suf p (c_a c) ND E' Ha), (V_suffix tape _ suf p (c_b c) ND E' Hb).
  reflexivity.
Qed.

(* the tape is smooth at parameter value t: every clause satisfies its side condition at
   the evaluated point, and the second argument of pow / nth_root / mod does not move *)
Definition clause_smooth (tape : list clause) (leafv : R -> nat -> R) (t : R) (c : clause) : Prop :=
  smooth_at (c_op c) (vpass1 vk tape (leafv t) (c_a c)) (vpass1 vk tape (leafv t) (c_b c)) /\
  (const_b (c_op c) ->
   locally t (fun u => vpass1 vk tape (leafv u) (c_b c) = vpass1 vk tape (leafv t) (c_b c))).
Definition tape_smooth (tape : list clause) (leafv : R -> nat -> R) (t : R) : Prop :=
  forall c, In c tape -> clause_smooth tape leafv t c.

Lemma deriv_suffix (tape : list clause) (leafv : R -> nat -> R) (leafd : nat -> R) (t : R) :
  NoDup (map c_id tape) ->
  (forall s, leaf tape s -> is_derive (fun u => leafv u s) t (leafd s)) ->
  tape_smooth tape leafv t ->
  forall suf pre, tape = pre ++ suf -> args_ok tape suf ->
  forall s, argok tape suf s ->
    is_derive (fun u => vpass1 vk tape (leafv u) s) t
              (dpass1 dk suf (vpass1 vk tape (leafv t)) leafd s).
Proof.
  intros ND HL HS. induction suf as [|c suf IH]; intros pre E Hok s Hs.
  - destruct Hs as [Hs|[]]. unfold dpass1; simpl.
    apply (is_derive_ext (fun u => leafv u s)); [|apply HL, Hs].
    intros u. symmetry. apply vpass1_leaf, Hs.
  - assert (E' : tape = (pre ++ [c]) ++ suf) by (rewrite <- app_assoc; exact E).
    pose proof Hok as (Ha & Hb & Hok').
    rewrite dpass1_cons. unfold dclause1, pset.
    destruct (Nat.eqb_spec s (c_id c)) as [->|NE].
    + apply (is_derive_ext (fun u => vk (c_op c) (vpass1 vk tape (leafv u) (c_a c))
                                         (vpass1 vk tape (leafv u) (c_b c)))).
      { intros u. symmetry. exact (V_clause tape pre suf c (leafv u) ND E Hok). }
      rewrite (V_clause tape pre suf c (leafv t) ND E Hok).
      assert (Hin : In c tape) by (rewrite E; apply in_or_app; right; left; reflexivity).
      destruct (HS c Hin) as [Hsm Hcb].
      apply (kernel_correct (c_op c) (fun u => vpass1 vk tape (leafv u) (c_a c))
                            (fun u => vpass1 vk tape (leafv u) (c_b c)) t).
      * exact (IH _ E' Hok' _ Ha).
      * exact (IH _ E' Hok' _ Hb).
      * exact Hsm.
      * exact Hcb.
    + apply (IH _ E' Hok'). destruct Hs as [Hs|Hs]; [left; exact Hs|].
      simpl in Hs. destruct Hs as [Hs|Hs]; [congruence|right; exact Hs].
Qed.

Theorem deriv_correct (tape : list clause) (leafv : R -> nat -> R) (leafd : nat -> R) (t : R) :
  wf tape ->
  (forall s, leaf tape s -> is_derive (fun u => leafv u s) t (leafd s)) ->
  tape_smooth tape leafv t ->
  forall s,
    is_derive (fun u => vpass1 vk tape (leafv u) s) t
              (dpass1 dk tape (vpass1 vk tape (leafv t)) leafd s).
Proof.
  intros [ND Hok] HL HS s.
  apply (deriv_suffix tape leafv leafd t ND HL HS tape [] eq_refl Hok s).
  apply leaf_or_id.
Qed.

(* a pointwise (structural) sufficient condition for [tape_smooth]: the side conditions hold
   at the evaluated point, and the second argument of every pow / nth_root / mod clause is a
   leaf slot whose value does not depend on the parameter (a constant, as in libfive) *)
Definition tape_smooth_pt (tape : list clause) (p : nat -> R) (isconst : nat -> Prop) : Prop :=
  forall c, In c tape ->
    smooth_at (c_op c) (vpass1 vk tape p (c_a c)) (vpass1 vk tape p (c_b c)) /\
    (const_b (c_op c) -> isconst (c_b c)).

Lemma tape_smooth_of_pt tape (leafv : R -> nat -> R) (t : R) (isconst : nat -> Prop) :
  (forall s, isconst s -> leaf tape s /\ forall u, leafv u s = leafv t s) ->
  tape_smooth_pt tape (leafv t) isconst -> tape_smooth tape leafv t.
Proof.
  intros HC HP c Hin. destruct (HP c Hin) as [Hs Hc]. split; [exact Hs|].
  intros Hcb. destruct (HC _ (Hc Hcb)) as [Hl He].
  apply filter_forall. intros u. rewrite !vpass1_leaf by exact Hl. apply He.
Qed.

(* --- partial derivatives: one leaf slot is the parameter --- *)

Definition delta (s0 s : nat) : R := if Nat.eqb s s0 then 1 else 0.

Lemma pset_derive (lv : nat -> R) (s0 : nat) (x : R) (s : nat) :
  is_derive (fun u => pset lv s0 u s) x (delta s0 s).
Proof.
  unfold pset, delta. destruct (Nat.eqb s s0); [apply @is_derive_id|apply @is_derive_const].
Qed.

Theorem partial_correct (tape : list clause) (lv : nat -> R) (s0 : nat) (x : R) :
  wf tape -> tape_smooth tape (fun u => pset lv s0 u) x ->
  forall s,
    is_derive (fun u => vpass1 vk tape (pset lv s0 u) s) x
              (dpass1 dk tape (vpass1 vk tape (pset lv s0 x)) (delta s0) s).
Proof.
  intros W HS s.
  apply (deriv_correct tape (fun u => pset lv s0 u) (delta s0) x W); [|exact HS].
  intros s' _. apply pset_derive.
Qed.

(* the kernel table can be swapped on opcodes that do not occur *)
Lemma dfold1_ext_dk (dk1 dk2 : opcode -> R -> R -> R -> R -> R -> R) (p : nat -> R) :
  forall (l : list clause) (q : nat -> R),
  (forall c, In c l -> forall av bv ov ad bd, dk1 (c_op c) av bv ov ad bd = dk2 (c_op c) av bv ov ad bd) ->
  forall s, fold_left (dclause1 dk1 p) l q s = fold_left (dclause1 dk2 p) l q s.
Proof.
  induction l as [|c l IH]; intros q H s; simpl; [reflexivity|].
  rewrite IH by (intros c' Hc'; apply H; right; exact Hc').
  apply dfold1_ext; [reflexivity|]. intros s'. unfold dclause1, pset.
  destruct (Nat.eqb s' (c_id c)); [apply H; left; reflexivity|reflexivity].
Qed.

Lemma dpass1_flag (cv : bool) (tape : list clause) (p q : nat -> R) :
  (cv = true -> forall c, In c tape -> c_op c <> CONST_VAR) ->
  forall s, dpass1 (dkern1 RD cv) tape p q s = dpass1 dk tape p q s.
Proof.
  intros H s. destruct cv; [|reflexivity]. unfold dpass1. apply dfold1_ext_dk.
  intros c Hc av bv ov ad bd. apply dkern1_flag. apply (H eq_refl). apply in_rev. exact Hc.
Qed.

(* three distinct leaf slots sx sy sz (the coordinates X Y Z, or three free variables packed
   into one derivative column by the Jacobian evaluator); the derivative rows are seeded with
   the unit vectors on these slots and 0 on every other leaf *)
Definition pt3 (lv : nat -> R) (sx sy sz : nat) (x y z : R) : nat -> R :=
  pset (pset (pset lv sx x) sy y) sz z.
Definition seed3 (sx sy sz : nat) (s : nat) : @dvec R := (delta sx s, delta sy s, delta sz s).

Theorem gradient_correct_gen (cv : bool) (tape : list clause) (lv : nat -> R)
        (sx sy sz : nat) (x y z : R) :
  wf tape -> sx <> sy -> sx <> sz -> sy <> sz ->
  (cv = true -> forall c, In c tape -> c_op c <> CONST_VAR) ->
  tape_smooth tape (fun u => pt3 lv sx sy sz u y z) x ->
  tape_smooth tape (fun u => pt3 lv sx sy sz x u z) y ->
  tape_smooth tape (fun u => pt3 lv sx sy sz x y u) z ->
  forall s,
    let G := dpass1 (dkern RD cv) tape (vpass1 vk tape (pt3 lv sx sy sz x y z)) (seed3 sx sy sz) s in
    is_derive (fun u => vpass1 vk tape (pt3 lv sx sy sz u y z) s) x (pr1 G) /\
    is_derive (fun u => vpass1 vk tape (pt3 lv sx sy sz x u z) s) y (pr2 G) /\
    is_derive (fun u => vpass1 vk tape (pt3 lv sx sy sz x y u) s) z (pr3 G).
Proof.
  intros W Nxy Nxz Nyz Hcv Sx Sy Sz s G. unfold G, dpass1.
  rewrite (dpass1_proj RD pr1 cv (dkern_pr1 RD cv)), (dpass1_proj RD pr2 cv (dkern_pr2 RD cv)),
          (dpass1_proj RD pr3 cv (dkern_pr3 RD cv)).
  fold (dpass1 (dkern1 RD cv) tape (vpass1 vk tape (pt3 lv sx sy sz x y z)) (fun s => pr1 (seed3 sx sy sz s))).
  fold (dpass1 (dkern1 RD cv) tape (vpass1 vk tape (pt3 lv sx sy sz x y z)) (fun s => pr2 (seed3 sx sy sz s))).
  fold (dpass1 (dkern1 RD cv) tape (vpass1 vk tape (pt3 lv sx sy sz x y z)) (fun s => pr3 (seed3 sx sy sz s))).
  rewrite !(dpass1_flag cv tape) by exact Hcv.
  simpl pr1; simpl pr2; simpl pr3.
  split; [|split].
  - apply (deriv_correct tape (fun u => pt3 lv sx sy sz u y z) (delta sx) x W); [|exact Sx].
    intros s' _. unfold pt3, pset, delta.
    destruct (Nat.eqb_spec s' sz) as [->|]; [destruct (Nat.eqb_spec sz sx); [congruence|apply @is_derive_const]|].
    destruct (Nat.eqb_spec s' sy) as [->|]; [destruct (Nat.eqb_spec sy sx); [congruence|apply @is_derive_const]|].
    destruct (Nat.eqb s' sx); [apply @is_derive_id|apply @is_derive_const].
  - apply (deriv_correct tape (fun u => pt3 lv sx sy sz x u z) (delta sy) y W); [|exact Sy].
    intros s' _. unfold pt3, pset, delta.
    destruct (Nat.eqb_spec s' sz) as [->|]; [destruct (Nat.eqb_spec sz sy); [congruence|apply @is_derive_const]|].
    destruct (Nat.eqb s' sy); [apply @is_derive_id|apply @is_derive_const].
  - apply (deriv_correct tape (fun u => pt3 lv sx sy sz x y u) (delta sz) z W); [|exact Sz].
    intros s' _. unfold pt3, pset, delta.
    destruct (Nat.eqb s' sz); [apply @is_derive_id|apply @is_derive_const].
Qed.

(* the same with the pointwise smoothness condition: the second arguments of pow / nth_root /
   mod clauses are leaf slots other than the three parameters *)
Theorem gradient_correct_pt (cv : bool) (tape : list clause) (lv : nat -> R)
        (sx sy sz : nat) (x y z : R) (isconst : nat -> Prop) :
  wf tape -> sx <> sy -> sx <> sz -> sy <> sz ->
  (cv = true -> forall c, In c tape -> c_op c <> CONST_VAR) ->
  (forall s, isconst s -> leaf tape s /\ s <> sx /\ s <> sy /\ s <> sz) ->
  tape_smooth_pt tape (pt3 lv sx sy sz x y z) isconst ->
  forall s,
    let G := dpass1 (dkern RD cv) tape (vpass1 vk tape (pt3 lv sx sy sz x y z)) (seed3 sx sy sz) s in
    is_derive (fun u => vpass1 vk tape (pt3 lv sx sy sz u y z) s) x (pr1 G) /\
    is_derive (fun u => vpass1 vk tape (pt3 lv sx sy sz x u z) s) y (pr2 G) /\
    is_derive (fun u => vpass1 vk tape (pt3 lv sx sy sz x y u) s) z (pr3 G).
Proof.
  intros W Nxy Nxz Nyz Hcv HC HP.
  apply (gradient_correct_gen cv tape lv sx sy sz x y z W Nxy Nxz Nyz Hcv).
  - apply (tape_smooth_of_pt tape (fun u => pt3 lv sx sy sz u y z) x isconst); [|exact HP].
    intros s Hs. destruct (HC s Hs) as (Hl & N1 & N2 & N3). split; [exact Hl|].
    intros u. unfold pt3, pset.
    apply Nat.eqb_neq in N1, N2, N3. rewrite N1, N2, N3. reflexivity.
  - apply (tape_smooth_of_pt tape (fun u => pt3 lv sx sy sz x u z) y isconst); [|exact HP].
    intros s Hs. destruct (HC s Hs) as (Hl & N1 & N2 & N3). split; [exact Hl|].
    intros u. unfold pt3, pset.
    apply Nat.eqb_neq in N1, N2, N3. rewrite N1, N2, N3. reflexivity.
  - apply (tape_smooth_of_pt tape (fun u => pt3 lv sx sy sz x y u) z isconst); [|exact HP].
    intros s Hs. destruct (HC s Hs) as (Hl & N1 & N2 & N3). split; [exact Hl|].
    intros u. unfold pt3, pset.
    apply Nat.eqb_neq in N1, N2, N3. rewrite N1, N2, N3. reflexivity.
Qed.

(* DerivArrayEvaluator::derivs (clear_vars = false): the three returned components are the
   partial derivatives in x, y, z of the tape's value at every slot (the root in particular) *)
Corollary gradient_correct (tape : list clause) (lv : nat -> R)
          (sx sy sz : nat) (x y z : R) (isconst : nat -> Prop) :
  wf tape -> sx <> sy -> sx <> sz -> sy <> sz ->
  (forall s, isconst s -> leaf tape s /\ s <> sx /\ s <> sy /\ s <> sz) ->
  tape_smooth_pt tape (pt3 lv sx sy sz x y z) isconst ->
  forall s,
    let G := dpass1 (dkern RD false) tape (vpass1 vk tape (pt3 lv sx sy sz x y z)) (seed3 sx sy sz) s in
    is_derive (fun u => vpass1 vk tape (pt3 lv sx sy sz u y z) s) x (pr1 G) /\
    is_derive (fun u => vpass1 vk tape (pt3 lv sx sy sz x u z) s) y (pr2 G) /\
    is_derive (fun u => vpass1 vk tape (pt3 lv sx sy sz x y u) s) z (pr3 G).
Proof.
  intros W Nxy Nxz Nyz. apply (gradient_correct_pt false); try assumption. discriminate.
Qed.

(* JacobianEvaluator::gradient (clear_vars = true): a free variable's slot sv is seeded with 1,
   every other leaf (X Y Z included) with 0.  On tapes without a CONST_VAR barrier the result
   is the partial derivative in that variable.  (Through a CONST_VAR clause the kernel returns
   0 by design, [const_var_zero]: that is not the derivative of the value function.) *)
Theorem jacobian_correct (tape : list clause) (lv : nat -> R) (sv : nat) (x : R) :
  wf tape -> (forall c, In c tape -> c_op c <> CONST_VAR) ->
  tape_smooth tape (fun u => pset lv sv u) x ->
  forall s,
    is_derive (fun u => vpass1 vk tape (pset lv sv u) s) x
              (dpass1 (dkern1 RD true) tape (vpass1 vk tape (pset lv sv x)) (delta sv) s).
Proof.
  intros W Hcv HS s. rewrite (dpass1_flag true) by (intros _; exact Hcv).
  apply partial_correct; assumption.
Qed.

(* the Jacobian evaluator packs three variables into the three components of one column *)
Corollary jacobian3_correct (tape : list clause) (lv : nat -> R)
          (s1 s2 s3 : nat) (x1 x2 x3 : R) (isconst : nat -> Prop) :
  wf tape -> s1 <> s2 -> s1 <> s3 -> s2 <> s3 ->
  (forall c, In c tape -> c_op c <> CONST_VAR) ->
  (forall s, isconst s -> leaf tape s /\ s <> s1 /\ s <> s2 /\ s <> s3) ->
  tape_smooth_pt tape (pt3 lv s1 s2 s3 x1 x2 x3) isconst ->
  forall s,
    let G := dpass1 (dkern RD true) tape (vpass1 vk tape (pt3 lv s1 s2 s3 x1 x2 x3)) (seed3 s1 s2 s3) s in
    is_derive (fun u => vpass1 vk tape (pt3 lv s1 s2 s3 u x2 x3) s) x1 (pr1 G) /\
    is_derive (fun u => vpass1 vk tape (pt3 lv s1 s2 s3 x1 u x3) s) x2 (pr2 G) /\
    is_derive (fun u => vpass1 vk tape (pt3 lv s1 s2 s3 x1 x2 u) s) x3 (pr3 G).
Proof.
  intros W N12 N13 N23 Hcv. apply (gradient_correct_pt true); try assumption. intros _; exact Hcv.
Qed.

(* ------------------------------------------------------------------ *)
(* necessity of [const_b] for mod: the kernel drops the divisor's derivative *)
(* ------------------------------------------------------------------ *)

(* mod a b with a = 5 constant and b = t moving, at t = 2: the value is 5 - 2 t near 2, its
   derivative is -2, the kernel answers [ad] = 0 *)
Lemma mod_moving_divisor :
  is_derive (fun s => vk OP_MOD 5 s) 2 (-2) /\
  dk OP_MOD 5 2 (vk OP_MOD 5 2) 0 1 = 0 /\
  ~ is_derive (fun s => vk OP_MOD 5 s) 2 (dk OP_MOD 5 2 (vk OP_MOD 5 2) 0 1).
Proof.
  assert (Ek : Int_part (5 / 2) = 2%Z) by (apply Int_part_unique; simpl; lra).
  assert (D : is_derive (fun s => vk OP_MOD 5 s) 2 (-2)).
  { unfold vk; simpl.
    eapply is_derive_eq.
    - apply (derive_mod (fun _ => 5) (fun s => s) 2 0 1).
      + apply @is_derive_const.
      + apply @is_derive_id.
      + lra.
      + unfold is_intR. rewrite Ek. simpl. lra.
    - simpl. rewrite Ek. simpl. lra. }
  split; [exact D|]. split; [reflexivity|].
  intros H. change (dk OP_MOD 5 2 (vk OP_MOD 5 2) 0 1) with 0 in H.
  pose proof (is_derive_unique _ _ _ D) as E1. pose proof (is_derive_unique _ _ _ H) as E2.
  rewrite E1 in E2. lra.
Qed.

(* with only [bd = 0] (not local constancy) the mod rule still holds *)
Lemma mod_kernel_bd0 (a b : R -> R) (t ad : R) :
  is_derive a t ad -> is_derive b t 0 -> b t <> 0 -> ~ is_intR (a t / b t) ->
  is_derive (fun s => vk OP_MOD (a s) (b s)) t (dk OP_MOD (a t) (b t) (vk OP_MOD (a t) (b t)) ad 0).
Proof.
  intros Ha Hb Hn Hi. unfold vk, dk; simpl.
  eapply is_derive_eq; [apply (derive_mod a b t ad 0 Ha Hb Hn Hi)|]. ring.
Qed.

(* ------------------------------------------------------------------ *)
(* 5. inside / outside                                                 *)
(* ------------------------------------------------------------------ *)

Definition is_inside (v : R) : Prop := v < 0.

Theorem inside_nonzero (v : R) : v <> 0 -> (is_inside v <-> ~ 0 < v).
Proof. unfold is_inside. intros H. split; intros; lra. Qed.

(* Print Assumptions kernel_correct / deriv_correct / gradient_correct / jacobian3_correct:
   only the axioms of the standard Reals library and of Coquelicot's classical logic
   (sig_not_dec, sig_forall_dec, functional_extensionality_dep, classic). *)
