(* ArrayEvaluator::values(count): every kernel is applied slot-wise to the first
   count_simd positions of the 256-wide rows (positions beyond keep whatever an
   earlier call left there).  Theorem: position k of the batch result depends
   only on position k of the inputs and equals the single-point evaluation —
   for every number type (hence for binary32), every count_simd, every k below
   it, whatever stale data the other positions hold. *)
From Coq Require Import List Arith Bool Lia.
From LF Require Import Base.Opcode Base.Num Base.Arena Eval.Deck.
Import ListNotations.

Section Batch.
  Context {num : Type} (O : ops num).
  Variable oracle_at : nat -> num -> num -> num -> num.

  Definition row := list num.               (* one clause, all batch positions *)
  Definition bslots := list row.            (* indexed by slot id *)

  Definition rget (v : bslots) (s : nat) : row := nth s v [].
  Definition pos (k : nat) (r : row) : num := nth k r (o_zero O).
  (* the single-point slot array seen at batch position k *)
  Definition slice (k : nat) (v : bslots) : slots := map (pos k) v.

  (* apply f to the first cs positions *)
  Fixpoint map1_first (cs : nat) (f : num -> num) (a : row) (old : row) : row :=
    match cs, old with
    | 0, _ => old
    | S c, [] => []
    | S c, o :: old' => f (hd (o_zero O) a) :: map1_first c f (tl a) old'
    end.
  Fixpoint map2_first (cs : nat) (f : num -> num -> num) (a b : row) (old : row) : row :=
    match cs, old with
    | 0, _ => old
    | S c, [] => []
    | S c, o :: old' => f (hd (o_zero O) a) (hd (o_zero O) b) :: map2_first c f (tl a) (tl b) old'
    end.
  Fixpoint map3_first (cs : nat) (f : num -> num -> num -> num) (a b c : row) (old : row) : row :=
    match cs, old with
    | 0, _ => old
    | S n, [] => []
    | S n, o :: old' =>
        f (hd (o_zero O) a) (hd (o_zero O) b) (hd (o_zero O) c) :: map3_first n f (tl a) (tl b) (tl c) old'
    end.

  Definition bset (v : bslots) (s : nat) (r : row) : bslots := upd v s (fun _ => r).

  Definition eval_clause_b (cs : nat) (d : deck (num:=num)) (v : bslots) (c : clause) : bslots :=
    match args (c_op c) with
    | Some 1 => bset v (c_id c) (map1_first cs (o_un O (c_op c)) (rget v (c_a c)) (rget v (c_id c)))
    | Some 2 => bset v (c_id c)
                  (map2_first cs (o_bin O (c_op c)) (rget v (c_a c)) (rget v (c_b c)) (rget v (c_id c)))
    | _ =>
        match c_op c with
        | ORACLE => bset v (c_id c)
                      (map3_first cs (oracle_at (c_a c)) (rget v (d_X d)) (rget v (d_Y d)) (rget v (d_Z d))
                                  (rget v (c_id c)))
        | _ => v
        end
    end.

  Definition eval_tape_b (cs : nat) (d : deck (num:=num)) (tape : list clause) (v : bslots) : bslots :=
    fold_left (eval_clause_b cs d) (rev tape) v.

  (* ---- lemmas ---- *)
  Lemma nth_upd_same {A} (l : list A) i f dflt : i < length l -> nth i (upd l i f) dflt = f (nth i l dflt).
  Proof. revert i; induction l as [|x l IH]; intros [|i] Hi; simpl in *; try lia; auto. apply IH; lia. Qed.
  Lemma nth_upd_other {A} (l : list A) i j f dflt : i <> j -> nth j (upd l i f) dflt = nth j l dflt.
  Proof. revert i j; induction l as [|x l IH]; intros [|i] [|j] Hij; simpl; auto; try lia. Qed.
  Lemma length_upd {A} (l : list A) i f : length (upd l i f) = length l.
  Proof. revert i; induction l as [|x l IH]; intros [|i]; simpl; auto. Qed.
  Lemma map_upd {A B} (g : A -> B) (l : list A) i (f : A -> A) (f' : B -> B) :
    (forall x, g (f x) = f' (g x)) -> map g (upd l i f) = upd (map g l) i f'.
  Proof. intros H; revert i; induction l as [|x l IH]; intros [|i]; simpl; auto; rewrite ?H, ?IH; auto. Qed.

  Lemma pos_map1_first cs f a old k : k < cs -> k < length old ->
    pos k (map1_first cs f a old) = f (pos k a).
  Proof.
    unfold pos. revert a old k; induction cs as [|cs IH]; intros a old k Hk Hl; [lia|].
    destruct old as [|o old]; simpl in Hl; [lia|]. destruct k as [|k]; simpl.
    - destruct a; reflexivity.
    - rewrite IH by lia. destruct a; simpl; [destruct k|]; reflexivity.
  Qed.
  Lemma pos_map2_first cs f a b old k : k < cs -> k < length old ->
    pos k (map2_first cs f a b old) = f (pos k a) (pos k b).
  Proof.
    unfold pos. revert a b old k; induction cs as [|cs IH]; intros a b old k Hk Hl; [lia|].
    destruct old as [|o old]; simpl in Hl; [lia|]. destruct k as [|k]; simpl.
    - destruct a, b; reflexivity.
    - rewrite IH by lia.
      destruct a, b; simpl; try destruct k; reflexivity.
  Qed.
  Lemma pos_map3_first cs f a b c old k : k < cs -> k < length old ->
    pos k (map3_first cs f a b c old) = f (pos k a) (pos k b) (pos k c).
  Proof.
    unfold pos. revert a b c old k; induction cs as [|cs IH]; intros a b c old k Hk Hl; [lia|].
    destruct old as [|o old]; simpl in Hl; [lia|]. destruct k as [|k]; simpl.
    - destruct a, b, c; reflexivity.
    - rewrite IH by lia.
      destruct a, b, c; simpl; try destruct k; reflexivity.
  Qed.
  Lemma length_map1_first cs f a old : length (map1_first cs f a old) = length old.
  Proof. revert a old; induction cs; intros a [|o old]; simpl; auto. Qed.
  Lemma length_map2_first cs f a b old : length (map2_first cs f a b old) = length old.
  Proof. revert a b old; induction cs; intros a b [|o old]; simpl; auto. Qed.
  Lemma length_map3_first cs f a b c old : length (map3_first cs f a b c old) = length old.
  Proof. revert a b c old; induction cs; intros a b c [|o old]; simpl; auto. Qed.

  (* all rows are at least [w] wide (w = 256 in the code) *)
  Definition wide (w : nat) (v : bslots) : Prop := forall s, s < length v -> w <= length (rget v s).

  Lemma sget_slice k v s : sget O (slice k v) s = pos k (rget v s).
  Proof.
    unfold sget, slice, rget. destruct (Nat.lt_ge_cases s (length v)) as [H|H].
    - rewrite (nth_indep _ _ (pos k []) ) by (rewrite map_length; exact H).
      rewrite map_nth. reflexivity.
    - rewrite !nth_overflow by (rewrite ?map_length; lia). unfold pos. destruct k; reflexivity.
  Qed.

  Lemma slice_bset k v s r : s < length v ->
    slice k (bset v s r) = sset (slice k v) s (pos k r).
  Proof.
    intros Hs. unfold slice, bset, sset. apply map_upd. reflexivity.
  Qed.

  Lemma clause_pointwise cs w d v c k :
    k < cs -> k < w -> wide w v ->
    slice k (eval_clause_b cs d v c) = eval_clause O oracle_at d (slice k v) c /\
    wide w (eval_clause_b cs d v c) /\ length (eval_clause_b cs d v c) = length v.
  Proof.
    intros Hk Hw Hwide. unfold eval_clause_b, eval_clause.
    assert (Hset : forall r, length r = length (rget v (c_id c)) ->
              wide w (bset v (c_id c) r) /\ length (bset v (c_id c) r) = length v).
    { intros r Hr. split; [|apply length_upd]. intros s Hs. unfold bset in *. rewrite length_upd in Hs.
      unfold rget. destruct (Nat.eq_dec (c_id c) s) as [He|Hne].
      - subst s. rewrite nth_upd_same by exact Hs. rewrite Hr. apply Hwide; exact Hs.
      - rewrite nth_upd_other by exact Hne. apply Hwide; exact Hs. }
    assert (Hout : forall r x, (c_id c < length v -> pos k r = x) ->
              slice k (bset v (c_id c) r) = sset (slice k v) (c_id c) x).
    { intros r x Hx. destruct (Nat.lt_ge_cases (c_id c) (length v)) as [H|H].
      - rewrite slice_bset by exact H. rewrite Hx by exact H. reflexivity.
      - unfold bset, sset, slice.
        assert (Hu : forall {A} (l : list A) i f, length l <= i -> upd l i f = l).
        { intros A l; induction l as [|y l IH]; intros [|i] f Hl; simpl in *; auto; try lia. f_equal; apply IH; lia. }
        rewrite !Hu by (rewrite ?map_length; exact H). reflexivity. }
    destruct (args (c_op c)) as [[|[|[|n]]]|] eqn:Ha.
    - destruct (c_op c); try (repeat split; auto; fail).
      split; [|apply Hset, length_map3_first].
      apply Hout. intros Hid. rewrite pos_map3_first; auto.
      + rewrite !sget_slice. reflexivity.
      + specialize (Hwide _ Hid). lia.
    - split; [|apply Hset, length_map1_first].
      apply Hout. intros Hid. rewrite pos_map1_first; auto.
      + rewrite sget_slice. reflexivity.
      + specialize (Hwide _ Hid). lia.
    - split; [|apply Hset, length_map2_first].
      apply Hout. intros Hid. rewrite pos_map2_first; auto.
      + rewrite !sget_slice. reflexivity.
      + specialize (Hwide _ Hid). lia.
    - destruct (c_op c); try (repeat split; auto; fail); discriminate Ha.
    - destruct (c_op c); try (repeat split; auto; fail); discriminate Ha.
  Qed.

  Theorem batch_pointwise cs w d tape v k :
    k < cs -> k < w -> wide w v ->
    slice k (eval_tape_b cs d tape v) = eval_tape O oracle_at d tape (slice k v).
  Proof.
    intros Hk Hw. unfold eval_tape_b, eval_tape. generalize (rev tape) as l. intros l; revert v.
    induction l as [|c l IH]; intros v Hwide; simpl; [reflexivity|].
    destruct (clause_pointwise cs w d v c k Hk Hw Hwide) as (H1 & H2 & _).
    rewrite IH by exact H2. rewrite H1. reflexivity.
  Qed.

End Batch.
