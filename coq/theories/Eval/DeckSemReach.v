(* Versions of [walk_topo_ok] / [deck_correct] (DeckSem.v) that constrain only
   the nodes REACHABLE from the root: after optimisation the arena still holds
   the original (possibly NRemap / NApply) nodes at lower ids, unreachable from
   the new root, and Tree::walk / Deck::Deck never look at them. *)
From Coq Require Import List Arith Bool Lia.
From LF Require Import Base.Opcode Base.Num Base.Arena Base.Sem Tree.Build
                       Tree.BuildSem Eval.Deck Eval.DeckSem.
Import ListNotations.

Section Reach.
  Context {num : Type}.
  Notation arena := (arena num).

  (* the root is reachable; a child (as followed by walk) of a reachable node is *)
  Inductive reach (a : arena) (root : nat) : nat -> Prop :=
  | reach_root : reach a root root
  | reach_kid p c : reach a root p -> In c (kids (getn a p)) -> reach a root c.

  Variable a : arena.
  Hypothesis Hwf : arena_wf a.
  Variable root : nat.
  Hypothesis Hroot : root < length a.

  (* the [reach] bit-vector computed by pass 1 of walk is exactly [reach] *)
  Lemma Rf_reach c : Rf a root c = true -> reach a root c.
  Proof.
    pose proof (cpres_inv a Hwf root Hroot) as CI.
    assert (H : forall d c, root - c < d -> Rf a root c = true -> reach a root c).
    { induction d as [|d IH]; intros c0 Hd Rc; [lia|].
      pose proof (Rf_le a Hwf root Hroot c0 Rc) as Hc.
      destruct (cp_par _ _ _ _ _ CI c0 Hc Rc) as [->|(p & Hp & Rp & Hk)]; [constructor|].
      pose proof (kd_lt a Hwf p c0 ltac:(lia) Hk) as Hlt.
      apply (reach_kid a root p c0); [|exact Hk].
      apply IH; [lia | exact Rp]. }
    intros Rc. apply (H (S (root - c)) c); [lia | exact Rc].
  Qed.

  Lemma reach_Rf c : reach a root c -> Rf a root c = true.
  Proof.
    pose proof (cpres_inv a Hwf root Hroot) as CI.
    induction 1 as [|p c Hp IH Hk].
    - apply (cp_root _ _ _ _ _ CI).
    - pose proof (Rf_le a Hwf root Hroot p IH) as Hpl.
      apply (cp_closed _ _ _ _ _ CI p c); [lia | exact IH | exact Hk].
  Qed.

  Lemma reach_le c : reach a root c -> c <= root.
  Proof. intros H. apply (Rf_le a Hwf root Hroot). apply reach_Rf; exact H. Qed.

  (* the initial state of pass 2 satisfies the loop invariant *)
  Lemma wl_init : wl_inv a root [root] (snd (cpres a root)) [].
  Proof.
    pose proof (cpres_inv a Hwf root Hroot) as CI.
    constructor.
      - apply (cp_lc _ _ _ _ _ CI).
      - intros c. rewrite (cp_cnt _ _ _ _ _ CI c), Nat.sub_0_r. apply esum_ext.
        intros p _. unfold unp, Rf. simpl. rewrite andb_true_r. reflexivity.
      - simpl. constructor; [intros []|constructor].
      - intros c. split.
        + intros [<-|[]]. split; [apply (cp_root _ _ _ _ _ CI)|]. split; [intros []|].
          rewrite (cp_cnt _ _ _ _ _ CI root), Nat.sub_0_r.
          destruct (esum a (fun p => nth p (fst (cpres a root)) false) root (seq 0 (S root)))
            eqn:He; [reflexivity|]. exfalso.
          assert (Hp : 0 < esum a (fun p => nth p (fst (cpres a root)) false) root
                                (seq 0 (S root))) by lia.
          apply (esum_pos a root Hroot) in Hp. destruct Hp as (p & Hps & _ & Hk).
          apply in_seq in Hps. pose proof (kd_lt a Hwf p root ltac:(lia) Hk). lia.
        + intros (Rc & _ & Hz). pose proof (Rf_le a Hwf root Hroot c Rc) as Hc.
          destruct (cp_par _ _ _ _ _ CI c Hc Rc) as [->|(p & Hp & Rp & Hk)];
            [left; reflexivity|].
          exfalso. rewrite (cp_cnt _ _ _ _ _ CI c), Nat.sub_0_r in Hz.
          assert (Hpos : 0 < esum a (fun p => nth p (fst (cpres a root)) false) c
                                  (seq 0 (S root))).
          { apply (esum_pos a root Hroot). exists p.
            split; [apply in_seq; lia|]. split; assumption. }
          lia.
      - intros c [].
      - intros c [].
      - intros p m s Heq. destruct p; discriminate Heq.
      - left; split; reflexivity.
  Qed.

  (* Kahn's algorithm, with purity demanded of the marked nodes only *)
  Lemma walk_topo_Rf :
    (forall m, Rf a root m = true -> pure_at a m) -> topo_ok a (walk a root) root.
  Proof.
    intros Hpure. unfold walk. rewrite in_degrees_eq.
    pose proof (cpres_inv a Hwf root Hroot) as CI.
    pose proof wl_init as I0.
    destruct (walk_loop_spec a Hwf root Hroot (S root) _ _ _ I0 ltac:(simpl; lia)) as [cnt' I].
    set (L := walk_loop (S root) a [root] (snd (cpres a root)) []) in *.
    pose proof (wl_complete a Hwf root Hroot _ _ I) as Hcomp.
    destruct I as [Ln Ct Nd Td FR F0 Od La]. simpl in Nd.
    split; [split|].
    - exact Nd.
    - intros p m s Heq.
      assert (Hm : In m L) by (rewrite Heq; apply in_or_app; right; left; reflexivity).
      pose proof (Rf_le a Hwf root Hroot m (FR m Hm)) as Hmr.
      split; [lia|]. split; [apply Hpure; apply FR; exact Hm|].
      intros k Hk.
      assert (Hk' : In k L).
      { apply Hcomp. apply (cp_closed _ _ _ _ _ CI m k); [lia | apply FR; exact Hm | exact Hk]. }
      rewrite Heq in Hk'. apply in_app_or in Hk'. destruct Hk' as [Hk'|Hk']; [exact Hk'|].
      exfalso. apply (Od p m s Heq k Hk). exact Hk'.
    - destruct La as [[_ Hd]|Hex]; [discriminate Hd | exact Hex].
  Qed.

  Theorem walk_topo_ok_reach :
    (forall m, reach a root m -> pure_at a m) -> topo_ok a (walk a root) root.
  Proof.
    intros Hpure. apply walk_topo_Rf. intros m Rm. apply Hpure. apply Rf_reach; exact Rm.
  Qed.

  (* the walk visits exactly the reachable nodes *)
  Lemma walk_in_reach m : In m (walk a root) -> reach a root m.
  Proof.
    unfold walk. rewrite in_degrees_eq. intros Hm.
    destruct (walk_loop_spec a Hwf root Hroot (S root) _ _ _ wl_init ltac:(simpl; lia))
      as [cnt' I].
    apply Rf_reach. apply (w_flatR _ _ _ _ _ I). exact Hm.
  Qed.

  Lemma reach_in_walk m : reach a root m -> In m (walk a root).
  Proof.
    unfold walk. rewrite in_degrees_eq. intros Hm.
    destruct (walk_loop_spec a Hwf root Hroot (S root) _ _ _ wl_init ltac:(simpl; lia))
      as [cnt' I].
    apply (wl_complete a Hwf root Hroot _ _ I). apply reach_Rf; exact Hm.
  Qed.
End Reach.

Section DeckCorrectReach.
  Context {num : Type} (O : ops num).
  Variable osem : nat -> num -> num -> num -> num.
  Variable oracle_at : nat -> num -> num -> num -> num.

  Theorem deck_correct_reach (a : arena num) (root : nat) vars x y z :
    arena_wf a -> base_ok O a -> root < length a ->
    (forall m, reach a root m -> pure_at a m) ->
    let d := mk_deck a root in
    tape_value O oracle_at d (d_tape d) (d_root d) vars x y z
    = val O osem a root {| ex := x; ey := y; ez := z; ev := vars |}.
  Proof.
    intros Hwf Hb Hroot Hpure. rewrite mk_deck_eq.
    apply deck_correct_topo; [exact Hwf | exact Hb |].
    apply walk_topo_ok_reach; assumption.
  Qed.
End DeckCorrectReach.
