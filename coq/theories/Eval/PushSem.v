(* Tape::push preserves the value of the tape: specialised tapes agree with
   the full tape.  Parametric in the number type [num] (so it holds for IEEE
   binary32 as well as for the reals), for the models Eval/Deck.v (evaluation)
   and Eval/Push.v (Tape::push, valueAndPush / interval keep functions).

   DEFINITIONS
   - [deps c]      the slots a clause reads and that push activates/rewrites:
                   [c_a c; c_b c] for every non-ORACLE clause, [] for ORACLE
                   (whose c_a is an index into Deck::oracles, not a slot).
   - [wf_list n L] root-first topological order, structurally: for c :: r,
                   0 < c_id c < n, deps c < n, c_id c is not an id in r, and
                   c_id c is in the deps of neither c nor any clause of r.
                   [wf_topo] gives the position form: a clause whose id is a
                   dep of the clause at position p sits at a position q > p.
                   Slots that are the id of no clause are leaf slots.
   - [tape_wf d n t] = wf_list n (t_clauses t) /\ xyz_leaf d (t_clauses t).
                   ORACLE clauses are ALLOWED; [xyz_leaf] only says that if
                   the tape contains an ORACLE clause then d_X, d_Y, d_Z (read
                   by eval_clause for oracles) are leaf slots.  It is vacuous
                   for oracle-free tapes.
   - [justified v fn t]  as specified (KEEP_A / KEEP_B only on OP_MIN/OP_MAX
                   clauses whose value equals the kept argument in
                   eval_tape (t_clauses t) v).

   RESULTS (no unproved statements; see Print Assumptions at the end)
   - [eval_spec]         characterisation of eval_tape on a wf tape
   - [push_preserves]    (a) root value and value of every kept clause,
                         (b) length bound and sub-sequence-up-to-chase,
                         (c) tape_wf of the result
   - [nested_push]       list of keep functions, each justified for the tape it
                         is applied to, at the same v
   - [point_push], [point_push_iter_preserves], [keep_point_justified]
   - [interval_push], [keep_interval_justified]
   - [terminal_fixpoint]

   HYPOTHESES THAT DIFFER FROM / REFINE THE INFORMAL STATEMENT
   1. The topological condition is imposed on c_b of unary clauses too
      (satisfied by the real decks: c_b = 0 and no clause has id 0).  Reason:
      push_step activates disabled[c_b] and the second pass rewrites c_b for
      every non-ORACLE clause whatever its arity, so a junk c_b naming an
      earlier clause would re-enable a clause that had been remapped.
   2. chase is run with fuel n.  Fuel n suffices because a wf tape has at most
      n clauses ([wf_length], pigeonhole on the distinct ids < n) and every
      remap link goes from a clause to a strictly later clause or a leaf.
   3. interval_push: the enclosure hypothesis as written
         o_ltb (w s) (lo s) = false /\ o_ltb (hi s) (w s) = false
      is satisfied by an unordered value (IEEE NaN).  keep_interval now takes
      the per-slot may-be-NaN flags and answers KEEP_BOTH on a min/max clause
      (c_a <> c_b) as soon as one argument is flagged; the theorem assumes
      [flags_sound ok maybe_nan w] (an unflagged slot holds an [ok], i.e.
      ordered, value), [encloses lo hi w] and [ord_laws ok], whose law
      [ol_sandwich] (x <= p < q <= y -> x < y) is only required for ok x, ok y.
      No separate assumption on min/max arguments is needed.
      HISTORY: the keep function used to ignore the flags.  That version is kept
      as [NaNCounterexample.old_keep_interval] with the counterexample
      [old_interval_push_unsound]: one clause max(a,b), w a = NaN, w b = 7,
      bounds a in [0,5], b in [7,7]: the bounds "enclose" the values, the old
      function answers KEEP_B, the pushed tape evaluates to 7, the full tape
      to NaN.  [new_interval_push_sound]: with slot a flagged the fixed
      function leaves that tape unchanged.
   4. pushed_wf (part (c)) is proved from the same [justified] hypothesis as
      (a); it only really needs "KEEP_A/KEEP_B are answered on min/max only". *)
From Coq Require Import List Arith Bool Lia.
From LF Require Import Base.Opcode Base.Num Base.Arena Eval.Deck Eval.Push.
Import ListNotations.

(* ---------------------------------------------------------------------- *)
(* 1. List facts                                                          *)
(* ---------------------------------------------------------------------- *)
Section ListFacts.
  Context {A : Type}.

  Lemma length_upd (l : list A) i f : length (upd l i f) = length l.
  Proof. revert i; induction l as [|a l IH]; intros [|i]; simpl; auto. Qed.

  Lemma nth_upd (l : list A) i f x d :
    nth x (upd l i f) d =
    if (Nat.eqb x i && Nat.ltb i (length l))%bool then f (nth i l d) else nth x l d.
  Proof.
    revert i x; induction l as [|a l IH]; intros i x.
    - destruct i; simpl; rewrite andb_false_r; reflexivity.
    - destruct i as [|i], x as [|x]; simpl; try reflexivity.
      rewrite IH. reflexivity.
  Qed.

  Lemma nth_upd_same (l : list A) i f d :
    i < length l -> nth i (upd l i f) d = f (nth i l d).
  Proof.
    intro H. rewrite nth_upd, Nat.eqb_refl.
    apply Nat.ltb_lt in H. rewrite H. reflexivity.
  Qed.

  Lemma nth_upd_other (l : list A) i f x d :
    x <> i -> nth x (upd l i f) d = nth x l d.
  Proof.
    intro H. rewrite nth_upd. apply Nat.eqb_neq in H. rewrite H. reflexivity.
  Qed.

  Lemma upd_out (l : list A) i f : length l <= i -> upd l i f = l.
  Proof.
    revert i; induction l as [|a l IH]; intros [|i] H; simpl in *; try reflexivity; try lia.
    rewrite IH by lia. reflexivity.
  Qed.

  Lemma filter_length_le' (p : A -> bool) (l : list A) : length (filter p l) <= length l.
  Proof. induction l as [|a l IH]; simpl; [lia|]. destruct (p a); simpl; lia. Qed.

  Lemma filter_all (p : A -> bool) (l : list A) :
    (forall x, In x l -> p x = true) -> filter p l = l.
  Proof.
    induction l as [|a l IH]; simpl; intro H; [reflexivity|].
    rewrite (H a) by auto. rewrite IH by auto. reflexivity.
  Qed.
End ListFacts.

Lemma bget_upd (l : list bool) i b x :
  i < length l -> bget (upd l i (fun _ => b)) x = if Nat.eqb x i then b else bget l x.
Proof.
  intro H. unfold bget. rewrite nth_upd. apply Nat.ltb_lt in H. rewrite H, andb_true_r.
  reflexivity.
Qed.

Lemma nget_upd (l : list nat) i b x :
  i < length l -> nget (upd l i (fun _ => b)) x = if Nat.eqb x i then b else nget l x.
Proof.
  intro H. unfold nget. rewrite nth_upd. apply Nat.ltb_lt in H. rewrite H, andb_true_r.
  reflexivity.
Qed.

Lemma bget_false_lt (l : list bool) x : bget l x = false -> x < length l.
Proof.
  intro H. destruct (Nat.lt_ge_cases x (length l)) as [|G]; [assumption|].
  unfold bget in H. rewrite nth_overflow in H by assumption. discriminate.
Qed.

Lemma nget_nz_lt (l : list nat) x : nget l x <> 0 -> x < length l.
Proof.
  intro H. destruct (Nat.lt_ge_cases x (length l)) as [|G]; [assumption|].
  unfold nget in H. rewrite nth_overflow in H by assumption. congruence.
Qed.

(* ---------------------------------------------------------------------- *)
(* 2. Well-formed tapes                                                   *)
(* ---------------------------------------------------------------------- *)
Definition is_oracle (c : clause) : bool := opcode_eqb (c_op c) ORACLE.

(* the slots a clause reads *and* that Tape::push activates / rewrites: both
   c_a and c_b for every non-ORACLE clause (for a unary clause c_b is the
   dummy slot 0); none for an ORACLE clause, whose c_a is an index into
   Deck::oracles and not a slot *)
Definition deps (c : clause) : list nat :=
  if is_oracle c then [] else [c_a c; c_b c].

Definition ids (L : list clause) : list nat := map c_id L.

Definition minmax (c : clause) : Prop := c_op c = OP_MIN \/ c_op c = OP_MAX.

(* root-first topological order, structurally: the id of the head clause is
   fresh and is read neither by the head nor by anything after it *)
Fixpoint wf_list (n : nat) (L : list clause) : Prop :=
  match L with
  | [] => True
  | c :: r =>
      0 < c_id c < n /\
      (forall s, In s (deps c) -> s < n) /\
      ~ In (c_id c) (ids r) /\
      (forall c', In c' (c :: r) -> ~ In (c_id c) (deps c')) /\
      wf_list n r
  end.

Lemma deps_no c : is_oracle c = false -> deps c = [c_a c; c_b c].
Proof. unfold deps; intros ->; reflexivity. Qed.

Lemma deps_or c : is_oracle c = true -> deps c = [].
Proof. unfold deps; intros ->; reflexivity. Qed.

Lemma minmax_no_oracle c : minmax c -> is_oracle c = false.
Proof. unfold minmax, is_oracle; intros [-> | ->]; reflexivity. Qed.

Lemma minmax_args c : minmax c -> args (c_op c) = Some 2.
Proof. unfold minmax; intros [-> | ->]; reflexivity. Qed.

Lemma ids_app P Q : ids (P ++ Q) = ids P ++ ids Q.
Proof. apply map_app. Qed.

Lemma in_ids c L : In c L -> In (c_id c) (ids L).
Proof. apply in_map. Qed.

Lemma in_ids_inv s L : In s (ids L) -> exists c, In c L /\ c_id c = s.
Proof. unfold ids; rewrite in_map_iff; intros [c [E H]]; eauto. Qed.

Lemma wf_app n P Q :
  wf_list n (P ++ Q) ->
  wf_list n Q /\
  (forall c' c, In c' P -> In c Q -> c_id c' <> c_id c /\ ~ In (c_id c') (deps c)).
Proof.
  induction P as [|p P IH]; simpl.
  - intros H; split; [assumption | intros ? ? []].
  - intros (Hid & Hd & Hfresh & Huse & Hr).
    destruct (IH Hr) as [HQ HPQ]. split; [assumption|].
    intros c' c [<- | Hc'] Hc.
    + split.
      * intro E. apply Hfresh. rewrite E. apply in_ids. apply in_or_app; auto.
      * apply Huse. right. apply in_or_app; auto.
    + apply HPQ; assumption.
Qed.

Lemma wf_in n L c : wf_list n L -> In c L ->
  0 < c_id c < n /\ (forall s, In s (deps c) -> s < n) /\ ~ In (c_id c) (deps c).
Proof.
  induction L as [|x L IH]; simpl; [intros _ []|].
  intros (Hid & Hd & Hfresh & Huse & Hr) [<- | Hc].
  - split; [assumption|]. split; [assumption|]. apply Huse; auto.
  - apply IH; assumption.
Qed.

Lemma wf_nodup n L : wf_list n L -> NoDup (ids L).
Proof.
  induction L as [|x L IH]; simpl; [constructor|].
  intros (Hid & Hd & Hfresh & Huse & Hr). constructor; auto.
Qed.

Lemma wf_uniq n L c1 c2 : wf_list n L -> In c1 L -> In c2 L -> c_id c1 = c_id c2 -> c1 = c2.
Proof.
  induction L as [|x L IH]; simpl; [intros _ []|].
  intros (Hid & Hd & Hfresh & Huse & Hr) [<- | H1] [<- | H2] E; auto.
  - exfalso. apply Hfresh. rewrite E. apply in_ids; assumption.
  - exfalso. apply Hfresh. rewrite <- E. apply in_ids; assumption.
Qed.

(* pigeonhole: at most n clauses *)
Lemma wf_length n L : wf_list n L -> length L <= n.
Proof.
  intro H. assert (Hn := wf_nodup _ _ H).
  assert (Hi : incl (ids L) (seq 0 n)).
  { intros s Hs. apply in_ids_inv in Hs. destruct Hs as [c [Hc <-]].
    apply in_seq. destruct (wf_in _ _ _ H Hc) as [? _]. lia. }
  apply NoDup_incl_length in Hi; [|assumption].
  unfold ids in Hi. rewrite map_length, seq_length in Hi. assumption.
Qed.

(* position form of the topological order, for the record *)
Lemma wf_topo n L p q c c' :
  wf_list n L -> nth_error L p = Some c -> nth_error L q = Some c' ->
  In (c_id c') (deps c) -> p < q.
Proof.
  revert p q; induction L as [|x L IH]; intros p q Hwf Hp Hq Hin.
  - destruct p; discriminate.
  - destruct Hwf as (Hid & Hd & Hfresh & Huse & Hr).
    destruct q as [|q].
    + simpl in Hq. injection Hq as <-. exfalso.
      apply (Huse c); [|assumption]. eapply nth_error_In; eassumption.
    + destruct p as [|p]; [lia|]. simpl in Hp, Hq.
      apply -> Nat.succ_lt_mono. eapply IH; eassumption.
Qed.

(* ---------------------------------------------------------------------- *)
(* 3. Evaluation of a well-formed tape                                    *)
(* ---------------------------------------------------------------------- *)
Section Eval.
  Context {num : Type} (O : ops num).
  Variable oracle_at : nat -> num -> num -> num -> num.
  Variable d : @deck num.

  Notation ev := (eval_tape O oracle_at d).
  Notation evc := (eval_clause O oracle_at d).
  Notation sg := (sget O).

  (* ORACLE clauses read the X, Y, Z slots, which must then be leaf slots *)
  Definition xyz_leaf (L : list clause) : Prop :=
    forall c, In c L -> is_oracle c = true ->
      ~ In (d_X d) (ids L) /\ ~ In (d_Y d) (ids L) /\ ~ In (d_Z d) (ids L).

  Definition tape_wf (n : nat) (t : tape) : Prop :=
    wf_list n (t_clauses t) /\ xyz_leaf (t_clauses t).

  Lemma eval_nil v : ev [] v = v.
  Proof. reflexivity. Qed.

  Lemma eval_cons c L v : ev (c :: L) v = evc (ev L v) c.
  Proof. unfold eval_tape. simpl. rewrite fold_left_app. reflexivity. Qed.

  (* value of clause [c]: arguments read in [w]; X,Y,Z and, for clauses that
     write nothing, the own slot, read in [v] *)
  Definition cres (w v : slots) (c : clause) : num :=
    match args (c_op c) with
    | Some 1 => o_un O (c_op c) (sg w (c_a c))
    | Some 2 => o_bin O (c_op c) (sg w (c_a c)) (sg w (c_b c))
    | _ => if is_oracle c
           then oracle_at (c_a c) (sg v (d_X d)) (sg v (d_Y d)) (sg v (d_Z d))
           else sg v (c_id c)
    end.

  Lemma evc_len w c : length (evc w c) = length w.
  Proof.
    unfold eval_clause, sset.
    destruct (args (c_op c)) as [[|[|[|k]]]|]; try apply length_upd;
      destruct (c_op c); try reflexivity; apply length_upd.
  Qed.

  Lemma evc_other w c s : s <> c_id c -> sg (evc w c) s = sg w s.
  Proof.
    intro H. unfold eval_clause, sset, sget.
    destruct (args (c_op c)) as [[|[|[|k]]]|]; try (apply nth_upd_other; assumption);
      destruct (c_op c); try reflexivity; apply nth_upd_other; assumption.
  Qed.

  Lemma evc_self w c : c_id c < length w -> sg (evc w c) (c_id c) = cres w w c.
  Proof.
    intro H. unfold eval_clause, cres, is_oracle, sset, sget.
    destruct (c_op c); simpl; try reflexivity; rewrite nth_upd_same by assumption; reflexivity.
  Qed.

  Lemma cres_ext w1 w2 v1 v2 c :
    (is_oracle c = false ->
       sg w1 (c_a c) = sg w2 (c_a c) /\ sg w1 (c_b c) = sg w2 (c_b c)) ->
    (is_oracle c = true ->
       sg v1 (d_X d) = sg v2 (d_X d) /\ sg v1 (d_Y d) = sg v2 (d_Y d) /\
       sg v1 (d_Z d) = sg v2 (d_Z d)) ->
    sg v1 (c_id c) = sg v2 (c_id c) ->
    cres w1 v1 c = cres w2 v2 c.
  Proof.
    unfold cres, is_oracle. intros Hn Ho Hs.
    destruct (c_op c); simpl in *;
      try (destruct (Hn eq_refl) as [E1 E2]; rewrite ?E1, ?E2; reflexivity);
      try assumption.
    destruct (Ho eq_refl) as (E1 & E2 & E3). rewrite E1, E2, E3. reflexivity.
  Qed.

  Lemma xyz_leaf_tl c L : xyz_leaf (c :: L) -> xyz_leaf L.
  Proof.
    intros H c' Hc' Ho. destruct (H c' (or_intror Hc') Ho) as (HX & HY & HZ).
    simpl in *. tauto.
  Qed.

  Lemma eval_spec n L v :
    wf_list n L -> xyz_leaf L -> length v = n ->
    length (ev L v) = n /\
    (forall s, ~ In s (ids L) -> sg (ev L v) s = sg v s) /\
    (forall c, In c L -> sg (ev L v) (c_id c) = cres (ev L v) v c).
  Proof.
    intros Hwf Hxyz Hlen. induction L as [|c r IH].
    - rewrite eval_nil. split; [assumption|]. split; [reflexivity | intros ? []].
    - destruct Hwf as (Hid & Hd & Hfresh & Huse & Hr).
      destruct (IH Hr (xyz_leaf_tl _ _ Hxyz)) as (IHl & IHleaf & IHc). clear IH.
      rewrite eval_cons. set (wr := ev r v) in *.
      split; [rewrite evc_len; assumption|]. split.
      + intros s Hs. simpl in Hs.
        rewrite evc_other by (intro E; apply Hs; left; auto). apply IHleaf. tauto.
      + intros c0 [<- | Hc0].
        * rewrite evc_self by lia. apply cres_ext.
          -- intro Ho. assert (Hu := Huse c (or_introl eq_refl)).
             rewrite deps_no in Hu by assumption. simpl in Hu.
             split; symmetry; apply evc_other; tauto.
          -- intro Ho. destruct (Hxyz c (or_introl eq_refl) Ho) as (HX & HY & HZ).
             simpl in HX, HY, HZ. repeat split; apply IHleaf; tauto.
          -- apply IHleaf; assumption.
        * assert (Hne : c_id c0 <> c_id c).
          { intro E. apply Hfresh. rewrite <- E. apply in_ids; assumption. }
          rewrite evc_other by assumption. rewrite IHc by assumption.
          apply cres_ext; [ | intros _; repeat split | reflexivity ].
          intro Ho. assert (Hu := Huse c0 (or_intror Hc0)).
          rewrite deps_no in Hu by assumption. simpl in Hu.
          split; symmetry; apply evc_other; tauto.
  Qed.

End Eval.

(* ---------------------------------------------------------------------- *)
(* 4. The first pass of Tape::push                                        *)
(* ---------------------------------------------------------------------- *)
Ltac upd_tac :=
  repeat (rewrite ?bget_upd, ?nget_upd, ?length_upd by (rewrite ?length_upd; lia));
  rewrite ?Nat.eqb_refl;
  repeat match goal with |- context [Nat.eqb ?a ?b] => destruct (Nat.eqb_spec a b) end;
  try congruence; try lia; auto; try solve [simpl in *; intuition congruence].
Ltac six := split; [|split; [|split; [|split; [|split]]]].

Section Pass.
  Variable n : nat.
  Variable fn : clause -> keep.

  Definition act (s : pstate) (x : nat) : Prop :=
    bget (p_dis s) x = false \/ nget (p_remap s) x <> 0.

  Definition link (c : clause) (r : nat) : Prop :=
    minmax c /\ ((fn c = KEEP_A /\ r = c_a c) \/ (fn c = KEEP_B /\ r = c_b c)).

  Definition step_rel (s s' : pstate) (c : clause) : Prop :=
    length (p_dis s') = length (p_dis s) /\
    length (p_remap s') = length (p_remap s) /\
    (forall x, x <> c_id c -> nget (p_remap s') x = nget (p_remap s) x) /\
    (forall x, x <> c_id c -> ~ In x (deps c) -> bget (p_dis s') x = bget (p_dis s) x) /\
    (forall x, x <> c_id c -> bget (p_dis s) x = false -> bget (p_dis s') x = false) /\
    ( (bget (p_dis s) (c_id c) = true /\ s' = s)
      \/ (bget (p_dis s) (c_id c) = false /\ nget (p_remap s') (c_id c) = 0 /\
          bget (p_dis s') (c_id c) = false /\
          forall y, In y (deps c) -> bget (p_dis s') y = false)
      \/ (bget (p_dis s) (c_id c) = false /\ nget (p_remap s') (c_id c) <> 0 /\
          bget (p_dis s') (c_id c) = true /\
          bget (p_dis s') (nget (p_remap s') (c_id c)) = false /\
          link c (nget (p_remap s') (c_id c)))).

  Lemma push_step_rel s c :
    length (p_dis s) = n -> length (p_remap s) = n ->
    c_id c < n -> (forall y, In y (deps c) -> y < n) -> ~ In (c_id c) (deps c) ->
    nget (p_remap s) (c_id c) = 0 ->
    (fn c = KEEP_A \/ fn c = KEEP_B -> minmax c) ->
    step_rel s (push_step fn s c) c.
  Proof.
    intros Hld Hlr Hid Hdn Hself Hr0 Hok.
    unfold step_rel, push_step.
    destruct (bget (p_dis s) (c_id c)) eqn:Hd.
    { repeat split; auto. }
    assert (Hdeps : is_oracle c = false ->
              c_a c < n /\ c_b c < n /\ c_a c <> c_id c /\ c_b c <> c_id c).
    { intro Ho. rewrite deps_no in * by assumption. simpl in *.
      repeat split; auto; intro E; apply Hself; auto. }
    fold (is_oracle c).
    destruct (fn c) eqn:Hk; cbn [p_dis p_remap p_term p_changed].
    - (* KEEP_BOTH *)
      rewrite Hr0. cbn [Nat.eqb negb].
      destruct (is_oracle c) eqn:Ho; cbn [negb p_dis p_remap].
      + (* oracle: nothing activated *)
        rewrite deps_or by assumption.
        six; auto.
        right; left. repeat split; auto. intros y [].
      + destruct (Hdeps eq_refl) as (Ha & Hb & Hai & Hbi).
        rewrite deps_no by assumption.
        six; [ intros; upd_tac .. | ].
        right; left. repeat split; auto. upd_tac.
        intros y Hy; upd_tac.
    - (* KEEP_A *)
      assert (Hmm : minmax c) by auto.
      assert (Ho := minmax_no_oracle _ Hmm).
      destruct (Hdeps Ho) as (Ha & Hb & Hai & Hbi). rewrite Ho.
      rewrite deps_no by assumption.
      rewrite nget_upd, Nat.eqb_refl by lia.
      destruct (Nat.eqb_spec (c_a c) 0) as [Ea | Ea]; cbn [negb p_dis p_remap].
      + six; [ intros; upd_tac .. | ].
        right; left. repeat split; auto; upd_tac.
        intros y Hy; upd_tac.
      + six; [ intros; upd_tac .. | ].
        right; right. repeat split; auto; upd_tac.
    - (* KEEP_B *)
      assert (Hmm : minmax c) by auto.
      assert (Ho := minmax_no_oracle _ Hmm).
      destruct (Hdeps Ho) as (Ha & Hb & Hai & Hbi). rewrite Ho.
      rewrite deps_no by assumption.
      rewrite nget_upd, Nat.eqb_refl by lia.
      destruct (Nat.eqb_spec (c_b c) 0) as [Ea | Ea]; cbn [negb p_dis p_remap].
      + six; [ intros; upd_tac .. | ].
        right; left. repeat split; auto; upd_tac.
        intros y Hy; upd_tac.
      + six; [ intros; upd_tac .. | ].
        right; right. repeat split; auto; upd_tac.
    - (* KEEP_ALWAYS *)
      rewrite Hr0. cbn [Nat.eqb negb].
      destruct (is_oracle c) eqn:Ho; cbn [negb p_dis p_remap].
      + rewrite deps_or by assumption.
        six; auto.
        right; left. repeat split; auto. intros y [].
      + destruct (Hdeps eq_refl) as (Ha & Hb & Hai & Hbi).
        rewrite deps_no by assumption.
        six; [ intros; upd_tac .. | ].
        right; left. repeat split; auto. upd_tac.
        intros y Hy; upd_tac.
  Qed.

  Lemma act_mono s s' c : step_rel s s' c -> forall x, act s x -> act s' x.
  Proof.
    intros (Hl1 & Hl2 & Hrm & Hdo & Hdm & Hcase) x Hx.
    destruct (Nat.eq_dec x (c_id c)) as [-> | Hne].
    - destruct Hcase as [[Hd ->] | [(Hd & Hr & Hd' & _) | (Hd & Hr & _)]]; auto.
      + left; assumption.
      + right; assumption.
    - destruct Hx as [Hx | Hx]; [left; auto | right; rewrite Hrm; auto].
  Qed.

  Variable L : list clause.
  Hypothesis Hwf : wf_list n L.
  Hypothesis Hfn : forall c, In c L -> fn c = KEEP_A \/ fn c = KEEP_B -> minmax c.

  Record inv (P : list clause) (s : pstate) : Prop := {
    inv_ld : length (p_dis s) = n;
    inv_lr : length (p_remap s) = n;
    inv_R : forall x, nget (p_remap s) x <> 0 ->
       exists c, In c P /\ c_id c = x /\ bget (p_dis s) x = true /\
                 act s (nget (p_remap s) x) /\ link c (nget (p_remap s) x);
    inv_K : forall c y, In c P -> bget (p_dis s) (c_id c) = false ->
                        In y (deps c) -> act s y }.

  Lemma inv_step P c Q s :
    L = P ++ c :: Q -> inv P s ->
    inv (P ++ [c]) (push_step fn s c) /\ forall x, act s x -> act (push_step fn s c) x.
  Proof.
    intros HL [Hld Hlr HR HK].
    assert (Hw := Hwf). rewrite HL in Hw. apply wf_app in Hw. destruct Hw as [HwQ Hcross].
    destruct HwQ as (Hid & Hdn & Hfresh & Huse & _).
    assert (HcP : forall c0, In c0 P -> c_id c0 <> c_id c /\ ~ In (c_id c0) (deps c)).
    { intros c0 H0. apply Hcross; [assumption | left; reflexivity]. }
    assert (Hr0 : nget (p_remap s) (c_id c) = 0).
    { destruct (Nat.eq_dec (nget (p_remap s) (c_id c)) 0) as [|Hnz]; [assumption|].
      destruct (HR _ Hnz) as (c0 & H0 & E0 & _). destruct (HcP _ H0). contradiction. }
    assert (Hrel : step_rel s (push_step fn s c) c).
    { apply push_step_rel; auto; try lia.
      - apply Huse; left; reflexivity.
      - apply Hfn. rewrite HL. apply in_or_app; right; left; reflexivity. }
    split; [| apply (act_mono _ _ _ Hrel)].
    assert (Hmono := act_mono _ _ _ Hrel).
    remember (push_step fn s c) as s' eqn:Es'. clear Es'.
    destruct Hrel as (Hl1 & Hl2 & Hrm & Hdo & Hdm & Hcase).
    constructor.
    - congruence.
    - congruence.
    - intros x Hx. destruct (Nat.eq_dec x (c_id c)) as [-> | Hne].
      + destruct Hcase as [[Hd ->] | [(Hd & Hr & _) | (Hd & Hr & Hd' & Hdr & Hlk)]];
          try contradiction.
        exists c. split; [apply in_or_app; right; left; reflexivity|].
        split; [reflexivity|]. split; [assumption|]. split; [left; assumption | assumption].
      + rewrite Hrm in Hx |- * by assumption.
        destruct (HR _ Hx) as (c0 & H0 & E0 & Hd0 & Hact & Hlk).
        exists c0. split; [apply in_or_app; left; assumption|]. split; [assumption|].
        destruct (HcP _ H0) as [N1 N2]. rewrite E0 in N1, N2.
        split; [rewrite Hdo; assumption|]. split; [apply Hmono; assumption | assumption].
    - intros c0 y Hin Hd' Hy. apply in_app_or in Hin. destruct Hin as [H0 | [<- | []]].
      + destruct (HcP _ H0) as [N1 N2]. apply Hmono. apply (HK c0 y); auto.
        rewrite <- Hdo; assumption.
      + destruct Hcase as [[Hd ->] | [(Hd & Hr & Hdi & Hall) | (Hd & Hr & Hdi & _)]];
          try congruence.
        left. apply Hall; assumption.
  Qed.

  Lemma inv_fold Q : forall P s,
    L = P ++ Q -> inv P s ->
    inv L (fold_left (push_step fn) Q s) /\
    forall x, act s x -> act (fold_left (push_step fn) Q s) x.
  Proof.
    induction Q as [|c Q IH]; intros P s HL Hinv; simpl.
    - rewrite app_nil_r in HL. subst P. auto.
    - destruct (inv_step P c Q s HL Hinv) as [Hi Hm].
      destruct (IH (P ++ [c]) (push_step fn s c)) as [Hi' Hm']; auto.
      rewrite <- app_assoc. assumption.
  Qed.

  Definition s0 (root : nat) : pstate :=
    {| p_dis := upd (repeat true n) root (fun _ => false);
       p_remap := repeat 0 n; p_term := true; p_changed := false |}.

  Lemma nget_repeat0 x : nget (repeat 0 n) x = 0.
  Proof. unfold nget. apply nth_repeat. Qed.

  Lemma inv_s0 root : inv [] (s0 root).
  Proof.
    constructor; cbn [s0 p_dis p_remap].
    - rewrite length_upd. apply repeat_length.
    - apply repeat_length.
    - intros x Hx. rewrite nget_repeat0 in Hx. congruence.
    - intros c y [].
  Qed.

  Lemma pass_final root :
    let s := fold_left (push_step fn) L (s0 root) in
    inv L s /\ (root < n -> act s root).
  Proof.
    intro s. destruct (inv_fold L [] (s0 root) eq_refl (inv_s0 root)) as [Hi Hm].
    split; [assumption|]. intro Hr. apply Hm. left. cbn [s0 p_dis].
    rewrite bget_upd by (rewrite repeat_length; assumption).
    rewrite Nat.eqb_refl. reflexivity.
  Qed.
End Pass.

(* ---------------------------------------------------------------------- *)
(* 5. The second pass and the semantic argument                           *)
(* ---------------------------------------------------------------------- *)
Definition rew (n : nat) (remap : list nat) (c : clause) : clause :=
  if opcode_eqb (c_op c) ORACLE then c
  else {| c_op := c_op c; c_id := c_id c;
          c_a := chase n remap (c_a c); c_b := chase n remap (c_b c) |}.

Definition kp (dis : list bool) (c : clause) : bool := negb (bget dis (c_id c)).

Lemma rew_id n rm c : c_id (rew n rm c) = c_id c.
Proof. unfold rew; destruct (opcode_eqb (c_op c) ORACLE); reflexivity. Qed.

Lemma rew_op n rm c : c_op (rew n rm c) = c_op c.
Proof. unfold rew; destruct (opcode_eqb (c_op c) ORACLE); reflexivity. Qed.

Lemma rew_oracle n rm c : is_oracle (rew n rm c) = is_oracle c.
Proof. unfold is_oracle. rewrite rew_op. reflexivity. Qed.

Lemma rew_oracle_eq n rm c : is_oracle c = true -> rew n rm c = c.
Proof. unfold is_oracle, rew. intros ->. reflexivity. Qed.

Lemma rew_deps n rm c : deps (rew n rm c) = map (chase n rm) (deps c).
Proof.
  unfold deps. rewrite rew_oracle. unfold rew, is_oracle.
  destruct (opcode_eqb (c_op c) ORACLE); reflexivity.
Qed.

Lemma ids_pushed n rm dis Q x :
  In x (ids (map (rew n rm) (filter (kp dis) Q))) -> In x (ids Q).
Proof.
  intro H. apply in_ids_inv in H. destruct H as (c' & Hc' & <-).
  apply in_map_iff in Hc'. destruct Hc' as (c & <- & Hc).
  apply filter_In in Hc. rewrite rew_id. apply in_ids. tauto.
Qed.

Lemma chase_zero k rm x : nget rm x = 0 -> chase k rm x = x.
Proof. destruct k; simpl; [reflexivity|]. intros ->. reflexivity. Qed.

Section Sem.
  Context {num : Type} (O : ops num).
  Variable oracle_at : nat -> num -> num -> num -> num.
  Variable d : @deck num.
  Notation ev := (eval_tape O oracle_at d).
  Notation sg := (sget O).

  Lemma cres_cong (w1 w2 v : slots) c1 c2 :
    c_op c1 = c_op c2 -> c_id c1 = c_id c2 ->
    (is_oracle c1 = false ->
       sg w1 (c_a c1) = sg w2 (c_a c2) /\ sg w1 (c_b c1) = sg w2 (c_b c2)) ->
    (is_oracle c1 = true -> c_a c1 = c_a c2) ->
    cres O oracle_at d w1 v c1 = cres O oracle_at d w2 v c2.
  Proof.
    unfold cres, is_oracle. intros Eop Eid Hn Ho. rewrite <- Eop, <- Eid.
    destruct (c_op c1); simpl in *;
      try (destruct (Hn eq_refl) as [E1 E2]; rewrite ?E1, ?E2; reflexivity);
      try reflexivity.
    rewrite (Ho eq_refl). reflexivity.
  Qed.

  Variable n : nat.
  Variable fn : clause -> keep.
  Variable L : list clause.
  Variable v : @slots num.
  Variable s : pstate.
  Hypothesis Hwf : wf_list n L.
  Hypothesis Hxyz : xyz_leaf d L.
  Hypothesis Hlen : length v = n.
  Hypothesis Hinv : inv n fn L s.
  Let w := ev L v.
  Hypothesis Hjust : forall c, In c L ->
    (fn c = KEEP_A ->
       o_bin O (c_op c) (sg w (c_a c)) (sg w (c_b c)) = sg w (c_a c)) /\
    (fn c = KEEP_B ->
       o_bin O (c_op c) (sg w (c_a c)) (sg w (c_b c)) = sg w (c_b c)).

  Notation dis := (p_dis s).
  Notation rm := (p_remap s).

  Lemma link_val c r : In c L -> link fn c r -> sg w r = sg w (c_id c).
  Proof.
    intros Hc [Hmm Hl].
    destruct (eval_spec O oracle_at d n L v Hwf Hxyz Hlen) as (_ & _ & Hcl).
    fold w in Hcl. rewrite (Hcl c Hc). unfold cres. rewrite (minmax_args _ Hmm).
    destruct (Hjust c Hc) as [HA HB].
    destruct Hl as [[Hk ->] | [Hk ->]]; symmetry; auto.
  Qed.

  Definition good (r : nat) : Prop := bget dis r = false /\ nget rm r = 0.

  Lemma chase_good : forall k P Q x,
    L = P ++ Q -> length Q <= k -> ~ In x (ids P) -> act s x ->
    good (chase k rm x) /\ sg w (chase k rm x) = sg w x /\ ~ In (chase k rm x) (ids P).
  Proof.
    induction k as [|k IH]; intros P Q x HL Hk HxP Hact.
    - destruct Q; [|simpl in Hk; lia]. rewrite app_nil_r in HL. subst P. simpl.
      assert (Hr : nget rm x = 0).
      { destruct (Nat.eq_dec (nget rm x) 0) as [|Hnz]; [assumption|].
        destruct (inv_R _ _ _ _ Hinv _ Hnz) as (c & Hc & <- & _).
        exfalso. apply HxP. apply in_ids; assumption. }
      split; [|split; [reflexivity | assumption]].
      split; [|assumption]. destruct Hact; [assumption | contradiction].
    - simpl. destruct (Nat.eqb_spec (nget rm x) 0) as [Hr | Hnz].
      + split; [|split; [reflexivity | assumption]].
        split; [|assumption]. destruct Hact; [assumption | contradiction].
      + destruct (inv_R _ _ _ _ Hinv _ Hnz) as (c & Hc & Eid & Hd & Ha & Hlk).
        assert (HcQ : In c Q).
        { rewrite HL in Hc. apply in_app_or in Hc. destruct Hc as [Hc|]; [|assumption].
          exfalso. apply HxP. rewrite <- Eid. apply in_ids; assumption. }
        apply in_split in HcQ. destruct HcQ as (Q1 & Q2 & EQ).
        assert (HL' : L = (P ++ Q1 ++ [c]) ++ Q2).
        { rewrite HL, EQ. rewrite <- !app_assoc. reflexivity. }
        assert (Hdep : In (nget rm x) (deps c)).
        { destruct Hlk as [Hmm Hl]. rewrite deps_no by (apply minmax_no_oracle; assumption).
          simpl. destruct Hl as [[_ ->] | [_ ->]]; auto. }
        assert (Hnot : ~ In (nget rm x) (ids (P ++ Q1 ++ [c]))).
        { intro Hin. apply in_ids_inv in Hin. destruct Hin as (c' & Hc' & Ec').
          assert (Hw := Hwf). rewrite HL, EQ in Hw.
          rewrite app_assoc in Hw. apply wf_app in Hw. destruct Hw as [Hw2 Hcross].
          rewrite app_assoc in Hc'. apply in_app_or in Hc'. destruct Hc' as [Hc' | [<- | []]].
          - destruct (Hcross c' c Hc' (or_introl eq_refl)) as [_ N]. rewrite Ec' in N.
            contradiction.
          - destruct Hw2 as (_ & _ & _ & Huse & _).
            apply (Huse c (or_introl eq_refl)). rewrite Ec'. assumption. }
        destruct (IH (P ++ Q1 ++ [c]) Q2 (nget rm x) HL') as (Hg & Hv & Hn); auto.
        { rewrite EQ in Hk. rewrite app_length in Hk. simpl in Hk. lia. }
        split; [assumption|]. split.
        * rewrite Hv. transitivity (sg w (c_id c)); [apply link_val; assumption|].
          rewrite Eid. reflexivity.
        * intro Hin. apply Hn. rewrite ids_app. apply in_or_app; left; assumption.
  Qed.

  Lemma chase_dep P c Q y :
    L = P ++ c :: Q -> bget dis (c_id c) = false -> In y (deps c) ->
    good (chase n rm y) /\ sg w (chase n rm y) = sg w y /\
    ~ In (chase n rm y) (ids (P ++ [c])).
  Proof.
    intros HL Hd Hy.
    assert (HL' : L = (P ++ [c]) ++ Q) by (rewrite <- app_assoc; assumption).
    assert (Hc : In c L) by (rewrite HL; apply in_or_app; right; left; reflexivity).
    apply (chase_good n (P ++ [c]) Q y HL').
    - assert (Hl := wf_length _ _ Hwf). rewrite HL, app_length in Hl. simpl in Hl. lia.
    - intro Hin. apply in_ids_inv in Hin. destruct Hin as (c' & Hc' & Ec').
      assert (Hw := Hwf). rewrite HL in Hw. apply wf_app in Hw. destruct Hw as [Hw2 Hcross].
      apply in_app_or in Hc'. destruct Hc' as [Hc' | [<- | []]].
      + destruct (Hcross c' c Hc' (or_introl eq_refl)) as [_ N]. rewrite Ec' in N.
        contradiction.
      + destruct Hw2 as (_ & _ & _ & Huse & _).
        apply (Huse c (or_introl eq_refl)). rewrite Ec'. assumption.
    - apply (inv_K _ _ _ _ Hinv c y); assumption.
  Qed.

  Notation L' := (map (rew n rm) (filter (kp dis) L)).

  Lemma kept_in c : In c L -> bget dis (c_id c) = false ->
    In (rew n rm c) L'.
  Proof.
    intros Hc Hd. apply in_map. apply filter_In. split; [assumption|].
    unfold kp. rewrite Hd. reflexivity.
  Qed.

  Lemma pushed_wf_gen : forall Q P, L = P ++ Q ->
    wf_list n (map (rew n rm) (filter (kp dis) Q)).
  Proof.
    induction Q as [|c Q IH]; intros P HL; [exact I|].
    assert (HL' : L = (P ++ [c]) ++ Q) by (rewrite <- app_assoc; assumption).
    simpl. destruct (kp dis c) eqn:Hk; [|apply (IH _ HL')].
    assert (Hd : bget dis (c_id c) = false).
    { unfold kp in Hk. destruct (bget dis (c_id c)); [discriminate | reflexivity]. }
    assert (Hw := Hwf). rewrite HL in Hw. apply wf_app in Hw. destruct Hw as [Hw2 Hcross].
    destruct Hw2 as (Hid & Hdn & Hfresh & Huse & HwQ).
    simpl. rewrite rew_id.
    split; [assumption|]. split; [|split; [|split; [|apply (IH _ HL')]]].
    - intros y Hy. rewrite rew_deps in Hy. apply in_map_iff in Hy.
      destruct Hy as (y0 & <- & Hy0).
      destruct (chase_dep P c Q y0 HL Hd Hy0) as ([Hg _] & _ & _).
      apply bget_false_lt in Hg. rewrite (inv_ld _ _ _ _ Hinv) in Hg. assumption.
    - intro Hin. apply ids_pushed in Hin. contradiction.
    - intros c' Hc' Hin.
      assert (Hex : exists c0, In c0 (c :: Q) /\ bget dis (c_id c0) = false /\ c' = rew n rm c0).
      { destruct Hc' as [<- | Hc']; [exists c; simpl; auto|].
        apply in_map_iff in Hc'. destruct Hc' as (c0 & <- & Hc0).
        apply filter_In in Hc0. destruct Hc0 as [Hc0 Hk0]. exists c0.
        split; [right; assumption|]. split; [|reflexivity].
        unfold kp in Hk0. destruct (bget dis (c_id c0)); [discriminate | reflexivity]. }
      destruct Hex as (c0 & Hc0 & Hd0 & ->).
      rewrite rew_deps in Hin. apply in_map_iff in Hin. destruct Hin as (y0 & Ey & Hy0).
      destruct Hc0 as [<- | Hc0].
      + destruct (chase_dep P c Q y0 HL Hd Hy0) as (_ & _ & Hn).
        apply Hn. rewrite Ey. apply in_ids. apply in_or_app; right; left; reflexivity.
      + apply in_split in Hc0. destruct Hc0 as (Q1 & Q2 & EQ).
        assert (HL2 : L = (P ++ c :: Q1) ++ c0 :: Q2).
        { rewrite HL, EQ, <- app_assoc. reflexivity. }
        destruct (chase_dep _ c0 Q2 y0 HL2 Hd0 Hy0) as (_ & _ & Hn).
        apply Hn. rewrite Ey. apply in_ids. rewrite <- app_assoc.
        apply in_or_app; right; left; reflexivity.
  Qed.

  Lemma pushed_wf : wf_list n L'.
  Proof. apply (pushed_wf_gen L []). reflexivity. Qed.

  Lemma pushed_xyz : xyz_leaf d L'.
  Proof.
    intros c' Hc' Ho. apply in_map_iff in Hc'. destruct Hc' as (c & <- & Hc).
    apply filter_In in Hc. destruct Hc as [Hc _]. rewrite rew_oracle in Ho.
    destruct (Hxyz c Hc Ho) as (HX & HY & HZ).
    repeat split; intro Hin; apply ids_pushed in Hin; contradiction.
  Qed.

  Let w' := ev L' v.

  Lemma kept_agree_gen : forall Q P, L = P ++ Q ->
    forall c, In c Q -> bget dis (c_id c) = false -> sg w' (c_id c) = sg w (c_id c).
  Proof.
    destruct (eval_spec O oracle_at d n L v Hwf Hxyz Hlen) as (Hwl & Hleaf & Hcl).
    destruct (eval_spec O oracle_at d n L' v pushed_wf pushed_xyz Hlen) as (Hwl' & Hleaf' & Hcl').
    fold w in Hwl, Hleaf, Hcl. fold w' in Hwl', Hleaf', Hcl'.
    induction Q as [|c0 Q IH]; intros P HL c Hc Hd; [destruct Hc|].
    assert (HL' : L = (P ++ [c0]) ++ Q) by (rewrite <- app_assoc; assumption).
    destruct Hc as [<- | Hc]; [|apply (IH _ HL' c Hc Hd)].
    assert (HcL : In c0 L) by (rewrite HL; apply in_or_app; right; left; reflexivity).
    rewrite (Hcl c0 HcL). rewrite <- (rew_id n rm c0).
    rewrite (Hcl' _ (kept_in c0 HcL Hd)).
    apply cres_cong.
    - apply rew_op.
    - apply rew_id.
    - rewrite rew_oracle. intro Ho.
      assert (Harg : forall y, In y (deps c0) -> sg w' (chase n rm y) = sg w y).
      { intros y Hy. destruct (chase_dep P c0 Q y HL Hd Hy) as ([Hg _] & Hv & Hn).
        rewrite <- Hv. set (r := chase n rm y) in *.
        destruct (in_dec Nat.eq_dec r (ids L)) as [Hin | Hnin].
        - apply in_ids_inv in Hin. destruct Hin as (c2 & Hc2 & E2).
          rewrite <- E2. apply (IH _ HL').
          + rewrite HL' in Hc2. apply in_app_or in Hc2. destruct Hc2 as [Hc2|]; [|assumption].
            exfalso. apply Hn. rewrite <- E2. apply in_ids; assumption.
          + rewrite E2; assumption.
        - rewrite Hleaf by assumption. apply Hleaf'.
          intro Hin. apply ids_pushed in Hin. contradiction. }
      unfold rew. unfold is_oracle in Ho. rewrite Ho. cbn [c_a c_b].
      rewrite deps_no in Harg by assumption.
      split; apply Harg; simpl; auto.
    - intro Ho. rewrite rew_oracle in Ho. rewrite rew_oracle_eq by assumption. reflexivity.
  Qed.

  Lemma enabled_agree r : bget dis r = false -> sg w' r = sg w r.
  Proof.
    intro Hd. destruct (in_dec Nat.eq_dec r (ids L)) as [Hin | Hnin].
    - apply in_ids_inv in Hin. destruct Hin as (c & Hc & <-).
      apply (kept_agree_gen L [] eq_refl c Hc Hd).
    - destruct (eval_spec O oracle_at d n L v Hwf Hxyz Hlen) as (_ & Hleaf & _).
      destruct (eval_spec O oracle_at d n L' v pushed_wf pushed_xyz Hlen) as (_ & Hleaf' & _).
      fold w in Hleaf. fold w' in Hleaf'.
      rewrite Hleaf by assumption. apply Hleaf'.
      intro Hin. apply ids_pushed in Hin. contradiction.
  Qed.

  Lemma kept_agree c' : In c' L' -> sg w' (c_id c') = sg w (c_id c').
  Proof.
    intro Hc'. apply in_map_iff in Hc'. destruct Hc' as (c & <- & Hc).
    apply filter_In in Hc. destruct Hc as [Hc Hk]. rewrite rew_id.
    apply enabled_agree. unfold kp in Hk.
    destruct (bget dis (c_id c)); [discriminate | reflexivity].
  Qed.

  Lemma root_agree root :
    (root < n -> act s root) ->
    sg w' (chase n rm root) = sg w root.
  Proof.
    intro Hact. destruct (Nat.lt_ge_cases root n) as [Hlt | Hge].
    - destruct (chase_good n [] L root eq_refl (wf_length _ _ Hwf)) as ([Hg _] & Hv & _); auto.
      rewrite <- Hv. apply enabled_agree. assumption.
    - assert (Hr : nget rm root = 0).
      { unfold nget. apply nth_overflow. rewrite (inv_lr _ _ _ _ Hinv). assumption. }
      rewrite chase_zero by assumption.
      destruct (eval_spec O oracle_at d n L v Hwf Hxyz Hlen) as (Hwl & _ & _).
      destruct (eval_spec O oracle_at d n L' v pushed_wf pushed_xyz Hlen) as (Hwl' & _ & _).
      fold w in Hwl. fold w' in Hwl'. unfold sget.
      rewrite !nth_overflow by lia. reflexivity.
  Qed.
End Sem.

(* ---------------------------------------------------------------------- *)
(* 6. Main theorem and corollaries                                        *)
(* ---------------------------------------------------------------------- *)
Lemma tape_push_cases n fn t :
  tape_push n fn t = t \/
  t_terminal t = false /\
  let s := fold_left (push_step fn) (t_clauses t) (s0 n (t_root t)) in
  tape_push n fn t =
    {| t_clauses := map (rew n (p_remap s)) (filter (kp (p_dis s)) (t_clauses t));
       t_root := chase n (p_remap s) (t_root t);
       t_terminal := p_term s |}.
Proof.
  unfold tape_push. destruct (t_terminal t); [left; reflexivity|].
  fold (s0 n (t_root t)).
  destruct (negb (p_changed (fold_left (push_step fn) (t_clauses t) (s0 n (t_root t)))));
    [left; reflexivity | right; split; reflexivity].
Qed.

Theorem terminal_fixpoint n fn t : t_terminal t = true -> tape_push n fn t = t.
Proof. intro H. unfold tape_push. rewrite H. reflexivity. Qed.

(* L' is a sub-sequence of L up to rewriting of the argument fields *)
Definition sub_rewrite (L' L : list clause) : Prop :=
  exists (keepf : clause -> bool) (rw : clause -> clause),
    L' = map rw (filter keepf L) /\
    forall c, c_op (rw c) = c_op c /\ c_id (rw c) = c_id c.

Lemma sub_rewrite_refl L : sub_rewrite L L.
Proof.
  exists (fun _ => true), (fun c => c). split; [|auto].
  rewrite filter_all by reflexivity. rewrite map_id. reflexivity.
Qed.

Section Main.
  Context {num : Type} (O : ops num).
  Variable oracle_at : nat -> num -> num -> num -> num.
  Variable d : @deck num.
  Notation ev := (eval_tape O oracle_at d).
  Notation sg := (sget O).

  Definition justified (v : slots) (fn : clause -> keep) (t : tape) : Prop :=
    let w := ev (t_clauses t) v in
    forall c, In c (t_clauses t) ->
      (fn c = KEEP_A ->
         minmax c /\ o_bin O (c_op c) (sg w (c_a c)) (sg w (c_b c)) = sg w (c_a c)) /\
      (fn c = KEEP_B ->
         minmax c /\ o_bin O (c_op c) (sg w (c_a c)) (sg w (c_b c)) = sg w (c_b c)).

  Theorem push_preserves n t v fn :
    tape_wf d n t -> length v = n -> justified v fn t ->
    let t' := tape_push n fn t in
    let w := ev (t_clauses t) v in
    let w' := ev (t_clauses t') v in
    (* (a) *)
    sg w' (t_root t') = sg w (t_root t) /\
    (forall c', In c' (t_clauses t') -> sg w' (c_id c') = sg w (c_id c')) /\
    (* (b) *)
    length (t_clauses t') <= length (t_clauses t) /\
    sub_rewrite (t_clauses t') (t_clauses t) /\
    (* (c) *)
    tape_wf d n t'.
  Proof.
    intros Hwf Hlen Hj. cbv zeta.
    destruct (tape_push_cases n fn t) as [E | [_ E]]; cbv zeta in E; rewrite E.
    { split; [reflexivity|]. split; [reflexivity|]. split; [apply le_n|].
      split; [apply sub_rewrite_refl | assumption]. }
    cbn [t_clauses t_root].
    destruct Hwf as [Hwl Hxyz].
    set (L := t_clauses t) in *.
    assert (Hfn : forall c, In c L -> fn c = KEEP_A \/ fn c = KEEP_B -> minmax c).
    { intros c Hc Hk. destruct (Hj c Hc) as [HA HB].
      destruct Hk as [Hk | Hk]; [apply (HA Hk) | apply (HB Hk)]. }
    assert (Hjv : forall c, In c L ->
      (fn c = KEEP_A ->
         o_bin O (c_op c) (sg (ev L v) (c_a c)) (sg (ev L v) (c_b c)) = sg (ev L v) (c_a c)) /\
      (fn c = KEEP_B ->
         o_bin O (c_op c) (sg (ev L v) (c_a c)) (sg (ev L v) (c_b c)) = sg (ev L v) (c_b c))).
    { intros c Hc. destruct (Hj c Hc) as [HA HB].
      split; intro Hk; [apply (HA Hk) | apply (HB Hk)]. }
    destruct (pass_final n fn L Hwl Hfn (t_root t)) as [Hinv Hroot].
    set (s := fold_left (push_step fn) L (s0 n (t_root t))) in *.
    split; [apply (root_agree O oracle_at d n fn L v s); assumption|].
    split; [apply (kept_agree O oracle_at d n fn L v s); assumption|].
    split; [rewrite map_length; apply filter_length_le'|].
    split.
    - exists (kp (p_dis s)), (rew n (p_remap s)). split; [reflexivity|].
      intro c. split; [apply rew_op | apply rew_id].
    - split; [apply (pushed_wf O oracle_at d n fn L v s); assumption|].
      apply pushed_xyz; assumption.
  Qed.

  (* nested pushes *)
  Fixpoint push_all (n : nat) (fns : list (clause -> keep)) (t : tape) : tape :=
    match fns with
    | [] => t
    | f :: r => push_all n r (tape_push n f t)
    end.

  (* each keep function is justified, at the same slot values [v], for the
     tape it is applied to *)
  Fixpoint all_justified (n : nat) (v : slots) (fns : list (clause -> keep)) (t : tape) : Prop :=
    match fns with
    | [] => True
    | f :: r => justified v f t /\ all_justified n v r (tape_push n f t)
    end.

  Theorem nested_push n v fns : forall t,
    tape_wf d n t -> length v = n -> all_justified n v fns t ->
    let t' := push_all n fns t in
    tape_wf d n t' /\
    sg (ev (t_clauses t') v) (t_root t') = sg (ev (t_clauses t) v) (t_root t) /\
    length (t_clauses t') <= length (t_clauses t).
  Proof.
    induction fns as [|f r IH]; intros t Hwf Hlen Hall; simpl.
    - split; [assumption|]. split; [reflexivity | apply le_n].
    - destruct Hall as [Hj Hr].
      destruct (push_preserves n t v f Hwf Hlen Hj) as (Ha & _ & Hb & _ & Hc).
      destruct (IH _ Hc Hlen Hr) as (Hw & Hv & Hl). cbv zeta in Hw, Hv, Hl.
      split; [assumption|]. split; [congruence | lia].
  Qed.

  (* ---- ArrayEvaluator::valueAndPush --------------------------------- *)
  Definition sel_gt : Prop :=
    forall a b, o_ltb O b a = true -> o_bin O OP_MAX a b = a /\ o_bin O OP_MIN a b = b.
  Definition sel_lt : Prop :=
    forall a b, o_ltb O a b = true -> o_bin O OP_MAX a b = b /\ o_bin O OP_MIN a b = a.

  Lemma keep_point_justified v t :
    sel_gt -> sel_lt -> justified v (keep_point O (ev (t_clauses t) v)) t.
  Proof.
    intros H1 H2 c Hc. unfold keep_point, sget.
    set (a := nth (c_a c) _ _). set (b := nth (c_b c) _ _).
    unfold minmax.
    destruct (c_op c) eqn:Eop; (split; intro Hk; try discriminate Hk);
      destruct (o_ltb O b a) eqn:Hba; try discriminate Hk;
      try (split; [auto | apply (H1 a b Hba)]);
      destruct (o_ltb O a b) eqn:Hab; try discriminate Hk;
      split; auto; apply (H2 a b Hab).
  Qed.

  Theorem point_push n t v :
    tape_wf d n t -> length v = n -> sel_gt -> sel_lt ->
    let w := ev (t_clauses t) v in
    let t' := tape_push n (keep_point O w) t in
    tape_wf d n t' /\
    sg (ev (t_clauses t') v) (t_root t') = sg w (t_root t).
  Proof.
    intros Hwf Hlen H1 H2. cbv zeta.
    destruct (push_preserves n t v _ Hwf Hlen (keep_point_justified v t H1 H2))
      as (Ha & _ & _ & _ & Hc).
    split; assumption.
  Qed.

  (* valueAndPush iterated on its own result *)
  Fixpoint point_push_iter (n : nat) (v : slots) (k : nat) (t : tape) : tape :=
    match k with
    | 0 => t
    | S k => point_push_iter n v k (tape_push n (keep_point O (ev (t_clauses t) v)) t)
    end.

  Theorem point_push_iter_preserves n v k : forall t,
    tape_wf d n t -> length v = n -> sel_gt -> sel_lt ->
    let t' := point_push_iter n v k t in
    tape_wf d n t' /\
    sg (ev (t_clauses t') v) (t_root t') = sg (ev (t_clauses t) v) (t_root t).
  Proof.
    induction k as [|k IH]; intros t Hwf Hlen H1 H2; simpl.
    - split; [assumption | reflexivity].
    - destruct (point_push n t v Hwf Hlen H1 H2) as [Hc Ha]. cbv zeta in Hc, Ha.
      destruct (IH _ Hc Hlen H1 H2) as [Hw Hv]. cbv zeta in Hw, Hv.
      split; [assumption | congruence].
  Qed.

  (* ---- IntervalEvaluator::push -------------------------------------- *)
  (* [ok x]: x is a value on which o_ltb behaves like a strict total order
     (for IEEE floats: x is not a NaN) *)
  Record ord_laws (ok : num -> Prop) : Prop := {
    ol_gt : sel_gt;
    ol_lt : sel_lt;
    ol_min_idem : forall x, o_bin O OP_MIN x x = x;
    ol_max_idem : forall x, o_bin O OP_MAX x x = x;
    (* x <= p < q <= y  ->  x < y *)
    ol_sandwich : forall x p q y, ok x -> ok y ->
      o_ltb O p x = false -> o_ltb O p q = true -> o_ltb O y q = false ->
      o_ltb O x y = true }.

  Definition encloses (lo hi : list num) (w : slots) : Prop :=
    forall s, o_ltb O (sg w s) (nth s lo (o_zero O)) = false /\
              o_ltb O (nth s hi (o_zero O)) (sg w s) = false.

  (* an unflagged slot holds an ordered (non-NaN) value *)
  Definition flags_sound (ok : num -> Prop) (maybe_nan : list bool) (w : slots) : Prop :=
    forall s, nth s maybe_nan false = false -> ok (sg w s).

  Lemma keep_interval_justified ok v t lo hi maybe_nan :
    ord_laws ok ->
    encloses lo hi (ev (t_clauses t) v) ->
    flags_sound ok maybe_nan (ev (t_clauses t) v) ->
    justified v (keep_interval O lo hi maybe_nan) t.
  Proof.
    intros [H1 H2 Hmin Hmax Hsw] Henc Hfl c Hc. unfold keep_interval.
    set (w := ev (t_clauses t) v) in *.
    destruct (Henc (c_a c)) as [Hal Hah]. destruct (Henc (c_b c)) as [Hbl Hbh].
    set (alo := nth (c_a c) lo _) in *. set (ahi := nth (c_a c) hi _) in *.
    set (blo := nth (c_b c) lo _) in *. set (bhi := nth (c_b c) hi _) in *.
    unfold minmax.
    destruct (c_op c) eqn:Eop; (split; intro Hk; try discriminate Hk).
    all: destruct (Nat.eqb_spec (c_a c) (c_b c)) as [Eab | Nab];
      [ try discriminate Hk; split; auto; rewrite <- Eab; auto | ].
    all: destruct (nth (c_a c) maybe_nan false) eqn:Fa; [discriminate Hk|].
    all: destruct (nth (c_b c) maybe_nan false) eqn:Fb; [discriminate Hk|].
    all: cbn [orb] in Hk.
    all: assert (Hoa := Hfl _ Fa); assert (Hob := Hfl _ Fb).
    all: destruct (o_ltb O bhi alo) eqn:Hba; try discriminate Hk;
      try (split; [auto | apply H1; apply (Hsw _ bhi alo _); assumption]).
    all: destruct (o_ltb O ahi blo) eqn:Hab; try discriminate Hk;
      split; auto; apply H2; apply (Hsw _ ahi blo _); assumption.
  Qed.

  Theorem interval_push ok n t v lo hi maybe_nan :
    tape_wf d n t -> length v = n -> ord_laws ok ->
    let w := ev (t_clauses t) v in
    encloses lo hi w -> flags_sound ok maybe_nan w ->
    let t' := tape_push n (keep_interval O lo hi maybe_nan) t in
    tape_wf d n t' /\
    sg (ev (t_clauses t') v) (t_root t') = sg w (t_root t).
  Proof.
    intros Hwf Hlen Hlaws w Henc Hfl. cbv zeta.
    destruct (push_preserves n t v _ Hwf Hlen
                (keep_interval_justified ok v t lo hi maybe_nan Hlaws Henc Hfl))
      as (Ha & _ & _ & _ & Hc).
    split; assumption.
  Qed.
End Main.

(* ---------------------------------------------------------------------- *)
(* 7. The keep function that ignored the may-be-NaN flags was unsound     *)
(* ---------------------------------------------------------------------- *)
Module NaNCounterexample.
  (* naturals plus one unordered element: None plays the role of NaN *)
  Definition N := option nat.
  Definition lt (a b : N) : bool :=
    match a, b with Some x, Some y => Nat.ltb x y | _, _ => false end.
  Definition bin (op : opcode) (a b : N) : N :=
    match a, b with
    | Some x, Some y =>
        match op with
        | OP_MAX => Some (Nat.max x y)
        | OP_MIN => Some (Nat.min x y)
        | _ => Some 0
        end
    | _, _ => None
    end.
  Definition NO : ops N :=
    {| o_un := fun _ x => x; o_bin := bin; o_zero := Some 0; o_one := Some 1;
       o_eqb := fun _ _ => false; o_ltb := lt;
       o_isnan := fun x => match x with None => true | _ => false end |}.
  Definition orc (_ : nat) (_ _ _ : N) : N := None.
  Definition dk : @deck N := deck0.

  (* IntervalEvaluator::push as it was before the fix: bounds only *)
  Definition old_keep_interval {num} (O : ops num) (lo hi : list num) (c : clause) : keep :=
    let alo := nth (c_a c) lo (o_zero O) in let ahi := nth (c_a c) hi (o_zero O) in
    let blo := nth (c_b c) lo (o_zero O) in let bhi := nth (c_b c) hi (o_zero O) in
    match c_op c with
    | OP_MAX =>
        if Nat.eqb (c_a c) (c_b c) then KEEP_A
        else if o_ltb O bhi alo then KEEP_A
        else if o_ltb O ahi blo then KEEP_B
        else KEEP_BOTH
    | OP_MIN =>
        if Nat.eqb (c_a c) (c_b c) then KEEP_A
        else if o_ltb O bhi alo then KEEP_B
        else if o_ltb O ahi blo then KEEP_A
        else KEEP_BOTH
    | _ => KEEP_ALWAYS
    end.

  (* the fixed function is the old one guarded by the flags: with no flag
     raised they coincide *)
  Lemma keep_interval_no_flags {num} (O : ops num) lo hi c :
    keep_interval O lo hi [] c = old_keep_interval O lo hi c.
  Proof.
    unfold keep_interval, old_keep_interval.
    destruct (c_a c), (c_b c); reflexivity.
  Qed.

  (* slot 3 = max(slot 1, slot 2);  slot 1 holds NaN, slot 2 holds 7 *)
  Definition c := {| c_op := OP_MAX; c_id := 3; c_a := 1; c_b := 2 |}.
  Definition t := {| t_clauses := [c]; t_root := 3; t_terminal := false |}.
  Definition v : list N := [Some 0; None; Some 7; Some 0].
  (* bounds: slot 1 in [0,5], slot 2 in [7,7] *)
  Definition lo : list N := [Some 0; Some 0; Some 7; Some 0].
  Definition hi : list N := [Some 0; Some 5; Some 7; Some 0].

  Lemma NO_sel_gt : sel_gt NO.
  Proof.
    intros [a|] [b|]; simpl; try discriminate. intro H. apply Nat.ltb_lt in H.
    split; f_equal; lia.
  Qed.
  Lemma NO_sel_lt : sel_lt NO.
  Proof.
    intros [a|] [b|]; simpl; try discriminate. intro H. apply Nat.ltb_lt in H.
    split; f_equal; lia.
  Qed.
  Lemma NO_idem : forall x, o_bin NO OP_MIN x x = x /\ o_bin NO OP_MAX x x = x.
  Proof. intros [a|]; simpl; split; f_equal; lia. Qed.

  Example old_interval_push_unsound :
    let w := eval_tape NO orc dk (t_clauses t) v in
    let t' := tape_push 4 (old_keep_interval NO lo hi) t in
    tape_wf dk 4 t /\ length v = 4 /\ encloses NO lo hi w /\
    sget NO w (t_root t) = None /\
    sget NO (eval_tape NO orc dk (t_clauses t') v) (t_root t') = Some 7.
  Proof.
    cbv zeta. split; [|split; [reflexivity|split; [|split; reflexivity]]].
    - split.
      + simpl. unfold deps; simpl.
        split; [lia|]. split; [intros s [<- | [<- | []]]; lia|]. split; [tauto|].
        split; [|exact I]. intros c' [<- | []]. simpl. lia.
      + intros c0 [<- | []] Ho. discriminate Ho.
    - intro s. do 4 (destruct s as [|s]; [split; reflexivity|]).
      split; destruct s; reflexivity.
  Qed.

  (* with slot 1 flagged, the fixed keep function keeps both branches and
     push returns the tape unchanged *)
  Example new_interval_push_sound :
    tape_push 4 (keep_interval NO lo hi [false; true; false; false]) t = t.
  Proof. reflexivity. Qed.
End NaNCounterexample.

Print Assumptions push_preserves.
Print Assumptions nested_push.
Print Assumptions point_push.
Print Assumptions point_push_iter_preserves.
Print Assumptions interval_push.
Print Assumptions terminal_fixpoint.
Print Assumptions NaNCounterexample.old_interval_push_unsound.
