(* The per-opcode forward-mode derivative kernels of DerivArrayEvaluator::operator()
   (eval_deriv_array.cpp), one position, formulas exactly as written (including the
   special cases: sqrt / nth_root give 0 when the incoming derivative is 0 or the
   argument negative, abs uses av > 0, mod passes ad through, pow ignores bd,
   min / max select on av < bv).  A derivative is the triple (d/dx, d/dy, d/dz). *)
From Coq Require Import List Bool.
From LF Require Import Base.Opcode Base.Num.

Section Deriv.
  Context {num : Type} (O : ops num).
  Definition dvec := (num * num * num)%type.

  Notation "a +. b" := (o_add O a b) (at level 50, left associativity).
  Notation "a -. b" := (o_sub O a b) (at level 50, left associativity).
  Notation "a *. b" := (o_mul O a b) (at level 40, left associativity).
  Notation "a /. b" := (o_div O a b) (at level 40, left associativity).

  Definition d3 (f : num -> num) (v : dvec) : dvec :=
    let '(x, y, z) := v in (f x, f y, f z).
  Definition d3_2 (f : num -> num -> num) (u v : dvec) : dvec :=
    let '(x, y, z) := u in let '(x', y', z') := v in (f x x', f y y', f z z').
  Definition dzero : dvec := (o_zero O, o_zero O, o_zero O).
  Definition dscale (v : dvec) (s : num) : dvec := d3 (fun x => x *. s) v.     (* ad.rowwise() * s *)
  Definition ddivs (v : dvec) (s : num) : dvec := d3 (fun x => x /. s) v.      (* ad.rowwise() / s *)
  Definition two : num := o_one O +. o_one O.
  Definition sq (x : num) : num := o_bin O OP_POW x two.                       (* x.pow(2) *)

  Definition dkern (clear_vars : bool) (op : opcode) (av bv ov : num) (ad bd : dvec) : dvec :=
    match op with
    | OP_ADD => d3_2 (o_add O) ad bd
    | OP_MUL => d3_2 (o_add O) (dscale bd av) (dscale ad bv)
    | OP_MIN => if o_ltb O av bv then ad else bd
    | OP_MAX => if o_ltb O av bv then bd else ad
    | OP_SUB => d3_2 (o_sub O) ad bd
    | OP_DIV => ddivs (d3_2 (o_sub O) (dscale ad bv) (dscale bd av)) (sq bv)
    | OP_ATAN2 => ddivs (d3_2 (o_sub O) (dscale ad bv) (dscale bd av)) (sq av +. sq bv)
    | OP_POW => dscale ad (bv *. o_bin O OP_POW av (bv -. o_one O))
    | OP_NTH_ROOT =>
        (* odd root of a negative base: |x|^(1/n - 1) / n  (int(bv) & 1 tested via mod) *)
        let odd := o_eqb O (o_bin O OP_MOD bv two) (o_one O) in
        let base := if o_ltb O av (o_zero O) && odd then o_neg O av else av in
        d3 (fun a => if o_eqb O a (o_zero O) then o_zero O
                     else a *. (o_bin O OP_POW base (o_one O /. bv -. o_one O) /. bv)) ad
    | OP_MOD => ad
    | OP_NANFILL => if o_isnan O av then bd else ad
    | OP_COMPARE => dzero
    | OP_SQUARE => dscale (dscale ad av) two
    | OP_SQRT =>
        d3 (fun a => if o_ltb O av (o_zero O) || o_eqb O a (o_zero O) then o_zero O
                     else a /. (two *. ov)) ad
    | OP_NEG => d3 (o_neg O) ad
    | OP_SIN => dscale ad (o_un O OP_COS av)
    | OP_COS => dscale ad (o_neg O (o_un O OP_SIN av))
    | OP_TAN => dscale ad (sq (o_one O /. o_un O OP_COS av))
    | OP_ASIN => ddivs ad (o_un O OP_SQRT (o_one O -. sq av))
    | OP_ACOS => ddivs ad (o_neg O (o_un O OP_SQRT (o_one O -. sq av)))
    | OP_ATAN => ddivs ad (sq av +. o_one O)
    | OP_LOG => ddivs ad av
    | OP_EXP => dscale ad (o_un O OP_EXP av)
    | OP_ABS => if o_ltb O (o_zero O) av then ad else d3 (o_neg O) ad
    | OP_RECIP => ddivs ad (o_neg O (sq av))
    | CONST_VAR => if clear_vars then dzero else ad
    | _ => dzero
    end.
End Deriv.
