(* Tape::getBase (tape.cpp), both overloads: walk up the parent chain until an
   INTERVAL-type tape whose stored region contains the query, or the root.

   A chain is listed innermost first; the root tape (no parent) is separate. *)
From Coq Require Import List Bool.
From LF Require Import Base.Opcode Base.Num.
Import ListNotations.

Section GetBase.
  Context {num : Type} (O : ops num) {T : Type}.

  Definition o_leb (a b : num) : bool := o_ltb O a b || o_eqb O a b.   (* C++ <= on float *)

  Definition pt := (num * num * num)%type.
  Record level := { l_interval : bool;          (* type == Tape::INTERVAL *)
                    l_lo : pt; l_hi : pt;       (* X, Y, Z bounds stored by Tape::push *)
                    l_tape : T }.

  Definition in_level (p : pt) (l : level) : bool :=
    let '(x, y, z) := p in
    let '(lx, ly, lz) := l_lo l in let '(ux, uy, uz) := l_hi l in
    o_leb lx x && o_leb x ux && o_leb ly y && o_leb y uy && o_leb lz z && o_leb z uz.

  Definition box_in_level (lo hi : pt) (l : level) : bool :=
    let '(ax, ay, az) := lo in let '(bx, by_, bz) := hi in
    let '(lx, ly, lz) := l_lo l in let '(ux, uy, uz) := l_hi l in
    o_leb lx ax && o_leb bx ux && o_leb ly ay && o_leb by_ uy && o_leb lz az && o_leb bz uz.

  (* index of the level returned (length chain = the root) and the tape itself *)
  Fixpoint get_base_idx (test : level -> bool) (chain : list level) : nat :=
    match chain with
    | [] => 0
    | l :: rest => if l_interval l && test l then 0 else S (get_base_idx test rest)
    end.

  Fixpoint get_base (test : level -> bool) (chain : list level) (root : T) : T :=
    match chain with
    | [] => root
    | l :: rest => if l_interval l && test l then l_tape l else get_base test rest root
    end.

  Definition get_base_pt (chain : list level) (root : T) (p : pt) : T := get_base (in_level p) chain root.
  Definition get_base_box (chain : list level) (root : T) (lo hi : pt) : T := get_base (box_in_level lo hi) chain root.

  (* --- what a caller may rely on ------------------------------------------ *)
  Variable ev : T -> pt -> num.        (* evaluation of a tape at a point *)

  (* every interval level agrees with the root tape on its own region: the conclusion of the
     push theorems (C05_push_preserves / C05_nested_push) for that level *)
  Definition chain_ok (chain : list level) (root : T) : Prop :=
    forall l, In l chain -> l_interval l = true ->
      forall p, in_level p l = true -> ev (l_tape l) p = ev root p.

  Theorem get_base_pt_sound chain root p :
    chain_ok chain root -> ev (get_base_pt chain root p) p = ev root p.
  Proof.
    unfold get_base_pt. induction chain as [|l rest IH]; intros Hok; [reflexivity|].
    cbn [get_base]. destruct (l_interval l) eqn:Hi; cbn [andb].
    - destruct (in_level p l) eqn:Hin.
      + apply Hok; [left; reflexivity | exact Hi | exact Hin].
      + apply IH. intros l' Hl'. apply Hok. right; exact Hl'.
    - apply IH. intros l' Hl'. apply Hok. right; exact Hl'.
  Qed.

  (* the returned tape is the root or an interval level that contains the query *)
  Theorem get_base_cases test chain root :
    get_base test chain root = root \/
    exists l, In l chain /\ l_interval l = true /\ test l = true /\ get_base test chain root = l_tape l.
  Proof.
    induction chain as [|l rest IH]; [left; reflexivity|].
    cbn [get_base]. destruct (l_interval l && test l) eqn:H.
    - right. exists l. apply andb_prop in H. destruct H as [H1 H2].
      repeat split; auto. left; reflexivity.
    - destruct IH as [IH|[l' (H1 & H2 & H3 & H4)]]; [left; exact IH|].
      right; exists l'. repeat split; auto. right; exact H1.
  Qed.

  (* Region overload: every point of the query box lies in the returned level's region,
     provided [<=] is transitive on the coordinates involved (true of floats without NaN) *)
  Hypothesis leb_trans : forall a b c, o_leb a b = true -> o_leb b c = true -> o_leb a c = true.

  Lemma box_point_in_level lo hi l p :
    box_in_level lo hi l = true ->
    in_level p {| l_interval := true; l_lo := lo; l_hi := hi; l_tape := l_tape l |} = true ->
    in_level p l = true.
  Proof.
    destruct lo as [[ax ay] az], hi as [[bx by_] bz], p as [[x y] z].
    unfold box_in_level, in_level; cbn [l_lo l_hi].
    destruct (l_lo l) as [[lx ly] lz], (l_hi l) as [[ux uy] uz].
    intros H1 H2.
    repeat (apply andb_prop in H1; destruct H1 as [H1 ?]).
    repeat (apply andb_prop in H2; destruct H2 as [H2 ?]).
    repeat (apply andb_true_intro; split); eauto.
  Qed.

  Theorem get_base_box_sound chain root lo hi p :
    chain_ok chain root ->
    in_level p {| l_interval := true; l_lo := lo; l_hi := hi; l_tape := root |} = true ->
    ev (get_base_box chain root lo hi) p = ev root p.
  Proof.
    intros Hok Hp. unfold get_base_box.
    destruct (get_base_cases (box_in_level lo hi) chain root) as [->|[l (H1 & H2 & H3 & ->)]]; [reflexivity|].
    apply Hok; auto. eapply box_point_in_level; eauto.
  Qed.
End GetBase.
