(* The evaluator kernels as the C++ source states them (Gen/DerivKernels_gen.v, Gen/ArrayKernels_gen.v,
   Gen/IntervalDispatch_gen.v, regenerated from eval_deriv_array.cpp / eval_array.cpp / eval_interval.cpp on every
   run by translate/gen_kernels.py) ARE the kernels of the hand-written model that the C01 / C02 / C06 theorems are
   about.  A changed formula, a swapped operand, a case sent to another operation breaks one of these three lemmas. *)
From Coq Require Import List Bool Reals.
From Coquelicot Require Import Coquelicot.
From LF Require Import Base.Opcode Base.Num Eval.Deriv Eval.DerivSem Interval.IntervalModel.
From LF Require Import Gen.DerivKernels_gen Gen.ArrayKernels_gen Gen.IntervalDispatch_gen Eval.ModKernel.

Section Deriv.
  Context {num : Type} (O : ops num).
  (* every derivative formula of DerivArrayEvaluator::operator(), for every number type *)
  Lemma dkern_gen_eq cv op av bv ov ad bd : dkern_gen O cv op av bv ov ad bd = dkern O cv op av bv ov ad bd.
  Proof.
    destruct ad as [[a1 a2] a3], bd as [[b1 b2] b3].
    destruct op; cbn; try reflexivity;
      repeat match goal with |- context [if ?c then _ else _] => destruct c end; reflexivity.
  Qed.
End Deriv.

Section Interval.
  Context {num : Type} (I : @iops num) (B : @bprims num).
  (* IntervalEvaluator::operator() sends every opcode to the Interval:: operation the model says, operands in order *)
  Lemma ieval_gen_eq op a b :
    ieval_gen I B op a b = match args op with Some 1%nat => ieval_un I B op a | _ => ieval_bin I B op a b end.
  Proof. destruct op; reflexivity. Qed.
End Interval.

Local Open Scope R_scope.
(* ArrayEvaluator::operator() read over the reals is the semantic instance [vk] of C01 / C06.  The OP_MOD arm is
   the C++ loop body (fabs, xor of signs, -ceil / floor, two clamps): it is the floor modulo [Rmod] for a non-zero
   divisor (Eval/ModKernel.v); for b = 0 the C++ computes NaN and nothing is claimed. *)
Lemma vkern_gen_eq op a b : (op = OP_MOD -> b <> 0) -> vkern_gen op a b = vk op a b.
Proof.
  intros Hb.
  assert (M : op = OP_MOD -> vkern_gen op a b = vk op a b).
  { intros ->. rewrite (mod_kernel_is_floor_mod a b (Hb eq_refl)). reflexivity. }
  unfold vk. destruct op; try (apply M; reflexivity); clear M Hb; cbn; try reflexivity.
  unfold Rdiv. rewrite Rmult_1_l. reflexivity.
Qed.

(* hence the chain-rule theorem holds for the kernels as the source states them ([smooth_at OP_MOD] contains
   b t <> 0, and the divisor of mod is locally constant: [const_b]) *)
Theorem kernel_correct_source (op : opcode) (a b : R -> R) (t ad bd : R) :
  is_derive a t ad -> is_derive b t bd ->
  smooth_at op (a t) (b t) ->
  (const_b op -> locally t (fun s => b s = b t)) ->
  is_derive (fun s => vkern_gen op (a s) (b s)) t
    (pr1 (dkern_gen RD false op (a t) (b t) (vkern_gen op (a t) (b t)) (ad, ad, ad) (bd, bd, bd))).
Proof.
  intros Ha Hb Hs Hc.
  assert (Hbt : op = OP_MOD -> b t <> 0).
  { intros ->. exact (proj1 Hs). }
  assert (Hloc : locally t (fun s => op = OP_MOD -> b s <> 0)).
  { destruct (opcode_eq_dec op OP_MOD) as [E|E].
    - assert (Hl : locally t (fun s => b s = b t)) by (apply Hc; rewrite E; exact I).
      generalize Hl. apply filter_imp. intros s -> . exact Hbt.
    - apply filter_forall. intros s E'. contradiction. }
  rewrite dkern_gen_eq, dkern_pr1. cbn [pr1 fst].
  rewrite (vkern_gen_eq op (a t) (b t) Hbt).
  eapply is_derive_ext_loc; [|apply (kernel_correct op a b t ad bd Ha Hb Hs Hc)].
  generalize Hloc. apply filter_imp. intros s Hs'. symmetry. apply vkern_gen_eq, Hs'.
Qed.
