(* C15: scratch state of the long-lived evaluators.

   Value rows v(slot, position) and derivative rows d(slot, position) are reused
   across calls; positions at or beyond the current count, and all non-leaf rows,
   hold whatever an earlier query left there.  Rows are modelled as total
   functions position -> value, so "stale" means "arbitrary".

   Theorems (for every number / derivative type, every kernel table):
   1. [derivs_pointwise]: a batched value + derivative pass at position k < count
      equals the single-point pass on position k of the input rows.
   2. [answer_frame], [history_independent], [queries_invisible]: on a well-formed
      tape the result at position k is a function of the LEAF rows at position k
      only (constants, variables, coordinates, derivative seeds); stale content
      of non-leaf rows and of other positions is never observed; queries do not
      modify leaf rows, so a history's queries can be erased.
   3. [feature_run_frame]: FeatureEvaluator's array-wise run over the incoming
      features (arguments AND result row replicated from slot 0, count set)
      returns, for feature i, the kernel applied to the slot-0 values and the
      i-th feature derivatives: a function of the query alone.
      [old_feature_run_depends_on_stale]: without replicating the result row the
      answer depends on stale content (sqrt-style kernels read their own value).
   4. [setvar_*]: setVar writes the whole row, so a long-lived evaluator after
      setVar is leaf-equivalent to a freshly constructed one and answers every
      query identically. *)
From Coq Require Import List Arith Bool Lia.
From LF Require Import Base.Opcode Eval.Deck.
Import ListNotations.

Section EvalState.
  Context {num dnum : Type}.
  (* value kernel and derivative kernel of one clause, per position *)
  Variable vk : opcode -> num -> num -> num.
  Variable dk : opcode -> num -> num -> num -> dnum -> dnum -> dnum.   (* op av bv ov ad bd *)

  Definition row (A : Type) := nat -> A.
  Definition rows (A : Type) := nat -> row A.
  Definition rset {A} (r : rows A) (s : nat) (x : row A) : rows A :=
    fun s' => if Nat.eqb s' s then x else r s'.
  (* kernels run over the first [cs] positions only *)
  Definition upto {A} (cs : nat) (new old : row A) : row A := fun k => if k <? cs then new k else old k.

  (* ArrayEvaluator::operator() and DerivArrayEvaluator::operator() for one clause *)
  Definition vclause (cs : nat) (v : rows num) (c : clause) : rows num :=
    rset v (c_id c) (upto cs (fun k => vk (c_op c) (v (c_a c) k) (v (c_b c) k)) (v (c_id c))).
  Definition dclause (cs : nat) (v : rows num) (d : rows dnum) (c : clause) : rows dnum :=
    rset d (c_id c) (upto cs (fun k => dk (c_op c) (v (c_a c) k) (v (c_b c) k) (v (c_id c) k)
                                        (d (c_a c) k) (d (c_b c) k)) (d (c_id c))).

  (* derivs(count): the value pass over the whole tape, then the derivative pass *)
  Definition vpass (cs : nat) (tape : list clause) (v : rows num) : rows num :=
    fold_left (vclause cs) (rev tape) v.
  Definition dpass (cs : nat) (tape : list clause) (v : rows num) (d : rows dnum) : rows dnum :=
    fold_left (dclause cs v) (rev tape) d.
  Definition derivs (cs : nat) (tape : list clause) (v : rows num) (d : rows dnum) : rows num * rows dnum :=
    let v' := vpass cs tape v in (v', dpass cs tape v' d).

  (* the single-point machine on one position *)
  Definition pslice {A} (k : nat) (r : rows A) : nat -> A := fun s => r s k.
  Definition pset {A} (p : nat -> A) (s : nat) (x : A) : nat -> A := fun s' => if Nat.eqb s' s then x else p s'.
  Definition vclause1 (p : nat -> num) (c : clause) : nat -> num :=
    pset p (c_id c) (vk (c_op c) (p (c_a c)) (p (c_b c))).
  Definition dclause1 (p : nat -> num) (q : nat -> dnum) (c : clause) : nat -> dnum :=
    pset q (c_id c) (dk (c_op c) (p (c_a c)) (p (c_b c)) (p (c_id c)) (q (c_a c)) (q (c_b c))).
  Definition vpass1 (tape : list clause) (p : nat -> num) := fold_left vclause1 (rev tape) p.
  Definition dpass1 (tape : list clause) (p : nat -> num) (q : nat -> dnum) :=
    fold_left (dclause1 p) (rev tape) q.

  (* ------------------------------------------------------------------ *)
  (* congruence: the single-point passes respect pointwise equality     *)
  (* ------------------------------------------------------------------ *)

  Lemma vclause1_ext p p' c :
    (forall s, p s = p' s) -> forall s, vclause1 p c s = vclause1 p' c s.
  Proof.
    intros H s. unfold vclause1, pset.
    destruct (Nat.eqb s (c_id c)); [|apply H].
    rewrite (H (c_a c)), (H (c_b c)). reflexivity.
  Qed.

  Lemma vfold1_ext l : forall p p',
    (forall s, p s = p' s) -> forall s, fold_left vclause1 l p s = fold_left vclause1 l p' s.
  Proof.
    induction l as [|c l IH]; intros p p' H s; simpl; [apply H|].
    apply IH. apply vclause1_ext; exact H.
  Qed.

  Lemma vpass1_ext tape p p' :
    (forall s, p s = p' s) -> forall s, vpass1 tape p s = vpass1 tape p' s.
  Proof. apply vfold1_ext. Qed.

  Lemma dclause1_ext p p' q q' c :
    (forall s, p s = p' s) -> (forall s, q s = q' s) ->
    forall s, dclause1 p q c s = dclause1 p' q' c s.
  Proof.
    intros Hp Hq s. unfold dclause1, pset.
    destruct (Nat.eqb s (c_id c)); [|apply Hq].
    rewrite (Hp (c_a c)), (Hp (c_b c)), (Hp (c_id c)), (Hq (c_a c)), (Hq (c_b c)). reflexivity.
  Qed.

  Lemma dfold1_ext l : forall p p' q q',
    (forall s, p s = p' s) -> (forall s, q s = q' s) ->
    forall s, fold_left (dclause1 p) l q s = fold_left (dclause1 p') l q' s.
  Proof.
    induction l as [|c l IH]; intros p p' q q' Hp Hq s; simpl; [apply Hq|].
    apply IH; [exact Hp|]. apply dclause1_ext; assumption.
  Qed.

  Lemma dpass1_ext tape p p' q q' :
    (forall s, p s = p' s) -> (forall s, q s = q' s) ->
    forall s, dpass1 tape p q s = dpass1 tape p' q' s.
  Proof. apply dfold1_ext. Qed.

  (* ------------------------------------------------------------------ *)
  (* 1. batched pass at position k = single-point pass on slice k        *)
  (* ------------------------------------------------------------------ *)

  Lemma vclause_slice cs v c k : k < cs -> forall s, pslice k (vclause cs v c) s = vclause1 (pslice k v) c s.
  Proof.
    intros Hk s. unfold pslice, vclause, vclause1, rset, pset, upto.
    destruct (Nat.eqb s (c_id c)); [|reflexivity].
    apply Nat.ltb_lt in Hk. rewrite Hk. reflexivity.
  Qed.

  Lemma dclause_slice cs v d c k :
    k < cs -> forall s, pslice k (dclause cs v d c) s = dclause1 (pslice k v) (pslice k d) c s.
  Proof.
    intros Hk s. unfold pslice, dclause, dclause1, rset, pset, upto.
    destruct (Nat.eqb s (c_id c)); [|reflexivity].
    apply Nat.ltb_lt in Hk. rewrite Hk. reflexivity.
  Qed.

  Lemma vfold_slice cs k : k < cs -> forall l v s,
    pslice k (fold_left (vclause cs) l v) s = fold_left vclause1 l (pslice k v) s.
  Proof.
    intros Hk. induction l as [|c l IH]; intros v s; simpl; [reflexivity|].
    rewrite IH. apply vfold1_ext. apply vclause_slice; exact Hk.
  Qed.

  Lemma dfold_slice cs k : k < cs -> forall vv l d s,
    pslice k (fold_left (dclause cs vv) l d) s = fold_left (dclause1 (pslice k vv)) l (pslice k d) s.
  Proof.
    intros Hk vv. induction l as [|c l IH]; intros d s; simpl; [reflexivity|].
    rewrite IH. apply dfold1_ext; [reflexivity|]. apply dclause_slice; exact Hk.
  Qed.

  Lemma vpass_slice cs tape k : k < cs -> forall v s, pslice k (vpass cs tape v) s = vpass1 tape (pslice k v) s.
  Proof. intros Hk v s. unfold vpass, vpass1. apply vfold_slice; exact Hk. Qed.

  Lemma dpass_slice cs tape k : k < cs -> forall vv d s,
    pslice k (dpass cs tape vv d) s = dpass1 tape (pslice k vv) (pslice k d) s.
  Proof. intros Hk vv d s. unfold dpass, dpass1. apply dfold_slice; exact Hk. Qed.

  Theorem derivs_pointwise cs tape v d k :
    k < cs ->
    (forall s, pslice k (fst (derivs cs tape v d)) s = vpass1 tape (pslice k v) s) /\
    (forall s, pslice k (snd (derivs cs tape v d)) s
               = dpass1 tape (vpass1 tape (pslice k v)) (pslice k d) s).
  Proof.
    intros Hk. unfold derivs; simpl. split; intros s.
    - apply vpass_slice; exact Hk.
    - rewrite dpass_slice by exact Hk.
      apply dpass1_ext; [|reflexivity]. apply vpass_slice; exact Hk.
  Qed.

  (* ------------------------------------------------------------------ *)
  (* 2. history independence                                             *)
  (* ------------------------------------------------------------------ *)

  (* a leaf slot is never written by the tape: constants, variables, X/Y/Z, the
     dummy slot 0 used as [c_b] of unary clauses, derivative seeds *)
  Definition leaf (tape : list clause) (s : nat) : Prop := ~ In s (map c_id tape).
  (* an argument slot must be a leaf of the WHOLE tape or the id of a clause later
     in the root-first list, i.e. one evaluated earlier *)
  Definition argok (whole later : list clause) (s : nat) : Prop :=
    leaf whole s \/ In s (map c_id later).
  Fixpoint args_ok (whole t : list clause) : Prop :=
    match t with
    | [] => True
    | c :: t' => argok whole t' (c_a c) /\ argok whole t' (c_b c) /\ args_ok whole t'
    end.
  Definition wf (tape : list clause) : Prop := NoDup (map c_id tape) /\ args_ok tape tape.

  Lemma leaf_or_id tape s : leaf tape s \/ In s (map c_id tape).
  Proof. unfold leaf. destruct (in_dec Nat.eq_dec s (map c_id tape)); [right|left]; assumption. Qed.

  Lemma vpass1_cons c t p : vpass1 (c :: t) p = vclause1 (vpass1 t p) c.
  Proof. unfold vpass1; simpl. rewrite fold_left_app. reflexivity. Qed.

  Lemma dpass1_cons c t p q : dpass1 (c :: t) p q = dclause1 p (dpass1 t p q) c.
  Proof. unfold dpass1; simpl. rewrite fold_left_app. reflexivity. Qed.

  Lemma vframe1 whole p1 p2 :
    (forall s, leaf whole s -> p1 s = p2 s) ->
    forall t, args_ok whole t ->
    forall s, argok whole t s -> vpass1 t p1 s = vpass1 t p2 s.
  Proof.
    intros HL. induction t as [|c t IH]; intros Hok s Hs.
    - destruct Hs as [Hs|[]]. apply HL, Hs.
    - destruct Hok as (Ha & Hb & Hok). rewrite !vpass1_cons. unfold vclause1, pset.
      destruct (Nat.eqb_spec s (c_id c)) as [E|NE].
      + rewrite (IH Hok _ Ha), (IH Hok _ Hb). reflexivity.
      + apply (IH Hok). destruct Hs as [Hs|Hs]; [left; exact Hs|].
        simpl in Hs. destruct Hs as [Hs|Hs]; [congruence|right; exact Hs].
  Qed.

  Lemma dframe1 whole (P1 P2 : nat -> num) (q1 q2 : nat -> dnum) :
    (forall s, P1 s = P2 s) ->
    (forall s, leaf whole s -> q1 s = q2 s) ->
    forall t, args_ok whole t ->
    forall s, argok whole t s -> dpass1 t P1 q1 s = dpass1 t P2 q2 s.
  Proof.
    intros HP HL. induction t as [|c t IH]; intros Hok s Hs.
    - destruct Hs as [Hs|[]]. apply HL, Hs.
    - destruct Hok as (Ha & Hb & Hok). rewrite !dpass1_cons. unfold dclause1, pset.
      destruct (Nat.eqb_spec s (c_id c)) as [E|NE].
      + rewrite (IH Hok _ Ha), (IH Hok _ Hb), (HP (c_a c)), (HP (c_b c)), (HP (c_id c)). reflexivity.
      + apply (IH Hok). destruct Hs as [Hs|Hs]; [left; exact Hs|].
        simpl in Hs. destruct Hs as [Hs|Hs]; [congruence|right; exact Hs].
  Qed.

  (* single-point frame theorem: only [args_ok] is needed, not distinctness of ids *)
  Theorem point_frame tape (p1 p2 : nat -> num) (q1 q2 : nat -> dnum) :
    args_ok tape tape ->
    (forall s, leaf tape s -> p1 s = p2 s /\ q1 s = q2 s) ->
    forall s, vpass1 tape p1 s = vpass1 tape p2 s /\
              dpass1 tape (vpass1 tape p1) q1 s = dpass1 tape (vpass1 tape p2) q2 s.
  Proof.
    intros Hok HL.
    assert (HV : forall s, vpass1 tape p1 s = vpass1 tape p2 s).
    { intros s. apply (vframe1 tape); [intros s' Hs'; apply HL, Hs' | exact Hok | apply leaf_or_id]. }
    intros s. split; [apply HV|].
    apply (dframe1 tape); [exact HV | intros s' Hs'; apply HL, Hs' | exact Hok | apply leaf_or_id].
  Qed.

  (* the batched frame theorem, on the slots that are leaves or clause ids ... *)
  Theorem answer_frame cs tape k (v1 v2 : rows num) (d1 d2 : rows dnum) :
    wf tape -> k < cs ->
    (forall s, leaf tape s -> v1 s k = v2 s k /\ d1 s k = d2 s k) ->
    forall s, leaf tape s \/ In s (map c_id tape) ->
      fst (derivs cs tape v1 d1) s k = fst (derivs cs tape v2 d2) s k /\
      snd (derivs cs tape v1 d1) s k = snd (derivs cs tape v2 d2) s k.
  Proof.
    intros [_ Hok] Hk HL s _.
    destruct (derivs_pointwise cs tape v1 d1 k Hk) as [V1 D1].
    destruct (derivs_pointwise cs tape v2 d2 k Hk) as [V2 D2].
    unfold pslice in V1, D1, V2, D2 |- *.
    rewrite V1, V2, D1, D2.
    apply (point_frame tape); [exact Hok|]. intros s' Hs'. apply (HL s' Hs').
  Qed.

  (* ... which is every slot *)
  Corollary answer_frame_all cs tape k (v1 v2 : rows num) (d1 d2 : rows dnum) :
    wf tape -> k < cs ->
    (forall s, leaf tape s -> v1 s k = v2 s k /\ d1 s k = d2 s k) ->
    forall s,
      fst (derivs cs tape v1 d1) s k = fst (derivs cs tape v2 d2) s k /\
      snd (derivs cs tape v1 d1) s k = snd (derivs cs tape v2 d2) s k.
  Proof. intros W Hk HL s. apply answer_frame; auto using leaf_or_id. Qed.

  (* the value-only query (values(count)) *)
  Corollary value_frame cs tape k (v1 v2 : rows num) :
    wf tape -> k < cs ->
    (forall s, leaf tape s -> v1 s k = v2 s k) ->
    forall s, vpass cs tape v1 s k = vpass cs tape v2 s k.
  Proof.
    intros [_ Hok] Hk HL s.
    change (pslice k (vpass cs tape v1) s = pslice k (vpass cs tape v2) s).
    rewrite !vpass_slice by exact Hk.
    apply (vframe1 tape); [exact HL | exact Hok | apply leaf_or_id].
  Qed.

  (* queries never modify leaf rows (at any position, below or above the count) *)
  Lemma vfold_leaf cs s : forall l v, ~ In s (map c_id l) ->
    forall k, fold_left (vclause cs) l v s k = v s k.
  Proof.
    induction l as [|c l IH]; intros v Hs k; simpl; [reflexivity|].
    simpl in Hs. rewrite IH by tauto. unfold vclause, rset.
    destruct (Nat.eqb_spec s (c_id c)) as [E|NE]; [exfalso; apply Hs; left; congruence|reflexivity].
  Qed.

  Lemma dfold_leaf cs vv s : forall l d, ~ In s (map c_id l) ->
    forall k, fold_left (dclause cs vv) l d s k = d s k.
  Proof.
    induction l as [|c l IH]; intros d Hs k; simpl; [reflexivity|].
    simpl in Hs. rewrite IH by tauto. unfold dclause, rset.
    destruct (Nat.eqb_spec s (c_id c)) as [E|NE]; [exfalso; apply Hs; left; congruence|reflexivity].
  Qed.

  Lemma leaf_rev tape s : leaf tape s -> ~ In s (map c_id (rev tape)).
  Proof. unfold leaf. intros H I. apply H. rewrite map_rev in I. apply in_rev in I. exact I. Qed.

  Lemma vpass_leaf cs tape v s k : leaf tape s -> vpass cs tape v s k = v s k.
  Proof. intros H. apply vfold_leaf, leaf_rev, H. Qed.

  Lemma dpass_leaf cs tape vv d s k : leaf tape s -> dpass cs tape vv d s k = d s k.
  Proof. intros H. apply dfold_leaf, leaf_rev, H. Qed.

  Lemma derivs_leaf cs tape v d s k :
    leaf tape s ->
    fst (derivs cs tape v d) s k = v s k /\ snd (derivs cs tape v d) s k = d s k.
  Proof. intros H. unfold derivs; simpl. split; [apply vpass_leaf|apply dpass_leaf]; exact H. Qed.

  (* histories: queries (value-only or value+derivative, any count) and writes of
     whole rows (set(), setVar(), derivative seeds; also arbitrary scribbling) *)
  Definition state := (rows num * rows dnum)%type.
  Inductive event :=
  | EValues (cs : nat)
  | EDerivs (cs : nat)
  | ESetV (s : nat) (r : row num)
  | ESetD (s : nat) (r : row dnum).
  Definition step (tape : list clause) (st : state) (e : event) : state :=
    match e with
    | EValues cs => (vpass cs tape (fst st), snd st)
    | EDerivs cs => derivs cs tape (fst st) (snd st)
    | ESetV s r => (rset (fst st) s r, snd st)
    | ESetD s r => (fst st, rset (snd st) s r)
    end.
  Definition run (tape : list clause) (h : list event) (st : state) : state := fold_left (step tape) h st.
  Definition is_write (e : event) : bool :=
    match e with EValues _ | EDerivs _ => false | _ => true end.
  Definition leaf_equiv (tape : list clause) (st1 st2 : state) : Prop :=
    forall s, leaf tape s -> forall k, fst st1 s k = fst st2 s k /\ snd st1 s k = snd st2 s k.

  (* the next answer after ANY two histories whose leaf rows agree at position k *)
  Corollary history_independent cs tape k (h1 h2 : list event) (st1 st2 : state) :
    wf tape -> k < cs ->
    (forall s, leaf tape s ->
       fst (run tape h1 st1) s k = fst (run tape h2 st2) s k /\
       snd (run tape h1 st1) s k = snd (run tape h2 st2) s k) ->
    forall s,
      fst (step tape (run tape h1 st1) (EDerivs cs)) s k
        = fst (step tape (run tape h2 st2) (EDerivs cs)) s k /\
      snd (step tape (run tape h1 st1) (EDerivs cs)) s k
        = snd (step tape (run tape h2 st2) (EDerivs cs)) s k.
  Proof. intros W Hk HL s. simpl. apply answer_frame_all; assumption. Qed.

  (* earlier queries are invisible: erasing them from the history leaves the leaf
     rows, hence every later answer, unchanged *)
  Lemma queries_invisible tape h : forall st1 st2,
    leaf_equiv tape st1 st2 ->
    leaf_equiv tape (run tape h st1) (run tape (filter is_write h) st2).
  Proof.
    induction h as [|e h IH]; intros st1 st2 HE; simpl; [exact HE|].
    destruct e as [cs|cs|s0 r|s0 r]; simpl; apply IH; intros s Hs k; simpl.
    - rewrite vpass_leaf by exact Hs. apply HE, Hs.
    - unfold derivs; simpl. rewrite vpass_leaf, dpass_leaf by exact Hs. apply HE, Hs.
    - unfold rset. destruct (Nat.eqb s s0); [split; [reflexivity|apply HE, Hs] | apply HE, Hs].
    - unfold rset. destruct (Nat.eqb s s0); [split; [apply HE, Hs|reflexivity] | apply HE, Hs].
  Qed.

  Corollary history_queries_erasable cs tape k (h : list event) (st : state) :
    wf tape -> k < cs ->
    forall s,
      fst (step tape (run tape h st) (EDerivs cs)) s k
        = fst (step tape (run tape (filter is_write h) st) (EDerivs cs)) s k /\
      snd (step tape (run tape h st) (EDerivs cs)) s k
        = snd (step tape (run tape (filter is_write h) st) (EDerivs cs)) s k.
  Proof.
    intros W Hk s. apply history_independent; [exact W|exact Hk|].
    intros s' Hs'. apply (queries_invisible tape h st st); [|exact Hs'].
    intros s'' _ k'. split; reflexivity.
  Qed.

  (* ------------------------------------------------------------------ *)
  (* 3. FeatureEvaluator: array-wise run over the incoming features      *)
  (* ------------------------------------------------------------------ *)

  (* v.row(s).leftCols(n) = v(s, 0) *)
  Definition repl (n : nat) (v : rows num) (s : nat) : rows num :=
    rset v s (upto n (fun _ => v s 0) (v s)).
  (* d(s).col(i) = f i for i < n *)
  Definition dwrite (n : nat) (d : rows dnum) (s : nat) (f : nat -> dnum) : rows dnum :=
    rset d s (upto n f (d s)).

  Lemma repl_0 n v s s' : repl n v s s' 0 = v s' 0.
  Proof.
    unfold repl, rset, upto. destruct (Nat.eqb_spec s' s) as [->|]; [|reflexivity].
    destruct (0 <? n); reflexivity.
  Qed.

  Lemma repl_hit n v s i : i < n -> repl n v s s i = v s 0.
  Proof.
    intros Hi. unfold repl, rset, upto. rewrite Nat.eqb_refl.
    apply Nat.ltb_lt in Hi. rewrite Hi. reflexivity.
  Qed.

  Lemma repl_miss n v s s' i : s' <> s -> repl n v s s' i = v s' i.
  Proof. intros NE. unfold repl, rset. apply Nat.eqb_neq in NE. rewrite NE. reflexivity. Qed.

  (* replication makes its row uniform below n and keeps other rows' uniformity *)
  Definition unif (n : nat) (v : rows num) (s : nat) (x : num) : Prop := forall i, i < n -> v s i = x.

  Lemma repl_unif_hit n v s : unif n (repl n v s) s (v s 0).
  Proof. intros i Hi. apply repl_hit, Hi. Qed.

  Lemma repl_unif_keep n v s s' x : v s' 0 = x -> unif n v s' x -> unif n (repl n v s) s' x.
  Proof.
    intros H0 HU i Hi. destruct (Nat.eq_dec s' s) as [->|NE].
    - rewrite repl_hit by exact Hi. exact H0.
    - rewrite repl_miss by exact NE. apply HU, Hi.
  Qed.

  Lemma dwrite_hit n d s f i : i < n -> dwrite n d s f s i = f i.
  Proof.
    intros Hi. unfold dwrite, rset, upto. rewrite Nat.eqb_refl.
    apply Nat.ltb_lt in Hi. rewrite Hi. reflexivity.
  Qed.

  Lemma dwrite_miss n d s f s' i : s' <> s -> dwrite n d s f s' i = d s' i.
  Proof. intros NE. unfold dwrite, rset. apply Nat.eqb_neq in NE. rewrite NE. reflexivity. Qed.

  (* the three replicated rows after the FIXED code's preparation *)
  Definition feature_prep (n : nat) (c : clause) (v : rows num) : rows num :=
    repl n (repl n (repl n v (c_a c)) (c_b c)) (c_id c).

  Lemma feature_prep_unif n c v s :
    s = c_a c \/ s = c_b c \/ s = c_id c -> unif n (feature_prep n c v) s (v s 0).
  Proof.
    intros Hs. unfold feature_prep.
    assert (Ua : unif n (repl n v (c_a c)) (c_a c) (v (c_a c) 0)) by apply repl_unif_hit.
    assert (Ub : unif n (repl n (repl n v (c_a c)) (c_b c)) (c_b c) (v (c_b c) 0)).
    { intros i Hi. rewrite repl_hit by exact Hi. apply repl_0. }
    assert (Ua' : unif n (repl n (repl n v (c_a c)) (c_b c)) (c_a c) (v (c_a c) 0)).
    { apply repl_unif_keep; [rewrite repl_0; reflexivity | exact Ua]. }
    destruct Hs as [->|[->| ->]].
    - apply repl_unif_keep; [rewrite !repl_0; reflexivity | exact Ua'].
    - apply repl_unif_keep; [rewrite !repl_0; reflexivity | exact Ub].
    - intros i Hi. rewrite repl_hit by exact Hi. rewrite !repl_0. reflexivity.
  Qed.

  (* binary clause: both feature derivative columns written *)
  Definition feature_run (cs n : nat) (c : clause) (fa fb : nat -> dnum)
             (v : rows num) (d : rows dnum) : rows dnum :=
    dclause cs (feature_prep n c v) (dwrite n (dwrite n d (c_a c) fa) (c_b c) fb) c.

  Theorem feature_run_frame cs n c fa fb v d i :
    c_a c <> c_id c -> c_b c <> c_id c -> c_a c <> c_b c ->
    i < n -> n <= cs ->
    feature_run cs n c fa fb v d (c_id c) i
      = dk (c_op c) (v (c_a c) 0) (v (c_b c) 0) (v (c_id c) 0) (fa i) (fb i).
  Proof.
    intros Hai Hbi Hab Hi Hn. unfold feature_run, dclause, rset at 1, upto at 1.
    rewrite Nat.eqb_refl.
    assert (Hlt : i <? cs = true) by (apply Nat.ltb_lt; lia). rewrite Hlt.
    rewrite (feature_prep_unif n c v (c_a c)) by (auto || exact Hi).
    rewrite (feature_prep_unif n c v (c_b c)) by (auto || exact Hi).
    rewrite (feature_prep_unif n c v (c_id c)) by (auto || exact Hi).
    rewrite (dwrite_miss n _ (c_b c) fb (c_a c)) by exact Hab.
    rewrite !dwrite_hit by exact Hi. reflexivity.
  Qed.

  (* unary clause: [c_b] is the dummy slot, only [fa] is written, only rows [c_a] and
     [c_id] are replicated; a unary kernel ignores its b-operands *)
  Definition feature_run1 (cs n : nat) (c : clause) (fa : nat -> dnum)
             (v : rows num) (d : rows dnum) : rows dnum :=
    dclause cs (repl n (repl n v (c_a c)) (c_id c)) (dwrite n d (c_a c) fa) c.

  Theorem feature_run1_frame cs n c fa v d i :
    (forall av bv bv' ov ad bd bd', dk (c_op c) av bv ov ad bd = dk (c_op c) av bv' ov ad bd') ->
    c_a c <> c_id c ->
    i < n -> n <= cs ->
    forall bv bd,
    feature_run1 cs n c fa v d (c_id c) i
      = dk (c_op c) (v (c_a c) 0) bv (v (c_id c) 0) (fa i) bd.
  Proof.
    intros Hun Hai Hi Hn bv bd. unfold feature_run1, dclause, rset at 1, upto at 1.
    rewrite Nat.eqb_refl.
    assert (Hlt : i <? cs = true) by (apply Nat.ltb_lt; lia). rewrite Hlt.
    rewrite (repl_miss n _ (c_id c) (c_a c)) by exact Hai.
    rewrite !repl_hit by exact Hi. rewrite repl_0.
    rewrite dwrite_hit by exact Hi. apply Hun.
  Qed.

  (* consequence: the fixed run's answers do not depend on stale content *)
  Corollary feature_run_history_independent cs n c fa fb (v1 v2 : rows num) (d1 d2 : rows dnum) i :
    c_a c <> c_id c -> c_b c <> c_id c -> c_a c <> c_b c ->
    i < n -> n <= cs ->
    v1 (c_a c) 0 = v2 (c_a c) 0 -> v1 (c_b c) 0 = v2 (c_b c) 0 -> v1 (c_id c) 0 = v2 (c_id c) 0 ->
    feature_run cs n c fa fb v1 d1 (c_id c) i = feature_run cs n c fa fb v2 d2 (c_id c) i.
  Proof.
    intros Hai Hbi Hab Hi Hn Ea Eb Eo.
    rewrite !feature_run_frame by assumption. rewrite Ea, Eb, Eo. reflexivity.
  Qed.

  (* the OLD code: the result row [c_id] is not replicated *)
  Definition feature_run_old (cs n : nat) (c : clause) (fa fb : nat -> dnum)
             (v : rows num) (d : rows dnum) : rows dnum :=
    dclause cs (repl n (repl n v (c_a c)) (c_b c)) (dwrite n (dwrite n d (c_a c) fa) (c_b c) fb) c.

  (* what the old code computes: the clause's own value is read at position i, stale *)
  Lemma feature_run_old_get cs n c fa fb v d i :
    c_a c <> c_id c -> c_b c <> c_id c -> i < cs ->
    feature_run_old cs n c fa fb v d (c_id c) i
      = dk (c_op c) (repl n (repl n v (c_a c)) (c_b c) (c_a c) i)
                    (repl n (repl n v (c_a c)) (c_b c) (c_b c) i)
                    (v (c_id c) i)
                    (dwrite n (dwrite n d (c_a c) fa) (c_b c) fb (c_a c) i)
                    (dwrite n (dwrite n d (c_a c) fa) (c_b c) fb (c_b c) i).
  Proof.
    intros Hai Hbi Hi. unfold feature_run_old, dclause, rset at 1, upto at 1.
    rewrite Nat.eqb_refl. apply Nat.ltb_lt in Hi. rewrite Hi.
    rewrite (repl_miss n _ (c_b c) (c_id c)) by congruence.
    rewrite (repl_miss n _ (c_a c) (c_id c)) by congruence.
    reflexivity.
  Qed.

  (* ------------------------------------------------------------------ *)
  (* 4. setVar                                                           *)
  (* ------------------------------------------------------------------ *)

  (* v.row(s) = x : every position *)
  Definition set_var (v : rows num) (s : nat) (x : num) : rows num :=
    fun s' k => if Nat.eqb s' s then x else v s' k.

  Lemma set_var_hit v s x k : set_var v s x s k = x.
  Proof. unfold set_var. rewrite Nat.eqb_refl. reflexivity. Qed.

  Lemma set_var_miss v s x s' k : s' <> s -> set_var v s x s' k = v s' k.
  Proof. intros NE. unfold set_var. apply Nat.eqb_neq in NE. rewrite NE. reflexivity. Qed.

  (* any later query, with any count, sees the new value at every position *)
  Theorem setvar_seen cs tape v d s x k :
    leaf tape s -> fst (derivs cs tape (set_var v s x) d) s k = x.
  Proof.
    intros HL. destruct (derivs_leaf cs tape (set_var v s x) d s k HL) as [-> _].
    apply set_var_hit.
  Qed.

  (* setVar's [changed] report compares position 0 only; when it says "unchanged"
     and the row was uniform (as every setVar / constructor leaves it), the state
     really is unchanged, so answers cached by the caller stay valid *)
  Theorem setvar_unchanged v s x :
    (forall k, v s k = v s 0) -> v s 0 = x ->
    forall s' k, set_var v s x s' k = v s' k.
  Proof.
    intros HU E s' k. unfold set_var. destruct (Nat.eqb_spec s' s) as [->|]; [|reflexivity].
    rewrite HU. symmetry; exact E.
  Qed.

  (* a freshly constructed evaluator: constant / variable slots ([lv s = Some x]) hold
     their value at every position; the other rows (coordinates, per query) are [pos] *)
  Definition fresh (lv : nat -> option num) (pos : rows num) : rows num :=
    fun s k => match lv s with Some x => x | None => pos s k end.

  Definition vleaf_equiv (tape : list clause) (v v' : rows num) : Prop :=
    forall s, leaf tape s -> forall k, v s k = v' s k.

  Lemma set_var_leaf_equiv tape v v' s x :
    vleaf_equiv tape v v' -> vleaf_equiv tape (set_var v s x) (set_var v' s x).
  Proof.
    intros HE s' Hs' k. unfold set_var. destruct (Nat.eqb s' s); [reflexivity|apply HE, Hs'].
  Qed.

  Lemma set_var_fresh lv pos s x :
    forall s' k, set_var (fresh lv pos) s x s' k = fresh (pset lv s (Some x)) pos s' k.
  Proof.
    intros s' k. unfold set_var, fresh, pset. destruct (Nat.eqb s' s); reflexivity.
  Qed.

  (* a long-lived evaluator that is leaf-equivalent to a fresh one stays so after setVar,
     with the fresh one built from the NEW variable value *)
  Theorem setvar_frame tape v lv pos s x :
    vleaf_equiv tape v (fresh lv pos) ->
    vleaf_equiv tape (set_var v s x) (fresh (pset lv s (Some x)) pos).
  Proof.
    intros HE s' Hs' k. rewrite <- set_var_fresh.
    apply (set_var_leaf_equiv tape v (fresh lv pos) s x HE s' Hs' k).
  Qed.

  (* ... hence answers every query identically *)
  Corollary setvar_answers cs tape k v (d d0 : rows dnum) lv pos s x :
    wf tape -> k < cs ->
    vleaf_equiv tape v (fresh lv pos) ->
    (forall s', leaf tape s' -> d s' k = d0 s' k) ->
    forall s',
      fst (derivs cs tape (set_var v s x) d) s' k
        = fst (derivs cs tape (fresh (pset lv s (Some x)) pos) d0) s' k /\
      snd (derivs cs tape (set_var v s x) d) s' k
        = snd (derivs cs tape (fresh (pset lv s (Some x)) pos) d0) s' k.
  Proof.
    intros W Hk HE HD s'. apply answer_frame_all; [exact W|exact Hk|].
    intros s'' Hs''. split; [|apply HD, Hs''].
    apply (setvar_frame tape v lv pos s x HE s'' Hs'' k).
  Qed.
End EvalState.

(* ------------------------------------------------------------------ *)
(* refutation of the old FeatureEvaluator code                          *)
(* ------------------------------------------------------------------ *)

(* a kernel that reads the clause's own value, as libfive's sqrt kernel does *)
Definition dk_own (_ : opcode) (_ _ ov : nat) (ad _ : nat) : nat := ov + ad.

(* For EVERY clause with c_a, c_b <> c_id, every n > 1 and every feature columns:
   two states that agree at position 0 on every row, and at every position on the
   argument rows, but differ in the STALE position 1 of the result row, make the old
   code answer feature 1 differently. *)
Theorem old_feature_run_depends_on_stale :
  forall (c : clause) (cs n : nat) (fa fb : nat -> nat) (d : rows nat),
    c_a c <> c_id c -> c_b c <> c_id c -> 1 < n -> n <= cs ->
    exists v1 v2 : rows nat,
      (forall s, v1 s 0 = v2 s 0) /\
      (forall k, v1 (c_a c) k = v2 (c_a c) k) /\
      (forall k, v1 (c_b c) k = v2 (c_b c) k) /\
      v1 (c_id c) 1 <> v2 (c_id c) 1 /\
      feature_run_old dk_own cs n c fa fb v1 d (c_id c) 1
        <> feature_run_old dk_own cs n c fa fb v2 d (c_id c) 1.
Proof.
  intros c cs n fa fb d Hai Hbi Hn Hcs.
  exists (fun _ _ => 0), (fun s k => if Nat.eqb s (c_id c) && Nat.eqb k 1 then 1 else 0).
  assert (Ea : Nat.eqb (c_a c) (c_id c) = false) by (apply Nat.eqb_neq; exact Hai).
  assert (Eb : Nat.eqb (c_b c) (c_id c) = false) by (apply Nat.eqb_neq; exact Hbi).
  repeat split.
  - intros s. simpl. rewrite andb_false_r. reflexivity.
  - intros k. rewrite Ea. reflexivity.
  - intros k. rewrite Eb. reflexivity.
  - rewrite Nat.eqb_refl. simpl. discriminate.
  - rewrite !feature_run_old_get by (assumption || lia).
    unfold dk_own. rewrite Nat.eqb_refl. simpl andb. cbv iota.
    set (X := dwrite n (dwrite n d (c_a c) fa) (c_b c) fb (c_a c) 1). lia.
Qed.

(* the same two states under the FIXED code answer identically (instance of
   [feature_run_history_independent]) *)
Theorem fixed_feature_run_on_witness :
  forall (c : clause) (cs n : nat) (fa fb : nat -> nat) (d : rows nat) (i : nat),
    c_a c <> c_id c -> c_b c <> c_id c -> c_a c <> c_b c -> i < n -> n <= cs ->
    let v1 : rows nat := fun _ _ => 0 in
    let v2 : rows nat := fun s k => if Nat.eqb s (c_id c) && Nat.eqb k 1 then 1 else 0 in
    feature_run dk_own cs n c fa fb v1 d (c_id c) i = feature_run dk_own cs n c fa fb v2 d (c_id c) i.
Proof.
  intros c cs n fa fb d i Hai Hbi Hab Hi Hn v1 v2.
  apply feature_run_history_independent; try assumption; unfold v1, v2; simpl;
    rewrite ?andb_false_r; reflexivity.
Qed.
