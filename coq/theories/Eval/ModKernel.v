(* The OP_MOD loop body of ArrayEvaluator::operator(), as transcribed statement by statement into
   [ArrayKernels_gen.vkern_gen] (fabs / xor of signs / -ceil or floor / two "safety" clamps), computes, over the
   reals and for a non-zero divisor, the floor modulo [Rmod a b = a - b * floor (a / b)] of the hand-written model;
   the two clamps never fire.  Nothing is claimed for b = 0 (C++ yields NaN there). *)
From Coq Require Import Reals Bool Lra Lia.
From LF Require Import Base.Opcode Eval.DerivSem Gen.ArrayKernels_gen.
Local Open Scope R_scope.

(* characterisation of the floor *)
Lemma Int_part_bounds x : IZR (Int_part x) <= x < IZR (Int_part x) + 1.
Proof. destruct (base_Int_part x) as [H1 H2]. lra. Qed.

Lemma Int_part_unique x z : IZR z <= x < IZR z + 1 -> Int_part x = z.
Proof.
  intros [H1 H2]. destruct (Int_part_bounds x) as [H3 H4].
  assert (A : (z < Int_part x + 1)%Z) by (apply lt_IZR; rewrite plus_IZR; simpl; lra).
  assert (B : (Int_part x < z + 1)%Z) by (apply lt_IZR; rewrite plus_IZR; simpl; lra).
  lia.
Qed.

(* the quotient's sign from the operands' signs *)
Lemma div_sign a b : b <> 0 ->
  (a < 0 -> b < 0 -> 0 < a / b) /\ (a < 0 -> 0 < b -> a / b < 0) /\
  (0 <= a -> b < 0 -> a / b <= 0) /\ (0 <= a -> 0 < b -> 0 <= a / b).
Proof.
  intros Hb. unfold Rdiv.
  repeat split; intros Ha Hb'.
  - assert (/ b < 0) by (apply Rinv_lt_0_compat; exact Hb'). nra.
  - assert (0 < / b) by (apply Rinv_0_lt_compat; exact Hb'). nra.
  - assert (/ b < 0) by (apply Rinv_lt_0_compat; exact Hb'). nra.
  - assert (0 < / b) by (apply Rinv_0_lt_compat; exact Hb'). nra.
Qed.

(* the quotient digit the loop computes (fabs, then -ceil or floor by the xor of the signs) is floor (a / b) *)
Lemma mod_digit_is_floor a b : b <> 0 ->
  (if xorb (if Rlt_dec a 0 then true else false) (if Rlt_dec b 0 then true else false)
   then - Rceil (Rabs (a / b)) else Rfloor (Rabs (a / b))) = IZR (Int_part (a / b)).
Proof.
  intros Hb. destruct (div_sign a b Hb) as (S1 & S2 & S3 & S4).
  unfold Rceil, Rfloor.
  destruct (Rlt_dec a 0) as [Ha|Ha], (Rlt_dec b 0) as [Hb'|Hb']; cbn [xorb].
  - rewrite Rabs_right by (apply Rle_ge, Rlt_le, S1; assumption). reflexivity.
  - rewrite Rabs_left by (apply S2; lra). rewrite !Ropp_involutive. reflexivity.
  - rewrite Rabs_left1 by (apply S3; lra). rewrite !Ropp_involutive. reflexivity.
  - rewrite Rabs_right by (apply Rle_ge, S4; lra). reflexivity.
Qed.

(* range of the floor modulo *)
Lemma Rmod_range a b : b <> 0 ->
  (0 < b -> 0 <= Rmod a b < b) /\ (b < 0 -> b < Rmod a b <= 0).
Proof.
  intros Hb. unfold Rmod.
  destruct (Int_part_bounds (a / b)) as [H1 H2].
  set (f := IZR (Int_part (a / b))) in *.
  assert (E : a = (a / b) * b) by (field; exact Hb).
  set (q := a / b) in *. clearbody q f.
  split; intros Hs; rewrite E; nra.
Qed.

Theorem mod_kernel_is_floor_mod : forall a b, b <> 0 -> vkern_gen OP_MOD a b = Rmod a b.
Proof.
  intros a b Hb. cbv beta iota delta [vkern_gen]. cbv zeta.
  rewrite (mod_digit_is_floor a b Hb).
  fold (Rmod a b).
  destruct (Rmod_range a b Hb) as [Rp Rn].
  destruct (Rlt_dec 0 b) as [P|P], (Rlt_dec b 0) as [N|N]; try lra; cbn [andb orb].
  - destruct (Rp P) as [L U].
    destruct (Rlt_dec b (Rmod a b)) as [C|C]; [lra|]. cbn [andb orb].
    destruct (Rlt_dec (Rmod a b) 0) as [C'|C']; [lra|]. reflexivity.
  - destruct (Rn N) as [L U].
    destruct (Rlt_dec (Rmod a b) b) as [C|C]; [lra|]. cbn [andb orb].
    rewrite ?orb_false_l, ?andb_false_r.
    destruct (Rlt_dec b (Rmod a b)) as [C2|C2]; cbn [andb orb];
      destruct (Rlt_dec 0 (Rmod a b)) as [C'|C']; try lra;
      destruct (Rlt_dec (Rmod a b) 0); reflexivity.
Qed.

Theorem mod_kernel_range : forall a b, b <> 0 ->
  (0 < b -> 0 <= vkern_gen OP_MOD a b < b) /\ (b < 0 -> b < vkern_gen OP_MOD a b <= 0).
Proof. intros a b Hb. rewrite (mod_kernel_is_floor_mod a b Hb). apply Rmod_range, Hb. Qed.
