(* Deck::Deck + point evaluation of the tape (Deck.v) on arenas WITH ORACLE
   LEAVES: generalisation of Eval/DeckSem.v ([deck_correct]) and
   Eval/DeckSemReach.v ([deck_correct_reach]).

   An oracle node ([NOracle g] / [NOracleT cx cy cz u]) has no [kids], receives a
   slot and an ORACLE clause [{c_op := ORACLE; c_id := slot; c_a := k}], k its
   index in [d_oracles]; [eval_clause] answers it with
   [oracle_at k (X slot) (Y slot) (Z slot)].

   Main results
     [opure_at], [canon_at]      admissible node shapes: [pure_at] of DeckSem.v plus the
                                 two oracle shapes; [opure_at a m <-> evaluable_at a m /\
                                 canon_at a m] ([opure_of_evaluable], [opure_evaluable]).
                                 [canon_at] is the hypothesis of DeckSem.v's header NOTE:
                                 an X/Y/Z shaped node is the canonical one, and a nullary
                                 node is one of VAR_X/Y/Z/FREE.
     [otape_sem]                 evaluating the clauses of a topologically ordered prefix
                                 puts [val a m r] in the slot of every walked node, PROVIDED
                                 the oracle clause k is answered by the value of its node;
                                 no clause writes the X/Y/Z slots.
     [deck_correct_otopo]        deck theorem for an arbitrary topological order.
     [walk_otopo_ok_reach], [walk_otopo_ok]
                                 Tree::walk yields such an order (oracles are leaves).
     [deck_oracles_spec]         every [(slot, id)] of [d_oracles (mk_deck a root)] is a
                                 reachable oracle node: [reach a root id], [id <= root],
                                 [id < length a], [is_oracle_node (getn a id) = true].
     [deck_oracles_shape]        ... i.e. [getn a id] is [NOracle _] or [NOracleT _ _ _ _].
     [deck_correct_oracle_reach] the deck theorem, reachable nodes admissible.
     [deck_correct_oracle]       the deck theorem, all nodes <= root evaluable + canonical:
                                 if every ORACLE clause k is answered by the value of its
                                 oracle node at the point, the tape computes [val a root].

   Extra hypothesis w.r.t. the informal statement: [canon_at] (see above; without it the
   theorem is false already for pure arenas, DeckSem.v header).
   NOTE: like [deck_correct], the "all nodes <= root" form [deck_correct_oracle] is only
   usable for root < 3 once [base_ok] holds (id 3 is [NInvalid], which is not evaluable);
   [deck_correct_oracle_reach] is the form to use (cf. DeckSemReach.v). *)
From Coq Require Import List Arith Bool Lia.
From LF Require Import Base.Opcode Base.Num Base.Arena Base.Sem Tree.Build
                       Tree.BuildSem Eval.Deck Eval.DeckSem Eval.DeckSemReach Eval.OracleEval.
Import ListNotations.

Section Shapes.
  Context {num : Type}.
  Notation node := (node num).
  Notation arena := (arena num).

  (* ---------------------------------------------------------------- *)
  (* node shapes *)
  Definition is_oracle_node (n : node) : bool :=
    match n with NOracle _ | NOracleT _ _ _ _ => true | _ => false end.

  (* nodes for which Deck::Deck emits a clause *)
  Definition has_clause (n : node) : bool :=
    match n with
    | NUnary _ _ | NBinary _ _ _ | NOracle _ | NOracleT _ _ _ _ => true
    | _ => false
    end.

  Definition opure_at (a : arena) (m : nat) : Prop :=
    match getn a m with
    | NConst _ => True
    | NNullary VAR_X => m = idX
    | NNullary VAR_Y => m = idY
    | NNullary VAR_Z => m = idZ
    | NNullary VAR_FREE => True
    | NUnary _ _ => True
    | NBinary _ _ _ => True
    | NOracle _ => True
    | NOracleT _ _ _ _ => True
    | _ => False
    end.

  (* the singleton discipline of tree.cpp for nullary nodes *)
  Definition canon_at (a : arena) (m : nat) : Prop :=
    match getn a m with
    | NNullary VAR_X => m = idX
    | NNullary VAR_Y => m = idY
    | NNullary VAR_Z => m = idZ
    | NNullary VAR_FREE => True
    | NNullary _ => False
    | _ => True
    end.

  Lemma opure_of_evaluable a m : evaluable_at a m -> canon_at a m -> opure_at a m.
  Proof.
    unfold evaluable_at, canon_at, opure_at.
    destruct (getn a m) as [c|op|op x|op x y|k|x' y' z' t'|x y z t|v e t|]; try tauto;
      destruct op; tauto.
  Qed.

  Lemma opure_evaluable a m : opure_at a m -> evaluable_at a m /\ canon_at a m.
  Proof.
    unfold evaluable_at, canon_at, opure_at.
    destruct (getn a m) as [c|op|op x|op x y|k|x' y' z' t'|x y z t|v e t|]; try tauto;
      destruct op; tauto.
  Qed.

  Lemma pure_opure a m : pure_at a m -> opure_at a m.
  Proof.
    unfold pure_at, opure_at.
    destruct (getn a m) as [c|op|op x|op x y|k|x' y' z' t'|x y z t|v e t|]; try tauto.
  Qed.

  (* ---------------------------------------------------------------- *)
  (* topological orders over admissible nodes *)
  Definition otopo_pre (a : arena) (l : list nat) : Prop :=
    NoDup l /\
    forall pre m suf, l = pre ++ m :: suf ->
      m < length a /\ opure_at a m /\ forall k, In k (kids (getn a m)) -> In k pre.

  Definition otopo_ok (a : arena) (flat : list nat) (root : nat) : Prop :=
    otopo_pre a flat /\ exists pre, flat = pre ++ [root].

  Lemma otopo_pre_snoc a l m :
    otopo_pre a (l ++ [m]) ->
    otopo_pre a l /\ ~ In m l /\ m < length a /\ opure_at a m /\
    forall k, In k (kids (getn a m)) -> In k l.
  Proof.
    intros [Hnd Hall]. split; [split|].
    - apply (NoDup_snoc l m Hnd).
    - intros pre m0 suf ->. apply (Hall pre m0 (suf ++ [m])).
      rewrite <- app_assoc; reflexivity.
    - split.
      + apply (NoDup_snoc l m Hnd).
      + apply (Hall l m []). reflexivity.
  Qed.

  Lemma otopo_pre_in a l m : otopo_pre a l -> In m l -> m < length a /\ opure_at a m.
  Proof.
    intros [_ H] Hin. apply in_split in Hin. destruct Hin as (l1 & l2 & ->).
    destruct (H l1 m l2 eq_refl) as (A & B & _). split; assumption.
  Qed.

End Shapes.

Section DeckOracleSem.
  Context {num : Type} (O : ops num).
  Variable osem : nat -> num -> num -> num -> num.
  Variable oracle_at : nat -> num -> num -> num -> num.
  Notation node := (node num).
  Notation arena := (arena num).
  Notation deck := (@deck num).
  Notation val := (val O osem).
  Notation sget := (sget O).

  Lemma eval_clause_oracle (D : deck) v i ca cb :
    eval_clause O oracle_at D v {| c_op := ORACLE; c_id := i; c_a := ca; c_b := cb |} =
    sset v i (oracle_at ca (sget v (d_X D)) (sget v (d_Y D)) (sget v (d_Z D))).
  Proof. reflexivity. Qed.

  (* ---------------------------------------------------------------- *)
  (* the oracle table built by the Deck::Deck loop *)
  Section Prefix.
    Variable a : arena.
    Variable N : nat.
    Notation sd := (sd a N).
    Notation sid := (sid a N).
    Notation slot := (slot a N).

    Lemma oracles_snoc pre m :
      d_oracles (sd (pre ++ [m])) =
      if is_oracle_node (getn a m) then d_oracles (sd pre) ++ [(sid pre, m)]
      else d_oracles (sd pre).
    Proof.
      unfold DeckSem.sd, DeckSem.sid; rewrite st_snoc; destruct (st a N pre) as [d id];
      unfold deck_step; cbn [fst snd];
      destruct (getn a m) as [c|op|op x|op x y|k|x' y' z' t'|x y z t|v e t|];
      try destruct op; reflexivity.
    Qed.

    Lemma oracles_prefix pre m :
      exists t, d_oracles (sd (pre ++ [m])) = d_oracles (sd pre) ++ t.
    Proof.
      rewrite oracles_snoc. destruct (is_oracle_node (getn a m)).
      - eexists; reflexivity.
      - exists []; rewrite app_nil_r; reflexivity.
    Qed.

    Lemma oracles_sound pre : forall s id,
      In (s, id) (d_oracles (sd pre)) -> In id pre /\ is_oracle_node (getn a id) = true.
    Proof.
      induction pre as [|m0 pre IH] using rev_ind; intros s id Hin.
      - unfold DeckSem.sd, st in Hin; simpl in Hin; destruct Hin.
      - rewrite oracles_snoc in Hin. destruct (is_oracle_node (getn a m0)) eqn:Ho.
        + apply in_app_or in Hin. destruct Hin as [Hin|[Hin|[]]].
          * destruct (IH s id Hin) as [A B]. split; [apply in_or_app; left; exact A | exact B].
          * inversion Hin; subst. split; [apply in_or_app; right; left; reflexivity | exact Ho].
        + destruct (IH s id Hin) as [A B]. split; [apply in_or_app; left; exact A | exact B].
    Qed.

    (* ---------------------------------------------------------------- *)
    (* evaluating the clauses of a prefix, leaves to root *)
    Lemma otape_sem (D : deck) (r : env num) :
      arena_wf a ->
      forall pre, otopo_pre a pre -> length pre <= N ->
      forall v : list num, N < length v ->
        (forall m, In m pre -> has_clause (getn a m) = false ->
                   sget v (slot pre m) = val a m r) ->
        (forall m, In m pre -> has_clause (getn a m) = true ->
                   d_X D <> slot pre m /\ d_Y D <> slot pre m /\ d_Z D <> slot pre m) ->
        sget v (d_X D) = ex r -> sget v (d_Y D) = ey r -> sget v (d_Z D) = ez r ->
        (forall k s id, nth_error (d_oracles (sd pre)) k = Some (s, id) ->
                        oracle_at k (ex r) (ey r) (ez r) = val a id r) ->
        let v' := fold_left (eval_clause O oracle_at D) (rev (d_tape (sd pre))) v in
        length v' = length v /\
        (forall m, In m pre -> sget v' (slot pre m) = val a m r) /\
        (forall s, (forall m, In m pre -> has_clause (getn a m) = true -> s <> slot pre m) ->
                   sget v' s = sget v s).
    Proof.
      intros Hwf pre. induction pre as [|m0 pre IH] using rev_ind;
        intros Htp Hl v Hv Hleaf Haxs HvX HvY HvZ Horc.
      - unfold DeckSem.sd, st; simpl. split; [reflexivity|]. split; [intros m []|reflexivity].
      - destruct (otopo_pre_snoc a pre m0 Htp) as (Htp' & Hn0 & Hm0 & Hpure & Hkids).
        rewrite app_length in Hl; simpl in Hl.
        assert (Hleaf' : forall m, In m pre -> has_clause (getn a m) = false ->
                                   sget v (slot pre m) = val a m r).
        { intros m Hm Hlf. rewrite <- (slot_snoc_old a N pre m0 m Hn0 Hm).
          apply Hleaf; [apply in_or_app; left; exact Hm | exact Hlf]. }
        assert (Haxs' : forall m, In m pre -> has_clause (getn a m) = true ->
                   d_X D <> slot pre m /\ d_Y D <> slot pre m /\ d_Z D <> slot pre m).
        { intros m Hm Hc. rewrite <- (slot_snoc_old a N pre m0 m Hn0 Hm).
          apply Haxs; [apply in_or_app; left; exact Hm | exact Hc]. }
        assert (Horc' : forall k s id, nth_error (d_oracles (sd pre)) k = Some (s, id) ->
                        oracle_at k (ex r) (ey r) (ez r) = val a id r).
        { intros k s id Hk. apply (Horc k s id).
          destruct (oracles_prefix pre m0) as [t ->].
          rewrite nth_error_app1; [exact Hk|]. apply nth_error_Some. congruence. }
        specialize (IH Htp' ltac:(lia) v Hv Hleaf' Haxs' HvX HvY HvZ Horc'). cbv zeta in IH.
        destruct IH as (L & V & Fr).
        assert (Hid : sid pre = N - length pre) by apply sid_val.
        assert (Hidlt : sid pre < length v) by lia.
        assert (Hfresh : forall m, In m pre -> sid pre <> slot pre m).
        { intros m Hm. pose proof (slot_range a N pre m ltac:(lia) Hm). lia. }
        assert (Hfresh' : forall m, In m pre -> has_clause (getn a m) = true ->
                                    sid pre <> slot pre m)
          by (intros m Hm _; apply Hfresh; exact Hm).
        assert (Hin0 : In m0 (pre ++ [m0])) by (apply in_or_app; right; left; reflexivity).
        (* frame for a step that emits no clause *)
        assert (Hframe0 : forall s,
                  (forall m, In m (pre ++ [m0]) -> has_clause (getn a m) = true ->
                             s <> slot (pre ++ [m0]) m) ->
                  forall m, In m pre -> has_clause (getn a m) = true -> s <> slot pre m).
        { intros s Hs m Hm Hc. rewrite <- (slot_snoc_old a N pre m0 m Hn0 Hm).
          apply Hs; [apply in_or_app; left; exact Hm | exact Hc]. }
        cbv zeta. rewrite tape_snoc.
        set (v1 := fold_left (eval_clause O oracle_at D) (rev (d_tape (sd pre))) v) in *.
        unfold opure_at in Hpure.
        destruct (getn a m0) as [c|op|op x|op x y|k|x' y' z' t'|x y z t|vv e t|] eqn:Hg;
          try contradiction.
        + (* constant *)
          fold v1. split; [exact L|]. split.
          * intros m Hm. apply in_app_or in Hm. destruct Hm as [Hm|[Hm|[]]].
            -- rewrite slot_snoc_old by assumption. apply V; exact Hm.
            -- subst m. rewrite slot_snoc_new. rewrite Fr by exact Hfresh'.
               rewrite <- (slot_snoc_new a N pre m0). apply Hleaf; [exact Hin0|].
               rewrite Hg; reflexivity.
          * intros s Hs. apply Fr. apply Hframe0; exact Hs.
        + (* nullary *)
          assert (Hlf : has_clause (getn a m0) = false) by (rewrite Hg; reflexivity).
          replace (match op with
                   | VAR_X | VAR_Y | VAR_Z | VAR_FREE | _ => d_tape (sd pre)
                   end) with (d_tape (sd pre)) by (destruct op; reflexivity).
          fold v1. split; [exact L|]. split.
          * intros m Hm. apply in_app_or in Hm. destruct Hm as [Hm|[Hm|[]]].
            -- rewrite slot_snoc_old by assumption. apply V; exact Hm.
            -- subst m. rewrite slot_snoc_new. rewrite Fr by exact Hfresh'.
               rewrite <- (slot_snoc_new a N pre m0). apply Hleaf; [exact Hin0 | exact Hlf].
          * intros s Hs. apply Fr. apply Hframe0; exact Hs.
        + (* unary *)
          pose proof (shape_unary_args a m0 op x Hwf Hm0 Hg) as Hargs.
          destruct (val_unary O osem a m0 op x r Hwf Hm0 Hg) as [_ Hval].
          assert (Hx : In x pre) by (apply Hkids; left; reflexivity).
          cbn [rev]. rewrite fold_left_app. cbn [fold_left]. fold v1.
          rewrite (eval_clause_un O oracle_at D v1 op _ _ _ Hargs).
          split; [rewrite length_sset; exact L|]. split.
          * intros m Hm. apply in_app_or in Hm. destruct Hm as [Hm|[Hm|[]]].
            -- rewrite slot_snoc_old by assumption.
               rewrite sget_sset_other by (apply Hfresh; exact Hm). apply V; exact Hm.
            -- subst m. rewrite slot_snoc_new.
               rewrite sget_sset_same by (rewrite L; exact Hidlt).
               rewrite (V x Hx). symmetry; exact Hval.
          * intros s Hs. rewrite sget_sset_other.
            -- apply Fr. apply Hframe0; exact Hs.
            -- rewrite <- (slot_snoc_new a N pre m0). intros He; symmetry in He; revert He.
               apply Hs; [exact Hin0 | rewrite Hg; reflexivity].
        + (* binary *)
          pose proof (shape_binary_args a m0 op x y Hwf Hm0 Hg) as Hargs.
          destruct (val_binary O osem a m0 op x y r Hwf Hm0 Hg) as (_ & _ & Hval).
          assert (Hx : In x pre) by (apply Hkids; left; reflexivity).
          assert (Hy : In y pre) by (apply Hkids; right; left; reflexivity).
          cbn [rev]. rewrite fold_left_app. cbn [fold_left]. fold v1.
          rewrite (eval_clause_bin O oracle_at D v1 op _ _ _ Hargs).
          split; [rewrite length_sset; exact L|]. split.
          * intros m Hm. apply in_app_or in Hm. destruct Hm as [Hm|[Hm|[]]].
            -- rewrite slot_snoc_old by assumption.
               rewrite sget_sset_other by (apply Hfresh; exact Hm). apply V; exact Hm.
            -- subst m. rewrite slot_snoc_new.
               rewrite sget_sset_same by (rewrite L; exact Hidlt).
               rewrite (V x Hx), (V y Hy). symmetry; exact Hval.
          * intros s Hs. rewrite sget_sset_other.
            -- apply Fr. apply Hframe0; exact Hs.
            -- rewrite <- (slot_snoc_new a N pre m0). intros He; symmetry in He; revert He.
               apply Hs; [exact Hin0 | rewrite Hg; reflexivity].
        + (* user oracle *)
          assert (Hc0 : has_clause (getn a m0) = true) by (rewrite Hg; reflexivity).
          destruct (Haxs m0 Hin0 Hc0) as (AX & AY & AZ). rewrite slot_snoc_new in AX, AY, AZ.
          cbn [rev]. rewrite fold_left_app. cbn [fold_left]. fold v1.
          rewrite eval_clause_oracle.
          rewrite (Fr (d_X D)), (Fr (d_Y D)), (Fr (d_Z D)), HvX, HvY, HvZ
            by (intros m Hm Hc; apply Haxs'; assumption).
          rewrite (Horc (length (d_oracles (sd pre))) (sid pre) m0).
          2:{ rewrite oracles_snoc, Hg. cbn [is_oracle_node].
              rewrite nth_error_app2, Nat.sub_diag by lia. reflexivity. }
          split; [rewrite length_sset; exact L|]. split.
          * intros m Hm. apply in_app_or in Hm. destruct Hm as [Hm|[Hm|[]]].
            -- rewrite slot_snoc_old by assumption.
               rewrite sget_sset_other by (apply Hfresh; exact Hm). apply V; exact Hm.
            -- subst m. rewrite slot_snoc_new.
               rewrite sget_sset_same by (rewrite L; exact Hidlt). reflexivity.
          * intros s Hs. rewrite sget_sset_other.
            -- apply Fr. apply Hframe0; exact Hs.
            -- rewrite <- (slot_snoc_new a N pre m0). intros He; symmetry in He; revert He.
               apply Hs; [exact Hin0 | rewrite Hg; reflexivity].
        + (* transformed oracle *)
          assert (Hc0 : has_clause (getn a m0) = true) by (rewrite Hg; reflexivity).
          destruct (Haxs m0 Hin0 Hc0) as (AX & AY & AZ). rewrite slot_snoc_new in AX, AY, AZ.
          cbn [rev]. rewrite fold_left_app. cbn [fold_left]. fold v1.
          rewrite eval_clause_oracle.
          rewrite (Fr (d_X D)), (Fr (d_Y D)), (Fr (d_Z D)), HvX, HvY, HvZ
            by (intros m Hm Hc; apply Haxs'; assumption).
          rewrite (Horc (length (d_oracles (sd pre))) (sid pre) m0).
          2:{ rewrite oracles_snoc, Hg. cbn [is_oracle_node].
              rewrite nth_error_app2, Nat.sub_diag by lia. reflexivity. }
          split; [rewrite length_sset; exact L|]. split.
          * intros m Hm. apply in_app_or in Hm. destruct Hm as [Hm|[Hm|[]]].
            -- rewrite slot_snoc_old by assumption.
               rewrite sget_sset_other by (apply Hfresh; exact Hm). apply V; exact Hm.
            -- subst m. rewrite slot_snoc_new.
               rewrite sget_sset_same by (rewrite L; exact Hidlt). reflexivity.
          * intros s Hs. rewrite sget_sset_other.
            -- apply Fr. apply Hframe0; exact Hs.
            -- rewrite <- (slot_snoc_new a N pre m0). intros He; symmetry in He; revert He.
               apply Hs; [exact Hin0 | rewrite Hg; reflexivity].
    Qed.
  End Prefix.

  Lemma mk_deck_of_oracles (a : arena) flat root :
    d_oracles (mk_deck_of a flat root) = d_oracles (sd a (length flat) flat).
  Proof. pose proof (mk_deck_of_fields a flat root) as HD. cbv zeta in HD. rewrite HD. reflexivity. Qed.

  (* ---------------------------------------------------------------- *)
  Theorem deck_correct_otopo (a : arena) flat root vars x y z :
    arena_wf a -> base_ok O a -> otopo_ok a flat root ->
    let d := mk_deck_of a flat root in
    (forall k s id, nth_error (d_oracles d) k = Some (s, id) ->
       oracle_at k x y z = val a id {| ex := x; ey := y; ez := z; ev := vars |}) ->
    tape_value O oracle_at d (d_tape d) (d_root d) vars x y z
    = val a root {| ex := x; ey := y; ez := z; ev := vars |}.
  Proof.
    intros Hwf Hb [Htp [pre0 Hroot]]. cbv zeta. intros Horc.
    set (r := {| ex := x; ey := y; ez := z; ev := vars |}) in *.
    rewrite mk_deck_of_oracles in Horc.
    pose proof (mk_deck_of_fields a flat root) as HD. cbv zeta in HD.
    set (N := length flat) in *. set (dF := sd a N flat) in *.
    assert (Hnd : NoDup flat) by apply Htp.
    assert (Hok0 : sl_ok (d_slots dF) N).
    { split.
      - intros m Hm. apply (has_slot_st osem oracle_at) in Hm.
        pose proof (slot_range a N flat m (le_n _) Hm) as Hr. unfold slot in Hr. fold dF in Hr. lia.
      - intros m m' Hm Hm'. apply (has_slot_st osem oracle_at) in Hm, Hm'.
        apply (slot_inj a N flat m m' (le_n _) Hm Hm'). }
    pose proof (axes_ok _ _ Hok0) as HA. cbv zeta in HA.
    set (rr := fold_left add_axis [idX; idY; idZ] (d_slots dF, N)) in *.
    set (sl1 := fst rr) in *. set (n1 := snd rr) in *.
    destruct HA as ([Hrng Hinj] & Hle & HX & HY & HZ & Hold).
    set (D := mk_deck_of a flat root) in *.
    assert (ET : d_tape D = d_tape dF) by (rewrite HD; reflexivity).
    assert (EC : d_consts D = d_consts dF) by (rewrite HD; reflexivity).
    assert (EV : d_vars D = d_vars dF) by (rewrite HD; reflexivity).
    assert (EX : d_X D = slot_of sl1 idX) by (rewrite HD; reflexivity).
    assert (EY : d_Y D = slot_of sl1 idY) by (rewrite HD; reflexivity).
    assert (EZ : d_Z D = slot_of sl1 idZ) by (rewrite HD; reflexivity).
    assert (EN : d_num D = n1) by (rewrite HD; reflexivity).
    assert (ER : d_root D = slot_of sl1 root) by (rewrite HD; reflexivity).
    clearbody D. clear HD.
    assert (Hfl : forall m, In m flat ->
                   has_slot sl1 m = true /\ slot_of sl1 m = slot a N flat m).
    { intros m Hm. apply (has_slot_st osem oracle_at a N) in Hm. apply Hold in Hm. exact Hm. }
    destruct (base_axes O a Hb) as (GX & GY & GZ).
    (* an axis slot differs from the slot of any walked node of another shape *)
    assert (Hax : forall m ax, In m flat -> has_slot sl1 ax = true ->
                    getn a m <> getn a ax -> slot_of sl1 ax <> slot a N flat m).
    { intros m ax Hm Hx Hne He. destruct (Hfl m Hm) as [Hm1 Hm2].
      rewrite <- Hm2 in He. apply Hinj in He; [|assumption|assumption]. subst ax. apply Hne; reflexivity. }
    assert (HXY : slot_of sl1 idX <> slot_of sl1 idY).
    { intros He. apply Hinj in He; [|assumption|assumption]. discriminate He. }
    assert (HXZ : slot_of sl1 idX <> slot_of sl1 idZ).
    { intros He. apply Hinj in He; [|assumption|assumption]. discriminate He. }
    assert (HYZ : slot_of sl1 idY <> slot_of sl1 idZ).
    { intros He. apply Hinj in He; [|assumption|assumption]. discriminate He. }
    set (vi := init_slots O D vars).
    assert (Lvi : length vi = S n1).
    { unfold vi, init_slots.
      rewrite (fold_sset_length (fun c : num => c)), (fold_sset_length vars), repeat_length, EN.
      reflexivity. }
    set (v0 := set_point D vi x y z).
    assert (Lv0 : length v0 = S n1).
    { unfold v0, set_point. rewrite !length_sset. exact Lvi. }
    pose proof (Hrng idX HX) as RX. pose proof (Hrng idY HY) as RY. pose proof (Hrng idZ HZ) as RZ.
    assert (V0X : sget v0 (d_X D) = ex r).
    { unfold v0, set_point. rewrite EX, EY, EZ.
      rewrite sget_sset_other by (apply not_eq_sym; exact HXZ).
      rewrite sget_sset_other by (apply not_eq_sym; exact HXY).
      rewrite sget_sset_same; [reflexivity|]. rewrite Lvi. lia. }
    assert (V0Y : sget v0 (d_Y D) = ey r).
    { unfold v0, set_point. rewrite EX, EY, EZ.
      rewrite sget_sset_other by (apply not_eq_sym; exact HYZ).
      rewrite sget_sset_same; [reflexivity|]. rewrite length_sset, Lvi. lia. }
    assert (V0Z : sget v0 (d_Z D) = ez r).
    { unfold v0, set_point. rewrite EX, EY, EZ.
      rewrite sget_sset_same; [reflexivity|]. rewrite !length_sset, Lvi. lia. }
    assert (Hleaf : forall m, In m flat -> has_clause (getn a m) = false ->
                      sget v0 (slot a N flat m) = val a m r).
    { intros m Hm Hlf. destruct (otopo_pre_in a flat m Htp Hm) as [Hml Hpure].
      destruct (Hfl m Hm) as [Hm1 Hm2].
      pose proof (Hrng m Hm1) as Hmr. rewrite Hm2 in Hmr.
      unfold opure_at in Hpure.
      destruct (getn a m) as [c|op|op x1|op x1 y1|k|x' y' z' t'|x1 y1 z1 t1|vv e t|] eqn:Hg;
        try contradiction; try discriminate Hlf.
      - (* constant *)
        rewrite (val_const O osem a m c r Hml Hg).
        unfold v0, set_point. rewrite EX, EY, EZ.
        rewrite !sget_sset_other by (apply Hax; auto; rewrite Hg; congruence).
        unfold vi, init_slots. rewrite EC.
        apply (fold_sset_in O (fun c : num => c)).
        + rewrite (fold_sset_length vars), repeat_length, EN. lia.
        + apply consts_complete; assumption.
        + intros c' Hc'. apply consts_sound in Hc'; [|exact Hnd].
          destruct Hc' as (m' & Hm' & Hg' & Hs').
          apply (slot_inj a N flat m m' (le_n _) Hm Hm') in Hs'. subst m'. congruence.
      - (* nullary *)
        rewrite val_node by exact Hml. rewrite Hg.
        destruct op; try contradiction.
        + (* X *) subst m. cbn [nodeval]. rewrite <- Hm2, <- EX. exact V0X.
        + (* Y *) subst m. cbn [nodeval]. rewrite <- Hm2, <- EY. exact V0Y.
        + (* Z *) subst m. cbn [nodeval]. rewrite <- Hm2, <- EZ. exact V0Z.
        + (* free variable *)
          cbn [nodeval]. unfold v0, set_point. rewrite EX, EY, EZ.
          rewrite !sget_sset_other by (apply Hax; auto; rewrite Hg; congruence).
          unfold vi, init_slots. rewrite EC, EV.
          rewrite (fold_sset_notin O (fun c : num => c)).
          * change (ev r m) with (vars m). apply (fold_sset_in O vars).
            -- rewrite repeat_length, EN. lia.
            -- apply vars_complete; assumption.
            -- intros w Hw. apply vars_sound in Hw; [|exact Hnd].
               destruct Hw as (Hw & _ & Hs').
               apply (slot_inj a N flat m w (le_n _) Hm Hw) in Hs'. subst w. reflexivity.
          * intros c' Hc'. apply consts_sound in Hc'; [|exact Hnd].
            destruct Hc' as (m' & Hm' & Hg' & Hs').
            apply (slot_inj a N flat m m' (le_n _) Hm Hm') in Hs'. subst m'. congruence. }
    assert (Haxs : forall m, In m flat -> has_clause (getn a m) = true ->
              d_X D <> slot a N flat m /\ d_Y D <> slot a N flat m /\ d_Z D <> slot a N flat m).
    { intros m Hm Hc. rewrite EX, EY, EZ.
      repeat split; apply Hax; auto; intros He; rewrite He in Hc;
        rewrite ?GX, ?GY, ?GZ in Hc; discriminate Hc. }
    assert (HNv : N < length v0) by (rewrite Lv0; lia).
    pose proof (otape_sem a N D r Hwf flat Htp (le_n _) v0 HNv Hleaf Haxs V0X V0Y V0Z Horc) as HT.
    cbv zeta in HT. destruct HT as (_ & V & _).
    assert (Hrf : In root flat) by (rewrite Hroot; apply in_or_app; right; left; reflexivity).
    unfold tape_value, eval_tape. fold vi. fold v0.
    rewrite ET, ER. destruct (Hfl root Hrf) as [_ ->]. apply V. exact Hrf.
  Qed.

End DeckOracleSem.

(* ================================================================== *)
(* Tree::walk on arenas with oracle leaves                             *)
Section WalkOracle.
  Context {num : Type}.
  Notation arena := (arena num).
  Variable a : arena.
  Hypothesis Hwf : arena_wf a.
  Variable root : nat.
  Hypothesis Hroot : root < length a.

  Lemma walk_otopo_Rf :
    (forall m, Rf a root m = true -> opure_at a m) -> otopo_ok a (walk a root) root.
  Proof.
    intros Hpure. unfold walk. rewrite in_degrees_eq.
    pose proof (cpres_inv a Hwf root Hroot) as CI.
    pose proof (wl_init a Hwf root Hroot) as I0.
    destruct (walk_loop_spec a Hwf root Hroot (S root) _ _ _ I0 ltac:(simpl; lia)) as [cnt' I].
    set (L := walk_loop (S root) a [root] (snd (cpres a root)) []) in *.
    pose proof (wl_complete a Hwf root Hroot _ _ I) as Hcomp.
    destruct I as [Ln Ct Nd Td FR F0 Od La]. simpl in Nd.
    split; [split|].
    - exact Nd.
    - intros p m s Heq.
      assert (Hm : In m L) by (rewrite Heq; apply in_or_app; right; left; reflexivity).
      pose proof (Rf_le a Hwf root Hroot m (FR m Hm)) as Hmr.
      split; [lia|]. split; [apply Hpure; apply FR; exact Hm|].
      intros k Hk.
      assert (Hk' : In k L).
      { apply Hcomp. apply (cp_closed _ _ _ _ _ CI m k); [lia | apply FR; exact Hm | exact Hk]. }
      rewrite Heq in Hk'. apply in_app_or in Hk'. destruct Hk' as [Hk'|Hk']; [exact Hk'|].
      exfalso. apply (Od p m s Heq k Hk). exact Hk'.
    - destruct La as [[_ Hd]|Hex]; [discriminate Hd | exact Hex].
  Qed.

  Theorem walk_otopo_ok_reach :
    (forall m, reach a root m -> opure_at a m) -> otopo_ok a (walk a root) root.
  Proof.
    intros Hpure. apply walk_otopo_Rf. intros m Rm. apply Hpure.
    apply Rf_reach; assumption.
  Qed.

  Theorem walk_otopo_ok :
    (forall m, m <= root -> opure_at a m) -> otopo_ok a (walk a root) root.
  Proof.
    intros Hpure. apply walk_otopo_ok_reach. intros m Hm. apply Hpure.
    apply (reach_le a Hwf root Hroot); exact Hm.
  Qed.

  (* the oracle table of the deck lists reachable oracle nodes only *)
  Theorem deck_oracles_spec s id :
    In (s, id) (d_oracles (mk_deck a root)) ->
    reach a root id /\ id <= root /\ id < length a /\ is_oracle_node (getn a id) = true.
  Proof.
    rewrite mk_deck_eq, mk_deck_of_oracles. intros Hin.
    destruct (oracles_sound a _ _ s id Hin) as [Hw Ho].
    pose proof (walk_in_reach a Hwf root Hroot id Hw) as Hr.
    pose proof (reach_le a Hwf root Hroot id Hr) as Hle.
    repeat split; try assumption. lia.
  Qed.

  Corollary deck_oracles_shape k s id :
    nth_error (d_oracles (mk_deck a root)) k = Some (s, id) ->
    id <= root /\ id < length a /\
    ((exists g, getn a id = NOracle g) \/ (exists cx cy cz u, getn a id = NOracleT cx cy cz u)).
  Proof.
    intros Hk. apply nth_error_In in Hk.
    destruct (deck_oracles_spec s id Hk) as (_ & A & B & C).
    split; [exact A|]. split; [exact B|].
    destruct (getn a id) as [c|op|op x|op x y|g|x' y' z' t'|x y z t|v e t|]; try discriminate C.
    - left; eexists; reflexivity.
    - right; do 4 eexists; reflexivity.
  Qed.
End WalkOracle.

(* ================================================================== *)
Section DeckCorrectOracle.
  Context {num : Type} (O : ops num).
  Variable osem : nat -> num -> num -> num -> num.
  Variable oracle_at : nat -> num -> num -> num -> num.

  Theorem deck_correct_oracle_reach (a : arena num) (root : nat) vars x y z :
    arena_wf a -> base_ok O a -> root < length a ->
    (forall m, reach a root m -> opure_at a m) ->
    let d := mk_deck a root in
    (forall k slot id, nth_error (d_oracles d) k = Some (slot, id) ->
       oracle_at k x y z = val O osem a id {| ex := x; ey := y; ez := z; ev := vars |}) ->
    tape_value O oracle_at d (d_tape d) (d_root d) vars x y z
    = val O osem a root {| ex := x; ey := y; ez := z; ev := vars |}.
  Proof.
    intros Hwf Hb Hroot Hpure. cbv zeta. rewrite mk_deck_eq. intros Horc.
    apply deck_correct_otopo; [exact Hwf | exact Hb | | exact Horc].
    apply walk_otopo_ok_reach; assumption.
  Qed.

  Theorem deck_correct_oracle (a : arena num) (root : nat) vars x y z :
    arena_wf a -> base_ok O a -> root < length a ->
    (forall m, m <= root -> evaluable_at a m) ->
    (forall m, m <= root -> canon_at a m) ->
    let d := mk_deck a root in
    (forall k slot id, nth_error (d_oracles d) k = Some (slot, id) ->
       oracle_at k x y z = val O osem a id {| ex := x; ey := y; ez := z; ev := vars |}) ->
    tape_value O oracle_at d (d_tape d) (d_root d) vars x y z
    = val O osem a root {| ex := x; ey := y; ez := z; ev := vars |}.
  Proof.
    intros Hwf Hb Hroot Hev Hcan. cbv zeta. intros Horc.
    apply deck_correct_oracle_reach; [exact Hwf | exact Hb | exact Hroot | | exact Horc].
    intros m Hm. pose proof (reach_le a Hwf root Hroot m Hm) as Hle.
    exact (opure_of_evaluable a m (Hev m Hle) (Hcan m Hle)).
  Qed.
End DeckCorrectOracle.
