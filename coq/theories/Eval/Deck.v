(* Tree::walk (tree.cpp), Deck::Deck (deck.cpp) and the point evaluation of a
   tape (ArrayEvaluator::value for one slot), on a remap-free arena. *)
From Coq Require Import List Arith Bool Lia.
From LF Require Import Base.Opcode Base.Num Base.Arena Tree.Build.
Import ListNotations.

Section Deck.
  Context {num : Type} (O : ops num).
  Notation node := (node num).
  Notation arena := (arena num).

  (* children followed by walk(): oracles are leaves *)
  Definition kids (n : node) : list nat :=
    match n with
    | NUnary _ x => [x]
    | NBinary _ x y => [x; y]
    | _ => []
    end.

  Fixpoint upd {A} (l : list A) (i : nat) (f : A -> A) : list A :=
    match l, i with
    | [], _ => []
    | x :: r, 0 => f x :: r
    | x :: r, S j => x :: upd r j f
    end.

  (* Pass 1: number of edges into each node from nodes reachable from the
     root.  The C++ DFS expands every reachable node exactly once, so the
     counts are the in-degrees, computed here in descending id order. *)
  Fixpoint count_pass (k : nat) (a : arena) (reach : list bool) (cnt : list nat)
    : list bool * list nat :=
    match k with
    | 0 => (reach, cnt)
    | S j =>
        if nth j reach false then
          let ks := kids (getn a j) in
          let reach' := fold_left (fun r c => upd r c (fun _ => true)) ks reach in
          let cnt' := fold_left (fun r c => upd r c S) ks cnt in
          count_pass j a reach' cnt'
        else count_pass j a reach cnt
    end.

  Definition in_degrees (a : arena) (root : nat) : list nat :=
    let n := S root in
    let reach := upd (repeat false n) root (fun _ => true) in
    snd (count_pass n a reach (repeat 0 n)).

  (* Pass 2: Kahn's algorithm driven by an explicit stack, lhs pushed before
     rhs (so rhs is popped first) *)
  Fixpoint walk_loop (fuel : nat) (a : arena) (todo : list nat) (cnt : list nat) (flat : list nat)
    : list nat :=
    match fuel with
    | 0 => flat
    | S f =>
      match todo with
      | [] => flat
      | next :: rest =>
          let step := fun (acc : list nat * list nat) c =>
            let (td, cn) := acc in
            let cn' := upd cn c pred in
            if Nat.eqb (nth c cn' 0) 0 then (c :: td, cn') else (td, cn') in
          let (todo', cnt') := fold_left step (kids (getn a next)) (rest, cnt) in
          walk_loop f a todo' cnt' (next :: flat)
      end
    end.

  (* the result of Tree::walk: leaves first, root last *)
  Definition walk (a : arena) (root : nat) : list nat :=
    walk_loop (S root) a [root] (in_degrees a root) [].

  (* --- Deck::Deck ------------------------------------------------------ *)
  Record clause := { c_op : opcode; c_id : nat; c_a : nat; c_b : nat }.

  Record deck := {
    d_tape : list clause;              (* root first, like Tape::t *)
    d_consts : list (nat * num);       (* slot, value *)
    d_vars : list (nat * nat);         (* slot, arena id of the VAR_FREE node *)
    d_oracles : list (nat * nat);      (* slot, arena id of the oracle node *)
    d_slots : list (nat * nat);        (* arena id -> slot, every walked node *)
    d_X : nat; d_Y : nat; d_Z : nat;
    d_num : nat;                       (* Deck::num_clauses *)
    d_root : nat
  }.

  Fixpoint slot_of (m : list (nat * nat)) (i : nat) : nat :=
    match m with
    | [] => 0
    | (j, s) :: r => if Nat.eqb i j then s else slot_of r i
    end.
  Fixpoint has_slot (m : list (nat * nat)) (i : nat) : bool :=
    match m with
    | [] => false
    | (j, _) :: r => Nat.eqb i j || has_slot r i
    end.

  (* one iteration of the loop over [flat]; [id] counts down *)
  Definition deck_step (a : arena) (acc : deck * nat) (m : nat) : deck * nat :=
    let (d, id) := acc in
    let n := getn a m in
    let slots' := (m, id) :: d_slots d in
    let d' :=
      match n with
      | NConst c =>
          {| d_tape := d_tape d; d_consts := d_consts d ++ [(id, c)]; d_vars := d_vars d;
             d_oracles := d_oracles d; d_slots := slots';
             d_X := 0; d_Y := 0; d_Z := 0; d_num := 0; d_root := 0 |}
      | NNullary VAR_FREE =>
          {| d_tape := d_tape d; d_consts := d_consts d; d_vars := d_vars d ++ [(id, m)];
             d_oracles := d_oracles d; d_slots := slots';
             d_X := 0; d_Y := 0; d_Z := 0; d_num := 0; d_root := 0 |}
      | NOracle _ | NOracleT _ _ _ _ =>
          {| d_tape := {| c_op := ORACLE; c_id := id; c_a := length (d_oracles d); c_b := 0 |} :: d_tape d;
             d_consts := d_consts d; d_vars := d_vars d;
             d_oracles := d_oracles d ++ [(id, m)]; d_slots := slots';
             d_X := 0; d_Y := 0; d_Z := 0; d_num := 0; d_root := 0 |}
      | NUnary op x =>
          {| d_tape := {| c_op := op; c_id := id; c_a := slot_of (d_slots d) x; c_b := 0 |} :: d_tape d;
             d_consts := d_consts d; d_vars := d_vars d; d_oracles := d_oracles d; d_slots := slots';
             d_X := 0; d_Y := 0; d_Z := 0; d_num := 0; d_root := 0 |}
      | NBinary op x y =>
          {| d_tape := {| c_op := op; c_id := id; c_a := slot_of (d_slots d) x;
                          c_b := slot_of (d_slots d) y |} :: d_tape d;
             d_consts := d_consts d; d_vars := d_vars d; d_oracles := d_oracles d; d_slots := slots';
             d_X := 0; d_Y := 0; d_Z := 0; d_num := 0; d_root := 0 |}
      | _ =>  (* VAR_X / VAR_Y / VAR_Z: a slot but no clause *)
          {| d_tape := d_tape d; d_consts := d_consts d; d_vars := d_vars d;
             d_oracles := d_oracles d; d_slots := slots';
             d_X := 0; d_Y := 0; d_Z := 0; d_num := 0; d_root := 0 |}
      end in
    (d', pred id).

  Definition deck0 : deck :=
    {| d_tape := []; d_consts := []; d_vars := []; d_oracles := []; d_slots := [];
       d_X := 0; d_Y := 0; d_Z := 0; d_num := 0; d_root := 0 |}.

  (* [a], [root]: the optimised, flattened tree *)
  Definition mk_deck (a : arena) (root : nat) : deck :=
    let flat := walk a root in
    let (d, _) := fold_left (deck_step a) flat (deck0, length flat) in
    (* prepending while walking leaves-to-root leaves the root clause first *)
    let n := length flat in
    let add_axis := fun (acc : list (nat * nat) * nat) ax =>
      let (sl, cnt) := acc in
      if has_slot sl ax then (sl, cnt) else ((ax, S cnt) :: sl, S cnt) in
    let (sl1, n1) := fold_left add_axis [idX; idY; idZ] (d_slots d, n) in
    {| d_tape := d_tape d; d_consts := d_consts d; d_vars := d_vars d;
       d_oracles := d_oracles d; d_slots := sl1;
       d_X := slot_of sl1 idX; d_Y := slot_of sl1 idY; d_Z := slot_of sl1 idZ;
       d_num := n1; d_root := slot_of sl1 root |}.

  (* --- evaluation of a tape at one point -------------------------------- *)
  Definition slots := list num.       (* indexed by slot id, length d_num + 1 *)
  Definition sget (v : slots) (i : nat) : num := nth i v (o_zero O).
  Definition sset (v : slots) (i : nat) (x : num) : slots := upd v i (fun _ => x).

  (* oracle clause [k] evaluated at (x,y,z): supplied by the caller *)
  Variable oracle_at : nat -> num -> num -> num -> num.

  Definition eval_clause (d : deck) (v : slots) (c : clause) : slots :=
    match args (c_op c) with
    | Some 1 => sset v (c_id c) (o_un O (c_op c) (sget v (c_a c)))
    | Some 2 => sset v (c_id c) (o_bin O (c_op c) (sget v (c_a c)) (sget v (c_b c)))
    | _ =>
        match c_op c with
        | ORACLE => sset v (c_id c)
                      (oracle_at (c_a c) (sget v (d_X d)) (sget v (d_Y d)) (sget v (d_Z d)))
        | _ => v
        end
    end.

  (* constructor of ArrayEvaluator: zero, then variables, then constants *)
  Definition init_slots (d : deck) (vars : nat -> num) : slots :=
    let v0 := repeat (o_zero O) (S (d_num d)) in
    let v1 := fold_left (fun v p => sset v (fst p) (vars (snd p))) (d_vars d) v0 in
    fold_left (fun v p => sset v (fst p) (snd p)) (d_consts d) v1.

  Definition set_point (d : deck) (v : slots) (x y z : num) : slots :=
    sset (sset (sset v (d_X d) x) (d_Y d) y) (d_Z d) z.

  (* walking tape.rbegin()..rend(): leaves to root *)
  Definition eval_tape (d : deck) (tape : list clause) (v : slots) : slots :=
    fold_left (eval_clause d) (rev tape) v.

  Definition tape_value (d : deck) (tape : list clause) (root : nat)
             (vars : nat -> num) (x y z : num) : num :=
    sget (eval_tape d tape (set_point d (init_slots d vars) x y z)) root.

End Deck.
