(* The keep functions handed to Tape::push as the C++ source states them (Gen/KeepFns_gen.v, regenerated from
   eval_interval.cpp / eval_array.cpp on every run by translate/gen_keep.py) ARE the keep functions of the model
   (Eval/Push.v) that the C05 theorems are about: same tests in the same order, for every number type.  A dropped
   isSafe test (the defect repaired in ad618f0), a comparison against the other bound, a KEEP_A / KEEP_B exchanged
   changes the generated term and breaks one of these lemmas. *)
From Coq Require Import List Bool Arith.
From LF Require Import Base.Opcode Base.Num Eval.Deck Eval.Push Gen.KeepFns_gen.

Section KeepAgree.
  Context {num : Type} (O : ops num).

  Lemma keep_interval_gen_eq lo hi maybe_nan c :
    keep_interval_gen O lo hi maybe_nan c = keep_interval O lo hi maybe_nan c.
  Proof.
    unfold keep_interval_gen, keep_interval.
    destruct (c_op c); cbn [opcode_eqb]; try reflexivity;
      rewrite !negb_involutive; reflexivity.
  Qed.

  Lemma keep_point_gen_eq v c : keep_point_gen O v c = keep_point O v c.
  Proof.
    unfold keep_point_gen, keep_point.
    destruct (c_op c); cbn [opcode_eqb]; reflexivity.
  Qed.
End KeepAgree.
