(* Correctness of Deck::Deck + point evaluation of the tape (Deck.v) with
   respect to the denotational semantics [val] (Sem.v), and correctness of
   Tree::walk (Kahn's algorithm) as a producer of topological orders.

   NOTE ON A NEEDED HYPOTHESIS (documented deviation from the informal
   statement).  [base_ok] only fixes ids 0..4; it does not forbid a *second*
   node of shape [NNullary VAR_X] at some id m <> idX.  For such an arena the
   deck theorem is FALSE: Deck gives node m its own slot, never writes it
   (set_point only writes the slot of arena id idX), so the tape evaluates it
   to zero, while [val a m r = ex r].
   Concrete counterexample: a = init_arena O ++ [NNullary VAR_X], root = 5,
   flat = walk a 5 = [5]: slots = [(2,4);(1,3);(0,2);(5,1)], empty tape,
   tape_value = sget v 1 = o_zero O, but val a 5 r = x.
   The real constructors never build such a node (mk_nullary returns idX).
   Hence [pure_at] below demands that a VAR_X / VAR_Y / VAR_Z shaped node is
   the canonical one (id idX / idY / idZ).  Nothing else is assumed. *)
From Coq Require Import List Arith Bool Lia.
From LF Require Import Base.Opcode Base.Num Base.Arena Base.Sem Tree.Build
                       Tree.BuildSem Eval.Deck.
Import ListNotations.

(* ------------------------------------------------------------------ *)
(* generic list lemmas about [upd]                                     *)
Section UpdLemmas.
  Context {A : Type}.

  Lemma length_upd (l : list A) i f : length (upd l i f) = length l.
  Proof.
    revert i; induction l as [|x l IH]; intros [|i]; simpl; auto.
  Qed.

  Lemma nth_upd_same (l : list A) i f d :
    i < length l -> nth i (upd l i f) d = f (nth i l d).
  Proof.
    revert i; induction l as [|x l IH]; intros [|i] Hi; simpl in *; try lia; auto.
    apply IH; lia.
  Qed.

  Lemma nth_upd_other (l : list A) i j f d :
    i <> j -> nth j (upd l i f) d = nth j l d.
  Proof.
    revert i j; induction l as [|x l IH]; intros [|i] [|j] Hij; simpl; auto; try lia.
  Qed.
End UpdLemmas.

Lemma NoDup_snoc {A} (l : list A) (m : A) : NoDup (l ++ [m]) -> NoDup l /\ ~ In m l.
Proof.
  intros H. pose proof (NoDup_remove_1 _ _ _ H) as H1. pose proof (NoDup_remove_2 _ _ _ H) as H2.
  rewrite app_nil_r in H1, H2. split; assumption.
Qed.

Section DeckSem.
  Context {num : Type} (O : ops num).
  Variable osem : nat -> num -> num -> num -> num.
  Variable oracle_at : nat -> num -> num -> num -> num.
  Notation node := (node num).
  Notation arena := (arena num).
  Notation deck := (@deck num).
  Notation val := (val O osem).
  Notation sget := (sget O).

  (* ---------------------------------------------------------------- *)
  (* slots *)
  Lemma length_sset (v : list num) i x : length (sset v i x) = length v.
  Proof. apply length_upd. Qed.
  Lemma sget_sset_same (v : list num) i x : i < length v -> sget (sset v i x) i = x.
  Proof. intros Hi; unfold Deck.sget, sset; rewrite nth_upd_same by exact Hi; reflexivity. Qed.
  Lemma sget_sset_other (v : list num) i j x : i <> j -> sget (sset v i x) j = sget v j.
  Proof. intros Hi; unfold Deck.sget, sset; apply nth_upd_other; exact Hi. Qed.

  Lemma eval_clause_un (D : deck) v op i ca cb : args op = Some 1 ->
    eval_clause O oracle_at D v {| c_op := op; c_id := i; c_a := ca; c_b := cb |} =
    sset v i (o_un O op (sget v ca)).
  Proof. intros H; unfold eval_clause; cbn [c_op c_id c_a c_b]; rewrite H; reflexivity. Qed.

  Lemma eval_clause_bin (D : deck) v op i ca cb : args op = Some 2 ->
    eval_clause O oracle_at D v {| c_op := op; c_id := i; c_a := ca; c_b := cb |} =
    sset v i (o_bin O op (sget v ca) (sget v cb)).
  Proof. intros H; unfold eval_clause; cbn [c_op c_id c_a c_b]; rewrite H; reflexivity. Qed.

  Section FoldSset.
    Context {B : Type} (g : B -> num).
    Local Notation F := (fun (v : list num) (p : nat * B) => sset v (fst p) (g (snd p))).

    Lemma fold_sset_length l v : length (fold_left F l v) = length v.
    Proof.
      revert v; induction l as [|p l IH]; intros v; simpl; [reflexivity|].
      rewrite IH; apply length_sset.
    Qed.

    Lemma fold_sset_notin l v s :
      (forall b, ~ In (s, b) l) -> sget (fold_left F l v) s = sget v s.
    Proof.
      revert v; induction l as [|p l IH]; intros v Hn; simpl; [reflexivity|].
      rewrite IH by (intros b Hb; apply (Hn b); right; exact Hb).
      apply sget_sset_other. intros He.
      apply (Hn (snd p)). left. destruct p; simpl in *; subst; reflexivity.
    Qed.

    Lemma fold_sset_in l v s b :
      s < length v -> In (s, b) l -> (forall b', In (s, b') l -> g b' = g b) ->
      sget (fold_left F l v) s = g b.
    Proof.
      intros Hs. induction l as [|p l IH] using rev_ind; intros Hin Hall; [destruct Hin|].
      rewrite fold_left_app; simpl.
      destruct (Nat.eq_dec (fst p) s) as [He|Hne].
      - rewrite He. rewrite sget_sset_same by (rewrite fold_sset_length; exact Hs).
        apply Hall. apply in_or_app; right; left. destruct p; simpl in *; subst; reflexivity.
      - rewrite sget_sset_other by exact Hne.
        apply IH.
        + apply in_app_or in Hin. destruct Hin as [Hin|[Hin|[]]]; [exact Hin|].
          subst p; simpl in Hne; congruence.
        + intros b' Hb'. apply Hall. apply in_or_app; left; exact Hb'.
    Qed.
  End FoldSset.

  (* ---------------------------------------------------------------- *)
  (* purity and topological orders *)
  Definition pure_at (a : arena) (m : nat) : Prop :=
    match getn a m with
    | NConst _ => True
    | NNullary VAR_X => m = idX
    | NNullary VAR_Y => m = idY
    | NNullary VAR_Z => m = idZ
    | NNullary VAR_FREE => True
    | NUnary _ _ => True
    | NBinary _ _ _ => True
    | _ => False
    end.

  (* every element: in range, pure, children strictly earlier; no duplicates *)
  Definition topo_pre (a : arena) (l : list nat) : Prop :=
    NoDup l /\
    forall pre m suf, l = pre ++ m :: suf ->
      m < length a /\ pure_at a m /\ forall k, In k (kids (getn a m)) -> In k pre.

  Definition topo_ok (a : arena) (flat : list nat) (root : nat) : Prop :=
    topo_pre a flat /\ exists pre, flat = pre ++ [root].

  Lemma topo_pre_snoc a l m :
    topo_pre a (l ++ [m]) ->
    topo_pre a l /\ ~ In m l /\ m < length a /\ pure_at a m /\
    forall k, In k (kids (getn a m)) -> In k l.
  Proof.
    intros [Hnd Hall]. split; [split|].
    - apply (NoDup_snoc l m Hnd).
    - intros pre m0 suf ->. apply (Hall pre m0 (suf ++ [m])).
      rewrite <- app_assoc; reflexivity.
    - split.
      + apply (NoDup_snoc l m Hnd).
      + apply (Hall l m []). reflexivity.
  Qed.

  (* ---------------------------------------------------------------- *)
  (* Deck::Deck with the walk replaced by an arbitrary list *)
  Definition add_axis (acc : list (nat * nat) * nat) (ax : nat) : list (nat * nat) * nat :=
    let (sl, cnt) := acc in
    if has_slot sl ax then (sl, cnt) else ((ax, S cnt) :: sl, S cnt).

  Definition mk_deck_of (a : arena) (flat : list nat) (root : nat) : deck :=
    let (d, _) := fold_left (deck_step a) flat (deck0, length flat) in
    let n := length flat in
    let (sl1, n1) := fold_left add_axis [idX; idY; idZ] (d_slots d, n) in
    {| d_tape := d_tape d; d_consts := d_consts d; d_vars := d_vars d;
       d_oracles := d_oracles d; d_slots := sl1;
       d_X := slot_of sl1 idX; d_Y := slot_of sl1 idY; d_Z := slot_of sl1 idZ;
       d_num := n1; d_root := slot_of sl1 root |}.

  Lemma mk_deck_eq a root : mk_deck a root = mk_deck_of a (walk a root) root.
  Proof. reflexivity. Qed.

  Definition sl_ok (sl : list (nat * nat)) (cnt : nat) : Prop :=
    (forall m, has_slot sl m = true -> 1 <= slot_of sl m <= cnt) /\
    (forall m m', has_slot sl m = true -> has_slot sl m' = true ->
                  slot_of sl m = slot_of sl m' -> m = m').

  Lemma add_axis_ok sl cnt ax :
    sl_ok sl cnt ->
    let r := add_axis (sl, cnt) ax in
    sl_ok (fst r) (snd r) /\ cnt <= snd r /\ has_slot (fst r) ax = true /\
    (forall m, has_slot sl m = true ->
               has_slot (fst r) m = true /\ slot_of (fst r) m = slot_of sl m).
  Proof.
    intros [Hr Hi]. unfold add_axis. destruct (has_slot sl ax) eqn:Hax; cbn [fst snd].
    - repeat split; auto; apply Hr; auto.
    - assert (Hne : forall m, has_slot sl m = true -> Nat.eqb m ax = false).
      { intros m Hm. apply Nat.eqb_neq. intros ->. congruence. }
      split; [split|].
      + intros m. cbn [has_slot slot_of]. destruct (Nat.eqb m ax) eqn:He; cbn [orb].
        * intros _; lia.
        * intros Hm. specialize (Hr m Hm). lia.
      + intros m m'. cbn [has_slot slot_of].
        destruct (Nat.eqb m ax) eqn:He; destruct (Nat.eqb m' ax) eqn:He'; cbn [orb].
        * intros _ _ _. apply Nat.eqb_eq in He, He'. congruence.
        * intros _ Hm' Heq. specialize (Hr m' Hm'). lia.
        * intros Hm _ Heq. specialize (Hr m Hm). lia.
        * apply Hi.
      + split; [lia|]. split.
        * cbn [has_slot]. rewrite Nat.eqb_refl. reflexivity.
        * intros m Hm. cbn [has_slot slot_of]. rewrite (Hne m Hm). cbn [orb]. auto.
  Qed.

  Lemma axes_ok sl cnt :
    sl_ok sl cnt ->
    let r := fold_left add_axis [idX; idY; idZ] (sl, cnt) in
    sl_ok (fst r) (snd r) /\ cnt <= snd r /\
    has_slot (fst r) idX = true /\ has_slot (fst r) idY = true /\
    has_slot (fst r) idZ = true /\
    (forall m, has_slot sl m = true ->
               has_slot (fst r) m = true /\ slot_of (fst r) m = slot_of sl m).
  Proof.
    intros H0. cbn [fold_left].
    pose proof (add_axis_ok sl cnt idX H0) as H1. cbv zeta in H1.
    destruct (add_axis (sl, cnt) idX) as [sl1 c1]. cbn [fst snd] in H1.
    destruct H1 as (K1 & L1 & X1 & P1).
    pose proof (add_axis_ok sl1 c1 idY K1) as H2. cbv zeta in H2.
    destruct (add_axis (sl1, c1) idY) as [sl2 c2]. cbn [fst snd] in H2.
    destruct H2 as (K2 & L2 & X2 & P2).
    pose proof (add_axis_ok sl2 c2 idZ K2) as H3. cbv zeta in H3.
    destruct (add_axis (sl2, c2) idZ) as [sl3 c3]. cbn [fst snd] in H3.
    destruct H3 as (K3 & L3 & X3 & P3).
    cbn [fst snd].
    split; [exact K3|]. split; [lia|].
    split; [apply P3, P2, X1|]. split; [apply P3, X2|]. split; [exact X3|].
    intros m Hm.
    destruct (P1 m Hm) as [A1 B1]. destruct (P2 m A1) as [A2 B2].
    destruct (P3 m A2) as [A3 B3]. split; [exact A3|congruence].
  Qed.

  (* ---------------------------------------------------------------- *)
  (* the state of the Deck::Deck loop after a prefix of the walk *)
  Section Prefix.
    Variable a : arena.
    Variable N : nat.

    Definition st (pre : list nat) : deck * nat := fold_left (deck_step a) pre (deck0, N).
    Definition sd pre : deck := fst (st pre).
    Definition sid pre : nat := snd (st pre).
    Definition slot pre m : nat := slot_of (d_slots (sd pre)) m.

    Lemma st_snoc pre m : st (pre ++ [m]) = deck_step a (st pre) m.
    Proof. unfold st; rewrite fold_left_app; reflexivity. Qed.

    Lemma sid_snoc pre m : sid (pre ++ [m]) = pred (sid pre).
    Proof. unfold sid; rewrite st_snoc; destruct (st pre) as [d id]; reflexivity. Qed.

    Ltac step_cases pre m :=
      unfold sd, sid; rewrite st_snoc; destruct (st pre) as [d id];
      unfold deck_step; cbn [fst snd];
      destruct (getn a m) as [c|op|op x|op x y|k|x' y' z' t'|x y z t|v e t|];
      try destruct op; try reflexivity.

    Lemma slots_snoc pre m :
      d_slots (sd (pre ++ [m])) = (m, sid pre) :: d_slots (sd pre).
    Proof. step_cases pre m. Qed.

    Lemma tape_snoc pre m :
      d_tape (sd (pre ++ [m])) =
      match getn a m with
      | NUnary op x =>
          {| c_op := op; c_id := sid pre; c_a := slot pre x; c_b := 0 |} :: d_tape (sd pre)
      | NBinary op x y =>
          {| c_op := op; c_id := sid pre; c_a := slot pre x; c_b := slot pre y |}
            :: d_tape (sd pre)
      | NOracle _ | NOracleT _ _ _ _ =>
          {| c_op := ORACLE; c_id := sid pre; c_a := length (d_oracles (sd pre)); c_b := 0 |}
            :: d_tape (sd pre)
      | _ => d_tape (sd pre)
      end.
    Proof. unfold slot. step_cases pre m. Qed.

    Lemma consts_snoc pre m :
      d_consts (sd (pre ++ [m])) =
      match getn a m with
      | NConst c => d_consts (sd pre) ++ [(sid pre, c)]
      | _ => d_consts (sd pre)
      end.
    Proof. step_cases pre m. Qed.

    Lemma vars_snoc pre m :
      d_vars (sd (pre ++ [m])) =
      match getn a m with
      | NNullary VAR_FREE => d_vars (sd pre) ++ [(sid pre, m)]
      | _ => d_vars (sd pre)
      end.
    Proof. step_cases pre m. Qed.

    Lemma sid_val pre : sid pre = N - length pre.
    Proof.
      induction pre as [|m pre IH] using rev_ind; [unfold sid, st; simpl; lia|].
      rewrite sid_snoc, IH, app_length; simpl; lia.
    Qed.

    Lemma slot_snoc pre m0 m :
      slot (pre ++ [m0]) m = if Nat.eqb m m0 then sid pre else slot pre m.
    Proof. unfold slot; rewrite slots_snoc; reflexivity. Qed.

    Lemma has_slot_st pre m : has_slot (d_slots (sd pre)) m = true <-> In m pre.
    Proof.
      induction pre as [|m0 pre IH] using rev_ind.
      - unfold sd, st; simpl. split; [discriminate|tauto].
      - rewrite slots_snoc. cbn [has_slot]. rewrite orb_true_iff, IH, Nat.eqb_eq, in_app_iff.
        simpl. intuition.
    Qed.

    Lemma slot_range pre m :
      length pre <= N -> In m pre -> N - length pre < slot pre m <= N.
    Proof.
      induction pre as [|m0 pre IH] using rev_ind; intros Hl Hin; [destruct Hin|].
      rewrite app_length in *; simpl in *.
      rewrite slot_snoc. destruct (Nat.eqb m m0) eqn:He.
      - rewrite sid_val. lia.
      - apply Nat.eqb_neq in He. apply in_app_or in Hin.
        destruct Hin as [Hin|[Hin|[]]]; [|congruence].
        specialize (IH ltac:(lia) Hin). lia.
    Qed.

    Lemma slot_inj pre m m' :
      length pre <= N -> In m pre -> In m' pre -> slot pre m = slot pre m' -> m = m'.
    Proof.
      induction pre as [|m0 pre IH] using rev_ind; intros Hl Hin Hin'; [destruct Hin|].
      rewrite app_length in Hl; simpl in Hl.
      rewrite !slot_snoc.
      destruct (Nat.eqb m m0) eqn:He; destruct (Nat.eqb m' m0) eqn:He'.
      - apply Nat.eqb_eq in He, He'. congruence.
      - apply Nat.eqb_neq in He'. apply in_app_or in Hin'.
        destruct Hin' as [Hin'|[Hin'|[]]]; [|congruence].
        pose proof (slot_range pre m' ltac:(lia) Hin'). rewrite sid_val. lia.
      - apply Nat.eqb_neq in He. apply in_app_or in Hin.
        destruct Hin as [Hin|[Hin|[]]]; [|congruence].
        pose proof (slot_range pre m ltac:(lia) Hin). rewrite sid_val. lia.
      - apply Nat.eqb_neq in He, He'. apply in_app_or in Hin, Hin'.
        destruct Hin as [Hin|[Hin|[]]]; [|congruence].
        destruct Hin' as [Hin'|[Hin'|[]]]; [|congruence].
        apply IH; auto; lia.
    Qed.

    Lemma slot_snoc_old pre m0 m : ~ In m0 pre -> In m pre -> slot (pre ++ [m0]) m = slot pre m.
    Proof.
      intros Hn Hin. rewrite slot_snoc.
      destruct (Nat.eqb m m0) eqn:He; [|reflexivity].
      apply Nat.eqb_eq in He; subst; contradiction.
    Qed.

    Lemma slot_snoc_new pre m0 : slot (pre ++ [m0]) m0 = sid pre.
    Proof. rewrite slot_snoc, Nat.eqb_refl; reflexivity. Qed.

    (* constants and variables recorded by the loop *)
    Lemma consts_sound pre : NoDup pre -> forall s c,
      In (s, c) (d_consts (sd pre)) ->
      exists m, In m pre /\ getn a m = NConst c /\ s = slot pre m.
    Proof.
      induction pre as [|m0 pre IH] using rev_ind; intros Hnd s c Hin.
      - unfold sd, st in Hin; simpl in Hin; destruct Hin.
      - destruct (NoDup_snoc _ _ Hnd) as [Hnd' Hn0].
        assert (Hold : In (s, c) (d_consts (sd pre)) ->
                       exists m, In m (pre ++ [m0]) /\ getn a m = NConst c /\
                                 s = slot (pre ++ [m0]) m).
        { intros Hi. destruct (IH Hnd' s c Hi) as (m & Hm & Hg & Hs).
          exists m. split; [apply in_or_app; left; exact Hm|]. split; [exact Hg|].
          rewrite slot_snoc_old by assumption. exact Hs. }
        rewrite consts_snoc in Hin.
        destruct (getn a m0) as [c0|op|op x|op x y|k|x' y' z' t'|x y z t|v e t|] eqn:Hg;
          try (apply Hold; exact Hin).
        apply in_app_or in Hin. destruct Hin as [Hin|[Hin|[]]]; [apply Hold; exact Hin|].
        inversion Hin; subst. exists m0. split; [apply in_or_app; right; left; reflexivity|].
        split; [exact Hg|]. rewrite slot_snoc_new; reflexivity.
    Qed.

    Lemma consts_complete pre : NoDup pre -> forall m c,
      In m pre -> getn a m = NConst c -> In (slot pre m, c) (d_consts (sd pre)).
    Proof.
      induction pre as [|m0 pre IH] using rev_ind; intros Hnd m c Hin Hg; [destruct Hin|].
      destruct (NoDup_snoc _ _ Hnd) as [Hnd' Hn0].
      apply in_app_or in Hin. destruct Hin as [Hin|[Hin|[]]].
      - rewrite slot_snoc_old by assumption.
        pose proof (IH Hnd' m c Hin Hg) as Hi.
        rewrite consts_snoc. destruct (getn a m0); try exact Hi.
        apply in_or_app; left; exact Hi.
      - subst m0. rewrite slot_snoc_new, consts_snoc, Hg.
        apply in_or_app; right; left; reflexivity.
    Qed.

    Lemma vars_sound pre : NoDup pre -> forall s w,
      In (s, w) (d_vars (sd pre)) ->
      In w pre /\ getn a w = NNullary VAR_FREE /\ s = slot pre w.
    Proof.
      induction pre as [|m0 pre IH] using rev_ind; intros Hnd s w Hin.
      - unfold sd, st in Hin; simpl in Hin; destruct Hin.
      - destruct (NoDup_snoc _ _ Hnd) as [Hnd' Hn0].
        assert (Hold : In (s, w) (d_vars (sd pre)) ->
                       In w (pre ++ [m0]) /\ getn a w = NNullary VAR_FREE /\
                       s = slot (pre ++ [m0]) w).
        { intros Hi. destruct (IH Hnd' s w Hi) as (Hm & Hg & Hs).
          split; [apply in_or_app; left; exact Hm|]. split; [exact Hg|].
          rewrite slot_snoc_old by assumption. exact Hs. }
        rewrite vars_snoc in Hin.
        destruct (getn a m0) as [c0|op|op x|op x y|k|x' y' z' t'|x y z t|v e t|] eqn:Hg;
          try (apply Hold; exact Hin).
        destruct op; try (apply Hold; exact Hin).
        apply in_app_or in Hin. destruct Hin as [Hin|[Hin|[]]]; [apply Hold; exact Hin|].
        inversion Hin; subst. split; [apply in_or_app; right; left; reflexivity|].
        split; [exact Hg|]. rewrite slot_snoc_new; reflexivity.
    Qed.

    Lemma vars_complete pre : NoDup pre -> forall m,
      In m pre -> getn a m = NNullary VAR_FREE -> In (slot pre m, m) (d_vars (sd pre)).
    Proof.
      induction pre as [|m0 pre IH] using rev_ind; intros Hnd m Hin Hg; [destruct Hin|].
      destruct (NoDup_snoc _ _ Hnd) as [Hnd' Hn0].
      apply in_app_or in Hin. destruct Hin as [Hin|[Hin|[]]].
      - rewrite slot_snoc_old by assumption.
        pose proof (IH Hnd' m Hin Hg) as Hi.
        rewrite vars_snoc. destruct (getn a m0) as [c0|op|op x|op x y|k|x' y' z' t'|x y z t|v e t|];
          try exact Hi.
        destruct op; try exact Hi. apply in_or_app; left; exact Hi.
      - subst m0. rewrite slot_snoc_new, vars_snoc, Hg.
        apply in_or_app; right; left; reflexivity.
    Qed.

    (* ---------------------------------------------------------------- *)
    (* evaluating the clauses of a prefix, leaves to root *)
    Definition is_leaf (n : node) : bool :=
      match n with NUnary _ _ | NBinary _ _ _ => false | _ => true end.

    Lemma tape_sem (D : deck) (r : env num) :
      arena_wf a ->
      forall pre, topo_pre a pre -> length pre <= N ->
      forall v : list num, N < length v ->
        (forall m, In m pre -> is_leaf (getn a m) = true -> sget v (slot pre m) = val a m r) ->
        let v' := fold_left (eval_clause O oracle_at D) (rev (d_tape (sd pre))) v in
        length v' = length v /\
        (forall m, In m pre -> sget v' (slot pre m) = val a m r) /\
        (forall s, (forall m, In m pre -> s <> slot pre m) -> sget v' s = sget v s).
    Proof.
      intros Hwf pre. induction pre as [|m0 pre IH] using rev_ind; intros Htp Hl v Hv Hleaf.
      - unfold sd, st; simpl. split; [reflexivity|]. split; [intros m []|reflexivity].
      - destruct (topo_pre_snoc a pre m0 Htp) as (Htp' & Hn0 & Hm0 & Hpure & Hkids).
        rewrite app_length in Hl; simpl in Hl.
        assert (Hleaf' : forall m, In m pre -> is_leaf (getn a m) = true ->
                                   sget v (slot pre m) = val a m r).
        { intros m Hm Hlf. rewrite <- (slot_snoc_old pre m0 m Hn0 Hm).
          apply Hleaf; [apply in_or_app; left; exact Hm | exact Hlf]. }
        specialize (IH Htp' ltac:(lia) v Hv Hleaf'). cbv zeta in IH.
        destruct IH as (L & V & Fr).
        assert (Hid : sid pre = N - length pre) by apply sid_val.
        assert (Hidlt : sid pre < length v) by lia.
        assert (Hfresh : forall m, In m pre -> sid pre <> slot pre m).
        { intros m Hm. pose proof (slot_range pre m ltac:(lia) Hm). lia. }
        cbv zeta. rewrite tape_snoc.
        set (v1 := fold_left (eval_clause O oracle_at D) (rev (d_tape (sd pre))) v) in *.
        unfold pure_at in Hpure.
        destruct (getn a m0) as [c|op|op x|op x y|k|x' y' z' t'|x y z t|vv e t|] eqn:Hg;
          try contradiction.
        + (* constant *)
          fold v1. split; [exact L|]. split.
          * intros m Hm. apply in_app_or in Hm. destruct Hm as [Hm|[Hm|[]]].
            -- rewrite slot_snoc_old by assumption. apply V; exact Hm.
            -- subst m. rewrite slot_snoc_new. rewrite Fr by exact Hfresh.
               rewrite <- (slot_snoc_new pre m0). apply Hleaf.
               ++ apply in_or_app; right; left; reflexivity.
               ++ rewrite Hg; reflexivity.
          * intros s Hs. apply Fr. intros m Hm. rewrite <- (slot_snoc_old pre m0 m Hn0 Hm).
            apply Hs. apply in_or_app; left; exact Hm.
        + (* nullary *)
          assert (Hlf : is_leaf (getn a m0) = true) by (rewrite Hg; reflexivity).
          assert (Ht : match op with
                       | VAR_X | VAR_Y | VAR_Z | VAR_FREE | _ => d_tape (sd pre)
                       end = d_tape (sd pre)) by (destruct op; reflexivity).
          replace (match op with
                   | VAR_X | VAR_Y | VAR_Z | VAR_FREE | _ => d_tape (sd pre)
                   end) with (d_tape (sd pre)) by (destruct op; reflexivity).
          clear Ht. fold v1. split; [exact L|]. split.
          * intros m Hm. apply in_app_or in Hm. destruct Hm as [Hm|[Hm|[]]].
            -- rewrite slot_snoc_old by assumption. apply V; exact Hm.
            -- subst m. rewrite slot_snoc_new. rewrite Fr by exact Hfresh.
               rewrite <- (slot_snoc_new pre m0). apply Hleaf.
               ++ apply in_or_app; right; left; reflexivity.
               ++ exact Hlf.
          * intros s Hs. apply Fr. intros m Hm. rewrite <- (slot_snoc_old pre m0 m Hn0 Hm).
            apply Hs. apply in_or_app; left; exact Hm.
        + (* unary *)
          pose proof (shape_unary_args a m0 op x Hwf Hm0 Hg) as Hargs.
          destruct (val_unary O osem a m0 op x r Hwf Hm0 Hg) as [_ Hval].
          assert (Hx : In x pre) by (apply Hkids; left; reflexivity).
          cbn [rev]. rewrite fold_left_app. cbn [fold_left]. fold v1.
          rewrite (eval_clause_un D v1 op _ _ _ Hargs).
          split; [rewrite length_sset; exact L|]. split.
          * intros m Hm. apply in_app_or in Hm. destruct Hm as [Hm|[Hm|[]]].
            -- rewrite slot_snoc_old by assumption.
               rewrite sget_sset_other by (apply Hfresh; exact Hm). apply V; exact Hm.
            -- subst m. rewrite slot_snoc_new. rewrite sget_sset_same by (rewrite L; exact Hidlt).
               rewrite (V x Hx). symmetry; exact Hval.
          * intros s Hs. rewrite sget_sset_other.
            -- apply Fr. intros m Hm. rewrite <- (slot_snoc_old pre m0 m Hn0 Hm).
               apply Hs. apply in_or_app; left; exact Hm.
            -- rewrite <- (slot_snoc_new pre m0). intros He; symmetry in He; revert He.
               apply Hs. apply in_or_app; right; left; reflexivity.
        + (* binary *)
          pose proof (shape_binary_args a m0 op x y Hwf Hm0 Hg) as Hargs.
          destruct (val_binary O osem a m0 op x y r Hwf Hm0 Hg) as (_ & _ & Hval).
          assert (Hx : In x pre) by (apply Hkids; left; reflexivity).
          assert (Hy : In y pre) by (apply Hkids; right; left; reflexivity).
          cbn [rev]. rewrite fold_left_app. cbn [fold_left]. fold v1.
          rewrite (eval_clause_bin D v1 op _ _ _ Hargs).
          split; [rewrite length_sset; exact L|]. split.
          * intros m Hm. apply in_app_or in Hm. destruct Hm as [Hm|[Hm|[]]].
            -- rewrite slot_snoc_old by assumption.
               rewrite sget_sset_other by (apply Hfresh; exact Hm). apply V; exact Hm.
            -- subst m. rewrite slot_snoc_new. rewrite sget_sset_same by (rewrite L; exact Hidlt).
               rewrite (V x Hx), (V y Hy). symmetry; exact Hval.
          * intros s Hs. rewrite sget_sset_other.
            -- apply Fr. intros m Hm. rewrite <- (slot_snoc_old pre m0 m Hn0 Hm).
               apply Hs. apply in_or_app; left; exact Hm.
            -- rewrite <- (slot_snoc_new pre m0). intros He; symmetry in He; revert He.
               apply Hs. apply in_or_app; right; left; reflexivity.
    Qed.
  End Prefix.

  (* ---------------------------------------------------------------- *)
  Lemma mk_deck_of_fields a flat root :
    let dF := sd a (length flat) flat in
    let r := fold_left add_axis [idX; idY; idZ] (d_slots dF, length flat) in
    mk_deck_of a flat root =
    {| d_tape := d_tape dF; d_consts := d_consts dF; d_vars := d_vars dF;
       d_oracles := d_oracles dF; d_slots := fst r;
       d_X := slot_of (fst r) idX; d_Y := slot_of (fst r) idY; d_Z := slot_of (fst r) idZ;
       d_num := snd r; d_root := slot_of (fst r) root |}.
  Proof.
    cbv zeta. unfold mk_deck_of, sd, st.
    destruct (fold_left (deck_step a) flat (deck0, length flat)) as [d i]. cbn [fst].
    destruct (fold_left add_axis [idX; idY; idZ] (d_slots d, length flat)) as [sl1 n1].
    reflexivity.
  Qed.

  Lemma topo_pre_in a l m : topo_pre a l -> In m l -> m < length a /\ pure_at a m.
  Proof.
    intros [_ H] Hin. apply in_split in Hin. destruct Hin as (l1 & l2 & ->).
    destruct (H l1 m l2 eq_refl) as (A & B & _). split; assumption.
  Qed.

  Lemma base_axes a : base_ok O a ->
    getn a idX = NNullary VAR_X /\ getn a idY = NNullary VAR_Y /\ getn a idZ = NNullary VAR_Z.
  Proof.
    intros Hb. repeat split.
    - rewrite (base_getn O a idX Hb) by (unfold idX; lia). reflexivity.
    - rewrite (base_getn O a idY Hb) by (unfold idY; lia). reflexivity.
    - rewrite (base_getn O a idZ Hb) by (unfold idZ; lia). reflexivity.
  Qed.

  Theorem deck_correct_topo a flat root vars x y z :
    arena_wf a -> base_ok O a -> topo_ok a flat root ->
    let d := mk_deck_of a flat root in
    tape_value O oracle_at d (d_tape d) (d_root d) vars x y z
    = val a root {| ex := x; ey := y; ez := z; ev := vars |}.
  Proof.
    intros Hwf Hb [Htp [pre0 Hroot]]. cbv zeta.
    set (r := {| ex := x; ey := y; ez := z; ev := vars |}).
    pose proof (mk_deck_of_fields a flat root) as HD. cbv zeta in HD.
    set (N := length flat) in *. set (dF := sd a N flat) in *.
    assert (Hnd : NoDup flat) by apply Htp.
    assert (Hok0 : sl_ok (d_slots dF) N).
    { split.
      - intros m Hm. apply has_slot_st in Hm.
        pose proof (slot_range a N flat m (le_n _) Hm) as Hr. unfold slot in Hr. fold dF in Hr. lia.
      - intros m m' Hm Hm'. apply has_slot_st in Hm, Hm'.
        apply (slot_inj a N flat m m' (le_n _) Hm Hm'). }
    pose proof (axes_ok _ _ Hok0) as HA. cbv zeta in HA.
    set (rr := fold_left add_axis [idX; idY; idZ] (d_slots dF, N)) in *.
    set (sl1 := fst rr) in *. set (n1 := snd rr) in *.
    destruct HA as ([Hrng Hinj] & Hle & HX & HY & HZ & Hold).
    set (D := mk_deck_of a flat root) in *.
    assert (ET : d_tape D = d_tape dF) by (rewrite HD; reflexivity).
    assert (EC : d_consts D = d_consts dF) by (rewrite HD; reflexivity).
    assert (EV : d_vars D = d_vars dF) by (rewrite HD; reflexivity).
    assert (EX : d_X D = slot_of sl1 idX) by (rewrite HD; reflexivity).
    assert (EY : d_Y D = slot_of sl1 idY) by (rewrite HD; reflexivity).
    assert (EZ : d_Z D = slot_of sl1 idZ) by (rewrite HD; reflexivity).
    assert (EN : d_num D = n1) by (rewrite HD; reflexivity).
    assert (ER : d_root D = slot_of sl1 root) by (rewrite HD; reflexivity).
    clearbody D. clear HD.
    assert (Hfl : forall m, In m flat ->
                   has_slot sl1 m = true /\ slot_of sl1 m = slot a N flat m).
    { intros m Hm. apply (has_slot_st a N) in Hm. apply Hold in Hm. exact Hm. }
    destruct (base_axes a Hb) as (GX & GY & GZ).
    (* an axis slot differs from the slot of any walked node of another shape *)
    assert (Hax : forall m ax, In m flat -> has_slot sl1 ax = true ->
                    getn a m <> getn a ax -> slot_of sl1 ax <> slot a N flat m).
    { intros m ax Hm Hx Hne He. destruct (Hfl m Hm) as [Hm1 Hm2].
      rewrite <- Hm2 in He. apply Hinj in He; [|assumption|assumption]. subst ax. apply Hne; reflexivity. }
    assert (HXY : slot_of sl1 idX <> slot_of sl1 idY).
    { intros He. apply Hinj in He; [|assumption|assumption]. discriminate He. }
    assert (HXZ : slot_of sl1 idX <> slot_of sl1 idZ).
    { intros He. apply Hinj in He; [|assumption|assumption]. discriminate He. }
    assert (HYZ : slot_of sl1 idY <> slot_of sl1 idZ).
    { intros He. apply Hinj in He; [|assumption|assumption]. discriminate He. }
    set (vi := init_slots O D vars).
    assert (Lvi : length vi = S n1).
    { unfold vi, init_slots.
      rewrite (fold_sset_length (fun c : num => c)), (fold_sset_length vars), repeat_length, EN.
      reflexivity. }
    set (v0 := set_point D vi x y z).
    assert (Lv0 : length v0 = S n1).
    { unfold v0, set_point. rewrite !length_sset. exact Lvi. }
    assert (Hleaf : forall m, In m flat -> is_leaf (getn a m) = true ->
                      sget v0 (slot a N flat m) = val a m r).
    { intros m Hm Hlf. destruct (topo_pre_in a flat m Htp Hm) as [Hml Hpure].
      destruct (Hfl m Hm) as [Hm1 Hm2].
      pose proof (Hrng m Hm1) as Hmr. rewrite Hm2 in Hmr.
      unfold pure_at in Hpure.
      destruct (getn a m) as [c|op|op x1|op x1 y1|k|x' y' z' t'|x1 y1 z1 t1|vv e t|] eqn:Hg;
        try contradiction; try discriminate Hlf.
      - (* constant *)
        rewrite (val_const O osem a m c r Hml Hg).
        unfold v0, set_point. rewrite EX, EY, EZ.
        rewrite !sget_sset_other by (apply Hax; auto; rewrite Hg; congruence).
        unfold vi, init_slots. rewrite EC.
        apply (fold_sset_in (fun c : num => c)).
        + rewrite (fold_sset_length vars), repeat_length, EN. lia.
        + apply consts_complete; assumption.
        + intros c' Hc'. apply consts_sound in Hc'; [|exact Hnd].
          destruct Hc' as (m' & Hm' & Hg' & Hs').
          apply (slot_inj a N flat m m' (le_n _) Hm Hm') in Hs'. subst m'. congruence.
      - (* nullary *)
        rewrite val_node by exact Hml. rewrite Hg.
        destruct op; try contradiction.
        + (* X *) subst m. cbn [nodeval]. unfold v0, set_point. rewrite EX, EY, EZ, <- Hm2.
          rewrite sget_sset_other by (apply not_eq_sym; exact HXZ).
          rewrite sget_sset_other by (apply not_eq_sym; exact HXY).
          rewrite sget_sset_same; [reflexivity|]. rewrite Lvi, Hm2. lia.
        + (* Y *) subst m. cbn [nodeval]. unfold v0, set_point. rewrite EX, EY, EZ, <- Hm2.
          rewrite sget_sset_other by (apply not_eq_sym; exact HYZ).
          rewrite sget_sset_same; [reflexivity|]. rewrite length_sset, Lvi, Hm2. lia.
        + (* Z *) subst m. cbn [nodeval]. unfold v0, set_point. rewrite EX, EY, EZ, <- Hm2.
          rewrite sget_sset_same; [reflexivity|]. rewrite !length_sset, Lvi, Hm2. lia.
        + (* free variable *)
          cbn [nodeval]. unfold v0, set_point. rewrite EX, EY, EZ.
          rewrite !sget_sset_other by (apply Hax; auto; rewrite Hg; congruence).
          unfold vi, init_slots. rewrite EC, EV.
          rewrite (fold_sset_notin (fun c : num => c)).
          * change (ev r m) with (vars m). apply (fold_sset_in vars).
            -- rewrite repeat_length, EN. lia.
            -- apply vars_complete; assumption.
            -- intros w Hw. apply vars_sound in Hw; [|exact Hnd].
               destruct Hw as (Hw & _ & Hs').
               apply (slot_inj a N flat m w (le_n _) Hm Hw) in Hs'. subst w. reflexivity.
          * intros c' Hc'. apply consts_sound in Hc'; [|exact Hnd].
            destruct Hc' as (m' & Hm' & Hg' & Hs').
            apply (slot_inj a N flat m m' (le_n _) Hm Hm') in Hs'. subst m'. congruence. }
    assert (HNv : N < length v0) by (rewrite Lv0; lia).
    pose proof (tape_sem a N D r Hwf flat Htp (le_n _) v0 HNv Hleaf) as HT. cbv zeta in HT.
    destruct HT as (_ & V & _).
    assert (Hrf : In root flat) by (rewrite Hroot; apply in_or_app; right; left; reflexivity).
    unfold tape_value, eval_tape. fold vi. fold v0.
    rewrite ET, ER. destruct (Hfl root Hrf) as [_ ->]. apply V. exact Hrf.
  Qed.

End DeckSem.

(* ================================================================== *)
(* Tree::walk (Kahn's algorithm) produces a topological order         *)
Lemma NoDup_app_intro {A} (l1 l2 : list A) :
  NoDup l1 -> NoDup l2 -> (forall x, In x l1 -> ~ In x l2) -> NoDup (l1 ++ l2).
Proof.
  induction l1 as [|x l1 IH]; intros H1 H2 Hd; simpl; [exact H2|].
  inversion H1 as [|? ? Hx H1']; subst. constructor.
  - intros Hin. apply in_app_or in Hin. destruct Hin as [Hin|Hin]; [contradiction|].
    apply (Hd x); [left; reflexivity | exact Hin].
  - apply IH; auto. intros y Hy. apply Hd; right; exact Hy.
Qed.

Lemma NoDup_app_elim {A} (l1 l2 : list A) :
  NoDup (l1 ++ l2) -> NoDup l1 /\ NoDup l2 /\ (forall x, In x l1 -> ~ In x l2).
Proof.
  induction l1 as [|x l1 IH]; simpl; intros H.
  - split; [constructor|]. split; [exact H|]. intros x [].
  - inversion H as [|? ? Hx H']; subst. destruct (IH H') as (A1 & A2 & A3).
    split; [constructor; auto; intros Hi; apply Hx; apply in_or_app; left; exact Hi|].
    split; [exact A2|]. intros y [->|Hy]; [|apply A3; exact Hy].
    intros Hi; apply Hx; apply in_or_app; right; exact Hi.
Qed.

Section Walk.
  Context {num : Type}.
  Notation arena := (arena num).
  Variable a : arena.
  Hypothesis Hwf : arena_wf a.
  Variable root : nat.
  Hypothesis Hroot : root < length a.

  Definition kd (p : nat) : list nat := kids (getn a p).

  Lemma kd_lt p c : p < length a -> In c (kd p) -> c < p.
  Proof.
    intros Hp Hc. pose proof (arena_wf_nth a p Hwf Hp) as Hn. unfold kd in Hc.
    destruct (getn a p) as [c0|op|op x|op x y|k|x' y' z' t'|x y z t|v e t|];
      simpl in Hc, Hn; try contradiction.
    - destruct Hc as [<-|[]]. tauto.
    - destruct Hc as [<-|[<-|[]]]; tauto.
  Qed.

  (* number of edges into [c] from the parents [p] in [ps] selected by [f] *)
  Fixpoint esum (f : nat -> bool) (c : nat) (ps : list nat) : nat :=
    match ps with
    | [] => 0
    | p :: r => (if f p then count_occ Nat.eq_dec (kd p) c else 0) + esum f c r
    end.

  Lemma esum_ext f g c ps : (forall p, In p ps -> f p = g p) -> esum f c ps = esum g c ps.
  Proof.
    induction ps as [|p ps IH]; intros H; simpl; [reflexivity|].
    rewrite (H p) by (left; reflexivity). rewrite IH; [reflexivity|].
    intros q Hq; apply H; right; exact Hq.
  Qed.

  Lemma esum_pos f c ps :
    0 < esum f c ps <-> exists p, In p ps /\ f p = true /\ In c (kd p).
  Proof.
    induction ps as [|p0 ps IH]; simpl.
    - split; [lia | intros (p & [] & _)].
    - split.
      + intros H. destruct (f p0) eqn:Hf.
        * destruct (in_dec Nat.eq_dec c (kd p0)) as [Hi|Hn].
          -- exists p0; auto.
          -- apply (count_occ_not_In Nat.eq_dec) in Hn. rewrite Hn in H. simpl in H.
             apply IH in H. destruct H as (p & H1 & H2 & H3); exists p; auto.
        * simpl in H. apply IH in H. destruct H as (p & H1 & H2 & H3); exists p; auto.
      + intros (p & [->|Hp] & Hf & Hc).
        * rewrite Hf. apply (count_occ_In Nat.eq_dec) in Hc. lia.
        * assert (0 < esum f c ps) by (apply IH; exists p; auto). lia.
  Qed.

  Lemma esum_remove f c ps q : NoDup ps -> In q ps -> f q = true ->
    esum f c ps =
    esum (fun p => f p && negb (Nat.eqb p q)) c ps + count_occ Nat.eq_dec (kd q) c.
  Proof.
    induction ps as [|p ps IH]; intros Hnd Hin Hf; [destruct Hin|].
    inversion Hnd as [|? ? Hnp Hnd']; subst. simpl. destruct Hin as [->|Hin].
    - rewrite Hf, Nat.eqb_refl. simpl.
      rewrite (esum_ext (fun p => f p && negb (Nat.eqb p q)) f c ps); [lia|].
      intros p Hp. destruct (Nat.eqb_spec p q); [subst; contradiction|].
      rewrite andb_true_r; reflexivity.
    - rewrite (IH Hnd' Hin Hf). destruct (Nat.eqb_spec p q); [subst; contradiction|].
      rewrite andb_true_r. lia.
  Qed.

  (* --- the two folds of pass 1 ------------------------------------- *)
  Lemma fold_incr_len ks : forall cnt : list nat,
    length (fold_left (fun r c => upd r c S) ks cnt) = length cnt.
  Proof. induction ks as [|k ks IH]; intros cnt; simpl; [reflexivity|]. rewrite IH; apply length_upd. Qed.

  Lemma fold_incr_nth ks : forall (cnt : list nat) c,
    (forall k, In k ks -> k < length cnt) ->
    nth c (fold_left (fun r c => upd r c S) ks cnt) 0 = nth c cnt 0 + count_occ Nat.eq_dec ks c.
  Proof.
    induction ks as [|k ks IH]; intros cnt c H; simpl; [lia|].
    rewrite IH by (intros k' Hk'; rewrite length_upd; apply H; right; exact Hk').
    destruct (Nat.eq_dec k c) as [->|Hne].
    - rewrite nth_upd_same by (apply H; left; reflexivity). lia.
    - rewrite nth_upd_other by exact Hne. lia.
  Qed.

  Lemma fold_mark_len ks : forall reach : list bool,
    length (fold_left (fun r c => upd r c (fun _ => true)) ks reach) = length reach.
  Proof. induction ks as [|k ks IH]; intros r; simpl; [reflexivity|]. rewrite IH; apply length_upd. Qed.

  Lemma fold_mark_mono ks : forall (reach : list bool) c,
    nth c reach false = true ->
    nth c (fold_left (fun r c => upd r c (fun _ => true)) ks reach) false = true.
  Proof.
    induction ks as [|k ks IH]; intros r c H; simpl; [exact H|].
    apply IH. destruct (Nat.eq_dec k c) as [->|Hne].
    - destruct (lt_dec c (length r)) as [Hl|Hl].
      + rewrite nth_upd_same by exact Hl. reflexivity.
      + rewrite nth_overflow in H by lia. discriminate H.
    - rewrite nth_upd_other by exact Hne. exact H.
  Qed.

  Lemma fold_mark_in ks : forall (reach : list bool) c,
    (forall k, In k ks -> k < length reach) -> In c ks ->
    nth c (fold_left (fun r c => upd r c (fun _ => true)) ks reach) false = true.
  Proof.
    induction ks as [|k ks IH]; intros r c H Hin; [destruct Hin|]. simpl.
    destruct (Nat.eq_dec k c) as [->|Hne].
    - apply fold_mark_mono. rewrite nth_upd_same by (apply H; left; reflexivity). reflexivity.
    - destruct Hin as [Hin|Hin]; [contradiction|]. apply IH; [|exact Hin].
      intros k' Hk'. rewrite length_upd. apply H; right; exact Hk'.
  Qed.

  Lemma fold_mark_out ks : forall (reach : list bool) c,
    ~ In c ks ->
    nth c (fold_left (fun r c => upd r c (fun _ => true)) ks reach) false = nth c reach false.
  Proof.
    induction ks as [|k ks IH]; intros r c Hn; simpl; [reflexivity|].
    rewrite IH by (intros Hi; apply Hn; right; exact Hi).
    apply nth_upd_other. intros ->. apply Hn; left; reflexivity.
  Qed.

  (* --- pass 1 -------------------------------------------------------- *)
  Record cp_inv (k : nat) (reach : list bool) (cnt : list nat) : Prop := {
    cp_lr : length reach = S root;
    cp_lc : length cnt = S root;
    cp_root : nth root reach false = true;
    cp_closed : forall p c, k <= p <= root -> nth p reach false = true ->
                            In c (kd p) -> nth c reach false = true;
    cp_cnt : forall c, nth c cnt 0 = esum (fun p => nth p reach false) c (seq k (S root - k));
    cp_par : forall c, c <= root -> nth c reach false = true ->
                       c = root \/ exists p, k <= p <= root /\ nth p reach false = true /\ In c (kd p)
  }.

  Lemma count_pass_inv : forall k reach cnt, k <= S root -> cp_inv k reach cnt ->
    cp_inv 0 (fst (count_pass k a reach cnt)) (snd (count_pass k a reach cnt)).
  Proof.
    induction k as [|j IH]; intros reach cnt Hk I; [exact I|].
    cbn [count_pass]. destruct I as [Lr Lc Rt Cl Ct Pa].
    assert (Hja : j < length a) by lia.
    assert (Hkl : forall c, In c (kd j) -> c < j) by (intros c Hc; apply kd_lt; auto).
    assert (Hseq : seq j (S root - j) = j :: seq (S j) (S root - S j)).
    { replace (S root - j) with (S (S root - S j)) by lia. reflexivity. }
    destruct (nth j reach false) eqn:Hj.
    - cbv zeta. change (kids (getn a j)) with (kd j).
      set (reach' := fold_left (fun r c => upd r c (fun _ => true)) (kd j) reach).
      set (cnt' := fold_left (fun r c => upd r c S) (kd j) cnt).
      assert (Hin : forall c, In c (kd j) -> nth c reach' false = true).
      { intros c Hc. apply fold_mark_in; [|exact Hc]. intros k Hk'. specialize (Hkl k Hk'). lia. }
      assert (Hmono : forall c, nth c reach false = true -> nth c reach' false = true).
      { intros c Hc. apply fold_mark_mono; exact Hc. }
      assert (Hout : forall c, j <= c -> nth c reach' false = nth c reach false).
      { intros c Hc. apply fold_mark_out. intros Hi. specialize (Hkl c Hi). lia. }
      apply IH; [lia|]. constructor.
      + unfold reach'. rewrite fold_mark_len. exact Lr.
      + unfold cnt'. rewrite fold_incr_len. exact Lc.
      + apply Hmono; exact Rt.
      + intros p c Hp Hrp Hc. destruct (Nat.eq_dec p j) as [->|Hne].
        * apply Hin; exact Hc.
        * apply Hmono. apply (Cl p c); [lia| |exact Hc]. rewrite <- Hout by lia. exact Hrp.
      + intros c. unfold cnt'. rewrite fold_incr_nth.
        2:{ intros k Hk'. specialize (Hkl k Hk'). lia. }
        rewrite Ct, Hseq. cbn [esum]. rewrite (Hout j (le_n _)), Hj.
        rewrite (esum_ext (fun p => nth p reach' false) (fun p => nth p reach false) c
                          (seq (S j) (S root - S j))); [lia|].
        intros p Hp. apply in_seq in Hp. apply Hout. lia.
      + intros c Hc Hrc. destruct (in_dec Nat.eq_dec c (kd j)) as [Hi|Hni].
        * right. exists j. split; [lia|]. split; [rewrite Hout by lia; exact Hj | exact Hi].
        * unfold reach' in Hrc. rewrite fold_mark_out in Hrc by exact Hni.
          destruct (Pa c Hc Hrc) as [He|(p & Hp & Hrp & Hcp)]; [left; exact He|].
          right. exists p. split; [lia|]. split; [apply Hmono; exact Hrp | exact Hcp].
    - apply IH; [lia|]. constructor; auto.
      + intros p c Hp Hrp Hc. destruct (Nat.eq_dec p j) as [->|Hne]; [congruence|].
        apply (Cl p c); auto; lia.
      + intros c. rewrite Ct, Hseq. cbn [esum]. rewrite Hj. reflexivity.
      + intros c Hc Hrc. destruct (Pa c Hc Hrc) as [He|(p & Hp & Hrp & Hcp)]; [left; exact He|].
        right; exists p; repeat split; auto; lia.
  Qed.

  Definition cpres : list bool * list nat :=
    count_pass (S root) a (upd (repeat false (S root)) root (fun _ => true)) (repeat 0 (S root)).
  Definition Rf (p : nat) : bool := nth p (fst cpres) false.

  Lemma in_degrees_eq : in_degrees a root = snd cpres.
  Proof. reflexivity. Qed.

  Lemma cpres_inv : cp_inv 0 (fst cpres) (snd cpres).
  Proof.
    unfold cpres. apply count_pass_inv; [lia|]. constructor.
    - rewrite length_upd, repeat_length; reflexivity.
    - apply repeat_length.
    - rewrite nth_upd_same by (rewrite repeat_length; lia). reflexivity.
    - intros p c Hp. lia.
    - intros c. replace (S root - S root) with 0 by lia. cbn [seq esum].
      destruct (lt_dec c (S root)) as [Hl|Hl].
      + apply nth_repeat.
      + apply nth_overflow. rewrite repeat_length; lia.
    - intros c Hc Hrc. left. destruct (Nat.eq_dec root c) as [He|Hne]; [congruence|].
      rewrite nth_upd_other in Hrc by exact Hne.
      rewrite nth_repeat in Hrc. discriminate Hrc.
  Qed.

  Lemma Rf_le p : Rf p = true -> p <= root.
  Proof.
    intros H. destruct (le_dec p root) as [Hl|Hl]; [exact Hl|].
    unfold Rf in H. rewrite nth_overflow in H; [discriminate H|].
    rewrite (cp_lr _ _ _ cpres_inv). lia.
  Qed.

  (* --- pass 2 -------------------------------------------------------- *)
  Definition wstep (acc : list nat * list nat) (c : nat) : list nat * list nat :=
    let (td, cn) := acc in
    let cn' := upd cn c pred in
    if Nat.eqb (nth c cn' 0) 0 then (c :: td, cn') else (td, cn').

  Lemma walk_loop_S f next rest cnt flat :
    walk_loop (S f) a (next :: rest) cnt flat =
    walk_loop f a (fst (fold_left wstep (kd next) (rest, cnt)))
              (snd (fold_left wstep (kd next) (rest, cnt))) (next :: flat).
  Proof.
    transitivity (let (todo', cnt') := fold_left wstep (kd next) (rest, cnt) in
                  walk_loop f a todo' cnt' (next :: flat)); [reflexivity|].
    destruct (fold_left wstep (kd next) (rest, cnt)); reflexivity.
  Qed.

  Lemma inner_spec ks : forall td cn,
    (forall c, In c ks -> count_occ Nat.eq_dec ks c <= nth c cn 0 /\ c < length cn) ->
    (forall c, In c ks -> ~ In c td) -> NoDup td ->
    let r := fold_left wstep ks (td, cn) in
    (forall c, nth c (snd r) 0 = nth c cn 0 - count_occ Nat.eq_dec ks c) /\
    length (snd r) = length cn /\ NoDup (fst r) /\
    (forall c, In c (fst r) <->
               In c td \/ (In c ks /\ nth c cn 0 = count_occ Nat.eq_dec ks c)).
  Proof.
    induction ks as [|k ks IH]; intros td cn P1 P2 Nd; cbv zeta.
    - cbn [fold_left fst snd]. split; [intros c; simpl; lia|]. split; [reflexivity|].
      split; [exact Nd|]. intros c; simpl; tauto.
    - cbn [fold_left].
      destruct (P1 k (or_introl eq_refl)) as [Hk1 Hk2].
      rewrite count_occ_cons_eq in Hk1 by reflexivity.
      set (cn1 := upd cn k pred).
      assert (E1 : nth k cn1 0 = pred (nth k cn 0))
        by (unfold cn1; apply nth_upd_same; exact Hk2).
      assert (E2 : forall c, c <> k -> nth c cn1 0 = nth c cn 0).
      { intros c Hc; unfold cn1; apply nth_upd_other; congruence. }
      assert (E3 : length cn1 = length cn) by apply length_upd.
      assert (Hcount : forall c, c <> k ->
                count_occ Nat.eq_dec (k :: ks) c = count_occ Nat.eq_dec ks c).
      { intros c Hc; apply count_occ_cons_neq; congruence. }
      assert (Hw : wstep (td, cn) k =
                   if Nat.eqb (nth k cn1 0) 0 then (k :: td, cn1) else (td, cn1))
        by reflexivity.
      rewrite Hw. destruct (Nat.eqb (nth k cn1 0) 0) eqn:Hz.
      + apply Nat.eqb_eq in Hz.
        assert (Hk0 : count_occ Nat.eq_dec ks k = 0) by lia.
        assert (Hnk : ~ In k ks) by (apply (count_occ_not_In Nat.eq_dec); exact Hk0).
        specialize (IH (k :: td) cn1). cbv zeta in IH.
        destruct IH as (A & B & C & D).
        * intros c Hc. assert (Hck : c <> k) by (intros ->; contradiction).
          destruct (P1 c (or_intror Hc)) as [Q1 Q2]. rewrite Hcount in Q1 by exact Hck.
          rewrite E2, E3 by exact Hck. split; assumption.
        * intros c Hc [He|Hin]; [subst; contradiction|]. apply (P2 c (or_intror Hc) Hin).
        * constructor; [apply P2; left; reflexivity | exact Nd].
        * split; [|split; [|split]].
          -- intros c. rewrite A. destruct (Nat.eq_dec c k) as [->|Hne].
             ++ rewrite E1, count_occ_cons_eq by reflexivity. lia.
             ++ rewrite E2, Hcount by exact Hne. reflexivity.
          -- rewrite B; exact E3.
          -- exact C.
          -- intros c. rewrite D. destruct (Nat.eq_dec c k) as [->|Hne].
             ++ rewrite count_occ_cons_eq by reflexivity. split; intros _.
                ** right. split; [left; reflexivity | lia].
                ** left; left; reflexivity.
             ++ rewrite E2, Hcount by exact Hne. simpl. intuition congruence.
      + apply Nat.eqb_neq in Hz.
        specialize (IH td cn1). cbv zeta in IH.
        destruct IH as (A & B & C & D).
        * intros c Hc. destruct (Nat.eq_dec c k) as [->|Hne].
          -- rewrite E1, E3. split; lia.
          -- destruct (P1 c (or_intror Hc)) as [Q1 Q2]. rewrite Hcount in Q1 by exact Hne.
             rewrite E2, E3 by exact Hne. split; assumption.
        * intros c Hc. apply P2; right; exact Hc.
        * exact Nd.
        * split; [|split; [|split]].
          -- intros c. rewrite A. destruct (Nat.eq_dec c k) as [->|Hne].
             ++ rewrite E1, count_occ_cons_eq by reflexivity. lia.
             ++ rewrite E2, Hcount by exact Hne. reflexivity.
          -- rewrite B; exact E3.
          -- exact C.
          -- intros c. rewrite D. destruct (Nat.eq_dec c k) as [->|Hne].
             ++ rewrite E1, count_occ_cons_eq by reflexivity. split.
                ** intros [H|[H1 H2]]; [left; exact H | right; split; [left; reflexivity | lia]].
                ** intros [H|[_ H2]]; [left; exact H|].
                   right; split; [apply (count_occ_In Nat.eq_dec); lia | lia].
             ++ rewrite E2, Hcount by exact Hne. simpl. intuition congruence.
  Qed.

  Definition memb (p : nat) (l : list nat) : bool := existsb (Nat.eqb p) l.

  Lemma memb_In p l : memb p l = true <-> In p l.
  Proof.
    unfold memb. rewrite existsb_exists. split.
    - intros (x & Hx & He). apply Nat.eqb_eq in He; subst; exact Hx.
    - intros H; exists p; split; [exact H | apply Nat.eqb_refl].
  Qed.

  Lemma memb_nIn p l : memb p l = false <-> ~ In p l.
  Proof. rewrite <- memb_In. destruct (memb p l); intuition congruence. Qed.

  (* reachable and not yet popped *)
  Definition unp (flat : list nat) (p : nat) : bool := Rf p && negb (memb p flat).

  Record wl_inv (todo cnt flat : list nat) : Prop := {
    w_len : length cnt = S root;
    w_cnt : forall c, nth c cnt 0 = esum (unp flat) c (seq 0 (S root));
    w_nd : NoDup (todo ++ flat);
    w_todo : forall c, In c todo <-> (Rf c = true /\ ~ In c flat /\ nth c cnt 0 = 0);
    w_flatR : forall c, In c flat -> Rf c = true;
    w_flat0 : forall c, In c flat -> nth c cnt 0 = 0;
    w_ord : forall p m s, flat = p ++ m :: s -> forall k, In k (kd m) -> ~ In k (m :: s);
    w_last : (flat = [] /\ todo = [root]) \/ exists pre, flat = pre ++ [root]
  }.

  Lemma wl_step next rest cnt flat :
    wl_inv (next :: rest) cnt flat ->
    wl_inv (fst (fold_left wstep (kd next) (rest, cnt)))
           (snd (fold_left wstep (kd next) (rest, cnt))) (next :: flat).
  Proof.
    intros [Ln Ct Nd Td FR F0 Od La].
    destruct (proj1 (Td next) (or_introl eq_refl)) as (Rn & Nf & Cn0).
    pose proof (Rf_le next Rn) as Hnr.
    assert (Hnl : next < length a) by lia.
    destruct (NoDup_app_elim _ _ Nd) as (Ndt & Ndf & Dis).
    assert (Hnrest : ~ In next rest) by (inversion Ndt; assumption).
    assert (Ndr : NoDup rest) by (inversion Ndt; assumption).
    assert (Hsplit : forall c, nth c cnt 0 =
              esum (unp (next :: flat)) c (seq 0 (S root)) + count_occ Nat.eq_dec (kd next) c).
    { intros c. rewrite Ct. rewrite (esum_remove (unp flat) c _ next).
      - f_equal. apply esum_ext. intros p _. unfold unp, memb. cbn [existsb].
        destruct (Rf p), (Nat.eqb p next), (existsb (Nat.eqb p) flat); reflexivity.
      - apply seq_NoDup.
      - apply in_seq; lia.
      - unfold unp. rewrite Rn. apply memb_nIn in Nf. rewrite Nf. reflexivity. }
    assert (P1 : forall c, In c (kd next) ->
              count_occ Nat.eq_dec (kd next) c <= nth c cnt 0 /\ c < length cnt).
    { intros c Hc. rewrite (Hsplit c). split; [lia|]. pose proof (kd_lt next c Hnl Hc). lia. }
    assert (Hpos : forall c, In c (kd next) -> 0 < nth c cnt 0).
    { intros c Hc. destruct (P1 c Hc) as [Q _]. apply (count_occ_In Nat.eq_dec) in Hc. lia. }
    assert (P2 : forall c, In c (kd next) -> ~ In c rest).
    { intros c Hc Hin. assert (H : In c (next :: rest)) by (right; exact Hin).
      apply Td in H. destruct H as (_ & _ & H0). specialize (Hpos c Hc). lia. }
    pose proof (inner_spec (kd next) rest cnt P1 P2 Ndr) as IS. cbv zeta in IS.
    set (r := fold_left wstep (kd next) (rest, cnt)) in *.
    destruct IS as (Hc' & Hl' & Ndt' & Ht').
    assert (Hkf : forall c, In c (kd next) -> ~ In c flat).
    { intros c Hc Hin. specialize (F0 c Hin). specialize (Hpos c Hc). lia. }
    assert (Hkn : forall c, In c (kd next) -> c <> next).
    { intros c Hc. pose proof (kd_lt next c Hnl Hc). lia. }
    assert (Hcl : forall c, In c (kd next) -> Rf c = true).
    { intros c Hc. apply (cp_closed _ _ _ cpres_inv next c); [lia|exact Rn|exact Hc]. }
    assert (Td' : forall c, In c (fst r) <->
               Rf c = true /\ ~ In c (next :: flat) /\ nth c (snd r) 0 = 0).
    { intros c. rewrite Ht'. split.
      - intros [Hin|[Hin Heq]].
        + assert (Hin' : In c (next :: rest)) by (right; exact Hin).
          apply Td in Hin'. destruct Hin' as (A & B & C0).
          split; [exact A|]. split.
          * intros [<-|Hf]; contradiction.
          * rewrite Hc'. lia.
        + split; [apply Hcl; exact Hin|]. split.
          * intros [He|Hf]; [apply (Hkn c Hin); symmetry; exact He | apply (Hkf c Hin Hf)].
          * rewrite Hc'. lia.
      - intros (A & B & C0). rewrite Hc' in C0.
        destruct (in_dec Nat.eq_dec c (kd next)) as [Hi|Hni].
        + right. split; [exact Hi|]. destruct (P1 c Hi). lia.
        + left. apply (count_occ_not_In Nat.eq_dec) in Hni.
          assert (H : In c (next :: rest)).
          { apply Td. split; [exact A|]. split; [intros Hf; apply B; right; exact Hf | lia]. }
          destruct H as [<-|H]; [exfalso; apply B; left; reflexivity | exact H]. }
    constructor.
    - rewrite Hl'; exact Ln.
    - intros c. rewrite Hc', (Hsplit c). lia.
    - apply NoDup_app_intro; [exact Ndt' | constructor; [exact Nf | exact Ndf] |].
      intros c Hc. apply Td' in Hc. tauto.
    - exact Td'.
    - intros c [<-|Hc]; [exact Rn | apply FR; exact Hc].
    - intros c Hc. rewrite Hc'.
      assert (nth c cnt 0 = 0) by (destruct Hc as [<-|Hc]; [exact Cn0 | apply F0; exact Hc]).
      lia.
    - intros p m s Heq k Hk. destruct p as [|p0 p]; simpl in Heq; inversion Heq; subst.
      + intros [He|Hf]; [apply (Hkn k Hk); symmetry; exact He | apply (Hkf k Hk Hf)].
      + apply (Od p m s eq_refl k Hk).
    - right. destruct La as [[Hf Ht]|[pre Hp]].
      + inversion Ht; subst. exists []; reflexivity.
      + subst flat. exists (next :: pre); reflexivity.
  Qed.

  Lemma wl_complete cnt flat : wl_inv [] cnt flat -> forall c, Rf c = true -> In c flat.
  Proof.
    intros [Ln Ct Nd Td FR F0 Od La].
    assert (H : forall d c, Rf c = true -> root - c < d -> In c flat).
    { induction d as [|d IH]; intros c Rc Hd; [lia|].
      destruct (in_dec Nat.eq_dec c flat) as [Hi|Hni]; [exact Hi|]. exfalso.
      assert (Hz : nth c cnt 0 = 0).
      { rewrite Ct. destruct (esum (unp flat) c (seq 0 (S root))) eqn:He; [reflexivity|].
        assert (Hp : 0 < esum (unp flat) c (seq 0 (S root))) by lia.
        apply esum_pos in Hp. destruct Hp as (p & Hps & Hu & Hck).
        apply in_seq in Hps. unfold unp in Hu. apply andb_true_iff in Hu.
        destruct Hu as [Rp Hm]. apply negb_true_iff in Hm. apply memb_nIn in Hm.
        pose proof (kd_lt p c ltac:(lia) Hck). exfalso. apply Hm. apply IH; [exact Rp|lia]. }
      apply (proj2 (Td c)). split; [exact Rc|]. split; [exact Hni|exact Hz]. }
    intros c Rc. apply (H (S (root - c)) c Rc). lia.
  Qed.

  Lemma walk_loop_spec : forall fuel todo cnt flat,
    wl_inv todo cnt flat -> S root <= fuel + length flat ->
    exists cnt', wl_inv [] cnt' (walk_loop fuel a todo cnt flat).
  Proof.
    induction fuel as [|f IH]; intros todo cnt flat I Hf.
    - cbn [walk_loop]. exists cnt.
      assert (Ht : todo = []); [|subst; exact I].
      destruct I as [Ln Ct Nd Td FR F0 Od La].
      destruct (NoDup_app_elim _ _ Nd) as (_ & Ndf & _).
      assert (Hall : incl (seq 0 (S root)) flat).
      { apply NoDup_length_incl; [exact Ndf | rewrite seq_length; simpl in Hf; lia |].
        intros c Hc. apply in_seq. pose proof (Rf_le c (FR c Hc)). lia. }
      destruct todo as [|c todo]; [reflexivity|]. exfalso.
      destruct (proj1 (Td c) (or_introl eq_refl)) as (A & B & _).
      apply B. apply Hall. apply in_seq. pose proof (Rf_le c A). lia.
    - destruct todo as [|next rest].
      + cbn [walk_loop]. exists cnt; exact I.
      + rewrite walk_loop_S. apply IH; [apply wl_step; exact I | simpl; lia].
  Qed.

  Hypothesis Hpure : forall m, m <= root -> pure_at a m.

  Theorem walk_topo_ok : topo_ok a (walk a root) root.
  Proof.
    unfold walk. rewrite in_degrees_eq.
    pose proof cpres_inv as CI.
    assert (I0 : wl_inv [root] (snd cpres) []).
    { constructor.
      - apply (cp_lc _ _ _ CI).
      - intros c. rewrite (cp_cnt _ _ _ CI c), Nat.sub_0_r. apply esum_ext.
        intros p _. unfold unp, Rf. simpl. rewrite andb_true_r. reflexivity.
      - simpl. constructor; [intros []|constructor].
      - intros c. split.
        + intros [<-|[]]. split; [apply (cp_root _ _ _ CI)|]. split; [intros []|].
          rewrite (cp_cnt _ _ _ CI root), Nat.sub_0_r.
          destruct (esum (fun p => nth p (fst cpres) false) root (seq 0 (S root))) eqn:He;
            [reflexivity|]. exfalso.
          assert (Hp : 0 < esum (fun p => nth p (fst cpres) false) root (seq 0 (S root))) by lia.
          apply esum_pos in Hp. destruct Hp as (p & Hps & _ & Hk).
          apply in_seq in Hps. pose proof (kd_lt p root ltac:(lia) Hk). lia.
        + intros (Rc & _ & Hz). pose proof (Rf_le c Rc) as Hc.
          destruct (cp_par _ _ _ CI c Hc Rc) as [->|(p & Hp & Rp & Hk)]; [left; reflexivity|].
          exfalso. rewrite (cp_cnt _ _ _ CI c), Nat.sub_0_r in Hz.
          assert (Hpos : 0 < esum (fun p => nth p (fst cpres) false) c (seq 0 (S root))).
          { apply esum_pos. exists p. split; [apply in_seq; lia|]. split; assumption. }
          lia.
      - intros c [].
      - intros c [].
      - intros p m s Heq. destruct p; discriminate Heq.
      - left; split; reflexivity. }
    destruct (walk_loop_spec (S root) _ _ _ I0 ltac:(simpl; lia)) as [cnt' I].
    set (L := walk_loop (S root) a [root] (snd cpres) []) in *.
    pose proof (wl_complete _ _ I) as Hcomp.
    destruct I as [Ln Ct Nd Td FR F0 Od La]. simpl in Nd.
    split; [split|].
    - exact Nd.
    - intros p m s Heq.
      assert (Hm : In m L) by (rewrite Heq; apply in_or_app; right; left; reflexivity).
      pose proof (Rf_le m (FR m Hm)) as Hmr.
      split; [lia|]. split; [apply Hpure; exact Hmr|].
      intros k Hk.
      assert (Hk' : In k L).
      { apply Hcomp. apply (cp_closed _ _ _ CI m k); [lia | apply FR; exact Hm | exact Hk]. }
      rewrite Heq in Hk'. apply in_app_or in Hk'. destruct Hk' as [Hk'|Hk']; [exact Hk'|].
      exfalso. apply (Od p m s Heq k Hk). exact Hk'.
    - destruct La as [[_ Hd]|Hex]; [discriminate Hd | exact Hex].
  Qed.
End Walk.

(* ================================================================== *)
(* Deck::Deck(walk) + ArrayEvaluator::value agree with the semantics   *)
Section DeckCorrect.
  Context {num : Type} (O : ops num).
  Variable osem : nat -> num -> num -> num -> num.
  Variable oracle_at : nat -> num -> num -> num -> num.

  Corollary deck_correct (a : arena num) (root : nat) vars x y z :
    arena_wf a -> base_ok O a -> root < length a ->
    (forall m, m <= root -> pure_at a m) ->
    let d := mk_deck a root in
    tape_value O oracle_at d (d_tape d) (d_root d) vars x y z
    = val O osem a root {| ex := x; ey := y; ez := z; ev := vars |}.
  Proof.
    intros Hwf Hb Hroot Hpure. rewrite mk_deck_eq.
    apply deck_correct_topo; [exact Hwf | exact Hb |].
    apply walk_topo_ok; assumption.
  Qed.
End DeckCorrect.
