(* Tape::push (tape.cpp) and the two keep functions (eval_interval.cpp push,
   eval_array.cpp valueAndPush), line by line. *)
From Coq Require Import List Arith Bool Lia.
From LF Require Import Base.Opcode Base.Num Base.Arena Eval.Deck.
Import ListNotations.

Section Push.
  Context {num : Type} (O : ops num).

  Inductive keep := KEEP_BOTH | KEEP_A | KEEP_B | KEEP_ALWAYS.

  Record tape := { t_clauses : list clause; t_root : nat; t_terminal : bool }.

  Definition bget (l : list bool) (i : nat) := nth i l true.
  Definition nget (l : list nat) (i : nat) := nth i l 0.

  Record pstate := { p_dis : list bool; p_remap : list nat; p_term : bool; p_changed : bool }.

  (* first pass over one clause *)
  Definition push_step (fn : clause -> keep) (s : pstate) (c : clause) : pstate :=
    if bget (p_dis s) (c_id c) then s
    else
      let k := fn c in
      let s1 :=
        match k with
        | KEEP_A => {| p_dis := upd (p_dis s) (c_a c) (fun _ => false);
                       p_remap := upd (p_remap s) (c_id c) (fun _ => c_a c);
                       p_term := p_term s; p_changed := true |}
        | KEEP_B => {| p_dis := upd (p_dis s) (c_b c) (fun _ => false);
                       p_remap := upd (p_remap s) (c_id c) (fun _ => c_b c);
                       p_term := p_term s; p_changed := true |}
        | KEEP_BOTH => {| p_dis := p_dis s; p_remap := p_remap s;
                          p_term := false; p_changed := p_changed s |}
        | KEEP_ALWAYS => s
        end in
      if negb (Nat.eqb (nget (p_remap s1) (c_id c)) 0) then
        {| p_dis := upd (p_dis s1) (c_id c) (fun _ => true); p_remap := p_remap s1;
           p_term := p_term s1; p_changed := p_changed s1 |}
      else if negb (opcode_eqb (c_op c) ORACLE) then
        {| p_dis := upd (upd (p_dis s1) (c_a c) (fun _ => false)) (c_b c) (fun _ => false);
           p_remap := p_remap s1; p_term := p_term s1; p_changed := p_changed s1 |}
      else s1.

  (* for (r = x; remap[r]; r = remap[r]); *)
  Fixpoint chase (fuel : nat) (remap : list nat) (x : nat) : nat :=
    match fuel with
    | 0 => x
    | S f => let r := nget remap x in if Nat.eqb r 0 then x else chase f remap r
    end.

  (* [n] = number of slots (num_clauses + 1) *)
  Definition tape_push (n : nat) (fn : clause -> keep) (t : tape) : tape :=
    if t_terminal t then t
    else
      let s0 := {| p_dis := upd (repeat true n) (t_root t) (fun _ => false);
                   p_remap := repeat 0 n; p_term := true; p_changed := false |} in
      let s := fold_left (push_step fn) (t_clauses t) s0 in
      if negb (p_changed s) then t
      else
        let kept := filter (fun c => negb (bget (p_dis s) (c_id c))) (t_clauses t) in
        let rew := fun c =>
          if opcode_eqb (c_op c) ORACLE then c
          else {| c_op := c_op c; c_id := c_id c;
                  c_a := chase n (p_remap s) (c_a c); c_b := chase n (p_remap s) (c_b c) |} in
        {| t_clauses := map rew kept; t_root := chase n (p_remap s) (t_root t);
           t_terminal := p_term s |}.

  (* ArrayEvaluator::valueAndPush keep function, from slot-0 values [v] *)
  Definition keep_point (v : list num) (c : clause) : keep :=
    let a := nth (c_a c) v (o_zero O) in
    let b := nth (c_b c) v (o_zero O) in
    match c_op c with
    | OP_MAX => if o_ltb O b a then KEEP_A else if o_ltb O a b then KEEP_B else KEEP_BOTH
    | OP_MIN => if o_ltb O b a then KEEP_B else if o_ltb O a b then KEEP_A else KEEP_BOTH
    | _ => KEEP_ALWAYS
    end.

  (* IntervalEvaluator::push keep function, from per-slot bounds and may-be-NaN flags *)
  Definition keep_interval (lo hi : list num) (maybe_nan : list bool) (c : clause) : keep :=
    let alo := nth (c_a c) lo (o_zero O) in let ahi := nth (c_a c) hi (o_zero O) in
    let blo := nth (c_b c) lo (o_zero O) in let bhi := nth (c_b c) hi (o_zero O) in
    let unsafe := nth (c_a c) maybe_nan false || nth (c_b c) maybe_nan false in
    match c_op c with
    | OP_MAX =>
        if Nat.eqb (c_a c) (c_b c) then KEEP_A
        else if unsafe then KEEP_BOTH
        else if o_ltb O bhi alo then KEEP_A
        else if o_ltb O ahi blo then KEEP_B
        else KEEP_BOTH
    | OP_MIN =>
        if Nat.eqb (c_a c) (c_b c) then KEEP_A
        else if unsafe then KEEP_BOTH
        else if o_ltb O bhi alo then KEEP_B
        else if o_ltb O ahi blo then KEEP_A
        else KEEP_BOTH
    | _ => KEEP_ALWAYS
    end.

End Push.
