(* C16: meaning of the evaluation of trees that contain oracle nodes
   (model: Eval/OracleEval.v; deck theorem with oracle leaves: Eval/DeckOracleSem.v).

   a. [val_oracle], [val_oracleT]   reading the two oracle shapes of [val].
      [val_var_free]                [var_free fuel a m = true] (any fuel): [val a m r] does not
                                    depend on [ev r].
   b. The model ([evaluator]) starts every evaluator with Tree::optimized (flatten + optimise),
      as Deck::Deck does, so SOURCE trees (lazy [NRemap] / [NApply] nodes, also inside the
      coordinate trees of a transformed oracle) are covered.
      [xyz_only a m]                [val a m] depends on the point only (semantic form of "the
                                    coordinate tree mentions no free variable");
                                    [var_free_xyz_only]: implied by [var_free].
      [opt_ok a root]               ASSUMED about Tree::optimized on ONE tree (a Prop, not an
                                    axiom): the result [(a1, r1)] is a live node of a
                                    well-formed [base_ok] arena, [val a1 r1 = val a root], and
                                    every node walk() reaches from r1 is [opure_at] (plain node
                                    or oracle leaf).
      [tower_ok n a root], [obj_ok n a id]
                                    the tower, n levels deep: [opt_ok] for the tree handed to an
                                    evaluator, a good oracle object for every oracle node of its
                                    deck; a transformed oracle is good when its three coordinate
                                    trees have good evaluators and are [xyz_only] (they are run
                                    with the EMPTY variable map) and its 4th component is a good
                                    oracle node.  [tower_mono], [tower_ok_le], [obj_ok_le].
      [tower_correct]               the mutual statement, by induction on n.
      [evaluator_correct]           [tower_ok n a root -> n <= fuel ->
                                     evaluator fuel a root vars x y z = val a root {x,y,z,vars}]:
                                    the tower of per-coordinate evaluators inside
                                    TransformedOracle computes the composition with the
                                    coordinate maps.  Any number type; no law of the operations
                                    is used beyond what [opt_ok] packages.
      [oracle_obj_correct]          same for the oracle object of an oracle node, at ANY
                                    variable assignment.
      Fuel: the depth n of [tower_ok] (one unit per evaluator and one per oracle object); every
      larger fuel works.  The former numeric bound (2*root+2) and its counterexample
      [fuel_root_lt_insufficient] are gone with the fuel discipline.
      WHAT [opt_ok] ASSUMES vs WHAT IS PROVED (end of file, over [R_ops uf bf], the instance of
      Tree/OptimizeSem.v).  [opt_ok] is now a THEOREM for sources with oracles anywhere:
      [opt_ok_src], [tower_ok_src], [evaluator_oracle_free]
                                    oracle-free source trees ([src_ok] + [noT]); the evaluator
                                    (fuel >= 1) is the denotation (C01's eval_denotes).
      [optimized_sem_good], [opt_ok_of_pure]
                                    value preservation for any tree satisfying [good]
                                    (FlattenSem.v; implied by [noT]), given purity.
      [optimized_o_full], [opt_ok_of_src_o]
                                    [src_ok_o vb a root] (OptimizePureO.v: user oracles,
                                    transformed oracles over a user oracle, lazy remaps anywhere,
                                    applies / variables when vb) + [good]  ==>  [opt_ok a root],
                                    the output is hereditarily free of lazy nodes ([hp true vb]) and
                                    the out-of-fuel flag of the optimiser model is false.
      [hp_xyz_only], [tower_ok_of_src_o], [evaluator_correct_syntactic]
                                    variable-free sources ([src_ok_o false]): the whole tower
                                    [tower_ok (2 * bnd_of a root + 1) a root] from syntactic
                                    conditions on the source only, hence
                                    evaluator = denotation with no hypothesis about
                                    Tree::optimized.  [nested_R_evaluator]: non-vacuity (a
                                    transformed oracle lazily remapped again).
      [tower_ok_pure], [opt_ok_intro], [tower_ok_S_eq], [reach_closed]
                                    tools to establish [tower_ok] on concrete arenas.
   c. [ex_arena w], [ex_opt w]      oracle.remap(min(x, node w), y, z) built lazily, and what
                                    Tree::optimized makes of it.
      [ex_tower]                    [tower_ok 3 (ex_arena w) 8 <-> xyz_only (ex_opt w) 10].
      [good_arena], [good_tower], [good_evaluator]
                                    w = y: [tower_ok] holds (non-vacuity, every number type)
                                    and the evaluator returns osem 0 (min x y) y z.
      [bad_arena], [bad_optimized], [bad_evaluator], [bad_val], [bad_tower],
      [oracle_vars_refuted]         w = a free variable v, over [RD], v := 3, x := 5: the
                                    evaluator gives min(5,0) = 0, the meaning is min(5,3) = 3;
                                    [tower_ok] fails exactly at [xyz_only] of the coordinate.
                                    (min instead of x + v: affine coordinates make the optimiser
                                    compare real coefficients, which does not compute.)
   d. [subst_handle], [denote_wrap], [oracle_wrap], [oracle_wrap_denote]
                                    wrapping an expression in an oracle that agrees with it is
                                    invisible to every context (remap chains, operations).
   e. [chain_rule3]                 d/dt u(X t, Y t, Z t) = g1 X' + g2 Y' + g3 Z'.
      [jac_mul_components]          the components of TransformedOracle::evalDerivs' product.
      [oracle_gradient_correct]     [jac_mul RD gX gY gZ gu] is the gradient of the composite.
   f. [interval_compose]            enclosure of the coordinates + sound underlying interval
                                    oracle => enclosure of the composite.
      [tor_interval], [tor_flag_rule], [tor_interval_sound]
                                    the maybe-NaN flag of the (repaired) TransformedOracle.
   g. [oracle_ctx_preserves]        coordinate evaluators run on specialised tapes that agree
                                    with the full ones on a region leave the transformed
                                    oracle's value unchanged there.
      [oracle_ctx_preserves_push]   ... instantiated with Tape::push ([push_preserves]). *)
From Coq Require Import List Arith Bool Lia.
From LF Require Import Base.Opcode Base.Num Base.Arena Base.Sem Tree.Build Tree.BuildSem
                       Tree.Flatten Tree.Optimize
                       Eval.Deck Eval.DeckSem Eval.DeckSemReach Eval.OracleEval
                       Eval.DeckOracleSem Stdlib.SExpr Eval.Push Eval.PushSem.
Import ListNotations.

(* ================================================================== *)
(* a. shapes of [val] at oracle nodes, independence of the variables    *)
Section ValOracle.
  Context {num : Type} (O : ops num).
  Variable osem : nat -> num -> num -> num -> num.
  Notation node := (node num).
  Notation arena := (arena num).
  Notation env := (env num).
  Notation val := (val O osem).

  Lemma val_oracle (a : arena) i g r : i < length a -> getn a i = NOracle g ->
    val a i r = osem g (ex r) (ey r) (ez r).
  Proof. intros Hi Hn; rewrite val_node by exact Hi; rewrite Hn; reflexivity. Qed.

  Lemma val_oracleT (a : arena) i x y z t r :
    arena_wf a -> i < length a -> getn a i = NOracleT x y z t ->
    x < i /\ y < i /\ z < i /\ t < i /\
    val a i r = val a t (upd_xyz r (val a x r) (val a y r) (val a z r)).
  Proof.
    intros Hwf Hi Hn. pose proof (arena_wf_nth a i Hwf Hi) as Hw; rewrite Hn in Hw.
    cbn [node_wf] in Hw. destruct Hw as (Hx & Hy & Hz & Ht). repeat split; auto.
    rewrite val_node by exact Hi; rewrite Hn; cbn [nodeval].
    rewrite !getv_vals_firstn by lia; reflexivity.
  Qed.

  Lemma val_var_free (a : arena) : arena_wf a ->
    forall fuel m, m < length a -> var_free fuel a m = true ->
    forall r r', ex r = ex r' -> ey r = ey r' -> ez r = ez r' -> val a m r = val a m r'.
  Proof.
    intros Hwf. induction fuel as [|f IH]; intros m Hm Hv r r' Ex Ey Ez; [discriminate Hv|].
    cbn [var_free] in Hv.
    destruct (getn a m) as [c|op|op x|op x y|g|cx cy cz u|x y z t|v e t|] eqn:Hg;
      try discriminate Hv.
    - rewrite !(val_const O osem a m c) by assumption. reflexivity.
    - rewrite !val_node by exact Hm. rewrite Hg.
      destruct op; try discriminate Hv; cbn [nodeval]; auto.
    - destruct (val_unary O osem a m op x r Hwf Hm Hg) as [Hx ->].
      destruct (val_unary O osem a m op x r' Hwf Hm Hg) as [_ ->].
      f_equal. apply IH; auto; lia.
    - destruct (val_binary O osem a m op x y r Hwf Hm Hg) as (Hx & Hy & ->).
      destruct (val_binary O osem a m op x y r' Hwf Hm Hg) as (_ & _ & ->).
      apply andb_true_iff in Hv. destruct Hv as [Vx Vy].
      f_equal; apply IH; auto; lia.
    - rewrite !(val_oracle a m g) by assumption. rewrite Ex, Ey, Ez. reflexivity.
    - destruct (val_oracleT a m cx cy cz u r Hwf Hm Hg) as (Hx & Hy & Hz & Hu & ->).
      destruct (val_oracleT a m cx cy cz u r' Hwf Hm Hg) as (_ & _ & _ & _ & ->).
      apply andb_true_iff in Hv. destruct Hv as [Hv Vu].
      apply andb_true_iff in Hv. destruct Hv as [Hv Vz].
      apply andb_true_iff in Hv. destruct Hv as [Vx Vy].
      apply IH; [lia | exact Vu | | |]; unfold upd_xyz; cbn [ex ey ez];
        apply IH; auto; lia.
  Qed.
End ValOracle.

(* ================================================================== *)
(* b. the recursive evaluators compute the denotation                   *)
Section OracleCorrect.
  Context {num : Type} (O : ops num).
  Variable osem : nat -> num -> num -> num -> num.
  Notation node := (node num).
  Notation arena := (arena num).
  Notation env := (env num).
  Notation val := (val O osem).
  Notation evaluator := (evaluator O osem).
  Notation oracle_obj := (oracle_obj O osem).

  Lemma evaluator_S f (a : arena) root vars x y z :
    evaluator (S f) a root vars x y z =
    (let '(a1, r1) := optimized O a root in
     tape_value O
       (fun k px py pz =>
          match nth_error (d_oracles (mk_deck a1 r1)) k with
          | Some (_, id) => oracle_obj f a1 id px py pz
          | None => o_zero O
          end)
       (mk_deck a1 r1) (d_tape (mk_deck a1 r1)) (d_root (mk_deck a1 r1)) vars x y z).
  Proof. reflexivity. Qed.

  Lemma oracle_obj_S f (a : arena) id x y z :
    oracle_obj (S f) a id x y z =
    match getn a id with
    | NOracle g => osem g x y z
    | NOracleT cx cy cz u =>
        oracle_obj f a u (evaluator f a cx (vars0 O) x y z) (evaluator f a cy (vars0 O) x y z)
                   (evaluator f a cz (vars0 O) x y z)
    | _ => o_zero O
    end.
  Proof. reflexivity. Qed.

  (* the value of [m] depends on the point only, not on the variable assignment: the
     semantic form of "the coordinate tree mentions no free variable" *)
  Definition xyz_only (a : arena) (m : nat) : Prop :=
    forall r r' : env, ex r = ex r' -> ey r = ey r' -> ez r = ez r' -> val a m r = val a m r'.

  Lemma var_free_xyz_only (a : arena) fuel m :
    arena_wf a -> m < length a -> var_free fuel a m = true -> xyz_only a m.
  Proof. intros Hwf Hm Hv r r'. apply (val_var_free O osem a Hwf fuel m Hm Hv). Qed.

  (* WHAT IS ASSUMED ABOUT Tree::optimized on one tree: the result is a live node of a
     well-formed arena, denotes the same function, and reaches (through walk()'s links) only
     plain nodes and oracle leaves.  For oracle-free source trees this is a theorem
     ([opt_ok_src], over [R_ops]); with oracles only the last conjunct is not derivable from
     the existing optimiser theorems ([opt_ok_of_pure]). *)
  Definition opt_ok (a : arena) (root : nat) : Prop :=
    let '(a1, r1) := optimized O a root in
    arena_wf a1 /\ base_ok O a1 /\ r1 < length a1 /\
    (forall r, val a1 r1 r = val a root r) /\
    (forall m, DeckSemReach.reach a1 r1 m -> opure_at a1 m).

  (* the whole tower below an evaluator / an oracle object, [n] levels deep:
     - the tree handed to an evaluator optimises well ([opt_ok]) and every oracle node of
       the resulting deck has a good oracle object;
     - a user oracle is good; a transformed oracle is good when its three coordinate trees
       have good evaluators and depend on the point only ([xyz_only]: they are evaluated
       with the EMPTY variable map), and its underlying node is a good oracle. *)
  Fixpoint tower_ok (n : nat) (a : arena) (root : nat) {struct n} : Prop :=
    match n with
    | 0 => False
    | S k =>
        opt_ok a root /\
        (let '(a1, r1) := optimized O a root in
         forall id, DeckSemReach.reach a1 r1 id -> is_oracle_node (getn a1 id) = true ->
                    obj_ok k a1 id)
    end
  with obj_ok (n : nat) (a : arena) (id : nat) {struct n} : Prop :=
    match n with
    | 0 => False
    | S k =>
        match getn a id with
        | NOracle _ => True
        | NOracleT cx cy cz u =>
            tower_ok k a cx /\ tower_ok k a cy /\ tower_ok k a cz /\
            xyz_only a cx /\ xyz_only a cy /\ xyz_only a cz /\
            is_oracle_node (getn a u) = true /\ obj_ok k a u
        | _ => False
        end
    end.

  Lemma tower_ok_S k (a : arena) root :
    tower_ok (S k) a root =
    (opt_ok a root /\
     (let '(a1, r1) := optimized O a root in
      forall id, DeckSemReach.reach a1 r1 id -> is_oracle_node (getn a1 id) = true ->
                 obj_ok k a1 id)).
  Proof. reflexivity. Qed.

  Lemma obj_ok_S k (a : arena) id :
    obj_ok (S k) a id =
    match getn a id with
    | NOracle _ => True
    | NOracleT cx cy cz u =>
        tower_ok k a cx /\ tower_ok k a cy /\ tower_ok k a cz /\
        xyz_only a cx /\ xyz_only a cy /\ xyz_only a cz /\
        is_oracle_node (getn a u) = true /\ obj_ok k a u
    | _ => False
    end.
  Proof. reflexivity. Qed.

  (* more levels never hurt *)
  Lemma tower_mono : forall n,
    (forall (a : arena) root, tower_ok n a root -> tower_ok (S n) a root) /\
    (forall (a : arena) id, obj_ok n a id -> obj_ok (S n) a id).
  Proof.
    induction n as [|k [IHT IHO]]; split.
    - intros a root [].
    - intros a id [].
    - intros a root H. rewrite tower_ok_S in H. rewrite tower_ok_S.
      destruct H as [Hopt Hobj]. split; [exact Hopt|].
      destruct (optimized O a root) as [a1 r1]. intros id Hr Ho. apply IHO. apply Hobj; assumption.
    - intros a id H. rewrite obj_ok_S in H. rewrite obj_ok_S.
      destruct (getn a id) as [c|op|op x0|op x0 y0|g|cx cy cz u|x0 y0 z0 t|v e t|]; try exact H.
      destruct H as (Tx & Ty & Tz & Cx & Cy & Cz & Hu & Ou).
      split; [apply IHT; exact Tx|]. split; [apply IHT; exact Ty|]. split; [apply IHT; exact Tz|].
      split; [exact Cx|]. split; [exact Cy|]. split; [exact Cz|]. split; [exact Hu|].
      apply IHO; exact Ou.
  Qed.

  Lemma tower_ok_le n m (a : arena) root : n <= m -> tower_ok n a root -> tower_ok m a root.
  Proof. induction 1 as [|m' Hle IH]; [auto|]. intros Ht. apply (proj1 (tower_mono _)). auto. Qed.

  Lemma obj_ok_le n m (a : arena) id : n <= m -> obj_ok n a id -> obj_ok m a id.
  Proof. induction 1 as [|m' Hle IH]; [auto|]. intros Ht. apply (proj2 (tower_mono _)). auto. Qed.

  Lemma tower_correct : forall n,
    (forall (a : arena) root vars x y z, tower_ok n a root ->
       evaluator n a root vars x y z = val a root {| ex := x; ey := y; ez := z; ev := vars |}) /\
    (forall (a : arena) id x y z any, arena_wf a -> id < length a -> obj_ok n a id ->
       oracle_obj n a id x y z = val a id {| ex := x; ey := y; ez := z; ev := any |}).
  Proof.
    induction n as [|k [IHE IHO]]; split.
    - intros a root vars x y z [].
    - intros a id x y z any _ _ [].
    - (* an evaluator: optimise, then a deck whose ORACLE clauses call the oracle objects *)
      intros a root vars x y z H. rewrite tower_ok_S in H. destruct H as [Hopt Hobj].
      unfold opt_ok in Hopt. rewrite evaluator_S.
      destruct (optimized O a root) as [a1 r1].
      destruct Hopt as (Hwf & Hb & Hr1 & Hval & Hpure).
      rewrite (deck_correct_oracle_reach O osem _ a1 r1 vars x y z Hwf Hb Hr1 Hpure).
      + apply Hval.
      + intros kk slot id Hk. cbv beta. rewrite Hk.
        destruct (deck_oracles_spec a1 Hwf r1 Hr1 slot id (nth_error_In _ _ Hk))
          as (Hr & _ & Hlt & Hor).
        apply IHO; [exact Hwf | exact Hlt | apply Hobj; assumption].
    - (* an oracle object *)
      intros a id x y z any Hwf Hid H. rewrite obj_ok_S in H. rewrite oracle_obj_S.
      destruct (getn a id) as [c|op|op x0|op x0 y0|g|cx cy cz u|x0 y0 z0 t|v e t|] eqn:Hgn;
        try contradiction.
      + rewrite (val_oracle O osem a id g) by assumption. reflexivity.
      + destruct H as (Tx & Ty & Tz & Cx & Cy & Cz & Hu & Ou).
        set (r := {| ex := x; ey := y; ez := z; ev := any |}).
        destruct (val_oracleT O osem a id cx cy cz u r Hwf Hid Hgn) as (Hx & Hy & Hz & Hult & ->).
        rewrite (IHE a cx (vars0 O) x y z Tx), (IHE a cy (vars0 O) x y z Ty),
                (IHE a cz (vars0 O) x y z Tz).
        rewrite (IHO a u _ _ _ any Hwf ltac:(lia) Ou).
        unfold upd_xyz. cbn [ev].
        rewrite (Cx _ r) by reflexivity. rewrite (Cy _ r) by reflexivity.
        rewrite (Cz _ r) by reflexivity. reflexivity.
  Qed.

  (* ArrayEvaluator(Tree root, vars).value({x,y,z}) on a SOURCE tree (lazy remap / apply
     nodes allowed wherever [opt_ok] holds) with oracles *)
  Theorem evaluator_correct n fuel (a : arena) root vars x y z :
    tower_ok n a root -> n <= fuel ->
    evaluator fuel a root vars x y z = val a root {| ex := x; ey := y; ez := z; ev := vars |}.
  Proof.
    intros H Hle. apply (proj1 (tower_correct fuel)). apply (tower_ok_le n fuel a root Hle H).
  Qed.

  (* getOracle() of an oracle node, then set + evalPoint: the denotation at ANY variable
     assignment *)
  Theorem oracle_obj_correct n fuel (a : arena) id any x y z :
    arena_wf a -> id < length a -> obj_ok n a id -> n <= fuel ->
    oracle_obj fuel a id x y z = val a id {| ex := x; ey := y; ez := z; ev := any |}.
  Proof.
    intros Hwf Hid H Hle. apply (proj2 (tower_correct fuel)); auto.
    apply (obj_ok_le n fuel a id Hle H).
  Qed.

  (* no oracle below the optimised root: one level *)
  Lemma tower_ok_pure (a : arena) root :
    opt_ok a root ->
    (let '(a1, r1) := optimized O a root in
     forall m, DeckSemReach.reach a1 r1 m -> pure_at a1 m) ->
    tower_ok 1 a root.
  Proof.
    intros Hopt Hp. rewrite tower_ok_S. split; [exact Hopt|].
    destruct (optimized O a root) as [a1 r1]. intros id Hr Ho. exfalso.
    specialize (Hp id Hr). unfold pure_at in Hp.
    destruct (getn a1 id); try discriminate Ho; contradiction.
  Qed.

  (* ---------------------------------------------------------------- *)
  (* c. the coordinate evaluators ignore the variable assignment        *)
  (* oracle.remap(min(x, w), y, z) as the client builds it (lazy remap):
       5: v (a free variable)   6: min(x, node w)   7: oracle 0   8: remap of 7 by (6, y, z)
     w = 5 (the variable): [bad_arena];  w = idY: [good_arena] *)
  Definition ex_arena (w : nat) : arena :=
    init_arena O ++ [NNullary VAR_FREE; NBinary OP_MIN idX w; NOracle 0; NRemap 6 idY idZ 7].

  (* Tree::optimized: flatten pushes 9, the optimiser rebuilds the coordinate (10) and the
     transformed oracle (11) *)
  Definition ex_opt (w : nat) : arena :=
    ex_arena w ++ [NOracleT 6 idY idZ 7; NBinary OP_MIN idX w; NOracleT 10 idY idZ 7].

  Definition bad_arena : arena := ex_arena 5.
  Definition bad_opt : arena := ex_opt 5.
  Definition good_arena : arena := ex_arena idY.
  Definition good_opt : arena := ex_opt idY.

  Lemma bad_optimized : optimized O bad_arena 8 = (bad_opt, 11).
  Proof. vm_compute. reflexivity. Qed.

  Lemma bad_evaluator vars x y z :
    evaluator 6 bad_arena 8 vars x y z = osem 0 (o_bin O OP_MIN x (o_zero O)) y z.
  Proof. vm_compute. reflexivity. Qed.

  Lemma bad_evaluator_3 vars x y z :
    evaluator 3 bad_arena 8 vars x y z = osem 0 (o_bin O OP_MIN x (o_zero O)) y z.
  Proof. vm_compute. reflexivity. Qed.

  Lemma bad_val vars x y z :
    val bad_arena 8 {| ex := x; ey := y; ez := z; ev := vars |} =
    osem 0 (o_bin O OP_MIN x (vars 5)) y z.
  Proof. vm_compute. reflexivity. Qed.

  Lemma bad_coord_val (r : env) : val bad_opt 10 r = o_bin O OP_MIN (ex r) (ev r 5).
  Proof. reflexivity. Qed.

  (* reachable sets of concrete arenas *)
  Lemma reach_closed (a : arena) r (L : list nat) :
    In r L -> (forall p, In p L -> forall c, In c (kids (getn a p)) -> In c L) ->
    forall m, DeckSemReach.reach a r m -> In m L.
  Proof.
    intros Hr Hcl m. induction 1 as [|p c Hp IH Hc]; [exact Hr|]. apply (Hcl p IH c Hc).
  Qed.

  Lemma opt_ok_intro (a : arena) root a1 r1 :
    optimized O a root = (a1, r1) ->
    arena_wf a1 -> base_ok O a1 -> r1 < length a1 ->
    (forall r, val a1 r1 r = val a root r) ->
    (forall m, DeckSemReach.reach a1 r1 m -> opure_at a1 m) ->
    opt_ok a root.
  Proof. intros E. unfold opt_ok. rewrite E. auto. Qed.

  Lemma tower_ok_S_eq k (a : arena) root a1 r1 :
    optimized O a root = (a1, r1) ->
    (tower_ok (S k) a root <->
     opt_ok a root /\
     forall id, DeckSemReach.reach a1 r1 id -> is_oracle_node (getn a1 id) = true -> obj_ok k a1 id).
  Proof. intros E. rewrite tower_ok_S, E. reflexivity. Qed.

  Ltac wf_tac := unfold arena_wf, ex_opt, ex_arena, init_arena; simpl;
                 repeat split; try reflexivity; unfold idX, idY, idZ; lia.
  Ltac in_cases H := simpl in H; repeat (destruct H as [<-|H]; [|]); try destruct H.

  (* the evaluator of a leaf axis of the optimised arena *)
  Lemma ex_axis_tower w ax : w = 1 \/ w = 5 -> ax = 1 \/ ax = 2 ->
    tower_ok 1 (ex_opt w) ax /\ xyz_only (ex_opt w) ax.
  Proof.
    intros Hw Hax. split.
    - apply tower_ok_pure.
      + apply (opt_ok_intro (ex_opt w) ax (ex_opt w) ax).
        * destruct Hw as [->| ->], Hax as [->| ->]; vm_compute; reflexivity.
        * destruct Hw as [->| ->]; wf_tac.
        * reflexivity.
        * destruct Hax as [->| ->]; simpl; lia.
        * reflexivity.
        * intros m Hm. apply (reach_closed (ex_opt w) ax [ax]) in Hm; [|left; reflexivity|].
          -- in_cases Hm. destruct Hax as [->| ->]; reflexivity.
          -- intros p Hp c Hc. in_cases Hp. destruct Hax as [->| ->]; destruct Hc.
      + assert (E : optimized O (ex_opt w) ax = (ex_opt w, ax))
          by (destruct Hw as [->| ->], Hax as [->| ->]; vm_compute; reflexivity).
        rewrite E. intros m Hm.
        apply (reach_closed (ex_opt w) ax [ax]) in Hm; [|left; reflexivity|].
        * in_cases Hm. destruct Hax as [->| ->]; reflexivity.
        * intros p Hp c Hc. in_cases Hp. destruct Hax as [->| ->]; destruct Hc.
    - intros r r' Ex Ey Ez. destruct Hax as [->| ->].
      + change (ey r = ey r'). exact Ey.
      + change (ez r = ez r'). exact Ez.
  Qed.

  (* the evaluator of the rebuilt first coordinate min(x, w) *)
  Lemma ex_coord_tower w : w = 1 \/ w = 5 -> tower_ok 1 (ex_opt w) 10.
  Proof.
    intros Hw.
    assert (E : optimized O (ex_opt w) 10 = (ex_opt w ++ [NBinary OP_MIN idX w], 12))
      by (destruct Hw as [->| ->]; vm_compute; reflexivity).
    assert (Hreach : forall m, DeckSemReach.reach (ex_opt w ++ [NBinary OP_MIN idX w]) 12 m ->
                               In m [12; 0; w]).
    { apply reach_closed; [left; reflexivity|].
      intros p Hp c Hc. destruct Hw as [->| ->]; in_cases Hp; in_cases Hc; simpl; tauto. }
    assert (Hpure : forall m, DeckSemReach.reach (ex_opt w ++ [NBinary OP_MIN idX w]) 12 m ->
                              pure_at (ex_opt w ++ [NBinary OP_MIN idX w]) m).
    { intros m Hm. apply Hreach in Hm. destruct Hw as [->| ->]; in_cases Hm; reflexivity. }
    apply tower_ok_pure.
    - apply (opt_ok_intro _ _ _ _ E).
      + destruct Hw as [->| ->]; wf_tac.
      + reflexivity.
      + simpl; lia.
      + destruct Hw as [->| ->]; reflexivity.
      + intros m Hm. apply pure_opure. apply Hpure; exact Hm.
    - rewrite E. exact Hpure.
  Qed.

  (* the whole tower of oracle.remap(min(x, w), y, z) is good iff the rebuilt coordinate
     tree depends on the point only *)
  Theorem ex_tower w : w = 1 \/ w = 5 ->
    (tower_ok 3 (ex_arena w) 8 <-> xyz_only (ex_opt w) 10).
  Proof.
    intros Hw.
    assert (E : optimized O (ex_arena w) 8 = (ex_opt w, 11))
      by (destruct Hw as [->| ->]; vm_compute; reflexivity).
    assert (G11 : getn (ex_opt w) 11 = NOracleT 10 idY idZ 7) by reflexivity.
    rewrite (tower_ok_S_eq 2 _ _ _ _ E). split.
    - intros [_ Hobj].
      specialize (Hobj 11 (DeckSemReach.reach_root _ _) ltac:(rewrite G11; reflexivity)).
      rewrite obj_ok_S, G11 in Hobj. apply Hobj.
    - intros Hc. split.
      + apply (opt_ok_intro _ _ _ _ E).
        * destruct Hw as [->| ->]; wf_tac.
        * reflexivity.
        * simpl; lia.
        * destruct Hw as [->| ->]; reflexivity.
        * intros m Hm. apply (reach_closed (ex_opt w) 11 [11]) in Hm; [|left; reflexivity|].
          -- in_cases Hm. unfold opure_at. rewrite G11. exact I.
          -- intros p Hp c Hk. in_cases Hp. rewrite G11 in Hk. destruct Hk.
      + intros id Hr Ho. apply (reach_closed (ex_opt w) 11 [11]) in Hr; [|left; reflexivity|].
        2:{ intros p Hp c Hk. in_cases Hp. rewrite G11 in Hk. destruct Hk. }
        in_cases Hr. rewrite obj_ok_S, G11.
        destruct (ex_axis_tower w 1 Hw (or_introl eq_refl)) as [T1 C1].
        destruct (ex_axis_tower w 2 Hw (or_intror eq_refl)) as [T2 C2].
        split; [apply ex_coord_tower; exact Hw|]. split; [exact T1|]. split; [exact T2|].
        split; [exact Hc|]. split; [exact C1|]. split; [exact C2|].
        split; reflexivity.
  Qed.

  (* non-vacuity: the lazy remap of an oracle by (min(x, y), y, z) satisfies [tower_ok], so
     [evaluator_correct] covers it, for every number type *)
  Lemma good_coord_closed : xyz_only good_opt 10.
  Proof.
    intros r r' Ex Ey Ez.
    change (o_bin O OP_MIN (ex r) (ey r) = o_bin O OP_MIN (ex r') (ey r')). congruence.
  Qed.

  Theorem good_tower : tower_ok 3 good_arena 8.
  Proof. apply (ex_tower 1 (or_introl eq_refl)). exact good_coord_closed. Qed.

  Corollary good_evaluator fuel vars x y z : 3 <= fuel ->
    evaluator fuel good_arena 8 vars x y z = osem 0 (o_bin O OP_MIN x y) y z.
  Proof.
    intros Hf. rewrite (evaluator_correct 3 fuel good_arena 8 vars x y z good_tower Hf).
    reflexivity.
  Qed.

  (* for the variable: every part of [tower_ok] holds except [xyz_only] of the coordinate *)
  Corollary bad_tower : tower_ok 3 bad_arena 8 <-> xyz_only bad_opt 10.
  Proof. apply (ex_tower 5 (or_intror eq_refl)). Qed.
End OracleCorrect.

(* ================================================================== *)
(* d. wrapping an expression in an oracle                               *)
Section Wrap.
  Context {num : Type} (O : ops num).
  Variable osem : nat -> num -> num -> num -> num.
  Notation arena := (arena num).
  Notation env := (env num).
  Notation val := (val O osem).
  Notation denote := (denote O osem).

  (* replace the handle [o] by the handle [e] *)
  Fixpoint subst_handle (o e : nat) (t : sx num) : sx num :=
    match t with
    | SH i => if Nat.eqb i o then SH e else SH i
    | SX => SX | SY => SY | SZ => SZ
    | SC c => SC c
    | SU op t1 => SU op (subst_handle o e t1)
    | SB op t1 t2 => SB op (subst_handle o e t1) (subst_handle o e t2)
    | SR t0 x y z => SR (subst_handle o e t0) (subst_handle o e x) (subst_handle o e y)
                        (subst_handle o e z)
    end.

  Theorem denote_wrap (a : arena) o e :
    (forall r, val a o r = val a e r) ->
    forall t r, denote a (subst_handle o e t) r = denote a t r.
  Proof.
    intros H. induction t as [i| | | |c|op t1 IH1|op t1 IH1 t2 IH2|t0 IH0 tx IHx ty IHy tz IHz];
      intros r; cbn [subst_handle SExpr.denote]; try reflexivity.
    - destruct (Nat.eqb_spec i o) as [->|Hne]; cbn [SExpr.denote]; [symmetry; apply H|reflexivity].
    - rewrite IH1; reflexivity.
    - rewrite IH1, IH2; reflexivity.
    - rewrite IHx, IHy, IHz, IH0; reflexivity.
  Qed.

  (* a user oracle that computes the expression [e] *)
  Theorem oracle_wrap (a : arena) o g e :
    arena_wf a -> o < length a -> getn a o = NOracle g ->
    (forall x y z vs, osem g x y z = val a e {| ex := x; ey := y; ez := z; ev := vs |}) ->
    forall r, val a o r = val a e r.
  Proof.
    intros Hwf Ho Hg Hag r. rewrite (val_oracle O osem a o g r Ho Hg).
    rewrite (Hag _ _ _ (ev r)). destruct r; reflexivity.
  Qed.

  Corollary oracle_wrap_denote (a : arena) o g e :
    arena_wf a -> o < length a -> getn a o = NOracle g ->
    (forall x y z vs, osem g x y z = val a e {| ex := x; ey := y; ez := z; ev := vs |}) ->
    forall t r, denote a (subst_handle o e t) r = denote a t r.
  Proof. intros Hwf Ho Hg Hag. apply denote_wrap. apply (oracle_wrap a o g e); assumption. Qed.
End Wrap.

(* ================================================================== *)
(* f. interval evaluation of a transformed oracle (abstract)            *)
Section IntervalCompose.
  Variable T : Type.
  Variable le : T -> T -> Prop.

  Record itv := { lo : T; hi : T }.
  Definition inI (v : T) (I : itv) : Prop := le (lo I) v /\ le v (hi I).
  Definition box : Type := (itv * itv * itv)%type.
  Definition in_box (q : T * T * T) (b : box) : Prop :=
    inI (fst (fst q)) (fst (fst b)) /\ inI (snd (fst q)) (snd (fst b)) /\ inI (snd q) (snd b).

  Variable P : Type.                       (* points of the original region *)
  Variable region : P -> Prop.
  Variables X Y Z : P -> T.                (* the three coordinate maps *)
  Variable u : T -> T -> T -> T.           (* the underlying oracle *)

  Theorem interval_compose (iu : box -> itv) (IX IY IZ : itv) :
    (forall p, region p -> inI (X p) IX) ->
    (forall p, region p -> inI (Y p) IY) ->
    (forall p, region p -> inI (Z p) IZ) ->
    (forall b q, in_box q b -> inI (u (fst (fst q)) (snd (fst q)) (snd q)) (iu b)) ->
    forall p, region p -> inI (u (X p) (Y p) (Z p)) (iu (IX, IY, IZ)).
  Proof.
    intros HX HY HZ Hu p Hp.
    apply (Hu (IX, IY, IZ) (X p, Y p, Z p)).
    repeat split; cbn [fst snd]; try apply HX; try apply HY; try apply HZ; exact Hp.
  Qed.

  (* results carry a may-be-NaN flag *)
  Record ires := { ir_itv : itv; ir_nan : bool }.
  Definition safe (r : ires) : Prop := ir_nan r = false.

  (* TransformedOracle::evalInterval (repaired): bounds from the underlying oracle on the
     box of the coordinate ranges, flagged when the underlying result or ANY coordinate
     range is *)
  Definition tor_interval (iu : box -> ires) (RX RY RZ : ires) : ires :=
    let r := iu (ir_itv RX, ir_itv RY, ir_itv RZ) in
    {| ir_itv := ir_itv r; ir_nan := ir_nan r || ir_nan RX || ir_nan RY || ir_nan RZ |}.

  Theorem tor_flag_rule (iu : box -> ires) RX RY RZ :
    safe (tor_interval iu RX RY RZ) ->
    safe RX /\ safe RY /\ safe RZ /\ safe (iu (ir_itv RX, ir_itv RY, ir_itv RZ)).
  Proof.
    unfold safe, tor_interval; cbn [ir_nan].
    destruct (ir_nan (iu (ir_itv RX, ir_itv RY, ir_itv RZ))), (ir_nan RX), (ir_nan RY), (ir_nan RZ);
      cbn; intros H; try discriminate H; auto.
  Qed.

  (* an unflagged result encloses the composite, when unflagged coordinate ranges enclose
     the coordinates and unflagged underlying results are sound *)
  Theorem tor_interval_sound (iu : box -> ires) RX RY RZ :
    (safe RX -> forall p, region p -> inI (X p) (ir_itv RX)) ->
    (safe RY -> forall p, region p -> inI (Y p) (ir_itv RY)) ->
    (safe RZ -> forall p, region p -> inI (Z p) (ir_itv RZ)) ->
    (forall b, safe (iu b) ->
       forall q, in_box q b -> inI (u (fst (fst q)) (snd (fst q)) (snd q)) (ir_itv (iu b))) ->
    safe (tor_interval iu RX RY RZ) ->
    forall p, region p -> inI (u (X p) (Y p) (Z p)) (ir_itv (tor_interval iu RX RY RZ)).
  Proof.
    intros HX HY HZ Hu Hs p Hp.
    destruct (tor_flag_rule iu RX RY RZ Hs) as (SX' & SY' & SZ' & SU').
    unfold tor_interval; cbn [ir_itv].
    apply (Hu _ SU' (X p, Y p, Z p)).
    repeat split; cbn [fst snd]; try apply (HX SX'); try apply (HY SY'); try apply (HZ SZ');
      exact Hp.
  Qed.
End IntervalCompose.

(* ================================================================== *)
(* g. context (specialised tapes) of the coordinate evaluators          *)
Section Context.
  Context {num : Type}.

  (* [tx ty tz]: the coordinate evaluators on their specialised tapes; [fx fy fz]: on the
     full tapes; [u]: the underlying oracle *)
  Theorem oracle_ctx_preserves {P : Type} (region : P -> Prop)
          (tx ty tz fx fy fz : P -> num) (u : num -> num -> num -> num) :
    (forall p, region p -> tx p = fx p) ->
    (forall p, region p -> ty p = fy p) ->
    (forall p, region p -> tz p = fz p) ->
    forall p, region p -> u (tx p) (ty p) (tz p) = u (fx p) (fy p) (fz p).
  Proof. intros HX HY HZ p Hp. rewrite (HX p Hp), (HY p Hp), (HZ p Hp). reflexivity. Qed.

  (* with Tape::push on each coordinate deck: slot vectors [vx vy vz] hold the point *)
  Theorem oracle_ctx_preserves_push (O : ops num)
          (ox oy oz : nat -> num -> num -> num -> num) (dx dy dz : @deck num)
          nx ny nz (tX tY tZ : tape) (vx vy vz : @slots num) fnx fny fnz
          (u : num -> num -> num -> num) :
    tape_wf dx nx tX -> length vx = nx -> justified O ox dx vx fnx tX ->
    tape_wf dy ny tY -> length vy = ny -> justified O oy dy vy fny tY ->
    tape_wf dz nz tZ -> length vz = nz -> justified O oz dz vz fnz tZ ->
    let value := fun o d (t : tape) v => sget O (eval_tape O o d (t_clauses t) v) (t_root t) in
    u (value ox dx (tape_push nx fnx tX) vx) (value oy dy (tape_push ny fny tY) vy)
      (value oz dz (tape_push nz fnz tZ) vz)
    = u (value ox dx tX vx) (value oy dy tY vy) (value oz dz tZ vz).
  Proof.
    intros WX LX JX WY LY JY WZ LZ JZ. cbv zeta.
    destruct (push_preserves O ox dx nx tX vx fnx WX LX JX) as [EX _].
    destruct (push_preserves O oy dy ny tY vy fny WY LY JY) as [EY _].
    destruct (push_preserves O oz dz nz tZ vz fnz WZ LZ JZ) as [EZ _].
    cbv zeta in EX, EY, EZ. rewrite EX, EY, EZ. reflexivity.
  Qed.
End Context.

(* ================================================================== *)
(* c (continued) and e: the real instance                               *)
From Coq Require Import Reals Lra.
From Coquelicot Require Import Coquelicot.
From LF Require Import Eval.DerivSem.
Local Open Scope R_scope.

(* the defect of transformed_oracle.cpp: xEvaluator(X_) is built with an empty variable
   map, so a remap whose coordinate trees mention a free variable is evaluated with that
   variable at 0 whatever the caller assigned.  [tower_ok] fails exactly at [xyz_only] of the
   first coordinate tree of the transformed oracle that Tree::optimized produces. *)
Theorem oracle_vars_refuted :
  let osem := fun (_ : nat) (x _ _ : R) => x in     (* the user oracle returns its x *)
  let a := bad_arena RD in                           (* oracle 0 remapped by (min(x,v), y, z) *)
  let vars := fun _ : nat => 3 in                    (* v := 3 *)
  optimized RD a 8 = (bad_opt RD, 11%nat) /\
  getn (bad_opt RD) 11 = NOracleT 10 idY idZ 7 /\
  ~ xyz_only RD osem (bad_opt RD) 10 /\
  (tower_ok RD osem 3 a 8 <-> xyz_only RD osem (bad_opt RD) 10) /\
  evaluator RD osem 6 a 8 vars 5 0 0 = 0 /\
  val RD osem a 8 {| ex := 5; ey := 0; ez := 0; ev := vars |} = 3 /\
  evaluator RD osem 6 a 8 vars 5 0 0 <> val RD osem a 8 {| ex := 5; ey := 0; ez := 0; ev := vars |}.
Proof.
  cbv zeta.
  assert (M0 : Rmin 5 0 = 0) by (unfold Rmin; destruct (Rle_dec 5 0); lra).
  assert (M3 : Rmin 5 3 = 3) by (unfold Rmin; destruct (Rle_dec 5 3); lra).
  assert (E : evaluator RD (fun (_ : nat) (x _ _ : R) => x) 6 (bad_arena RD) 8 (fun _ => 3) 5 0 0 = 0).
  { rewrite bad_evaluator. cbn [o_bin o_zero RD RD_bin]. exact M0. }
  assert (V : val RD (fun (_ : nat) (x _ _ : R) => x) (bad_arena RD) 8
                  {| ex := 5; ey := 0; ez := 0; ev := fun _ => 3 |} = 3).
  { rewrite bad_val. cbn [o_bin RD RD_bin]. exact M3. }
  split; [apply bad_optimized|]. split; [reflexivity|]. split.
  - intros H.
    specialize (H {| ex := 5; ey := 0; ez := 0; ev := fun _ => 3 |}
                  {| ex := 5; ey := 0; ez := 0; ev := fun _ => 0 |} eq_refl eq_refl eq_refl).
    rewrite !bad_coord_val in H. cbn [o_bin RD RD_bin ex ev] in H. lra.
  - split; [apply bad_tower|]. split; [exact E|]. split; [exact V|]. rewrite E, V. lra.
Qed.

(* ---------------------------------------------------------------- *)
(* e. derivatives of a transformed oracle                             *)

(* chain rule for a function of three arguments along a curve *)
Theorem chain_rule3 (u : R -> R -> R -> R) (X Y Z : R -> R) (t0 dX dY dZ g1 g2 g3 : R) :
  filterdiff (fun q : R * R * R => u (fst (fst q)) (snd (fst q)) (snd q))
             (locally (X t0, Y t0, Z t0))
             (fun d : R * R * R => g1 * fst (fst d) + g2 * snd (fst d) + g3 * snd d) ->
  is_derive X t0 dX -> is_derive Y t0 dY -> is_derive Z t0 dZ ->
  is_derive (fun t => u (X t) (Y t) (Z t)) t0 (g1 * dX + g2 * dY + g3 * dZ).
Proof.
  intros Hu HX HY HZ. unfold is_derive in *.
  assert (HXY : filterdiff (fun t : R => (X t, Y t)) (locally t0)
                           (fun y : R => (scal y dX, scal y dY))).
  { apply (filterdiff_comp'_2 X Y (fun p q : R => (p, q)) t0
                              (fun y => scal y dX) (fun y => scal y dY) (fun p q : R => (p, q)) HX HY).
    apply filterdiff_linear. apply is_linear_prod; [apply is_linear_fst | apply is_linear_snd]. }
  pose proof (filterdiff_comp'_2 (fun t : R => (X t, Y t)) Z
                (fun (p : R * R) (c : R) => u (fst p) (snd p) c) t0
                (fun y : R => (scal y dX, scal y dY)) (fun y => scal y dZ)
                (fun (p : R * R) (c : R) => g1 * fst p + g2 * snd p + g3 * c) HXY HZ Hu) as H.
  cbn [fst snd] in H.
  apply (filterdiff_ext_lin _ _ _ H).
  intros y. unfold scal; simpl; unfold mult; simpl. ring.
Qed.

(* TransformedOracle::evalDerivs multiplies the Jacobian of the coordinate maps (columns
   gX gY gZ = the gradients of the coordinate evaluators) with the underlying gradient *)
Lemma jac_mul_components (a1 a2 a3 b1 b2 b3 c1 c2 c3 g1 g2 g3 : R) :
  jac_mul RD (a1, a2, a3) (b1, b2, b3) (c1, c2, c3) (g1, g2, g3) =
  (g1 * a1 + g2 * b1 + g3 * c1, g1 * a2 + g2 * b2 + g3 * c2, g1 * a3 + g2 * b3 + g3 * c3).
Proof.
  unfold jac_mul, o_add, o_mul. cbn [o_bin RD RD_bin].
  f_equal; [f_equal|]; ring.
Qed.

(* the three partial derivatives of f at (x0, y0, z0) *)
Definition grad_at (f : R -> R -> R -> R) (x0 y0 z0 : R) (g : R * R * R) : Prop :=
  is_derive (fun t => f t y0 z0) x0 (fst (fst g)) /\
  is_derive (fun t => f x0 t z0) y0 (snd (fst g)) /\
  is_derive (fun t => f x0 y0 t) z0 (snd g).

Theorem oracle_gradient_correct (u X Y Z : R -> R -> R -> R) (x0 y0 z0 : R)
        (gX gY gZ gu : R * R * R) :
  filterdiff (fun q : R * R * R => u (fst (fst q)) (snd (fst q)) (snd q))
             (locally (X x0 y0 z0, Y x0 y0 z0, Z x0 y0 z0))
             (fun d : R * R * R =>
                fst (fst gu) * fst (fst d) + snd (fst gu) * snd (fst d) + snd gu * snd d) ->
  grad_at X x0 y0 z0 gX -> grad_at Y x0 y0 z0 gY -> grad_at Z x0 y0 z0 gZ ->
  grad_at (fun x y z => u (X x y z) (Y x y z) (Z x y z)) x0 y0 z0 (jac_mul RD gX gY gZ gu).
Proof.
  destruct gX as [[a1 a2] a3], gY as [[b1 b2] b3], gZ as [[c1 c2] c3], gu as [[g1 g2] g3].
  cbn [fst snd]. intros Hu (X1 & X2 & X3) (Y1 & Y2 & Y3) (Z1 & Z2 & Z3).
  cbn [fst snd] in *. rewrite jac_mul_components. unfold grad_at. cbn [fst snd].
  split; [|split].
  - apply (chain_rule3 u (fun t => X t y0 z0) (fun t => Y t y0 z0) (fun t => Z t y0 z0) x0);
      assumption.
  - apply (chain_rule3 u (fun t => X x0 t z0) (fun t => Y x0 t z0) (fun t => Z x0 t z0) y0);
      assumption.
  - apply (chain_rule3 u (fun t => X x0 y0 t) (fun t => Y x0 y0 t) (fun t => Z x0 y0 t) z0);
      assumption.
Qed.

(* ================================================================== *)
(* b (continued): what the existing optimiser theorems give for [opt_ok], over the real
   instance [R_ops uf bf] for which Tree/OptimizeSem.v is proved                          *)
From LF Require Base.RInst Tree.FlattenSem Tree.OptimizeSem Tree.OptimizePure Tree.OptimizePureO
  Tree.ReachShape Tree.Bnd.
Local Open Scope nat_scope.

Section OptOkR.
  Variable uf : opcode -> R -> R.
  Variable bf : opcode -> R -> R -> R.
  Hypothesis pow_1 : forall x, bf OP_POW x 1%R = x.
  Hypothesis root_1 : forall x, bf OP_NTH_ROOT x 1%R = x.
  Variable osem : nat -> R -> R -> R -> R.
  Notation O := (RInst.R_ops uf bf).

  Lemma reach_conv (a : arena R) root m :
    DeckSemReach.reach a root m -> OptimizePure.reach a root m.
  Proof. induction 1; [constructor | econstructor; eauto]. Qed.

  (* oracle-free source trees (lazy remap / apply allowed): [opt_ok] is a theorem *)
  Theorem opt_ok_src (a : arena R) i :
    arena_wf a -> base_ok O a -> i < length a ->
    OptimizePure.src_ok a i -> FlattenSem.noT a i ->
    opt_ok O osem a i /\
    (let '(a1, r1) := optimized O a i in forall m, DeckSemReach.reach a1 r1 m -> pure_at a1 m).
  Proof.
    intros Hwf Hb Hi Hs HnoT.
    pose proof (OptimizePure.optimized_reach_pure_full O a i Hwf Hb Hi Hs) as Hp.
    pose proof (OptimizeSem.optimized_sem_noT uf bf pow_1 root_1 osem a i Hwf Hb Hi HnoT) as Hv.
    unfold opt_ok. destruct (optimized O a i) as [a' j].
    destruct Hp as (He & Hwf' & Hb' & Hj & Hpure). destruct Hv as (_ & _ & _ & Hval).
    assert (Hpure' : forall m, DeckSemReach.reach a' j m -> pure_at a' m)
      by (intros m Hm; apply Hpure; apply reach_conv; exact Hm).
    split; [|exact Hpure'].
    repeat split; auto. intros m Hm. apply pure_opure. apply Hpure'; exact Hm.
  Qed.

  Corollary tower_ok_src (a : arena R) i :
    arena_wf a -> base_ok O a -> i < length a ->
    OptimizePure.src_ok a i -> FlattenSem.noT a i -> tower_ok O osem 1 a i.
  Proof.
    intros Hwf Hb Hi Hs HnoT. destruct (opt_ok_src a i Hwf Hb Hi Hs HnoT) as [H1 H2].
    apply tower_ok_pure; assumption.
  Qed.

  (* sanity: on oracle-free trees the recursive evaluator is the pipeline of C01 *)
  Corollary evaluator_oracle_free (a : arena R) i fuel vars x y z :
    arena_wf a -> base_ok O a -> i < length a ->
    OptimizePure.src_ok a i -> FlattenSem.noT a i -> 1 <= fuel ->
    evaluator O osem fuel a i vars x y z = val O osem a i {| ex := x; ey := y; ez := z; ev := vars |}.
  Proof.
    intros Hwf Hb Hi Hs HnoT Hf.
    apply (evaluator_correct O osem 1 fuel a i vars x y z); [|exact Hf].
    apply tower_ok_src; assumption.
  Qed.

  (* value preservation whatever oracles the tree holds, transformed ones with lazy
     coordinate trees included: [good] (FlattenSem.v) only asks that transformed oracles
     BELOW AN APPLY NODE have variable-independent components; it follows from [noT] and
     holds trivially when no apply node is reachable *)
  Lemma optimized_sem_good (a : arena R) i :
    arena_wf a -> base_ok O a -> i < length a -> FlattenSem.good O osem a i ->
    let '(a', j) := optimized O a i in
    extends a a' /\ arena_wf a' /\ j < length a' /\
    forall r, val O osem a' j r = val O osem a i r.
  Proof.
    intros Hwf Hb Hi Hg.
    pose proof (OptimizeSem.optimized_sem_o uf bf pow_1 root_1 osem a i Hwf Hb Hi Hg) as H.
    destruct (optimized O a i) as [a' j]. destruct H as (H1 & H2 & _ & H3 & H4). auto.
  Qed.

  (* with oracles: everything in [opt_ok] but the purity of the output follows from
     OptimizeSem.v, for roots satisfying [good] (in particular [noT]) *)
  Theorem opt_ok_of_pure (a : arena R) i :
    arena_wf a -> base_ok O a -> i < length a ->
    (FlattenSem.noT a i \/ FlattenSem.good O osem a i) ->
    (let '(a1, r1) := optimized O a i in forall m, DeckSemReach.reach a1 r1 m -> opure_at a1 m) ->
    opt_ok O osem a i.
  Proof.
    intros Hwf Hb Hi Hcase Hp.
    assert (Hg : FlattenSem.good O osem a i)
      by (destruct Hcase as [HnoT|Hg]; [apply FlattenSem.good_noT; assumption | exact Hg]).
    pose proof (optimized_sem_good a i Hwf Hb Hi Hg) as Hv.
    unfold opt_ok. destruct (optimized O a i) as [a' j].
    destruct Hv as (He & Hwf' & Hj & Hval).
    split; [exact Hwf'|]. split; [exact (base_ok_extends O a a' Hb He)|].
    split; [exact Hj|]. split; [exact Hval | exact Hp].
  Qed.

  (* ---------------------------------------------------------------- *)
  (* [opt_ok] DISCHARGED for sources with oracles anywhere *)
  Lemma reach_greach_kids (a : arena R) root m :
    DeckSemReach.reach a root m -> ReachShape.greach kids a root m.
  Proof. induction 1; [constructor | econstructor; eauto]. Qed.

  Lemma hp_opure vb (a : arena R) j : OptimizePure.hp true vb a j ->
    forall m, DeckSemReach.reach a j m -> opure_at a m.
  Proof.
    intros Hp m Hm. pose proof (OptimizePureO.hp_kp vb a j Hp m (reach_greach_kids a j m Hm)) as Hs.
    unfold opure_at. destruct (getn a m) as [c|op|op x|op x y|g|cx cy cz u|x y z t|v e t|];
      cbn [OptimizePure.oshape] in Hs; try exact I; try contradiction.
    destruct op; try exact Hs; try contradiction; exact I.
  Qed.

  (* what Tree::optimized returns for a [src_ok_o] source satisfying [good] *)
  Theorem optimized_o_full vb (a : arena R) i :
    arena_wf a -> base_ok O a -> i < length a ->
    OptimizePureO.src_ok_o vb a i -> FlattenSem.good O osem a i ->
    let '((a1, r1), fl) := optimized_full O a i in
    extends a a1 /\ arena_wf a1 /\ base_ok O a1 /\ r1 < length a1 /\
    (forall r, val O osem a1 r1 r = val O osem a i r) /\
    OptimizePure.hp true vb a1 r1 /\ bnd_of a1 r1 <= bnd_of a i /\ fl = false.
  Proof.
    intros Hwf Hb Hi Hs Hg.
    pose proof (OptimizePureO.optimized_o_pure O vb a i Hwf Hb Hi Hs) as Hp.
    pose proof (optimized_sem_good a i Hwf Hb Hi Hg) as Hv. unfold optimized in Hv.
    destruct (optimized_full O a i) as [[a1 r1] fl]. cbn [fst] in Hv.
    destruct Hp as (H1 & H2 & H3 & H4 & H5 & H6 & H7). destruct Hv as (_ & _ & _ & Hval).
    repeat split; assumption.
  Qed.

  Theorem opt_ok_of_src_o vb (a : arena R) root :
    arena_wf a -> base_ok O a -> root < length a ->
    OptimizePureO.src_ok_o vb a root -> FlattenSem.good O osem a root ->
    opt_ok O osem a root /\ snd (optimized_full O a root) = false.
  Proof.
    intros Hwf Hb Hi Hs Hg.
    pose proof (optimized_o_full vb a root Hwf Hb Hi Hs Hg) as H.
    unfold opt_ok, optimized. destruct (optimized_full O a root) as [[a1 r1] fl]. cbn [fst snd].
    destruct H as (_ & H2 & H3 & H4 & H5 & H6 & _ & H8).
    split; [|exact H8]. repeat split; try assumption. apply (hp_opure vb); exact H6.
  Qed.

  (* the coordinate trees of an optimised variable-free output depend on the point only *)
  Lemma hp_xyz_only (a : arena R) : arena_wf a -> forall j, j < length a ->
    OptimizePure.hp true false a j -> xyz_only O osem a j.
  Proof.
    intros Hwf j. induction j as [j IH] using lt_wf_ind. intros Hj Hp r r' Ex Ey Ez.
    apply OptimizePure.hp_unfold in Hp. destruct Hp as [Hs Hk].
    destruct (getn a j) as [c|op|op x|op x y|g|cx cy cz u|x y z t|v e t|] eqn:Hg;
      cbn [OptimizePure.oshape OptimizePure.okids] in *; try contradiction.
    - rewrite !(val_const O osem a j c) by assumption. reflexivity.
    - rewrite !val_node by exact Hj. rewrite Hg.
      destruct op; try contradiction; try discriminate Hs; cbn [nodeval]; auto.
    - destruct (val_unary O osem a j op x r Hwf Hj Hg) as [Hx ->].
      destruct (val_unary O osem a j op x r' Hwf Hj Hg) as [_ ->].
      f_equal. apply IH; auto; [lia | apply Hk; left; reflexivity].
    - destruct (val_binary O osem a j op x y r Hwf Hj Hg) as (Hx & Hy & ->).
      destruct (val_binary O osem a j op x y r' Hwf Hj Hg) as (_ & _ & ->).
      f_equal; apply IH; auto; try lia; apply Hk; simpl; auto.
    - rewrite !(val_oracle O osem a j g) by assumption. rewrite Ex, Ey, Ez. reflexivity.
    - destruct (val_oracleT O osem a j cx cy cz u r Hwf Hj Hg) as (Hx & Hy & Hz & Hu & ->).
      destruct (val_oracleT O osem a j cx cy cz u r' Hwf Hj Hg) as (_ & _ & _ & _ & ->).
      destruct Hs as [_ [k Hku]].
      rewrite !(val_oracle O osem a u k) by (assumption || lia). unfold upd_xyz; cbn [ex ey ez].
      rewrite (IH cx Hx ltac:(lia) (Hk cx ltac:(simpl; auto)) r r' Ex Ey Ez).
      rewrite (IH cy Hy ltac:(lia) (Hk cy ltac:(simpl; auto)) r r' Ex Ey Ez).
      rewrite (IH cz Hz ltac:(lia) (Hk cz ltac:(simpl; auto)) r r' Ex Ey Ez). reflexivity.
  Qed.

  (* a variable-free, apply-free source satisfies [good] for free *)
  Lemma good_of_so_false (a : arena R) i : OptimizePureO.src_ok_o false a i -> FlattenSem.good O osem a i.
  Proof.
    intros Hs m v e t Hm Hn. exfalso.
    assert (Hr : ReachShape.greach OptimizePureO.fkids a i m).
    { clear Hn. induction Hm as [|n k Hn IH Hk]; [constructor|]. econstructor; [exact IH|].
      destruct (getn a n); exact Hk. }
    specialize (Hs m Hr). rewrite Hn in Hs. cbn in Hs. discriminate Hs.
  Qed.

  (* the whole tower, from syntactic conditions on the SOURCE only: variable-free sources
     with oracles, transformed oracles and lazy remaps anywhere (nested to any depth);
     no hypothesis on Tree::optimized, no out-of-fuel hypothesis *)
  Theorem tower_ok_of_src_o : forall n (a : arena R) root,
    arena_wf a -> base_ok O a -> root < length a ->
    OptimizePureO.src_ok_o false a root -> bnd_of a root <= n ->
    tower_ok O osem (2 * n + 1) a root.
  Proof.
    induction n as [|n IH]; intros a root Hwf Hb Hi Hs Hbn.
    all: pose proof (good_of_so_false a root Hs) as Hg.
    all: pose proof (optimized_o_full false a root Hwf Hb Hi Hs Hg) as H.
    all: destruct (opt_ok_of_src_o false a root Hwf Hb Hi Hs Hg) as [Hopt _].
    1: change (2 * 0 + 1) with 1.
    2: replace (2 * S n + 1) with (S (S (S (2 * n)))) by lia.
    all: rewrite tower_ok_S; (split; [exact Hopt|]).
    all: unfold optimized; destruct (optimized_full O a root) as [[a1 r1] fl]; cbn [fst].
    all: destruct H as (He & Hwf1 & Hb1 & Hr1 & Hval & Hp & Hb1n & _).
    all: intros id Hr Ho.
    all: pose proof (reach_greach_kids a1 r1 id Hr) as Hr'.
    all: pose proof (OptimizePureO.kreach_bnd a1 r1 id Hwf1 Hr1 Hr') as Hbid.
    all: pose proof (ReachShape.greach_le kids OptimizePure.kids_wf a1 r1 id Hwf1 Hr1 Hr') as Hle.
    all: assert (Hidl : id < length a1) by lia.
    all: pose proof (OptimizePureO.hp_kreach false a1 r1 id Hp Hr') as Hpid.
    - (* level bound 0: no oracle node at all *)
      exfalso. destruct (getn a1 id) as [c|op|op x|op x y|g|cx cy cz u|x y z t|v e t|] eqn:Hgn;
        try discriminate Ho.
      + rewrite (Bnd.bnd_oracle a1 id g Hwf1 Hidl Hgn) in Hbid. lia.
      + rewrite (Bnd.bnd_oracleT a1 id cx cy cz u Hwf1 Hidl Hgn) in Hbid. lia.
    - rewrite obj_ok_S.
      pose proof (arena_wf_nth a1 id Hwf1 Hidl) as Hnw.
      apply OptimizePure.hp_unfold in Hpid. destruct Hpid as [Hsh Hk].
      destruct (getn a1 id) as [c|op|op x|op x y|g|cx cy cz u|x y z t|v e t|] eqn:Hgn;
        try discriminate Ho; [exact I|].
      cbn [OptimizePure.oshape OptimizePure.okids node_wf] in *.
      destruct Hsh as [_ [k Hku]]. destruct Hnw as (Hx & Hy & Hz & Hu).
      rewrite (Bnd.bnd_oracleT a1 id cx cy cz u Hwf1 Hidl Hgn) in Hbid.
      assert (Hc : forall c, In c [cx; cy; cz] -> c < length a1 /\
                   tower_ok O osem (S (2 * n)) a1 c /\ xyz_only O osem a1 c).
      { intros c Hc. assert (Hcl : c < length a1) by (destruct Hc as [<-|[<-|[<-|[]]]]; lia).
        assert (Hpc : OptimizePure.hp true false a1 c) by (apply Hk; simpl in *; tauto).
        split; [exact Hcl|]. split; [|apply hp_xyz_only; assumption].
        replace (S (2 * n)) with (2 * n + 1) by lia.
        apply IH; auto; [apply OptimizePureO.hp_so; exact Hpc|].
        destruct Hc as [<-|[<-|[<-|[]]]]; lia. }
      destruct (Hc cx ltac:(simpl; auto)) as (_ & Tx & Cx).
      destruct (Hc cy ltac:(simpl; auto)) as (_ & Ty & Cy).
      destruct (Hc cz ltac:(simpl; auto)) as (_ & Tz & Cz).
      split; [exact Tx|]. split; [exact Ty|]. split; [exact Tz|].
      split; [exact Cx|]. split; [exact Cy|]. split; [exact Cz|].
      rewrite Hku. split; [reflexivity|]. rewrite obj_ok_S, Hku. exact I.
  Qed.

  (* ArrayEvaluator on a SOURCE tree with oracles: no hypothesis about Tree::optimized *)
  Corollary evaluator_correct_syntactic (a : arena R) root fuel vars x y z :
    arena_wf a -> base_ok O a -> root < length a ->
    OptimizePureO.src_ok_o false a root -> 2 * bnd_of a root + 1 <= fuel ->
    evaluator O osem fuel a root vars x y z
    = val O osem a root {| ex := x; ey := y; ez := z; ev := vars |}.
  Proof.
    intros Hwf Hb Hi Hs Hf.
    apply (evaluator_correct O osem (2 * bnd_of a root + 1) fuel a root vars x y z); [|exact Hf].
    apply tower_ok_of_src_o; auto.
  Qed.

  (* non-vacuity over the reals: an already transformed oracle (oracle 0 at (x + y, y, z))
     remapped again, lazily, by (x * y, y, z) *)
  Definition nested_R : arena R :=
    init_arena O ++ [NOracle 0; NBinary OP_ADD idX idY; NOracleT 6 idY idZ 5;
                     NBinary OP_MUL idX idY; NRemap 8 idY idZ 7].

  Example nested_R_evaluator fuel vars x y z : 3 <= fuel ->
    evaluator O osem fuel nested_R 9 vars x y z
    = osem 0 (o_bin O OP_ADD (o_bin O OP_MUL x y) y) y z.
  Proof.
    intros Hf.
    assert (Hb : bnd_of nested_R 9 = 1) by (vm_compute; reflexivity).
    rewrite (evaluator_correct_syntactic nested_R 9 fuel vars x y z).
    - reflexivity.
    - unfold arena_wf, nested_R, init_arena; simpl. repeat split; try reflexivity; unfold idX, idY, idZ; lia.
    - reflexivity.
    - simpl; lia.
    - apply (OptimizePureO.sob_sound false 10). vm_compute. reflexivity.
    - rewrite Hb. lia.
  Qed.
End OptOkR.
