(* C16: meaning of the evaluation of trees that contain oracle nodes
   (model: Eval/OracleEval.v; deck theorem with oracle leaves: Eval/DeckOracleSem.v).

   a. [val_oracle], [val_oracleT]   reading the two oracle shapes of [val].
      [val_var_free]                [var_free fuel a m = true] (any fuel): [val a m r] does not
                                    depend on [ev r].
   b. [dkids], [dreach]             deep reachability: through walk()'s children AND through the
                                    coordinate trees / underlying oracle of a transformed oracle.
      [coords_closed_evaluable], [coords_closed_dkid], [coords_closed_dreach]
                                    [coords_closed fc a root = true] makes every deeply reachable
                                    node evaluable and coordinate-closed.
      [eval_oracle_correct]         the mutual statement, by induction on the fuel.
      [evaluator_correct]           the tower of per-coordinate evaluators inside
                                    TransformedOracle computes the composition with the
                                    coordinate maps: [evaluator ... = val a root {x,y,z,vars}].
      [oracle_obj_correct]          same for the oracle object of an oracle node, at ANY
                                    variable assignment.
      [deep_arena], [deep_evaluator_11], [deep_evaluator_12], [deep_val],
      [fuel_root_lt_insufficient]   five nested transformed oracles at root 10: fuel 11 gives a
                                    wrong value, fuel 12 the right one.
      [evaluator_correct_le], [oracle_obj_correct_le]
                                    the same with the side conditions on all nodes <= root and
                                    [coords_closed (S root)] (as [deck_correct]; with [base_ok]
                                    only usable for root < 3 since id 3 is [NInvalid] -- use the
                                    [dreach] forms above).
      Fuel: [2 * root + 2 <= fuel] for an evaluator, [2 * id + 1 <= fuel] for an oracle object
      (one unit per evaluator level and one per oracle object; [root < fuel] is NOT enough for
      nested transformed oracles).
      Extra hypotheses: [canon_at] on reachable nodes (singleton X/Y/Z; already needed for
      pure decks, see DeckSem.v) and [underlying_ok]: the 4th component of an [NOracleT] is an
      oracle node (Tree::flatten only builds such nodes; [oracle_obj] answers 0 otherwise).
   c. [bad_arena], [bad_evaluator], [bad_val], [bad_arena_side], [bad_not_closed],
      [oracle_vars_refuted]         over [RD]: remap x -> x + v of an oracle, v := 3: the
                                    evaluator gives 0, the meaning is 3.  All hypotheses of
                                    [evaluator_correct] except [coords_closed] hold.
   d. [subst_handle], [denote_wrap], [oracle_wrap], [oracle_wrap_denote]
                                    wrapping an expression in an oracle that agrees with it is
                                    invisible to every context (remap chains, operations).
   e. [chain_rule3]                 d/dt u(X t, Y t, Z t) = g1 X' + g2 Y' + g3 Z'.
      [jac_mul_components]          the components of TransformedOracle::evalDerivs' product.
      [oracle_gradient_correct]     [jac_mul RD gX gY gZ gu] is the gradient of the composite.
   f. [interval_compose]            enclosure of the coordinates + sound underlying interval
                                    oracle => enclosure of the composite.
      [tor_interval], [tor_flag_rule], [tor_interval_sound]
                                    the maybe-NaN flag of the (repaired) TransformedOracle.
   g. [oracle_ctx_preserves]        coordinate evaluators run on specialised tapes that agree
                                    with the full ones on a region leave the transformed
                                    oracle's value unchanged there.
      [oracle_ctx_preserves_push]   ... instantiated with Tape::push ([push_preserves]). *)
From Coq Require Import List Arith Bool Lia.
From LF Require Import Base.Opcode Base.Num Base.Arena Base.Sem Tree.Build Tree.BuildSem
                       Eval.Deck Eval.DeckSem Eval.DeckSemReach Eval.OracleEval
                       Eval.DeckOracleSem Stdlib.SExpr Eval.Push Eval.PushSem.
Import ListNotations.

(* ================================================================== *)
(* a. shapes of [val] at oracle nodes, independence of the variables    *)
Section ValOracle.
  Context {num : Type} (O : ops num).
  Variable osem : nat -> num -> num -> num -> num.
  Notation node := (node num).
  Notation arena := (arena num).
  Notation env := (env num).
  Notation val := (val O osem).

  Lemma val_oracle (a : arena) i g r : i < length a -> getn a i = NOracle g ->
    val a i r = osem g (ex r) (ey r) (ez r).
  Proof. intros Hi Hn; rewrite val_node by exact Hi; rewrite Hn; reflexivity. Qed.

  Lemma val_oracleT (a : arena) i x y z t r :
    arena_wf a -> i < length a -> getn a i = NOracleT x y z t ->
    x < i /\ y < i /\ z < i /\ t < i /\
    val a i r = val a t (upd_xyz r (val a x r) (val a y r) (val a z r)).
  Proof.
    intros Hwf Hi Hn. pose proof (arena_wf_nth a i Hwf Hi) as Hw; rewrite Hn in Hw.
    cbn [node_wf] in Hw. destruct Hw as (Hx & Hy & Hz & Ht). repeat split; auto.
    rewrite val_node by exact Hi; rewrite Hn; cbn [nodeval].
    rewrite !getv_vals_firstn by lia; reflexivity.
  Qed.

  Lemma val_var_free (a : arena) : arena_wf a ->
    forall fuel m, m < length a -> var_free fuel a m = true ->
    forall r r', ex r = ex r' -> ey r = ey r' -> ez r = ez r' -> val a m r = val a m r'.
  Proof.
    intros Hwf. induction fuel as [|f IH]; intros m Hm Hv r r' Ex Ey Ez; [discriminate Hv|].
    cbn [var_free] in Hv.
    destruct (getn a m) as [c|op|op x|op x y|g|cx cy cz u|x y z t|v e t|] eqn:Hg;
      try discriminate Hv.
    - rewrite !(val_const O osem a m c) by assumption. reflexivity.
    - rewrite !val_node by exact Hm. rewrite Hg.
      destruct op; try discriminate Hv; cbn [nodeval]; auto.
    - destruct (val_unary O osem a m op x r Hwf Hm Hg) as [Hx ->].
      destruct (val_unary O osem a m op x r' Hwf Hm Hg) as [_ ->].
      f_equal. apply IH; auto; lia.
    - destruct (val_binary O osem a m op x y r Hwf Hm Hg) as (Hx & Hy & ->).
      destruct (val_binary O osem a m op x y r' Hwf Hm Hg) as (_ & _ & ->).
      apply andb_true_iff in Hv. destruct Hv as [Vx Vy].
      f_equal; apply IH; auto; lia.
    - rewrite !(val_oracle a m g) by assumption. rewrite Ex, Ey, Ez. reflexivity.
    - destruct (val_oracleT a m cx cy cz u r Hwf Hm Hg) as (Hx & Hy & Hz & Hu & ->).
      destruct (val_oracleT a m cx cy cz u r' Hwf Hm Hg) as (_ & _ & _ & _ & ->).
      apply andb_true_iff in Hv. destruct Hv as [Hv Vu].
      apply andb_true_iff in Hv. destruct Hv as [Hv Vz].
      apply andb_true_iff in Hv. destruct Hv as [Vx Vy].
      apply IH; [lia | exact Vu | | |]; unfold upd_xyz; cbn [ex ey ez];
        apply IH; auto; lia.
  Qed.
End ValOracle.

(* ================================================================== *)
(* b. the recursive evaluators compute the denotation                   *)
Section DeepReach.
  Context {num : Type}.
  Notation node := (node num).
  Notation arena := (arena num).

  (* children in the deep sense: a transformed oracle owns evaluators for its three
     coordinate trees and the underlying oracle *)
  Definition dkids (n : node) : list nat :=
    match n with
    | NUnary _ x => [x]
    | NBinary _ x y => [x; y]
    | NOracleT x y z u => [x; y; z; u]
    | _ => []
    end.

  Inductive dreach (a : arena) (root : nat) : nat -> Prop :=
  | dreach_root : dreach a root root
  | dreach_kid p c : dreach a root p -> In c (dkids (getn a p)) -> dreach a root c.

  Lemma kids_dkids (n : node) c : In c (kids n) -> In c (dkids n).
  Proof. destruct n; simpl; tauto. Qed.

  Lemma dkids_lt (a : arena) p c : arena_wf a -> p < length a -> In c (dkids (getn a p)) -> c < p.
  Proof.
    intros Hwf Hp Hc. pose proof (arena_wf_nth a p Hwf Hp) as Hn.
    destruct (getn a p) as [c0|op|op x|op x y|k|x' y' z' t'|x y z t|v e t|];
      simpl in Hc, Hn; try contradiction.
    - destruct Hc as [<-|[]]. tauto.
    - destruct Hc as [<-|[<-|[]]]; tauto.
    - destruct Hc as [<-|[<-|[<-|[<-|[]]]]]; tauto.
  Qed.

  Lemma dreach_le (a : arena) root m :
    arena_wf a -> root < length a -> dreach a root m -> m <= root.
  Proof.
    intros Hwf Hr. induction 1 as [|p c Hp IH Hc]; [lia|].
    pose proof (dkids_lt a p c Hwf ltac:(lia) Hc). lia.
  Qed.

  Lemma reach_dreach (a : arena) root m : reach a root m -> dreach a root m.
  Proof.
    induction 1 as [|p c Hp IH Hc]; [constructor|].
    apply (dreach_kid a root p c IH). apply kids_dkids; exact Hc.
  Qed.

  Lemma dreach_trans (a : arena) root p m : dreach a root p -> dreach a p m -> dreach a root m.
  Proof.
    intros Hp. induction 1 as [|q c Hq IH Hc]; [exact Hp|].
    apply (dreach_kid a root q c IH Hc).
  Qed.

  (* the fourth component of a transformed oracle is an oracle *)
  Definition underlying_at (a : arena) (m : nat) : Prop :=
    match getn a m with
    | NOracleT _ _ _ u => is_oracle_node (getn a u) = true
    | _ => True
    end.

  Lemma coords_closed_evaluable (a : arena) fc m : coords_closed fc a m = true -> evaluable_at a m.
  Proof.
    destruct fc as [|f]; [discriminate|]. cbn [coords_closed]. unfold evaluable_at.
    destruct (getn a m); try discriminate; auto.
  Qed.

  Lemma coords_closed_dkid (a : arena) fc p c :
    coords_closed fc a p = true -> In c (dkids (getn a p)) -> coords_closed (pred fc) a c = true.
  Proof.
    destruct fc as [|f]; [discriminate|]. cbn [coords_closed pred].
    destruct (getn a p) as [c0|op|op x|op x y|k|x' y' z' t'|x y z t|v e t|];
      cbn [dkids]; intros H Hc; try (destruct Hc; fail).
    - destruct Hc as [<-|[]]. exact H.
    - apply andb_true_iff in H. destruct H as [H1 H2].
      destruct Hc as [<-|[<-|[]]]; assumption.
    - repeat (apply andb_true_iff in H; let K := fresh "K" in destruct H as [H K]).
      destruct Hc as [<-|[<-|[<-|[<-|[]]]]]; assumption.
  Qed.

  Lemma coords_closed_dreach (a : arena) root fc :
    coords_closed fc a root = true ->
    forall m, dreach a root m -> exists fc', coords_closed fc' a m = true.
  Proof.
    intros H m. induction 1 as [|p c Hp [fp IH] Hc]; [exists fc; exact H|].
    exists (pred fp). apply (coords_closed_dkid a fp p c IH Hc).
  Qed.
End DeepReach.

Section OracleCorrect.
  Context {num : Type} (O : ops num).
  Variable osem : nat -> num -> num -> num -> num.
  Notation node := (node num).
  Notation arena := (arena num).
  Notation env := (env num).
  Notation val := (val O osem).
  Notation evaluator := (evaluator O osem).
  Notation oracle_obj := (oracle_obj O osem).

  Lemma evaluator_S f (a : arena) root vars x y z :
    evaluator (S f) a root vars x y z =
    tape_value O
      (fun k px py pz =>
         match nth_error (d_oracles (mk_deck a root)) k with
         | Some (_, id) => oracle_obj f a id px py pz
         | None => o_zero O
         end)
      (mk_deck a root) (d_tape (mk_deck a root)) (d_root (mk_deck a root)) vars x y z.
  Proof. reflexivity. Qed.

  Lemma oracle_obj_S f (a : arena) id x y z :
    oracle_obj (S f) a id x y z =
    match getn a id with
    | NOracle g => osem g x y z
    | NOracleT cx cy cz u =>
        oracle_obj f a u (evaluator f a cx (vars0 O) x y z) (evaluator f a cy (vars0 O) x y z)
                   (evaluator f a cz (vars0 O) x y z)
    | _ => o_zero O
    end.
  Proof. reflexivity. Qed.

  Section Good.
    Variable a : arena.
    Hypothesis Hwf : arena_wf a.
    Hypothesis Hb : base_ok O a.
    (* a set of nodes closed under deep children on which the side conditions hold *)
    Variable G : nat -> Prop.
    Hypothesis HGlt : forall m, G m -> m < length a.
    Hypothesis HGkid : forall p c, G p -> In c (dkids (getn a p)) -> G c.
    Hypothesis HGcan : forall m, G m -> canon_at a m.
    Hypothesis HGund : forall m, G m -> underlying_at a m.

    Lemma reach_good root fc : G root -> coords_closed fc a root = true ->
      forall m, reach a root m -> G m /\ exists fc', coords_closed fc' a m = true.
    Proof.
      intros Hg Hc m. induction 1 as [|p c Hp [Gp [fp IH]] Hk].
      - split; [exact Hg | exists fc; exact Hc].
      - apply kids_dkids in Hk. split; [apply (HGkid p c Gp Hk)|].
        exists (pred fp). apply (coords_closed_dkid a fp p c IH Hk).
    Qed.

    Lemma eval_oracle_correct : forall F,
      (forall root fc vars x y z, G root -> 2 * root + 2 <= F -> coords_closed fc a root = true ->
         evaluator F a root vars x y z = val a root {| ex := x; ey := y; ez := z; ev := vars |}) /\
      (forall id fc x y z any, G id -> 2 * id + 1 <= F -> is_oracle_node (getn a id) = true ->
         coords_closed fc a id = true ->
         oracle_obj F a id x y z = val a id {| ex := x; ey := y; ez := z; ev := any |}).
    Proof.
      induction F as [|f [IHE IHO]]; (split; [intros root fc vars x y z Hg HF Hc
                                             | intros id fc x y z any Hg HF Hor Hc]); try lia.
      - (* an evaluator: a deck whose ORACLE clauses call the oracle objects *)
        rewrite evaluator_S.
        pose proof (HGlt root Hg) as Hroot.
        apply (deck_correct_oracle_reach O osem _ a root vars x y z Hwf Hb Hroot).
        + intros m Hm. destruct (reach_good root fc Hg Hc m Hm) as [Gm [fm Hcm]].
          apply opure_of_evaluable; [exact (coords_closed_evaluable a fm m Hcm) | exact (HGcan m Gm)].
        + intros k slot id Hk. cbv beta. rewrite Hk.
          destruct (deck_oracles_spec a Hwf root Hroot slot id (nth_error_In _ _ Hk))
            as (Hr & Hle & Hlt & Hor).
          destruct (reach_good root fc Hg Hc id Hr) as [Gid [fi Hci]].
          apply (IHO id fi x y z vars Gid ltac:(lia) Hor Hci).
      - (* an oracle object *)
        rewrite oracle_obj_S. pose proof (HGlt id Hg) as Hid.
        pose proof (HGund id Hg) as Hund. unfold underlying_at in Hund.
        destruct (getn a id) as [c|op|op x0|op x0 y0|g|cx cy cz u|x0 y0 z0 t|v e t|] eqn:Hgn;
          try discriminate Hor.
        + rewrite (val_oracle O osem a id g) by assumption. reflexivity.
        + set (r := {| ex := x; ey := y; ez := z; ev := any |}).
          destruct (val_oracleT O osem a id cx cy cz u r Hwf Hid Hgn) as (Hx & Hy & Hz & Hu & ->).
          assert (Gx : G cx) by (apply (HGkid id); [exact Hg | rewrite Hgn; simpl; auto]).
          assert (Gy : G cy) by (apply (HGkid id); [exact Hg | rewrite Hgn; simpl; auto]).
          assert (Gz : G cz) by (apply (HGkid id); [exact Hg | rewrite Hgn; simpl; auto]).
          assert (Gu : G u) by (apply (HGkid id); [exact Hg | rewrite Hgn; simpl; auto 6]).
          destruct fc as [|fc]; [discriminate Hc|]. cbn [coords_closed] in Hc. rewrite Hgn in Hc.
          apply andb_true_iff in Hc. destruct Hc as [Hc Cu].
          apply andb_true_iff in Hc. destruct Hc as [Hc Cz].
          apply andb_true_iff in Hc. destruct Hc as [Hc Cy].
          apply andb_true_iff in Hc. destruct Hc as [Hc Cx].
          apply andb_true_iff in Hc. destruct Hc as [Hc Vz].
          apply andb_true_iff in Hc. destruct Hc as [Vx Vy].
          rewrite (IHE cx fc (vars0 O) x y z Gx ltac:(lia) Cx).
          rewrite (IHE cy fc (vars0 O) x y z Gy ltac:(lia) Cy).
          rewrite (IHE cz fc (vars0 O) x y z Gz ltac:(lia) Cz).
          rewrite (IHO u fc _ _ _ any Gu ltac:(lia) Hund Cu).
          unfold upd_xyz. cbn [ev].
          rewrite (val_var_free O osem a Hwf fc cx (HGlt cx Gx) Vx _ r) by reflexivity.
          rewrite (val_var_free O osem a Hwf fc cy (HGlt cy Gy) Vy _ r) by reflexivity.
          rewrite (val_var_free O osem a Hwf fc cz (HGlt cz Gz) Vz _ r) by reflexivity.
          reflexivity.
    Qed.
  End Good.

  (* ArrayEvaluator(Tree root, vars).value({x,y,z}) on a tree with oracles *)
  Theorem evaluator_correct (a : arena) root fuel fc vars x y z :
    arena_wf a -> base_ok O a -> root < length a -> 2 * root + 2 <= fuel ->
    coords_closed fc a root = true ->
    (forall m, dreach a root m -> canon_at a m) ->
    (forall m, dreach a root m -> underlying_at a m) ->
    evaluator fuel a root vars x y z = val a root {| ex := x; ey := y; ez := z; ev := vars |}.
  Proof.
    intros Hwf Hb Hroot HF Hc Hcan Hund.
    refine (proj1 (eval_oracle_correct a Hwf Hb (dreach a root) _ _ Hcan Hund fuel)
                  root fc vars x y z (dreach_root a root) HF Hc).
    - intros m Hm. pose proof (dreach_le a root m Hwf Hroot Hm). lia.
    - intros p c Hp Hk. apply (dreach_kid a root p c Hp Hk).
  Qed.

  (* getOracle() of an oracle node, then set + evalPoint *)
  Theorem oracle_obj_correct (a : arena) id fuel fc any x y z :
    arena_wf a -> base_ok O a -> id < length a -> 2 * id + 1 <= fuel ->
    is_oracle_node (getn a id) = true ->
    coords_closed fc a id = true ->
    (forall m, dreach a id m -> canon_at a m) ->
    (forall m, dreach a id m -> underlying_at a m) ->
    oracle_obj fuel a id x y z = val a id {| ex := x; ey := y; ez := z; ev := any |}.
  Proof.
    intros Hwf Hb Hid HF Hor Hc Hcan Hund.
    refine (proj2 (eval_oracle_correct a Hwf Hb (dreach a id) _ _ Hcan Hund fuel)
                  id fc x y z any (dreach_root a id) HF Hor Hc).
    - intros m Hm. pose proof (dreach_le a id m Hwf Hid Hm). lia.
    - intros p c Hp Hk. apply (dreach_kid a id p c Hp Hk).
  Qed.

  (* the side conditions demanded of all nodes <= root (as in [deck_correct]); note that
     [coords_closed] already implies [evaluable_at] on the reachable nodes *)
  Definition underlying_ok (a : arena) (root : nat) : Prop :=
    forall m cx cy cz u, m <= root -> getn a m = NOracleT cx cy cz u ->
                         is_oracle_node (getn a u) = true.

  Corollary evaluator_correct_le (a : arena) root fuel vars x y z :
    arena_wf a -> base_ok O a -> root < length a -> 2 * root + 2 <= fuel ->
    (forall m, m <= root -> evaluable_at a m) ->
    (forall m, m <= root -> canon_at a m) ->
    underlying_ok a root ->
    coords_closed (S root) a root = true ->
    evaluator fuel a root vars x y z = val a root {| ex := x; ey := y; ez := z; ev := vars |}.
  Proof.
    intros Hwf Hb Hroot HF _ Hcan Hund Hc.
    apply (evaluator_correct a root fuel (S root)); auto.
    - intros m Hm. apply Hcan. apply (dreach_le a root m Hwf Hroot Hm).
    - intros m Hm. pose proof (dreach_le a root m Hwf Hroot Hm) as Hle.
      unfold underlying_at. destruct (getn a m) eqn:Hg; auto. eapply Hund; eauto.
  Qed.

  Corollary oracle_obj_correct_le (a : arena) id fuel any x y z :
    arena_wf a -> base_ok O a -> id < length a -> 2 * id + 1 <= fuel ->
    is_oracle_node (getn a id) = true ->
    (forall m, m <= id -> evaluable_at a m) ->
    (forall m, m <= id -> canon_at a m) ->
    underlying_ok a id ->
    coords_closed (S id) a id = true ->
    oracle_obj fuel a id x y z = val a id {| ex := x; ey := y; ez := z; ev := any |}.
  Proof.
    intros Hwf Hb Hid HF Hor _ Hcan Hund Hc.
    apply (oracle_obj_correct a id fuel (S id)); auto.
    - intros m Hm. apply Hcan. apply (dreach_le a id m Hwf Hid Hm).
    - intros m Hm. pose proof (dreach_le a id m Hwf Hid Hm) as Hle.
      unfold underlying_at. destruct (getn a m) eqn:Hg; auto. eapply Hund; eauto.
  Qed.

  (* ---------------------------------------------------------------- *)
  (* c. the coordinate evaluators ignore the variable assignment        *)
  (* oracle 0 remapped by  x -> x + v  (v a free variable):
       5: v    6: x + v    7: oracle 0    8: oracle 0 at (x + v, y, z) *)
  Definition bad_arena : arena :=
    init_arena O ++ [NNullary VAR_FREE; NBinary OP_ADD idX 5; NOracle 0; NOracleT 6 idY idZ 7].

  Lemma bad_evaluator vars x y z :
    evaluator 18 bad_arena 8 vars x y z = osem 0 (o_add O x (o_zero O)) y z.
  Proof. reflexivity. Qed.

  Lemma bad_val vars x y z :
    val bad_arena 8 {| ex := x; ey := y; ez := z; ev := vars |} = osem 0 (o_add O x (vars 5)) y z.
  Proof. reflexivity. Qed.

  Lemma bad_dreach m : dreach bad_arena 8 m -> In m [8; 6; 1; 2; 7; 0; 5].
  Proof.
    clear osem. induction 1 as [|p c Hp IH Hc]; [simpl; auto|].
    simpl in IH. destruct IH as [<-|[<-|[<-|[<-|[<-|[<-|[<-|[]]]]]]]]; simpl in Hc; simpl; tauto.
  Qed.

  (* every hypothesis of [evaluator_correct] but [coords_closed] holds *)
  Lemma bad_arena_side :
    arena_wf bad_arena /\ base_ok O bad_arena /\ 8 < length bad_arena /\ 2 * 8 + 2 <= 18 /\
    (forall m, dreach bad_arena 8 m -> evaluable_at bad_arena m) /\
    (forall m, dreach bad_arena 8 m -> canon_at bad_arena m) /\
    (forall m, dreach bad_arena 8 m -> underlying_at bad_arena m).
  Proof.
    clear osem. split; [|split; [|split; [|split; [|split; [|split]]]]].
    - unfold arena_wf, bad_arena; simpl. repeat split; try reflexivity; unfold idX, idY, idZ; lia.
    - reflexivity.
    - simpl; lia.
    - lia.
    - intros m Hm. apply bad_dreach in Hm. simpl in Hm.
      destruct Hm as [<-|[<-|[<-|[<-|[<-|[<-|[<-|[]]]]]]]]; exact I.
    - intros m Hm. apply bad_dreach in Hm. simpl in Hm.
      destruct Hm as [<-|[<-|[<-|[<-|[<-|[<-|[<-|[]]]]]]]]; unfold canon_at; simpl; auto.
    - intros m Hm. apply bad_dreach in Hm. simpl in Hm.
      destruct Hm as [<-|[<-|[<-|[<-|[<-|[<-|[<-|[]]]]]]]]; unfold underlying_at; simpl; auto.
  Qed.

  Lemma bad_not_closed fc : coords_closed fc bad_arena 8 = false.
  Proof. destruct fc as [|[|[|fc]]]; reflexivity. Qed.
  (* ---------------------------------------------------------------- *)
  (* fuel: [root < fuel] is not enough.  Five nested transformed oracles:
       5: oracle 0    k+1: oracle 0 at (node k, y, z)   for k = 5..9 *)
  Definition deep_arena : arena :=
    init_arena O ++ [NOracle 0; NOracleT 5 idY idZ 5; NOracleT 6 idY idZ 5; NOracleT 7 idY idZ 5;
                     NOracleT 8 idY idZ 5; NOracleT 9 idY idZ 5].

  Lemma deep_val vars x y z :
    val deep_arena 10 {| ex := x; ey := y; ez := z; ev := vars |} =
    osem 0 (osem 0 (osem 0 (osem 0 (osem 0 (osem 0 x y z) y z) y z) y z) y z) y z.
  Proof. reflexivity. Qed.

  Lemma deep_evaluator_12 vars x y z :
    evaluator 12 deep_arena 10 vars x y z =
    osem 0 (osem 0 (osem 0 (osem 0 (osem 0 (osem 0 x y z) y z) y z) y z) y z) y z.
  Proof. reflexivity. Qed.

  (* with fuel 11 > root = 10 the innermost evaluator has run out of fuel *)
  Lemma deep_evaluator_11 vars x y z :
    evaluator 11 deep_arena 10 vars x y z =
    osem 0 (osem 0 (osem 0 (osem 0 (osem 0 (o_zero O) y z) y z) y z) y z) y z.
  Proof. reflexivity. Qed.

  Lemma deep_closed : coords_closed 11 deep_arena 10 = true.
  Proof. reflexivity. Qed.
End OracleCorrect.

(* ================================================================== *)
(* d. wrapping an expression in an oracle                               *)
Section Wrap.
  Context {num : Type} (O : ops num).
  Variable osem : nat -> num -> num -> num -> num.
  Notation arena := (arena num).
  Notation env := (env num).
  Notation val := (val O osem).
  Notation denote := (denote O osem).

  (* replace the handle [o] by the handle [e] *)
  Fixpoint subst_handle (o e : nat) (t : sx num) : sx num :=
    match t with
    | SH i => if Nat.eqb i o then SH e else SH i
    | SX => SX | SY => SY | SZ => SZ
    | SC c => SC c
    | SU op t1 => SU op (subst_handle o e t1)
    | SB op t1 t2 => SB op (subst_handle o e t1) (subst_handle o e t2)
    | SR t0 x y z => SR (subst_handle o e t0) (subst_handle o e x) (subst_handle o e y)
                        (subst_handle o e z)
    end.

  Theorem denote_wrap (a : arena) o e :
    (forall r, val a o r = val a e r) ->
    forall t r, denote a (subst_handle o e t) r = denote a t r.
  Proof.
    intros H. induction t as [i| | | |c|op t1 IH1|op t1 IH1 t2 IH2|t0 IH0 tx IHx ty IHy tz IHz];
      intros r; cbn [subst_handle SExpr.denote]; try reflexivity.
    - destruct (Nat.eqb_spec i o) as [->|Hne]; cbn [SExpr.denote]; [symmetry; apply H|reflexivity].
    - rewrite IH1; reflexivity.
    - rewrite IH1, IH2; reflexivity.
    - rewrite IHx, IHy, IHz, IH0; reflexivity.
  Qed.

  (* a user oracle that computes the expression [e] *)
  Theorem oracle_wrap (a : arena) o g e :
    arena_wf a -> o < length a -> getn a o = NOracle g ->
    (forall x y z vs, osem g x y z = val a e {| ex := x; ey := y; ez := z; ev := vs |}) ->
    forall r, val a o r = val a e r.
  Proof.
    intros Hwf Ho Hg Hag r. rewrite (val_oracle O osem a o g r Ho Hg).
    rewrite (Hag _ _ _ (ev r)). destruct r; reflexivity.
  Qed.

  Corollary oracle_wrap_denote (a : arena) o g e :
    arena_wf a -> o < length a -> getn a o = NOracle g ->
    (forall x y z vs, osem g x y z = val a e {| ex := x; ey := y; ez := z; ev := vs |}) ->
    forall t r, denote a (subst_handle o e t) r = denote a t r.
  Proof. intros Hwf Ho Hg Hag. apply denote_wrap. apply (oracle_wrap a o g e); assumption. Qed.
End Wrap.

(* ================================================================== *)
(* f. interval evaluation of a transformed oracle (abstract)            *)
Section IntervalCompose.
  Variable T : Type.
  Variable le : T -> T -> Prop.

  Record itv := { lo : T; hi : T }.
  Definition inI (v : T) (I : itv) : Prop := le (lo I) v /\ le v (hi I).
  Definition box : Type := (itv * itv * itv)%type.
  Definition in_box (q : T * T * T) (b : box) : Prop :=
    inI (fst (fst q)) (fst (fst b)) /\ inI (snd (fst q)) (snd (fst b)) /\ inI (snd q) (snd b).

  Variable P : Type.                       (* points of the original region *)
  Variable region : P -> Prop.
  Variables X Y Z : P -> T.                (* the three coordinate maps *)
  Variable u : T -> T -> T -> T.           (* the underlying oracle *)

  Theorem interval_compose (iu : box -> itv) (IX IY IZ : itv) :
    (forall p, region p -> inI (X p) IX) ->
    (forall p, region p -> inI (Y p) IY) ->
    (forall p, region p -> inI (Z p) IZ) ->
    (forall b q, in_box q b -> inI (u (fst (fst q)) (snd (fst q)) (snd q)) (iu b)) ->
    forall p, region p -> inI (u (X p) (Y p) (Z p)) (iu (IX, IY, IZ)).
  Proof.
    intros HX HY HZ Hu p Hp.
    apply (Hu (IX, IY, IZ) (X p, Y p, Z p)).
    repeat split; cbn [fst snd]; try apply HX; try apply HY; try apply HZ; exact Hp.
  Qed.

  (* results carry a may-be-NaN flag *)
  Record ires := { ir_itv : itv; ir_nan : bool }.
  Definition safe (r : ires) : Prop := ir_nan r = false.

  (* TransformedOracle::evalInterval (repaired): bounds from the underlying oracle on the
     box of the coordinate ranges, flagged when the underlying result or ANY coordinate
     range is *)
  Definition tor_interval (iu : box -> ires) (RX RY RZ : ires) : ires :=
    let r := iu (ir_itv RX, ir_itv RY, ir_itv RZ) in
    {| ir_itv := ir_itv r; ir_nan := ir_nan r || ir_nan RX || ir_nan RY || ir_nan RZ |}.

  Theorem tor_flag_rule (iu : box -> ires) RX RY RZ :
    safe (tor_interval iu RX RY RZ) ->
    safe RX /\ safe RY /\ safe RZ /\ safe (iu (ir_itv RX, ir_itv RY, ir_itv RZ)).
  Proof.
    unfold safe, tor_interval; cbn [ir_nan].
    destruct (ir_nan (iu (ir_itv RX, ir_itv RY, ir_itv RZ))), (ir_nan RX), (ir_nan RY), (ir_nan RZ);
      cbn; intros H; try discriminate H; auto.
  Qed.

  (* an unflagged result encloses the composite, when unflagged coordinate ranges enclose
     the coordinates and unflagged underlying results are sound *)
  Theorem tor_interval_sound (iu : box -> ires) RX RY RZ :
    (safe RX -> forall p, region p -> inI (X p) (ir_itv RX)) ->
    (safe RY -> forall p, region p -> inI (Y p) (ir_itv RY)) ->
    (safe RZ -> forall p, region p -> inI (Z p) (ir_itv RZ)) ->
    (forall b, safe (iu b) ->
       forall q, in_box q b -> inI (u (fst (fst q)) (snd (fst q)) (snd q)) (ir_itv (iu b))) ->
    safe (tor_interval iu RX RY RZ) ->
    forall p, region p -> inI (u (X p) (Y p) (Z p)) (ir_itv (tor_interval iu RX RY RZ)).
  Proof.
    intros HX HY HZ Hu Hs p Hp.
    destruct (tor_flag_rule iu RX RY RZ Hs) as (SX' & SY' & SZ' & SU').
    unfold tor_interval; cbn [ir_itv].
    apply (Hu _ SU' (X p, Y p, Z p)).
    repeat split; cbn [fst snd]; try apply (HX SX'); try apply (HY SY'); try apply (HZ SZ');
      exact Hp.
  Qed.
End IntervalCompose.

(* ================================================================== *)
(* g. context (specialised tapes) of the coordinate evaluators          *)
Section Context.
  Context {num : Type}.

  (* [tx ty tz]: the coordinate evaluators on their specialised tapes; [fx fy fz]: on the
     full tapes; [u]: the underlying oracle *)
  Theorem oracle_ctx_preserves {P : Type} (region : P -> Prop)
          (tx ty tz fx fy fz : P -> num) (u : num -> num -> num -> num) :
    (forall p, region p -> tx p = fx p) ->
    (forall p, region p -> ty p = fy p) ->
    (forall p, region p -> tz p = fz p) ->
    forall p, region p -> u (tx p) (ty p) (tz p) = u (fx p) (fy p) (fz p).
  Proof. intros HX HY HZ p Hp. rewrite (HX p Hp), (HY p Hp), (HZ p Hp). reflexivity. Qed.

  (* with Tape::push on each coordinate deck: slot vectors [vx vy vz] hold the point *)
  Theorem oracle_ctx_preserves_push (O : ops num)
          (ox oy oz : nat -> num -> num -> num -> num) (dx dy dz : @deck num)
          nx ny nz (tX tY tZ : tape) (vx vy vz : @slots num) fnx fny fnz
          (u : num -> num -> num -> num) :
    tape_wf dx nx tX -> length vx = nx -> justified O ox dx vx fnx tX ->
    tape_wf dy ny tY -> length vy = ny -> justified O oy dy vy fny tY ->
    tape_wf dz nz tZ -> length vz = nz -> justified O oz dz vz fnz tZ ->
    let value := fun o d (t : tape) v => sget O (eval_tape O o d (t_clauses t) v) (t_root t) in
    u (value ox dx (tape_push nx fnx tX) vx) (value oy dy (tape_push ny fny tY) vy)
      (value oz dz (tape_push nz fnz tZ) vz)
    = u (value ox dx tX vx) (value oy dy tY vy) (value oz dz tZ vz).
  Proof.
    intros WX LX JX WY LY JY WZ LZ JZ. cbv zeta.
    destruct (push_preserves O ox dx nx tX vx fnx WX LX JX) as [EX _].
    destruct (push_preserves O oy dy ny tY vy fny WY LY JY) as [EY _].
    destruct (push_preserves O oz dz nz tZ vz fnz WZ LZ JZ) as [EZ _].
    cbv zeta in EX, EY, EZ. rewrite EX, EY, EZ. reflexivity.
  Qed.
End Context.

(* ================================================================== *)
(* c (continued) and e: the real instance                               *)
From Coq Require Import Reals Lra.
From Coquelicot Require Import Coquelicot.
From LF Require Import Eval.DerivSem.
Local Open Scope R_scope.

(* the defect of transformed_oracle.cpp: xEvaluator(X_) is built with an empty variable
   map, so a remap whose coordinate trees mention a free variable is evaluated with that
   variable at 0 whatever the caller assigned *)
Theorem oracle_vars_refuted :
  let osem := fun (_ : nat) (x _ _ : R) => x in     (* the user oracle returns its x *)
  let a := bad_arena RD in                           (* oracle 0 at (x + v, y, z) *)
  let vars := fun _ : nat => 3 in                    (* v := 3 *)
  (arena_wf a /\ base_ok RD a /\ (8 < length a)%nat /\ (2 * 8 + 2 <= 18)%nat /\
   (forall m, dreach a 8 m -> evaluable_at a m) /\
   (forall m, dreach a 8 m -> canon_at a m) /\
   (forall m, dreach a 8 m -> underlying_at a m)) /\
  (forall fc, coords_closed fc a 8 = false) /\
  evaluator RD osem 18 a 8 vars 0 0 0 = 0 /\
  val RD osem a 8 {| ex := 0; ey := 0; ez := 0; ev := vars |} = 3 /\
  evaluator RD osem 18 a 8 vars 0 0 0 <> val RD osem a 8 {| ex := 0; ey := 0; ez := 0; ev := vars |}.
Proof.
  cbv zeta.
  assert (E : evaluator RD (fun (_ : nat) (x _ _ : R) => x) 18 (bad_arena RD) 8 (fun _ => 3) 0 0 0 = 0).
  { rewrite bad_evaluator. unfold o_add. cbn [o_bin o_zero RD RD_bin]. lra. }
  assert (V : val RD (fun (_ : nat) (x _ _ : R) => x) (bad_arena RD) 8
                  {| ex := 0; ey := 0; ez := 0; ev := fun _ => 3 |} = 3).
  { rewrite bad_val. unfold o_add. cbn [o_bin RD RD_bin]. lra. }
  split; [apply bad_arena_side|]. split; [apply bad_not_closed|].
  split; [exact E|]. split; [exact V|]. rewrite E, V. lra.
Qed.

(* ---------------------------------------------------------------- *)
(* e. derivatives of a transformed oracle                             *)

(* chain rule for a function of three arguments along a curve *)
Theorem chain_rule3 (u : R -> R -> R -> R) (X Y Z : R -> R) (t0 dX dY dZ g1 g2 g3 : R) :
  filterdiff (fun q : R * R * R => u (fst (fst q)) (snd (fst q)) (snd q))
             (locally (X t0, Y t0, Z t0))
             (fun d : R * R * R => g1 * fst (fst d) + g2 * snd (fst d) + g3 * snd d) ->
  is_derive X t0 dX -> is_derive Y t0 dY -> is_derive Z t0 dZ ->
  is_derive (fun t => u (X t) (Y t) (Z t)) t0 (g1 * dX + g2 * dY + g3 * dZ).
Proof.
  intros Hu HX HY HZ. unfold is_derive in *.
  assert (HXY : filterdiff (fun t : R => (X t, Y t)) (locally t0)
                           (fun y : R => (scal y dX, scal y dY))).
  { apply (filterdiff_comp'_2 X Y (fun p q : R => (p, q)) t0
                              (fun y => scal y dX) (fun y => scal y dY) (fun p q : R => (p, q)) HX HY).
    apply filterdiff_linear. apply is_linear_prod; [apply is_linear_fst | apply is_linear_snd]. }
  pose proof (filterdiff_comp'_2 (fun t : R => (X t, Y t)) Z
                (fun (p : R * R) (c : R) => u (fst p) (snd p) c) t0
                (fun y : R => (scal y dX, scal y dY)) (fun y => scal y dZ)
                (fun (p : R * R) (c : R) => g1 * fst p + g2 * snd p + g3 * c) HXY HZ Hu) as H.
  cbn [fst snd] in H.
  apply (filterdiff_ext_lin _ _ _ H).
  intros y. unfold scal; simpl; unfold mult; simpl. ring.
Qed.

(* TransformedOracle::evalDerivs multiplies the Jacobian of the coordinate maps (columns
   gX gY gZ = the gradients of the coordinate evaluators) with the underlying gradient *)
Lemma jac_mul_components (a1 a2 a3 b1 b2 b3 c1 c2 c3 g1 g2 g3 : R) :
  jac_mul RD (a1, a2, a3) (b1, b2, b3) (c1, c2, c3) (g1, g2, g3) =
  (g1 * a1 + g2 * b1 + g3 * c1, g1 * a2 + g2 * b2 + g3 * c2, g1 * a3 + g2 * b3 + g3 * c3).
Proof.
  unfold jac_mul, o_add, o_mul. cbn [o_bin RD RD_bin].
  f_equal; [f_equal|]; ring.
Qed.

(* the three partial derivatives of f at (x0, y0, z0) *)
Definition grad_at (f : R -> R -> R -> R) (x0 y0 z0 : R) (g : R * R * R) : Prop :=
  is_derive (fun t => f t y0 z0) x0 (fst (fst g)) /\
  is_derive (fun t => f x0 t z0) y0 (snd (fst g)) /\
  is_derive (fun t => f x0 y0 t) z0 (snd g).

Theorem oracle_gradient_correct (u X Y Z : R -> R -> R -> R) (x0 y0 z0 : R)
        (gX gY gZ gu : R * R * R) :
  filterdiff (fun q : R * R * R => u (fst (fst q)) (snd (fst q)) (snd q))
             (locally (X x0 y0 z0, Y x0 y0 z0, Z x0 y0 z0))
             (fun d : R * R * R =>
                fst (fst gu) * fst (fst d) + snd (fst gu) * snd (fst d) + snd gu * snd d) ->
  grad_at X x0 y0 z0 gX -> grad_at Y x0 y0 z0 gY -> grad_at Z x0 y0 z0 gZ ->
  grad_at (fun x y z => u (X x y z) (Y x y z) (Z x y z)) x0 y0 z0 (jac_mul RD gX gY gZ gu).
Proof.
  destruct gX as [[a1 a2] a3], gY as [[b1 b2] b3], gZ as [[c1 c2] c3], gu as [[g1 g2] g3].
  cbn [fst snd]. intros Hu (X1 & X2 & X3) (Y1 & Y2 & Y3) (Z1 & Z2 & Z3).
  cbn [fst snd] in *. rewrite jac_mul_components. unfold grad_at. cbn [fst snd].
  split; [|split].
  - apply (chain_rule3 u (fun t => X t y0 z0) (fun t => Y t y0 z0) (fun t => Z t y0 z0) x0);
      assumption.
  - apply (chain_rule3 u (fun t => X x0 t z0) (fun t => Y x0 t z0) (fun t => Z x0 t z0) y0);
      assumption.
  - apply (chain_rule3 u (fun t => X x0 y0 t) (fun t => Y x0 y0 t) (fun t => Z x0 y0 t) z0);
      assumption.
Qed.

(* [root < fuel] does not suffice for [evaluator_correct]: oracle = x + 1, nested five times *)
Theorem fuel_root_lt_insufficient :
  let osem := fun (_ : nat) (x _ _ : R) => x + 1 in
  (10 < 11)%nat /\ coords_closed 11 (deep_arena RD) 10 = true /\
  evaluator RD osem 11 (deep_arena RD) 10 (fun _ => 0) 0 0 0 = 5 /\
  evaluator RD osem 12 (deep_arena RD) 10 (fun _ => 0) 0 0 0 = 6 /\
  val RD osem (deep_arena RD) 10 {| ex := 0; ey := 0; ez := 0; ev := fun _ => 0 |} = 6.
Proof.
  cbv zeta. split; [lia|]. split; [apply deep_closed|].
  rewrite deep_evaluator_11, deep_evaluator_12, deep_val. cbn [o_zero RD].
  repeat split; lra.
Qed.
