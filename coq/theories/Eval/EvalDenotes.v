(* C01, whole pipeline: the value computed by the tape of Deck(Tree) — flatten,
   optimise, walk, deck layout, leaves-to-root evaluation — is the real-valued
   denotation of the expression the client built. *)
From Coq Require Import Reals List Arith Lia.
From LF Require Import Base.Opcode Base.Num Base.Arena Base.Sem Base.RInst
  Tree.Build Tree.BuildSem Tree.Flatten Tree.FlattenSem Tree.Optimize Tree.OptimizeSem Tree.OptimizePure
  Eval.Deck Eval.DeckSem Eval.DeckSemReach.

Section EvalDenotes.
  Variable uf : opcode -> R -> R.
  Variable bf : opcode -> R -> R -> R.
  Hypothesis pow_1 : forall x, bf OP_POW x 1%R = x.
  Hypothesis root_1 : forall x, bf OP_NTH_ROOT x 1%R = x.
  Variable osem : nat -> R -> R -> R -> R.
  Variable oracle_at : nat -> R -> R -> R -> R.
  Notation O := (R_ops uf bf).

  Lemma reach_conv (a : arena R) root m :
    DeckSemReach.reach a root m -> OptimizePure.reach a root m.
  Proof. induction 1; [constructor | econstructor; eauto]. Qed.

  (* [noT] quantifies over all ids <= i, [src_ok] only over reachable ones, so [src_ok] does not imply
     [noT]; [eval_denotes] below takes both. *)

  Theorem eval_denotes (a : arena R) i vars x y z :
    arena_wf a -> base_ok O a -> i < length a -> src_ok a i -> noT a i ->
    let '(a', j) := optimized O a i in
    let d := mk_deck a' j in
    tape_value O oracle_at d (d_tape d) (d_root d) vars x y z
    = val O osem a i {| ex := x; ey := y; ez := z; ev := vars |}.
  Proof.
    intros Hwf Hb Hi Hs HnoT.
    pose proof (optimized_reach_pure_full O a i Hwf Hb Hi Hs) as Hp.
    pose proof (optimized_sem_noT uf bf pow_1 root_1 osem a i Hwf Hb Hi HnoT) as Hv.
    destruct (optimized O a i) as [a' j].
    destruct Hp as (He & Hwf' & Hb' & Hj & Hpure).
    destruct Hv as (_ & _ & _ & Hval).
    cbv zeta.
    rewrite (deck_correct_reach O osem oracle_at a' j vars x y z Hwf' Hb' Hj).
    - apply Hval.
    - intros m Hm. apply Hpure. apply reach_conv. exact Hm.
  Qed.
End EvalDenotes.
