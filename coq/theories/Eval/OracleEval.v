(* C16: evaluation of trees that contain oracle nodes.

   After Tree::flatten an oracle under remaps is a TransformedOracleClause
   (arena node [NOracleT cx cy cz u]); Deck::Deck gives every oracle node an
   ORACLE clause and asks the clause for its Oracle object:

     OracleClause (user)            -> the user's oracle            [osem g x y z]
     TransformedOracleClause        -> TransformedOracle, which OWNS one Evaluator per
                                       coordinate tree (built with an EMPTY variable map:
                                       transformed_oracle.cpp constructs xEvaluator(X_)) and
                                       the underlying oracle; evalPoint evaluates the three
                                       coordinate evaluators at the point and hands the
                                       result to the underlying oracle.

   [evaluator] / [oracle_obj] are that recursive structure: an evaluator is a deck plus, for
   each ORACLE clause, the oracle object of that node; a transformed oracle is
   three (recursive) evaluators plus the underlying oracle object. *)
From Coq Require Import List Arith Bool Lia.
From LF Require Import Base.Opcode Base.Num Base.Arena Base.Sem Tree.Build Tree.Flatten Tree.Optimize Eval.Deck.
Import ListNotations.

Section OracleEval.
  Context {num : Type} (O : ops num).
  Notation node := (node num).
  Notation arena := (arena num).
  Variable osem : nat -> num -> num -> num -> num.   (* user oracle g at a point *)

  Definition vars0 : nat -> num := fun _ => o_zero O.

  (* [evaluator f a root vars x y z]: ArrayEvaluator(Tree root, vars).value({x,y,z});
     [oracle_obj f a id x y z]: getOracle() of the oracle node [id], then set + evalPoint *)
  Fixpoint evaluator (fuel : nat) (a : arena) (root : nat) (vars : nat -> num) (x y z : num) : num :=
    match fuel with
    | 0 => o_zero O
    | S f =>
        (* Deck::Deck(const Tree&) starts with root.optimized(): every evaluator built from a
           tree (the coordinate evaluators of a TransformedOracle included, whose trees may
           still hold lazy remap nodes) flattens and optimises it first *)
        let '(a1, r1) := optimized O a root in
        let d := mk_deck a1 r1 in
        let oracle_at := fun k px py pz =>
          match nth_error (d_oracles d) k with
          | Some (_, id) => oracle_obj f a1 id px py pz
          | None => o_zero O
          end in
        tape_value O oracle_at d (d_tape d) (d_root d) vars x y z
    end
  with oracle_obj (fuel : nat) (a : arena) (id : nat) (x y z : num) : num :=
    match fuel with
    | 0 => o_zero O
    | S f =>
        match getn a id with
        | NOracle g => osem g x y z
        | NOracleT cx cy cz u =>
            let tx := evaluator f a cx vars0 x y z in
            let ty := evaluator f a cy vars0 x y z in
            let tz := evaluator f a cz vars0 x y z in
            oracle_obj f a u tx ty tz
        | _ => o_zero O
        end
    end.

  (* TransformedOracle::evalDerivs: out = Jacobian * grad_u, the Jacobian's columns being the
     gradients of the three coordinate evaluators *)
  Definition vec3 := (num * num * num)%type.
  Definition jac_mul (gx gy gz : vec3) (gu : vec3) : vec3 :=
    let '(gxx, gxy, gxz) := gx in let '(gyx, gyy, gyz) := gy in let '(gzx, gzy, gzz) := gz in
    let '(u1, u2, u3) := gu in
    (o_add O (o_add O (o_mul O gxx u1) (o_mul O gyx u2)) (o_mul O gzx u3),
     o_add O (o_add O (o_mul O gxy u1) (o_mul O gyy u2)) (o_mul O gzy u3),
     o_add O (o_add O (o_mul O gxz u1) (o_mul O gyz u2)) (o_mul O gzz u3)).

  (* nodes walk() can reach: plain nodes and oracle leaves *)
  Definition evaluable_at (a : arena) (m : nat) : Prop :=
    match getn a m with
    | NConst _ | NNullary _ | NUnary _ _ | NBinary _ _ _ | NOracle _ | NOracleT _ _ _ _ => True
    | _ => False
    end.

  (* no free variable below [m] (through coordinate trees as well) *)
  Fixpoint var_free (fuel : nat) (a : arena) (m : nat) : bool :=
    match fuel with
    | 0 => false
    | S f =>
        match getn a m with
        | NConst _ => true
        | NNullary VAR_FREE => false
        | NNullary _ => true
        | NUnary _ x => var_free f a x
        | NBinary _ x y => var_free f a x && var_free f a y
        | NOracle _ => true
        | NOracleT cx cy cz u => var_free f a cx && var_free f a cy && var_free f a cz && var_free f a u
        | _ => false
        end
    end.

  (* the coordinate trees of every transformed oracle below [m] are variable-free *)
  Fixpoint coords_closed (fuel : nat) (a : arena) (m : nat) : bool :=
    match fuel with
    | 0 => false
    | S f =>
        match getn a m with
        | NUnary _ x => coords_closed f a x
        | NBinary _ x y => coords_closed f a x && coords_closed f a y
        | NOracleT cx cy cz u =>
            var_free f a cx && var_free f a cy && var_free f a cz &&
            coords_closed f a cx && coords_closed f a cy && coords_closed f a cz && coords_closed f a u
        | NConst _ | NNullary _ | NOracle _ => true
        | _ => false
        end
    end.
End OracleEval.
