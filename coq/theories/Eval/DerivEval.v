(* DerivArrayEvaluator::deriv at one point and JacobianEvaluator::gradient on a deck:
   value pass, then derivative pass with the kernels of Deriv.v. *)
From Coq Require Import List Arith Bool.
From LF Require Import Base.Opcode Base.Num Base.Arena Eval.Deck Eval.Deriv.
Import ListNotations.

Section DerivEval.
  Context {num : Type} (O : ops num).
  Variable oracle_at : nat -> num -> num -> num -> num.

  Definition dslots := list (dvec (num:=num)).
  Definition dget (d : dslots) (i : nat) : dvec := nth i d (dzero O).
  Definition dset (d : dslots) (i : nat) (x : dvec) : dslots := upd d i (fun _ => x).

  Definition dclause (clear_vars : bool) (v : slots) (d : dslots) (c : clause) : dslots :=
    match c_op c with
    | ORACLE => d
    | op => dset d (c_id c) (dkern O clear_vars op (sget O v (c_a c)) (sget O v (c_b c)) (sget O v (c_id c))
                                   (dget d (c_a c)) (dget d (c_b c)))
    end.

  Definition deriv_tape (clear_vars : bool) (tape : list clause) (v : slots) (d : dslots) : dslots :=
    fold_left (dclause clear_vars v) (rev tape) d.

  (* DerivArrayEvaluator constructor: all zero, unit seeds for X, Y, Z *)
  Definition seeds_xyz (dk : deck (num:=num)) : dslots :=
    let z := repeat (dzero O) (S (d_num dk)) in
    dset (dset (dset z (d_X dk) (o_one O, o_zero O, o_zero O))
                       (d_Y dk) (o_zero O, o_one O, o_zero O))
         (d_Z dk) (o_zero O, o_zero O, o_one O).

  (* deriv(pt): (value, gradient) at the root *)
  Definition deriv_at (dk : deck (num:=num)) (vars : nat -> num) (x y z : num) : num * dvec :=
    let v := eval_tape O oracle_at dk (d_tape dk) (set_point dk (init_slots O dk vars) x y z) in
    (sget O v (d_root dk), dget (deriv_tape false (d_tape dk) v (seeds_xyz dk)) (d_root dk)).

  (* gradient(pt) with respect to the variable stored in slot [vs]: seed 1 in the first
     component, everything else (X, Y, Z included) zero, CONST_VAR clears *)
  Definition var_partial (dk : deck (num:=num)) (vars : nat -> num) (x y z : num) (vs : nat) : num :=
    let v := eval_tape O oracle_at dk (d_tape dk) (set_point dk (init_slots O dk vars) x y z) in
    let seeds := dset (repeat (dzero O) (S (d_num dk))) vs (o_one O, o_zero O, o_zero O) in
    fst (fst (dget (deriv_tape true (d_tape dk) v seeds) (d_root dk))).
End DerivEval.
