(* libfive's Interval class (include/libfive/eval/interval.hpp) and the dispatch
   of IntervalEvaluator::operator() (eval_interval.cpp): every may-be-NaN flag
   formula and every case split exactly as written.  Boost's outward-rounded
   primitives are the fields of [bprims] (bounds only); the flag logic and the
   case analyses (atan2, mod, division by a zero-crossing divisor, atan's
   infinite-bound rescue, compare, nanfill, min/max NaN convention, state) are
   libfive's own and are what is modelled here.  Parametric in the number type:
   extracted with floats for the correspondence, instantiated with extended
   reals (XR.v) for the proofs. *)
From Coq Require Import List ZArith Bool.
From LF Require Import Base.Opcode.
Import ListNotations.

Section IntervalModel.
  Context {num : Type}.

  Record iops := {
    i_ltb : num -> num -> bool;      (* <  (false on NaN) *)
    i_leb : num -> num -> bool;      (* <= (false on NaN) *)
    i_eqb : num -> num -> bool;      (* == *)
    i_zero : num; i_one : num; i_mone : num;
    i_pinf : num; i_ninf : num;
    i_pi : num;                      (* float(M_PI) *)
    i_negpi : num;                   (* -float(M_PI) *)
    i_neghalfpi : num;               (* -M_PI/2 *)
    i_halfpi : num;                  (* M_PI/2 *)
    i_isnan : num -> bool;
    i_isfinite : num -> bool;
    i_trunc : num -> Z;              (* int(x) *)
    i_floor_int : num -> Z;          (* static_cast<int>(std::floor(x)) *)
    i_of_Z : Z -> num;               (* float(int) *)
    i_fmin : num -> num -> num;      (* fmin / fmax of <cmath> *)
    i_fmax : num -> num -> num;
    i_atan2 : num -> num -> num;     (* ::atan2 on corner values *)
  }.
  Variable I : iops.

  Definition bnd := (num * num)%type.          (* a Boost interval: lower, upper *)

  Record bprims := {
    b_add : bnd -> bnd -> bnd; b_sub : bnd -> bnd -> bnd;
    b_mul : bnd -> bnd -> bnd; b_div : bnd -> bnd -> bnd;
    b_min : bnd -> bnd -> bnd; b_max : bnd -> bnd -> bnd;
    b_hull : bnd -> bnd -> bnd;
    b_neg : bnd -> bnd; b_abs : bnd -> bnd; b_square : bnd -> bnd; b_sqrt : bnd -> bnd;
    b_sin : bnd -> bnd; b_cos : bnd -> bnd; b_tan : bnd -> bnd;
    b_asin : bnd -> bnd; b_acos : bnd -> bnd; b_atan : bnd -> bnd;
    b_exp : bnd -> bnd; b_log : bnd -> bnd;
    b_recip : bnd -> bnd;                        (* 1.0f / a.i *)
    b_pow : bnd -> Z -> bnd; b_nth_root : bnd -> Z -> bnd;
    b_scale : bnd -> num -> bnd;                 (* interval * scalar *)
    b_empty : bnd;
  }.
  Variable B : bprims.

  Record ival := { iv : bnd; nanf : bool }.
  Definition lower (a : ival) := fst (iv a).
  Definition upper (a : ival) := snd (iv a).

  Definition mk (lo hi : num) : ival :=
    {| iv := (lo, hi); nanf := i_isnan I lo || i_isnan I hi |}.

  Definition contains_zero (a : ival) : bool :=
    i_leb I (lower a) (i_zero I) && i_leb I (i_zero I) (upper a).   (* lower <= 0 && upper >= 0 *)

  Inductive state := EMPTY | FILLED | AMBIGUOUS.
  Definition is_filled (a : ival) := i_ltb I (upper a) (i_zero I).
  Definition is_empty (a : ival) := i_ltb I (i_zero I) (lower a).
  Definition state_of (a : ival) : state :=
    if nanf a then AMBIGUOUS
    else if is_empty a then EMPTY
    else if is_filled a then FILLED
    else AMBIGUOUS.

  Definition iadd (a b : ival) : ival :=
    {| iv := b_add B (iv a) (iv b);
       nanf := nanf a || nanf b
               || (i_eqb I (lower a) (i_ninf I) && i_eqb I (upper b) (i_pinf I))
               || (i_eqb I (lower b) (i_ninf I) && i_eqb I (upper a) (i_pinf I)) |}.

  Definition imul (a b : ival) : ival :=
    {| iv := b_mul B (iv a) (iv b);
       nanf := nanf a || nanf b
               || ((i_eqb I (lower a) (i_ninf I) || i_eqb I (upper a) (i_pinf I)) && contains_zero b)
               || ((i_eqb I (lower b) (i_ninf I) || i_eqb I (upper b) (i_pinf I)) && contains_zero a) |}.

  Definition isub (a b : ival) : ival :=
    {| iv := b_sub B (iv a) (iv b);
       nanf := nanf a || nanf b
               || (i_eqb I (lower a) (i_ninf I) && i_eqb I (lower b) (i_ninf I))
               || (i_eqb I (upper a) (i_pinf I) && i_eqb I (upper b) (i_pinf I)) |}.

  Definition idiv (a b : ival) : ival :=
    {| iv := if contains_zero b then (i_ninf I, i_pinf I) else b_div B (iv a) (iv b);
       nanf := nanf a || nanf b
               || ((i_eqb I (lower a) (i_ninf I) || i_eqb I (upper a) (i_pinf I))
                   && (i_eqb I (lower b) (i_ninf I) || i_eqb I (upper b) (i_pinf I)))
               || (contains_zero a && contains_zero b) |}.

  (* LIBFIVE_USES_STD_MIN_AND_MAX = true *)
  Definition imin (a b : ival) : ival :=
    let i := b_min B (iv a) (iv b) in
    {| iv := if nanf b then b_hull B i (iv a) else i; nanf := nanf a |}.
  Definition imax (a b : ival) : ival :=
    let i := b_max B (iv a) (iv b) in
    {| iv := if nanf b then b_hull B i (iv a) else i; nanf := nanf a |}.

  Definition iatan2 (y x : ival) : ival :=
    let u := nanf y || nanf x || (contains_zero x && contains_zero y) in
    let A := i_atan2 I in
    let pos v := i_ltb I (i_zero I) v in
    let neg v := i_ltb I v (i_zero I) in
    let b :=
      if pos (lower x) then
        if pos (lower y) then (A (lower y) (upper x), A (upper y) (lower x))
        else if neg (upper y) then (A (lower y) (lower x), A (upper y) (upper x))
        else (A (lower y) (lower x), A (upper y) (lower x))
      else if neg (upper x) then
        if pos (lower y) then (A (upper y) (upper x), A (lower y) (lower x))
        else if neg (upper y) then (A (upper y) (lower x), A (lower y) (upper x))
        else (i_negpi I, i_pi I)
      else
        if pos (lower y) then (A (lower y) (upper x), A (lower y) (lower x))
        else if neg (upper y) then (A (upper y) (lower x), A (upper y) (upper x))
        else (i_negpi I, i_pi I)
    in {| iv := b; nanf := u |}.

  (* glibc: pow(0.0f, -1.0f) = inf, pow(-1.0f, integer) is never NaN *)
  (* a NaN bound returned by a Boost primitive is widened to the infinity *)
  Definition sanitize (b : bnd) : bnd :=
    (if i_isnan I (fst b) then i_ninf I else fst b, if i_isnan I (snd b) then i_pinf I else snd b).

  Definition ipow (a b : ival) : ival :=
    let bpt := i_trunc I (lower b) in
    {| iv := if Z.ltb bpt 0 && contains_zero a then (i_ninf I, i_pinf I) else b_pow B (iv a) bpt;
       nanf := nanf a || nanf b || (contains_zero a && Z.eqb bpt 0) |}.

  Definition inth_root (a b : ival) : ival :=
    let bpt := i_trunc I (lower b) in
    {| iv := (let r := b_nth_root B (iv a) bpt in
              let lo := if i_isnan I (fst r) && i_eqb I (lower a) (i_ninf I) then i_ninf I else fst r in
              let hi := if i_isnan I (snd r) && i_eqb I (upper a) (i_pinf I) then i_pinf I else snd r in
              (* the rescued bounds replace Boost's only when BOTH are numbers (interval.hpp: `if (!isnan(lo) && !isnan(hi)) i = I(lo, hi)`) *)
              if negb (i_isnan I lo) && negb (i_isnan I hi) then (lo, hi) else r);
       nanf := nanf a || nanf b
               || (i_leb I (lower a) (i_zero I) && negb (Z.testbit bpt 0)) |}.   (* !(bPt & 1) *)

  Definition is_inf (x : num) := i_eqb I x (i_pinf I) || i_eqb I x (i_ninf I).

  Definition imod (a b : ival) : ival :=
    let out0 := (i_fmin I (lower b) (i_zero I), i_fmax I (i_zero I) (upper b)) in
    let bpos := i_leb I (i_zero I) (upper b) in       (* b.upper() >= 0 *)
    let bneg := i_leb I (lower b) (i_zero I) in       (* b.lower() <= 0 *)
    let refine (usedA : bnd) :=
      let absB := b_abs B (iv b) in
      let q := b_div B usedA absB in
      let qi := i_floor_int I (fst q) in
      if Z.eqb qi (i_floor_int I (snd q))
      then b_sub B (iv a) (b_scale B (iv b) (i_of_Z I qi))
      else out0 in
    let out :=
      if i_isfinite I (upper a) && i_isfinite I (lower a) then
        match bpos, bneg with
        | true, false => refine (iv a)                               (* position 1 *)
        | false, true => refine (b_scale B (iv a) (i_mone I))        (* position 2 *)
        | true, true => out0                                         (* position 3 *)
        | false, false => b_empty B                                  (* position 0 *)
        end
      else out0 in
    {| iv := out; nanf := nanf a || nanf b || is_inf (lower a) || is_inf (upper a)
               || is_inf (lower b) || is_inf (upper b) || (bpos && bneg) |}.

  Definition inanfill (a b : ival) : ival :=
    if nanf a then {| iv := b_hull B (iv a) (iv b); nanf := nanf b |}
    else {| iv := iv a; nanf := false |}.

  Definition icompare (a b : ival) : ival :=
    if nanf a || nanf b then {| iv := (i_mone I, i_one I); nanf := false |}
    else if i_ltb I (upper a) (lower b) then {| iv := (i_mone I, i_mone I); nanf := false |}
    else if i_ltb I (upper b) (lower a) then {| iv := (i_one I, i_one I); nanf := false |}
    else {| iv := (i_mone I, i_one I); nanf := false |}.

  Definition isquare (a : ival) := {| iv := b_square B (iv a); nanf := nanf a |}.
  Definition isqrt (a : ival) :=
    {| iv := b_sqrt B (iv a); nanf := nanf a || i_ltb I (lower a) (i_zero I) |}.
  Definition ineg (a : ival) := {| iv := b_neg B (iv a); nanf := nanf a |}.
  Definition isin (a : ival) :=
    {| iv := b_sin B (iv a); nanf := nanf a || is_inf (lower a) || is_inf (upper a) |}.
  Definition icos (a : ival) :=
    {| iv := b_cos B (iv a); nanf := nanf a || is_inf (lower a) || is_inf (upper a) |}.
  Definition itan (a : ival) :=
    {| iv := b_tan B (iv a); nanf := nanf a || is_inf (lower a) || is_inf (upper a) |}.
  Definition iasin (a : ival) :=
    {| iv := b_asin B (iv a);
       nanf := nanf a || i_ltb I (lower a) (i_mone I) || i_ltb I (i_one I) (upper a) |}.
  Definition iacos (a : ival) :=
    {| iv := b_acos B (iv a);
       nanf := nanf a || i_ltb I (lower a) (i_mone I) || i_ltb I (i_one I) (upper a) |}.
  Definition iatan (a : ival) :=
    {| iv := if is_inf (lower a) || is_inf (upper a) then (i_neghalfpi I, i_halfpi I)
             else b_atan B (iv a);
       nanf := nanf a |}.
  Definition iexp (a : ival) := {| iv := b_exp B (iv a); nanf := nanf a |}.
  Definition ilog (a : ival) :=
    {| iv := sanitize (b_log B (iv a)); nanf := nanf a || i_ltb I (lower a) (i_zero I) |}.
  Definition iabs (a : ival) := {| iv := b_abs B (iv a); nanf := nanf a |}.
  Definition irecip (a : ival) :=
    {| iv := if contains_zero a then (i_ninf I, i_pinf I) else b_recip B (iv a); nanf := nanf a |}.

  (* IntervalEvaluator::operator() *)
  Definition ieval_un (op : opcode) (a : ival) : ival :=
    match op with
    | OP_SQUARE => isquare a | OP_SQRT => isqrt a | OP_NEG => ineg a
    | OP_SIN => isin a | OP_COS => icos a | OP_TAN => itan a
    | OP_ASIN => iasin a | OP_ACOS => iacos a | OP_ATAN => iatan a
    | OP_EXP => iexp a | OP_LOG => ilog a | OP_ABS => iabs a | OP_RECIP => irecip a
    | CONST_VAR => a
    | _ => a
    end.
  Definition ieval_bin (op : opcode) (a b : ival) : ival :=
    match op with
    | OP_ADD => iadd a b | OP_MUL => imul a b | OP_MIN => imin a b | OP_MAX => imax a b
    | OP_SUB => isub a b | OP_DIV => idiv a b | OP_ATAN2 => iatan2 a b | OP_POW => ipow a b
    | OP_NTH_ROOT => inth_root a b | OP_MOD => imod a b | OP_NANFILL => inanfill a b
    | OP_COMPARE => icompare a b
    | _ => a
    end.

End IntervalModel.
