(* The operations of the C++ class Interval as the header states them (Gen/IntervalOps_gen.v, regenerated from
   include/libfive/eval/interval.hpp on every run by translate/gen_interval.py) ARE the operations of the hand-written
   model Interval/IntervalModel.v, for every number type, every [I : iops], every [B : bprims] and all operands.
   A flag formula that reads another bound, a swapped atan2 corner, a dropped disjunct, a case of mod's switch sent
   elsewhere changes the generated term and breaks the lemma of that operation.

   The proofs only unfold, compare by conversion, and otherwise split on the boolean atoms (comparisons, flags); no
   property of the primitives is used.

   (nth_root: the translator first showed that the model's independent replacement of the two rescued bounds is not
   what the header does - both or none; the model now states it as the header does.) *)
From Coq Require Import ZArith Bool.
From LF Require Import Interval.IntervalModel Gen.IntervalOps_gen.

Section Agree.
  Context {num : Type} (I : @iops num) (B : @bprims num).

  Ltac unf :=
    cbv beta iota zeta delta
      [g_is_filled g_is_empty g_state_of g_mk g_mk3 g_ctor g_ctor_norm
       g_iadd g_isub g_imul g_idiv g_imin g_imax g_iatan2 g_ipow g_inth_root g_imod g_inanfill g_icompare
       g_isquare g_isqrt g_ineg g_isin g_icos g_itan g_iasin g_iacos g_iatan g_iexp g_ilog g_iabs g_irecip
       libm_nan_on_zero_to_negative libm_pow_m1_is_nan
       is_filled is_empty state_of mk iadd isub imul idiv imin imax iatan2 ipow inth_root imod inanfill icompare
       isquare isqrt ineg isin icos itan iasin iacos iatan iexp ilog iabs irecip
       contains_zero is_inf sanitize lower upper].

  Ltac atom :=
    match goal with
    | |- context [nanf ?a] => destruct (nanf a)
    | |- context [i_ltb I ?x ?y] => destruct (i_ltb I x y)
    | |- context [i_leb I ?x ?y] => destruct (i_leb I x y)
    | |- context [i_eqb I ?x ?y] => destruct (i_eqb I x y)
    | |- context [i_isnan I ?x] => destruct (i_isnan I x)
    | |- context [i_isfinite I ?x] => destruct (i_isfinite I x)
    | |- context [Z.eqb ?x ?y] => destruct (Z.eqb x y)
    | |- context [Z.ltb ?x ?y] => destruct (Z.ltb x y)
    | |- context [Z.testbit ?x ?y] => destruct (Z.testbit x y)
    end.
  Ltac agree := intros; unf; solve [repeat (first [reflexivity | atom; cbn [orb andb negb]])].

  (* ---- accessors, state, constructors *)
  Lemma g_is_filled_eq a : g_is_filled I B a = is_filled I a.  Proof. agree. Qed.
  Lemma g_is_empty_eq a : g_is_empty I B a = is_empty I a.  Proof. agree. Qed.
  Lemma g_state_of_eq a : g_state_of I B a = state_of I a.  Proof. agree. Qed.
  Lemma g_mk_eq lo hi : g_mk I B lo hi = mk I lo hi.  Proof. agree. Qed.
  Lemma g_mk3_eq lo hi u : g_mk3 I B lo hi u = {| iv := (lo, hi); nanf := u |}.  Proof. agree. Qed.
  (* the protected constructor is the plain record on a bound that is not inverted *)
  Lemma g_ctor_plain i u : i_ltb I (snd i) (fst i) = false -> g_ctor I B i u = {| iv := i; nanf := u |}.
  Proof. intros H. unfold g_ctor, g_ctor_norm. rewrite H. reflexivity. Qed.

  (* ---- binary operations *)
  Lemma g_iadd_eq a b : g_iadd I B a b = iadd I B a b.  Proof. agree. Qed.
  Lemma g_isub_eq a b : g_isub I B a b = isub I B a b.  Proof. agree. Qed.
  Lemma g_imul_eq a b : g_imul I B a b = imul I B a b.  Proof. agree. Qed.
  Lemma g_idiv_eq a b : g_idiv I B a b = idiv I B a b.  Proof. agree. Qed.
  Lemma g_imin_eq a b : g_imin I B a b = imin B a b.  Proof. agree. Qed.
  Lemma g_imax_eq a b : g_imax I B a b = imax B a b.  Proof. agree. Qed.
  Lemma g_iatan2_eq y x : g_iatan2 I B y x = iatan2 I y x.  Proof. agree. Qed.
  (* uses the two recorded libm facts (Gen/IntervalOps_gen.v): both extra disjuncts of the C++ flag are false *)
  Lemma g_ipow_eq a b : g_ipow I B a b = ipow I B a b.  Proof. agree. Qed.
  Lemma g_imod_eq a b : g_imod I B a b = imod I B a b.  Proof. agree. Qed.
  Lemma g_inanfill_eq a b : g_inanfill I B a b = inanfill B a b.  Proof. agree. Qed.
  Lemma g_icompare_eq a b : g_icompare I B a b = icompare I a b.  Proof. agree. Qed.

  (* ---- unary operations *)
  Lemma g_isquare_eq a : g_isquare I B a = isquare B a.  Proof. agree. Qed.
  Lemma g_isqrt_eq a : g_isqrt I B a = isqrt I B a.  Proof. agree. Qed.
  Lemma g_ineg_eq a : g_ineg I B a = ineg B a.  Proof. agree. Qed.
  Lemma g_isin_eq a : g_isin I B a = isin I B a.  Proof. agree. Qed.
  Lemma g_icos_eq a : g_icos I B a = icos I B a.  Proof. agree. Qed.
  Lemma g_itan_eq a : g_itan I B a = itan I B a.  Proof. agree. Qed.
  Lemma g_iasin_eq a : g_iasin I B a = iasin I B a.  Proof. agree. Qed.
  Lemma g_iacos_eq a : g_iacos I B a = iacos I B a.  Proof. agree. Qed.
  Lemma g_iatan_eq a : g_iatan I B a = iatan I B a.  Proof. agree. Qed.
  Lemma g_iexp_eq a : g_iexp I B a = iexp B a.  Proof. agree. Qed.
  Lemma g_iabs_eq a : g_iabs I B a = iabs B a.  Proof. agree. Qed.
  Lemma g_irecip_eq a : g_irecip I B a = irecip I B a.  Proof. agree. Qed.
  (* the C++ rewrites the bounds only when one of them is NaN, the model always: the same pair *)
  Lemma g_ilog_eq a : g_ilog I B a = ilog I B a.
  Proof. unf. destruct (b_log B (iv a)) as [lo hi]. cbn [fst snd]. agree. Qed.

  (* nth_root: the model states the both-or-none replacement of the rescued bounds exactly as interval.hpp does
     (an earlier model replaced each bound independently; the translator exposed the difference on inputs with a NaN
     bound, e.g. a = [-inf, NaN]: the C++ keeps Boost's (NaN, NaN), that model said (-inf, NaN)) *)
  Lemma g_inth_root_eq a b : g_inth_root I B a b = inth_root I B a b.
  Proof. intros; unf. reflexivity. Qed.

  (* ---- summary: every operation of interval.hpp, as the source states it, is the model's *)
  Theorem interval_ops_from_source :
    (forall a, g_is_filled I B a = is_filled I a) /\
    (forall a, g_is_empty I B a = is_empty I a) /\
    (forall a, g_state_of I B a = state_of I a) /\
    (forall lo hi, g_mk I B lo hi = mk I lo hi) /\
    (forall a b, g_iadd I B a b = iadd I B a b) /\
    (forall a b, g_isub I B a b = isub I B a b) /\
    (forall a b, g_imul I B a b = imul I B a b) /\
    (forall a b, g_idiv I B a b = idiv I B a b) /\
    (forall a b, g_imin I B a b = imin B a b) /\
    (forall a b, g_imax I B a b = imax B a b) /\
    (forall y x, g_iatan2 I B y x = iatan2 I y x) /\
    (forall a b, g_ipow I B a b = ipow I B a b) /\
    (forall a b, g_inth_root I B a b = inth_root I B a b) /\
    (forall a b, g_imod I B a b = imod I B a b) /\
    (forall a b, g_inanfill I B a b = inanfill B a b) /\
    (forall a b, g_icompare I B a b = icompare I a b) /\
    (forall a, g_isquare I B a = isquare B a) /\
    (forall a, g_isqrt I B a = isqrt I B a) /\
    (forall a, g_ineg I B a = ineg B a) /\
    (forall a, g_isin I B a = isin I B a) /\
    (forall a, g_icos I B a = icos I B a) /\
    (forall a, g_itan I B a = itan I B a) /\
    (forall a, g_iasin I B a = iasin I B a) /\
    (forall a, g_iacos I B a = iacos I B a) /\
    (forall a, g_iatan I B a = iatan I B a) /\
    (forall a, g_iexp I B a = iexp B a) /\
    (forall a, g_ilog I B a = ilog I B a) /\
    (forall a, g_iabs I B a = iabs B a) /\
    (forall a, g_irecip I B a = irecip I B a).
  Proof.
    repeat apply conj.
    - apply g_is_filled_eq.  - apply g_is_empty_eq.  - apply g_state_of_eq.  - apply g_mk_eq.
    - apply g_iadd_eq.  - apply g_isub_eq.  - apply g_imul_eq.  - apply g_idiv_eq.  - apply g_imin_eq.
    - apply g_imax_eq.  - apply g_iatan2_eq.  - apply g_ipow_eq.  - apply g_inth_root_eq.
    - apply g_imod_eq.  - apply g_inanfill_eq.  - apply g_icompare_eq.
    - apply g_isquare_eq.  - apply g_isqrt_eq.  - apply g_ineg_eq.  - apply g_isin_eq.  - apply g_icos_eq.
    - apply g_itan_eq.  - apply g_iasin_eq.  - apply g_iacos_eq.  - apply g_iatan_eq.  - apply g_iexp_eq.
    - apply g_ilog_eq.  - apply g_iabs_eq.  - apply g_irecip_eq.
  Qed.
End Agree.

Print Assumptions interval_ops_from_source.
