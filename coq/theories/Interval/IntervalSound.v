(* Soundness of libfive's Interval layer (IntervalModel.v) against exact
   extended-real point semantics (XR.v).

   What is proved here is libfive's OWN layer: the may-be-NaN flag formulas and
   the case splits (division by zero-crossing divisors, atan2 quadrants, atan's
   rescue, min/max NaN convention, nanfill, compare, mod, state()).  Boost's
   outward-rounded primitives are assumed sound ([B_sound]).

   Membership:  x in A  :=  (x = NaN -> A.maybe_nan) /\ (x <> NaN -> lower <= x <= upper).
   For every opcode we prove FULL membership of the point result in the interval
   result ([*_mem]), from which the conditional form
       nanf (op A B) = false -> p x y <> NaN /\ In_iv (p x y) (op A B)
   follows ([*_sound]).  This file targets the REPAIRED interval.hpp (parity bit of
   nth_root, +inf-inf in operator-, mod/compare/recip/pow/sin/cos/tan fixes); the
   formulas before the repairs are re-defined locally as [old_*] with their
   counterexamples (including OP_MOD with an infinite DIVISOR bound, found here:
   [old_imod_refuted_infinite_divisor]).  No unsound flag formula remains; the side
   conditions that cannot be dropped are illustrated by
   [imod_refine_needs_finite_quotient] and [ipow_noninteger_exponent_unsound]. *)
From Coq Require Import Reals Lra ZArith Bool Lia List.
From LF Require Import Base.Opcode Interval.IntervalModel Interval.XR.
Import ListNotations.
Local Open Scope R_scope.

Notation XI := xr_iops.
Notation xival := (@ival xr).
Notation xbnd := (@bnd xr).

Definition inb (x : xr) (b : xbnd) : Prop :=
  xle (fst b) x = true /\ xle x (snd b) = true.

Definition In_iv (x : xr) (A : xival) : Prop :=
  (x = NaN -> nanf A = true) /\
  (x <> NaN -> xle (lower A) x = true /\ xle x (upper A) = true).

Ltac xi_norm :=
  change (i_eqb XI) with xeq in *; change (i_leb XI) with xle in *;
  change (i_ltb XI) with xlt in *; change (i_zero XI) with (Fin 0) in *;
  change (i_one XI) with (Fin 1) in *; change (i_mone XI) with (Fin (-1)) in *;
  change (i_pinf XI) with PInf in *; change (i_ninf XI) with NInf in *;
  change (i_isnan XI) with xisnan in *; change (i_isfinite XI) with xisfinite in *.
Ltac bsolve :=
  repeat match goal with
  | H : _ || _ = true |- _ => apply orb_true_iff in H
  | H : _ && _ = true |- _ => apply andb_true_iff in H
  end;
  repeat (rewrite orb_true_iff || rewrite andb_true_iff); tauto.

(* ------------------------------------------------------------------ *)
(* Generic membership facts                                            *)
Lemma inb_not_nan x b : inb x b -> x <> NaN.
Proof. intros [H _]. apply xle_not_nan in H. tauto. Qed.
Lemma inb_whole v : v <> NaN -> inb v (NInf, PInf).
Proof. intros; split; simpl; [apply xle_NInf_l | apply xle_PInf_r]; auto. Qed.
Lemma inb_point v : v <> NaN -> inb v (v, v).
Proof. intros; split; simpl; apply xle_refl; auto. Qed.
Lemma inb_eq v c : inb v (c, c) -> v = c.
Proof. intros [H1 H2]; simpl in *. apply xle_antisym; auto. Qed.

Lemma inb_sanitize v b : inb v b -> inb v (sanitize XI b).
Proof.
  intros [H1 H2]. destruct (xle_not_nan _ _ H1) as [N1 _]. destruct (xle_not_nan _ _ H2) as [_ N2].
  unfold sanitize, inb; simpl. destruct (fst b), (snd b); simpl; auto; congruence.
Qed.

Lemma inb_widen v (r : xbnd) c1 c2 : inb v r ->
  inb v (if xisnan (fst r) && c1 then NInf else fst r, if xisnan (snd r) && c2 then PInf else snd r).
Proof.
  intros [H1 H2]. destruct (xle_not_nan _ _ H1) as [N1 _]. destruct (xle_not_nan _ _ H2) as [_ N2].
  unfold inb; simpl. destruct (fst r), (snd r); simpl; auto; congruence.
Qed.

Lemma In_iv_nan A : In_iv NaN A -> nanf A = true.
Proof. intros [H _]; auto. Qed.
Lemma In_iv_inb x A : In_iv x A -> x <> NaN -> inb x (iv A).
Proof. intros [_ H] Hn; exact (H Hn). Qed.
Lemma In_iv_notnan x A : In_iv x A -> nanf A = false -> x <> NaN.
Proof. intros [H _] Hf ->. rewrite H in Hf; auto; discriminate. Qed.
Lemma mem_intro x (R : xival) :
  (x = NaN -> nanf R = true) -> (x <> NaN -> inb x (iv R)) -> In_iv x R.
Proof. intros H1 H2; split; auto. Qed.
Lemma sound_of_mem v (R : xival) : In_iv v R -> nanf R = false -> v <> NaN /\ In_iv v R.
Proof. intros H Hf; split; auto. eapply In_iv_notnan; eauto. Qed.

Lemma In_iv_PInf A : In_iv PInf A -> xeq (upper A) PInf = true.
Proof.
  intros H. destruct (In_iv_inb _ _ H) as [_ H2]; [discriminate|].
  apply xle_PInf_l in H2. unfold upper. rewrite H2. reflexivity.
Qed.
Lemma In_iv_NInf A : In_iv NInf A -> xeq (lower A) NInf = true.
Proof.
  intros H. destruct (In_iv_inb _ _ H) as [H1 _]; [discriminate|].
  apply xle_NInf_r in H1. unfold lower. rewrite H1. reflexivity.
Qed.
Lemma In_iv_inf x A : In_iv x A -> xinf x ->
  xeq (lower A) NInf || xeq (upper A) PInf = true.
Proof.
  intros H [->| ->].
  - rewrite (In_iv_PInf _ H). apply orb_true_r.
  - rewrite (In_iv_NInf _ H). reflexivity.
Qed.
Lemma In_iv_is_inf x A : In_iv x A -> xinf x ->
  is_inf XI (lower A) || is_inf XI (upper A) = true.
Proof.
  intros H [->| ->]; unfold is_inf; simpl.
  - rewrite (In_iv_PInf _ H). simpl. apply orb_true_r.
  - rewrite (In_iv_NInf _ H). rewrite orb_true_r. reflexivity.
Qed.
Lemma In_iv_zero A : In_iv (Fin 0) A -> contains_zero XI A = true.
Proof.
  intros H. destruct (In_iv_inb _ _ H) as [H1 H2]; [discriminate|].
  unfold inb in *. unfold contains_zero, lower, upper.
  change (i_leb XI) with xle. change (i_zero XI) with (Fin 0).
  rewrite H1, H2. reflexivity.
Qed.
Lemma contains_zero_false_inb A : contains_zero XI A = false -> ~ inb (Fin 0) (iv A).
Proof.
  unfold contains_zero, lower, upper.
  change (i_leb XI) with xle. change (i_zero XI) with (Fin 0).
  intros H [H1 H2]. rewrite H1, H2 in H. discriminate.
Qed.
Lemma In_iv_finite x A :
  In_iv x A -> x <> NaN -> xisfinite (lower A) = true -> xisfinite (upper A) = true ->
  exists r, x = Fin r.
Proof.
  intros H Hn Hl Hu. destruct (In_iv_inb _ _ H Hn) as [H1 H2].
  exact (between_finite _ _ _ Hl Hu H1 H2).
Qed.

(* ================================================================== *)
Section Sound.
  Variable B : @bprims xr.
  Variable p_un : opcode -> xr -> xr.
  Variable p_bin : opcode -> xr -> xr -> xr.

  (* ---------------------------------------------------------------- *)
  (* Point semantics: what ArrayEvaluator::operator() computes, exactly. *)
  (* concrete (rounding-free IEEE) *)
  Hypothesis pu_square : forall x, p_un OP_SQUARE x = xsquare x.
  Hypothesis pu_sqrt : forall x, p_un OP_SQRT x = xsqrt x.
  Hypothesis pu_neg : forall x, p_un OP_NEG x = xneg x.
  Hypothesis pu_abs : forall x, p_un OP_ABS x = xabs x.
  Hypothesis pu_recip : forall x, p_un OP_RECIP x = xrecip x.
  Hypothesis pu_const_var : forall x, p_un CONST_VAR x = x.
  Hypothesis pb_add : forall x y, p_bin OP_ADD x y = xadd x y.
  Hypothesis pb_sub : forall x y, p_bin OP_SUB x y = xsub x y.
  Hypothesis pb_mul : forall x y, p_bin OP_MUL x y = xmul x y.
  Hypothesis pb_div : forall x y, p_bin OP_DIV x y = xdiv x y.
  Hypothesis pb_min : forall x y, p_bin OP_MIN x y = xmin_std x y.   (* Eigen cwiseMin = std::min *)
  Hypothesis pb_max : forall x y, p_bin OP_MAX x y = xmax_std x y.
  Hypothesis pb_nanfill : forall x y, p_bin OP_NANFILL x y = xnanfill x y.
  Hypothesis pb_compare : forall x y, p_bin OP_COMPARE x y = xcompare x y.
  Hypothesis pb_mod : forall x y, p_bin OP_MOD x y = xmod x y.       (* the kernel's loop, XR.xmod *)
  Hypothesis pb_atan2 : forall y x, p_bin OP_ATAN2 y x = xatan2 y x.
  (* transcendental: only the NaN behaviour (and atan's range) is needed *)
  Hypothesis pu_sin_nan : forall x, p_un OP_SIN x = NaN <-> x = NaN \/ xinf x.
  Hypothesis pu_cos_nan : forall x, p_un OP_COS x = NaN <-> x = NaN \/ xinf x.
  Hypothesis pu_tan_nan : forall x, p_un OP_TAN x = NaN <-> x = NaN \/ xinf x.
  Hypothesis pu_asin_nan : forall x, p_un OP_ASIN x = NaN <->
      x = NaN \/ xlt x (Fin (-1)) = true \/ xlt (Fin 1) x = true.
  Hypothesis pu_acos_nan : forall x, p_un OP_ACOS x = NaN <->
      x = NaN \/ xlt x (Fin (-1)) = true \/ xlt (Fin 1) x = true.
  Hypothesis pu_atan_nan : forall x, p_un OP_ATAN x = NaN <-> x = NaN.
  Hypothesis pu_atan_range : forall x, x <> NaN ->
      xle (Fin (- (PI / 2))) (p_un OP_ATAN x) = true /\ xle (p_un OP_ATAN x) (Fin (PI / 2)) = true.
  Hypothesis pu_exp_nan : forall x, p_un OP_EXP x = NaN <-> x = NaN.
  Hypothesis pu_log_nan : forall x, p_un OP_LOG x = NaN <-> x = NaN \/ xlt x (Fin 0) = true.
  (* pow with an integer exponent: never NaN on a non-NaN base
     (libm: pow(0,0)=1, pow(0,-1)=inf, pow(-1,n) fine) *)
  Hypothesis pb_pow_notnan : forall x n, x <> NaN -> p_bin OP_POW x (Fin (IZR n)) <> NaN.
  (* NaN base gives NaN.  (libm has pow(NaN,0)=1; that single case is harmless for
     libfive -- Boost's pow(_,0) is [1,1] -- but is outside this hypothesis; it is
     used ONLY for the full-membership lemma [ipow_mem], not for [ipow_sound].) *)
  Hypothesis pb_pow_nan_l : forall y, p_bin OP_POW NaN y = NaN.
  (* nth_root: for x<0 the kernel calls Boost's nth_root on the point interval:
     NaN for even n, -(-x)^(1/n) for odd n *)
  Hypothesis pb_nth_root_nan : forall x n, p_bin OP_NTH_ROOT x (Fin (IZR n)) = NaN <->
      x = NaN \/ (xlt x (Fin 0) = true /\ Z.even n = true).
  (* atan2's monotonicity per quadrant is PROVED for XR.xatan2 (XR.xatan2_props) *)
  Let Hat2 : atan2_props xatan2 := xatan2_props.

  (* ---------------------------------------------------------------- *)
  (* Boost primitives: containment of non-NaN exact results.           *)
  Record B_sound : Prop := {
    bs_add : forall a b x y, inb x a -> inb y b -> xadd x y <> NaN -> inb (xadd x y) (b_add B a b);
    bs_sub : forall a b x y, inb x a -> inb y b -> xsub x y <> NaN -> inb (xsub x y) (b_sub B a b);
    bs_mul : forall a b x y, inb x a -> inb y b -> xmul x y <> NaN -> inb (xmul x y) (b_mul B a b);
    (* Boost's division is only trusted when the divisor does not contain 0
       (libfive's own comment: 0.1/[-0.32,0] = [-inf,-0.32] misses +inf) *)
    bs_div : forall a b x y, inb x a -> inb y b -> ~ inb (Fin 0) b -> xdiv x y <> NaN ->
             inb (xdiv x y) (b_div B a b);
    bs_min : forall a b x y, inb x a -> inb y b -> inb (xmin_std x y) (b_min B a b);
    bs_max : forall a b x y, inb x a -> inb y b -> inb (xmax_std x y) (b_max B a b);
    bs_hull_l : forall a b x, inb x a -> inb x (b_hull B a b);
    bs_hull_r : forall a b x, inb x b -> inb x (b_hull B a b);
    bs_neg : forall a x, inb x a -> inb (xneg x) (b_neg B a);
    bs_abs : forall a x, inb x a -> inb (xabs x) (b_abs B a);
    bs_abs_nz : forall a, ~ inb (Fin 0) a -> ~ inb (Fin 0) (b_abs B a);
    bs_square : forall a x, inb x a -> inb (xsquare x) (b_square B a);
    bs_sqrt : forall a x, inb x a -> xsqrt x <> NaN -> inb (xsqrt x) (b_sqrt B a);
    bs_sin : forall a x, inb x a -> p_un OP_SIN x <> NaN -> inb (p_un OP_SIN x) (b_sin B a);
    bs_cos : forall a x, inb x a -> p_un OP_COS x <> NaN -> inb (p_un OP_COS x) (b_cos B a);
    bs_tan : forall a x, inb x a -> p_un OP_TAN x <> NaN -> inb (p_un OP_TAN x) (b_tan B a);
    bs_asin : forall a x, inb x a -> p_un OP_ASIN x <> NaN -> inb (p_un OP_ASIN x) (b_asin B a);
    bs_acos : forall a x, inb x a -> p_un OP_ACOS x <> NaN -> inb (p_un OP_ACOS x) (b_acos B a);
    bs_atan : forall a x, inb x a -> p_un OP_ATAN x <> NaN -> inb (p_un OP_ATAN x) (b_atan B a);
    bs_exp : forall a x, inb x a -> p_un OP_EXP x <> NaN -> inb (p_un OP_EXP x) (b_exp B a);
    bs_log : forall a x, inb x a -> p_un OP_LOG x <> NaN -> inb (p_un OP_LOG x) (b_log B a);
    (* 1.0f / a.i : again only when 0 is not in a *)
    bs_recip : forall a x, inb x a -> ~ inb (Fin 0) a -> inb (xrecip x) (b_recip B a);
    (* pow(a,n) for n<0 is multiplicative_inverse(pow(a,-n)): same restriction *)
    bs_pow : forall a n x, inb x a -> ((0 <= n)%Z \/ ~ inb (Fin 0) a) ->
             p_bin OP_POW x (Fin (IZR n)) <> NaN ->
             inb (p_bin OP_POW x (Fin (IZR n))) (b_pow B a n);
    bs_nth_root : forall a n x, inb x a -> p_bin OP_NTH_ROOT x (Fin (IZR n)) <> NaN ->
             inb (p_bin OP_NTH_ROOT x (Fin (IZR n))) (b_nth_root B a n);
    bs_scale : forall a s x, inb x a -> xmul x s <> NaN -> inb (xmul x s) (b_scale B a s);
  }.
  Hypothesis BS : B_sound.

  (* ================================================================ *)
  (* Binary arithmetic                                                 *)
  Theorem iadd_mem x y A B' :
    In_iv x A -> In_iv y B' -> In_iv (xadd x y) (iadd XI B A B').
  Proof.
    intros HA HB. apply mem_intro.
    - intros Hn. apply (proj1 (xadd_nan _ _)) in Hn. simpl.
      destruct Hn as [->|[->|[[-> ->]|[-> ->]]]].
      + rewrite (In_iv_nan _ HA). reflexivity.
      + rewrite (In_iv_nan _ HB). bsolve.
      + pose proof (In_iv_PInf _ HA). pose proof (In_iv_NInf _ HB). bsolve.
      + pose proof (In_iv_NInf _ HA). pose proof (In_iv_PInf _ HB). bsolve.
    - intros Hn. simpl.
      assert (x <> NaN /\ y <> NaN) as [Hx Hy].
      { split; intros ->; apply Hn; apply xadd_nan; auto. }
      apply (bs_add BS); auto using In_iv_inb.
  Qed.

  Theorem isub_mem x y A B' :
    In_iv x A -> In_iv y B' -> In_iv (xsub x y) (isub XI B A B').
  Proof.
    intros HA HB. apply mem_intro.
    - intros Hn. apply (proj1 (xsub_nan _ _)) in Hn. simpl.
      destruct Hn as [->|[->|[[-> ->]|[-> ->]]]].
      + rewrite (In_iv_nan _ HA). reflexivity.
      + rewrite (In_iv_nan _ HB). bsolve.
      + pose proof (In_iv_PInf _ HA). pose proof (In_iv_PInf _ HB). bsolve.
      + pose proof (In_iv_NInf _ HA). pose proof (In_iv_NInf _ HB). bsolve.
    - intros Hn. simpl.
      assert (x <> NaN /\ y <> NaN) as [Hx Hy].
      { split; intros ->; apply Hn; apply xsub_nan; auto. }
      apply (bs_sub BS); auto using In_iv_inb.
  Qed.

  Theorem imul_mem x y A B' :
    In_iv x A -> In_iv y B' -> In_iv (xmul x y) (imul XI B A B').
  Proof.
    intros HA HB. apply mem_intro.
    - intros Hn. apply (proj1 (xmul_nan _ _)) in Hn. unfold imul; cbn [nanf]; xi_norm.
      destruct Hn as [->|[->|[[Hi ->]|[-> Hi]]]].
      + rewrite (In_iv_nan _ HA). reflexivity.
      + rewrite (In_iv_nan _ HB). bsolve.
      + pose proof (In_iv_inf _ _ HA Hi). pose proof (In_iv_zero _ HB). bsolve.
      + pose proof (In_iv_inf _ _ HB Hi). pose proof (In_iv_zero _ HA). bsolve.
    - intros Hn. simpl.
      assert (x <> NaN /\ y <> NaN) as [Hx Hy].
      { split; intros ->; apply Hn; apply xmul_nan; auto. }
      apply (bs_mul BS); auto using In_iv_inb.
  Qed.

  Theorem idiv_mem x y A B' :
    In_iv x A -> In_iv y B' -> In_iv (xdiv x y) (idiv XI B A B').
  Proof.
    intros HA HB. apply mem_intro.
    - intros Hn. apply (proj1 (xdiv_nan _ _)) in Hn. unfold idiv; cbn [nanf]; xi_norm.
      destruct Hn as [->|[->|[[Hi Hj]|[-> ->]]]].
      + rewrite (In_iv_nan _ HA). reflexivity.
      + rewrite (In_iv_nan _ HB). bsolve.
      + pose proof (In_iv_inf _ _ HA Hi). pose proof (In_iv_inf _ _ HB Hj). bsolve.
      + pose proof (In_iv_zero _ HA). pose proof (In_iv_zero _ HB). bsolve.
    - intros Hn. unfold idiv; cbn [iv].
      assert (x <> NaN /\ y <> NaN) as [Hx Hy].
      { split; intros ->; apply Hn; apply xdiv_nan; auto. }
      destruct (contains_zero XI B') eqn:E.
      + apply inb_whole; auto.
      + apply (bs_div BS); auto using In_iv_inb, contains_zero_false_inb.
  Qed.

  (* std::min / std::max convention: NaN iff the FIRST argument is NaN;
     a NaN second argument returns the first. *)
  Theorem imin_mem x y A B' :
    In_iv x A -> In_iv y B' -> In_iv (xmin_std x y) (imin B A B').
  Proof.
    intros HA HB. apply mem_intro.
    - intros Hn. apply (proj1 (xmin_std_nan _ _)) in Hn. subst. simpl. apply (In_iv_nan _ HA).
    - intros Hn. assert (Hx : x <> NaN) by (intros ->; apply Hn; apply xmin_std_nan; auto).
      pose proof (In_iv_inb _ _ HA Hx) as Ia. simpl.
      destruct y as [r| | |] eqn:Ey.
      4:{ (* y = NaN : result is x, and b is flagged, so a's range was hulled in *)
          rewrite (In_iv_nan _ HB). unfold xmin_std. rewrite xlt_nan_l.
          apply (bs_hull_r BS); auto. }
      all: rewrite <- Ey in *;
        assert (Hy : y <> NaN) by (rewrite Ey; discriminate);
        pose proof (bs_min BS _ _ _ _ Ia (In_iv_inb _ _ HB Hy));
        destruct (nanf B'); auto; apply (bs_hull_l BS); auto.
  Qed.

  Theorem imax_mem x y A B' :
    In_iv x A -> In_iv y B' -> In_iv (xmax_std x y) (imax B A B').
  Proof.
    intros HA HB. apply mem_intro.
    - intros Hn. apply (proj1 (xmax_std_nan _ _)) in Hn. subst. simpl. apply (In_iv_nan _ HA).
    - intros Hn. assert (Hx : x <> NaN) by (intros ->; apply Hn; apply xmax_std_nan; auto).
      pose proof (In_iv_inb _ _ HA Hx) as Ia. simpl.
      destruct y as [r| | |] eqn:Ey.
      4:{ rewrite (In_iv_nan _ HB). unfold xmax_std. rewrite xlt_nan_r.
          apply (bs_hull_r BS); auto. }
      all: rewrite <- Ey in *;
        assert (Hy : y <> NaN) by (rewrite Ey; discriminate);
        pose proof (bs_max BS _ _ _ _ Ia (In_iv_inb _ _ HB Hy));
        destruct (nanf B'); auto; apply (bs_hull_l BS); auto.
  Qed.

  Theorem inanfill_mem x y A B' :
    In_iv x A -> In_iv y B' -> In_iv (xnanfill x y) (inanfill B A B').
  Proof.
    intros HA HB. unfold inanfill. destruct (nanf A) eqn:EA.
    - destruct x as [r| | |] eqn:Ex.
      4:{ simpl. apply mem_intro; simpl.
          - intros ->. apply (In_iv_nan _ HB).
          - intros Hy. apply (bs_hull_r BS). apply In_iv_inb; auto. }
      all: simpl; apply mem_intro; simpl; [discriminate|intros _];
        apply (bs_hull_l BS); apply In_iv_inb; auto; discriminate.
    - assert (Hx : x <> NaN) by (eapply In_iv_notnan; eauto).
      replace (xnanfill x y) with x by (destruct x; auto; congruence).
      apply mem_intro; simpl; [congruence|intros _]. apply In_iv_inb; auto.
  Qed.

  (* compare: -1 / 0 / 1, and 0 on unordered (NaN) operands *)
  Theorem icompare_mem x y A B' :
    In_iv x A -> In_iv y B' -> In_iv (xcompare x y) (icompare XI A B').
  Proof.
    intros HA HB.
    assert (Hwide : inb (xcompare x y) (Fin (-1), Fin 1)).
    { destruct (xcompare_cases x y) as [->|[->| ->]]; split; simpl; apply Rleb_true; lra. }
    unfold icompare. destruct (nanf A || nanf B') eqn:EN.
    - apply mem_intro; simpl; auto. intros Hn; destruct (xcompare_not_nan _ _ Hn).
    - apply orb_false_iff in EN. destruct EN as [EA EB].
      assert (Hx : x <> NaN) by (eapply In_iv_notnan; eauto).
      assert (Hy : y <> NaN) by (eapply In_iv_notnan; eauto).
      destruct (In_iv_inb _ _ HA Hx) as [Ax1 Ax2].
      destruct (In_iv_inb _ _ HB Hy) as [By1 By2].
      simpl. unfold lower, upper.
      destruct (xlt (snd (iv A)) (fst (iv B'))) eqn:E1.
      + apply mem_intro; simpl; [intros Hn; destruct (xcompare_not_nan _ _ Hn)|intros _].
        rewrite xcompare_lt.
        * apply inb_point; discriminate.
        * eapply xle_lt_trans; [exact Ax2|]. eapply xlt_le_trans; eauto.
      + destruct (xlt (snd (iv B')) (fst (iv A))) eqn:E2.
        * apply mem_intro; simpl; [intros Hn; destruct (xcompare_not_nan _ _ Hn)|intros _].
          rewrite xcompare_gt.
          -- apply inb_point; discriminate.
          -- eapply xle_lt_trans; [exact By2|]. eapply xlt_le_trans; eauto.
        * apply mem_intro; simpl; auto. intros Hn; destruct (xcompare_not_nan _ _ Hn).
  Qed.


  (* ================================================================ *)
  (* Unary                                                             *)
  Theorem isquare_mem x A : In_iv x A -> In_iv (xsquare x) (isquare B A).
  Proof.
    intros HA. apply mem_intro; simpl.
    - intros Hn. apply (proj1 (xsquare_nan _)) in Hn. subst. apply (In_iv_nan _ HA).
    - intros Hn. assert (x <> NaN) by (intros ->; apply Hn; reflexivity).
      apply (bs_square BS). apply In_iv_inb; auto.
  Qed.

  Theorem ineg_mem x A : In_iv x A -> In_iv (xneg x) (ineg B A).
  Proof.
    intros HA. apply mem_intro; simpl.
    - intros Hn. apply (proj1 (xneg_nan _)) in Hn. subst. apply (In_iv_nan _ HA).
    - intros Hn. assert (x <> NaN) by (intros ->; apply Hn; reflexivity).
      apply (bs_neg BS). apply In_iv_inb; auto.
  Qed.

  Theorem iabs_mem x A : In_iv x A -> In_iv (xabs x) (iabs B A).
  Proof.
    intros HA. apply mem_intro; simpl.
    - intros Hn. apply (proj1 (xabs_nan _)) in Hn. subst. apply (In_iv_nan _ HA).
    - intros Hn. assert (x <> NaN) by (intros ->; apply Hn; reflexivity).
      apply (bs_abs BS). apply In_iv_inb; auto.
  Qed.

  Lemma below_lower x A c :
    In_iv x A -> xlt x c = true -> xlt (lower A) c = true.
  Proof.
    intros HA Hlt. destruct (xlt_not_nan _ _ Hlt) as [Hx _].
    destruct (In_iv_inb _ _ HA Hx) as [H1 _]. eapply xle_lt_trans; eauto.
  Qed.
  Lemma above_upper x A c :
    In_iv x A -> xlt c x = true -> xlt c (upper A) = true.
  Proof.
    intros HA Hlt. destruct (xlt_not_nan _ _ Hlt) as [_ Hx].
    destruct (In_iv_inb _ _ HA Hx) as [_ H2]. eapply xlt_le_trans; eauto.
  Qed.

  Theorem isqrt_mem x A : In_iv x A -> In_iv (xsqrt x) (isqrt XI B A).
  Proof.
    intros HA. apply mem_intro; unfold isqrt; cbn [nanf iv]; xi_norm.
    - intros Hn. apply (proj1 (xsqrt_nan _)) in Hn. destruct Hn as [->|Hlt].
      + rewrite (In_iv_nan _ HA). reflexivity.
      + rewrite (below_lower _ _ _ HA Hlt). apply orb_true_r.
    - intros Hn. assert (x <> NaN) by (intros ->; apply Hn; reflexivity).
      apply (bs_sqrt BS); auto. apply In_iv_inb; auto.
  Qed.

  Theorem ilog_mem x A : In_iv x A -> In_iv (p_un OP_LOG x) (ilog XI B A).
  Proof.
    intros HA. apply mem_intro; unfold ilog; cbn [nanf iv]; xi_norm.
    - intros Hn. apply (proj1 (pu_log_nan _)) in Hn. destruct Hn as [->|Hlt].
      + rewrite (In_iv_nan _ HA). reflexivity.
      + rewrite (below_lower _ _ _ HA Hlt). apply orb_true_r.
    - intros Hn. assert (x <> NaN) by (intros ->; apply Hn; apply pu_log_nan; auto).
      apply inb_sanitize. apply (bs_log BS); auto. apply In_iv_inb; auto.
  Qed.

  Theorem iexp_mem x A : In_iv x A -> In_iv (p_un OP_EXP x) (iexp B A).
  Proof.
    intros HA. apply mem_intro; simpl.
    - intros Hn. apply (proj1 (pu_exp_nan _)) in Hn. subst. apply (In_iv_nan _ HA).
    - intros Hn. assert (x <> NaN) by (intros ->; apply Hn; apply pu_exp_nan; auto).
      apply (bs_exp BS); auto. apply In_iv_inb; auto.
  Qed.

  Theorem iasin_mem x A : In_iv x A -> In_iv (p_un OP_ASIN x) (iasin XI B A).
  Proof.
    intros HA. apply mem_intro; unfold iasin; cbn [nanf iv]; xi_norm.
    - intros Hn. apply (proj1 (pu_asin_nan _)) in Hn. destruct Hn as [->|[Hlt|Hlt]].
      + rewrite (In_iv_nan _ HA). reflexivity.
      + rewrite (below_lower _ _ _ HA Hlt). bsolve.
      + rewrite (above_upper _ _ _ HA Hlt). bsolve.
    - intros Hn. assert (x <> NaN) by (intros ->; apply Hn; apply pu_asin_nan; auto).
      apply (bs_asin BS); auto. apply In_iv_inb; auto.
  Qed.

  Theorem iacos_mem x A : In_iv x A -> In_iv (p_un OP_ACOS x) (iacos XI B A).
  Proof.
    intros HA. apply mem_intro; unfold iacos; cbn [nanf iv]; xi_norm.
    - intros Hn. apply (proj1 (pu_acos_nan _)) in Hn. destruct Hn as [->|[Hlt|Hlt]].
      + rewrite (In_iv_nan _ HA). reflexivity.
      + rewrite (below_lower _ _ _ HA Hlt). bsolve.
      + rewrite (above_upper _ _ _ HA Hlt). bsolve.
    - intros Hn. assert (x <> NaN) by (intros ->; apply Hn; apply pu_acos_nan; auto).
      apply (bs_acos BS); auto. apply In_iv_inb; auto.
  Qed.

  (* atan, including the whole-range rescue for infinite bounds *)
  Theorem iatan_mem x A : In_iv x A -> In_iv (p_un OP_ATAN x) (iatan XI B A).
  Proof.
    intros HA. apply mem_intro; unfold iatan; cbn [nanf iv].
    - intros Hn. apply (proj1 (pu_atan_nan _)) in Hn. subst. apply (In_iv_nan _ HA).
    - intros Hn. assert (Hx : x <> NaN) by (intros ->; apply Hn; apply pu_atan_nan; auto).
      destruct (is_inf XI (lower A) || is_inf XI (upper A)).
      + exact (pu_atan_range x Hx).
      + apply (bs_atan BS); auto. apply In_iv_inb; auto.
  Qed.

  (* sin / cos / tan: NaN at infinity, flagged by the infinite-bound test *)
  Theorem isin_mem x A : In_iv x A -> In_iv (p_un OP_SIN x) (isin XI B A).
  Proof.
    intros HA. apply mem_intro; unfold isin; cbn [nanf iv].
    - intros Hn. apply (proj1 (pu_sin_nan _)) in Hn. destruct Hn as [->|Hi].
      + rewrite (In_iv_nan _ HA). reflexivity.
      + pose proof (In_iv_is_inf _ _ HA Hi). bsolve.
    - intros Hn. assert (x <> NaN) by (intros ->; apply Hn; apply pu_sin_nan; auto).
      apply (bs_sin BS); auto. apply In_iv_inb; auto.
  Qed.
  Theorem icos_mem x A : In_iv x A -> In_iv (p_un OP_COS x) (icos XI B A).
  Proof.
    intros HA. apply mem_intro; unfold icos; cbn [nanf iv].
    - intros Hn. apply (proj1 (pu_cos_nan _)) in Hn. destruct Hn as [->|Hi].
      + rewrite (In_iv_nan _ HA). reflexivity.
      + pose proof (In_iv_is_inf _ _ HA Hi). bsolve.
    - intros Hn. assert (x <> NaN) by (intros ->; apply Hn; apply pu_cos_nan; auto).
      apply (bs_cos BS); auto. apply In_iv_inb; auto.
  Qed.
  Theorem itan_mem x A : In_iv x A -> In_iv (p_un OP_TAN x) (itan XI B A).
  Proof.
    intros HA. apply mem_intro; unfold itan; cbn [nanf iv].
    - intros Hn. apply (proj1 (pu_tan_nan _)) in Hn. destruct Hn as [->|Hi].
      + rewrite (In_iv_nan _ HA). reflexivity.
      + pose proof (In_iv_is_inf _ _ HA Hi). bsolve.
    - intros Hn. assert (x <> NaN) by (intros ->; apply Hn; apply pu_tan_nan; auto).
      apply (bs_tan BS); auto. apply In_iv_inb; auto.
  Qed.

  (* recip: 1/0 = inf is not NaN; a zero-containing argument yields the whole line *)
  Theorem irecip_mem x A : In_iv x A -> In_iv (xrecip x) (irecip XI B A).
  Proof.
    intros HA. apply mem_intro; unfold irecip; cbn [nanf iv].
    - intros Hn. apply (proj1 (xrecip_nan _)) in Hn. subst. apply (In_iv_nan _ HA).
    - intros Hn. assert (Hx : x <> NaN) by (intros ->; apply Hn; reflexivity).
      destruct (contains_zero XI A) eqn:E.
      + apply inb_whole; auto.
      + apply (bs_recip BS); auto using In_iv_inb, contains_zero_false_inb.
  Qed.

  (* ================================================================ *)
  (* pow / nth_root: the exponent is the degenerate interval of an integer *)
  Definition int_const (n : Z) (B' : xival) : Prop :=
    iv B' = (Fin (IZR n), Fin (IZR n)) /\ nanf B' = false.

  Lemma int_const_mem n B' y : int_const n B' -> In_iv y B' -> y = Fin (IZR n).
  Proof.
    intros [Hiv Hf] HB. assert (Hy : y <> NaN) by (eapply In_iv_notnan; eauto).
    pose proof (In_iv_inb _ _ HB Hy) as Hi. rewrite Hiv in Hi. apply inb_eq; auto.
  Qed.
  Lemma int_const_trunc n B' : int_const n B' -> i_trunc XI (lower B') = n.
  Proof. intros [Hiv _]. unfold lower. rewrite Hiv. simpl. apply Rtrunc_IZR. Qed.

  (* conditional form: needs only "non-NaN base => non-NaN power" *)
  Theorem ipow_sound x y A B' n :
    int_const n B' ->
    In_iv x A -> In_iv y B' -> nanf (ipow XI B A B') = false ->
    p_bin OP_POW x y <> NaN /\ In_iv (p_bin OP_POW x y) (ipow XI B A B').
  Proof.
    intros Hc HA HB Hf.
    rewrite (int_const_mem _ _ _ Hc HB).
    unfold ipow in *; cbn [nanf iv] in *. rewrite (int_const_trunc _ _ Hc) in *.
    apply orb_false_iff in Hf; destruct Hf as [Hf _].
    apply orb_false_iff in Hf; destruct Hf as [Hf _].
    assert (Hx : x <> NaN) by (eapply In_iv_notnan; eauto).
    pose proof (pb_pow_notnan x n Hx) as Hp.
    split; auto. apply mem_intro; cbn [nanf iv]; [congruence|intros _].
    destruct (Z.ltb n 0) eqn:En; [destruct (contains_zero XI A) eqn:Ez|]; cbn [andb].
    + apply inb_whole; auto.
    + apply (bs_pow BS); auto using In_iv_inb, contains_zero_false_inb.
    + apply Z.ltb_ge in En. apply (bs_pow BS); auto using In_iv_inb.
  Qed.

  Theorem ipow_mem x y A B' n :
    int_const n B' ->
    In_iv x A -> In_iv y B' -> In_iv (p_bin OP_POW x y) (ipow XI B A B').
  Proof.
    intros Hc HA HB.
    rewrite (int_const_mem _ _ _ Hc HB).
    apply mem_intro; unfold ipow; cbn [nanf iv]; rewrite (int_const_trunc _ _ Hc).
    - intros Hp. destruct x as [r| | |] eqn:Ex;
        try (exfalso; revert Hp; apply pb_pow_notnan; discriminate).
      rewrite (In_iv_nan _ HA). reflexivity.
    - intros Hp. assert (Hx : x <> NaN) by (intros ->; apply Hp; apply pb_pow_nan_l).
      destruct (Z.ltb n 0) eqn:En; [destruct (contains_zero XI A) eqn:Ez|]; cbn [andb].
      + apply inb_whole; auto.
      + apply (bs_pow BS); auto using In_iv_inb, contains_zero_false_inb.
      + apply Z.ltb_ge in En. apply (bs_pow BS); auto using In_iv_inb.
  Qed.

  (* nth_root, with the repaired parity test (bit 0) *)
  Theorem inth_root_mem x y A B' n :
    int_const n B' -> In_iv x A -> In_iv y B' ->
    In_iv (p_bin OP_NTH_ROOT x y) (inth_root XI B A B').
  Proof.
    intros Hc HA HB.
    rewrite (int_const_mem _ _ _ Hc HB).
    apply mem_intro; unfold inth_root; cbn [nanf iv]; rewrite (int_const_trunc _ _ Hc); xi_norm.
    - intros Hp. apply (proj1 (pb_nth_root_nan _ _)) in Hp. destruct Hp as [->|[Hlt Hev]].
      + rewrite (In_iv_nan _ HA). reflexivity.
      + pose proof (below_lower _ _ _ HA Hlt) as Hl. apply xlt_xle in Hl.
        rewrite Hl. rewrite Z.bit0_odd, Z.negb_odd, Hev. apply orb_true_r.
    - intros Hp. assert (Hx : x <> NaN) by (intros ->; apply Hp; apply pb_nth_root_nan; auto).
      assert (Hr : inb (p_bin OP_NTH_ROOT x (Fin (IZR n))) (b_nth_root B (iv A) n))
        by (apply (bs_nth_root BS); auto using In_iv_inb).
      match goal with |- context [if ?c then _ else _] =>
        match c with negb _ && negb _ => destruct c end end.
      + apply inb_widen. exact Hr.
      + exact Hr.
  Qed.


  (* ================================================================ *)
  (* atan2: libfive's nine-way case split on corner values            *)
  Let f2 := xatan2.
  Lemma at2_const_x_pos y1 y2 : xlt (Fin 0) y1 = true -> xlt (Fin 0) y2 = true ->
    xle (f2 y1 (Fin 0)) (f2 y2 (Fin 0)) = true.
  Proof.
    intros H1 H2. unfold f2. rewrite !(at2_zero_x_pos _ Hat2) by auto.
    apply xle_refl; discriminate.
  Qed.
  Lemma at2_const_x_neg y1 y2 : xlt y1 (Fin 0) = true -> xlt y2 (Fin 0) = true ->
    xle (f2 y1 (Fin 0)) (f2 y2 (Fin 0)) = true.
  Proof.
    intros H1 H2. unfold f2. rewrite !(at2_zero_x_neg _ Hat2) by auto.
    apply xle_refl; discriminate.
  Qed.
  Lemma at2_const_y x1 x2 : xlt (Fin 0) x1 = true -> xlt (Fin 0) x2 = true ->
    xle (f2 (Fin 0) x1) (f2 (Fin 0) x2) = true.
  Proof.
    intros H1 H2. unfold f2. rewrite !(at2_zero_y _ Hat2) by auto.
    apply xle_refl; discriminate.
  Qed.

  Theorem iatan2_mem y x Y X :
    In_iv y Y -> In_iv x X -> In_iv (xatan2 y x) (iatan2 XI Y X).
  Proof.
    intros HY HX. apply mem_intro.
    - intros Hn. apply (proj1 (at2_nan _ Hat2 _ _)) in Hn. unfold iatan2; cbn [nanf].
      destruct Hn as [->| ->].
      + rewrite (In_iv_nan _ HY). reflexivity.
      + rewrite (In_iv_nan _ HX). bsolve.
    - intros Hn.
      assert (y <> NaN /\ x <> NaN) as [Hy Hx].
      { split; intros ->; apply Hn; apply (at2_nan _ Hat2); auto. }
      destruct (In_iv_inb _ _ HY Hy) as [Yl Yu]. destruct (In_iv_inb _ _ HX Hx) as [Xl Xu].
      destruct (xle_not_nan _ _ Yl) as [Nly _]. destruct (xle_not_nan _ _ Yu) as [_ Nuy].
      destruct (xle_not_nan _ _ Xl) as [Nlx _]. destruct (xle_not_nan _ _ Xu) as [_ Nux].
      unfold iatan2; cbn [iv]; xi_norm. unfold lower, upper.
      set (ly := fst (iv Y)) in *. set (uy := snd (iv Y)) in *.
      set (lx := fst (iv X)) in *. set (ux := snd (iv X)) in *.
      change (i_atan2 XI) with f2. change (xatan2 y x) with (f2 y x).
      assert (MYP := at2_ypos_x _ Hat2). assert (MYN := at2_yneg_x _ Hat2).
      assert (MXP := at2_xpos_y _ Hat2). assert (MXNP := at2_xneg_ypos _ Hat2).
      assert (MXNN := at2_xneg_yneg _ Hat2). fold f2 in MYP, MYN, MXP, MXNP, MXNN.
      destruct (xlt (Fin 0) lx) eqn:Elx.
      { (* right half plane *)
        assert (Px : xlt (Fin 0) x = true) by (eapply xlt_le_trans; eauto).
        assert (Pux : xlt (Fin 0) ux = true) by (eapply xlt_le_trans; eauto).
        destruct (xlt (Fin 0) ly) eqn:Ely.
        { (* Q1 *)
          assert (Py : xlt (Fin 0) y = true) by (eapply xlt_le_trans; eauto).
          assert (Puy : xlt (Fin 0) uy = true) by (eapply xlt_le_trans; eauto).
          split; cbn [fst snd].
          - apply xle_trans with (f2 ly x); auto.
          - apply xle_trans with (f2 uy x); auto. }
        destruct (xlt uy (Fin 0)) eqn:Euy.
        { (* Q4 *)
          assert (Ny : xlt y (Fin 0) = true) by (eapply xle_lt_trans; eauto).
          assert (Nly' : xlt ly (Fin 0) = true) by (eapply xle_lt_trans; eauto).
          split; cbn [fst snd].
          - apply xle_trans with (f2 ly x); auto.
          - apply xle_trans with (f2 uy x); auto. }
        (* crossing the X axis: ly <= 0 <= uy *)
        split; cbn [fst snd].
        - apply xle_trans with (f2 ly x); auto.
          destruct (sign_cases ly Nly) as [C|[C|C]]; [congruence| |auto].
          rewrite C. apply at2_const_y; auto.
        - apply xle_trans with (f2 uy x); auto.
          destruct (sign_cases uy Nuy) as [C|[C|C]]; [auto| |congruence].
          rewrite C. apply at2_const_y; auto. }
      destruct (xlt ux (Fin 0)) eqn:Eux.
      { (* left half plane *)
        assert (Nx : xlt x (Fin 0) = true) by (eapply xle_lt_trans; eauto).
        assert (Nlx' : xlt lx (Fin 0) = true) by (eapply xle_lt_trans; eauto).
        destruct (xlt (Fin 0) ly) eqn:Ely.
        { (* Q2 *)
          assert (Py : xlt (Fin 0) y = true) by (eapply xlt_le_trans; eauto).
          assert (Puy : xlt (Fin 0) uy = true) by (eapply xlt_le_trans; eauto).
          split; cbn [fst snd].
          - apply xle_trans with (f2 uy x); auto.
          - apply xle_trans with (f2 ly x); auto. }
        destruct (xlt uy (Fin 0)) eqn:Euy.
        { (* Q3 *)
          assert (Ny : xlt y (Fin 0) = true) by (eapply xle_lt_trans; eauto).
          assert (Nly' : xlt ly (Fin 0) = true) by (eapply xle_lt_trans; eauto).
          split; cbn [fst snd].
          - apply xle_trans with (f2 uy x); auto.
          - apply xle_trans with (f2 ly x); auto. }
        (* branch cut *)
        exact (at2_range _ Hat2 _ _ Hn). }
      (* x straddles 0 : lx <= 0 <= ux *)
      destruct (xlt (Fin 0) ly) eqn:Ely.
      { (* top half plane *)
        assert (Py : xlt (Fin 0) y = true) by (eapply xlt_le_trans; eauto).
        split; cbn [fst snd].
        - apply xle_trans with (f2 y ux); auto.
          destruct (sign_cases ux Nux) as [C|[C|C]]; [auto| |congruence].
          rewrite C. apply at2_const_x_pos; auto.
        - apply xle_trans with (f2 y lx); auto.
          destruct (sign_cases lx Nlx) as [C|[C|C]]; [congruence| |auto].
          rewrite C. apply at2_const_x_pos; auto. }
      destruct (xlt uy (Fin 0)) eqn:Euy.
      { (* bottom half plane *)
        assert (Ny : xlt y (Fin 0) = true) by (eapply xle_lt_trans; eauto).
        split; cbn [fst snd].
        - apply xle_trans with (f2 y lx); auto.
          destruct (sign_cases lx Nlx) as [C|[C|C]]; [congruence| |auto].
          rewrite C. apply at2_const_x_neg; auto.
        - apply xle_trans with (f2 y ux); auto.
          destruct (sign_cases ux Nux) as [C|[C|C]]; [auto| |congruence].
          rewrite C. apply at2_const_x_neg; auto. }
      exact (at2_range _ Hat2 _ _ Hn).
  Qed.


  (* ================================================================ *)
  (* mod                                                               *)
  Lemma mod_out0 x y (b : xbnd) :
    inb y b -> xmod x y <> NaN ->
    inb (xmod x y) (xfmin (fst b) (Fin 0), xfmax (Fin 0) (snd b)).
  Proof.
    intros [H1 H2] Hn. destruct (xmod_range _ _ Hn) as [R1 R2]. split; cbn [fst snd].
    - eapply xle_trans; [|exact R1]. apply xfmin_mono_l; auto; discriminate.
    - eapply xle_trans; [exact R2|]. apply xfmax_mono_r; auto; discriminate.
  Qed.

  Lemma floor_squeeze (q : xbnd) v :
    xisfinite (fst q) = true -> xisfinite (snd q) = true -> inb (Fin v) q ->
    xfloor_int (fst q) = xfloor_int (snd q) -> Int_part v = xfloor_int (fst q).
  Proof.
    intros F1 F2 [H1 H2] E. destruct (fst q) as [l| | |], (snd q) as [h| | |]; try discriminate.
    simpl in *. apply Rleb_true in H1, H2.
    pose proof (Int_part_mono _ _ H1). pose proof (Int_part_mono _ _ H2). lia.
  Qed.

  (* The refinement  a - b * floor(a/b)  is only as good as the quotient's bounds:
     [i_floor_int] of an infinite bound is meaningless (in C++ the int cast of an
     infinite or >= 2^31 float is undefined behaviour), so the Boost quotient is
     required to have finite bounds. *)
  Definition quot_finite (A B' : xival) : Prop :=
    forall u, u = iv A \/ u = b_scale B (iv A) (Fin (-1)) ->
      xisfinite (fst (b_div B u (b_abs B (iv B')))) = true /\
      xisfinite (snd (b_div B u (b_abs B (iv B')))) = true.

  Lemma mod_refine a b (A B' : xival) u :
    b <> 0 -> inb (Fin a) (iv A) -> inb (Fin b) (iv B') -> ~ inb (Fin 0) (iv B') ->
    (u = iv A \/ u = b_scale B (iv A) (Fin (-1))) ->
    quot_finite A B' ->
    inb (Fin (a / b)) (b_div B u (b_abs B (iv B'))) ->
    let q := b_div B u (b_abs B (iv B')) in
    let qi := xfloor_int (fst q) in
    inb (xmod (Fin a) (Fin b))
        (if Z.eqb qi (xfloor_int (snd q))
         then b_sub B (iv A) (b_scale B (iv B') (Fin (IZR qi)))
         else (xfmin (fst (iv B')) (Fin 0), xfmax (Fin 0) (snd (iv B')))).
  Proof.
    intros Hb Ia Ib Hnz Hu Hqf Hq q qi.
    assert (Hm : xmod (Fin a) (Fin b) <> NaN) by (rewrite xmod_fin by auto; discriminate).
    destruct (Z.eqb qi (xfloor_int (snd q))) eqn:E.
    - apply Z.eqb_eq in E. destruct (Hqf u Hu) as [F1 F2].
      pose proof (floor_squeeze q (a / b) F1 F2 Hq E) as Hfl. fold qi in Hfl.
      rewrite xmod_fin by auto. rewrite Hfl.
      assert (S1 : inb (xmul (Fin b) (Fin (IZR qi))) (b_scale B (iv B') (Fin (IZR qi)))).
      { apply (bs_scale BS); auto. discriminate. }
      assert (S2 := bs_sub BS _ _ _ _ Ia S1).
      simpl in S2. apply S2. discriminate.
    - apply mod_out0; auto.
  Qed.

  Theorem imod_mem x y A B' :
    quot_finite A B' ->
    In_iv x A -> In_iv y B' -> In_iv (xmod x y) (imod XI B A B').
  Proof.
    intros Hqf HA HB. apply mem_intro.
    - intros Hn. apply (proj1 (xmod_nan _ _)) in Hn. unfold imod; cbn [nanf]; xi_norm.
      destruct Hn as [->|[->|[->|[Hi|Hi]]]].
      + rewrite (In_iv_nan _ HA). reflexivity.
      + rewrite (In_iv_nan _ HB). bsolve.
      + pose proof (In_iv_zero _ HB) as Hz. unfold contains_zero in Hz. xi_norm. bsolve.
      + pose proof (In_iv_is_inf _ _ HA Hi). bsolve.
      + pose proof (In_iv_is_inf _ _ HB Hi). bsolve.
    - intros Hn.
      assert (Hc : exists a b, x = Fin a /\ y = Fin b /\ b <> 0).
      { destruct x as [a| | |], y as [b| | |];
          try (exfalso; apply Hn; apply xmod_nan; unfold xinf; auto 8; fail).
        destruct (Req_EM_T b 0) as [->|]; [exfalso; apply Hn; apply xmod_nan; auto|]. eauto. }
      destruct Hc as (a & b & -> & -> & Hb).
      assert (Ia : inb (Fin a) (iv A)) by (apply In_iv_inb; auto; discriminate).
      assert (Ib : inb (Fin b) (iv B')) by (apply In_iv_inb; auto; discriminate).
      pose proof (mod_out0 _ _ _ Ib Hn) as Hout0.
      unfold imod; cbn [iv]; xi_norm. unfold lower, upper in *.
      change (i_fmin XI) with xfmin. change (i_fmax XI) with xfmax.
      change (i_floor_int XI) with xfloor_int. change (i_of_Z XI) with (fun z => Fin (IZR z)).
      cbv beta.
      destruct (xisfinite (snd (iv A)) && xisfinite (fst (iv A))); [|exact Hout0].
      destruct Ib as [Bl Bu].
      destruct (xle_not_nan _ _ Bl) as [Nl _]. destruct (xle_not_nan _ _ Bu) as [_ Nu].
      destruct (xle (Fin 0) (snd (iv B'))) eqn:Epos; destruct (xle (fst (iv B')) (Fin 0)) eqn:Eneg.
      + exact Hout0.
      + (* position 1 : b > 0 *)
        apply xle_false_xlt in Eneg; auto; try discriminate.
        assert (Pb : 0 < b) by (apply xlt_Fin; eapply xlt_le_trans; eauto).
        assert (Hnz : ~ inb (Fin 0) (iv B')).
        { intros [Z1 _]. apply xlt_asym in Eneg. congruence. }
        apply mod_refine; auto; [split; auto|].
        assert (D := bs_div BS (iv A) (b_abs B (iv B')) (Fin a) (xabs (Fin b)) Ia
                       (bs_abs BS _ _ (conj Bl Bu)) (bs_abs_nz BS _ Hnz)).
        simpl in D. rewrite Rabs_pos_eq in D by lra.
        destruct (Req_EM_T b 0); [contradiction|]. apply D. discriminate.
      + (* position 2 : b < 0 *)
        apply xle_false_xlt in Epos; auto; try discriminate.
        assert (Nb : b < 0) by (apply xlt_Fin; eapply xle_lt_trans; eauto).
        assert (Hnz : ~ inb (Fin 0) (iv B')).
        { intros [_ Z2]. apply xlt_asym in Epos. congruence. }
        apply mod_refine; auto; [split; auto|].
        assert (S := bs_scale BS (iv A) (Fin (-1)) (Fin a) Ia).
        simpl in S. specialize (S ltac:(discriminate)).
        assert (D := bs_div BS _ (b_abs B (iv B')) _ (xabs (Fin b)) S
                       (bs_abs BS _ _ (conj Bl Bu)) (bs_abs_nz BS _ Hnz)).
        simpl in D. rewrite Rabs_left in D by lra.
        destruct (Req_EM_T (- b) 0); [lra|].
        replace (a * -1 / - b) with (a / b) in D by (field; auto).
        apply D. discriminate.
      + (* position 0 : impossible for a non-NaN divisor *)
        exfalso. apply xle_false_xlt in Epos; auto; try discriminate.
        apply xle_false_xlt in Eneg; auto; try discriminate.
        assert (xlt (Fin b) (Fin b) = true).
        { eapply xle_lt_trans; [exact Bu|]. eapply xlt_trans; [exact Epos|].
          eapply xlt_le_trans; eauto. }
        rewrite xlt_irrefl in H. discriminate.
  Qed.

  (* ================================================================ *)
  (* The conditional form asked for:  flag clear => point result is not NaN and
     lies in the interval result.  All are corollaries of full membership. *)
  Ltac by_mem L := intros; apply sound_of_mem; auto; apply L; auto.

  Corollary iadd_sound x y A B' : In_iv x A -> In_iv y B' -> nanf (iadd XI B A B') = false ->
    p_bin OP_ADD x y <> NaN /\ In_iv (p_bin OP_ADD x y) (iadd XI B A B').
  Proof. rewrite pb_add. by_mem iadd_mem. Qed.
  Corollary isub_sound x y A B' : In_iv x A -> In_iv y B' -> nanf (isub XI B A B') = false ->
    p_bin OP_SUB x y <> NaN /\ In_iv (p_bin OP_SUB x y) (isub XI B A B').
  Proof. rewrite pb_sub. by_mem isub_mem. Qed.
  Corollary imul_sound x y A B' : In_iv x A -> In_iv y B' -> nanf (imul XI B A B') = false ->
    p_bin OP_MUL x y <> NaN /\ In_iv (p_bin OP_MUL x y) (imul XI B A B').
  Proof. rewrite pb_mul. by_mem imul_mem. Qed.
  Corollary idiv_sound x y A B' : In_iv x A -> In_iv y B' -> nanf (idiv XI B A B') = false ->
    p_bin OP_DIV x y <> NaN /\ In_iv (p_bin OP_DIV x y) (idiv XI B A B').
  Proof. rewrite pb_div. by_mem idiv_mem. Qed.
  Corollary imin_sound x y A B' : In_iv x A -> In_iv y B' -> nanf (imin B A B') = false ->
    p_bin OP_MIN x y <> NaN /\ In_iv (p_bin OP_MIN x y) (imin B A B').
  Proof. rewrite pb_min. by_mem imin_mem. Qed.
  Corollary imax_sound x y A B' : In_iv x A -> In_iv y B' -> nanf (imax B A B') = false ->
    p_bin OP_MAX x y <> NaN /\ In_iv (p_bin OP_MAX x y) (imax B A B').
  Proof. rewrite pb_max. by_mem imax_mem. Qed.
  Corollary inanfill_sound x y A B' : In_iv x A -> In_iv y B' -> nanf (inanfill B A B') = false ->
    p_bin OP_NANFILL x y <> NaN /\ In_iv (p_bin OP_NANFILL x y) (inanfill B A B').
  Proof. rewrite pb_nanfill. by_mem inanfill_mem. Qed.
  Corollary icompare_sound x y A B' : In_iv x A -> In_iv y B' -> nanf (icompare XI A B') = false ->
    p_bin OP_COMPARE x y <> NaN /\ In_iv (p_bin OP_COMPARE x y) (icompare XI A B').
  Proof. rewrite pb_compare. by_mem icompare_mem. Qed.
  Corollary iatan2_sound y x Y X : In_iv y Y -> In_iv x X -> nanf (iatan2 XI Y X) = false ->
    p_bin OP_ATAN2 y x <> NaN /\ In_iv (p_bin OP_ATAN2 y x) (iatan2 XI Y X).
  Proof. rewrite pb_atan2. by_mem iatan2_mem. Qed.
  Corollary inth_root_sound x y A B' n : int_const n B' -> In_iv x A -> In_iv y B' ->
    nanf (inth_root XI B A B') = false ->
    p_bin OP_NTH_ROOT x y <> NaN /\ In_iv (p_bin OP_NTH_ROOT x y) (inth_root XI B A B').
  Proof. intros; apply sound_of_mem; auto; eapply inth_root_mem; eauto. Qed.
  (* mod is sound for all bounds; the refinement branch needs a finite Boost quotient *)
  Corollary imod_sound x y A B' :
    quot_finite A B' ->
    In_iv x A -> In_iv y B' -> nanf (imod XI B A B') = false ->
    p_bin OP_MOD x y <> NaN /\ In_iv (p_bin OP_MOD x y) (imod XI B A B').
  Proof. rewrite pb_mod. by_mem imod_mem. Qed.

  Corollary isquare_sound x A : In_iv x A -> nanf (isquare B A) = false ->
    p_un OP_SQUARE x <> NaN /\ In_iv (p_un OP_SQUARE x) (isquare B A).
  Proof. rewrite pu_square. by_mem isquare_mem. Qed.
  Corollary isqrt_sound x A : In_iv x A -> nanf (isqrt XI B A) = false ->
    p_un OP_SQRT x <> NaN /\ In_iv (p_un OP_SQRT x) (isqrt XI B A).
  Proof. rewrite pu_sqrt. by_mem isqrt_mem. Qed.
  Corollary ineg_sound x A : In_iv x A -> nanf (ineg B A) = false ->
    p_un OP_NEG x <> NaN /\ In_iv (p_un OP_NEG x) (ineg B A).
  Proof. rewrite pu_neg. by_mem ineg_mem. Qed.
  Corollary iabs_sound x A : In_iv x A -> nanf (iabs B A) = false ->
    p_un OP_ABS x <> NaN /\ In_iv (p_un OP_ABS x) (iabs B A).
  Proof. rewrite pu_abs. by_mem iabs_mem. Qed.
  Corollary irecip_sound x A : In_iv x A -> nanf (irecip XI B A) = false ->
    p_un OP_RECIP x <> NaN /\ In_iv (p_un OP_RECIP x) (irecip XI B A).
  Proof. rewrite pu_recip. by_mem irecip_mem. Qed.
  Corollary isin_sound x A : In_iv x A -> nanf (isin XI B A) = false ->
    p_un OP_SIN x <> NaN /\ In_iv (p_un OP_SIN x) (isin XI B A).
  Proof. by_mem isin_mem. Qed.
  Corollary icos_sound x A : In_iv x A -> nanf (icos XI B A) = false ->
    p_un OP_COS x <> NaN /\ In_iv (p_un OP_COS x) (icos XI B A).
  Proof. by_mem icos_mem. Qed.
  Corollary itan_sound x A : In_iv x A -> nanf (itan XI B A) = false ->
    p_un OP_TAN x <> NaN /\ In_iv (p_un OP_TAN x) (itan XI B A).
  Proof. by_mem itan_mem. Qed.
  Corollary iasin_sound x A : In_iv x A -> nanf (iasin XI B A) = false ->
    p_un OP_ASIN x <> NaN /\ In_iv (p_un OP_ASIN x) (iasin XI B A).
  Proof. by_mem iasin_mem. Qed.
  Corollary iacos_sound x A : In_iv x A -> nanf (iacos XI B A) = false ->
    p_un OP_ACOS x <> NaN /\ In_iv (p_un OP_ACOS x) (iacos XI B A).
  Proof. by_mem iacos_mem. Qed.
  Corollary iatan_sound x A : In_iv x A -> nanf (iatan XI B A) = false ->
    p_un OP_ATAN x <> NaN /\ In_iv (p_un OP_ATAN x) (iatan XI B A).
  Proof. by_mem iatan_mem. Qed.
  Corollary iexp_sound x A : In_iv x A -> nanf (iexp B A) = false ->
    p_un OP_EXP x <> NaN /\ In_iv (p_un OP_EXP x) (iexp B A).
  Proof. by_mem iexp_mem. Qed.
  Corollary ilog_sound x A : In_iv x A -> nanf (ilog XI B A) = false ->
    p_un OP_LOG x <> NaN /\ In_iv (p_un OP_LOG x) (ilog XI B A).
  Proof. by_mem ilog_mem. Qed.

  (* ================================================================ *)
  (* Dispatchers                                                       *)
  Theorem ieval_un_mem op x A :
    args op = Some 1%nat -> In_iv x A -> In_iv (p_un op x) (ieval_un XI B op A).
  Proof.
    intros Ha HA. destruct op; simpl in Ha; try discriminate; simpl.
    - rewrite pu_const_var; auto.
    - rewrite pu_square; apply isquare_mem; auto.
    - rewrite pu_sqrt; apply isqrt_mem; auto.
    - rewrite pu_neg; apply ineg_mem; auto.
    - apply isin_mem; auto.
    - apply icos_mem; auto.
    - apply itan_mem; auto.
    - apply iasin_mem; auto.
    - apply iacos_mem; auto.
    - apply iatan_mem; auto.
    - apply iexp_mem; auto.
    - rewrite pu_abs; apply iabs_mem; auto.
    - apply ilog_mem; auto.
    - rewrite pu_recip; apply irecip_mem; auto.
  Qed.

  (* side conditions under which a binary clause is sound *)
  Definition ok_bin (op : opcode) (A B' : xival) : Prop :=
    match op with
    | OP_POW | OP_NTH_ROOT => exists n, int_const n B'
    | OP_MOD => quot_finite A B'
    | _ => True
    end.

  Theorem ieval_bin_mem op x y A B' :
    args op = Some 2%nat -> ok_bin op A B' -> In_iv x A -> In_iv y B' ->
    In_iv (p_bin op x y) (ieval_bin XI B op A B').
  Proof.
    intros Ha Hok HA HB. destruct op; simpl in Ha; try discriminate; simpl in *.
    - rewrite pb_add; apply iadd_mem; auto.
    - rewrite pb_mul; apply imul_mem; auto.
    - rewrite pb_min; apply imin_mem; auto.
    - rewrite pb_max; apply imax_mem; auto.
    - rewrite pb_sub; apply isub_mem; auto.
    - rewrite pb_div; apply idiv_mem; auto.
    - rewrite pb_atan2; apply iatan2_mem; auto.
    - destruct Hok as [n Hn]. eapply ipow_mem; eauto.
    - destruct Hok as [n Hn]. eapply inth_root_mem; eauto.
    - rewrite pb_mod; apply imod_mem; auto.
    - rewrite pb_nanfill; apply inanfill_mem; auto.
    - rewrite pb_compare; apply icompare_mem; auto.
  Qed.

  (* ================================================================ *)
  (* Tapes                                                             *)
  Definition clause := (opcode * nat * nat * nat)%type.     (* op, id, a, b *)
  Definition upd {T} (s : nat -> T) (i : nat) (v : T) : nat -> T :=
    fun n => if Nat.eqb n i then v else s n.

  Definition writes (op : opcode) : Prop := args op = Some 1%nat \/ args op = Some 2%nat.

  Definition step_pt (c : clause) (s : nat -> xr) : nat -> xr :=
    let '(op, id, a, b) := c in
    match args op with
    | Some 1%nat => upd s id (p_un op (s a))
    | Some 2%nat => upd s id (p_bin op (s a) (s b))
    | _ => s
    end.
  Definition step_iv (c : clause) (s : nat -> xival) : nat -> xival :=
    let '(op, id, a, b) := c in
    match args op with
    | Some 1%nat => upd s id (ieval_un XI B op (s a))
    | Some 2%nat => upd s id (ieval_bin XI B op (s a) (s b))
    | _ => s
    end.
  Fixpoint run_pt (t : list clause) (s : nat -> xr) : nat -> xr :=
    match t with [] => s | c :: t' => run_pt t' (step_pt c s) end.
  Fixpoint run_iv (t : list clause) (s : nat -> xival) : nat -> xival :=
    match t with [] => s | c :: t' => run_iv t' (step_iv c s) end.

  (* the slots known to be meaningful after a clause *)
  Definition def_step (c : clause) (D : nat -> Prop) : nat -> Prop :=
    let '(op, id, _, _) := c in fun n => D n \/ (n = id /\ writes op).
  Fixpoint def_run (t : list clause) (D : nat -> Prop) : nat -> Prop :=
    match t with [] => D | c :: t' => def_run t' (def_step c D) end.
  (* clauses read defined slots only *)
  Fixpoint wf (t : list clause) (D : nat -> Prop) : Prop :=
    match t with
    | [] => True
    | (op, id, a, b) :: t' =>
        (args op = Some 1%nat -> D a) /\ (args op = Some 2%nat -> D a /\ D b) /\
        wf t' (def_step (op, id, a, b) D)
    end.

  Section EvalSound.
    (* per-clause soundness, for the clauses satisfying [ok] *)
    Variable ok : opcode -> xival -> xival -> Prop.
    Hypothesis ok_un : forall op A B' x, ok op A B' -> args op = Some 1%nat ->
      In_iv x A -> In_iv (p_un op x) (ieval_un XI B op A).
    Hypothesis ok_bin_h : forall op A B' x y, ok op A B' -> args op = Some 2%nat ->
      In_iv x A -> In_iv y B' -> In_iv (p_bin op x y) (ieval_bin XI B op A B').

    Fixpoint tape_ok (t : list clause) (si : nat -> xival) : Prop :=
      match t with
      | [] => True
      | (op, id, a, b) :: t' => ok op (si a) (si b) /\ tape_ok t' (step_iv (op, id, a, b) si)
      end.

    Theorem eval_sound t : forall D sp si,
      wf t D -> tape_ok t si ->
      (forall n, D n -> In_iv (sp n) (si n)) ->
      forall n, def_run t D n -> In_iv (run_pt t sp n) (run_iv t si n).
    Proof.
      induction t as [|[[[op id] a] b] t IH]; intros D sp si Hwf Hok Hinv n Hn; simpl in *.
      - auto.
      - destruct Hwf as (W1 & W2 & W3). destruct Hok as (O1 & O2).
        apply (IH _ _ _ W3 O2); auto.
        intros m [Hm|[-> Hw]].
        + (* already defined slot: overwritten or untouched *)
          destruct (args op) as [[|[|[|k]]]|] eqn:Ea; auto; unfold upd;
            destruct (Nat.eqb m id) eqn:E; auto;
            first [ apply ok_un with (B' := si b); auto
                  | destruct W2 as [Da Db]; auto; apply ok_bin_h; auto ].
        + destruct Hw as [Ea|Ea]; rewrite Ea; unfold upd; rewrite Nat.eqb_refl.
          * apply ok_un with (B' := si b); auto.
          * destruct W2 as [Da Db]; auto; try (apply ok_bin_h; auto).
    Qed.
  End EvalSound.

  (* The instance with exactly the side conditions proved above. *)
  Definition ok_std (op : opcode) (A B' : xival) : Prop :=
    match args op with Some 2%nat => ok_bin op A B' | _ => True end.

  Corollary eval_sound_std t D sp si :
    wf t D -> tape_ok ok_std t si ->
    (forall n, D n -> In_iv (sp n) (si n)) ->
    forall n, def_run t D n -> In_iv (run_pt t sp n) (run_iv t si n).
  Proof.
    apply eval_sound.
    - intros op A B' x _ Ha HA. apply ieval_un_mem; auto.
    - intros op A B' x y Hok Ha HA HB. unfold ok_std in Hok. rewrite Ha in Hok.
      apply ieval_bin_mem; auto.
  Qed.

  (* Tapes without pow / nth_root / mod need no side condition at all. *)
  Definition plain_op (op : opcode) : Prop :=
    op <> OP_POW /\ op <> OP_NTH_ROOT /\ op <> OP_MOD.
  Lemma tape_ok_plain t : Forall (fun c : clause => plain_op (fst (fst (fst c)))) t ->
    forall si, tape_ok ok_std t si.
  Proof.
    induction 1 as [|[[[op id] a] b] t Hp _ IH]; intros si; simpl; auto. split; auto.
    destruct Hp as (P1 & P2 & P3); simpl in *. unfold ok_std.
    destruct op; simpl; auto; congruence.
  Qed.
  Corollary eval_sound_plain t D sp si :
    Forall (fun c : clause => plain_op (fst (fst (fst c)))) t ->
    wf t D -> (forall n, D n -> In_iv (sp n) (si n)) ->
    forall n, def_run t D n -> In_iv (run_pt t sp n) (run_iv t si n).
  Proof. intros Hp Hwf. apply eval_sound_std; auto. apply tape_ok_plain; auto. Qed.

  (* root of the tape: a clear flag means the point value is a real bound-respecting number *)
  Corollary eval_sound_root t D sp si n :
    wf t D -> tape_ok ok_std t si -> (forall n, D n -> In_iv (sp n) (si n)) ->
    def_run t D n -> nanf (run_iv t si n) = false ->
    run_pt t sp n <> NaN /\ In_iv (run_pt t sp n) (run_iv t si n).
  Proof. intros. apply sound_of_mem; auto. eapply eval_sound_std; eauto. Qed.

  (* ================================================================ *)
  (* Non-vacuity: concrete intervals and points satisfying the hypotheses *)
  Lemma In_iv_mk_fin l u r : l <= r <= u -> In_iv (Fin r) (mk XI (Fin l) (Fin u)).
  Proof. intros [H1 H2]. split; [discriminate|intros _; split; simpl; apply Rleb_true; lra]. Qed.

  Ltac rcomp :=
    repeat match goal with
    | |- context [Rleb ?a ?b] =>
        first [rewrite (proj2 (Rleb_true a b)) by lra | rewrite (proj2 (Rleb_false a b)) by lra]
    | |- context [Rltb ?a ?b] =>
        first [rewrite (proj2 (Rltb_true a b)) by lra | rewrite (proj2 (Rltb_false a b)) by lra]
    | |- context [Reqb ?a ?b] =>
        first [rewrite (proj2 (Reqb_true a b)) by lra | rewrite (proj2 (Reqb_false a b)) by lra]
    end; simpl.

  (* sqrt on [1,9] at 4: unflagged, result 2 is a member *)
  Example ex_sqrt :
    let A := mk XI (Fin 1) (Fin 9) in
    In_iv (Fin 4) A /\ nanf (isqrt XI B A) = false /\
    p_un OP_SQRT (Fin 4) <> NaN /\ In_iv (p_un OP_SQRT (Fin 4)) (isqrt XI B A).
  Proof.
    intros A. assert (H : In_iv (Fin 4) A) by (apply In_iv_mk_fin; lra).
    assert (F : nanf (isqrt XI B A) = false) by (simpl; rcomp; reflexivity).
    split; [auto|split; [auto|apply isqrt_sound; auto]].
  Qed.
  (* sqrt on [-1,4]: flagged; the NaN point value sqrt(-1) IS a member (flag), and so is sqrt 4 *)
  Example ex_sqrt_flagged :
    let A := mk XI (Fin (-1)) (Fin 4) in
    nanf (isqrt XI B A) = true /\ xsqrt (Fin (-1)) = NaN /\
    In_iv (xsqrt (Fin (-1))) (isqrt XI B A) /\ In_iv (xsqrt (Fin 4)) (isqrt XI B A).
  Proof.
    intros A. split; [simpl; rcomp; reflexivity|]. split.
    - simpl. destruct (Rlt_dec (-1) 0); [reflexivity|lra].
    - split; apply isqrt_mem; apply In_iv_mk_fin; lra.
  Qed.

  (* division by a zero-crossing divisor, evaluated AT the zero: 1/0 = +inf,
     unflagged, contained thanks to the whole-line replacement *)
  Example ex_div :
    let A := mk XI (Fin 1) (Fin 2) in let B' := mk XI (Fin (-1)) (Fin 3) in
    In_iv (Fin 1) A /\ In_iv (Fin 0) B' /\ nanf (idiv XI B A B') = false /\
    p_bin OP_DIV (Fin 1) (Fin 0) = PInf /\ iv (idiv XI B A B') = (NInf, PInf) /\
    In_iv (p_bin OP_DIV (Fin 1) (Fin 0)) (idiv XI B A B').
  Proof.
    intros A B'. assert (HA : In_iv (Fin 1) A) by (apply In_iv_mk_fin; lra).
    assert (HB : In_iv (Fin 0) B') by (apply In_iv_mk_fin; lra).
    assert (F : nanf (idiv XI B A B') = false)
      by (unfold A, B', idiv, contains_zero; simpl; rcomp; reflexivity).
    do 3 (split; [auto|]). split; [|split].
    - rewrite pb_div. simpl. destruct (Req_EM_T 0 0); [|lra]. destruct (Rlt_dec 0 1); [auto|lra].
    - unfold A, B', idiv, contains_zero; simpl. rcomp. reflexivity.
    - rewrite pb_div. apply idiv_mem; auto.
  Qed.

  (* odd root over an interval reaching below zero: cube root of -8, unflagged *)
  Example ex_nth_root :
    let A := mk XI (Fin (-8)) (Fin 8) in let B' := mk XI (Fin 3) (Fin 3) in
    int_const 3 B' /\ In_iv (Fin (-8)) A /\ In_iv (Fin 3) B' /\
    nanf (inth_root XI B A B') = false /\
    p_bin OP_NTH_ROOT (Fin (-8)) (Fin 3) <> NaN /\
    In_iv (p_bin OP_NTH_ROOT (Fin (-8)) (Fin 3)) (inth_root XI B A B').
  Proof.
    intros A B'. assert (HC : int_const 3 B') by (split; reflexivity).
    assert (HA : In_iv (Fin (-8)) A) by (apply In_iv_mk_fin; lra).
    assert (HB : In_iv (Fin 3) B') by (apply In_iv_mk_fin; lra).
    assert (F : nanf (inth_root XI B A B') = false).
    { simpl. rewrite (Rtrunc_IZR 3). rcomp. reflexivity. }
    do 4 (split; [auto|]). eapply inth_root_sound; eauto.
  Qed.
  (* ... and the square root of the same range IS flagged *)
  Example ex_nth_root_even_flagged :
    nanf (inth_root XI B (mk XI (Fin (-4)) (Fin 4)) (mk XI (Fin 2) (Fin 2))) = true /\
    p_bin OP_NTH_ROOT (Fin (-2)) (Fin 2) = NaN.
  Proof.
    split.
    - simpl. rewrite (Rtrunc_IZR 2). rcomp. reflexivity.
    - apply pb_nth_root_nan. right. split; [simpl; rcomp|]; reflexivity.
  Qed.

  (* atan2 over the upper half plane across x = 0, at the point (x,y) = (0,1) *)
  Example ex_atan2 :
    let Y := mk XI (Fin 1) (Fin 2) in let X := mk XI (Fin (-1)) (Fin 1) in
    In_iv (Fin 1) Y /\ In_iv (Fin 0) X /\ nanf (iatan2 XI Y X) = false /\
    p_bin OP_ATAN2 (Fin 1) (Fin 0) = Fin (PI / 2) /\
    In_iv (p_bin OP_ATAN2 (Fin 1) (Fin 0)) (iatan2 XI Y X).
  Proof.
    intros Y X. assert (HY : In_iv (Fin 1) Y) by (apply In_iv_mk_fin; lra).
    assert (HX : In_iv (Fin 0) X) by (apply In_iv_mk_fin; lra).
    assert (F : nanf (iatan2 XI Y X) = false)
      by (unfold Y, X, iatan2, contains_zero; simpl; rcomp; reflexivity).
    do 3 (split; [auto|]). split.
    - rewrite pb_atan2. apply (at2_zero_x_pos _ xatan2_props). simpl; rcomp; reflexivity.
    - rewrite pb_atan2. apply iatan2_mem; auto.
  Qed.

  (* state(): [-3,-1] is FILLED and its members are negative *)
  Example ex_state : state_of XI (mk XI (Fin (-3)) (Fin (-1))) = FILLED.
  Proof. unfold state_of, is_empty, is_filled; simpl. rcomp. reflexivity. Qed.

  (* ================================================================ *)
  (* Limits of the side conditions (conditional on what Boost returns)  *)

  (* mod's flag alone (libfive's part), for ALL bounds and without any assumption
     on Boost: a NaN point result is always announced. *)
  Theorem imod_flag_sound x y A B' :
    In_iv x A -> In_iv y B' -> xmod x y = NaN -> nanf (imod XI B A B') = true.
  Proof.
    intros HA HB Hn. apply (proj1 (xmod_nan _ _)) in Hn. unfold imod; cbn [nanf]; xi_norm.
    destruct Hn as [->|[->|[->|[Hi|Hi]]]].
    - rewrite (In_iv_nan _ HA). reflexivity.
    - rewrite (In_iv_nan _ HB). bsolve.
    - pose proof (In_iv_zero _ HB) as Hz. unfold contains_zero in Hz. xi_norm. bsolve.
    - pose proof (In_iv_is_inf _ _ HA Hi). bsolve.
    - pose proof (In_iv_is_inf _ _ HB Hi). bsolve.
  Qed.

  (* [quot_finite] cannot be dropped: with a sound but useless Boost quotient
     (the whole line) both floors are "0" and the refinement returns a - 0*b = a.
     In C++ this is the int cast of an infinite / >= 2^31 float (undefined). *)
  Example imod_refine_needs_finite_quotient :
    let A := mk XI (Fin 5) (Fin 5) in let B' := mk XI (Fin 3) (Fin 3) in
    b_div B (iv A) (b_abs B (iv B')) = (NInf, PInf) ->
    b_sub B (iv A) (b_scale B (iv B') (Fin 0)) = (Fin 5, Fin 5) ->
    In_iv (Fin 5) A /\ In_iv (Fin 3) B' /\ nanf (imod XI B A B') = false /\
    xmod (Fin 5) (Fin 3) = Fin 2 /\ ~ In_iv (xmod (Fin 5) (Fin 3)) (imod XI B A B').
  Proof.
    intros A B' Hq Hs.
    assert (HA : In_iv (Fin 5) A) by (apply In_iv_mk_fin; lra).
    assert (HB : In_iv (Fin 3) B') by (apply In_iv_mk_fin; lra).
    assert (HM : xmod (Fin 5) (Fin 3) = Fin 2).
    { rewrite xmod_fin by lra. rewrite (Int_part_spec (5 / 3) 1) by lra. f_equal. lra. }
    do 2 (split; [auto|]). split; [|split; [exact HM|]].
    - unfold A, B', imod; simpl. rcomp. reflexivity.
    - rewrite HM. intros [_ H]. specialize (H ltac:(discriminate)).
      unfold imod, lower, upper in H. cbn [iv] in H. simpl in H.
      revert H. rcomp. unfold A, B' in Hq, Hs. simpl in Hq, Hs. rewrite Hq. simpl.
      rewrite Hs. simpl.
      intros [H _]. apply Rleb_true in H. lra.
  Qed.

  (* pow: the exponent is truncated to an int.  For a NON-integer constant
     exponent the bounds are those of another function: 4^(1/2) = 2, but
     int(0.5) = 0 and Boost's pow(_,0) is [1,1]. *)
  Example ipow_noninteger_exponent_unsound :
    let A := mk XI (Fin 4) (Fin 4) in let B' := mk XI (Fin (1/2)) (Fin (1/2)) in
    b_pow B (iv A) 0 = (Fin 1, Fin 1) -> p_bin OP_POW (Fin 4) (Fin (1/2)) = Fin 2 ->
    In_iv (Fin 4) A /\ In_iv (Fin (1/2)) B' /\ nanf (ipow XI B A B') = false /\
    ~ In_iv (p_bin OP_POW (Fin 4) (Fin (1/2))) (ipow XI B A B').
  Proof.
    intros A B' Hb Hp.
    assert (HT : Rtrunc (1 / 2) = 0%Z).
    { unfold Rtrunc. destruct (Rle_dec 0 (1 / 2)); [|lra]. apply Int_part_spec; simpl; lra. }
    split; [apply In_iv_mk_fin; lra|]. split; [apply In_iv_mk_fin; lra|]. split.
    - unfold A, B', ipow, contains_zero; simpl. rewrite HT. rcomp. reflexivity.
    - rewrite Hp. intros [_ H]. specialize (H ltac:(discriminate)).
      unfold ipow, lower, upper in H. cbn [iv] in H. simpl in H. rewrite HT in H.
      simpl in H. unfold A in Hb. simpl in Hb. revert H. rcomp. rewrite Hb. simpl.
      intros [_ H]. apply Rleb_true in H. lra.
  Qed.

  (* ================================================================ *)
  (* The flag formulas BEFORE the repairs, re-defined locally, and their
     counterexamples (kept as regression witnesses).                   *)
  Definition old_isub_flag (a b : xival) : bool :=
    nanf a || nanf b || (xeq (lower a) NInf && xeq (lower b) NInf)
                     || (xeq (upper a) NInf && xeq (upper b) NInf).
  Example old_isub_refuted : exists A B' x y,
    In_iv x A /\ In_iv y B' /\ old_isub_flag A B' = false /\ xsub x y = NaN.
  Proof.
    exists (mk XI (Fin 0) PInf), (mk XI (Fin 0) PInf), PInf, PInf.
    assert (H : In_iv PInf (mk XI (Fin 0) PInf))
      by (split; [discriminate|intros _; split; reflexivity]).
    split; [exact H|]. split; [exact H|]. split; reflexivity.
  Qed.

  Definition old_inth_root_flag (a b : xival) : bool :=
    nanf a || nanf b || (xle (lower a) (Fin 0) && negb (Z.testbit (xtrunc (lower b)) 1)).
  Example old_inth_root_refuted : exists A B' x y n,
    int_const n B' /\ In_iv x A /\ In_iv y B' /\ old_inth_root_flag A B' = false /\
    p_bin OP_NTH_ROOT x y = NaN.
  Proof.
    exists (mk XI (Fin (-4)) (Fin 4)), (mk XI (Fin 2) (Fin 2)), (Fin (-2)), (Fin 2), 2%Z.
    split; [split; reflexivity|]. split; [apply In_iv_mk_fin; lra|].
    split; [apply In_iv_mk_fin; lra|]. split.
    - unfold old_inth_root_flag; simpl. rewrite (Rtrunc_IZR 2). simpl. apply andb_false_r.
    - apply pb_nth_root_nan. right. split; [simpl; rcomp|]; reflexivity.
  Qed.

  Definition old_icompare (a b : xival) : xival :=
    if xlt (upper a) (lower b) then {| iv := (Fin (-1), Fin (-1)); nanf := false |}
    else if xlt (upper b) (lower a) then {| iv := (Fin 1, Fin 1); nanf := false |}
    else {| iv := (Fin (-1), Fin 1); nanf := false |}.
  (* a may-be-NaN operand: the point compare gives 0, the old interval said [-1,-1] *)
  Example old_icompare_refuted : exists A B' x y,
    In_iv x A /\ In_iv y B' /\ nanf (old_icompare A B') = false /\
    ~ In_iv (xcompare x y) (old_icompare A B').
  Proof.
    exists {| iv := (Fin 0, Fin 1); nanf := true |}, (mk XI (Fin 2) (Fin 3)), NaN, (Fin 2).
    split; [split; [reflexivity|congruence]|]. split; [apply In_iv_mk_fin; lra|].
    unfold old_icompare; simpl. rcomp. split; [reflexivity|].
    intros [_ H]. destruct H as [_ H]; [discriminate|]. simpl in H.
    apply Rleb_true in H. lra.
  Qed.

  (* sin / cos / tan without the infinite-bound test *)
  Example old_isin_refuted : exists A x,
    In_iv x A /\ nanf A = false (* old flag = nanf a *) /\ p_un OP_SIN x = NaN.
  Proof.
    exists (mk XI (Fin 0) PInf), PInf.
    split; [split; [discriminate|intros _; split; reflexivity]|].
    split; [reflexivity|]. apply pu_sin_nan. right; left; reflexivity.
  Qed.

  (* mod: the old flag ignored a.maybe_nan, b.maybe_nan and infinite a *)
  Definition old_imod_flag (a b : xival) : bool :=
    xle (Fin 0) (upper b) && xle (lower b) (Fin 0).
  Example old_imod_refuted_nanflag : exists A B' x y,
    In_iv x A /\ In_iv y B' /\ old_imod_flag A B' = false /\ xmod x y = NaN.
  Proof.
    exists {| iv := (Fin 0, Fin 1); nanf := true |}, (mk XI (Fin 1) (Fin 1)), NaN, (Fin 1).
    split; [split; [reflexivity|congruence]|]. split; [apply In_iv_mk_fin; lra|].
    split; [unfold old_imod_flag; simpl; rcomp; reflexivity|].
    apply xmod_nan. left. reflexivity.
  Qed.
  Example old_imod_refuted_infinite_dividend : exists A B' x y,
    In_iv x A /\ In_iv y B' /\ old_imod_flag A B' = false /\ xmod x y = NaN.
  Proof.
    exists (mk XI (Fin 0) PInf), (mk XI (Fin 1) (Fin 1)), PInf, (Fin 1).
    split; [split; [discriminate|intros _; split; reflexivity]|].
    split; [apply In_iv_mk_fin; lra|].
    split; [unfold old_imod_flag; simpl; rcomp; reflexivity|].
    apply xmod_nan. unfold xinf. do 3 right. left. left. reflexivity.
  Qed.

  (* the intermediate repair flagged an infinite dividend but not an infinite DIVISOR:
     d = floor(|1/inf|) = 0, out = 1 - inf*0 = NaN *)
  Definition old2_imod_flag (a b : xival) : bool :=
    nanf a || nanf b || is_inf XI (lower a) || is_inf XI (upper a)
    || (xle (Fin 0) (upper b) && xle (lower b) (Fin 0)).
  Example old_imod_refuted_infinite_divisor : exists A B' x y,
    In_iv x A /\ In_iv y B' /\ old2_imod_flag A B' = false /\ xmod x y = NaN.
  Proof.
    exists (mk XI (Fin 1) (Fin 1)), (mk XI (Fin 1) PInf), (Fin 1), PInf.
    split; [apply In_iv_mk_fin; lra|].
    split; [split; [discriminate|intros _; split; simpl; auto; apply Rleb_true; lra]|].
    split; [unfold old2_imod_flag; simpl; rcomp; reflexivity|].
    apply xmod_nan. unfold xinf. do 4 right. left. reflexivity.
  Qed.

  (* recip / pow with a negative exponent, before the whole-line replacement:
     IF Boost computes 1/[-1,0] = [-inf,-1] (it does: div_negative), the pole
     1/0 = +inf is lost. *)
  Example old_irecip_refuted :
    b_recip B (Fin (-1), Fin 0) = (NInf, Fin (-1)) ->
    let A := mk XI (Fin (-1)) (Fin 0) in
    In_iv (Fin 0) A /\ ~ In_iv (xrecip (Fin 0)) {| iv := b_recip B (iv A); nanf := nanf A |}.
  Proof.
    intros Hb A. split; [apply In_iv_mk_fin; lra|].
    intros [_ H]. unfold xrecip in H. simpl in H. rewrite Hb in H.
    destruct (Req_EM_T 0 0); [|lra]. destruct (Rlt_dec 0 1); [|lra].
    destruct H as [_ H]; [discriminate|]. discriminate.
  Qed.

End Sound.

(* ================================================================== *)
(* Interval::state()                                                   *)
Theorem classified_filled x A :
  In_iv x A -> state_of XI A = FILLED -> (exists r, x = Fin r /\ r < 0) \/ x = NInf.
Proof.
  intros HA. unfold state_of, is_empty, is_filled. xi_norm.
  destruct (nanf A) eqn:EA; [discriminate|].
  destruct (xlt (Fin 0) (lower A)); [discriminate|].
  destruct (xlt (upper A) (Fin 0)) eqn:EU; [intros _|discriminate].
  assert (Hx : x <> NaN) by (eapply In_iv_notnan; eauto).
  destruct (In_iv_inb _ _ HA Hx) as [_ H2].
  assert (Hlt : xlt x (Fin 0) = true) by (eapply xle_lt_trans; eauto).
  destruct x as [r| | |]; simpl in Hlt; try discriminate; auto.
  left; exists r; split; auto. apply Rltb_true; auto.
Qed.

Theorem classified_empty x A :
  In_iv x A -> state_of XI A = EMPTY -> (exists r, x = Fin r /\ 0 < r) \/ x = PInf.
Proof.
  intros HA. unfold state_of, is_empty, is_filled. xi_norm.
  destruct (nanf A) eqn:EA; [discriminate|].
  destruct (xlt (Fin 0) (lower A)) eqn:EL.
  2:{ destruct (xlt (upper A) (Fin 0)); discriminate. }
  intros _.
  assert (Hx : x <> NaN) by (eapply In_iv_notnan; eauto).
  destruct (In_iv_inb _ _ HA Hx) as [H1 _].
  assert (Hlt : xlt (Fin 0) x = true) by (eapply xlt_le_trans; eauto).
  destruct x as [r| | |]; simpl in Hlt; try discriminate; auto.
  left; exists r; split; auto. apply Rltb_true; auto.
Qed.

(* both at once, in the form "non-NaN and of the announced sign" *)
Theorem classified_ok x A :
  In_iv x A ->
  match state_of XI A with
  | FILLED => xlt x (Fin 0) = true
  | EMPTY => xlt (Fin 0) x = true
  | AMBIGUOUS => True
  end.
Proof.
  intros HA. destruct (state_of XI A) eqn:E; auto.
  - destruct (classified_empty _ _ HA E) as [(r & -> & Hr)| ->]; simpl; auto.
    apply Rltb_true; auto.
  - destruct (classified_filled _ _ HA E) as [(r & -> & Hr)| ->]; simpl; auto.
    apply Rltb_true; auto.
Qed.

(* ================================================================== *)
(* Consistency: the section hypotheses are jointly satisfiable.          *)
(* A (deliberately coarse) Boost model -- every primitive returns the whole
   line, except abs which is exact -- and point functions built from Coq's
   Reals satisfy every hypothesis, so the theorems above are not vacuous. *)
Section Consistency.
  Definition whole : xbnd := (NInf, PInf).
  Definition abs0 (b : xbnd) : xbnd :=
    if xle (Fin 0) (fst b) then b
    else if xle (snd b) (Fin 0) then (xneg (snd b), xneg (fst b))
    else if xle (fst b) (Fin 0) && xle (Fin 0) (snd b) then (Fin 0, PInf)
    else b.
  Definition B0 : @bprims xr :=
    {| b_add := fun _ _ => whole; b_sub := fun _ _ => whole; b_mul := fun _ _ => whole;
       b_div := fun _ _ => whole; b_min := fun _ _ => whole; b_max := fun _ _ => whole;
       b_hull := fun _ _ => whole; b_neg := fun _ => whole; b_abs := abs0;
       b_square := fun _ => whole; b_sqrt := fun _ => whole;
       b_sin := fun _ => whole; b_cos := fun _ => whole; b_tan := fun _ => whole;
       b_asin := fun _ => whole; b_acos := fun _ => whole; b_atan := fun _ => whole;
       b_exp := fun _ => whole; b_log := fun _ => whole; b_recip := fun _ => whole;
       b_pow := fun _ _ => whole; b_nth_root := fun _ _ => whole;
       b_scale := fun _ _ => whole; b_empty := (NaN, NaN) |}.

  Definition fin_only (f : R -> R) (x : xr) : xr := match x with Fin r => Fin (f r) | _ => NaN end.
  Definition dom11 (f : R -> R) (x : xr) : xr :=
    match x with
    | Fin r => if Rlt_dec r (-1) then NaN else if Rlt_dec 1 r then NaN else Fin (f r)
    | _ => NaN
    end.
  Definition pu0 (op : opcode) (x : xr) : xr :=
    match op with
    | OP_SQUARE => xsquare x | OP_SQRT => xsqrt x | OP_NEG => xneg x
    | OP_ABS => xabs x | OP_RECIP => xrecip x
    | OP_SIN => fin_only sin x | OP_COS => fin_only cos x | OP_TAN => fin_only tan x
    | OP_ASIN => dom11 asin x | OP_ACOS => dom11 acos x
    | OP_ATAN => match x with Fin r => Fin (atan r) | PInf => Fin (PI / 2)
                            | NInf => Fin (- (PI / 2)) | NaN => NaN end
    | OP_EXP => match x with Fin r => Fin (exp r) | PInf => PInf | NInf => Fin 0 | NaN => NaN end
    | OP_LOG => match x with
                | Fin r => if Rlt_dec r 0 then NaN else if Req_EM_T r 0 then NInf else Fin (ln r)
                | PInf => PInf | _ => NaN end
    | _ => x
    end.
  Definition pow0 (x y : xr) : xr :=
    match x, y with
    | NaN, _ => NaN
    | _, NaN => NaN
    | Fin r, Fin q =>
        let n := Int_part q in
        if Req_EM_T r 0 then (if (n <? 0)%Z then PInf else Fin (powerRZ r n)) else Fin (powerRZ r n)
    | PInf, Fin q => let n := Int_part q in
        if (0 <? n)%Z then PInf else if (n =? 0)%Z then Fin 1 else Fin 0
    | NInf, Fin q => let n := Int_part q in
        if (0 <? n)%Z then (if Z.odd n then NInf else PInf) else if (n =? 0)%Z then Fin 1 else Fin 0
    | _, _ => Fin 1      (* infinite exponents: not modelled *)
    end.
  Definition root0 (x y : xr) : xr :=
    match y with
    | Fin q =>
        let n := Int_part q in
        match x with
        | NaN => NaN
        | Fin r => if Rlt_dec r 0
                   then (if Z.even n then NaN else Fin (- Rpower (- r) (/ IZR n)))
                   else Fin (Rpower r (/ IZR n))
        | PInf => PInf
        | NInf => if Z.even n then NaN else NInf
        end
    | _ => NaN
    end.
  Definition pb0 (op : opcode) (x y : xr) : xr :=
    match op with
    | OP_ADD => xadd x y | OP_SUB => xsub x y | OP_MUL => xmul x y | OP_DIV => xdiv x y
    | OP_MIN => xmin_std x y | OP_MAX => xmax_std x y | OP_NANFILL => xnanfill x y
    | OP_COMPARE => xcompare x y | OP_MOD => xmod x y | OP_ATAN2 => xatan2 x y
    | OP_POW => pow0 x y | OP_NTH_ROOT => root0 x y
    | _ => x
    end.

  Lemma pu0_sin_like f x : fin_only f x = NaN <-> x = NaN \/ xinf x.
  Proof.
    unfold xinf; destruct x; simpl; split; auto; try discriminate.
    intros [H|[H|H]]; discriminate.
  Qed.
  Lemma pu0_dom11 f x : dom11 f x = NaN <->
    x = NaN \/ xlt x (Fin (-1)) = true \/ xlt (Fin 1) x = true.
  Proof.
    destruct x as [r| | |]; simpl; unfold Rltb.
    - destruct (Rlt_dec r (-1)); [tauto|]. destruct (Rlt_dec 1 r); [tauto|].
      split; [discriminate|]. intros [H|[H|H]]; discriminate.
    - tauto.
    - tauto.
    - tauto.
  Qed.

  Lemma xneg_le a b : xle a b = true -> xle (xneg b) (xneg a) = true.
  Proof. intros; xr_auto. Qed.

  Lemma abs0_sound a x : inb x a -> inb (xabs x) (abs0 a).
  Proof.
    intros [H1 H2]. destruct a as [l u]. unfold abs0. cbn [fst snd] in *.
    destruct (xle (Fin 0) l) eqn:E1; [|destruct (xle u (Fin 0)) eqn:E2;
      [|destruct (xle l (Fin 0) && xle (Fin 0) u) eqn:E3]].
    - assert (E : xabs x = x).
      { pose proof (xle_trans _ _ _ E1 H1) as H0.
        destruct x; simpl in *; try discriminate; auto.
        f_equal. apply Rabs_pos_eq. apply Rleb_true in H0. lra. }
      rewrite E. split; auto.
    - assert (E : xabs x = xneg x).
      { pose proof (xle_trans _ _ _ H2 E2) as H0.
        destruct x; simpl in *; try discriminate; auto.
        f_equal. apply Rabs_left1. apply Rleb_true in H0. lra. }
      rewrite E. split; cbn [fst snd]; apply xneg_le; auto.
    - split; cbn [fst snd]; destruct x; simpl in *; try discriminate; auto.
      apply Rleb_true. apply Rabs_pos.
    - exfalso. destruct (xle_not_nan _ _ H1) as [Nl _]. destruct (xle_not_nan _ _ H2) as [_ Nu].
      apply xle_false_xlt in E1; auto; try discriminate.
      apply xle_false_xlt in E2; auto; try discriminate.
      rewrite (xlt_xle _ _ E1), (xlt_xle _ _ E2) in E3. discriminate.
  Qed.
  Lemma abs0_nz a : ~ inb (Fin 0) a -> ~ inb (Fin 0) (abs0 a).
  Proof.
    intros Hn [H1 H2]. apply Hn. destruct a as [l u]. unfold abs0, inb in *. cbn [fst snd] in *.
    destruct (xle (Fin 0) l) eqn:E1; [split; auto|].
    destruct (xle u (Fin 0)) eqn:E2; cbn [fst snd] in *.
    - destruct l, u; simpl in *; try discriminate;
        try apply Rleb_true in H1; try apply Rleb_true in H2; try apply Rleb_true in E2;
        split; auto; apply Rleb_true; lra.
    - destruct (xle l (Fin 0) && xle (Fin 0) u) eqn:E3; cbn [fst snd] in *.
      + apply andb_true_iff in E3. exact E3.
      + split; auto.
  Qed.

  Lemma B0_sound : B_sound B0 pu0 pb0.
  Proof.
    assert (K : forall a, inb NaN a -> False) by (intros a H; exact (inb_not_nan _ _ H eq_refl)).
    constructor; intros; simpl; try (apply inb_whole; auto; fail).
    - apply inb_whole. intro E. apply (proj1 (xmin_std_nan _ _)) in E. subst. eauto.
    - apply inb_whole. intro E. apply (proj1 (xmax_std_nan _ _)) in E. subst. eauto.
    - apply inb_whole. intro E. subst. eauto.
    - apply inb_whole. intro E. subst. eauto.
    - apply inb_whole. intro E. apply (proj1 (xneg_nan _)) in E. subst. eauto.
    - apply abs0_sound; auto.
    - apply abs0_nz; auto.
    - apply inb_whole. intro E. apply (proj1 (xsquare_nan _)) in E. subst. eauto.
    - apply inb_whole. intro E. apply (proj1 (xrecip_nan _)) in E. subst. eauto.
  Qed.

  Lemma pow0_notnan x n : x <> NaN -> pow0 x (Fin (IZR n)) <> NaN.
  Proof.
    intros Hx. destruct x as [r| | |]; simpl; try congruence.
    - destruct (Req_EM_T r 0); [destruct (Int_part (IZR n) <? 0)%Z|]; discriminate.
    - destruct (0 <? Int_part (IZR n))%Z; [discriminate|].
      destruct (Int_part (IZR n) =? 0)%Z; discriminate.
    - destruct (0 <? Int_part (IZR n))%Z; [destruct (Z.odd _); discriminate|].
      destruct (Int_part (IZR n) =? 0)%Z; discriminate.
  Qed.
  Lemma root0_nan x n : root0 x (Fin (IZR n)) = NaN <->
    x = NaN \/ (xlt x (Fin 0) = true /\ Z.even n = true).
  Proof.
    simpl. rewrite Int_part_IZR. destruct x as [r| | |]; simpl; unfold Rltb.
    - destruct (Rlt_dec r 0); [destruct (Z.even n)|]; split; auto; try discriminate;
        intros [H|[H1 H2]]; discriminate.
    - split; [discriminate|]. intros [H|[H1 H2]]; discriminate.
    - destruct (Z.even n); split; auto; try discriminate. intros [H|[H1 H2]]; discriminate.
    - tauto.
  Qed.

  (* every hypothesis of Section Sound holds for (B0, pu0, pb0): the end-to-end
     theorem is available without any assumption *)
  Theorem eval_sound_std_instance t D sp si :
    wf t D -> tape_ok B0 (ok_std B0) t si ->
    (forall n, D n -> In_iv (sp n) (si n)) ->
    forall n, def_run t D n -> In_iv (run_pt pu0 pb0 t sp n) (run_iv B0 t si n).
  Proof.
    apply eval_sound_std; try (intros; reflexivity).
    - intros; apply pu0_sin_like.
    - intros; apply pu0_sin_like.
    - intros; apply pu0_sin_like.
    - intros; apply pu0_dom11.
    - intros; apply pu0_dom11.
    - intros x; destruct x; simpl; split; auto; discriminate.
    - intros x Hx. pose proof PI_RGT_0. destruct x as [r| | |]; simpl; try congruence;
        split; apply Rleb_true; try lra; destruct (atan_bound r); lra.
    - intros x; destruct x; simpl; split; auto; discriminate.
    - intros x; destruct x as [r| | |]; simpl; unfold Rltb.
      + destruct (Rlt_dec r 0); [tauto|]. destruct (Req_EM_T r 0);
          (split; [discriminate|intros [H|H]; discriminate]).
      + split; [discriminate|intros [H|H]; discriminate].
      + tauto.
      + tauto.
    - apply pow0_notnan.
    - apply root0_nan.
    - apply B0_sound.
  Qed.
End Consistency.
