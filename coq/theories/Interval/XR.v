(* Extended reals with NaN: IEEE-754 arithmetic WITHOUT rounding.
   - [xr] = finite reals, +inf, -inf, NaN;  there is a single zero, treated as +0
     (x/0 = +inf for x>0, -inf for x<0, NaN for x=0).
   - comparisons are false whenever an operand is NaN.
   - [xr_iops] instantiates the number interface of IntervalModel.v.
   Used by IntervalSound.v as the "exact point semantics" against which libfive's
   Interval class (flag logic + case splits) is checked. *)
From Coq Require Import Reals Lra ZArith Bool Lia.
From LF Require Import Base.Opcode Interval.IntervalModel.
Local Open Scope R_scope.

Inductive xr := Fin (r : R) | PInf | NInf | NaN.

(* ------------------------------------------------------------------ *)
(* Boolean comparisons on R and their reflection                       *)
Definition Rltb (a b : R) : bool := if Rlt_dec a b then true else false.
Definition Rleb (a b : R) : bool := if Rle_dec a b then true else false.
Definition Reqb (a b : R) : bool := if Req_EM_T a b then true else false.

Lemma Rltb_true a b : Rltb a b = true <-> a < b.
Proof. unfold Rltb; destruct (Rlt_dec a b); split; intros; try discriminate; auto; lra. Qed.
Lemma Rltb_false a b : Rltb a b = false <-> b <= a.
Proof. unfold Rltb; destruct (Rlt_dec a b); split; intros; try discriminate; auto; lra. Qed.
Lemma Rleb_true a b : Rleb a b = true <-> a <= b.
Proof. unfold Rleb; destruct (Rle_dec a b); split; intros; try discriminate; auto; lra. Qed.
Lemma Rleb_false a b : Rleb a b = false <-> b < a.
Proof. unfold Rleb; destruct (Rle_dec a b); split; intros; try discriminate; auto; lra. Qed.
Lemma Reqb_true a b : Reqb a b = true <-> a = b.
Proof. unfold Reqb; destruct (Req_EM_T a b); split; intros; try discriminate; auto; lra. Qed.
Lemma Reqb_false a b : Reqb a b = false <-> a <> b.
Proof. unfold Reqb; destruct (Req_EM_T a b); split; intros; try discriminate; auto; lra. Qed.

(* destruct every real decision in sight, then close with lra / congruence *)
Ltac rdec :=
  unfold Rltb, Rleb, Reqb in *;
  repeat match goal with
  | |- context [Rlt_dec ?a ?b] => destruct (Rlt_dec a b)
  | |- context [Rle_dec ?a ?b] => destruct (Rle_dec a b)
  | |- context [Req_EM_T ?a ?b] => destruct (Req_EM_T a b)
  | H : context [Rlt_dec ?a ?b] |- _ => destruct (Rlt_dec a b)
  | H : context [Rle_dec ?a ?b] |- _ => destruct (Rle_dec a b)
  | H : context [Req_EM_T ?a ?b] |- _ => destruct (Req_EM_T a b)
  end.

(* ------------------------------------------------------------------ *)
(* Order: -inf < Fin r < +inf ; everything false on NaN                *)
Definition xlt (a b : xr) : bool :=
  match a with
  | NaN => false
  | NInf => match b with NaN | NInf => false | _ => true end
  | Fin x => match b with Fin y => Rltb x y | PInf => true | _ => false end
  | PInf => false
  end.
Definition xle (a b : xr) : bool :=
  match a with
  | NaN => false
  | NInf => match b with NaN => false | _ => true end
  | Fin x => match b with Fin y => Rleb x y | PInf => true | _ => false end
  | PInf => match b with PInf => true | _ => false end
  end.
Definition xeq (a b : xr) : bool :=
  match a, b with
  | Fin x, Fin y => Reqb x y
  | PInf, PInf => true
  | NInf, NInf => true
  | _, _ => false
  end.

Definition xisnan (a : xr) : bool := match a with NaN => true | _ => false end.
Definition xisfinite (a : xr) : bool := match a with Fin _ => true | _ => false end.
Definition xinf (a : xr) : Prop := a = PInf \/ a = NInf.

(* ------------------------------------------------------------------ *)
(* Arithmetic                                                          *)
Definition xneg (x : xr) : xr :=
  match x with Fin r => Fin (- r) | PInf => NInf | NInf => PInf | NaN => NaN end.
Definition xabs (x : xr) : xr :=
  match x with Fin r => Fin (Rabs r) | PInf | NInf => PInf | NaN => NaN end.

Definition xadd (x y : xr) : xr :=
  match x with
  | NaN => NaN
  | Fin a => match y with Fin b => Fin (a + b) | _ => y end
  | PInf => match y with NaN | NInf => NaN | _ => PInf end
  | NInf => match y with NaN | PInf => NaN | _ => NInf end
  end.
Definition xsub (x y : xr) : xr := xadd x (xneg y).

Definition inf_of (pos : bool) : xr := if pos then PInf else NInf.
(* (Fin a) * (inf of the given sign) *)
Definition mul_inf (a : R) (pos : bool) : xr :=
  if Rlt_dec 0 a then inf_of pos else if Rlt_dec a 0 then inf_of (negb pos) else NaN.
Definition xmul (x y : xr) : xr :=
  match x with
  | NaN => NaN
  | Fin a => match y with Fin b => Fin (a * b) | PInf => mul_inf a true
                        | NInf => mul_inf a false | NaN => NaN end
  | PInf => match y with Fin b => mul_inf b true | PInf => PInf | NInf => NInf | NaN => NaN end
  | NInf => match y with Fin b => mul_inf b false | PInf => NInf | NInf => PInf | NaN => NaN end
  end.
Definition xsquare (x : xr) : xr := xmul x x.

(* the zero divisor is +0 *)
Definition xdiv (x y : xr) : xr :=
  match x with
  | NaN => NaN
  | Fin a => match y with
             | Fin b => if Req_EM_T b 0
                        then (if Rlt_dec 0 a then PInf else if Rlt_dec a 0 then NInf else NaN)
                        else Fin (a / b)
             | PInf | NInf => Fin 0
             | NaN => NaN end
  | PInf => match y with Fin b => if Rlt_dec b 0 then NInf else PInf | _ => NaN end
  | NInf => match y with Fin b => if Rlt_dec b 0 then PInf else NInf | _ => NaN end
  end.
Definition xrecip (x : xr) : xr := xdiv (Fin 1) x.

Definition xsqrt (x : xr) : xr :=
  match x with
  | Fin r => if Rlt_dec r 0 then NaN else Fin (sqrt r)
  | PInf => PInf
  | _ => NaN
  end.

(* std::min(a,b) = (b < a) ? b : a   /   std::max(a,b) = (a < b) ? b : a *)
Definition xmin_std (a b : xr) : xr := if xlt b a then b else a.
Definition xmax_std (a b : xr) : xr := if xlt a b then b else a.
(* fmin / fmax ignore a NaN operand *)
Definition xfmin (a b : xr) : xr :=
  match a, b with NaN, _ => b | _, NaN => a | _, _ => if xlt b a then b else a end.
Definition xfmax (a b : xr) : xr :=
  match a, b with NaN, _ => b | _, NaN => a | _, _ => if xlt a b then b else a end.

Definition xcompare (a b : xr) : xr :=
  if xlt a b then Fin (-1) else if xlt b a then Fin 1 else Fin 0.
Definition xnanfill (a b : xr) : xr := match a with NaN => b | _ => a end.

(* floor / ceil as numbers *)
Definition xfloor (x : xr) : xr := match x with Fin r => Fin (IZR (Int_part r)) | _ => x end.
Definition xceil (x : xr) : xr := xneg (xfloor (xneg x)).

(* int(x): truncation toward zero ; static_cast<int>(floor x) *)
Definition Rtrunc (r : R) : Z := if Rle_dec 0 r then Int_part r else (- Int_part (- r))%Z.
Definition xtrunc (x : xr) : Z := match x with Fin r => Rtrunc r | _ => 0%Z end.
Definition xfloor_int (x : xr) : Z := match x with Fin r => Int_part r | _ => 0%Z end.

(* libm atan2 (with the single zero read as +0) *)
Definition ratan2 (b a : R) : R :=
  if Rlt_dec 0 a then atan (b / a)
  else if Rlt_dec a 0 then (if Rlt_dec b 0 then atan (b / a) - PI else atan (b / a) + PI)
  else if Rlt_dec 0 b then PI / 2
  else if Rlt_dec b 0 then - (PI / 2)
  else 0.
Definition xatan2 (y x : xr) : xr :=
  match y, x with
  | NaN, _ | _, NaN => NaN
  | PInf, PInf => Fin (PI / 4)
  | NInf, PInf => Fin (- (PI / 4))
  | Fin _, PInf => Fin 0
  | PInf, NInf => Fin (3 * PI / 4)
  | NInf, NInf => Fin (- (3 * PI / 4))
  | Fin b, NInf => if Rlt_dec b 0 then Fin (- PI) else Fin PI
  | PInf, Fin _ => Fin (PI / 2)
  | NInf, Fin _ => Fin (- (PI / 2))
  | Fin b, Fin a => Fin (ratan2 b a)
  end.

(* The array kernel's OP_MOD, literally (eval_array.cpp), on exact numbers:
     d = fabs(a/b); d = ((a<0)^(b<0)) ? -ceil(d) : floor(d); out = a - b*d;
     then the two clamps. *)
Definition xmod (a b : xr) : xr :=
  let d0 := xabs (xdiv a b) in
  let d := if xorb (xlt a (Fin 0)) (xlt b (Fin 0)) then xneg (xceil d0) else xfloor d0 in
  let o := xsub a (xmul b d) in
  let o1 := if (xlt (Fin 0) b && xlt b o) || (xlt b (Fin 0) && xlt o b) then b else o in
  if (xlt (Fin 0) b && xlt o1 (Fin 0)) || (xlt b (Fin 0) && xlt (Fin 0) o1) then Fin 0 else o1.

Definition xr_iops : @iops xr :=
  {| i_ltb := xlt; i_leb := xle; i_eqb := xeq;
     i_zero := Fin 0; i_one := Fin 1; i_mone := Fin (-1);
     i_pinf := PInf; i_ninf := NInf;
     i_pi := Fin PI; i_negpi := Fin (- PI);
     i_neghalfpi := Fin (- (PI / 2)); i_halfpi := Fin (PI / 2);
     i_isnan := xisnan; i_isfinite := xisfinite;
     i_trunc := xtrunc; i_floor_int := xfloor_int;
     i_of_Z := fun z => Fin (IZR z);
     i_fmin := xfmin; i_fmax := xfmax;
     i_atan2 := xatan2 |}.

(* ------------------------------------------------------------------ *)
(* Case-analysis tactic                                                *)
Ltac xr_cases :=
  repeat match goal with x : xr |- _ => destruct x end.
Ltac xr_auto :=
  xr_cases; simpl in *; try discriminate; try congruence; try tauto;
  rdec; try discriminate; try congruence; try lra; try tauto.

(* ------------------------------------------------------------------ *)
(* Order lemmas                                                        *)
Lemma xlt_nan_l b : xlt NaN b = false.  Proof. reflexivity. Qed.
Lemma xlt_nan_r a : xlt a NaN = false.  Proof. destruct a; reflexivity. Qed.
Lemma xle_nan_l b : xle NaN b = false.  Proof. reflexivity. Qed.
Lemma xle_nan_r a : xle a NaN = false.  Proof. destruct a; reflexivity. Qed.

Lemma xle_not_nan a b : xle a b = true -> a <> NaN /\ b <> NaN.
Proof. intros; split; intro; subst; xr_auto. Qed.
Lemma xlt_not_nan a b : xlt a b = true -> a <> NaN /\ b <> NaN.
Proof. intros; split; intro; subst; xr_auto. Qed.

Lemma xle_refl a : a <> NaN -> xle a a = true.
Proof. intros; xr_auto. Qed.
Lemma xle_trans a b c : xle a b = true -> xle b c = true -> xle a c = true.
Proof. intros; xr_auto. Qed.
Lemma xlt_trans a b c : xlt a b = true -> xlt b c = true -> xlt a c = true.
Proof. intros; xr_auto. Qed.
Lemma xle_lt_trans a b c : xle a b = true -> xlt b c = true -> xlt a c = true.
Proof. intros; xr_auto. Qed.
Lemma xlt_le_trans a b c : xlt a b = true -> xle b c = true -> xlt a c = true.
Proof. intros; xr_auto. Qed.
Lemma xlt_xle a b : xlt a b = true -> xle a b = true.
Proof. intros; xr_auto. Qed.
Lemma xle_antisym a b : xle a b = true -> xle b a = true -> a = b.
Proof. intros; xr_auto; f_equal; lra. Qed.
Lemma xle_total a b : a <> NaN -> b <> NaN -> xle a b = true \/ xle b a = true.
Proof. intros; xr_auto; try (left; reflexivity); try (right; reflexivity). Qed.
Lemma xlt_irrefl a : xlt a a = false.
Proof. xr_auto. Qed.
Lemma xlt_negb_xle a b : a <> NaN -> b <> NaN -> xlt a b = negb (xle b a).
Proof. intros; xr_auto. Qed.
Lemma xlt_false_xle a b : a <> NaN -> b <> NaN -> xlt a b = false -> xle b a = true.
Proof. intros; xr_auto. Qed.
Lemma xle_false_xlt a b : a <> NaN -> b <> NaN -> xle a b = false -> xlt b a = true.
Proof. intros; xr_auto. Qed.
Lemma xlt_asym a b : xlt a b = true -> xle b a = false.
Proof. intros; xr_auto. Qed.
Lemma xle_xlt_or_eq a b : xle a b = true -> xlt a b = true \/ a = b.
Proof. intros; xr_auto; try (left; reflexivity); try (right; reflexivity).
  destruct (Req_EM_T r r0); [right; congruence | left]; rdec; auto; lra. Qed.

Lemma xeq_true a b : xeq a b = true <-> a = b /\ a <> NaN.
Proof.
  split.
  - intros; xr_auto; split; congruence.
  - intros [-> H]; xr_auto.
Qed.

Lemma xle_PInf_l u : xle PInf u = true -> u = PInf.
Proof. intros; xr_auto. Qed.
Lemma xle_NInf_r l : xle l NInf = true -> l = NInf.
Proof. intros; xr_auto. Qed.
Lemma xle_PInf_r a : a <> NaN -> xle a PInf = true.
Proof. intros; xr_auto. Qed.
Lemma xle_NInf_l a : a <> NaN -> xle NInf a = true.
Proof. intros; xr_auto. Qed.

Lemma xle_Fin a b : xle (Fin a) (Fin b) = true <-> a <= b.
Proof. simpl; apply Rleb_true. Qed.
Lemma xlt_Fin a b : xlt (Fin a) (Fin b) = true <-> a < b.
Proof. simpl; apply Rltb_true. Qed.

(* finite between finite *)
Lemma between_finite l u x :
  xisfinite l = true -> xisfinite u = true -> xle l x = true -> xle x u = true ->
  exists r, x = Fin r.
Proof. intros; xr_auto; eexists; reflexivity. Qed.

(* ------------------------------------------------------------------ *)
(* When is the result NaN?                                             *)
Lemma xneg_nan x : xneg x = NaN <-> x = NaN.
Proof. split; intros; xr_auto. Qed.
Lemma xabs_nan x : xabs x = NaN <-> x = NaN.
Proof. split; intros; xr_auto. Qed.
Lemma xneg_involutive x : xneg (xneg x) = x.
Proof. destruct x; simpl; auto; f_equal; lra. Qed.

Lemma xadd_nan x y :
  xadd x y = NaN <-> x = NaN \/ y = NaN \/ (x = PInf /\ y = NInf) \/ (x = NInf /\ y = PInf).
Proof.
  split.
  - intros; xr_auto.
  - intros [->|[->|[[-> ->]|[-> ->]]]]; try reflexivity. destruct x; reflexivity.
Qed.
Lemma xsub_nan x y :
  xsub x y = NaN <-> x = NaN \/ y = NaN \/ (x = PInf /\ y = PInf) \/ (x = NInf /\ y = NInf).
Proof.
  unfold xsub; rewrite xadd_nan. split.
  - intros [H|[H|[[H1 H2]|[H1 H2]]]]; auto.
    + apply (proj1 (xneg_nan _)) in H; right; left; exact H.
    + destruct y; simpl in H2; try discriminate; subst; auto.
    + destruct y; simpl in H2; try discriminate; subst; auto.
  - intros [->|[->|[[-> ->]|[-> ->]]]]; simpl; auto.
Qed.
Lemma xmul_nan x y :
  xmul x y = NaN <-> x = NaN \/ y = NaN \/ (xinf x /\ y = Fin 0) \/ (x = Fin 0 /\ xinf y).
Proof.
  unfold xinf. split.
  - intros H; destruct x, y; simpl in H; unfold mul_inf in H; try discriminate; auto;
      rdec; simpl in *; try discriminate;
      assert (r = 0) by lra; subst; auto 6.
  - intros [->|[->|[[[->| ->] ->]|[-> [->| ->]]]]]; simpl; auto; try (destruct x; reflexivity);
      unfold mul_inf; rdec; try lra; reflexivity.
Qed.
Lemma xsquare_nan x : xsquare x = NaN <-> x = NaN.
Proof.
  unfold xsquare; rewrite xmul_nan; unfold xinf; split; [|auto].
  intros [H|[H|[[[H|H] H']|[H' [H|H]]]]]; auto; congruence.
Qed.
Lemma xdiv_nan x y :
  xdiv x y = NaN <->
  x = NaN \/ y = NaN \/ (xinf x /\ xinf y) \/ (x = Fin 0 /\ y = Fin 0).
Proof.
  unfold xinf. split.
  - intros H; destruct x, y; simpl in H; try discriminate; auto 6; rdec; try discriminate.
    assert (r = 0) by lra; subst; auto 6.
  - intros [->|[->|[[[->| ->] [->| ->]]|[-> ->]]]]; simpl; auto; try (destruct x; reflexivity).
    rdec; try lra; reflexivity.
Qed.
Lemma xrecip_nan x : xrecip x = NaN <-> x = NaN.
Proof.
  unfold xrecip; rewrite xdiv_nan; unfold xinf; split; [|auto].
  intros [H|[H|[[[H|H] _]|[H _]]]]; auto; try discriminate.
  inversion H; lra.
Qed.
Lemma xsqrt_nan x : xsqrt x = NaN <-> x = NaN \/ xlt x (Fin 0) = true.
Proof.
  split.
  - intros; xr_auto.
  - intros [->|H]; auto. xr_auto.
Qed.
Lemma xmin_std_nan a b : xmin_std a b = NaN <-> a = NaN.
Proof.
  unfold xmin_std; split.
  - destruct (xlt b a) eqn:E; auto. intros ->. rewrite xlt_nan_l in E; discriminate.
  - intros ->. rewrite xlt_nan_r; reflexivity.
Qed.
Lemma xmax_std_nan a b : xmax_std a b = NaN <-> a = NaN.
Proof.
  unfold xmax_std; split.
  - destruct (xlt a b) eqn:E; auto. intros ->. rewrite xlt_nan_r in E; discriminate.
  - intros ->. reflexivity.
Qed.
Lemma xcompare_not_nan a b : xcompare a b <> NaN.
Proof. unfold xcompare; destruct (xlt a b), (xlt b a); discriminate. Qed.

(* ------------------------------------------------------------------ *)
(* Int_part facts                                                      *)
Lemma Int_part_spec r z : IZR z <= r < IZR z + 1 -> Int_part r = z.
Proof.
  intros [H1 H2]. destruct (base_Int_part r) as [B1 B2].
  assert (A1 : IZR (Int_part r) < IZR z + 1) by lra.
  assert (A2 : IZR z < IZR (Int_part r) + 1) by lra.
  rewrite <- plus_IZR in A1, A2. apply lt_IZR in A1, A2. lia.
Qed.
Lemma Int_part_IZR z : Int_part (IZR z) = z.
Proof. apply Int_part_spec; lra. Qed.
Lemma Int_part_mono a b : a <= b -> (Int_part a <= Int_part b)%Z.
Proof.
  intros H. destruct (base_Int_part a) as [A1 A2]. destruct (base_Int_part b) as [B1 B2].
  assert (A : IZR (Int_part a) < IZR (Int_part b) + 1) by lra.
  rewrite <- plus_IZR in A. apply lt_IZR in A. lia.
Qed.
Lemma Rtrunc_IZR z : Rtrunc (IZR z) = z.
Proof.
  unfold Rtrunc. destruct (Rle_dec 0 (IZR z)).
  - apply Int_part_IZR.
  - rewrite <- opp_IZR, Int_part_IZR. lia.
Qed.

(* ------------------------------------------------------------------ *)
(* OP_MOD as computed by the array kernel                              *)
Lemma xmod_fin (a b : R) : b <> 0 ->
  xmod (Fin a) (Fin b) = Fin (a - b * IZR (Int_part (a / b))).
Proof.
  intros Hb.
  destruct (base_Int_part (a / b)) as [F1 F2].
  set (k := IZR (Int_part (a / b))) in *.
  assert (Hq : a = b * (a / b)) by (field; auto).
  (* d = floor(a/b) in every sign combination *)
  assert (Hd : (if xorb (xlt (Fin a) (Fin 0)) (xlt (Fin b) (Fin 0))
                then xneg (xceil (xabs (xdiv (Fin a) (Fin b))))
                else xfloor (xabs (xdiv (Fin a) (Fin b)))) = Fin k).
  { simpl xdiv. destruct (Req_EM_T b 0); [contradiction|]. simpl xabs.
    assert (Hsign : forall P Q : Prop, P -> Q -> True) by auto.
    simpl xlt. unfold Rltb.
    destruct (Rlt_dec a 0) as [Ha|Ha]; destruct (Rlt_dec b 0) as [Hb'|Hb']; simpl xorb; cbv iota.
    - (* a<0, b<0 : quotient positive *)
      assert (0 < a / b).
      { replace (a / b) with ((- a) / (- b)) by (field; auto).
        apply Rdiv_lt_0_compat; lra. }
      simpl. rewrite Rabs_pos_eq by lra. reflexivity.
    - (* a<0, b>0 : quotient negative *)
      assert (a / b < 0).
      { replace (a / b) with (- ((- a) / b)) by (field; auto).
        assert (0 < (- a) / b) by (apply Rdiv_lt_0_compat; lra). lra. }
      unfold xceil. simpl. rewrite Rabs_left by lra.
      rewrite !Ropp_involutive. reflexivity.
    - (* a>=0, b<0 : quotient <= 0 *)
      assert (a / b <= 0).
      { replace (a / b) with (- (a / (- b))) by (field; auto).
        assert (0 <= a / (- b)).
        { unfold Rdiv. apply Rmult_le_pos; [lra|]. left; apply Rinv_0_lt_compat; lra. }
        lra. }
      unfold xceil. simpl. rewrite Rabs_left1 by lra.
      rewrite !Ropp_involutive. reflexivity.
    - (* a>=0, b>0 *)
      assert (0 <= a / b).
      { unfold Rdiv. apply Rmult_le_pos; [lra|]. left; apply Rinv_0_lt_compat; lra. }
      simpl. rewrite Rabs_pos_eq by lra. reflexivity. }
  unfold xmod. rewrite Hd. clear Hd.
  change (xsub (Fin a) (xmul (Fin b) (Fin k))) with (Fin (a + - (b * k))).
  replace (a + - (b * k)) with (a - b * k) by lra.
  (* the clamps are inactive: 0 <= a - b k < b (b>0),  b < a - b k <= 0 (b<0) *)
  assert (Hrange : (0 < b -> 0 <= a - b * k < b) /\ (b < 0 -> b < a - b * k <= 0)).
  { split; intros Hs.
    - assert (b * k <= b * (a / b)) by (apply Rmult_le_compat_l; lra).
      assert (b * (a / b) < b * (k + 1)) by (apply Rmult_lt_compat_l; lra).
      lra.
    - assert ((- b) * k <= (- b) * (a / b)) by (apply Rmult_le_compat_l; lra).
      assert ((- b) * (a / b) < (- b) * (k + 1)) by (apply Rmult_lt_compat_l; lra).
      lra. }
  destruct Hrange as [Hp Hn].
  cbn [xlt].
  destruct (Rlt_dec 0 b) as [P|P].
  - destruct (Hp P).
    rewrite (proj2 (Rltb_true 0 b)) by lra. rewrite (proj2 (Rltb_false b 0)) by lra.
    rewrite (proj2 (Rltb_false b (a - b * k))) by lra. cbn [andb orb xlt].
    rewrite (proj2 (Rltb_false (a - b * k) 0)) by lra. reflexivity.
  - assert (N : b < 0) by lra. destruct (Hn N).
    rewrite (proj2 (Rltb_false 0 b)) by lra. rewrite (proj2 (Rltb_true b 0)) by lra.
    rewrite (proj2 (Rltb_false (a - b * k) b)) by lra. cbn [andb orb xlt].
    rewrite (proj2 (Rltb_false 0 (a - b * k))) by lra. reflexivity.
Qed.

Ltac xmod_solve :=
  unfold xmod, xceil; cbn; unfold Rltb, mul_inf;
  repeat (rdec; cbn in *; unfold mul_inf in *);
  first [reflexivity | exfalso; lra].

Lemma xmod_nan a b :
  xmod a b = NaN <-> a = NaN \/ b = NaN \/ b = Fin 0 \/ xinf a \/ xinf b.
Proof.
  unfold xinf. split.
  - intros H. destruct a as [a| | |], b as [b| | |]; auto 8.
    destruct (Req_EM_T b 0) as [->|Hb]; auto.
    rewrite xmod_fin in H by auto. discriminate.
  - assert (Z0 : IZR (Int_part 0) = 0) by (rewrite (Int_part_IZR 0); reflexivity).
    intros [->|[->|[->|[[->| ->]|[->| ->]]]]].
    + destruct b; xmod_solve.
    + destruct a; xmod_solve.
    + destruct a; xmod_solve.
    + destruct b; xmod_solve.
    + destruct b; xmod_solve.
    + destruct a; unfold xmod, xceil; cbn; rewrite ?Rabs_R0, ?Ropp_0, ?Z0, ?Ropp_0; xmod_solve.
    + destruct a; unfold xmod, xceil; cbn; rewrite ?Rabs_R0, ?Ropp_0, ?Z0, ?Ropp_0; xmod_solve.
Qed.

(* the clamps: a non-NaN result lies between min(b,0) and max(0,b) *)
Lemma xmod_range a b :
  xmod a b <> NaN ->
  xle (xfmin b (Fin 0)) (xmod a b) = true /\ xle (xmod a b) (xfmax (Fin 0) b) = true.
Proof.
  intros H.
  assert (Hc : exists a' b', a = Fin a' /\ b = Fin b' /\ b' <> 0).
  { destruct a as [a'| | |], b as [b'| | |];
      try (exfalso; apply H; apply xmod_nan; unfold xinf; auto 8; fail).
    destruct (Req_EM_T b' 0) as [->|]; [exfalso; apply H; apply xmod_nan; auto|].
    eauto. }
  destruct Hc as (a' & b' & -> & -> & Hb).
  rewrite xmod_fin by auto.
  destruct (base_Int_part (a' / b')) as [F1 F2].
  set (k := IZR (Int_part (a' / b'))) in *.
  assert (Hq : a' = b' * (a' / b')) by (field; auto).
  unfold xfmin, xfmax. cbn [xlt].
  destruct (Rlt_dec 0 b') as [P|P].
  - assert (b' * k <= b' * (a' / b')) by (apply Rmult_le_compat_l; lra).
    assert (b' * (a' / b') < b' * (k + 1)) by (apply Rmult_lt_compat_l; lra).
    rewrite (proj2 (Rltb_true 0 b')) by lra.
    split; apply xle_Fin; lra.
  - assert (N : b' < 0) by lra.
    assert ((- b') * k <= (- b') * (a' / b')) by (apply Rmult_le_compat_l; lra).
    assert ((- b') * (a' / b') < (- b') * (k + 1)) by (apply Rmult_lt_compat_l; lra).
    rewrite (proj2 (Rltb_false 0 b')) by lra.
    split; apply xle_Fin; lra.
Qed.

(* ------------------------------------------------------------------ *)
(* Misc facts used by IntervalSound.v                                  *)
Lemma sign_cases v : v <> NaN ->
  xlt (Fin 0) v = true \/ v = Fin 0 \/ xlt v (Fin 0) = true.
Proof.
  intros H; destruct v as [r| | |]; simpl; auto; try congruence.
  unfold Rltb. destruct (Rlt_dec 0 r); auto. destruct (Rlt_dec r 0); auto.
  right; left; f_equal; lra.
Qed.

Ltac xr_auto2 :=
  xr_cases; simpl in *; try discriminate; try congruence;
  repeat (rdec; simpl in * ); try discriminate; try congruence; try lra; try (exfalso; lra).
Lemma xfmin_mono_l a b c : xle a b = true -> c <> NaN -> xle (xfmin a c) (xfmin b c) = true.
Proof. intros; xr_auto2. Qed.
Lemma xfmax_mono_r a b c : xle a b = true -> c <> NaN -> xle (xfmax c a) (xfmax c b) = true.
Proof. intros; xr_auto2. Qed.

Lemma xcompare_cases a b : xcompare a b = Fin (-1) \/ xcompare a b = Fin 0 \/ xcompare a b = Fin 1.
Proof. unfold xcompare; destruct (xlt a b); auto; destruct (xlt b a); auto. Qed.
Lemma xcompare_lt a b : xlt a b = true -> xcompare a b = Fin (-1).
Proof. unfold xcompare; intros ->; reflexivity. Qed.
Lemma xcompare_gt a b : xlt b a = true -> xcompare a b = Fin 1.
Proof.
  unfold xcompare; intros H. destruct (xlt a b) eqn:E.
  - apply xlt_asym in H. apply xlt_xle in E. congruence.
  - rewrite H; reflexivity.
Qed.

(* What the interval atan2 case split needs from the point atan2. *)
Record atan2_props (f : xr -> xr -> xr) : Prop := {
  at2_nan : forall y x, f y x = NaN <-> y = NaN \/ x = NaN;
  at2_range : forall y x, f y x <> NaN ->
      xle (Fin (- PI)) (f y x) = true /\ xle (f y x) (Fin PI) = true;
  (* y > 0 : decreasing in x *)
  at2_ypos_x : forall y x1 x2, xlt (Fin 0) y = true -> xle x1 x2 = true ->
      xle (f y x2) (f y x1) = true;
  (* y < 0 : increasing in x *)
  at2_yneg_x : forall y x1 x2, xlt y (Fin 0) = true -> xle x1 x2 = true ->
      xle (f y x1) (f y x2) = true;
  (* x > 0 : increasing in y *)
  at2_xpos_y : forall x y1 y2, xlt (Fin 0) x = true -> xle y1 y2 = true ->
      xle (f y1 x) (f y2 x) = true;
  (* x < 0 : decreasing in y on each side of the branch cut *)
  at2_xneg_ypos : forall x y1 y2, xlt x (Fin 0) = true -> xlt (Fin 0) y1 = true ->
      xle y1 y2 = true -> xle (f y2 x) (f y1 x) = true;
  at2_xneg_yneg : forall x y1 y2, xlt x (Fin 0) = true -> xlt y2 (Fin 0) = true ->
      xle y1 y2 = true -> xle (f y2 x) (f y1 x) = true;
  at2_zero_y : forall x, xlt (Fin 0) x = true -> f (Fin 0) x = Fin 0;
  at2_zero_x_pos : forall y, xlt (Fin 0) y = true -> f y (Fin 0) = Fin (PI / 2);
  at2_zero_x_neg : forall y, xlt y (Fin 0) = true -> f y (Fin 0) = Fin (- (PI / 2));
}.

(* ------------------------------------------------------------------ *)
(* XR.xatan2 has the properties the interval case split relies on.     *)
Lemma atan_le a b : a <= b -> atan a <= atan b.
Proof. intros [H| ->]; [left; apply atan_increasing; auto|right; auto]. Qed.

Lemma atan_div_facts b a : a <> 0 ->
  (- PI / 2 < atan (b / a) < PI / 2) /\
  ((0 < a /\ 0 < b) \/ (a < 0 /\ b < 0) -> 0 < atan (b / a)) /\
  ((0 < a /\ b < 0) \/ (a < 0 /\ 0 < b) -> atan (b / a) < 0) /\
  (b = 0 -> atan (b / a) = 0).
Proof.
  intros Ha. split; [apply atan_bound|]. split; [|split].
  - intros H. rewrite <- atan_0. apply atan_increasing.
    destruct H as [[H1 H2]|[H1 H2]].
    + apply Rdiv_lt_0_compat; auto.
    + replace (b / a) with ((- b) / (- a)) by (field; auto). apply Rdiv_lt_0_compat; lra.
  - intros H. rewrite <- atan_0. apply atan_increasing.
    destruct H as [[H1 H2]|[H1 H2]].
    + replace (b / a) with (- ((- b) / a)) by (field; auto).
      assert (0 < (- b) / a) by (apply Rdiv_lt_0_compat; lra). lra.
    + replace (b / a) with (- (b / (- a))) by (field; auto).
      assert (0 < b / (- a)) by (apply Rdiv_lt_0_compat; lra). lra.
  - intros ->. unfold Rdiv. rewrite Rmult_0_l. apply atan_0.
Qed.

Lemma div_le_pos_den a b c : 0 < c -> a <= b -> a / c <= b / c.
Proof.
  intros Hc H. unfold Rdiv. apply Rmult_le_compat_r; auto. left; apply Rinv_0_lt_compat; auto.
Qed.
Lemma div_le_neg_den a b c : c < 0 -> a <= b -> b / c <= a / c.
Proof.
  intros Hc H. replace (b / c) with ((- b) / (- c)) by (field; lra).
  replace (a / c) with ((- a) / (- c)) by (field; lra). apply div_le_pos_den; lra.
Qed.
(* numerator fixed: x |-> b/x is antitone on each side of 0 when b >= 0 *)
Lemma div_anti_pos b x1 x2 : 0 <= b -> 0 < x1 -> x1 <= x2 -> b / x2 <= b / x1.
Proof.
  intros Hb H1 H2. unfold Rdiv. apply Rmult_le_compat_l; auto.
  apply Rinv_le_contravar; auto.
Qed.
Lemma div_anti_neg b x1 x2 : 0 <= b -> x1 <= x2 -> x2 < 0 -> b / x2 <= b / x1.
Proof.
  intros Hb H1 H2.
  replace (b / x2) with (- (b / (- x2))) by (field; lra).
  replace (b / x1) with (- (b / (- x1))) by (field; lra).
  assert (b / (- x1) <= b / (- x2)) by (apply div_anti_pos; lra). lra.
Qed.
Lemma div_mono_pos b x1 x2 : b <= 0 -> 0 < x1 -> x1 <= x2 -> b / x1 <= b / x2.
Proof.
  intros Hb H1 H2.
  replace (b / x2) with (- ((- b) / x2)) by (field; lra).
  replace (b / x1) with (- ((- b) / x1)) by (field; lra).
  assert ((- b) / x2 <= (- b) / x1) by (apply div_anti_pos; lra). lra.
Qed.
Lemma div_mono_neg b x1 x2 : b <= 0 -> x1 <= x2 -> x2 < 0 -> b / x1 <= b / x2.
Proof.
  intros Hb H1 H2.
  replace (b / x2) with (- ((- b) / x2)) by (field; lra).
  replace (b / x1) with (- ((- b) / x1)) by (field; lra).
  assert ((- b) / x2 <= (- b) / x1) by (apply div_anti_neg; lra). lra.
Qed.

(* pose the facts of every atan (b/a) in sight, split the sign tests, finish linearly *)
Ltac atan_facts :=
  repeat match goal with
  | |- context [atan (?b / ?a)] =>
      lazymatch goal with
      | _ : - PI / 2 < atan (b / a) < PI / 2 |- _ => fail
      | _ => idtac
      end;
      let H := fresh "AF" in
      assert (H : a <> 0) by lra;
      destruct (atan_div_facts b a H) as (? & ? & ? & ?); clear H
  end.
Ltac ratan2_tac :=
  pose proof PI_RGT_0; unfold ratan2; rdec; try lra; atan_facts; try lra.

Lemma ratan2_ypos_x b a1 a2 : 0 < b -> a1 <= a2 -> ratan2 b a2 <= ratan2 b a1.
Proof.
  intros Hb H.
  assert (M1 : 0 < a1 -> atan (b / a2) <= atan (b / a1))
    by (intros; apply atan_le, div_anti_pos; lra).
  assert (M2 : a2 < 0 -> atan (b / a2) <= atan (b / a1))
    by (intros; apply atan_le, div_anti_neg; lra).
  ratan2_tac.
Qed.
Lemma ratan2_yneg_x b a1 a2 : b < 0 -> a1 <= a2 -> ratan2 b a1 <= ratan2 b a2.
Proof.
  intros Hb H.
  assert (M1 : 0 < a1 -> atan (b / a1) <= atan (b / a2))
    by (intros; apply atan_le, div_mono_pos; lra).
  assert (M2 : a2 < 0 -> atan (b / a1) <= atan (b / a2))
    by (intros; apply atan_le, div_mono_neg; lra).
  ratan2_tac.
Qed.
Lemma ratan2_xpos_y a b1 b2 : 0 < a -> b1 <= b2 -> ratan2 b1 a <= ratan2 b2 a.
Proof.
  intros Ha H.
  assert (M1 : atan (b1 / a) <= atan (b2 / a)) by (apply atan_le, div_le_pos_den; lra).
  ratan2_tac.
Qed.
Lemma ratan2_xneg_y a b1 b2 : a < 0 -> b1 <= b2 -> (0 < b1 \/ b2 < 0) ->
  ratan2 b2 a <= ratan2 b1 a.
Proof.
  intros Ha H Hs.
  assert (M1 : atan (b2 / a) <= atan (b1 / a)) by (apply atan_le, div_le_neg_den; lra).
  ratan2_tac.
Qed.
Lemma ratan2_range b a :
  - PI <= ratan2 b a <= PI /\
  (0 < a -> - (PI / 2) <= ratan2 b a <= PI / 2) /\
  (0 < b -> 0 <= ratan2 b a) /\ (b < 0 -> ratan2 b a <= 0) /\
  (a < 0 -> 0 < b -> PI / 2 <= ratan2 b a) /\ (a < 0 -> b < 0 -> ratan2 b a <= - (PI / 2)) /\
  (0 < a -> b = 0 -> ratan2 b a = 0) /\
  (a = 0 -> 0 < b -> ratan2 b a = PI / 2) /\ (a = 0 -> b < 0 -> ratan2 b a = - (PI / 2)).
Proof. repeat split; intros; ratan2_tac. Qed.

Ltac fin_hyps :=
  repeat match goal with
  | H : Rltb _ _ = true |- _ => apply Rltb_true in H
  | H : Rleb _ _ = true |- _ => apply Rleb_true in H
  end.

Lemma xatan2_props : atan2_props xatan2.
Proof.
  pose proof PI_RGT_0 as HPI.
  constructor.
  - (* NaN *)
    intros y x; split.
    + destruct y, x; simpl; auto; try discriminate. destruct (Rlt_dec r 0); discriminate.
    + intros [->| ->]; [reflexivity|destruct y; reflexivity].
  - (* range *)
    intros y x Hn. destruct y as [b| | |], x as [a| | |]; simpl in *;
      try (exfalso; apply Hn; reflexivity; fail);
      try (destruct (Rlt_dec b 0)); simpl; split; apply Rleb_true; try lra;
      destruct (ratan2_range b a) as ([? ?] & _); lra.
  - (* y > 0 : decreasing in x *)
    intros y x1 x2 Hy Hx.
    destruct y as [b| | |], x1 as [a1| | |], x2 as [a2| | |]; simpl in *; try discriminate;
      fin_hyps; try (destruct (Rlt_dec b 0); [lra|]); simpl; apply Rleb_true; try lra.
    + apply ratan2_ypos_x; auto.
    + destruct (ratan2_range b a1) as (_ & _ & ? & _); auto.
    + destruct (ratan2_range b a2) as ([? ?] & _); lra.
  - (* y < 0 : increasing in x *)
    intros y x1 x2 Hy Hx.
    destruct y as [b| | |], x1 as [a1| | |], x2 as [a2| | |]; simpl in *; try discriminate;
      fin_hyps; try (destruct (Rlt_dec b 0); [|lra]); simpl; apply Rleb_true; try lra.
    + apply ratan2_yneg_x; auto.
    + destruct (ratan2_range b a1) as (_ & _ & _ & ? & _); auto.
    + destruct (ratan2_range b a2) as ([? ?] & _); lra.
  - (* x > 0 : increasing in y *)
    intros x y1 y2 Hx Hy.
    destruct x as [a| | |], y1 as [b1| | |], y2 as [b2| | |]; simpl in *; try discriminate;
      fin_hyps; simpl; apply Rleb_true; try lra.
    + apply ratan2_xpos_y; auto.
    + destruct (ratan2_range b1 a) as (_ & ? & _); lra.
    + destruct (ratan2_range b2 a) as (_ & ? & _); lra.
  - (* x < 0, y > 0 *)
    intros x y1 y2 Hx Hy1 Hy.
    destruct x as [a| | |], y1 as [b1| | |], y2 as [b2| | |]; simpl in *; try discriminate;
      fin_hyps; repeat (match goal with |- context [Rlt_dec ?u 0] => destruct (Rlt_dec u 0); [lra|] end);
      simpl; apply Rleb_true; try lra.
    + apply ratan2_xneg_y; auto.
    + destruct (ratan2_range b1 a) as (_ & _ & _ & _ & ? & _); lra.
  - (* x < 0, y < 0 *)
    intros x y1 y2 Hx Hy2 Hy.
    destruct x as [a| | |], y1 as [b1| | |], y2 as [b2| | |]; simpl in *; try discriminate;
      fin_hyps; repeat (match goal with |- context [Rlt_dec ?u 0] => destruct (Rlt_dec u 0); [|lra] end);
      simpl; apply Rleb_true; try lra.
    + apply ratan2_xneg_y; auto.
    + destruct (ratan2_range b2 a) as (_ & _ & _ & _ & _ & ? & _); lra.
  - (* y = 0, x > 0 *)
    intros x Hx. destruct x as [a| | |]; simpl in *; try discriminate; auto.
    fin_hyps. f_equal. destruct (ratan2_range 0 a) as (_ & _ & _ & _ & _ & _ & ? & _); auto.
  - intros y Hy. destruct y as [b| | |]; simpl in *; try discriminate; auto.
    fin_hyps. f_equal. destruct (ratan2_range b 0) as (_ & _ & _ & _ & _ & _ & _ & ? & _); auto.
  - intros y Hy. destruct y as [b| | |]; simpl in *; try discriminate; auto.
    fin_hyps. f_equal. destruct (ratan2_range b 0) as (_ & _ & _ & _ & _ & _ & _ & _ & ?); auto.
Qed.
