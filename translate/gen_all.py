"""Runs every source -> Coq translator.  A translator that cannot parse its
input writes a file that fails to compile (so the obligation breaks loudly)."""
import os
import traceback


def run(repo, outdir):
    import gen_opcode
    gens = {"OpcodeTable_gen.v": gen_opcode.generate}
    for extra in ("gen_kernels", "gen_tables", "gen_opmap", "gen_stdlib", "gen_statics", "gen_interval", "gen_fpenv", "gen_keep", "gen_build", "gen_heightmap", "gen_dtor", "gen_render", "gen_progress", "gen_setvar", "gen_toracle", "gen_serial"):
        try:
            mod = __import__(extra)
            gens.update(mod.generators())
        except ImportError:
            pass
    os.makedirs(outdir, exist_ok=True)
    report = {}
    for name, fn in gens.items():
        try:
            text = fn(repo)
            report[name] = "ok"
        except Exception as e:  # translation failure = broken obligation
            text = ("(* TRANSLATION FAILURE: %s *)\nDefinition translation_failed : True := 0.\n"
                    % str(e).replace("*)", "* )"))
            report[name] = "FAILED: " + "".join(traceback.format_exception_only(type(e), e)).strip()
        path = os.path.join(outdir, name)
        if not os.path.exists(path) or open(path).read() != text:
            with open(path, "w") as f:
                f.write(text)
    return report


if __name__ == "__main__":
    import sys
    here = os.path.dirname(os.path.abspath(__file__))
    print(run(os.environ.get("VERIF_REPO", "/repo"), os.path.join(here, "..", "coq", "theories", "Gen")))
